(* Proofs/LifeLedgerSys.v — C09: the invariant is preserved by every operation; consequences
   (baseline after unload, no run after stop, startup/shutdown at most once). *)
From Coq Require Import List NArith Bool Lia.
From PV Require Import Common.Util Gen.LedgerConsts Life.Ledger Life.LedgerCheck Proofs.LifeLedger.
Import ListNotations.
Local Open Scope N_scope.

Local Arguments memp : simpl never.
Local Arguments delp : simpl never.
Local Arguments addp : simpl never.
Local Arguments memn : simpl never.
Local Arguments deln : simpl never.
Local Arguments addn : simpl never.
Local Arguments has_fst : simpl never.
Local Arguments pair_eqb : simpl never.

Lemma Inv_parts W : Inv W -> ids_ok W /\ stat_ok W /\ led_ok W.
Proof. exact (fun H => H). Qed.

Lemma In_all_units W u : In u (all_units W) <-> exists f, owns W f u.
Proof. unfold all_units, owns. apply in_flat_map. Qed.

Lemma find_unit_some W id un : find_unit W id = Some un -> (exists f, owns W f un) /\ u_id un = id.
Proof.
  unfold find_unit. intros H. apply find_some in H. destruct H as [H E]. apply N.eqb_eq in E.
  split; [apply In_all_units; exact H|exact E].
Qed.
Lemma find_func_some W g f : find_func W g = Some f -> In f (w_funcs W) /\ f_gen f = g.
Proof.
  unfold find_func. intros H. apply find_some in H. destruct H as [H E]. apply N.eqb_eq in E. auto.
Qed.

Lemma has_fst_addp_mono k p l : has_fst k l = true -> has_fst k (addp p l) = true.
Proof.
  intros H. apply has_fst_In in H. destruct H as [q H]. apply has_fst_In. exists q. apply In_addp. left; exact H.
Qed.

(* ============================================================================================== *)
(* scheduler steps                                                                                *)
(* ============================================================================================== *)
Lemma prologue_inv id W : Inv W -> Inv (prologue id W) /\ same_tables W (prologue id W) /\
  w_active (prologue id W) = w_active W /\ w_delayed (prologue id W) = w_delayed W.
Proof.
  intros HI. pose proof HI as [I [S L]]. unfold prologue.
  destruct (find_unit W id) as [un|] eqn:FU; [|split; [exact HI|repeat split; reflexivity]].
  destruct (find_unit_some W id un FU) as [[f0 O0] EID].
  destruct (memn id (w_pending W)) eqn:MP.
  2:{ rewrite (so_zomb W S). cbn [memn existsb]. split; [exact HI|repeat split; reflexivity]. }
  apply memn_In in MP.
  destruct (so_pend W S id MP) as [f [u [O [E [NF [A ND]]]]]].
  assert (un = u). { destruct (io_uniq W I f0 un f u O0 O) as [_ X]; [congruence|exact X]. }
  subst un. clear f0 O0 FU EID. subst id.
  destruct (leg_prologue_proj u (w_led W)) as [Ps [Pe [Pb [Pt [Pr Pv]]]]].
  set (L' := fst (leg_prologue u (w_led W))) in *.
  assert (NR : ~ In (u_id u) (w_running W)) by (apply (so_disj W S); exact MP).
  assert (RID : In (u_id u) (addn (u_id u) (w_running W))) by (apply In_addn; right; reflexivity).
  assert (RM : forall x, In x (w_running W) -> In x (addn (u_id u) (w_running W))) by (intros x Hx; apply In_addn; left; exact Hx).
  split; [split; [|split]|repeat split; reflexivity].
  - apply (ids_ok_same W); [split; reflexivity|exact I].
  - destruct S as [SR SP SD SA SZ]. constructor; wsimpl; try assumption.
    + intros x Hx. apply In_addn in Hx. destruct Hx as [Hx| ->]; [apply SR; exact Hx|].
      exists f, u. repeat split; assumption || apply O.
    + intros x Hx. apply In_deln in Hx. destruct Hx as [Hx _]. apply SP. exact Hx.
    + intros x Hx C. apply In_deln in Hx. destruct Hx as [Hx NE]. apply In_addn in C. destruct C as [C|C]; [exact (SD x Hx C)|exact (NE C)].
  - constructor; wsimpl; fold L'.
    + intros e q Hp. rewrite Ps in Hp. destruct (u_state u) as [ids|] eqn:US.
      * apply In_notify_add in Hp. destruct Hp as [Hp|[A1 A2]].
        -- destruct (ok_state W L e q Hp) as [R X]. split; [apply RM; exact R|exact X].
        -- cbn in A1, A2. subst q. split; [exact RID|]. exists f, u, ids. repeat split; assumption || apply O.
      * destruct (ok_state W L e q Hp) as [R X]. split; [apply RM; exact R|exact X].
    + intros ev' q Hp. rewrite Pe in Hp. destruct (u_event u) as [ev|] eqn:UE.
      * apply In_addp in Hp. destruct Hp as [Hp|Hp].
        -- destruct (ok_event W L ev' q Hp) as [R X]. split; [apply RM; exact R|exact X].
        -- inversion Hp; subst. split; [exact RID|]. exists f, u. repeat split; assumption || apply O.
      * destruct (ok_event W L ev' q Hp) as [R X]. split; [apply RM; exact R|exact X].
    + intros ev' o Hp. rewrite Pb in Hp. rewrite Pe.
      assert (OLD : In (ev', o) (l_bus (w_led W)) ->
              (o = 0 /\ has_fst ev' (match u_event u with Some ev => addp (ev, u_id u) (l_event (w_led W)) | None => l_event (w_led W) end) = true) \/
              (In o (addn (u_id u) (w_running W)) /\ exists f u, owns W f u /\ u_id u = o /\ u_event u = Some ev' /\ f_new f = true)).
      { intros H. destruct (ok_bus W L ev' o H) as [[-> X]|[R X]].
        - left. split; [reflexivity|]. destruct (u_event u); [apply has_fst_addp_mono|]; exact X.
        - right. split; [apply RM; exact R|exact X]. }
      destruct (u_event u) as [ev|] eqn:UE; [|apply OLD; exact Hp].
      destruct (has_fst ev (l_event (w_led W))) eqn:HF; [apply OLD; exact Hp|].
      apply In_addp in Hp. destruct Hp as [Hp|Hp]; [apply OLD; exact Hp|].
      inversion Hp; subst. left. split; [reflexivity|]. apply has_fst_In. exists (u_id u). apply In_addp. right; reflexivity.
    + intros t Ht. rewrite Pr. rewrite Pt in Ht.
      assert (Ht' : In t (l_tasks (w_led W))) by (destruct (u_persistent u); [exact Ht|apply In_deln in Ht; tauto]).
      destruct (ok_tasks W L t Ht') as [H|[H|H]]; [left; exact H| |right; right; apply RM; exact H].
      destruct (N.eq_dec t (u_id u)) as [->|NE]; [right; right; exact RID|].
      right; left. apply In_deln. split; assumption.
    + intros g Hg. rewrite Pv in Hg. exact (ok_svc W L g Hg).
Qed.

Lemma do_reap_inv W : Inv W -> Inv (do_reap W).
Proof.
  intros [I [S L]]. unfold do_reap, reap. split; [|split].
  - apply (ids_ok_same W); [split; reflexivity|exact I].
  - destruct S as [SR SP SD SA SZ]. constructor; wsimpl; assumption.
  - destruct L as [KS KE KB KT KV]. constructor; wsimpl; try assumption.
    intros t Ht. apply filter_In in Ht. destruct Ht as [Ht NR]. apply negb_true_iff, memn_false in NR.
    destruct (KT t Ht) as [H|H]; [contradiction|right; exact H].
Qed.

Lemma fold_prologue_inv ids : forall W, Inv W ->
  Inv (fold_left (fun W u => prologue u W) ids W) /\ same_tables W (fold_left (fun W u => prologue u W) ids W) /\
  w_active (fold_left (fun W u => prologue u W) ids W) = w_active W /\
  w_delayed (fold_left (fun W u => prologue u W) ids W) = w_delayed W.
Proof.
  induction ids as [|a r IH]; intros W HI; cbn [fold_left]; [split; [exact HI|repeat split; reflexivity]|].
  destruct (prologue_inv a W HI) as [H1 [[T1 T2] [A1 D1]]].
  destruct (IH _ H1) as [H2 [[T3 T4] [A2 D2]]].
  split; [exact H2|]. unfold same_tables. repeat split; congruence.
Qed.

Lemma settle_inv W : Inv W -> Inv (settle W) /\ same_tables W (settle W) /\ w_active (settle W) = w_active W /\
  w_delayed (settle W) = w_delayed W.
Proof.
  intros HI. unfold settle. destruct (fold_prologue_inv (w_pending W ++ w_zombie W) W HI) as [H1 [[T1 T2] [A1 D1]]].
  split; [apply do_reap_inv; exact H1|]. unfold same_tables, do_reap. wsimpl. repeat split; assumption.
Qed.

(* ============================================================================================== *)
(* folds over the units of one function                                                           *)
(* ============================================================================================== *)
Definition stop_frame (W W' : world) (ids : list N) : Prop :=
  same_tables W W' /\ w_active W' = w_active W /\ w_delayed W' = w_delayed W /\
  (forall x, In x (w_running W') -> In x (w_running W) /\ ~ In x ids) /\
  (forall x, In x (w_pending W') -> In x (w_pending W) /\ ~ In x ids) /\
  l_svc (w_led W') = l_svc (w_led W) /\
  (forall t, In t (l_tasks (w_led W')) -> In t (l_tasks (w_led W))).

Lemma fold_stop_units (stopf : world -> unit_ -> world) f :
  (forall W u, Inv W -> owns W f u -> Inv (stopf W u) /\ stop_post W (stopf W u) (u_id u)) ->
  forall us W, Inv W -> (forall u, In u us -> owns W f u) ->
  Inv (fold_left stopf us W) /\ stop_frame W (fold_left stopf us W) (map u_id us).
Proof.
  intros H us. induction us as [|a r IH]; intros W HI HO; cbn [fold_left map].
  - split; [exact HI|]. unfold stop_frame, same_tables. repeat split; auto.
  - destruct (H W a HI (HO a (or_introl eq_refl))) as [H1 [[T1 T2] [A1 [D1 [R1 [P1 [V1 K1]]]]]]].
    assert (HO1 : forall u, In u r -> owns (stopf W a) f u).
    { intros u Hu. apply (owns_same W); [exact T1|]. apply HO. right; exact Hu. }
    destruct (IH _ H1 HO1) as [H2 [[T3 T4] [A2 [D2 [R2 [P2 [V2 K2]]]]]]].
    split; [exact H2|]. unfold stop_frame, same_tables. repeat split; try congruence.
    + destruct (R2 x H0) as [X _]. destruct (R1 x X) as [Y _]. exact Y.
    + intros [C|C]; [|destruct (R2 x H0) as [_ X]; exact (X C)].
      destruct (R2 x H0) as [X _]. destruct (R1 x X) as [_ Y]. apply Y. symmetry; exact C.
    + destruct (P2 x H0) as [X _]. destruct (P1 x X) as [Y _]. exact Y.
    + intros [C|C]; [|destruct (P2 x H0) as [_ X]; exact (X C)].
      destruct (P2 x H0) as [X _]. destruct (P1 x X) as [_ Y]. apply Y. symmetry; exact C.
    + intros t Ht. apply K1. apply K2. exact Ht.
Qed.

(* ---- worlds that differ only in status lists, the service table and bookkeeping --------------------- *)
Definition same_res (W W' : world) : Prop :=
  w_funcs W' = w_funcs W /\ w_next W <= w_next W' /\ w_pending W' = w_pending W /\ w_zombie W' = w_zombie W /\
  w_running W' = w_running W /\ l_state (w_led W') = l_state (w_led W) /\ l_event (w_led W') = l_event (w_led W) /\
  l_bus (w_led W') = l_bus (w_led W) /\ l_tasks (w_led W') = l_tasks (w_led W) /\ l_reap (w_led W') = l_reap (w_led W).

Lemma Inv_res W W' : Inv W -> same_res W W' ->
  (forall f u, owns W f u -> In (u_id u) (w_running W) \/ In (u_id u) (w_pending W) ->
     In (f_gen f) (w_active W) -> ~ In (f_gen f) (w_delayed W) -> In (f_gen f) (w_active W') /\ ~ In (f_gen f) (w_delayed W')) ->
  (forall g, In g (w_active W') -> exists f, In f (w_funcs W) /\ f_gen f = g) ->
  (forall g, In g (l_svc (w_led W')) -> In g (w_active W') /\ exists f, In f (w_funcs W) /\ f_gen f = g /\
       is_some (f_svc f) = true /\ (f_new f = true -> ~ In g (w_delayed W'))) ->
  Inv W'.
Proof.
  intros [I [S L]] [EF [EN [EP [EZ [ER [ES [EE [EB [ET ERp]]]]]]]]] HST HAC HSV. split; [|split].
  - constructor; unfold owns; rewrite ?EF.
    + pose proof (io_next W I). lia.
    + intros f Hf. destruct (io_gen W I f Hf). split; lia.
    + intros f u O. destruct (io_unit W I f u O) as [A [B C]]. repeat split; [exact A|exact B|lia].
    + apply (io_uniq W I).
    + apply (io_guniq W I).
  - constructor.
    + rewrite ER. intros id Hid. destruct (so_run W S id Hid) as [f [u [O [E [A D]]]]]. exists f, u.
      destruct (HST f u O (or_introl (eq_ind_r (fun x => In x _) Hid E)) A D) as [A' D'].
      split; [apply (owns_same W W' f u EF); exact O|]. auto.
    + rewrite EP. intros id Hid. destruct (so_pend W S id Hid) as [f [u [O [E [NF [A D]]]]]]. exists f, u.
      destruct (HST f u O (or_intror (eq_ind_r (fun x => In x _) Hid E)) A D) as [A' D'].
      split; [apply (owns_same W W' f u EF); exact O|]. auto.
    + rewrite EP, ER. apply (so_disj W S).
    + intros g Hg. rewrite EF. apply HAC. exact Hg.
    + rewrite EZ. apply (so_zomb W S).
  - constructor.
    + rewrite ES, ER. intros e q H. destruct (ok_state W L e q H) as [R [f [u [ids [O X]]]]]. split; [exact R|].
      exists f, u, ids. split; [apply (owns_same W W' f u EF); exact O|exact X].
    + rewrite EE, ER. intros e q H. destruct (ok_event W L e q H) as [R [f [u [O X]]]]. split; [exact R|].
      exists f, u. split; [apply (owns_same W W' f u EF); exact O|exact X].
    + rewrite EB, EE, ER. intros e o H. destruct (ok_bus W L e o H) as [X|[R [f [u [O X]]]]]; [left; exact X|right].
      split; [exact R|]. exists f, u. split; [apply (owns_same W W' f u EF); exact O|exact X].
    + rewrite ET, ERp, EP, ER. apply (ok_tasks W L).
    + rewrite EF. exact HSV.
Qed.

Lemma same_res_refl W : same_res W W.
Proof. repeat split; reflexivity. Qed.
Lemma same_res_trans A B C : same_res A B -> same_res B C -> same_res A C.
Proof.
  intros [a1 [a2 [a3 [a4 [a5 [a6 [a7 [a8 [a9 a10]]]]]]]]] [b1 [b2 [b3 [b4 [b5 [b6 [b7 [b8 [b9 b10]]]]]]]]].
  repeat split; try congruence; lia.
Qed.

(* the service table after Function.service_remove / service_register *)
Lemma svc_remove_fields W f :
  same_res W (svc_remove W f) /\ w_active (svc_remove W f) = w_active W /\ w_delayed (svc_remove W f) = w_delayed W /\
  w_log (svc_remove W f) = w_log W /\ w_starting (svc_remove W f) = w_starting W /\
  l_svc (w_led (svc_remove W f)) = match f_svc f with Some _ => deln (f_gen f) (l_svc (w_led W)) | None => l_svc (w_led W) end.
Proof.
  unfold svc_remove. destruct (f_svc f) as [n|]; [|repeat split; reflexivity].
  cbv zeta. destruct (Nat.eqb _ 0); repeat split; reflexivity.
Qed.
Lemma svc_register_fields W f :
  same_res W (svc_register W f) /\ w_active (svc_register W f) = w_active W /\ w_delayed (svc_register W f) = w_delayed W /\
  w_log (svc_register W f) = w_log W /\ w_starting (svc_register W f) = w_starting W /\
  l_svc (w_led (svc_register W f)) = match f_svc f with Some _ => addn (f_gen f) (l_svc (w_led W)) | None => l_svc (w_led W) end.
Proof. unfold svc_register. destruct (f_svc f) as [n|]; repeat split; reflexivity. Qed.

Lemma svc_remove_next W f : w_next (svc_remove W f) = w_next W.
Proof. unfold svc_remove. destruct (f_svc f); [cbv zeta; destruct (Nat.eqb _ 0)|]; reflexivity. Qed.
Lemma svc_register_next W f : w_next (svc_register W f) = w_next W.
Proof. unfold svc_register. destruct (f_svc f); reflexivity. Qed.

Lemma not_in_map_id us (x : N) : ~ In x (map u_id us) -> forall u, In u us -> u_id u <> x.
Proof. intros H u Hu C. apply H. apply in_map_iff. exists u. split; assumption. Qed.

(* a function leaves the active set: the invariant survives when none of its units is started or pending *)
Lemma deactivate_inv W W' f : Inv W -> In f (w_funcs W) ->
  (forall u, In u (f_units f) -> ~ In (u_id u) (w_running W) /\ ~ In (u_id u) (w_pending W)) ->
  same_res W W' ->
  (forall g, In g (w_active W') <-> In g (w_active W) /\ g <> f_gen f) ->
  (forall g, In g (w_delayed W') -> In g (w_delayed W)) ->
  (forall g, In g (l_svc (w_led W')) -> In g (l_svc (w_led W)) /\ g <> f_gen f) ->
  Inv W'.
Proof.
  intros HI Hf NU SR AC DL SV. pose proof HI as [I [S L]]. apply (Inv_res W W' HI SR).
  - intros f' u' O' HR A D. split.
    + apply AC. split; [exact A|]. intros C. destruct O' as [Hf' Hu']. pose proof (io_guniq W I f' f Hf' Hf C). subst f'.
      destruct (NU u' Hu') as [N1 N2]. tauto.
    + intros C. apply D. apply DL. exact C.
  - intros g Hg. apply AC in Hg. apply (so_act W S). tauto.
  - intros g Hg. destruct (SV g Hg) as [Hg' NE]. destruct (ok_svc W L g Hg') as [A [f' [Hf' [E' [SV' ND']]]]].
    split; [apply AC; split; assumption|]. exists f'. repeat split; try assumption. intros NF C. apply (ND' NF). apply DL. exact C.
Qed.

(* function-level frame of a stop *)
Definition fstop_post (W W' : world) (g : N) : Prop :=
  same_tables W W' /\ (forall x, In x (w_active W') -> In x (w_active W) /\ x <> g) /\
  (forall x, In x (w_active W) -> x <> g -> In x (w_active W')).

Lemma svc_removed_ok W f : Inv W -> In f (w_funcs W) ->
  forall g, In g (match f_svc f with Some _ => deln (f_gen f) (l_svc (w_led W)) | None => l_svc (w_led W) end) ->
  In g (l_svc (w_led W)) /\ g <> f_gen f.
Proof.
  intros [I [S L]] Hf g Hg. destruct (f_svc f) eqn:SV.
  - apply In_deln in Hg. exact Hg.
  - split; [exact Hg|]. intros ->. destruct (ok_svc W L _ Hg) as [_ [f' [Hf' [E' [SV' _]]]]].
    pose proof (io_guniq W I f' f Hf' Hf E'). subst f'. rewrite SV in SV'. discriminate.
Qed.

Lemma stop_frame_res W W' ids : Inv W -> stop_frame W W' ids -> True.
Proof. trivial. Qed.

Lemma leg_func_stop_inv cfg W f : all_off cfg -> Inv W -> In f (w_funcs W) -> f_new f = false ->
  Inv (leg_func_stop cfg W f) /\ fstop_post W (leg_func_stop cfg W f) (f_gen f).
Proof.
  intros AO HI Hf NF. unfold leg_func_stop. destruct (memn (f_gen f) (w_active W)) eqn:MA.
  2:{ apply memn_false in MA. split; [exact HI|]. unfold fstop_post, same_tables. repeat split; auto. intros ->. exact (MA H). }
  destruct (fold_stop_units (leg_unit_stop cfg) f) with (us := f_units f) (W := W) as [H1 [[T1 T2] [A1 [D1 [R1 [P1 [V1 K1]]]]]]].
  - intros W0 u0 HI0 O0. apply (leg_unit_stop_inv cfg W0 f u0 AO HI0 O0 NF).
  - exact HI.
  - intros u Hu. split; assumption.
  - set (W1 := fold_left (leg_unit_stop cfg) (f_units f) W) in *.
    assert (Hf1 : In f (w_funcs W1)) by (rewrite T1; exact Hf).
    assert (NU : forall u, In u (f_units f) -> ~ In (u_id u) (w_running W1) /\ ~ In (u_id u) (w_pending W1)).
    { intros u Hu. split; intros C.
      - destruct (R1 _ C) as [_ X]. apply X. apply in_map. exact Hu.
      - destruct (P1 _ C) as [_ X]. apply X. apply in_map. exact Hu. }
    destruct (svc_remove_fields W1 f) as [SR [SA [SD [_ [_ SV]]]]].
    set (W2 := svc_remove W1 f) in *. cbv zeta.
    assert (SR' : same_res W1 (set_delayed (set_active W2 (deln (f_gen f) (w_active W2))) (deln (f_gen f) (w_delayed W2)))) by exact SR.
    split.
    + apply (deactivate_inv W1 _ f H1 Hf1 NU SR').
      * intros g. wsimpl. rewrite SA. apply In_deln.
      * intros g Hg. wsimpl. rewrite SD in Hg. apply In_deln in Hg. tauto.
      * intros g Hg. wsimpl. rewrite SV in Hg. apply (svc_removed_ok W1 f H1 Hf1 g Hg).
    + destruct SR as [F2 _]. pose proof (svc_remove_next W1 f) as N2. fold W2 in N2. unfold fstop_post, same_tables. wsimpl. repeat split; try congruence.
      * apply In_deln in H. rewrite SA, A1 in H. tauto.
      * apply In_deln in H. tauto.
      * intros x Hx NE. apply In_deln. rewrite SA, A1. split; assumption.
Qed.

Lemma stop_if_running_inv cfg W f u : all_off cfg -> Inv W -> owns W f u -> f_new f = true ->
  Inv (stop_if_running cfg W u) /\ stop_post W (stop_if_running cfg W u) (u_id u).
Proof.
  intros AO HI O NF. unfold stop_if_running. destruct (memn (u_id u) (w_running W)) eqn:MR.
  - apply (dec_unit_stop_inv cfg W f u AO HI O NF).
  - apply memn_false in MR. split; [exact HI|]. destruct HI as [I [S L]].
    unfold stop_post, same_tables. repeat split; auto.
    + intros ->. exact (MR H).
    + intros ->. destruct (so_pend W S _ H) as [f' [u' [O' [E' [NF' _]]]]].
      destruct (io_uniq W I f' u' f u O' O E') as [-> _]. congruence.
Qed.

Lemma dm_stop_inv cfg W f : all_off cfg -> Inv W -> In f (w_funcs W) -> f_new f = true ->
  Inv (dm_stop cfg W f) /\ fstop_post W (dm_stop cfg W f) (f_gen f).
Proof.
  intros AO HI Hf NF. unfold dm_stop.
  destruct (fold_stop_units (stop_if_running cfg) f) with (us := f_units f) (W := W) as [H1 [[T1 T2] [A1 [D1 [R1 [P1 [V1 K1]]]]]]].
  - intros W0 u0 HI0 O0. apply (stop_if_running_inv cfg W0 f u0 AO HI0 O0 NF).
  - exact HI.
  - intros u Hu. split; assumption.
  - set (W1 := fold_left (stop_if_running cfg) (f_units f) W) in *.
    assert (Hf1 : In f (w_funcs W1)) by (rewrite T1; exact Hf).
    assert (NU : forall u, In u (f_units f) -> ~ In (u_id u) (w_running W1) /\ ~ In (u_id u) (w_pending W1)).
    { intros u Hu. split; intros C.
      - destruct (R1 _ C) as [_ X]. apply X. apply in_map. exact Hu.
      - destruct (P1 _ C) as [_ X]. apply X. apply in_map. exact Hu. }
    set (W2 := if memn (f_gen f) (l_svc (w_led W1)) then svc_remove W1 f else W1).
    assert (N2 : w_next W2 = w_next W1) by (unfold W2; destruct (memn (f_gen f) (l_svc (w_led W1))); [apply svc_remove_next|reflexivity]).
    assert (X : same_res W1 W2 /\ w_active W2 = w_active W1 /\ w_delayed W2 = w_delayed W1 /\
                forall g, In g (l_svc (w_led W2)) -> In g (l_svc (w_led W1)) /\ g <> f_gen f).
    { unfold W2. destruct (memn (f_gen f) (l_svc (w_led W1))) eqn:M.
      - destruct (svc_remove_fields W1 f) as [SR [SA [SD [_ [_ SV]]]]]. split; [exact SR|split; [exact SA|split; [exact SD|]]].
        intros g Hg. rewrite SV in Hg. apply (svc_removed_ok W1 f H1 Hf1 g Hg).
      - apply memn_false in M. split; [apply same_res_refl|split; [reflexivity|split; [reflexivity|]]].
        intros g Hg. split; [exact Hg|]. intros ->. exact (M Hg). }
    destruct X as [SR [SA [SD SV]]]. cbv zeta. fold W2.
    assert (SR' : same_res W1 (set_active W2 (deln (f_gen f) (w_active W2)))) by exact SR.
    split.
    + apply (deactivate_inv W1 _ f H1 Hf1 NU SR').
      * intros g. wsimpl. rewrite SA. apply In_deln.
      * intros g Hg. wsimpl. rewrite SD in Hg. exact Hg.
      * intros g Hg. wsimpl. apply SV. exact Hg.
    + destruct SR as [F2 _]. unfold fstop_post, same_tables. wsimpl. repeat split; try congruence.
      * apply In_deln in H. rewrite SA, A1 in H. tauto.
      * apply In_deln in H. tauto.
      * intros x Hx NE. apply In_deln. rewrite SA, A1. split; assumption.
Qed.

Lemma delayed_units_idle W f : Inv W -> In f (w_funcs W) -> In (f_gen f) (w_delayed W) ->
  forall u, In u (f_units f) -> ~ In (u_id u) (w_running W) /\ ~ In (u_id u) (w_pending W).
Proof.
  intros [I [S L]] Hf HD u Hu. split; intros C.
  - destruct (so_run W S _ C) as [f' [u' [O' [E' [_ ND']]]]].
    destruct (io_uniq W I f' u' f u O' (conj Hf Hu) E') as [-> _]. exact (ND' HD).
  - destruct (so_pend W S _ C) as [f' [u' [O' [E' [_ [_ ND']]]]]].
    destruct (io_uniq W I f' u' f u O' (conj Hf Hu) E') as [-> _]. exact (ND' HD).
Qed.

Lemma new_delayed_no_svc W f : Inv W -> In f (w_funcs W) -> f_new f = true -> In (f_gen f) (w_delayed W) ->
  ~ In (f_gen f) (l_svc (w_led W)).
Proof.
  intros [I [S L]] Hf NF HD Hg. destruct (ok_svc W L _ Hg) as [_ [f' [Hf' [E' [_ ND']]]]].
  pose proof (io_guniq W I f' f Hf' Hf E'). subst f'. exact (ND' NF HD).
Qed.

Lemma dm_discard_inv W f : Inv W -> In f (w_funcs W) -> f_new f = true -> In (f_gen f) (w_delayed W) ->
  Inv (dm_discard W f) /\ fstop_post W (dm_discard W f) (f_gen f).
Proof.
  intros HI Hf NF HD. unfold dm_discard. split.
  - apply (deactivate_inv W _ f HI Hf (delayed_units_idle W f HI Hf HD)).
    + repeat split; reflexivity.
    + intros g. wsimpl. apply In_deln.
    + intros g Hg. wsimpl. apply In_deln in Hg. tauto.
    + intros g Hg. wsimpl. split; [exact Hg|]. intros ->. exact (new_delayed_no_svc W f HI Hf NF HD Hg).
  - unfold fstop_post, same_tables. wsimpl. repeat split.
    + apply In_deln in H. tauto.
    + apply In_deln in H. tauto.
    + intros x Hx NE. apply In_deln. split; assumption.
Qed.

(* ============================================================================================== *)
(* starts                                                                                         *)
(* ============================================================================================== *)
Lemma Inv_undelay W g : Inv W -> Inv (set_delayed W (deln g (w_delayed W))).
Proof.
  intros HI. pose proof HI as [I [S L]]. apply (Inv_res W _ HI); wsimpl.
  - repeat split; reflexivity.
  - intros f u O _ A D. split; [exact A|]. intros C. apply In_deln in C. tauto.
  - apply (so_act W S).
  - intros g' Hg. destruct (ok_svc W L g' Hg) as [A [f' [Hf' [E' [SV' ND']]]]]. split; [exact A|]. exists f'. repeat split; try assumption.
    intros NF C. apply In_deln in C. apply (ND' NF). tauto.
Qed.

Definition start_frame (W W' : world) : Prop :=
  same_tables W W' /\ w_active W' = w_active W /\ w_delayed W' = w_delayed W /\ l_svc (w_led W') = l_svc (w_led W).

Lemma fold_leg_start f : f_new f = false -> forall us W, Inv W -> (forall u, In u us -> owns W f u) ->
  In (f_gen f) (w_active W) -> ~ In (f_gen f) (w_delayed W) -> (forall u, In u us -> ~ In (u_id u) (w_running W)) ->
  Inv (fold_left leg_unit_start us W) /\ start_frame W (fold_left leg_unit_start us W).
Proof.
  intros NF us. induction us as [|a r IH]; intros W HI HO A ND NR; cbn [fold_left].
  - split; [exact HI|]. unfold start_frame, same_tables. repeat split; reflexivity.
  - destruct (leg_unit_start_inv W f a HI (HO a (or_introl eq_refl)) NF A ND (NR a (or_introl eq_refl)))
      as [H1 [[[T1 T2] [A1 [D1 [Z1 V1]]]] R1]].
    destruct (IH (leg_unit_start W a) H1) as [H2 [[T3 T4] [A2 [D2 V2]]]].
    + intros u Hu. apply (owns_same W); [exact T1|]. apply HO. right; exact Hu.
    + rewrite A1. exact A.
    + rewrite D1. exact ND.
    + intros u Hu. rewrite R1. apply NR. right; exact Hu.
    + split; [exact H2|]. unfold start_frame, same_tables. repeat split; congruence.
Qed.

(* exact status after a fold of decorator starts *)
Lemma dec_unit_start_fields W a :
  w_log (dec_unit_start W a) = w_log W ++ snd (dec_start a (w_led W)) /\ w_pending (dec_unit_start W a) = w_pending W /\
  w_delayed (dec_unit_start W a) = w_delayed W /\ w_active (dec_unit_start W a) = w_active W /\
  w_funcs (dec_unit_start W a) = w_funcs W /\ w_next (dec_unit_start W a) = w_next W /\
  w_starting (dec_unit_start W a) = w_starting W /\
  w_running (dec_unit_start W a) = addn (u_id a) (w_running W).
Proof. repeat split; reflexivity. Qed.

Lemma start_idle_inv W f u : Inv W -> owns W f u -> f_new f = true -> In (f_gen f) (w_active W) ->
  ~ In (f_gen f) (w_delayed W) ->
  Inv (start_if_idle W u) /\ start_post W (start_if_idle W u) /\ w_pending (start_if_idle W u) = w_pending W /\
  (forall x, In x (w_running (start_if_idle W u)) <-> In x (w_running W) \/ x = u_id u).
Proof.
  intros HI O NF A ND. unfold start_if_idle. destruct (memn (u_id u) (w_running W)) eqn:MR.
  - apply memn_In in MR. split; [exact HI|split; [|split; [reflexivity|]]].
    + unfold start_post, same_tables. repeat split; reflexivity.
    + intros x. split; [auto|intros [H| ->]; assumption].
  - destruct (dec_unit_start_inv W f u HI O NF A ND) as [H1 [SP EP]]. split; [exact H1|split; [exact SP|split; [exact EP|]]].
    intros x. unfold dec_unit_start. wsimpl. apply In_addn.
Qed.

Lemma fold_start (g : world -> unit_ -> world) f :
  (forall W u, Inv W -> owns W f u -> In (f_gen f) (w_active W) -> ~ In (f_gen f) (w_delayed W) ->
     Inv (g W u) /\ start_post W (g W u) /\ w_pending (g W u) = w_pending W /\
     (forall x, In x (w_running (g W u)) <-> In x (w_running W) \/ x = u_id u)) ->
  forall us W, Inv W -> (forall u, In u us -> owns W f u) -> In (f_gen f) (w_active W) -> ~ In (f_gen f) (w_delayed W) ->
  Inv (fold_left g us W) /\ start_frame W (fold_left g us W) /\ w_pending (fold_left g us W) = w_pending W /\
  (forall x, In x (w_running (fold_left g us W)) <-> In x (w_running W) \/ In x (map u_id us)).
Proof.
  intros H us. induction us as [|a r IH]; intros W HI HO A ND; cbn [fold_left map].
  - split; [exact HI|split; [|split; [reflexivity|]]].
    + unfold start_frame, same_tables. repeat split; reflexivity.
    + intros x. split; [auto|intros [X|[]]; exact X].
  - destruct (H W a HI (HO a (or_introl eq_refl)) A ND) as [H1 [[[T1 T2] [A1 [D1 [Z1 V1]]]] [P1 R1]]].
    destruct (IH (g W a) H1) as [H2 [[[T3 T4] [A2 [D2 V2]]] [P2 R2]]].
    + intros u Hu. apply (owns_same W); [exact T1|]. apply HO. right; exact Hu.
    + rewrite A1. exact A.
    + rewrite D1. exact ND.
    + split; [exact H2|split; [|split; [congruence|]]].
      * unfold start_frame, same_tables. repeat split; congruence.
      * intros x. rewrite R2, R1. cbn [In]. split; [intros [[X|X]|X]; auto|intros [X|[X|X]]; auto].
Qed.

Lemma fold_dec_start f : f_new f = true -> forall us W, Inv W -> (forall u, In u us -> owns W f u) ->
  In (f_gen f) (w_active W) -> ~ In (f_gen f) (w_delayed W) ->
  Inv (fold_left dec_unit_start us W) /\ start_frame W (fold_left dec_unit_start us W) /\
  w_pending (fold_left dec_unit_start us W) = w_pending W /\
  (forall x, In x (w_running (fold_left dec_unit_start us W)) <-> In x (w_running W) \/ In x (map u_id us)).
Proof.
  intros NF. apply fold_start. intros W u HI O A ND.
  destruct (dec_unit_start_inv W f u HI O NF A ND) as [H1 [SP EP]]. split; [exact H1|split; [exact SP|split; [exact EP|]]].
  intros x. unfold dec_unit_start. wsimpl. apply In_addn.
Qed.
Lemma fold_start_idle f : f_new f = true -> forall us W, Inv W -> (forall u, In u us -> owns W f u) ->
  In (f_gen f) (w_active W) -> ~ In (f_gen f) (w_delayed W) ->
  Inv (fold_left start_if_idle us W) /\ start_frame W (fold_left start_if_idle us W) /\
  w_pending (fold_left start_if_idle us W) = w_pending W /\
  (forall x, In x (w_running (fold_left start_if_idle us W)) <-> In x (w_running W) \/ In x (map u_id us)).
Proof. intros NF. apply fold_start. intros W u HI O A ND. apply (start_idle_inv W f u HI O NF A ND). Qed.

Lemma not_in_deln_self g l : ~ In g (deln g l).
Proof. intros C. apply In_deln in C. destruct C as [_ C]. apply C; reflexivity. Qed.

Lemma firstn_In {A} n (l : list A) x : In x (firstn n l) -> In x l.
Proof. revert l. induction n as [|n IH]; intros [|a l] H; cbn in *; try contradiction. destruct H as [H|H]; auto. Qed.

(* DecoratorManager.start up to its suspension point *)
Lemma dm_begin_inv cfg W f : all_off cfg -> Inv W -> In f (w_funcs W) -> f_new f = true ->
  In (f_gen f) (w_active W) -> In (f_gen f) (w_delayed W) ->
  Inv (dm_begin cfg W f) /\ same_tables W (dm_begin cfg W f) /\
  (forall x, In x (w_active (dm_begin cfg W f)) -> In x (w_active W)).
Proof.
  intros AO HI Hf NF CA CD. unfold dm_begin.
  pose proof (Inv_undelay W (f_gen f) HI) as H0.
  set (W0 := set_delayed W (deln (f_gen f) (w_delayed W))) in *.
  assert (ND0 : ~ In (f_gen f) (w_delayed W0)) by apply not_in_deln_self.
  destruct (f_svc f) as [n|] eqn:SVN.
  2:{ destruct (fold_dec_start f NF (f_units f) W0 H0) as [H1 [[[T1 T2] [A1 _]] _]]; try assumption.
      - intros u Hu. split; assumption.
      - split; [exact H1|split; [split; assumption|]]. intros x Hx. rewrite A1 in Hx. exact Hx. }
  set (us := firstn (f_pos f) (f_units f)).
  assert (HU : forall u, In u us -> In u (f_units f)) by (intros u Hu; apply (firstn_In _ _ _ Hu)).
  destruct (fold_dec_start f NF us W0 H0) as [H1 [[[T1 T2] [A1 [D1 V1]]] [P1 R1]]]; try assumption.
  { intros u Hu. split; [exact Hf|apply HU; exact Hu]. }
  set (W1 := fold_left dec_unit_start us W0) in *.
  assert (Hf1 : In f (w_funcs W1)) by (rewrite T1; exact Hf).
  destruct (svc_refused W1 f).
  - (* refused: what was started is stopped, the manager is INVALID *)
    destruct (fold_stop_units (stop_if_running cfg) f) with (us := f_units f) (W := W1) as [H2 [[T3 T4] [A2 [D2 [R2 [P2 [V2 K2]]]]]]].
    + intros V u0 HV O0. apply (stop_if_running_inv cfg V f u0 AO HV O0 NF).
    + exact H1.
    + intros u Hu. split; [exact Hf1|exact Hu].
    + set (W2 := fold_left (stop_if_running cfg) (f_units f) W1) in *. cbv zeta.
      assert (Hf2 : In f (w_funcs W2)) by (rewrite T3; exact Hf1).
      assert (NU : forall u, In u (f_units f) -> ~ In (u_id u) (w_running W2) /\ ~ In (u_id u) (w_pending W2)).
      { intros u Hu. split; intros C.
        - destruct (R2 _ C) as [_ X]. apply X. apply in_map. exact Hu.
        - destruct (P2 _ C) as [_ X]. apply X. apply in_map. exact Hu. }
      split; [|split; [split; wsimpl; [rewrite T3, T1|rewrite T4, T2]; reflexivity|]].
      * apply (deactivate_inv W2 _ f H2 Hf2 NU); wsimpl.
        -- repeat split; reflexivity.
        -- intros g. apply In_deln.
        -- auto.
        -- intros g Hg. split; [exact Hg|]. intros ->. rewrite V2, V1 in Hg.
           exact (new_delayed_no_svc W f HI Hf NF CD Hg).
      * intros x Hx. wsimpl. apply In_deln in Hx. rewrite A2, A1 in Hx. tauto.
  - (* registered; start() is now suspended *)
    destruct (svc_register_fields W1 f) as [SR [SA [SD [_ [_ SV]]]]]. cbv zeta.
    set (W2 := svc_register W1 f) in *.
    assert (SR' : same_res W1 (set_starting W2 (addn (f_gen f) (w_starting W2)))) by exact SR.
    pose proof H1 as [I1 [S1 L1]].
    split; [|split].
    + apply (Inv_res W1 _ H1 SR'); wsimpl.
      * intros f' u' O' _ A D. rewrite SA, SD. auto.
      * rewrite SA. apply (so_act W1 S1).
      * intros g Hg. rewrite SV, SVN in Hg. rewrite SA, SD. apply In_addn in Hg. destruct Hg as [Hg| ->]; [apply (ok_svc W1 L1 g Hg)|].
        split; [rewrite A1; exact CA|]. exists f. repeat split; try assumption.
        -- rewrite SVN. reflexivity.
        -- intros _. rewrite D1. exact ND0.
    + destruct SR as [F2 _]. pose proof (svc_register_next W1 f) as N2. fold W2 in N2. split; wsimpl; [rewrite F2, T1|rewrite N2, T2]; reflexivity.
    + intros x Hx. wsimpl. rewrite SA, A1 in Hx. exact Hx.
Qed.

Lemma ctx_start_func_inv cfg W f : all_off cfg -> Inv W -> In f (w_funcs W) ->
  Inv (ctx_start_func cfg W f) /\ same_tables W (ctx_start_func cfg W f) /\
  (forall x, In x (w_active (ctx_start_func cfg W f)) -> In x (w_active W)).
Proof.
  intros AO HI Hf. unfold ctx_start_func.
  destruct (memn (f_gen f) (w_active W) && memn (f_gen f) (w_delayed W)) eqn:C;
    [|split; [exact HI|split; [split; reflexivity|auto]]].
  apply andb_true_iff in C. destruct C as [CA CD]. apply memn_In in CA, CD.
  destruct (f_new f) eqn:NF; [apply dm_begin_inv; assumption|].
  pose proof (Inv_undelay W (f_gen f) HI) as H0.
  set (W0 := set_delayed W (deln (f_gen f) (w_delayed W))) in *. unfold leg_func_start.
  destruct (fold_leg_start f NF (f_units f) W0 H0) as [H1 [[T1 T2] [A1 [D1 V1]]]]; try assumption.
  - intros u Hu. split; assumption.
  - apply not_in_deln_self.
  - intros u Hu. apply (delayed_units_idle W f HI Hf CD u Hu).
  - split; [exact H1|split; [split; assumption|]]. intros x Hx. rewrite A1 in Hx. exact Hx.
Qed.

(* the suspended start continues *)
Lemma dm_resume_inv g W : Inv W -> Inv (dm_resume g W) /\ same_tables W (dm_resume g W) /\ w_active (dm_resume g W) = w_active W /\
  w_delayed (dm_resume g W) = w_delayed W.
Proof.
  intros HI. unfold dm_resume. destruct (find_func W g) as [f|] eqn:FF; [|split; [exact HI|repeat split; reflexivity]].
  destruct (find_func_some W g f FF) as [Hf EG]. subst g.
  destruct (memn (f_gen f) (w_starting W) && f_new f) eqn:C; [|split; [exact HI|repeat split; reflexivity]].
  apply andb_true_iff in C. destruct C as [_ NF].
  assert (H0 : Inv (set_starting W (deln (f_gen f) (w_starting W)))).
  { pose proof HI as [I [S L]]. apply (Inv_res W _ HI); wsimpl; [repeat split; reflexivity|auto|apply (so_act W S)|apply (ok_svc W L)]. }
  set (W0 := set_starting W (deln (f_gen f) (w_starting W))) in *. cbv zeta.
  destruct (memn (f_gen f) (w_active W) && negb (memn (f_gen f) (w_delayed W))) eqn:C2; [|split; [exact H0|repeat split; reflexivity]].
  apply andb_true_iff in C2. destruct C2 as [CA CD]. apply memn_In in CA. apply negb_true_iff, memn_false in CD.
  destruct (fold_start_idle f NF (f_units f) W0 H0) as [H1 [[[T1 T2] [A1 [D1 _]]] _]]; try assumption.
  - intros u Hu. split; assumption.
  - split; [exact H1|split; [split; assumption|split; assumption]].
Qed.

Lemma fold_resume_inv gs : forall W, Inv W ->
  Inv (fold_left (fun W g => dm_resume g W) gs W) /\ same_tables W (fold_left (fun W g => dm_resume g W) gs W) /\
  w_active (fold_left (fun W g => dm_resume g W) gs W) = w_active W /\
  w_delayed (fold_left (fun W g => dm_resume g W) gs W) = w_delayed W.
Proof.
  induction gs as [|a r IH]; intros W HI; cbn [fold_left]; [split; [exact HI|repeat split; reflexivity]|].
  destruct (dm_resume_inv a W HI) as [H1 [[T1 T2] [A1 D1]]]. destruct (IH _ H1) as [H2 [[T3 T4] [A2 D2]]].
  split; [exact H2|]. unfold same_tables. repeat split; congruence.
Qed.
Lemma resume_all_inv W : Inv W -> Inv (resume_all W) /\ same_tables W (resume_all W) /\ w_active (resume_all W) = w_active W /\
  w_delayed (resume_all W) = w_delayed W.
Proof. apply fold_resume_inv. Qed.

(* ============================================================================================== *)
(* ids of a new function                                                                          *)
(* ============================================================================================== *)
Lemma number_units_in cr gen : forall ps id u, In u (number_units cr gen id ps) ->
  u_gen u = gen /\ id <= u_id u /\ u_id u < id + N.of_nat (length ps).
Proof.
  induction ps as [|[[st ev] tm] r IH]; intros id u Hu; cbn [number_units] in Hu; [contradiction|].
  destruct Hu as [<-|Hu].
  - cbn [mk_unit u_gen u_id length]. lia.
  - destruct (IH _ _ Hu) as [A [B C]]. cbn [length]. lia.
Qed.
Lemma number_units_uniq cr gen : forall ps id u1 u2, In u1 (number_units cr gen id ps) -> In u2 (number_units cr gen id ps) ->
  u_id u1 = u_id u2 -> u1 = u2.
Proof.
  induction ps as [|[[st ev] tm] r IH]; intros id u1 u2 H1 H2 E; cbn [number_units] in H1, H2; [contradiction|].
  destruct H1 as [<-|H1], H2 as [<-|H2].
  - reflexivity.
  - destruct (number_units_in _ _ _ _ _ H2) as [_ [B _]]. cbn [mk_unit u_id] in E. lia.
  - destruct (number_units_in _ _ _ _ _ H1) as [_ [B _]]. cbn [mk_unit u_id] in E. lia.
  - exact (IH _ _ _ H1 H2 E).
Qed.
Lemma number_units_length cr gen : forall ps id, length (number_units cr gen id ps) = length ps.
Proof. induction ps as [|[[st ev] tm] r IH]; intros id; cbn [number_units length]; [reflexivity|rewrite IH; reflexivity]. Qed.

Lemma define_mid_inv (c : N) (newsys : bool) (s : fspec) (W : world) : Inv W ->
  let gen := w_next W in
  let units := number_units (s_crash s) gen (gen + 1) (if newsys then new_protos s else legacy_protos s) in
  let f := {| f_gen := gen; f_ctx := c; f_new := newsys; f_units := units; f_svc := s_svc s; f_pos := s_pos s; f_inline := memn c (w_auto W) |} in
  let Wf := {| w_led := w_led W; w_funcs := w_funcs W ++ [f]; w_active := w_active W; w_delayed := w_delayed W;
               w_pending := w_pending W; w_zombie := w_zombie W; w_running := w_running W; w_starting := w_starting W;
               w_hdl := w_hdl W; w_auto := w_auto W; w_next := gen + 1 + N.of_nat (length units); w_log := w_log W |} in
  let Ws := if newsys then Wf else svc_register Wf f in
  let W1 := set_delayed (set_active Ws (w_active Ws ++ [gen])) (w_delayed Ws ++ [gen]) in
  Inv W1 /\ w_funcs W1 = w_funcs W ++ [f].
Proof.
  intros HI gen units f Wf. pose proof HI as [I [S L]].
  assert (HU : forall u, In u units -> u_gen u = gen /\ gen < u_id u /\ u_id u < gen + 1 + N.of_nat (length units)).
  { intros u Hu. destruct (number_units_in _ _ _ _ _ Hu) as [A [B C]]. unfold units. rewrite number_units_length. lia. }
  assert (P0 : 0 < gen) by apply (io_next W I).
  assert (OM : forall f' u', owns W f' u' -> owns Wf f' u').
  { intros f' u' [A B]. split; [cbn; apply in_or_app; left; exact A|exact B]. }
  assert (OC : forall f' u', owns Wf f' u' -> owns W f' u' \/ (f' = f /\ In u' units)).
  { intros f' u' [A B]. cbn in A. apply in_app_or in A. destruct A as [A|[<-|[]]]; [left; split; assumption|right; split; [reflexivity|exact B]]. }
  assert (HF : Inv Wf).
  { split; [|split].
    - constructor; cbn [w_next w_funcs Wf].
      + lia.
      + intros f' Hf'. apply in_app_or in Hf'. destruct Hf' as [Hf'|[<-|[]]].
        * destruct (io_gen W I f' Hf'). fold gen in H0. lia.
        * cbn [f_gen f]. lia.
      + intros f' u' O'. destruct (OC f' u' O') as [O|[-> Hu]].
        * destruct (io_unit W I f' u' O) as [A [B C]]. fold gen in C. repeat split; [exact A|exact B|lia].
        * cbn [f_gen f]. exact (HU u' Hu).
      + intros f1 u1 f2 u2 O1 O2 E. destruct (OC f1 u1 O1) as [O1'|[-> Hu1]], (OC f2 u2 O2) as [O2'|[-> Hu2]].
        * exact (io_uniq W I f1 u1 f2 u2 O1' O2' E).
        * destruct (io_unit W I f1 u1 O1') as [_ [_ C]]. destruct (HU u2 Hu2) as [_ [B _]]. fold gen in C. lia.
        * destruct (io_unit W I f2 u2 O2') as [_ [_ C]]. destruct (HU u1 Hu1) as [_ [B _]]. fold gen in C. lia.
        * split; [reflexivity|]. exact (number_units_uniq _ _ _ _ _ _ Hu1 Hu2 E).
      + intros f1 f2 H1 H2 E. apply in_app_or in H1, H2. destruct H1 as [H1|[<-|[]]], H2 as [H2|[<-|[]]].
        * exact (io_guniq W I f1 f2 H1 H2 E).
        * destruct (io_gen W I f1 H1) as [_ C]. cbn [f_gen f] in E. fold gen in C. lia.
        * destruct (io_gen W I f2 H2) as [_ C]. cbn [f_gen f] in E. fold gen in C. lia.
        * reflexivity.
    - destruct S as [SR SP SD SA SZ]. constructor; cbn [Wf w_running w_pending w_active w_delayed w_zombie w_funcs]; try assumption.
      + intros id Hid. destruct (SR id Hid) as [f' [u' [O' X]]]. exists f', u'. split; [apply OM; exact O'|exact X].
      + intros id Hid. destruct (SP id Hid) as [f' [u' [O' X]]]. exists f', u'. split; [apply OM; exact O'|exact X].
      + intros g Hg. destruct (SA g Hg) as [f' [Hf' E']]. exists f'. split; [apply in_or_app; left; exact Hf'|exact E'].
    - destruct L as [KS KE KB KT KV]. constructor; cbn [Wf w_led w_running w_pending w_active w_delayed w_funcs].
      + intros e q Hp. destruct (KS e q Hp) as [R [f' [u' [ids [O' X]]]]]. split; [exact R|].
        exists f', u', ids. split; [apply OM; exact O'|exact X].
      + intros ev q Hp. destruct (KE ev q Hp) as [R [f' [u' [O' X]]]]. split; [exact R|].
        exists f', u'. split; [apply OM; exact O'|exact X].
      + intros ev o Hp. destruct (KB ev o Hp) as [X|[R [f' [u' [O' X]]]]]; [left; exact X|right].
        split; [exact R|]. exists f', u'. split; [apply OM; exact O'|exact X].
      + exact KT.
      + intros g Hg. destruct (KV g Hg) as [A [f' [Hf' X]]]. split; [exact A|]. exists f'. split; [apply in_or_app; left; exact Hf'|exact X]. }
  assert (Hff : In f (w_funcs Wf)) by (cbn; apply in_or_app; right; left; reflexivity).
  assert (OLD : forall g, In g (w_active Wf) -> g <> gen).
  { intros g H ->. cbn [Wf w_active] in H.
    destruct (so_act W S _ H) as [f' [Hf' E']]. destruct (io_gen W I f' Hf') as [_ X]. fold gen in X. lia. }
  set (Ws := if newsys then Wf else svc_register Wf f).
  assert (XS : same_res Wf Ws /\ w_active Ws = w_active Wf /\ w_delayed Ws = w_delayed Wf /\
               forall g, In g (l_svc (w_led Ws)) -> In g (l_svc (w_led Wf)) \/ (g = gen /\ newsys = false /\ is_some (s_svc s) = true)).
  { unfold Ws. destruct newsys; [split; [apply same_res_refl|split; [reflexivity|split; [reflexivity|auto]]]|].
    destruct (svc_register_fields Wf f) as [SR [SA [SD [_ [_ SV]]]]]. split; [exact SR|split; [exact SA|split; [exact SD|]]].
    intros g Hg. rewrite SV in Hg. cbn [f f_svc] in Hg. destruct (s_svc s); [|left; exact Hg].
    apply In_addn in Hg. destruct Hg as [Hg| ->]; [left; exact Hg|right; auto]. }
  destruct XS as [SR [SA [SD SV]]].
  set (W1 := set_delayed (set_active Ws (w_active Ws ++ [gen])) (w_delayed Ws ++ [gen])).
  assert (H1 : Inv W1).
  { pose proof HF as [If [Sf Lf]]. assert (SR' : same_res Wf W1) by exact SR.
    apply (Inv_res Wf W1 HF SR'); unfold W1; wsimpl; rewrite ?SA, ?SD.
    - intros f' u' O' _ A D. split; [apply in_or_app; left; exact A|]. intros C. apply in_app_or in C.
      destruct C as [C|[C|[]]]; [exact (D C)|]. apply (OLD (f_gen f')); [exact A|symmetry; exact C].
    - intros g Hg. apply in_app_or in Hg. destruct Hg as [Hg|[<-|[]]]; [apply (so_act Wf Sf); exact Hg|exists f; split; [exact Hff|reflexivity]].
    - intros g Hg. destruct (SV g Hg) as [Hg'|[-> [NS SS]]].
      + destruct (ok_svc Wf Lf g Hg') as [A [f' [Hf' [E' [SV' ND']]]]]. split; [apply in_or_app; left; exact A|].
        exists f'. repeat split; try assumption. intros NF C. apply in_app_or in C. destruct C as [C|[C|[]]]; [exact (ND' NF C)|].
        apply (OLD g); [exact A|symmetry; exact C].
      + split; [apply in_or_app; right; left; reflexivity|]. exists f. repeat split; try assumption || reflexivity.
        cbn [f f_new]. congruence. }
  split; [exact H1|]. destruct SR as [F2 _]. unfold W1. wsimpl. rewrite F2. reflexivity.
Qed.

Lemma define_inv cfg c newsys s W : all_off cfg -> Inv W -> Inv (define cfg c newsys s W).
Proof.
  intros AO HI. pose proof HI as [I [S L]]. unfold define.
  set (gen := w_next W).
  set (units := number_units (s_crash s) gen (gen + 1) (if newsys then new_protos s else legacy_protos s)).
  set (f := {| f_gen := gen; f_ctx := c; f_new := newsys; f_units := units; f_svc := s_svc s; f_pos := s_pos s; f_inline := memn c (w_auto W) |}).
  set (Wf := {| w_led := w_led W; w_funcs := w_funcs W ++ [f]; w_active := w_active W; w_delayed := w_delayed W;
                w_pending := w_pending W; w_zombie := w_zombie W; w_running := w_running W; w_starting := w_starting W;
                w_hdl := w_hdl W; w_auto := w_auto W; w_next := gen + 1 + N.of_nat (length units); w_log := w_log W |}).
  cbv zeta.
  destruct (negb newsys && svc_refused Wf f).
  { (* refused legacy definition: only the id counter moves *)
    apply (Inv_res W _ HI); wsimpl; [repeat split; try reflexivity; cbn [set_next w_next]; lia| | |].
    - intros f' u' O' _ A D. auto.
    - apply (so_act W S).
    - apply (ok_svc W L). }
  destruct (define_mid_inv c newsys s W HI) as [H1 F1]. cbv zeta in H1, F1. fold gen units f Wf in H1, F1.
  destruct (memn c (w_auto W)); [|exact H1].
  apply ctx_start_func_inv; [exact AO|exact H1|]. rewrite F1. apply in_or_app. right; left; reflexivity.
Qed.

(* ============================================================================================== *)
(* contexts, dropped references, steps                                                            *)
(* ============================================================================================== *)
Lemma Inv_set_auto W x : Inv W -> Inv (set_auto W x).
Proof.
  intros HI. pose proof HI as [I [S L]]. apply (Inv_res W _ HI); wsimpl; [repeat split; reflexivity|auto|apply (so_act W S)|apply (ok_svc W L)].
Qed.

(* frame shared by every function-level operation: tables unchanged, the active set only shrinks *)
Definition shrink (W W' : world) : Prop :=
  same_tables W W' /\ (forall x, In x (w_active W') -> In x (w_active W)).

Lemma shrink_refl W : shrink W W.
Proof. split; [split; reflexivity|auto]. Qed.
Lemma shrink_trans A B C : shrink A B -> shrink B C -> shrink A C.
Proof. intros [[T1 T2] S1] [[T3 T4] S2]. split; [split; congruence|auto]. Qed.

Lemma ctx_stop_func_inv cfg W f : all_off cfg -> Inv W -> In f (w_funcs W) ->
  Inv (ctx_stop_func cfg W f) /\ shrink W (ctx_stop_func cfg W f) /\ ~ In (f_gen f) (w_active (ctx_stop_func cfg W f)).
Proof.
  intros AO HI Hf. unfold ctx_stop_func. destruct (f_new f) eqn:NF.
  - destruct (memn (f_gen f) (w_active W)) eqn:MA.
    + destruct (memn (f_gen f) (w_delayed W)) eqn:MD.
      * apply memn_In in MD. destruct (dm_discard_inv W f HI Hf NF MD) as [H1 [T [A1 A2]]].
        split; [exact H1|split; [split; [exact T|intros x Hx; apply A1; exact Hx]|]]. intros C. destruct (A1 _ C) as [_ X]. apply X; reflexivity.
      * destruct (dm_stop_inv cfg W f AO HI Hf NF) as [H1 [T [A1 A2]]].
        split; [exact H1|split; [split; [exact T|intros x Hx; apply A1; exact Hx]|]]. intros C. destruct (A1 _ C) as [_ X]. apply X; reflexivity.
    + apply memn_false in MA. split; [exact HI|split; [apply shrink_refl|exact MA]].
  - destruct (leg_func_stop_inv cfg W f AO HI Hf NF) as [H1 [T [A1 A2]]].
    split; [exact H1|split; [split; [exact T|intros x Hx; apply A1; exact Hx]|]]. intros C. destruct (A1 _ C) as [_ X]. apply X; reflexivity.
Qed.

Lemma fold_ctx_stop cfg c : all_off cfg -> forall fs W, Inv W -> (forall f, In f fs -> In f (w_funcs W)) ->
  let W' := fold_left (fun W f => if N.eqb (f_ctx f) c then ctx_stop_func cfg W f else W) fs W in
  Inv W' /\ shrink W W' /\ forall f, In f fs -> f_ctx f = c -> ~ In (f_gen f) (w_active W').
Proof.
  intros AO fs. induction fs as [|a r IH]; intros W HI HF; cbn [fold_left].
  - split; [exact HI|split; [apply shrink_refl|intros f []]].
  - set (W1 := if N.eqb (f_ctx a) c then ctx_stop_func cfg W a else W).
    assert (X : Inv W1 /\ shrink W W1 /\ (f_ctx a = c -> ~ In (f_gen a) (w_active W1))).
    { unfold W1. destruct (N.eqb (f_ctx a) c) eqn:E.
      - destruct (ctx_stop_func_inv cfg W a AO HI (HF a (or_introl eq_refl))) as [A [B C]]. auto.
      - apply N.eqb_neq in E. split; [exact HI|split; [apply shrink_refl|intros; contradiction]]. }
    destruct X as [H1 [S1 N1]].
    destruct (IH W1 H1) as [H2 [S2 N2]].
    + intros f Hf. destruct S1 as [[T _] _]. rewrite T. apply HF. right; exact Hf.
    + split; [exact H2|split; [exact (shrink_trans _ _ _ S1 S2)|]].
      intros f [<-|Hf] EC; [|exact (N2 f Hf EC)]. intros C. destruct S2 as [_ S2]. exact (N1 EC (S2 _ C)).
Qed.

Lemma ctx_stop_inv cfg c W : all_off cfg -> Inv W ->
  Inv (ctx_stop cfg c W) /\ shrink W (ctx_stop cfg c W) /\
  forall f, In f (w_funcs W) -> f_ctx f = c -> ~ In (f_gen f) (w_active (ctx_stop cfg c W)).
Proof.
  intros AO HI. unfold ctx_stop. destruct (fold_ctx_stop cfg c AO (w_funcs W) W HI (fun f H => H)) as [H1 [S1 N1]].
  split; [apply Inv_set_auto; exact H1|split; [exact S1|exact N1]].
Qed.

Lemma fold_ctx_start cfg c : all_off cfg -> forall fs W, Inv W -> (forall f, In f fs -> In f (w_funcs W)) ->
  let W' := fold_left (fun W f => if N.eqb (f_ctx f) c then ctx_start_func cfg W f else W) fs W in
  Inv W' /\ shrink W W'.
Proof.
  intros AO. induction fs as [|a r IH]; intros W HI HF; cbn [fold_left].
  - split; [exact HI|apply shrink_refl].
  - set (W1 := if N.eqb (f_ctx a) c then ctx_start_func cfg W a else W).
    assert (X : Inv W1 /\ shrink W W1).
    { unfold W1. destruct (N.eqb (f_ctx a) c).
      - destruct (ctx_start_func_inv cfg W a AO HI (HF a (or_introl eq_refl))) as [A [B C]]. split; [exact A|split; assumption].
      - split; [exact HI|apply shrink_refl]. }
    destruct X as [H1 S1].
    destruct (IH W1 H1) as [H2 S2].
    + intros f Hf. destruct S1 as [[T _] _]. rewrite T. apply HF. right; exact Hf.
    + split; [exact H2|exact (shrink_trans _ _ _ S1 S2)].
Qed.

Lemma order_funcs_In ord fs f : In f (order_funcs ord fs) -> In f fs.
Proof.
  unfold order_funcs. intros H. apply in_app_or in H. destruct H as [H|H].
  - apply in_flat_map in H. destruct H as [g [_ H]]. apply filter_In in H. tauto.
  - apply filter_In in H. tauto.
Qed.

Lemma ctx_start_inv cfg c ord W : all_off cfg -> Inv W -> Inv (ctx_start cfg c ord W) /\ shrink W (ctx_start cfg c ord W).
Proof.
  intros AO HI. unfold ctx_start. destruct (fold_ctx_start cfg c AO (order_funcs ord (w_funcs W)) W HI (order_funcs_In ord (w_funcs W))) as [H1 S1].
  split; [apply Inv_set_auto; exact H1|exact S1].
Qed.

Lemma dropped_inv cfg g W : all_off cfg -> Inv W -> Inv (dropped cfg g W) /\ shrink W (dropped cfg g W).
Proof.
  intros AO HI. unfold dropped. destruct (find_func W g) as [f|] eqn:FF; [|split; [exact HI|apply shrink_refl]].
  destruct (find_func_some W g f FF) as [Hf EG]. subst g.
  pose proof AO as [D16 [D90 [D91 [D21 [D92 D93]]]]]. rewrite D90, D93.
  destruct (f_new f) eqn:NF.
  - destruct (memn (f_gen f) (w_active W)) eqn:MA; [|split; [exact HI|apply shrink_refl]].
    destruct (memn (f_gen f) (w_delayed W)) eqn:MD.
    + apply memn_In in MD. destruct (dm_discard_inv W f HI Hf NF MD) as [H1 [T [A1 _]]].
      split; [exact H1|split; [exact T|intros x Hx; apply A1; exact Hx]].
    + cbn [andb]. destruct (dm_stop_inv cfg W f AO HI Hf NF) as [H1 [T [A1 _]]].
      split; [exact H1|split; [exact T|intros x Hx; apply A1; exact Hx]].
  - destruct (leg_func_stop_inv cfg W f AO HI Hf NF) as [H1 [T [A1 _]]].
    split; [exact H1|split; [exact T|intros x Hx; apply A1; exact Hx]].
Qed.

Lemma fold_unload cfg : all_off cfg -> forall cs W, Inv W ->
  let W' := fold_left (fun W c => ctx_stop cfg c W) cs W in
  Inv W' /\ shrink W W' /\ forall f, In f (w_funcs W) -> In (f_ctx f) cs -> ~ In (f_gen f) (w_active W').
Proof.
  intros AO cs. induction cs as [|c r IH]; intros W HI; cbn [fold_left].
  - split; [exact HI|split; [apply shrink_refl|intros f _ []]].
  - destruct (ctx_stop_inv cfg c W AO HI) as [H1 [S1 N1]].
    destruct (IH _ H1) as [H2 [S2 N2]].
    split; [exact H2|split; [exact (shrink_trans _ _ _ S1 S2)|]].
    intros f Hf [E|Hc].
    + intros C. destruct S2 as [_ S2]. exact (N1 f Hf (eq_sym E) (S2 _ C)).
    + apply N2; [|exact Hc]. destruct S1 as [[T _] _]. rewrite T. exact Hf.
Qed.

Lemma unload_inv cfg W : all_off cfg -> Inv W -> Inv (unload cfg W) /\ w_active (unload cfg W) = [].
Proof.
  intros AO HI. unfold unload.
  destruct (fold_unload cfg AO (all_ctxs W) W HI) as [H1 [[[T1 T2] S1] N1]].
  set (W1 := fold_left (fun W c => ctx_stop cfg c W) (all_ctxs W) W) in *.
  destruct (resume_all_inv W1 H1) as [H2 [_ [A2 _]]].
  destruct (settle_inv _ H2) as [H3 [_ [A3 _]]].
  split; [exact H3|]. rewrite A3, A2. apply nil_of_notin. intros g Hg.
  destruct H1 as [I1 [St1 L1]]. destruct (so_act W1 St1 g Hg) as [f [Hf E]]. rewrite T1 in Hf.
  apply (N1 f Hf); [|rewrite E; exact Hg]. unfold all_ctxs. apply in_map. exact Hf.
Qed.

(* ---- faults: a watcher dies ------------------------------------------------------------------------ *)
Lemma Inv_ledger_shrink W L' : Inv W ->
  (forall p, In p (l_state L') -> In p (l_state (w_led W))) -> (forall p, In p (l_event L') -> In p (l_event (w_led W))) ->
  (forall p, In p (l_bus L') -> In p (l_bus (w_led W))) ->
  (forall ev, In (ev, 0) (l_bus L') -> has_fst ev (l_event L') = true) ->
  (forall t, In t (l_tasks L') -> In t (l_tasks (w_led W))) -> l_reap L' = l_reap (w_led W) -> l_svc L' = l_svc (w_led W) ->
  Inv (set_led W L').
Proof.
  intros [I [S L]] HS HE HB HZ HT HR HV. split; [|split].
  - apply (ids_ok_same W); [split; reflexivity|exact I].
  - destruct S as [SR SP SD SA SZ]. constructor; wsimpl; assumption.
  - constructor; wsimpl.
    + intros e q H. apply (ok_state W L e q (HS _ H)).
    + intros e q H. apply (ok_event W L e q (HE _ H)).
    + intros e o H. destruct (ok_bus W L e o (HB _ H)) as [[-> _]|X]; [left; split; [reflexivity|apply HZ; exact H]|right; exact X].
    + intros t H. rewrite HR. apply (ok_tasks W L t (HT _ H)).
    + intros g H. rewrite HV in H. apply (ok_svc W L g H).
Qed.

Lemma bus0_ok W : Inv W -> forall ev, In (ev, 0) (l_bus (w_led W)) -> has_fst ev (l_event (w_led W)) = true.
Proof.
  intros [I [S L]] ev H. destruct (ok_bus W L ev 0 H) as [[_ X]|[R _]]; [exact X|].
  exfalso. destruct (so_run W S 0 R) as [f [u [O [E _]]]]. exact (unit_id_nz W f u I O E).
Qed.

Lemma leg_crash_proj cfg u L : let L' := leg_crash cfg u L in
  l_state L' = match u_state u with
               | Some ids => notify_del (d16_notify_del_return cfg) ids (u_id u) (l_state L) | None => l_state L end /\
  l_event L' = match u_event u with
               | Some ev => if memp (ev, u_id u) (l_event L) then delp (ev, u_id u) (l_event L) else l_event L
               | None => l_event L end /\
  l_bus L' = match u_event u with
             | Some ev => if memp (ev, u_id u) (l_event L) then
                            if has_fst ev (delp (ev, u_id u) (l_event L)) then l_bus L else delp (ev, 0) (l_bus L)
                          else l_bus L
             | None => l_bus L end /\
  l_tasks L' = deln (u_id u) (l_tasks L) /\ l_reap L' = l_reap L /\ l_svc L' = l_svc L.
Proof.
  unfold leg_crash. destruct (u_state u) as [ids|], (u_event u) as [ev|];
    cbn [set_tasks set_state l_state l_event l_bus l_tasks l_reap l_svc].
  all: try (match goal with |- context [ev_del ?e ?q ?X] =>
              destruct (ev_del_proj e q X) as [E1 [E2 [E3 [E4 [E5 E6]]]]]; rewrite ?E1, ?E2, ?E3, ?E4, ?E5, ?E6 end).
  all: cbn [set_tasks set_state l_state l_event l_bus l_tasks l_reap l_svc]; repeat split; reflexivity.
Qed.

(* everything but the subscription tables and the task list *)
Definition status_same (W W' : world) : Prop :=
  w_funcs W' = w_funcs W /\ w_next W' = w_next W /\ w_active W' = w_active W /\ w_delayed W' = w_delayed W /\
  w_pending W' = w_pending W /\ w_zombie W' = w_zombie W /\ w_running W' = w_running W /\ w_starting W' = w_starting W /\
  w_log W' = w_log W /\ l_reap (w_led W') = l_reap (w_led W) /\ l_svc (w_led W') = l_svc (w_led W).
Lemma status_same_refl W : status_same W W.
Proof. repeat split; reflexivity. Qed.
Lemma status_same_trans A B C : status_same A B -> status_same B C -> status_same A C.
Proof.
  intros [a1 [a2 [a3 [a4 [a5 [a6 [a7 [a8 [a9 [a10 a11]]]]]]]]]] [b1 [b2 [b3 [b4 [b5 [b6 [b7 [b8 [b9 [b10 b11]]]]]]]]]].
  repeat split; congruence.
Qed.

Lemma crash_unit_inv cfg W id : all_off cfg -> Inv W -> Inv (crash_unit cfg W id) /\ status_same W (crash_unit cfg W id).
Proof.
  intros [D16 _] HI. unfold crash_unit. destruct (find_unit W id) as [u|] eqn:FU; [|split; [exact HI|apply status_same_refl]].
  destruct (find_unit_some W id u FU) as [_ EID]. subst id.
  destruct (unit_new W u).
  - split; [|repeat split; reflexivity].
    apply Inv_ledger_shrink; wsimpl; auto; [apply (bus0_ok W HI)|]. intros t Ht. apply In_deln in Ht. tauto.
  - destruct (leg_crash_proj cfg u (w_led W)) as [Ps [Pe [Pb [Pt [Pr Pv]]]]]. rewrite D16 in Ps.
    set (L' := leg_crash cfg u (w_led W)) in *.
    split; [|repeat split; wsimpl; try reflexivity; assumption].
    apply Inv_ledger_shrink.
    + exact HI.
    + intros p Hp. rewrite Ps in Hp. destruct (u_state u); [eapply In_notify_del_sub; exact Hp|exact Hp].
    + intros p Hp. rewrite Pe in Hp. destruct (u_event u) as [ev|]; [|exact Hp].
      destruct (memp (ev, u_id u) (l_event (w_led W))); [apply In_delp in Hp; tauto|exact Hp].
    + intros p Hp. rewrite Pb in Hp. destruct (u_event u) as [ev|]; [|exact Hp].
      destruct (memp (ev, u_id u) (l_event (w_led W))); [|exact Hp].
      destruct (has_fst ev (delp (ev, u_id u) (l_event (w_led W)))); [exact Hp|apply In_delp in Hp; tauto].
    + intros ev' Hp. rewrite Pb in Hp. rewrite Pe. destruct (u_event u) as [ev|]; [|apply (bus0_ok W HI); exact Hp].
      destruct (memp (ev, u_id u) (l_event (w_led W))); [|apply (bus0_ok W HI); exact Hp].
      destruct (N.eq_dec ev' ev) as [->|NE].
      * destruct (has_fst ev (delp (ev, u_id u) (l_event (w_led W)))) eqn:HF; [reflexivity|].
        apply In_delp in Hp. exfalso. apply (proj2 Hp). reflexivity.
      * rewrite has_fst_delp_other by exact NE. apply (bus0_ok W HI).
        destruct (has_fst ev (delp (ev, u_id u) (l_event (w_led W)))); [exact Hp|apply In_delp in Hp; tauto].
    + intros t Ht. rewrite Pt in Ht. apply In_deln in Ht. tauto.
    + exact Pr.
    + exact Pv.
Qed.

Lemma crash_all_inv cfg ids : all_off cfg -> forall W, Inv W -> Inv (crash_all cfg ids W) /\ status_same W (crash_all cfg ids W).
Proof.
  intros AO. unfold crash_all. induction ids as [|a r IH]; intros W HI; cbn [fold_left]; [split; [exact HI|apply status_same_refl]|].
  destruct (crash_unit_inv cfg W a AO HI) as [H1 S1]. destruct (IH _ H1) as [H2 S2].
  split; [exact H2|exact (status_same_trans _ _ _ S1 S2)].
Qed.

Lemma step_inv cfg W o : all_off cfg -> Inv W -> Inv (step cfg W o).
Proof.
  intros AO HI. destruct o; cbn [step].
  - apply define_inv; assumption.
  - apply dropped_inv; assumption.
  - apply Inv_set_auto. exact HI.
  - apply ctx_start_inv; assumption.
  - apply ctx_stop_inv; assumption.
  - apply unload_inv; assumption.
  - apply prologue_inv. exact HI.
  - apply dm_resume_inv. exact HI.
  - apply resume_all_inv. exact HI.
  - apply do_reap_inv. exact HI.
  - apply settle_inv. exact HI.
  - apply crash_all_inv; assumption.
  - pose proof AO as [_ [_ [_ [_ [D92 _]]]]]. rewrite D92. apply ctx_start_inv; assumption.
  - apply crash_all_inv; [exact AO|apply Inv_log; exact HI].
  - apply crash_all_inv; [exact AO|apply Inv_log; exact HI].
  - apply crash_all_inv; [exact AO|apply Inv_log; exact HI].
  - apply Inv_log. exact HI.
Qed.

Lemma run_ops_inv cfg ops : all_off cfg -> forall W, Inv W -> Inv (run_ops cfg ops W).
Proof.
  intros AO. unfold run_ops. induction ops as [|o r IH]; intros W HI; cbn [fold_left]; [exact HI|].
  apply IH. apply step_inv; assumption.
Qed.

(* ============================================================================================== *)
(* baseline: after unloading everything the ledger is empty                                       *)
(* ============================================================================================== *)
Lemma settle_reap_empty W : l_reap (w_led (settle W)) = [].
Proof. reflexivity. Qed.

Lemma idle_ledger_empty W : Inv W -> w_active W = [] -> l_reap (w_led W) = [] -> w_led W = ledger0.
Proof.
  intros [I [S L]] A R.
  assert (NR : forall id, ~ In id (w_running W)).
  { intros id H. destruct (so_run W S id H) as [f [u [_ [_ [C _]]]]]. rewrite A in C. exact C. }
  assert (NP : forall id, ~ In id (w_pending W)).
  { intros id H. destruct (so_pend W S id H) as [f [u [_ [_ [_ [C _]]]]]]. rewrite A in C. exact C. }
  assert (ES : l_state (w_led W) = []).
  { apply nil_of_notin. intros [e q] H. exact (NR q (proj1 (ok_state W L e q H))). }
  assert (EE : l_event (w_led W) = []).
  { apply nil_of_notin. intros [e q] H. exact (NR q (proj1 (ok_event W L e q H))). }
  apply ledger_eq; cbn [ledger0 l_state l_event l_bus l_tasks l_reap l_svc]; try assumption.
  - apply nil_of_notin. intros [ev o] H. destruct (ok_bus W L ev o H) as [[_ X]|[X _]]; [|exact (NR o X)].
    rewrite EE in X. discriminate.
  - apply nil_of_notin. intros t H. destruct (ok_tasks W L t H) as [X|[X|X]]; [rewrite R in X; exact X|exact (NP t X)|exact (NR t X)].
  - apply nil_of_notin. intros g H. destruct (ok_svc W L g H) as [X _]. rewrite A in X. exact X.
Qed.

Theorem unload_baseline cfg : all_off cfg -> forall ops, w_led (unload cfg (run_ops cfg ops world0)) = ledger0.
Proof.
  intros AO ops. pose proof (run_ops_inv cfg ops AO world0 Inv0) as HI.
  destruct (unload_inv cfg _ AO HI) as [H1 A1].
  apply idle_ledger_empty; [exact H1|exact A1|reflexivity].
Qed.
