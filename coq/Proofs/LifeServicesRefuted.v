(* Proofs/LifeServicesRefuted.v — C12: each deviation switch, alone, makes the faithful Model leave the reference semantics
   (ServicesSpec.v) on the witness that is replayed on the real code by the check; with all switches off the Model agrees
   on the same witness.  Plus inhabitedness examples for the hypotheses of the positive theorems. *)
From PV Require Import Common.Util Gen.ServiceConsts Life.Services Life.ServicesSpec Life.ServiceCalls Life.ServicesCheck
  Proofs.LifeServices.

Local Open Scope N_scope.

Definition only (n : nat) : deviations :=
  {| d_stale_handler := Nat.eqb n 21; d_no_alias := Nat.eqb n 23; d_dup_set := Nat.eqb n 26; d_alias_abort := Nat.eqb n 120;
     d_start_order := Nat.eqb n 121; d_pending_zombie := Nat.eqb n 122; d_limit_kw := Nat.eqb n 123; d_rt_owner := Nat.eqb n 124;
     d_stack_rollback := Nat.eqb n 125; d_interleave := Nat.eqb n 127; d_spurious_remove := Nat.eqb n 126 |}.

Definition handler_gen (s : st) (k : key) : option gen := option_map fst (s_reg s k).
Definition ref_gen (t : rst) (k : key) : option gen := option_map r_gen (ref_handler t k).
(* after the whole sequence: for every listed name, HA's handler is the function the property requires (or none) *)
Definition agrees (keys : list key) (legacy : bool) (cfg : deviations) (ops : list op) : bool :=
  forallb (fun k => option_eqb N.eqb (handler_gen (run_ops cfg legacy ops init_st) k) (ref_gen (fold_left ref_op ops init_rst) k)) keys.

Definition refuted (n : nat) : Prop :=
  exists legacy ops keys, agrees keys legacy (only n) ops = false /\ agrees keys legacy all_off ops = true.

Definition startup (files : list (cid * list stmt)) (oracle : list gen) : op := OReloadAll files oracle.

Theorem refuted_D21 : refuted 21.
Proof.
  exists true, [startup [(0, [SDef 0 [1] DAbs])] []; OExec 0 [SDef 1 [1] DAbs]; OExec 0 [SDel 1]], [1].
  split; vm_compute; reflexivity.
Qed.

Theorem refuted_D23 : refuted 23.
Proof. exists false, [startup [(0, [SDef 0 [1; 2] DAbs])] []], [1; 2]. split; vm_compute; reflexivity. Qed.

Theorem refuted_D26 : refuted 26.
Proof. exists true, [startup [(0, [SDef 0 [1; 1] DAbs])] []; OExec 0 [SDel 0]], [1]. split; vm_compute; reflexivity. Qed.

Theorem refuted_D120 : refuted 120.
Proof.
  exists true, [startup [(0, [SDef 0 [1] DAbs]); (1, [SDef 0 [2; 1; 3] DAbs])] []; OUnload 1], [1; 2; 3].
  split; vm_compute; reflexivity.
Qed.

Theorem refuted_D121 : refuted 121.
Proof. exists false, [startup [(0, [SDef 0 [1] DAbs; SDef 1 [1] DAbs])] [2; 1]], [1]. split; vm_compute; reflexivity. Qed.

Theorem refuted_D122 : refuted 122.
Proof. exists false, [startup [(0, [SDef 0 [1] DAbs; SDef 0 [2] DAbs])] []], [1; 2]. split; vm_compute; reflexivity. Qed.

(* D123: whenever `limit` is handed to hass.services.async_call as a control argument the call dies with a TypeError
   (HomeAssistant 2025.1 has no such parameter); conformant behaviour delivers the call.  Stated on [ha_call] so that it does
   not depend on the regenerated tables (State.get's table currently recognises `limit`: Gen.hass_args_entity) *)
Theorem refuted_D123 : exists target data h,
  (exists x, In (HGiven x) h /\ kw_key x = 4) /\
  ha_call (only 123) target data h = OTypeError /\ ha_call all_off target data h = ODelivered data false.
Proof.
  exists SrOpt, [mk_kw 5 5 1; mk_kw 30 4 3], [HGiven (mk_kw 4 4 5)]. split; [|split; reflexivity].
  exists (mk_kw 4 4 5). split; [left; reflexivity|reflexivity].
Qed.

(* ---------- the hypotheses of the positive theorems are inhabited by non-trivial instances ---------- *)
Definition demo_ops : list op :=
  [startup [(0, [SDef 0 [1] DAbs]); (1, [SDef 0 [1; 2] DOpt])] []; OExec 0 [SDef 1 [1] DOnly]; OLoad 1 [SDef 2 [2] DAbs] []].

Example define_effective_hyp : loaded (run_ops all_off true demo_ops init_st) 1 = true.
Proof. vm_compute. reflexivity. Qed.

(* on that instance: context 1 asks for names 1 and 3; name 1 is owned by context 0 and stays there, 3 is registered *)
Example define_effective_instance :
  let s := run_ops all_off true demo_ops init_st in
  let s' := run_op all_off true s (OExec 1 [SDef 0 [1; 3] DAbs]) in
  okf s 1 1 = false /\ handler_gen s' 1 = handler_gen s 1 /\ handler_gen s 1 = Some 3 /\ handler_gen s' 3 = Some 5.
Proof. vm_compute. auto. Qed.

Example outgoing_hyp : NoDup (map kw_key [mk_kw 40 4 7; mk_kw 2 2 1; mk_kw 3 4 1]).
Proof. cbn. repeat constructor; cbn; intuition discriminate. Qed.

(* D124: a function created at run time by a running function owns its service under the maker's name, so a later
   declaration of the same service by another function of the same context is refused *)
Theorem refuted_D124 : refuted 124.
Proof.
  exists false, [startup [(0, [])] []; OExec 0 [SDefRt 0 [1] DAbs]; OExec 0 [SDef 1 [1] DAbs]], [1].
  split; vm_compute; reflexivity.
Qed.

(* D125: stacked @service decorators, one name owned elsewhere: the function loses every name *)
Theorem refuted_D125 : refuted 125.
Proof.
  exists false, [startup [(0, [SDef 0 [2] DAbs]); (1, [SDefSt 0 [1; 2; 3] DAbs])] []], [1; 2; 3].
  split; vm_compute; reflexivity.
Qed.

(* D127: interleaved start-ups: a later context takes a name an earlier function declares *)
Theorem refuted_D127 : refuted 127.
Proof.
  exists false, [startup [(0, [SDefSt 0 [2; 1; 100] DAbs]); (2, [SDef 0 [1] DAbs])] []], [1; 2; 100].
  split; vm_compute; reflexivity.
Qed.

(* D126: context 1 is unloaded while its function (names 1, 2) has registered only name 1: context 0's live service 2 is
   removed as well.  (Interleaving, D127, is what makes the situation reachable; with D126 off the service survives.) *)
From PV Require Import Life.ServicesMid.
Definition cfg_mid (spurious : bool) : deviations :=
  {| d_stale_handler := false; d_no_alias := false; d_dup_set := false; d_alias_abort := false; d_start_order := false;
     d_pending_zombie := false; d_limit_kw := false; d_rt_owner := false; d_stack_rollback := false; d_interleave := true;
     d_spurious_remove := spurious |}.
Definition mid_final (cfg : deviations) : st :=
  let s0 := run_ops cfg false [startup [(0, [SDef 0 [2] DAbs])] []] init_st in
  let '(s1, m1) := held_load cfg s0 1 [SDefSt 0 [1; 2] DAbs] [] in
  let '(s2, m2) := interrupt cfg s1 m1 (OUnload 1) in
  release_mid cfg s2 m2.
Theorem refuted_D126 : handler_gen (mid_final (cfg_mid true)) 2 = None /\ handler_gen (mid_final (cfg_mid false)) 2 = Some 1%N.
Proof. split; vm_compute; reflexivity. Qed.
