(* Proofs/ReqInstall.v — the install decision: gate, foreign packages untouched, own packages updated iff the
   pin differs, and the record matches what was installed (C20, second sentence). *)
From PV Require Import Common.Util Gen.ReqConsts Req.Merge Req.Install Req.Spec Proofs.ReqMerge.
From Coq Require Import Lia.

(* ---------- association lists ---------- *)
Lemma alookup_aset k k' v a : alookup k' (aset k v a) = if str_eqb k' k then Some v else alookup k' a.
Proof.
  induction a as [|[k0 v0] r IH]; cbn [aset alookup].
  - reflexivity.
  - destruct (str_eqb k k0) eqn:E.
    + apply str_eqb_eq in E. subst k0. cbn [alookup]. destruct (str_eqb k' k); reflexivity.
    + cbn [alookup]. destruct (str_eqb k' k0) eqn:E0.
      * apply str_eqb_eq in E0. subst k0. rewrite str_eqb_sym, E. reflexivity.
      * exact IH.
Qed.

Lemma alookup_aremove k k' a : alookup k' (aremove k a) = if str_eqb k' k then None else alookup k' a.
Proof.
  unfold aremove. induction a as [|[k0 v0] r IH]; cbn [filter alookup fst].
  - destruct (str_eqb k' k); reflexivity.
  - destruct (str_eqb k k0) eqn:E; cbn [negb].
    + apply str_eqb_eq in E. subst k0. rewrite IH. destruct (str_eqb k' k); reflexivity.
    + cbn [alookup]. destruct (str_eqb k' k0) eqn:E0.
      * apply str_eqb_eq in E0. subst k0. rewrite str_eqb_sym, E. reflexivity.
      * exact IH.
Qed.

Lemma alookup_In k v a : alookup k a = Some v -> In (k, v) a.
Proof.
  induction a as [|[k0 v0] r IH]; cbn [alookup]; [discriminate|].
  destruct (str_eqb k k0) eqn:E.
  - apply str_eqb_eq in E. subst. intros H; inversion H; left; reflexivity.
  - intros H. right. exact (IH H).
Qed.

Lemma alookup_None k a : alookup k a = None -> ~ In k (map fst a).
Proof.
  induction a as [|[k0 v0] r IH]; cbn [alookup map fst]; [intros _ []|].
  destruct (str_eqb k k0) eqn:E; [discriminate|]. intros H [Hk|Hk].
  - subst. rewrite str_eqb_refl in E. discriminate.
  - exact (IH H Hk).
Qed.

Lemma In_alookup k v a : NoDup (map fst a) -> In (k, v) a -> alookup k a = Some v.
Proof.
  induction a as [|[k0 v0] r IH]; cbn [alookup map fst]; intros ND HI; [destruct HI|].
  inversion ND as [|? ? Hn ND']; subst.
  destruct HI as [HI|HI].
  - inversion HI; subst. rewrite str_eqb_refl. reflexivity.
  - destruct (str_eqb k k0) eqn:E.
    + apply str_eqb_eq in E. subst k0. exfalso. apply Hn. apply in_map_iff. exists (k, v). split; [reflexivity|exact HI].
    + exact (IH ND' HI).
Qed.

Lemma aset_keys k v a :
  map fst (aset k v a) = if existsb (str_eqb k) (map fst a) then map fst a else map fst a ++ [k].
Proof.
  induction a as [|[k0 v0] r IH]; cbn [aset map fst existsb]; [reflexivity|].
  destruct (str_eqb k k0) eqn:E; cbn [map fst orb].
  - reflexivity.
  - rewrite IH. destruct (existsb (str_eqb k) (map fst r)); reflexivity.
Qed.

Lemma aset_NoDup k v a : NoDup (map fst a) -> NoDup (map fst (aset k v a)).
Proof.
  intros H. rewrite aset_keys. destruct (existsb (str_eqb k) (map fst a)) eqn:E; [exact H|].
  apply NoDup_snoc; [exact H|]. intros Hx.
  assert (existsb (str_eqb k) (map fst a) = true); [|congruence].
  apply existsb_exists. exists k. split; [exact Hx|apply str_eqb_refl].
Qed.

Lemma filter_keys_NoDup (f : str * str -> bool) a : NoDup (map fst a) -> NoDup (map fst (filter f a)).
Proof.
  induction a as [|[k0 v0] r IH]; cbn [filter map fst]; intros ND; [constructor|].
  inversion ND as [|? ? Hn ND']; subst.
  destruct (f (k0, v0)); cbn [map fst]; [|exact (IH ND')].
  constructor; [|exact (IH ND')]. intros Hin. apply Hn.
  apply in_map_iff in Hin. destruct Hin as (x & Hx & Hin). apply filter_In in Hin. apply in_map_iff. exists x. tauto.
Qed.

Lemma aremove_NoDup k a : NoDup (map fst a) -> NoDup (map fst (aremove k a)).
Proof. apply filter_keys_NoDup. Qed.

Definition str_dec : forall a b : str, {a = b} + {a <> b} := list_eq_dec N.eq_dec.

Section InstallProofs.
  Variable vvalid : str -> bool.
  Variable vle : str -> str -> bool.

  Local Notation decide_pkg := (decide_pkg vvalid vle).
  Local Notation plan := (plan vvalid vle).
  Local Notation install := (install vvalid vle).
  Local Notation install_plan := (install_plan vvalid vle).
  Local Notation veq := (veq vle).

  (* ---------- the decision for one package ---------- *)
  Definition installs (recv inst want : option str) : Prop :=
    truthy inst = None \/
    exists iv rv w, truthy inst = Some iv /\ recv = Some rv /\ want = Some w /\
      vvalid rv = true /\ vvalid iv = true /\ vvalid w = true /\ veq rv iv = true /\ veq w iv = false.

  Lemma decide_install_iff recv inst want : decide_pkg recv inst want = DInstall <-> installs recv inst want.
  Proof.
    unfold Install.decide_pkg, installs. destruct (truthy inst) as [iv|]; [|split; [left; reflexivity|reflexivity]].
    split.
    - intros H. right. destruct want as [w|].
      + destruct recv as [rv|]; [|discriminate].
        destruct (vvalid rv) eqn:Er, (vvalid iv) eqn:Ei; cbn [negb orb] in H; try discriminate.
        destruct (veq rv iv) eqn:Eq; cbn [negb] in H; [|discriminate].
        destruct (vvalid w) eqn:Ew; cbn [negb] in H; [|discriminate].
        destruct (veq w iv) eqn:Eq2; cbn [negb] in H; [discriminate|].
        exists iv, rv, w. repeat split; assumption.
      + destruct recv as [rv|]; [destruct (negb (str_eqb rv iv))|]; discriminate.
    - intros [H|(iv' & rv & w & Hi & Hr & Hw & Vr & Vi & Vw & Eq & Eq2)]; [discriminate|].
      inversion Hi; subst iv' recv want. rewrite Vr, Vi, Eq, Vw, Eq2. reflexivity.
  Qed.

  (* ---------- the loop ---------- *)
  Lemma In_keys {A} (n : str) (e : A) (t : list (str * A)) : In (n, e) t -> In n (map fst t).
  Proof. intros H. apply in_map_iff. exists (n, e). split; [reflexivity|exact H]. Qed.

  Lemma plan_spec : forall t rec todo rec1 todo1,
    NoDup (map fst t) -> plan rec t todo = Some (rec1, todo1) ->
    (exists extra, todo1 = todo ++ extra /\
       forall n w, In (n, w) extra <->
         exists e, In (n, e) t /\ w = e_ver e /\ decide_pkg (alookup n rec) (e_inst e) (e_ver e) = DInstall)
    /\ (forall n, ~ In n (map fst t) -> alookup n rec1 = alookup n rec)
    /\ (forall n e, In (n, e) t ->
          alookup n rec1 = match decide_pkg (alookup n rec) (e_inst e) (e_ver e) with DDrop => None | _ => alookup n rec end).
  Proof.
    induction t as [|[n0 e0] r IH]; intros rec todo rec1 todo1 ND H.
    - cbn [Install.plan] in H. inversion H; subst. split; [|split].
      + exists []. rewrite app_nil_r. split; [reflexivity|]. intros n w. split; [intros []|intros (e & [] & _)].
      + reflexivity.
      + intros n e [].
    - cbn [map fst] in ND. inversion ND as [|? ? Hn0 ND']; subst.
      assert (Hne : forall n e, In (n, e) r -> n <> n0).
      { intros n e Hin E. subst. apply Hn0. exact (In_keys _ _ _ Hin). }
      cbn [Install.plan] in H.
      destruct (decide_pkg (alookup n0 rec) (e_inst e0) (e_ver e0)) eqn:D.
      + (* install *)
        destruct (IH rec _ rec1 todo1 ND' H) as ((extra & Ht & Hx) & Hr1 & Hr2).
        split; [|split].
        * exists ((n0, e_ver e0) :: extra). split; [rewrite Ht, <- app_assoc; reflexivity|].
          intros n w. split.
          -- intros [Hh|Hh].
             ++ inversion Hh; subst. exists e0. split; [left; reflexivity|]. split; [reflexivity|exact D].
             ++ apply Hx in Hh. destruct Hh as (e & Hin & Hw & Hd). exists e. split; [right; exact Hin|tauto].
          -- intros (e & [Hin|Hin] & Hw & Hd).
             ++ inversion Hin; subst. left. reflexivity.
             ++ right. apply Hx. exists e. tauto.
        * intros n Hn. apply Hr1. intros Hin. apply Hn. right. exact Hin.
        * intros n e [Hin|Hin].
          -- inversion Hin; subst. rewrite D. apply Hr1. exact Hn0.
          -- apply Hr2. exact Hin.
      + (* keep *)
        destruct (IH rec _ rec1 todo1 ND' H) as ((extra & Ht & Hx) & Hr1 & Hr2).
        split; [|split].
        * exists extra. split; [exact Ht|].
          intros n w. split.
          -- intros Hh. apply Hx in Hh. destruct Hh as (e & Hin & Hw & Hd). exists e. split; [right; exact Hin|tauto].
          -- intros (e & [Hin|Hin] & Hw & Hd).
             ++ inversion Hin; subst. rewrite D in Hd. discriminate.
             ++ apply Hx. exists e. tauto.
        * intros n Hn. apply Hr1. intros Hin. apply Hn. right. exact Hin.
        * intros n e [Hin|Hin].
          -- inversion Hin; subst. rewrite D. apply Hr1. exact Hn0.
          -- apply Hr2. exact Hin.
      + (* drop *)
        destruct (IH (aremove n0 rec) _ rec1 todo1 ND' H) as ((extra & Ht & Hx) & Hr1 & Hr2).
        assert (Hlk : forall n, n <> n0 -> alookup n (aremove n0 rec) = alookup n rec).
        { intros n Hn. rewrite alookup_aremove. apply str_eqb_neq in Hn. rewrite Hn. reflexivity. }
        split; [|split].
        * exists extra. split; [exact Ht|].
          intros n w. split.
          -- intros Hh. apply Hx in Hh. destruct Hh as (e & Hin & Hw & Hd). exists e. split; [right; exact Hin|].
             rewrite Hlk in Hd by exact (Hne n e Hin). tauto.
          -- intros (e & [Hin|Hin] & Hw & Hd).
             ++ inversion Hin; subst. rewrite D in Hd. discriminate.
             ++ apply Hx. exists e. rewrite Hlk by exact (Hne n e Hin). tauto.
        * intros n Hn. rewrite Hr1 by (intros Hin; apply Hn; right; exact Hin).
          apply Hlk. intros E. apply Hn. left. symmetry. exact E.
        * intros n e [Hin|Hin].
          -- inversion Hin; subst. rewrite D. rewrite Hr1 by exact Hn0. rewrite alookup_aremove, str_eqb_refl. reflexivity.
          -- rewrite (Hr2 n e Hin). rewrite Hlk by exact (Hne n e Hin). reflexivity.
      + discriminate.
  Qed.

  (* ---------- tables produced by reading the files ---------- *)
  Definition table_wf (inst : str -> option str) (t : table) : Prop :=
    NoDup (map fst t) /\ forall k e, tlookup k t = Some e -> e_inst e = inst k.

  (* Nothing is installed unless allow_all_imports is set *)
  Theorem install_gate ia rec0 t todo r u : install false ia rec0 t = ODone todo r u -> todo = [].
  Proof.
    unfold Install.install, Install.install_plan. destruct t as [|x t].
    - cbn. destruct (install_finish ia rec0 rec0 []) as [r' u']. intros H. inversion H. reflexivity.
    - cbn [negb]. discriminate.
  Qed.

  Lemma install_done allow ia rec0 t todo r u : install allow ia rec0 t = ODone todo r u ->
    exists rec1, plan rec0 t [] = Some (rec1, todo) /\ install_finish ia rec0 rec1 todo = (r, u).
  Proof.
    unfold Install.install, Install.install_plan. intros H.
    assert (G : match plan rec0 t [] with None => PRaised | Some (r0, todo0) => PPlan r0 todo0 end =
                match plan rec0 t [] with None => PRaised | Some (r0, todo0) => PPlan r0 todo0 end) by reflexivity.
    destruct t as [|x t'].
    - destruct (plan rec0 [] []) as [[r0 todo0]|]; [|discriminate].
      destruct (install_finish ia rec0 r0 todo0) as [r' u'] eqn:F. inversion H; subst. exists r0. tauto.
    - destruct allow; cbn [negb] in H; [|discriminate].
      destruct (plan rec0 (x :: t') []) as [[r0 todo0]|]; [|discriminate].
      destruct (install_finish ia rec0 r0 todo0) as [r' u'] eqn:F. inversion H; subst. exists r0. tauto.
  Qed.

  (* exactly which packages are handed to the installer *)
  Theorem install_args_iff inst allow ia rec0 t todo r u : table_wf inst t ->
    install allow ia rec0 t = ODone todo r u ->
    forall n w, In (n, w) todo <-> exists e, tlookup n t = Some e /\ w = e_ver e /\ installs (alookup n rec0) (inst n) (e_ver e).
  Proof.
    intros [ND Hi] H n w. destruct (install_done _ _ _ _ _ _ _ H) as (rec1 & Hp & _).
    destruct (plan_spec t rec0 [] rec1 todo ND Hp) as ((extra & Ht & Hx) & _ & _). cbn [app] in Ht. subst extra.
    rewrite Hx. split.
    - intros (e & Hin & Hw & Hd). exists e. pose proof (In_tlookup n e t ND Hin) as Hl.
      split; [exact Hl|]. split; [exact Hw|]. apply decide_install_iff. rewrite <- (Hi n e Hl). exact Hd.
    - intros (e & Hl & Hw & Hd). exists e. split; [exact (tlookup_In n e t Hl)|]. split; [exact Hw|].
      apply decide_install_iff. rewrite (Hi n e Hl). exact Hd.
  Qed.

  (* a package installed by something other than pyscript (not in the record, or recorded at another version) is never
     handed to the installer *)
  Theorem install_foreign inst allow ia rec0 t todo r u p iv : table_wf inst t ->
    install allow ia rec0 t = ODone todo r u ->
    truthy (inst p) = Some iv ->
    (alookup p rec0 = None \/ exists rv, alookup p rec0 = Some rv /\ veq rv iv = false) ->
    ~ In p (map fst todo).
  Proof.
    intros WF H Hi Hf Hin. apply in_map_iff in Hin. destruct Hin as ([n w] & E & Hin). cbn [fst] in E. subst n.
    apply (install_args_iff inst allow ia rec0 t todo r u WF H) in Hin. destruct Hin as (e & _ & _ & Hd).
    destruct Hd as [Hd|(iv' & rv & w' & Hi' & Hr & _ & _ & _ & _ & Eq & _)]; [congruence|].
    rewrite Hi in Hi'. inversion Hi'; subst iv'.
    destruct Hf as [Hf|(rv' & Hf & Hq)]; [congruence|]. rewrite Hr in Hf. inversion Hf; subst rv'. congruence.
  Qed.

  (* a package pyscript installed itself (recorded at the installed version) is handed to the installer iff the pinned
     version differs from the installed one; an unpinned requirement never touches an installed package *)
  Theorem install_own inst allow ia rec0 t todo r u p iv rv e : table_wf inst t ->
    install allow ia rec0 t = ODone todo r u ->
    truthy (inst p) = Some iv -> alookup p rec0 = Some rv ->
    vvalid rv = true -> vvalid iv = true -> veq rv iv = true ->
    tlookup p t = Some e ->
    match e_ver e with
    | Some w => vvalid w = true -> (In p (map fst todo) <-> veq w iv = false)
    | None => ~ In p (map fst todo)
    end.
  Proof.
    intros WF H Hi Hr Vr Vi Eq Hl.
    pose proof (install_args_iff inst allow ia rec0 t todo r u WF H) as A.
    destruct (e_ver e) as [w|] eqn:Ew.
    - intros Vw. split.
      + intros Hin. apply in_map_iff in Hin. destruct Hin as ([n w'] & E & Hin). cbn [fst] in E. subst n.
        apply A in Hin. destruct Hin as (e' & Hl' & _ & Hd). rewrite Hl in Hl'. inversion Hl'; subst e'. rewrite Ew in Hd.
        destruct Hd as [Hd|(iv' & rv' & w'' & Hi' & _ & Hw & _ & _ & _ & _ & Eq2)]; [congruence|].
        rewrite Hi in Hi'. inversion Hi'; subst. inversion Hw; subst. exact Eq2.
      + intros Eq2. apply in_map_iff. exists (p, Some w). split; [reflexivity|]. apply A.
        exists e. split; [exact Hl|]. split; [symmetry; exact Ew|]. rewrite Ew. right.
        exists iv, rv, w. repeat split; assumption.
    - intros Hin. apply in_map_iff in Hin. destruct Hin as ([n w'] & E & Hin). cbn [fst] in E. subst n.
      apply A in Hin. destruct Hin as (e' & Hl' & _ & Hd). rewrite Hl in Hl'. inversion Hl'; subst e'. rewrite Ew in Hd.
      destruct Hd as [Hd|(iv' & rv' & w'' & _ & _ & Hw & _)]; [congruence|discriminate].
  Qed.

  (* ---------- the record ---------- *)
  Definition set_all (todo : plan_t) (a : alist) : alist := fold_left (fun a p => aset (fst p) (ver_str (snd p)) a) todo a.

  Lemma set_all_other todo : forall a p, ~ In p (map fst todo) -> alookup p (set_all todo a) = alookup p a.
  Proof.
    induction todo as [|[n w] r IH]; intros a p Hn; [reflexivity|].
    cbn [set_all fold_left fst snd]. fold (set_all r). rewrite IH by (intros Hin; apply Hn; right; exact Hin).
    rewrite alookup_aset. destruct (str_eqb p n) eqn:E; [|reflexivity].
    apply str_eqb_eq in E. subst. exfalso. apply Hn. left. reflexivity.
  Qed.

  Lemma set_all_in todo : forall a p w, (forall w', In (p, w') todo -> w' = w) -> In (p, w) todo ->
    alookup p (set_all todo a) = Some (ver_str w).
  Proof.
    induction todo as [|[n w0] r IH]; intros a p w Hu Hin; [destruct Hin|].
    cbn [set_all fold_left fst snd]. fold (set_all r).
    destruct (in_dec str_dec p (map fst r)) as [Hr|Hr].
    - apply in_map_iff in Hr. destruct Hr as ([p' w'] & E & Hr). cbn [fst] in E. subst p'.
      assert (w' = w) by (apply Hu; right; exact Hr). subst w'.
      apply IH; [|exact Hr]. intros w' Hw'. apply Hu. right. exact Hw'.
    - rewrite set_all_other by exact Hr. destruct Hin as [Hin|Hin].
      + inversion Hin; subst. rewrite alookup_aset, str_eqb_refl. reflexivity.
      + exfalso. apply Hr. exact (In_keys _ _ _ Hin).
  Qed.

  Lemma set_all_NoDup todo : forall a, NoDup (map fst a) -> NoDup (map fst (set_all todo a)).
  Proof.
    induction todo as [|[n w] r IH]; intros a H; [exact H|]. cbn [set_all fold_left]. apply IH. apply aset_NoDup. exact H.
  Qed.

  Lemma update_unpinned_lookup ia a p : NoDup (map fst a) ->
    alookup p (update_unpinned ia a) =
      match alookup p a with
      | Some v => if str_eqb v unpinned_version then truthy (ia p) else Some v
      | None => None
      end.
  Proof.
    unfold update_unpinned. induction a as [|[k v] r IH]; intros ND; [reflexivity|].
    cbn [map fst] in ND. inversion ND as [|? ? Hk ND']; subst.
    cbn [flat_map fst snd alookup].
    destruct (str_eqb p k) eqn:E.
    - apply str_eqb_eq in E. subst k.
      destruct (str_eqb v unpinned_version).
      + destruct (truthy (ia p)) as [iv|].
        * cbn [app alookup]. rewrite str_eqb_refl. reflexivity.
        * cbn [app]. rewrite (IH ND').
          destruct (alookup p r) as [v'|] eqn:El; [|reflexivity].
          exfalso. apply Hk. exact (In_keys _ _ _ (alookup_In _ _ _ El)).
      + cbn [app alookup]. rewrite str_eqb_refl. reflexivity.
    - destruct (str_eqb v unpinned_version).
      + destruct (truthy (ia k)); cbn [app alookup]; [rewrite E|]; apply (IH ND').
      + cbn [app alookup]. rewrite E. apply (IH ND').
  Qed.

  Lemma dict_sub_lookup a b k v : dict_sub a b = true -> alookup k a = Some v -> alookup k b = Some v.
  Proof.
    unfold dict_sub. intros H Hl. rewrite forallb_forall in H. specialize (H (k, v) (alookup_In _ _ _ Hl)). cbn [fst snd] in H.
    destruct (alookup k b) as [v'|]; [|discriminate]. apply str_eqb_eq in H. subst. reflexivity.
  Qed.

  Lemma dict_eqb_lookup a b k : dict_eqb a b = true -> alookup k a = alookup k b.
  Proof.
    unfold dict_eqb. intros H. apply andb_true_iff in H. destruct H as [H1 H2].
    destruct (alookup k a) as [v|] eqn:Ea.
    - symmetry. exact (dict_sub_lookup a b k v H1 Ea).
    - destruct (alookup k b) as [v|] eqn:Eb; [|reflexivity].
      rewrite (dict_sub_lookup b a k v H2 Eb) in Ea. discriminate.
  Qed.

  Definition no_marker (a : alist) : Prop := forall k v, alookup k a = Some v -> str_eqb v unpinned_version = false.
  Definition pins_not_marker (t : table) : Prop :=
    forall k e w, tlookup k t = Some e -> e_ver e = Some w -> str_eqb w unpinned_version = false.

  (* lookups in the record after a completed run *)
  Lemma finish_lookup ia rec0 rec1 todo r u p : NoDup (map fst rec1) ->
    install_finish ia rec0 rec1 todo = (r, u) ->
    alookup p r = match alookup p (set_all todo rec1) with
                  | Some v => if str_eqb v unpinned_version then truthy (ia p) else Some v
                  | None => None
                  end.
  Proof.
    intros ND. unfold install_finish. fold (set_all todo rec1).
    set (rec2 := set_all todo rec1).
    assert (ND2 : NoDup (map fst rec2)) by (apply set_all_NoDup; exact ND).
    set (rec3 := if existsb (fun kv => str_eqb (snd kv) unpinned_version) rec2 then update_unpinned ia rec2 else rec2).
    assert (H3 : alookup p rec3 = match alookup p rec2 with
                                  | Some v => if str_eqb v unpinned_version then truthy (ia p) else Some v
                                  | None => None end).
    { subst rec3. destruct (existsb (fun kv => str_eqb (snd kv) unpinned_version) rec2) eqn:Ex.
      - apply update_unpinned_lookup. exact ND2.
      - destruct (alookup p rec2) as [v|] eqn:El; [|reflexivity].
        destruct (str_eqb v unpinned_version) eqn:Ev; [|reflexivity].
        exfalso. assert (existsb (fun kv => str_eqb (snd kv) unpinned_version) rec2 = true); [|congruence].
        apply existsb_exists. exists (p, v). split; [exact (alookup_In _ _ _ El)|exact Ev]. }
    destruct (dict_eqb rec3 rec0) eqn:Eq; intros H; inversion H; subst.
    - rewrite <- (dict_eqb_lookup rec3 r p Eq). exact H3.
    - exact H3.
  Qed.

  (* pyscript's record matches what it installed *)
  Theorem install_record inst allow ia rec0 t todo r u : table_wf inst t -> pins_not_marker t ->
    NoDup (map fst rec0) -> no_marker rec0 ->
    install allow ia rec0 t = ODone todo r u ->
    (forall p w, In (p, Some w) todo -> alookup p r = Some w) /\
    (forall p, In (p, None) todo -> alookup p r = truthy (ia p)) /\
    (forall p v, alookup p r = Some v -> ~ In p (map fst todo) -> alookup p rec0 = Some v).
  Proof.
    intros WF PM ND0 NM H.
    pose proof (install_args_iff inst allow ia rec0 t todo r u WF H) as A.
    destruct (install_done _ _ _ _ _ _ _ H) as (rec1 & Hp & Hf).
    destruct WF as [NDt Hi].
    destruct (plan_spec t rec0 [] rec1 todo NDt Hp) as (_ & Hr1 & Hr2).
    assert (Hsub : forall p v, alookup p rec1 = Some v -> alookup p rec0 = Some v).
    { intros p v Hl. destruct (in_dec str_dec p (map fst t)) as [Hin|Hin].
      - apply in_map_iff in Hin. destruct Hin as ([p' e] & E & Hin). cbn [fst] in E. subst p'.
        rewrite (Hr2 p e Hin) in Hl. destruct (decide_pkg (alookup p rec0) (e_inst e) (e_ver e)); congruence.
      - rewrite (Hr1 p Hin) in Hl. exact Hl. }
    assert (ND1 : NoDup (map fst rec1)).
    { clear - Hp ND0. revert Hp. generalize (@nil (str * option str)). revert rec0 ND0.
      induction t as [|[n e] t' IH]; intros rec0 ND0 acc Hp; cbn [Install.plan] in Hp.
      - inversion Hp; subst. exact ND0.
      - destruct (decide_pkg (alookup n rec0) (e_inst e) (e_ver e)); try discriminate;
          try (eapply IH; [|exact Hp]; try exact ND0; apply aremove_NoDup; exact ND0). }
    assert (Huniq : forall p w w', In (p, w) todo -> In (p, w') todo -> w' = w).
    { intros p w w' H1 H2. apply A in H1. apply A in H2.
      destruct H1 as (e1 & L1 & W1 & _), H2 as (e2 & L2 & W2 & _). congruence. }
    pose proof (fun p => finish_lookup ia rec0 rec1 todo r u p ND1 Hf) as F.
    split; [|split].
    - intros p w Hin. rewrite F. rewrite (set_all_in todo rec1 p (Some w)); [|intros w' Hw'; exact (Huniq p (Some w) w' Hin Hw')|exact Hin].
      cbn [ver_str]. apply A in Hin. destruct Hin as (e & Hl & Hw & _).
      rewrite (PM p e w Hl (eq_sym Hw)). reflexivity.
    - intros p Hin. rewrite F. rewrite (set_all_in todo rec1 p None); [|intros w' Hw'; exact (Huniq p None w' Hin Hw')|exact Hin].
      cbn [ver_str]. rewrite str_eqb_refl. reflexivity.
    - intros p v Hl Hn. rewrite F in Hl. rewrite set_all_other in Hl by exact Hn.
      destruct (alookup p rec1) as [v1|] eqn:E1; [|discriminate].
      pose proof (Hsub p v1 E1) as H0. rewrite (NM p v1 H0) in Hl. congruence.
  Qed.
End InstallProofs.

(* ---------- after a completed run the record tracks what is installed, for every required package ---------- *)
Section Tracks.
  Variable vvalid : str -> bool.
  Variable vle : str -> str -> bool.
  Local Notation decide_pkg := (decide_pkg vvalid vle).
  Local Notation plan := (plan vvalid vle).
  Local Notation install := (install vvalid vle).
  Local Notation veq := (veq vle).

  Lemma decide_keep_inv recv inst want v : decide_pkg recv inst want = DKeep -> recv = Some v ->
    exists iv, truthy inst = Some iv /\ (v = iv \/ (vvalid v = true /\ vvalid iv = true /\ veq v iv = true)).
  Proof.
    unfold Install.decide_pkg. intros H Hr. subst recv. destruct (truthy inst) as [iv|]; [|discriminate].
    exists iv. split; [reflexivity|]. destruct want as [w|].
    - destruct (vvalid v) eqn:Ev, (vvalid iv) eqn:Ei; cbn [negb orb] in H; try discriminate.
      destruct (veq v iv) eqn:Eq; cbn [negb] in H; [|discriminate]. right. tauto.
    - destruct (str_eqb v iv) eqn:E; cbn [negb] in H; [|discriminate]. left. apply str_eqb_eq. exact E.
  Qed.

  Lemma plan_no_raise : forall t rec todo rec1 todo1, NoDup (map fst t) -> plan rec t todo = Some (rec1, todo1) ->
    forall n e, In (n, e) t -> decide_pkg (alookup n rec) (e_inst e) (e_ver e) <> DRaise.
  Proof.
    induction t as [|[n0 e0] r IH]; intros rec todo rec1 todo1 ND H n e Hin; [destruct Hin|].
    cbn [map fst] in ND. inversion ND as [|? ? Hn0 ND']; subst. cbn [Install.plan] in H.
    destruct Hin as [Hin|Hin].
    - inversion Hin; subst. destruct (decide_pkg (alookup n rec) (e_inst e) (e_ver e)); discriminate.
    - assert (Hne : n <> n0) by (intros E; subst; apply Hn0; exact (In_keys _ _ _ Hin)).
      destruct (decide_pkg (alookup n0 rec) (e_inst e0) (e_ver e0)) eqn:D; try discriminate.
      + exact (IH _ _ _ _ ND' H n e Hin).
      + exact (IH _ _ _ _ ND' H n e Hin).
      + pose proof (IH _ _ _ _ ND' H n e Hin) as G. rewrite alookup_aremove in G.
        apply str_eqb_neq in Hne. rewrite Hne in G. exact G.
  Qed.

  (* hypotheses on the installer: it changes only the packages it was asked to install, and a pinned requirement ends up
     installed at exactly that version *)
  Theorem install_tracks inst allow ia rec0 t todo r u : table_wf inst t -> pins_not_marker t ->
    NoDup (map fst rec0) -> no_marker rec0 ->
    (forall p, ~ In p (map fst todo) -> ia p = inst p) ->
    (forall p w, In (p, Some w) todo -> truthy (ia p) = Some w) ->
    install allow ia rec0 t = ODone todo r u ->
    forall p e v, tlookup p t = Some e -> alookup p r = Some v ->
    exists iv, truthy (ia p) = Some iv /\ (v = iv \/ (vvalid v = true /\ vvalid iv = true /\ veq v iv = true)).
  Proof.
    intros WF PM ND0 NM Hoth Hpin H p e v Hl Hr.
    destruct (install_record vvalid vle inst allow ia rec0 t todo r u WF PM ND0 NM H) as (R1 & R2 & R3).
    destruct (in_dec str_dec p (map fst todo)) as [Hin|Hin].
    - apply in_map_iff in Hin. destruct Hin as ([p' [w|]] & E & Hin); cbn [fst] in E; subst p'.
      + rewrite (R1 p w Hin) in Hr. inversion Hr; subst. exists v. split; [exact (Hpin p v Hin)|left; reflexivity].
      + rewrite (R2 p Hin) in Hr. exists v. split; [exact Hr|left; reflexivity].
    - pose proof (R3 p v Hr Hin) as H0.
      destruct (install_done vvalid vle _ _ _ _ _ _ _ H) as (rec1 & Hp & Hf).
      destruct WF as [NDt Hi].
      pose proof (tlookup_In p e t Hl) as HIn.
      destruct (plan_spec vvalid vle t rec0 [] rec1 todo NDt Hp) as ((extra & Ht & Hx) & _ & Hr2). cbn [app] in Ht. subst extra.
      pose proof (plan_no_raise t rec0 [] rec1 todo NDt Hp p e HIn) as NR.
      assert (ND1 : NoDup (map fst rec1)).
      { clear - Hp ND0. revert Hp. generalize (@nil (str * option str)). revert rec0 ND0.
        induction t as [|[n e] t' IH]; intros rec0 ND0 acc Hp; cbn [Install.plan] in Hp.
        - inversion Hp; subst. exact ND0.
        - destruct (decide_pkg (alookup n rec0) (e_inst e) (e_ver e)); try discriminate;
            try (eapply IH; [|exact Hp]; try exact ND0; apply aremove_NoDup; exact ND0). }
      pose proof (finish_lookup ia rec0 rec1 todo r u p ND1 Hf) as F. rewrite set_all_other in F by exact Hin.
      rewrite Hr in F. rewrite (Hr2 p e HIn) in F.
      destruct (decide_pkg (alookup p rec0) (e_inst e) (e_ver e)) eqn:D.
      + exfalso. apply Hin. apply (In_keys p (e_ver e)). apply Hx. exists e. tauto.
      + destruct (decide_keep_inv _ _ _ v D H0) as (iv & Ti & Hv). exists iv. split; [|exact Hv].
        rewrite (Hoth p Hin). rewrite <- (Hi p e Hl). exact Ti.
      + discriminate.
      + congruence.
  Qed.
End Tracks.
