(* Proofs/LifeClosure.v — import_recurse (the memoised depth-first walk of load_scripts, with its `visited` set
   and `ctx2imports` memo) computes exactly the contexts reachable in one or more recorded import steps, for every
   acyclic import graph, every pre-filled memo satisfying the invariant, and with fuel |contexts| + 1: the fuel
   argument (every descent marks a loaded, not yet visited name) is part of the result and needs no acyclicity. *)
From PV Require Import Common.Util Life.ReloadBase Gen.ReloadConsts Life.Modules Life.Reload Life.ReloadPlanSpec Proofs.LifeReloadBase.
From Coq Require Import Lia.

Lemma reach_plus_trans st a b c : reach_plus st a b -> reach_plus st b c -> reach_plus st a c.
Proof. induction 1 as [a b E|a b c' E R IH]; intros H; [eapply rp_step; eauto|eapply rp_step; eauto]. Qed.

Lemma reach_plus_snoc st a b c : reach_plus st a b -> edge st b c -> reach_plus st a c.
Proof. intros R E. eapply reach_plus_trans; [exact R|apply rp_one; exact E]. Qed.

Lemma acyclic_irrefl st a : acyclic st -> ~ reach_plus st a a.
Proof.
  intros [rank Hr] R.
  assert (H : forall x y, reach_plus st x y -> (rank y < rank x)%nat).
  { induction 1 as [x y E|x y z E R' IH]; [apply Hr; exact E|]. pose proof (Hr _ _ E). lia. }
  pose proof (H _ _ R). lia.
Qed.

Lemma reach_unfold st n c d : st_get st n = Some c ->
  (reach_plus st n d <-> exists i, In i (c_imports c) /\ (d = i \/ reach_plus st i d)).
Proof.
  intros G. split.
  - intros R. inversion R as [a b E|a b c' E R']; subst.
    + destruct E as (c0 & G0 & Hi). rewrite G in G0; inversion G0; subst c0. eauto.
    + destruct E as (c0 & G0 & Hi). rewrite G in G0; inversion G0; subst c0. eauto.
  - intros (i & Hi & [->|R]).
    + apply rp_one. exists c; auto.
    + eapply rp_step; [exists c; eauto|exact R].
Qed.

Lemma reach_none st n d : st_get st n = None -> ~ reach_plus st n d.
Proof. intros G R. inversion R as [a b E|a b c' E R']; subst; destruct E as (c0 & G0 & _); congruence. Qed.

(* ---------- the fuel measure: loaded contexts not yet visited ---------- *)
Definition mu (st : state) (visited : list cname) : nat :=
  length (filter (fun c => negb (nl_mem (c_name c) visited)) st).

Lemma filter_length_le {A} (f g : A -> bool) l :
  (forall x, In x l -> g x = true -> f x = true) -> (length (filter g l) <= length (filter f l))%nat.
Proof.
  induction l as [|x l IH]; intros H; cbn; [lia|].
  assert (IH' : (length (filter g l) <= length (filter f l))%nat) by (apply IH; intros; apply H; cbn; auto).
  destruct (g x) eqn:Eg.
  - rewrite (H x (or_introl eq_refl) Eg). cbn. lia.
  - destruct (f x); cbn; lia.
Qed.

Lemma mu_mono st v v' : incl v v' -> (mu st v' <= mu st v)%nat.
Proof.
  intros Hi. unfold mu. apply filter_length_le. intros c _ H.
  apply negb_true_iff, nl_mem_false in H. apply negb_true_iff, nl_mem_false. intros HI. apply H, Hi, HI.
Qed.

Lemma filter_length_lt {A} (f g : A -> bool) l x :
  (forall y, In y l -> g y = true -> f y = true) -> In x l -> f x = true -> g x = false ->
  (length (filter g l) < length (filter f l))%nat.
Proof.
  induction l as [|y l IH]; intros H Hx Hf Hg; [destruct Hx|].
  cbn. destruct Hx as [->|Hx].
  - rewrite Hf, Hg. cbn.
    assert ((length (filter g l) <= length (filter f l))%nat) by (apply filter_length_le; intros; apply H; cbn; auto). lia.
  - assert (IH' : (length (filter g l) < length (filter f l))%nat) by (apply IH; auto; intros; apply H; cbn; auto).
    destruct (g y) eqn:Eg.
    + rewrite (H y (or_introl eq_refl) Eg). cbn. lia.
    + destruct (f y); cbn; lia.
Qed.

Lemma mu_dec st v n c : st_get st n = Some c -> ~ In n v -> (mu st (v ++ [n]) < mu st v)%nat.
Proof.
  intros G Hn. apply st_get_Some in G. destruct G as [Hc En]. unfold mu.
  apply (filter_length_lt _ _ st c).
  - intros y _ H. apply negb_true_iff, nl_mem_false in H. apply negb_true_iff, nl_mem_false.
    intros HI. apply H. apply in_or_app; auto.
  - exact Hc.
  - apply negb_true_iff, nl_mem_false. rewrite En. exact Hn.
  - apply negb_false_iff, nl_mem_In. rewrite En. apply in_or_app; right; cbn; auto.
Qed.

Lemma mu_le_length st v : (mu st v <= length st)%nat.
Proof. unfold mu. induction st as [|c st IH]; cbn; [lia|]. destruct (negb _); cbn; lia. Qed.

(* ---------- the invariant of the memo ---------- *)
Definition closure_of (st : state) (k : cname) (v : list cname) : Prop := forall d, In d v <-> reach_plus st k d.

Record INV (st : state) (m : memo) (visited stk : list cname) : Prop := {
  inv_memo : forall k v, memo_get m k = Some v -> ~ In k stk -> closure_of st k v;
  inv_vis : forall k, In k visited -> ~ In k stk -> memo_get m k <> None \/ st_get st k = None }.

Definition ir_post (st : state) (n : cname) (visited : list cname) (m : memo) (stk : list cname) (r : irres) : Prop :=
  exists res v' m', r = IROk res v' m' /\ closure_of st n res /\ INV st m' v' stk /\ incl visited v'
                    /\ (forall k, In k stk -> memo_get m' k = memo_get m k)
                    /\ (In n v' \/ memo_get m n <> None).

Section Loop.
  Variable st : state.
  Variable rec : cname -> list cname -> memo -> irres.
  Variable bound : nat.
  Hypothesis Hac : acyclic st.
  Hypothesis rec_ok : forall n visited m stk,
      (mu st visited < bound)%nat -> (forall s, In s stk -> reach_plus st s n) -> INV st m visited stk ->
      ir_post st n visited m stk (rec n visited m).

  Lemma ir_loop_ok self c stk : st_get st self = Some c -> (forall s, In s stk -> reach_plus st s self) ->
    forall todo done visited m acc,
      c_imports c = done ++ todo ->
      (mu st visited < bound)%nat ->
      memo_get m self = Some acc ->
      (forall d, In d acc <-> exists i, In i done /\ (d = i \/ reach_plus st i d)) ->
      INV st m visited (self :: stk) ->
      exists res v' m', ir_loop rec self todo visited m = IROk res v' m'
        /\ (forall d, In d res <-> exists i, In i (c_imports c) /\ (d = i \/ reach_plus st i d))
        /\ memo_get m' self = Some res /\ INV st m' v' (self :: stk) /\ incl visited v'
        /\ (forall k, In k stk -> memo_get m' k = memo_get m k).
  Proof.
    intros G Hstk. induction todo as [|i todo IH]; intros done visited m acc Himp Hmu Hself Hacc Hinv.
    - cbn [ir_loop]. unfold memo_or_empty. rewrite Hself. exists acc, visited, m.
      rewrite app_nil_r in Himp. rewrite Himp.
      split; [reflexivity|]. split; [exact Hacc|]. split; [exact Hself|]. split; [exact Hinv|].
      split; [apply incl_refl|reflexivity].
    - cbn [ir_loop]. unfold memo_or_empty at 1. rewrite Hself.
      set (m1 := memo_set m self (nl_add i acc)).
      assert (Hi : In i (c_imports c)) by (rewrite Himp; apply in_or_app; right; cbn; auto).
      assert (Hself_not : ~ In self stk).
      { intros HI. apply (acyclic_irrefl st self Hac). apply Hstk, HI. }
      assert (Hinv1 : INV st m1 visited (self :: stk)).
      { destruct Hinv as [Ha Hb]. split.
        - intros k v Hk Hn. apply Ha; [|exact Hn]. subst m1. rewrite memo_get_set_other in Hk; [exact Hk|].
          intros ->. apply Hn. cbn; auto.
        - intros k Hk Hn. destruct (Hb k Hk Hn) as [H|H]; [left|right; exact H].
          subst m1. rewrite memo_get_set_other; [exact H|]. intros ->. apply Hn; cbn; auto. }
      destruct (rec_ok i visited m1 (self :: stk) Hmu) as (sub & v2 & m2 & Er & Hsub & Hinv2 & Hinc2 & Hkeep2 & _).
      { intros s [<-|Hs]; [apply rp_one; exists c; auto|].
        eapply reach_plus_snoc; [apply Hstk, Hs|exists c; auto]. }
      { exact Hinv1. }
      rewrite Er.
      assert (Hself2 : memo_get m2 self = Some (nl_add i acc)).
      { rewrite Hkeep2 by (cbn; auto). subst m1. apply memo_get_set_same. }
      unfold memo_or_empty. rewrite Hself2.
      set (acc' := nl_union (nl_add i acc) sub).
      set (m3 := memo_set m2 self acc').
      destruct (IH (done ++ [i]) v2 m3 acc') as (res & v' & m' & El & Hres & Hs' & Hinv' & Hinc' & Hkeep').
      + rewrite <- app_assoc. exact Himp.
      + pose proof (mu_mono st visited v2 Hinc2). lia.
      + subst m3. apply memo_get_set_same.
      + intros d. subst acc'. rewrite nl_union_In, nl_add_In, Hacc. split.
        * intros [[->|(j & Hj & Hd)]|Hd].
          -- exists i. split; [apply in_or_app; right; cbn; auto|auto].
          -- exists j. split; [apply in_or_app; auto|exact Hd].
          -- exists i. split; [apply in_or_app; right; cbn; auto|right; apply Hsub, Hd].
        * intros (j & Hj & Hd). apply in_app_or in Hj. destruct Hj as [Hj|[<-|[]]].
          -- left; right. eauto.
          -- destruct Hd as [->|Hd]; [left; left; reflexivity|right; apply Hsub, Hd].
      + destruct Hinv2 as [Ha Hb]. split.
        * intros k v Hk Hn. apply Ha; [|exact Hn]. subst m3. rewrite memo_get_set_other in Hk; [exact Hk|].
          intros ->. apply Hn; cbn; auto.
        * intros k Hk Hn. destruct (Hb k Hk Hn) as [H|H]; [left|right; exact H].
          subst m3. rewrite memo_get_set_other; [exact H|]. intros ->. apply Hn; cbn; auto.
      + exists res, v', m'. split; [exact El|]. split; [exact Hres|]. split; [exact Hs'|]. split; [exact Hinv'|]. split.
        * eapply incl_tran; eassumption.
        * intros k Hk. rewrite Hkeep' by exact Hk. subst m3.
          rewrite memo_get_set_other by (intros ->; exact (Hself_not Hk)).
          rewrite Hkeep2 by (cbn; auto). subst m1.
          apply memo_get_set_other. intros ->; exact (Hself_not Hk).
  Qed.
End Loop.

Lemma import_recurse_ok st : acyclic st -> forall fuel n visited m stk,
  (mu st visited < fuel)%nat -> (forall s, In s stk -> reach_plus st s n) -> INV st m visited stk ->
  ir_post st n visited m stk (import_recurse fuel st n visited m).
Proof.
  intros Hac. induction fuel as [|fuel IH]; intros n visited m stk Hmu Hstk Hinv; [lia|].
  assert (Hn_not : ~ In n stk).
  { intros HI. apply (acyclic_irrefl st n Hac). apply Hstk, HI. }
  cbn [import_recurse].
  destruct (nl_mem n visited || match memo_get m n with Some _ => true | None => false end) eqn:Eearly.
  - (* already visited or memoised *)
    exists (memo_or_empty m n), visited, m.
    split; [reflexivity|]. split; [|split; [exact Hinv|split; [apply incl_refl|split; [reflexivity|]]]].
    2:{ apply orb_true_iff in Eearly. destruct Eearly as [E|E]; [left; apply nl_mem_In; exact E|right].
        destruct (memo_get m n); [discriminate|discriminate]. }
    intros d. split.
    + unfold memo_or_empty. destruct (memo_get m n) as [v|] eqn:Em.
      * intros Hd. apply (inv_memo _ _ _ _ Hinv n v Em Hn_not). exact Hd.
      * intros [].
    + unfold memo_or_empty. destruct (memo_get m n) as [v|] eqn:Em.
      * intros Hd. apply (inv_memo _ _ _ _ Hinv n v Em Hn_not). exact Hd.
      * intros R. exfalso. cbn in Eearly. rewrite orb_false_r in Eearly. apply nl_mem_In in Eearly.
        destruct (inv_vis _ _ _ _ Hinv n Eearly Hn_not) as [H|H]; [congruence|].
        exact (reach_none st n d H R).
  - apply orb_false_iff in Eearly. destruct Eearly as [Ev Em].
    apply nl_mem_false in Ev.
    assert (Em' : memo_get m n = None) by (destruct (memo_get m n); [discriminate|reflexivity]).
    destruct (st_get st n) as [c|] eqn:G.
    + (* a loaded context: walk its imports *)
      set (m0 := memo_set m n []).
      assert (Hmu1 : (mu st (visited ++ [n]) < fuel)%nat) by (pose proof (mu_dec st visited n c G Ev); lia).
      destruct (ir_loop_ok st (import_recurse fuel st) fuel Hac IH n c stk G Hstk (c_imports c) [] (visited ++ [n]) m0 [])
        as (res & v' & m' & El & Hres & Hself & Hinv' & Hinc & Hkeep).
      * reflexivity.
      * exact Hmu1.
      * subst m0. apply memo_get_set_same.
      * intros d. split; [intros []|intros (i & [] & _)].
      * destruct Hinv as [Ha Hb]. split.
        -- intros k v Hk Hn. apply Ha; [|intros HI; apply Hn; cbn; auto]. subst m0.
           rewrite memo_get_set_other in Hk; [exact Hk|]. intros ->. apply Hn; cbn; auto.
        -- intros k Hk Hn. apply in_app_or in Hk. destruct Hk as [Hk|[<-|[]]]; [|exfalso; apply Hn; cbn; auto].
           destruct (Hb k Hk) as [H|H]; [intros HI; apply Hn; cbn; auto| |right; exact H].
           left. subst m0. rewrite memo_get_set_other; [exact H|]. intros ->. apply Hn; cbn; auto.
      * exists res, v', m'. split; [exact El|]. split; [|split; [|split; [|split]]].
        5:{ left. apply Hinc. apply in_or_app; right; cbn; auto. }
        -- intros d. rewrite Hres. symmetry. apply reach_unfold. exact G.
        -- destruct Hinv' as [Ha Hb]. split.
           ++ intros k v Hk Hn. destruct (list_eq_dec N.eq_dec k n) as [->|Hkn].
              ** rewrite Hself in Hk. inversion Hk; subst v. intros d. rewrite Hres. symmetry. apply reach_unfold. exact G.
              ** apply Ha; [exact Hk|]. intros [E|HI]; [congruence|exact (Hn HI)].
           ++ intros k Hk Hn. destruct (list_eq_dec N.eq_dec k n) as [->|Hkn].
              ** left. rewrite Hself. discriminate.
              ** apply Hb; [exact Hk|]. intros [E|HI]; [congruence|exact (Hn HI)].
        -- intros x Hx. apply Hinc. apply in_or_app; auto.
        -- intros k Hk. rewrite Hkeep by exact Hk. subst m0. apply memo_get_set_other. intros ->. exact (Hn_not Hk).
    + (* not loaded: no imports *)
      exists [], (visited ++ [n]), m.
      split; [reflexivity|]. split; [|split; [split|split; [|split; [reflexivity|]]]].
      5:{ left. apply in_or_app; right; cbn; auto. }
      * intros d. split; [intros []|intros R; exact (reach_none st n d G R)].
      * intros k v Hk Hn. apply (inv_memo _ _ _ _ Hinv k v Hk Hn).
      * intros k Hk Hn. apply in_app_or in Hk. destruct Hk as [Hk|[<-|[]]]; [|right; exact G].
        apply (inv_vis _ _ _ _ Hinv k Hk Hn).
      * intros x Hx. apply in_or_app; auto.
Qed.

Lemma INV_empty st : INV st [] [] [].
Proof. split; [intros k v H; discriminate|intros k []]. Qed.

(* the statement used by the plan: a fresh `visited`, any memo left by the earlier top-level calls; afterwards the
   memo answers for [n] (ctx2imports.get(name, set())) *)
Theorem import_closure st n m : acyclic st -> INV st m [] [] ->
  exists res v' m', import_recurse (ir_fuel st) st n [] m = IROk res v' m'
    /\ closure_of st n res /\ closure_of st n (memo_or_empty m' n) /\ INV st m' [] [].
Proof.
  intros Hac Hinv.
  destruct (import_recurse_ok st Hac (ir_fuel st) n [] m []) as (res & v' & m' & E & Hres & Hinv' & _ & _ & Hn).
  - unfold ir_fuel. pose proof (mu_le_length st []). lia.
  - intros s [].
  - exact Hinv.
  - exists res, v', m'. split; [exact E|]. split; [exact Hres|].
    assert (Hinv0 : INV st m' [] []) by (split; [apply Hinv'|intros k []]).
    split; [|exact Hinv0].
    unfold memo_or_empty. destruct (memo_get m' n) as [v|] eqn:Em.
    + apply (inv_memo _ _ _ _ Hinv' n v Em). intros [].
    + assert (G : st_get st n = None).
      { destruct Hn as [Hn|Hn].
        - destruct (inv_vis _ _ _ _ Hinv' n Hn) as [H|H]; [intros []|congruence|exact H].
        - (* n was memoised before: then it still is (early return) -- impossible here since the memo lost nothing *)
          destruct (memo_get m n) as [v|] eqn:Em0; [|congruence].
          exfalso. clear Hn.
          (* early return: m' = m *)
          unfold ir_fuel in E. cbn [import_recurse] in E. rewrite Em0 in E. cbn in E.
          inversion E; subst. congruence. }
      intros d. split; [intros []|intros R; exact (reach_none st n d G R)].
Qed.

(* ---------- termination alone: no acyclicity needed ---------- *)
Lemma ir_loop_total st rec bound :
  (forall n v m, (mu st v < bound)%nat -> exists res v' m', rec n v m = IROk res v' m' /\ incl v v') ->
  forall todo self visited m, (mu st visited < bound)%nat ->
    exists res v' m', ir_loop rec self todo visited m = IROk res v' m' /\ incl visited v'.
Proof.
  intros Hrec. induction todo as [|i todo IH]; intros self visited m Hmu; cbn [ir_loop].
  - eexists _, _, _. split; [reflexivity|apply incl_refl].
  - destruct (Hrec i visited (memo_set m self (nl_add i (memo_or_empty m self))) Hmu) as (sub & v2 & m2 & E & Hinc).
    rewrite E.
    destruct (IH self v2 (memo_set m2 self (nl_union (memo_or_empty m2 self) sub))) as (res & v' & m' & E' & Hinc').
    + pose proof (mu_mono st visited v2 Hinc). lia.
    + exists res, v', m'. split; [exact E'|eapply incl_tran; eassumption].
Qed.

Lemma import_recurse_total st : forall fuel n visited m, (mu st visited < fuel)%nat ->
  exists res v' m', import_recurse fuel st n visited m = IROk res v' m' /\ incl visited v'.
Proof.
  induction fuel as [|fuel IH]; intros n visited m Hmu; [lia|].
  cbn [import_recurse].
  destruct (nl_mem n visited || match memo_get m n with Some _ => true | None => false end) eqn:Eearly.
  - eexists _, _, _. split; [reflexivity|apply incl_refl].
  - apply orb_false_iff in Eearly. destruct Eearly as [Ev _]. apply nl_mem_false in Ev.
    destruct (st_get st n) as [c|] eqn:G.
    + destruct (ir_loop_total st (import_recurse fuel st) fuel IH (c_imports c) n (visited ++ [n]) (memo_set m n []))
        as (res & v' & m' & E & Hinc).
      * pose proof (mu_dec st visited n c G Ev). lia.
      * exists res, v', m'. split; [exact E|]. intros x Hx. apply Hinc. apply in_or_app; auto.
    + eexists _, _, _. split; [reflexivity|]. intros x Hx. apply in_or_app; auto.
Qed.

(* the fuel the plan uses is enough for every context table, cyclic or not *)
Theorem import_recurse_never_out_of_fuel st n m : import_recurse (ir_fuel st) st n [] m <> IRFuel.
Proof.
  destruct (import_recurse_total st (ir_fuel st) n [] m) as (res & v' & m' & E & _).
  - unfold ir_fuel. pose proof (mu_le_length st []). lia.
  - rewrite E. discriminate.
Qed.
