(* Proofs/TaskLifecycle.v — all lemmas for C14 (Task/Lifecycle.v).
   Every "for all schedules / fault placements" statement is an invariant of [step] proved by induction over
   arbitrary label sequences. *)
From PV Require Import Common.Util Gen.LifecycleConsts Task.Lifecycle Task.LifecycleCheck.
From Coq Require Import Lia.

(* T1: the shape of the source the model was written against *)
Lemma source_shape :
  lc_finally_order = [1; 2; 3; 4; 5]%N /\ lc_registers_first = true /\ lc_start_cbrec_if_ctx = true /\
  lc_cb_loop_awaits = true /\ lc_reaper_awaits = true /\ lc_cancel_checks_ours = true /\ lc_cancel_via_reaper = true /\
  lc_remove_pops_one = true /\ lc_add_sets_entry = true /\ (2 ^ 28 < lc_self_cancel_sleep * 4096)%N.
Proof. repeat split; reflexivity. Qed.

(* ---------- generalities ---------- *)
Lemma upd_same {A} (f : N -> A) k v : upd f k v k = v.
Proof. unfold upd. rewrite N.eqb_refl. reflexivity. Qed.
Lemma upd_other {A} (f : N -> A) k v x : x <> k -> upd f k v x = f x.
Proof. unfold upd. intros H. destruct (N.eqb_spec x k); [contradiction|reflexivity]. Qed.

Lemma run_from_inv (cfg : deviations) (Inv : state -> Prop) :
  (forall s l s', Inv s -> step cfg s l = Some s' -> Inv s') ->
  forall ls s s', Inv s -> run_from cfg s ls = Some s' -> Inv s'.
Proof.
  intros Hstep ls. induction ls as [|l r IH]; intros s s' Hi Hr; cbn in Hr.
  - inversion Hr; subst; assumption.
  - unfold run_from in Hr. cbn in Hr. destruct (step cfg s l) as [s1|] eqn:E; [|discriminate].
    eapply IH; [eapply Hstep; eassumption|exact Hr].
Qed.

Lemma In_remove_name x n l : In x (remove_name n l) <-> In x l /\ x <> n.
Proof.
  unfold remove_name. rewrite filter_In. split.
  - intros [Hi Hn]. split; [assumption|]. intros ->. rewrite N.eqb_refl in Hn. discriminate.
  - intros [Hi Hn]. split; [assumption|]. destruct (N.eqb_spec x n); [contradiction|reflexivity].
Qed.

Lemma del_names_some f l n v : del_names f l n = Some v <-> f n = Some v /\ ~ In n l.
Proof.
  revert f. induction l as [|a r IH]; intros f; cbn [del_names].
  - cbn. tauto.
  - rewrite IH. unfold upd. destruct (N.eqb_spec n a) as [->|Hne]; cbn.
    + split; [intros [H _]; discriminate|intros [_ H]; exfalso; apply H; left; reflexivity].
    + split; intros [H1 H2]; (split; [assumption|]); intros Hc; apply H2.
      * destruct Hc as [Hc|Hc]; [congruence|assumption].
      * right; assumption.
Qed.

(* ---------- A. cleanup ---------- *)
Definition clean4 (s : state) (t : tid) : Prop :=
  st_ours s t = false /\ st_cb s t = None /\ st_ctx s t = false /\ st_t2n s t = None.
(* none of the five registries mentions t *)
Definition clean (s : state) (t : tid) : Prop :=
  clean4 s t /\ forall n, st_n2t s n <> Some t.

Definition tinv (s : state) (t : tid) : Prop :=
  match phase_of s t with
  | PNone => clean4 s t
  | PCreated => st_ours s t = false /\ st_ctx s t = false /\ st_t2n s t = None
  | PBody => True
  | PFin _ n0 _ _ => n0 = length (tbl_live (tr_snap (st_task s t)))
  | PDone => clean4 s t
  end.

Record invA (s : state) : Prop := mkInvA {
  ia_task : forall t, tinv s t;
  ia_names : forall n t, st_n2t s n = Some t -> exists l, st_t2n s t = Some l /\ In n l;
  ia_rq : forall x, In x (st_rq s) -> phase_of s x <> PNone /\ phase_of s x <> PCreated
}.

Definition no_escape (cfg : deviations) : Prop := d_fin_cancel_escapes cfg = false /\ d_live_iter cfg = false.

Lemma invA_init : invA init_state.
Proof.
  constructor.
  - intros t. unfold tinv, phase_of, clean4. cbn. auto.
  - intros n t H. cbn in H. discriminate.
  - intros x H. cbn in H. contradiction.
Qed.

Ltac upd_cases :=
  repeat match goal with
         | |- context [N.eqb ?a ?b] => destruct (N.eqb_spec a b); subst
         | H : context [N.eqb ?a ?b] |- _ => destruct (N.eqb_spec a b); subst
         end.

Lemma tinv_frame s s' t :
  st_task s' t = st_task s t -> st_ours s' t = st_ours s t -> st_cb s' t = st_cb s t -> st_ctx s' t = st_ctx s t ->
  st_t2n s' t = st_t2n s t -> tinv s t -> tinv s' t.
Proof. unfold tinv, phase_of, clean4. intros -> -> -> -> ->. auto. Qed.

Lemma names_frame s s' :
  st_n2t s' = st_n2t s -> st_t2n s' = st_t2n s ->
  (forall n t, st_n2t s n = Some t -> exists l, st_t2n s t = Some l /\ In n l) ->
  (forall n t, st_n2t s' n = Some t -> exists l, st_t2n s' t = Some l /\ In n l).
Proof. intros -> ->. auto. Qed.

(* phases never go back to PNone / PCreated *)
Lemma rq_frame s s' :
  (forall x, In x (st_rq s') -> In x (st_rq s)) ->
  (forall x, (phase_of s x <> PNone /\ phase_of s x <> PCreated) -> (phase_of s' x <> PNone /\ phase_of s' x <> PCreated)) ->
  (forall x, In x (st_rq s) -> phase_of s x <> PNone /\ phase_of s x <> PCreated) ->
  (forall x, In x (st_rq s') -> phase_of s' x <> PNone /\ phase_of s' x <> PCreated).
Proof. intros H1 H2 H3 x Hx. apply H2, H3, H1, Hx. Qed.

Ltac other It t0 :=
  specialize (It t0); eapply tinv_frame; [| | | | |exact It]; cbn; rewrite ?upd_other by assumption; reflexivity.

(* end_body: t goes from PBody to the start of the finally; registries untouched *)
Lemma invA_end_body s t o :
  invA s -> phase_of s t = PBody -> invA (end_body s t o).
Proof.
  intros [It Inm Iq] Ep. constructor.
  - intros t0. destruct (N.eq_dec t0 t) as [->|Hne].
    + unfold tinv, phase_of, end_body. cbn. rewrite upd_same. cbn. reflexivity.
    + unfold end_body. other It t0.
  - eapply names_frame; [| |exact Inm]; reflexivity.
  - eapply rq_frame; [| |exact Iq].
    + intros x Hx; exact Hx.
    + intros x Hx. unfold phase_of, end_body in *. cbn. destruct (N.eq_dec x t) as [->|Hne].
      * rewrite upd_same. cbn. split; discriminate.
      * rewrite upd_other by assumption. exact Hx.
Qed.

Lemma running_body s t : running s t = true -> phase_of s t = PBody.
Proof. unfold running. destruct (phase_of s t); try discriminate. reflexivity. Qed.

(* a step that only replaces the callback table of a task that has one *)
Lemma invA_set_cb s x tb tb' :
  invA s -> st_cb s x = Some tb -> invA (set_cb s x (Some tb')).
Proof.
  intros [It Inm Iq] Hx. constructor.
  - intros t0. destruct (N.eq_dec t0 x) as [->|Hne].
    + specialize (It x). unfold tinv, phase_of, clean4 in *. cbn. rewrite upd_same.
      destruct (tr_phase (st_task s x)); try tauto; destruct It as (_ & Hc & _); congruence.
    + other It t0.
  - eapply names_frame; [| |exact Inm]; reflexivity.
  - eapply rq_frame; [| |exact Iq]; intros x0 H0; exact H0.
Qed.

Lemma invA_push_rq s x :
  invA s -> st_ours s x = true -> invA (set_rq s (st_rq s ++ [x])).
Proof.
  intros [It Inm Iq] Hx. constructor.
  - intros t0. specialize (It t0). eapply tinv_frame; [| | | | |exact It]; reflexivity.
  - eapply names_frame; [| |exact Inm]; reflexivity.
  - intros y Hy. cbn in Hy. apply in_app_or in Hy. destruct Hy as [Hy|[<-|[]]].
    + apply Iq in Hy. exact Hy.
    + specialize (It x). unfold tinv, phase_of, clean4 in *. cbn.
      destruct (tr_phase (st_task s x)); split; try discriminate; intros _; destruct It as (Ho & _); congruence.
Qed.

(* a step that only rewrites the record of a task inside the finally, keeping it inside the finally with the same
   loop-start size and snapshot, or only touches flags of a task in PBody / PFin *)
Lemma invA_set_task_keep s t r :
  invA s ->
  (match phase_of s t, tr_phase r with
   | PBody, PBody => True
   | PFin _ n0 _ _, PFin _ n0' _ _ => n0' = n0 /\ tr_snap r = tr_snap (st_task s t)
   | _, _ => False
   end) ->
  invA (set_task s t r).
Proof.
  intros [It Inm Iq] Hk. constructor.
  - intros t0. destruct (N.eq_dec t0 t) as [->|Hne].
    + specialize (It t). unfold tinv, phase_of in *. cbn. rewrite upd_same.
      destruct (tr_phase (st_task s t)), (tr_phase r); try tauto.
      destruct Hk as [-> ->]. exact It.
    + other It t0.
  - eapply names_frame; [| |exact Inm]; reflexivity.
  - eapply rq_frame; [| |exact Iq].
    + intros x Hx; exact Hx.
    + intros x Hx. unfold phase_of in *. cbn. destruct (N.eq_dec x t) as [->|Hne].
      * rewrite upd_same. destruct (tr_phase (st_task s t)), (tr_phase r); try tauto; split; discriminate.
      * rewrite upd_other by assumption. exact Hx.
Qed.

Lemma invA_log s e : invA s -> invA (add_log s e).
Proof.
  intros [It Inm Iq]. constructor.
  - intros t0. specialize (It t0). eapply tinv_frame; [| | | | |exact It]; reflexivity.
  - eapply names_frame; [| |exact Inm]; reflexivity.
  - exact Iq.
Qed.

Lemma invA_rq_sub s q : invA s -> (forall x, In x q -> In x (st_rq s)) -> invA (set_rq s q).
Proof.
  intros [It Inm Iq] Hq. constructor.
  - intros t0. specialize (It t0). eapply tinv_frame; [| | | | |exact It]; reflexivity.
  - eapply names_frame; [| |exact Inm]; reflexivity.
  - intros x Hx. apply Hq, Iq in Hx. exact Hx.
Qed.

Lemma invA_rbusy s b : invA s -> invA (set_rbusy s b).
Proof.
  intros [It Inm Iq]. constructor.
  - intros t0. specialize (It t0). eapply tinv_frame; [| | | | |exact It]; reflexivity.
  - eapply names_frame; [| |exact Inm]; reflexivity.
  - exact Iq.
Qed.

Lemma invA_cleanup s t cur n0 brk :
  invA s -> phase_of s t = PFin cur n0 false brk -> invA (cleanup s t).
Proof.
  intros [It Inm Iq] Ep. unfold cleanup.
  destruct (st_t2n s t) as [l|] eqn:El; constructor.
  - intros t0. destruct (N.eq_dec t0 t) as [->|Hne].
    + unfold tinv, phase_of, clean4. cbn. rewrite !upd_same. cbn. auto.
    + other It t0.
  - cbn. intros n t0 Hn. apply del_names_some in Hn. destruct Hn as [Hn Hni].
    destruct (N.eq_dec t0 t) as [->|Hne].
    + apply Inm in Hn. destruct Hn as (l' & El' & Hin). rewrite El in El'. inversion El'; subst. contradiction.
    + rewrite upd_other by assumption. apply Inm; assumption.
  - intros x Hx. cbn in Hx. apply Iq in Hx. unfold phase_of in *. cbn. destruct (N.eq_dec x t) as [->|Hne].
    + rewrite upd_same. cbn. split; discriminate.
    + rewrite upd_other by assumption. exact Hx.
  - intros t0. destruct (N.eq_dec t0 t) as [->|Hne].
    + unfold tinv, phase_of, clean4. cbn. rewrite !upd_same. cbn. auto.
    + other It t0.
  - cbn. intros n t0 Hn. destruct (N.eq_dec t0 t) as [->|Hne].
    + apply Inm in Hn. destruct Hn as (l' & El' & _). congruence.
    + apply Inm; assumption.
  - intros x Hx. cbn in Hx. apply Iq in Hx. unfold phase_of in *. cbn. destruct (N.eq_dec x t) as [->|Hne].
    + rewrite upd_same. cbn. split; discriminate.
    + rewrite upd_other by assumption. exact Hx.
Qed.

Lemma invA_start cfg s t s' :
  invA s -> step cfg s (LStart t) = Some s' -> invA s'.
Proof.
  intros I H. cbn [step] in H. destruct (tr_phase (st_task s t)) eqn:Ep; try discriminate.
  inversion H; subst; clear H. destruct I as [It Inm Iq].
  set (r := st_task s t) in *.
  assert (Hcases : forall s2, (s2 = set_ours (set_task s t (set_phase r PBody)) t true \/
                               s2 = set_cb (set_ours (set_task s t (set_phase r PBody)) t true) t (Some [])) ->
                              invA s2 /\ invA (set_ctx s2 t true)).
  { intros s2 Hs2. split; constructor.
    - intros t0. destruct (N.eq_dec t0 t) as [->|Hne].
      + unfold tinv, phase_of. destruct Hs2 as [-> | ->]; cbn; rewrite upd_same; cbn; exact I.
      + destruct Hs2 as [-> | ->]; other It t0.
    - destruct Hs2 as [-> | ->]; (eapply names_frame; [| |exact Inm]; reflexivity).
    - intros x Hx. assert (Hx' : In x (st_rq s)) by (destruct Hs2 as [-> | ->]; exact Hx). apply Iq in Hx'.
      unfold phase_of in *. destruct (N.eq_dec x t) as [->|Hne].
      + destruct Hs2 as [-> | ->]; cbn; rewrite upd_same; cbn; split; discriminate.
      + destruct Hs2 as [-> | ->]; cbn; rewrite upd_other by assumption; exact Hx'.
    - intros t0. destruct (N.eq_dec t0 t) as [->|Hne].
      + unfold tinv, phase_of. destruct Hs2 as [-> | ->]; cbn; rewrite upd_same; cbn; exact I.
      + destruct Hs2 as [-> | ->]; other It t0.
    - destruct Hs2 as [-> | ->]; (eapply names_frame; [| |exact Inm]; reflexivity).
    - intros x Hx. assert (Hx' : In x (st_rq s)) by (destruct Hs2 as [-> | ->]; exact Hx). apply Iq in Hx'.
      unfold phase_of in *. destruct (N.eq_dec x t) as [->|Hne].
      + destruct Hs2 as [-> | ->]; cbn; rewrite upd_same; cbn; split; discriminate.
      + destruct Hs2 as [-> | ->]; cbn; rewrite upd_other by assumption; exact Hx'. }
  cbn [st_cb set_ours set_task]. destruct (tr_kind r); [| destruct (d_service_no_cbrec cfg) | | destruct (d_shutdown_no_cbrec cfg)];
    destruct (st_cb s t) eqn:Ecb; (apply Hcases; auto).
Qed.

(* the name bookkeeping of task.unique *)
Lemma invA_claim_names s t n :
  invA s -> phase_of s t = PBody ->
  let owner := st_n2t s n in
  let s2 := match owner with
            | Some o => match st_t2n s o with Some l => set_t2n s o (Some (remove_name n l)) | None => s end
            | None => s
            end in
  let s3 := set_n2t s2 n (Some t) in
  let l := match st_t2n s3 t with Some l => l | None => [] end in
  invA (set_t2n s3 t (Some (n :: remove_name n l))).
Proof.
  intros [It Inm Iq] Ep owner s2 s3 l.
  assert (Hs2 : st_task s2 = st_task s /\ st_ours s2 = st_ours s /\ st_cb s2 = st_cb s /\ st_ctx s2 = st_ctx s
                /\ st_rq s2 = st_rq s /\ st_n2t s2 = st_n2t s).
  { subst s2. destruct owner as [o|]; [destruct (st_t2n s o)|]; cbn; auto 10. }
  destruct Hs2 as (Ht & Ho & Hc & Hx & Hq & Hn).
  (* t2n of s2: only the previous owner lost n *)
  assert (Ht2n : forall x, match st_t2n s x with
                           | Some lx => exists lx', st_t2n s2 x = Some lx' /\ (forall m, m <> n -> In m lx -> In m lx')
                           | None => st_t2n s2 x = None
                           end).
  { intros x. subst s2. destruct owner as [o|].
    - destruct (st_t2n s o) as [lo|] eqn:Eo.
      + cbn. destruct (N.eq_dec x o) as [->|Hne].
        * rewrite upd_same, Eo. eexists; split; [reflexivity|]. intros m Hm Hi. apply In_remove_name. auto.
        * rewrite upd_other by assumption. destruct (st_t2n s x); eauto.
      + destruct (st_t2n s x); eauto.
    - destruct (st_t2n s x); eauto. }
  constructor.
  - intros t0. specialize (It t0). unfold tinv, phase_of, clean4 in *. cbn. rewrite Ht, Ho, Hc, Hx.
    destruct (N.eq_dec t0 t) as [->|Hne].
    + rewrite Ep in *. exact I.
    + rewrite upd_other by assumption. specialize (Ht2n t0).
      destruct (tr_phase (st_task s t0)); auto;
        repeat match goal with H : _ /\ _ |- _ => destruct H end;
        match goal with H : st_t2n s t0 = None |- _ => rewrite H in Ht2n; rewrite Ht2n end; auto.
  - cbn. rewrite Hn. intros m t0 Hm. unfold upd in Hm. destruct (N.eqb_spec m n) as [->|Hmn].
    + inversion Hm; subst. rewrite upd_same. eexists; split; [reflexivity|]. left; reflexivity.
    + apply Inm in Hm. destruct Hm as (lm & Elm & Him). specialize (Ht2n t0). rewrite Elm in Ht2n.
      destruct Ht2n as (lx' & Elx' & Hsub).
      destruct (N.eq_dec t0 t) as [->|Hne].
      * rewrite upd_same. eexists; split; [reflexivity|]. right. apply In_remove_name. split; [|assumption].
        subst l. cbn. rewrite Elx'. apply Hsub; assumption.
      * rewrite upd_other by assumption. exists lx'. split; [assumption|]. apply Hsub; assumption.
  - intros x Hq'. cbn in Hq'. rewrite Hq in Hq'. apply Iq in Hq'. unfold phase_of in *. cbn. rewrite Ht. exact Hq'.
Qed.

Lemma invA_step cfg : no_escape cfg -> forall s l s', invA s -> step cfg s l = Some s' -> invA s'.
Proof.
  intros [Hne1 Hne2] s l s' I H. destruct l as [t k|t|t x j a|t x j|src x|t n|t o|t|t res|t| | |t x|t x].
  - (* LCreate *)
    cbn [step] in H. destruct (phase_of s t) eqn:Ep; try discriminate. inversion H; subst; clear H.
    destruct I as [It Inm Iq]. constructor.
    + intros t0. destruct (N.eq_dec t0 t) as [->|Hne].
      * specialize (It t). unfold tinv, phase_of, clean4 in *. rewrite Ep in It.
        destruct k; cbn; rewrite ?upd_same; cbn; tauto.
      * specialize (It t0). eapply tinv_frame; [| | | | |exact It]; destruct k; cbn; rewrite ?upd_other by assumption; reflexivity.
    + intros n t0 Hn. destruct k; cbn in *; apply Inm in Hn; exact Hn.
    + intros x Hx. assert (Hx' : In x (st_rq s)) by (destruct k; exact Hx). apply Iq in Hx'.
      unfold phase_of in *. destruct (N.eq_dec x t) as [->|Hne].
      * rewrite Ep in Hx'. tauto.
      * destruct k; cbn; rewrite ?upd_other by assumption; exact Hx'.
  - eapply invA_start; eassumption.
  - (* LAdd *)
    cbn [step] in H. destruct (running s t) eqn:Er; [|discriminate].
    destruct (st_cb s x) as [tb|] eqn:Ex; inversion H; subst; clear H.
    + eapply invA_set_cb; eassumption.
    + apply invA_end_body; [assumption|apply running_body; assumption].
  - (* LRem *)
    cbn [step] in H. destruct (running s t) eqn:Er; [|discriminate].
    destruct (st_cb s x) as [tb|] eqn:Ex; inversion H; subst; clear H.
    + eapply invA_set_cb; eassumption.
    + apply invA_end_body; [assumption|apply running_body; assumption].
  - (* LCancel *)
    cbn [step] in H. destruct src as [t|].
    + destruct (running s t) eqn:Er; [|discriminate].
      destruct (st_ours s x) eqn:Eo; inversion H; subst; clear H.
      * apply invA_push_rq; assumption.
      * apply invA_end_body; [assumption|apply running_body; assumption].
    + destruct (st_ours s x) eqn:Eo; inversion H; subst; clear H; [apply invA_push_rq|]; assumption.
  - (* LClaim *)
    cbn [step] in H. destruct (running s t) eqn:Er; [|discriminate].
    set (s1 := match st_n2t s n with
               | Some o => if negb (o =? t)%N && st_ours s o then set_rq s (st_rq s ++ [o]) else s
               | None => s
               end) in *.
    assert (I1 : invA s1).
    { subst s1. destruct (st_n2t s n) as [o|]; [|assumption].
      destruct (negb (o =? t)%N && st_ours s o) eqn:Eb; [|assumption].
      apply andb_true_iff in Eb. apply invA_push_rq; tauto. }
    assert (E1 : st_n2t s1 = st_n2t s /\ st_t2n s1 = st_t2n s /\ st_ours s1 = st_ours s /\ phase_of s1 t = phase_of s t).
    { subst s1. destruct (st_n2t s n) as [o|]; [destruct (negb (o =? t)%N && st_ours s o)|]; cbn; auto. }
    destruct E1 as (En & Et & Eo & Ep).
    destruct (st_ours s1 t) eqn:Eot; inversion H; subst; clear H; [|assumption].
    pose proof (invA_claim_names s1 t n I1) as Hc. cbn zeta in Hc. rewrite En in Hc.
    apply Hc. rewrite Ep. apply running_body; assumption.
  - (* LEnd *)
    cbn [step] in H. destruct (tr_phase (st_task s t)) eqn:Ep; try discriminate.
    destruct o; destruct (tr_creq (st_task s t)); try discriminate; inversion H; subst; apply invA_end_body; assumption.
  - (* LCbBegin *)
    cbn [step] in H. destruct (tr_phase (st_task s t)) as [| | |cur n0 incb brk|] eqn:Ep; try discriminate.
    destruct incb, brk; try discriminate.
    assert (Hn0 : n0 = length (tbl_live (tr_snap (st_task s t)))).
    { destruct I as [It _ _]. specialize (It t). unfold tinv, phase_of in It. rewrite Ep in It. exact It. }
    unfold loop_fails, iter_table in H. rewrite Hne2 in H. cbn [andb] in H. rewrite orb_false_r in H. rewrite <- Hn0, Nat.eqb_refl in H. cbn [negb] in H.
    destruct (tbl_next cur (tr_snap (st_task s t))) as [[cur' [j a]]|]; [|discriminate].
    inversion H; subst; clear H. apply invA_log. apply invA_set_task_keep; [assumption|].
    unfold phase_of. rewrite Ep. cbn. auto.
  - (* LCbEnd *)
    cbn [step] in H. destruct (tr_phase (st_task s t)) as [| | |cur n0 incb brk|] eqn:Ep; try discriminate.
    destruct incb, brk; try discriminate.
    destruct res; destruct (tr_creq (st_task s t)); try discriminate; try rewrite Hne1 in H;
      inversion H; subst; clear H; (apply invA_set_task_keep; [assumption|]); unfold phase_of; rewrite Ep; cbn; auto.
  - (* LExit *)
    cbn [step] in H. destruct (tr_phase (st_task s t)) as [| | |cur n0 incb brk|] eqn:Ep; try discriminate.
    destruct incb; try discriminate.
    assert (Hn0 : n0 = length (tbl_live (tr_snap (st_task s t)))).
    { destruct I as [It _ _]. specialize (It t). unfold tinv, phase_of in It. rewrite Ep in It. exact It. }
    unfold iter_table in H. rewrite Hne2 in H. rewrite <- Hn0, Nat.eqb_refl in H. cbn [negb] in H.
    destruct brk.
    + inversion H; subst. eapply invA_cleanup; eassumption.
    + destruct (tbl_next cur (tr_snap (st_task s t))); [discriminate|]. inversion H; subst. eapply invA_cleanup; eassumption.
  - (* LReaper *)
    cbn [step] in H. destruct (st_rbusy s); [discriminate|]. destruct (st_rq s) as [|x q] eqn:Eq; [discriminate|].
    assert (I1 : invA (set_rq s q)). { apply invA_rq_sub; [assumption|]. intros y Hy. rewrite Eq. right; assumption. }
    assert (Hx : phase_of s x <> PNone /\ phase_of s x <> PCreated).
    { destruct I as [_ _ Iq]. apply Iq. rewrite Eq. left; reflexivity. }
    cbn [st_task set_rq] in H. unfold phase_of in Hx.
    destruct (tr_phase (st_task s x)) eqn:Ep; try tauto; inversion H; subst; clear H; try assumption;
      apply invA_rbusy; (apply invA_set_task_keep; [assumption|]); unfold phase_of; cbn; rewrite Ep; cbn; auto.
  - (* LReaperWake *)
    cbn [step] in H. destruct (st_rbusy s); [|discriminate]. destruct (is_done s t); [|discriminate].
    inversion H; subst. apply invA_rbusy; assumption.
  - (* LPropCancel *)
    cbn [step] in H. destruct (tr_phase (st_task s t)) eqn:Ept; try discriminate.
    destruct (tr_creq (st_task s t) && negb (t =? x)%N); [|discriminate].
    destruct (tr_phase (st_task s x)) as [| | |c n i b|] eqn:Ep.
    + inversion H; subst; assumption.
    + destruct (tr_kind (st_task s x)); try (inversion H; subst; assumption).
      destruct (st_cb s x) eqn:Ecb; inversion H; subst; clear H; [assumption|].
      destruct I as [It Inm Iq]. constructor.
      * intros t0. destruct (N.eq_dec t0 x) as [->|Hne].
        -- specialize (It x). unfold tinv, phase_of, clean4 in *. cbn. rewrite upd_same. cbn. rewrite Ep in It. tauto.
        -- other It t0.
      * eapply names_frame; [| |exact Inm]; reflexivity.
      * eapply rq_frame; [| |exact Iq]; [intros y Hy; exact Hy|].
        intros y Hy. unfold phase_of in *. cbn. destruct (N.eq_dec y x) as [->|Hne];
          [rewrite upd_same; cbn; split; discriminate|rewrite upd_other by assumption; exact Hy].
    + inversion H; subst; clear H. apply invA_set_task_keep; [assumption|]. unfold phase_of. cbn. rewrite !Ep. exact Logic.I.
    + inversion H; subst; clear H. apply invA_set_task_keep; [assumption|]. unfold phase_of. cbn. rewrite !Ep. auto.
    + inversion H; subst; assumption.
  - (* LCallKilled *)
    cbn [step] in H. destruct (running s t && d_call_cancel_kills cfg) eqn:Er; [|discriminate].
    apply andb_true_iff in Er. destruct Er as [Er _].
    destruct (phase_of s x); try discriminate. destruct (tr_final (st_task s x)) as [[| | |]|]; try discriminate.
    inversion H; subst. apply invA_end_body; [assumption|apply running_body; assumption].
Qed.

Lemma invA_run cfg : no_escape cfg -> forall ls s, run cfg ls = Some s -> invA s.
Proof. intros Hc ls s H. eapply (run_from_inv cfg invA (invA_step cfg Hc)); [apply invA_init|exact H]. Qed.

(* C14_cleanup: whatever the tasks did and wherever cancellations and exceptions struck, a task that is done is
   mentioned by none of the five registries *)
Theorem cleanup_all cfg : no_escape cfg ->
  forall ls s, run cfg ls = Some s -> forall t, phase_of s t = PDone -> clean s t.
Proof.
  intros Hc ls s H t Hd. destruct (invA_run cfg Hc ls s H) as [It Inm _].
  specialize (It t). unfold tinv in It. rewrite Hd in It. split; [exact It|].
  intros n Hn. apply Inm in Hn. destruct Hn as (l & El & _). destruct It as (_ & _ & _ & Ht). congruence.
Qed.

Example no_escape_conformant : no_escape no_dev /\ no_escape (mkDev true true false false true true).
Proof. repeat split. Qed.

(* ---------- how one step changes the task records ---------- *)
Definition same_but_phase (r r' : trec) : Prop := tr_ncancel r' = tr_ncancel r /\ tr_kind r' = tr_kind r.

Lemma step_delta cfg s l s' : step cfg s l = Some s' -> forall x,
  st_task s' x = st_task s x
  \/ (owner l = Some x /\ phase_of s x <> PDone /\ (tr_ncancel (st_task s' x) = tr_ncancel (st_task s x) \/ ((exists k, l = LCreate x k) /\ tr_ncancel (st_task s' x) = 0%nat)))
  \/ (l = LReaper /\ hd_error (st_rq s) = Some x /\ st_rbusy s = None /\ phase_of s x <> PDone
      /\ tr_ncancel (st_task s' x) = S (tr_ncancel (st_task s x)) /\ (st_rbusy s' = Some x \/ phase_of s' x = PDone))
  \/ ((exists t, l = LPropCancel t x) /\ phase_of s x <> PDone /\ tr_ncancel (st_task s' x) = tr_ncancel (st_task s x)).
Proof.
  intros H x.
  destruct l as [t k|t|t y j a|t y j|src y|t n|t o|t|t res|t| | |t y|t y]; cbn [step owner] in *.
  - destruct (phase_of s t) eqn:Ep; try discriminate. inversion H; subst; clear H.
    destruct (N.eq_dec x t) as [->|Hne].
    + right; left. rewrite Ep. repeat split; try discriminate. right. split; [eauto|]. destruct k; cbn; rewrite upd_same; reflexivity.
    + left. destruct k; cbn; rewrite upd_other by assumption; reflexivity.
  - destruct (tr_phase (st_task s t)) eqn:Ep; try discriminate. inversion H; subst; clear H.
    destruct (N.eq_dec x t) as [->|Hne].
    + right; left. unfold phase_of. rewrite Ep. repeat split; try discriminate. left.
      destruct (tr_kind (st_task s t)); [|destruct (d_service_no_cbrec cfg)| |destruct (d_shutdown_no_cbrec cfg)]; cbn;
        repeat match goal with |- context [match ?e with _ => _ end] => destruct e end; cbn; rewrite upd_same; reflexivity.
    + left. destruct (tr_kind (st_task s t)); [|destruct (d_service_no_cbrec cfg)| |destruct (d_shutdown_no_cbrec cfg)]; cbn;
        repeat match goal with |- context [match ?e with _ => _ end] => destruct e end; cbn; rewrite upd_other by assumption; reflexivity.
  - destruct (running s t) eqn:Er; [|discriminate]. apply running_body in Er.
    destruct (st_cb s y); inversion H; subst; clear H; [left; reflexivity|].
    destruct (N.eq_dec x t) as [->|Hne]; [right; left|left]; unfold end_body; cbn.
    + rewrite Er, upd_same. repeat split; try discriminate. left; reflexivity.
    + rewrite upd_other by assumption; reflexivity.
  - destruct (running s t) eqn:Er; [|discriminate]. apply running_body in Er.
    destruct (st_cb s y); inversion H; subst; clear H; [left; reflexivity|].
    destruct (N.eq_dec x t) as [->|Hne]; [right; left|left]; unfold end_body; cbn.
    + rewrite Er, upd_same. repeat split; try discriminate. left; reflexivity.
    + rewrite upd_other by assumption; reflexivity.
  - destruct src as [t|].
    + destruct (running s t) eqn:Er; [|discriminate]. apply running_body in Er.
      destruct (st_ours s y); inversion H; subst; clear H; [left; reflexivity|].
      destruct (N.eq_dec x t) as [->|Hne]; [right; left|left]; unfold end_body; cbn.
      * rewrite Er, upd_same. repeat split; try discriminate. left; reflexivity.
      * rewrite upd_other by assumption; reflexivity.
    + destruct (st_ours s y); inversion H; subst; left; reflexivity.
  - destruct (running s t) eqn:Er; [|discriminate]. left.
    destruct (st_n2t s n) as [o|]; [destruct (negb (o =? t)%N && st_ours s o)|]; cbn in H;
      repeat match type of H with context [match ?e with _ => _ end] => destruct e end; inversion H; subst; reflexivity.
  - destruct (tr_phase (st_task s t)) eqn:Ep; try discriminate.
    assert (Hgo : forall o', s' = end_body s t o' ->
                  st_task s' x = st_task s x \/ (Some t = Some x /\ phase_of s x <> PDone /\
                  (tr_ncancel (st_task s' x) = tr_ncancel (st_task s x) \/ ((exists k, LEnd t o = LCreate x k) /\ tr_ncancel (st_task s' x) = 0%nat)))).
    { intros o' ->. destruct (N.eq_dec x t) as [->|Hne]; [right|left]; unfold end_body, phase_of; cbn.
      - rewrite Ep, upd_same. repeat split; try discriminate. left; reflexivity.
      - rewrite upd_other by assumption; reflexivity. }
    destruct o; destruct (tr_creq (st_task s t)); try discriminate; inversion H; subst;
      (destruct (Hgo _ eq_refl) as [Hg|Hg]; [left; exact Hg|right; left; exact Hg]).
  - destruct (tr_phase (st_task s t)) as [| | |cur n0 incb brk|] eqn:Ep; try discriminate.
    destruct incb, brk; try discriminate.
    destruct (loop_fails cfg s t cur n0).
    + inversion H; subst; clear H. destruct (N.eq_dec x t) as [->|Hne]; [right; left|left]; unfold escape, phase_of; cbn.
      * rewrite Ep, upd_same. repeat split; try discriminate. left; reflexivity.
      * rewrite upd_other by assumption; reflexivity.
    + destruct (tbl_next cur (iter_table cfg s t)) as [[cur' [j a]]|]; [|discriminate]. inversion H; subst; clear H.
      destruct (N.eq_dec x t) as [->|Hne]; [right; left|left]; unfold phase_of; cbn.
      * rewrite Ep, upd_same. repeat split; try discriminate. left; reflexivity.
      * rewrite upd_other by assumption; reflexivity.
  - destruct (tr_phase (st_task s t)) as [| | |cur n0 incb brk|] eqn:Ep; try discriminate.
    destruct incb, brk; try discriminate.
    destruct res; destruct (tr_creq (st_task s t)); try discriminate; try destruct (d_fin_cancel_escapes cfg);
      inversion H; subst; clear H;
      (destruct (N.eq_dec x t) as [->|Hne]; [right; left|left]; unfold escape, phase_of; cbn;
       [rewrite Ep, upd_same; repeat split; try discriminate; left; reflexivity | rewrite upd_other by assumption; reflexivity]).
  - destruct (tr_phase (st_task s t)) as [| | |cur n0 incb brk|] eqn:Ep; try discriminate.
    destruct incb; try discriminate.
    assert (Hc : forall s'', s'' = cleanup s t \/ s'' = escape s t OEscape ->
                 st_task s'' x = st_task s x \/ (Some t = Some x /\ phase_of s x <> PDone /\
                  (tr_ncancel (st_task s'' x) = tr_ncancel (st_task s x) \/ ((exists k, LExit t = LCreate x k) /\ tr_ncancel (st_task s'' x) = 0%nat)))).
    { intros s'' [-> | ->]; (destruct (N.eq_dec x t) as [->|Hne]; [right|left]); unfold cleanup, escape, phase_of.
      - destruct (st_t2n s t); cbn; rewrite Ep, !upd_same; repeat split; try discriminate; left; reflexivity.
      - destruct (st_t2n s t); cbn; rewrite !upd_other by assumption; reflexivity.
      - cbn. rewrite Ep, upd_same. repeat split; try discriminate. left; reflexivity.
      - cbn. rewrite upd_other by assumption; reflexivity. }
    destruct brk; [|destruct (negb (length (tbl_live (iter_table cfg s t)) =? n0)%nat); [|destruct (tbl_next cur (iter_table cfg s t)); [discriminate|]]];
      inversion H; subst;
      match goal with
      | |- context [cleanup s t] => destruct (Hc _ (or_introl eq_refl)) as [Hg|Hg]
      | |- context [escape s t OEscape] => destruct (Hc _ (or_intror eq_refl)) as [Hg|Hg]
      end; [left; exact Hg|right; left; exact Hg | left; exact Hg|right; left; exact Hg | left; exact Hg|right; left; exact Hg].
  - destruct (st_rbusy s) eqn:Eb; [discriminate|]. destruct (st_rq s) as [|y q] eqn:Eq; [discriminate|].
    cbn [st_task set_rq] in H.
    destruct (N.eq_dec x y) as [->|Hne].
    + destruct (tr_phase (st_task s y)) eqn:Ep; inversion H; subst; clear H; try (left; reflexivity);
        right; right; left; unfold phase_of; cbn; rewrite Ep, upd_same; cbn; repeat split; try discriminate; auto.
    + left. destruct (tr_phase (st_task s y)); inversion H; subst; cbn; rewrite ?upd_other by assumption; reflexivity.
  - destruct (st_rbusy s); [|discriminate]. destruct (is_done s t); [|discriminate]. inversion H; subst. left; reflexivity.
  - destruct (tr_phase (st_task s t)) eqn:Ept; try discriminate.
    destruct (tr_creq (st_task s t) && negb (t =? y)%N); [|discriminate].
    destruct (N.eq_dec x y) as [->|Hne].
    + destruct (tr_phase (st_task s y)) as [| | |c n i b|] eqn:Ep; try (inversion H; subst; left; reflexivity).
      * destruct (tr_kind (st_task s y)); try (inversion H; subst; left; reflexivity).
        destruct (st_cb s y); inversion H; subst; clear H; [left; reflexivity|].
        right; right; right. unfold phase_of. rewrite Ep. cbn. rewrite upd_same. cbn. repeat split; eauto; discriminate.
      * inversion H; subst; clear H. right; right; right. unfold phase_of. rewrite Ep. cbn. rewrite upd_same. cbn.
        repeat split; eauto; discriminate.
      * inversion H; subst; clear H. right; right; right. unfold phase_of. rewrite Ep. cbn. rewrite upd_same. cbn.
        repeat split; eauto; discriminate.
    + left. destruct (tr_phase (st_task s y)); try (inversion H; subst; reflexivity).
      * destruct (tr_kind (st_task s y)); try (inversion H; subst; reflexivity).
        destruct (st_cb s y); inversion H; subst; cbn; rewrite ?upd_other by assumption; reflexivity.
      * inversion H; subst; cbn; rewrite upd_other by assumption; reflexivity.
      * inversion H; subst; cbn; rewrite upd_other by assumption; reflexivity.
  - destruct (running s t && d_call_cancel_kills cfg) eqn:Er; [|discriminate].
    apply andb_true_iff in Er. destruct Er as [Er _]. apply running_body in Er.
    destruct (phase_of s y); try discriminate. destruct (tr_final (st_task s y)) as [[| | |]|]; try discriminate.
    inversion H; subst; clear H.
    destruct (N.eq_dec x t) as [->|Hne]; [right; left|left]; unfold end_body; cbn.
    + rewrite Er, upd_same. repeat split; try discriminate. left; reflexivity.
    + rewrite upd_other by assumption; reflexivity.
Qed.

Lemma step_rbusy cfg s l s' : step cfg s l = Some s' ->
  st_rbusy s' = st_rbusy s
  \/ (l = LReaper /\ st_rbusy s = None)
  \/ (l = LReaperWake /\ exists x, st_rbusy s = Some x /\ phase_of s x = PDone /\ st_rbusy s' = None).
Proof.
  intros H.
  destruct l as [t k|t|t y j a|t y j|src y|t n|t o|t|t res|t| | |t y|t y]; cbn [step] in H.
  - destruct (phase_of s t); try discriminate. inversion H; subst. left. destruct k; reflexivity.
  - destruct (tr_phase (st_task s t)); try discriminate. inversion H; subst. left.
    destruct (tr_kind (st_task s t)); [|destruct (d_service_no_cbrec cfg)| |destruct (d_shutdown_no_cbrec cfg)]; cbn;
      repeat match goal with |- context [match ?e with _ => _ end] => destruct e end; reflexivity.
  - destruct (running s t); [|discriminate]. destruct (st_cb s y); inversion H; subst; left; reflexivity.
  - destruct (running s t); [|discriminate]. destruct (st_cb s y); inversion H; subst; left; reflexivity.
  - destruct src as [t|]; [destruct (running s t); [|discriminate]|]; destruct (st_ours s y); inversion H; subst; left; reflexivity.
  - destruct (running s t); [|discriminate]. left.
    destruct (st_n2t s n) as [o|]; [destruct (negb (o =? t)%N && st_ours s o)|]; cbn in H;
      repeat match type of H with context [match ?e with _ => _ end] => destruct e end; inversion H; subst; reflexivity.
  - destruct (tr_phase (st_task s t)); try discriminate.
    destruct o; destruct (tr_creq (st_task s t)); try discriminate; inversion H; subst; left; reflexivity.
  - destruct (tr_phase (st_task s t)) as [| | |cur n0 incb brk|]; try discriminate. destruct incb, brk; try discriminate.
    destruct (loop_fails cfg s t cur n0); [inversion H; subst; left; reflexivity|].
    destruct (tbl_next cur (iter_table cfg s t)) as [[cur' [j a]]|]; [|discriminate]. inversion H; subst; left; reflexivity.
  - destruct (tr_phase (st_task s t)) as [| | |cur n0 incb brk|]; try discriminate. destruct incb, brk; try discriminate.
    destruct res; destruct (tr_creq (st_task s t)); try discriminate; try destruct (d_fin_cancel_escapes cfg);
      inversion H; subst; left; reflexivity.
  - destruct (tr_phase (st_task s t)) as [| | |cur n0 incb brk|]; try discriminate. destruct incb; try discriminate.
    left. destruct brk; [|destruct (negb (length (tbl_live (iter_table cfg s t)) =? n0)%nat); [|destruct (tbl_next cur (iter_table cfg s t)); [discriminate|]]];
      inversion H; subst; unfold cleanup; try destruct (st_t2n s t); reflexivity.
  - destruct (st_rbusy s) eqn:Eb; [discriminate|]. right; left. auto.
  - destruct (st_rbusy s) as [x|] eqn:Eb; [|discriminate]. destruct (is_done s x) eqn:Ed; [|discriminate].
    inversion H; subst. right; right. split; [reflexivity|]. exists x. repeat split.
    unfold is_done in Ed. destruct (phase_of s x); try discriminate. reflexivity.
  - destruct (tr_phase (st_task s t)); try discriminate. destruct (tr_creq (st_task s t) && negb (t =? y)%N); [|discriminate].
    left. destruct (tr_phase (st_task s y)); try (inversion H; subst; reflexivity).
    destruct (tr_kind (st_task s y)); try (inversion H; subst; reflexivity). destruct (st_cb s y); inversion H; subst; reflexivity.
  - destruct (running s t && d_call_cancel_kills cfg); [|discriminate].
    destruct (phase_of s y); try discriminate. destruct (tr_final (st_task s y)) as [[| | |]|]; try discriminate.
    inversion H; subst. left; reflexivity.
Qed.

(* ---------- C. the reaper serialises cancellations ---------- *)
Definition invC (s : state) : Prop :=
  forall t, (tr_ncancel (st_task s t) <= 1)%nat /\
            ((1 <= tr_ncancel (st_task s t))%nat -> st_rbusy s = Some t \/ phase_of s t = PDone).

Lemma invC_step cfg s l s' : invC s -> step cfg s l = Some s' -> invC s'.
Proof.
  intros I H t. destruct (I t) as [I1 I2].
  destruct (step_delta cfg s l s' H t) as [Hs|[(Ho & Hnd & Hn)|[(Hl & Hhd & Hb & Hnd & Hn & Hr)|((t' & Hl) & Hnd & Hn)]]].
  - unfold phase_of. rewrite Hs. split; [exact I1|]. intros Hge. destruct (I2 Hge) as [Hb|Hd]; [|right; exact Hd].
    destruct (step_rbusy cfg s l s' H) as [E|[[_ E]|[_ (x & E & Hx & _)]]].
    + left. congruence.
    + congruence.
    + right. rewrite Hb in E. inversion E; subst. exact Hx.
  - destruct Hn as [Hn|[_ Hn]]; [|rewrite Hn; split; [lia|intros; lia]].
    rewrite Hn. split; [exact I1|]. intros Hge. destruct (I2 Hge) as [Hb|Hd]; [|contradiction].
    destruct (step_rbusy cfg s l s' H) as [E|[[El _]|[El _]]]; [left; congruence| |]; subst l; discriminate.
  - rewrite Hn. assert (tr_ncancel (st_task s t) = 0)%nat.
    { destruct (tr_ncancel (st_task s t)) eqn:E; [reflexivity|]. exfalso.
      destruct I2 as [Hb'|Hd]; [lia|congruence|contradiction]. }
    split; [lia|]. intros _. exact Hr.
  - rewrite Hn. split; [exact I1|]. intros Hge. destruct (I2 Hge) as [Hb|Hd]; [|contradiction].
    destruct (step_rbusy cfg s l s' H) as [E|[[El _]|[El _]]]; [left; congruence| |]; subst l; discriminate.
Qed.

Lemma invC_init : invC init_state.
Proof. intros t. cbn. split; [lia|intros; lia]. Qed.

Theorem reaper_serialises cfg : forall ls s, run cfg ls = Some s -> forall t, (tr_ncancel (st_task s t) <= 1)%nat.
Proof.
  intros ls s H t. apply (run_from_inv cfg invC (fun s l s' => invC_step cfg s l s') ls init_state s invC_init H).
Qed.

(* ---------- D. independence ---------- *)
Definition enabled (cfg : deviations) (s : state) (l : label) : Prop := step cfg s l <> None.

(* whether a step of run r can be taken depends on r's own record only *)
Lemma enabled_local cfg s1 s2 l r :
  d_live_iter cfg = false -> d_call_cancel_kills cfg = false -> owner l = Some r -> st_task s1 r = st_task s2 r ->
  (enabled cfg s1 l <-> enabled cfg s2 l).
Proof.
  intros Hl Hk Ho He. unfold enabled.
  destruct l as [t k|t|t y j a|t y j|src y|t n|t o|t|t res|t| | |t y|t y]; cbn [owner] in Ho; try discriminate;
    try (inversion Ho; subst t); cbn [step]; unfold running, phase_of, iter_table; rewrite ?Hl, ?He.
  - destruct (tr_phase (st_task s2 r)); split; intros; congruence.
  - destruct (tr_phase (st_task s2 r)); split; intros; congruence.
  - destruct (tr_phase (st_task s2 r)); try tauto. destruct (negb (tr_creq (st_task s2 r))); try tauto.
    destruct (st_cb s1 y), (st_cb s2 y); split; intros; discriminate.
  - destruct (tr_phase (st_task s2 r)); try tauto. destruct (negb (tr_creq (st_task s2 r))); try tauto.
    destruct (st_cb s1 y), (st_cb s2 y); split; intros; discriminate.
  - subst src. unfold running, phase_of. rewrite He.
    destruct (tr_phase (st_task s2 r)); try tauto. destruct (negb (tr_creq (st_task s2 r))); try tauto.
    destruct (st_ours s1 y), (st_ours s2 y); split; intros; discriminate.
  - destruct (tr_phase (st_task s2 r)); try tauto. destruct (negb (tr_creq (st_task s2 r))); try tauto.
    split; intros _; repeat match goal with |- context [match ?e with _ => _ end] => destruct e end; discriminate.
  - destruct (tr_phase (st_task s2 r)); try tauto. destruct o; destruct (tr_creq (st_task s2 r)); split; intros; congruence.
  - destruct (tr_phase (st_task s2 r)) as [| | |cur n0 incb brk|]; try tauto. destruct incb, brk; try tauto.
    unfold loop_fails, iter_table. rewrite Hl, He. cbn [andb]. rewrite !orb_false_r.
    destruct (negb (length (tbl_live (tr_snap (st_task s2 r))) =? n0)%nat); [split; intros; discriminate|].
    destruct (tbl_next cur (tr_snap (st_task s2 r))) as [[c' [j a]]|]; split; intros; congruence.
  - destruct (tr_phase (st_task s2 r)) as [| | |cur n0 incb brk|]; try tauto. destruct incb, brk; try tauto.
    destruct res; destruct (tr_creq (st_task s2 r)); try tauto; try destruct (d_fin_cancel_escapes cfg); split; intros; discriminate.
  - destruct (tr_phase (st_task s2 r)) as [| | |cur n0 incb brk|]; try tauto. destruct incb; try tauto.
    destruct brk; [split; intros; discriminate|].
    destruct (negb (length (tbl_live (tr_snap (st_task s2 r))) =? n0)%nat); [split; intros; discriminate|].
    destruct (tbl_next cur (tr_snap (st_task s2 r))); split; intros; congruence.
  - rewrite Hk, !andb_false_r. tauto.
Qed.

(* a step of run r leaves the record (phase, pending cancellation, outcome) of every other run alone *)
Lemma step_frame cfg s l s' r r' :
  step cfg s l = Some s' -> owner l = Some r -> r' <> r -> st_task s' r' = st_task s r'.
Proof.
  intros H Ho Hne. destruct (step_delta cfg s l s' H r') as [E|[(Ho' & _)|[(Hl & _)|((t' & Hl) & _)]]]; [exact E| | |].
  - rewrite Ho in Ho'. inversion Ho'. congruence.
  - subst l. discriminate.
  - subst l. discriminate.
Qed.

(* the only step that interferes with another run is the reaper executing a queued cancel request ... *)
Lemma only_reaper_cancels cfg s l s' x :
  step cfg s l = Some s' -> owner l <> Some x -> st_task s' x <> st_task s x ->
  (l = LReaper /\ hd_error (st_rq s) = Some x) \/ (exists t, l = LPropCancel t x /\ tr_creq (st_task s t) = true).
Proof.
  intros H Ho Hc. destruct (step_delta cfg s l s' H x) as [E|[(Ho' & _)|[(Hl & Hh & _)|((t' & Hl) & _)]]];
    [contradiction|contradiction|auto|].
  right. exists t'. split; [exact Hl|]. subst l. cbn [step] in H.
  destruct (tr_phase (st_task s t')); try discriminate. destruct (tr_creq (st_task s t')); [reflexivity|discriminate].
Qed.

(* (LPropCancel: asyncio hands the cancellation of a run that is blocked in service.call on to the service run it awaits)
   ... and a task enters the queue only through an explicit task.cancel / task.unique naming it *)
Lemma rq_only_by_request cfg s l s' x :
  step cfg s l = Some s' -> In x (st_rq s') -> In x (st_rq s)
  \/ (exists src, l = LCancel src x) \/ (exists t n, l = LClaim t n /\ st_n2t s n = Some x /\ x <> t).
Proof.
  intros H Hin.
  destruct l as [t k|t|t y j a|t y j|src y|t n|t o|t|t res|t| | |t y|t y]; cbn [step] in H.
  - destruct (phase_of s t); try discriminate. inversion H; subst. left. destruct k; exact Hin.
  - destruct (tr_phase (st_task s t)); try discriminate. inversion H; subst. left.
    revert Hin. destruct (tr_kind (st_task s t)); [|destruct (d_service_no_cbrec cfg)| |destruct (d_shutdown_no_cbrec cfg)]; cbn;
      repeat match goal with |- context [match ?e with _ => _ end] => destruct e end; cbn; auto.
  - destruct (running s t); [|discriminate]. destruct (st_cb s y); inversion H; subst; left; exact Hin.
  - destruct (running s t); [|discriminate]. destruct (st_cb s y); inversion H; subst; left; exact Hin.
  - assert (Hgo : In x (st_rq s ++ [y]) -> In x (st_rq s) \/ (exists src0, LCancel src y = LCancel src0 x) \/
                  (exists t n, LCancel src y = LClaim t n /\ st_n2t s n = Some x /\ x <> t)).
    { intros Hi. apply in_app_or in Hi. destruct Hi as [Hi|[<-|[]]]; [left; exact Hi|right; left; eauto]. }
    destruct src as [t|]; [destruct (running s t); [|discriminate]|]; destruct (st_ours s y); inversion H; subst; auto.
  - destruct (running s t); [|discriminate].
    assert (Hq : In x (st_rq s') -> In x (st_rq s) \/ (st_n2t s n = Some x /\ x <> t)).
    { destruct (st_n2t s n) as [o|] eqn:En.
      - destruct (negb (o =? t)%N && st_ours s o) eqn:Eb; cbn in H;
          repeat match type of H with context [match ?e with _ => _ end] => destruct e end; inversion H; subst; cbn; auto.
        all: intros Hi; apply in_app_or in Hi; destruct Hi as [Hi|[<-|[]]]; [left; exact Hi|right].
        all: apply andb_true_iff in Eb; destruct Eb as [Eb _]; apply negb_true_iff in Eb; apply N.eqb_neq in Eb; auto.
      - cbn in H. repeat match type of H with context [match ?e with _ => _ end] => destruct e end; inversion H; subst; cbn; auto. }
    destruct (Hq Hin) as [Hi|[Hn Hne]]; [left; exact Hi|right; right; eauto].
  - destruct (tr_phase (st_task s t)); try discriminate.
    destruct o; destruct (tr_creq (st_task s t)); try discriminate; inversion H; subst; left; exact Hin.
  - destruct (tr_phase (st_task s t)) as [| | |cur n0 incb brk|]; try discriminate. destruct incb, brk; try discriminate.
    destruct (loop_fails cfg s t cur n0); [inversion H; subst; left; exact Hin|].
    destruct (tbl_next cur (iter_table cfg s t)) as [[cur' [j a]]|]; [|discriminate]. inversion H; subst; left; exact Hin.
  - destruct (tr_phase (st_task s t)) as [| | |cur n0 incb brk|]; try discriminate. destruct incb, brk; try discriminate.
    destruct res; destruct (tr_creq (st_task s t)); try discriminate; try destruct (d_fin_cancel_escapes cfg);
      inversion H; subst; left; exact Hin.
  - destruct (tr_phase (st_task s t)) as [| | |cur n0 incb brk|]; try discriminate. destruct incb; try discriminate.
    left. revert Hin. destruct brk; [|destruct (negb (length (tbl_live (iter_table cfg s t)) =? n0)%nat); [|destruct (tbl_next cur (iter_table cfg s t)); [discriminate|]]];
      inversion H; subst; unfold cleanup; try destruct (st_t2n s t); cbn; auto.
  - destruct (st_rbusy s); [discriminate|]. destruct (st_rq s) as [|y q]; [discriminate|]. cbn [st_task set_rq] in H.
    left. right. revert Hin. destruct (tr_phase (st_task s y)); inversion H; subst; cbn; auto.
  - destruct (st_rbusy s) as [y|]; [|discriminate]. destruct (is_done s y); [|discriminate]. inversion H; subst. left; exact Hin.
  - destruct (tr_phase (st_task s t)); try discriminate. destruct (tr_creq (st_task s t) && negb (t =? y)%N); [|discriminate].
    left. revert Hin. destruct (tr_phase (st_task s y)); try (inversion H; subst; auto).
    destruct (tr_kind (st_task s y)); try (inversion H; subst; auto). destruct (st_cb s y); inversion H; subst; auto.
  - destruct (running s t && d_call_cancel_kills cfg); [|discriminate].
    destruct (phase_of s y); try discriminate. destruct (tr_final (st_task s y)) as [[| | |]|]; try discriminate.
    inversion H; subst. left; exact Hin.
Qed.

(* ---------- B. done-callbacks ---------- *)
(* the callback dict: one entry per callback function, arguments replaced, removable *)
Definition keys (t : table) : list cbid := map fst (tbl_live t).

Lemma tbl_live_app a b : tbl_live (a ++ b) = tbl_live a ++ tbl_live b.
Proof. induction a as [|[e|] r IH]; cbn; [reflexivity|rewrite IH; reflexivity|exact IH]. Qed.

Lemma tbl_has_in j t : tbl_has j t = true <-> In j (keys t).
Proof.
  unfold tbl_has, keys. rewrite existsb_exists. split.
  - intros (e & Hi & He). apply N.eqb_eq in He. subst. apply in_map. exact Hi.
  - intros Hi. apply in_map_iff in Hi. destruct Hi as (e & <- & Hi). exists e. split; [exact Hi|apply N.eqb_refl].
Qed.

Lemma keys_set j a t : keys (tbl_set j a t) = keys t.
Proof.
  unfold keys. induction t as [|[[j' a']|] r IH]; cbn; [reflexivity| |exact IH].
  destruct (N.eqb_spec j' j); cbn; [subst; reflexivity|rewrite IH; reflexivity].
Qed.

Lemma keys_add j a t : keys (tbl_add j a t) = if tbl_has j t then keys t else keys t ++ [j].
Proof.
  unfold tbl_add. destruct (tbl_has j t); [apply keys_set|]. unfold keys. rewrite tbl_live_app, map_app. reflexivity.
Qed.

Lemma nodup_add j a t : NoDup (keys t) -> NoDup (keys (tbl_add j a t)).
Proof.
  intros H. rewrite keys_add. destruct (tbl_has j t) eqn:E; [exact H|].
  assert (Hn : ~ In j (keys t)). { intros Hi. apply tbl_has_in in Hi. congruence. }
  clear E. induction (keys t) as [|k r IH]; cbn.
  - constructor; [intros []|constructor].
  - inversion H; subst. constructor.
    + intros Hi. apply in_app_or in Hi. destruct Hi as [Hi|[Hi|[]]]; [contradiction|]. apply Hn. left. auto.
    + apply IH; [assumption|]. intros Hi. apply Hn. right. exact Hi.
Qed.

Lemma keys_rem_sub j t k : In k (keys (tbl_rem j t)) -> In k (keys t).
Proof.
  unfold keys. induction t as [|[[j' a']|] r IH]; cbn; [tauto| |exact IH].
  destruct (N.eqb_spec j' j); cbn; [auto|]. intros [H|H]; [left; exact H|right; apply IH; exact H].
Qed.

Lemma nodup_rem j t : NoDup (keys t) -> NoDup (keys (tbl_rem j t)).
Proof.
  unfold keys. induction t as [|[[j' a']|] r IH]; cbn; intros H; [constructor| |apply IH; exact H].
  inversion H; subst. destruct (N.eqb_spec j' j); cbn; [assumption|].
  constructor; [|apply IH; assumption]. intros Hi. apply (keys_rem_sub j r j') in Hi. contradiction.
Qed.

(* what add / remove mean for the registered callbacks *)
Lemma lookup_set_same j a t : In j (keys t) -> tbl_lookup j (tbl_live (tbl_set j a t)) = Some a.
Proof.
  unfold keys. induction t as [|[[j' a']|] r IH]; cbn; [tauto| |exact IH].
  destruct (N.eqb_spec j' j); cbn.
  - subst. rewrite N.eqb_refl. reflexivity.
  - intros [H|H]; [contradiction|]. destruct (N.eqb_spec j' j); [contradiction|]. apply IH; exact H.
Qed.
Lemma lookup_set_other j a t j' : j' <> j -> tbl_lookup j' (tbl_live (tbl_set j a t)) = tbl_lookup j' (tbl_live t).
Proof.
  intros Hne. induction t as [|[[k a']|] r IH]; cbn; [reflexivity| |exact IH].
  destruct (N.eqb_spec k j); cbn.
  - subst. destruct (N.eqb_spec j j'); [congruence|reflexivity].
  - rewrite IH. reflexivity.
Qed.
Lemma lookup_app_none j l e : tbl_lookup j l = None -> tbl_lookup j (l ++ [e]) = tbl_lookup j [e].
Proof. induction l as [|[k a] r IH]; cbn; [reflexivity|]. destruct (N.eqb_spec k j); [discriminate|exact IH]. Qed.
Lemma lookup_none_iff j l : tbl_lookup j l = None <-> ~ In j (map fst l).
Proof.
  induction l as [|[k a] r IH]; cbn; [tauto|]. destruct (N.eqb_spec k j).
  - split; [discriminate|]. intros H. exfalso. apply H. left. exact e.
  - rewrite IH. tauto.
Qed.
Lemma lookup_app_some j l e v : tbl_lookup j l = Some v -> tbl_lookup j (l ++ [e]) = Some v.
Proof. induction l as [|[k a] r IH]; cbn; [discriminate|]. destruct (N.eqb_spec k j); [auto|exact IH]. Qed.

(* add_done_callback(x, cb_j, a): afterwards cb_j is registered with a; every other callback is untouched *)
Lemma add_registers j a t : tbl_lookup j (tbl_live (tbl_add j a t)) = Some a.
Proof.
  unfold tbl_add. destruct (tbl_has j t) eqn:E.
  - apply lookup_set_same. apply tbl_has_in. exact E.
  - rewrite tbl_live_app. cbn [tbl_live]. rewrite lookup_app_none.
    + cbn. rewrite N.eqb_refl. reflexivity.
    + apply lookup_none_iff. intros Hi. apply tbl_has_in in Hi. congruence.
Qed.
Lemma add_keeps_others j a t j' : j' <> j -> tbl_lookup j' (tbl_live (tbl_add j a t)) = tbl_lookup j' (tbl_live t).
Proof.
  intros Hne. unfold tbl_add. destruct (tbl_has j t); [apply lookup_set_other; exact Hne|].
  rewrite tbl_live_app. cbn [tbl_live]. destruct (tbl_lookup j' (tbl_live t)) eqn:E.
  - apply lookup_app_some. exact E.
  - rewrite lookup_app_none by exact E. cbn. destruct (N.eqb_spec j j'); [congruence|reflexivity].
Qed.
(* remove_done_callback(x, cb_j): afterwards cb_j is not registered; every other callback is untouched *)
Lemma rem_unregisters j t : NoDup (keys t) -> tbl_lookup j (tbl_live (tbl_rem j t)) = None.
Proof.
  unfold keys. induction t as [|[[k a']|] r IH]; cbn; intros H; [reflexivity| |apply IH; exact H].
  inversion H; subst. destruct (N.eqb_spec k j); cbn.
  - subst. apply lookup_none_iff. assumption.
  - destruct (N.eqb_spec k j); [contradiction|]. apply IH. assumption.
Qed.
Lemma rem_keeps_others j t j' : j' <> j -> tbl_lookup j' (tbl_live (tbl_rem j t)) = tbl_lookup j' (tbl_live t).
Proof.
  intros Hne. induction t as [|[[k a']|] r IH]; cbn; [reflexivity| |exact IH].
  destruct (N.eqb_spec k j); cbn.
  - subst. destruct (N.eqb_spec j j'); [congruence|reflexivity].
  - rewrite IH. reflexivity.
Qed.

(* the dict iterator *)
Lemma first_live_some l k e : first_live l = Some (k, e) -> tbl_live l = e :: tbl_live (skipn k l) /\ (1 <= k)%nat.
Proof.
  revert k. induction l as [|[e'|] r IH]; intros k H; cbn in H; [discriminate| |].
  - inversion H; subst. cbn. split; [reflexivity|lia].
  - destruct (first_live r) as [[k' e'']|] eqn:E; [|discriminate]. inversion H; subst.
    destruct (IH k' eq_refl) as [IH1 IH2]. cbn. split; [exact IH1|lia].
Qed.
Lemma first_live_none l : first_live l = None -> tbl_live l = [].
Proof.
  induction l as [|[e'|] r IH]; cbn; intros H; [reflexivity|discriminate|].
  destruct (first_live r) as [[k' e'']|]; [discriminate|]. apply IH. reflexivity.
Qed.
Lemma skipn_add {A} (c k : nat) (l : list A) : skipn k (skipn c l) = skipn (c + k) l.
Proof. revert l. induction c as [|c IH]; intros l; [reflexivity|]. destruct l; cbn; [destruct k; reflexivity|apply IH]. Qed.
Lemma tbl_next_some cur t cur' e :
  tbl_next cur t = Some (cur', e) -> tbl_live (skipn cur t) = e :: tbl_live (skipn cur' t) /\ (cur < cur')%nat.
Proof.
  unfold tbl_next. destruct (first_live (skipn cur t)) as [[k e']|] eqn:E; [|discriminate]. intros H. inversion H; subst.
  destruct (first_live_some _ _ _ E) as [H1 H2]. rewrite skipn_add in H1. split; [exact H1|lia].
Qed.
Lemma tbl_next_none cur t : tbl_next cur t = None -> tbl_live (skipn cur t) = [].
Proof.
  unfold tbl_next. destruct (first_live (skipn cur t)) as [[k e']|] eqn:E; [discriminate|]. intros _. apply first_live_none. exact E.
Qed.

Lemma calls_add_log s e t :
  calls (add_log s e) t = if N.eqb (fst (fst e)) t then calls s t ++ [(snd (fst e), snd e)] else calls s t.
Proof.
  destruct e as [[t0 j] a]. unfold calls. cbn [st_log add_log rev fst snd]. rewrite filter_app, map_app. cbn [filter fst snd].
  destruct (N.eqb t0 t); cbn [map fst snd]; [reflexivity|rewrite app_nil_r; reflexivity].
Qed.

Definition binv (s : state) (t : tid) : Prop :=
  let snap := tr_snap (st_task s t) in
  match phase_of s t with
  | PNone | PBody => calls s t = []
  | PCreated => calls s t = [] /\ snap = []
  | PFin cur _ _ brk => brk = false /\ calls s t ++ tbl_live (skipn cur snap) = tbl_live snap
  | PDone => calls s t = tbl_live snap
  end.
Record invB (s : state) : Prop := mkInvB {
  ib_calls : forall t, binv s t;
  ib_nodup_cb : forall x tb, st_cb s x = Some tb -> NoDup (keys tb);
  ib_nodup_snap : forall t, NoDup (keys (tr_snap (st_task s t)))
}.
Definition conformant_loop (cfg : deviations) : Prop :=
  d_cb_raise_breaks cfg = false /\ d_fin_cancel_escapes cfg = false /\ d_live_iter cfg = false.

Lemma invB_init : invB init_state.
Proof. constructor; [intros t; reflexivity|intros x tb H; discriminate|intros t; constructor]. Qed.

Lemma binv_frame s s' t : st_task s' t = st_task s t -> st_log s' = st_log s -> binv s t -> binv s' t.
Proof. unfold binv, phase_of, calls. intros -> ->. auto. Qed.

Lemma invB_frame s s' :
  st_task s' = st_task s -> st_log s' = st_log s -> st_cb s' = st_cb s -> invB s -> invB s'.
Proof.
  intros Ht Hl Hc [B1 B2 B3]. constructor.
  - intros t. apply (binv_frame s s' t); [rewrite Ht; reflexivity|exact Hl|apply B1].
  - rewrite Hc. exact B2.
  - rewrite Ht. exact B3.
Qed.

Lemma invB_set_cb s x tb' : NoDup (keys tb') -> invB s -> invB (set_cb s x (Some tb')).
Proof.
  intros Hn [B1 B2 B3]. constructor.
  - intros t. apply (binv_frame s _ t); [reflexivity|reflexivity|apply B1].
  - intros y tb. cbn. unfold upd. destruct (N.eqb_spec y x); [intros E; inversion E; subst; exact Hn|apply B2].
  - exact B3.
Qed.

Lemma invB_end_body s t o : phase_of s t = PBody -> invB s -> invB (end_body s t o).
Proof.
  intros Ep [B1 B2 B3]. constructor.
  - intros t0. destruct (N.eq_dec t0 t) as [->|Hne].
    + specialize (B1 t). unfold binv, phase_of, calls, end_body in *. cbn. rewrite upd_same. cbn. rewrite Ep in B1.
      unfold calls in B1. rewrite B1. auto.
    + apply (binv_frame s _ t0); [unfold end_body; cbn; rewrite upd_other by assumption; reflexivity|reflexivity|apply B1].
  - exact B2.
  - intros t0. unfold end_body. cbn. destruct (N.eq_dec t0 t) as [->|Hne].
    + rewrite upd_same. cbn. unfold table_of. destruct (st_cb s t) eqn:E; [eapply B2; exact E|constructor].
    + rewrite upd_other by assumption. apply B3.
Qed.

(* rewriting the record of t inside the finally, same snapshot, same cursor, no break *)
Lemma invB_set_task_same s t r :
  invB s -> tr_snap r = tr_snap (st_task s t) ->
  (match phase_of s t, tr_phase r with
   | PBody, PBody => True
   | PFin cur _ _ false, PFin cur' _ _ false => cur' = cur
   | _, _ => False
   end) -> invB (set_task s t r).
Proof.
  intros [B1 B2 B3] Hs Hp. constructor.
  - intros t0. destruct (N.eq_dec t0 t) as [->|Hne].
    + specialize (B1 t). unfold binv, phase_of, calls in *. cbn. rewrite upd_same, Hs.
      destruct (tr_phase (st_task s t)) as [| | |c n i b|]; destruct (tr_phase r) as [| | |c' n' i' b'|]; try tauto;
        try (destruct b; tauto).
      destruct b; destruct b'; try tauto. subst c'. exact B1.
    + apply (binv_frame s _ t0); [cbn; rewrite upd_other by assumption; reflexivity|reflexivity|apply B1].
  - exact B2.
  - intros t0. cbn. destruct (N.eq_dec t0 t) as [->|Hne]; [rewrite upd_same, Hs|rewrite upd_other by assumption]; apply B3.
Qed.

Lemma invB_rbusy s b : invB s -> invB (set_rbusy s b).
Proof. intros I. eapply invB_frame; [| | |exact I]; reflexivity. Qed.

Lemma invB_step cfg : conformant_loop cfg -> forall s l s', invA s -> invB s -> step cfg s l = Some s' -> invB s'.
Proof.
  intros (Hb & Hne1 & Hne2) s l s' IA I H. destruct l as [t k|t|t x j a|t x j|src x|t n|t o|t|t res|t| | |t x|t x].
  - (* LCreate *)
    cbn [step] in H. destruct (phase_of s t) eqn:Ep; try discriminate. inversion H; subst; clear H.
    assert (I1 : invB (set_task s t (mkT k PCreated false 0 None None []))).
    { destruct I as [B1 B2 B3]. constructor.
      - intros t0. destruct (N.eq_dec t0 t) as [->|Hne].
        + specialize (B1 t). unfold binv, phase_of, calls in *. cbn. rewrite upd_same. cbn. rewrite Ep in B1. auto.
        + apply (binv_frame s _ t0); [cbn; rewrite upd_other by assumption; reflexivity|reflexivity|apply B1].
      - exact B2.
      - intros t0. cbn. destruct (N.eq_dec t0 t) as [->|Hne]; [rewrite upd_same; constructor|rewrite upd_other by assumption; apply B3]. }
    destruct k; try exact I1; (apply invB_set_cb; [cbn; constructor|exact I1]).
  - (* LStart *)
    cbn [step] in H. destruct (tr_phase (st_task s t)) eqn:Ep; try discriminate. inversion H; subst; clear H.
    assert (I1 : invB (set_task s t (set_phase (st_task s t) PBody))).
    { destruct I as [B1 B2 B3]. constructor.
      - intros t0. destruct (N.eq_dec t0 t) as [->|Hne].
        + specialize (B1 t). unfold binv, phase_of, calls in *. cbn. rewrite upd_same. cbn. rewrite Ep in B1. tauto.
        + apply (binv_frame s _ t0); [cbn; rewrite upd_other by assumption; reflexivity|reflexivity|apply B1].
      - exact B2.
      - intros t0. cbn. destruct (N.eq_dec t0 t) as [->|Hne]; [rewrite upd_same; cbn|rewrite upd_other by assumption]; apply B3. }
    set (r := st_task s t) in *.
    assert (I2 : invB (set_ours (set_task s t (set_phase r PBody)) t true)).
    { eapply invB_frame; [| | |exact I1]; reflexivity. }
    assert (Hcases : forall s2, (s2 = set_ours (set_task s t (set_phase r PBody)) t true \/
                                 s2 = set_cb (set_ours (set_task s t (set_phase r PBody)) t true) t (Some [])) ->
                                invB s2 /\ invB (set_ctx s2 t true)).
    { intros s2 Hs2. assert (Is2 : invB s2).
      { destruct Hs2 as [-> | ->]; [exact I2|]. apply invB_set_cb; [cbn; constructor|exact I2]. }
      split; [exact Is2|]. eapply invB_frame; [| | |exact Is2]; reflexivity. }
    cbn [st_cb set_ours set_task]. destruct (tr_kind r); [| destruct (d_service_no_cbrec cfg) | | destruct (d_shutdown_no_cbrec cfg)];
      destruct (st_cb s t) eqn:Ecb; (apply Hcases; auto).
  - (* LAdd *)
    cbn [step] in H. destruct (running s t) eqn:Er; [|discriminate].
    destruct (st_cb s x) as [tb|] eqn:Ex; inversion H; subst; clear H.
    + apply invB_set_cb; [|exact I]. apply nodup_add. destruct I as [_ B2 _]. eapply B2; exact Ex.
    + apply invB_end_body; [apply running_body; assumption|exact I].
  - (* LRem *)
    cbn [step] in H. destruct (running s t) eqn:Er; [|discriminate].
    destruct (st_cb s x) as [tb|] eqn:Ex; inversion H; subst; clear H.
    + apply invB_set_cb; [|exact I]. apply nodup_rem. destruct I as [_ B2 _]. eapply B2; exact Ex.
    + apply invB_end_body; [apply running_body; assumption|exact I].
  - (* LCancel *)
    cbn [step] in H. destruct src as [t|].
    + destruct (running s t) eqn:Er; [|discriminate].
      destruct (st_ours s x) eqn:Eo; inversion H; subst; clear H.
      * eapply invB_frame; [| | |exact I]; reflexivity.
      * apply invB_end_body; [apply running_body; assumption|exact I].
    + destruct (st_ours s x) eqn:Eo; inversion H; subst; clear H; [|exact I]. eapply invB_frame; [| | |exact I]; reflexivity.
  - (* LClaim *)
    cbn [step] in H. destruct (running s t) eqn:Er; [|discriminate].
    eapply invB_frame; [| | |exact I];
      (destruct (st_n2t s n) as [o|]; [destruct (negb (o =? t)%N && st_ours s o)|]; cbn in H;
       repeat match type of H with context [match ?e with _ => _ end] => destruct e end; inversion H; subst; reflexivity).
  - (* LEnd *)
    cbn [step] in H. destruct (tr_phase (st_task s t)) eqn:Ep; try discriminate.
    destruct o; destruct (tr_creq (st_task s t)); try discriminate; inversion H; subst; apply invB_end_body; assumption.
  - (* LCbBegin *)
    cbn [step] in H. destruct (tr_phase (st_task s t)) as [| | |cur n0 incb brk|] eqn:Ep; try discriminate.
    destruct incb, brk; try discriminate.
    assert (Hn0 : n0 = length (tbl_live (tr_snap (st_task s t)))).
    { destruct IA as [It _ _]. specialize (It t). unfold tinv, phase_of in It. rewrite Ep in It. exact It. }
    unfold loop_fails, iter_table in H. rewrite Hne2 in H. cbn [andb] in H. rewrite orb_false_r in H. rewrite <- Hn0, Nat.eqb_refl in H. cbn [negb] in H.
    destruct (tbl_next cur (tr_snap (st_task s t))) as [[cur' [j a]]|] eqn:En; [|discriminate].
    inversion H; subst; clear H. destruct I as [B1 B2 B3]. constructor.
    + intros t0. unfold binv, phase_of. rewrite calls_add_log. cbn [fst snd st_task add_log set_task].
      destruct (N.eqb_spec t t0) as [<-|Hne].
      * rewrite upd_same. cbn. specialize (B1 t). unfold binv, phase_of in B1. rewrite Ep in B1. destruct B1 as [_ B1].
        destruct (tbl_next_some _ _ _ _ En) as [Hn _]. split; [reflexivity|].
        rewrite <- app_assoc. cbn. rewrite <- Hn. exact B1.
      * rewrite upd_other by congruence. apply B1.
    + exact B2.
    + intros t0. cbn. destruct (N.eq_dec t0 t) as [->|Hne]; [rewrite upd_same; cbn|rewrite upd_other by assumption]; apply B3.
  - (* LCbEnd *)
    cbn [step] in H. destruct (tr_phase (st_task s t)) as [| | |cur n0 incb brk|] eqn:Ep; try discriminate.
    destruct incb, brk; try discriminate.
    destruct res; destruct (tr_creq (st_task s t)); try discriminate; try rewrite Hne1 in H; try rewrite Hb in H;
      inversion H; subst; clear H; (apply invB_set_task_same; [exact I|reflexivity|]); unfold phase_of; rewrite Ep; cbn; auto.
  - (* LExit *)
    cbn [step] in H. destruct (tr_phase (st_task s t)) as [| | |cur n0 incb brk|] eqn:Ep; try discriminate.
    destruct incb; try discriminate.
    assert (Hn0 : n0 = length (tbl_live (tr_snap (st_task s t)))).
    { destruct IA as [It _ _]. specialize (It t). unfold tinv, phase_of in It. rewrite Ep in It. exact It. }
    assert (Hbrk : brk = false).
    { destruct I as [B1 _ _]. specialize (B1 t). unfold binv, phase_of in B1. rewrite Ep in B1. tauto. }
    subst brk. unfold iter_table in H. rewrite Hne2 in H. rewrite <- Hn0, Nat.eqb_refl in H. cbn [negb] in H.
    destruct (tbl_next cur (tr_snap (st_task s t))) eqn:En; [discriminate|]. inversion H; subst; clear H.
    destruct I as [B1 B2 B3]. constructor.
    + intros t0. destruct (N.eq_dec t0 t) as [->|Hne].
      * specialize (B1 t). unfold binv, phase_of, calls, cleanup in *. rewrite Ep in B1. destruct B1 as [_ B1].
        rewrite (tbl_next_none _ _ En), app_nil_r in B1.
        destruct (st_t2n s t); cbn; rewrite !upd_same; cbn; exact B1.
      * apply (binv_frame s _ t0); [|unfold cleanup; destruct (st_t2n s t); reflexivity|apply B1].
        unfold cleanup; destruct (st_t2n s t); cbn; rewrite !upd_other by assumption; reflexivity.
    + intros x tb. unfold cleanup. destruct (st_t2n s t); cbn; unfold upd; destruct (N.eqb_spec x t); try discriminate; apply B2.
    + intros t0. unfold cleanup. destruct (st_t2n s t); cbn; (destruct (N.eq_dec t0 t) as [->|Hne];
        [rewrite !upd_same; cbn|rewrite !upd_other by assumption]); apply B3.
  - (* LReaper *)
    cbn [step] in H. destruct (st_rbusy s); [discriminate|]. destruct (st_rq s) as [|x q] eqn:Eq; [discriminate|].
    assert (Hx : phase_of s x <> PNone /\ phase_of s x <> PCreated).
    { destruct IA as [_ _ Iq]. apply Iq. rewrite Eq. left; reflexivity. }
    cbn [st_task set_rq] in H. unfold phase_of in Hx.
    assert (I1 : invB (set_rq s q)) by (eapply invB_frame; [| | |exact I]; reflexivity).
    destruct (tr_phase (st_task s x)) as [| | |c n i b|] eqn:Ep; try tauto; inversion H; subst; clear H; try exact I1.
    + apply invB_rbusy. apply invB_set_task_same; [exact I1|reflexivity|].
      unfold phase_of. cbn. rewrite Ep. cbn. exact Logic.I.
    + assert (Hbf : b = false).
      { destruct I as [B1 _ _]. specialize (B1 x). unfold binv, phase_of in B1. rewrite Ep in B1. tauto. }
      subst b. apply invB_rbusy. apply invB_set_task_same; [exact I1|reflexivity|].
      unfold phase_of. cbn. rewrite Ep. cbn. reflexivity.
  - (* LReaperWake *)
    cbn [step] in H. destruct (st_rbusy s); [|discriminate]. destruct (is_done s t); [|discriminate].
    inversion H; subst. eapply invB_frame; [| | |exact I]; reflexivity.
  - (* LPropCancel *)
    cbn [step] in H. destruct (tr_phase (st_task s t)) eqn:Ept; try discriminate.
    destruct (tr_creq (st_task s t) && negb (t =? x)%N); [|discriminate].
    destruct (tr_phase (st_task s x)) as [| | |c n i b|] eqn:Ep.
    + inversion H; subst; exact I.
    + destruct (tr_kind (st_task s x)); try (inversion H; subst; exact I).
      destruct (st_cb s x); inversion H; subst; clear H; [exact I|].
      destruct I as [B1 B2 B3]. constructor.
      * intros t0. destruct (N.eq_dec t0 x) as [->|Hne].
        -- specialize (B1 x). unfold binv, phase_of, calls in *. cbn. rewrite upd_same. cbn. rewrite Ep in B1.
           destruct B1 as [B1 B1']. rewrite B1, B1'. reflexivity.
        -- apply (binv_frame s _ t0); [cbn; rewrite upd_other by assumption; reflexivity|reflexivity|apply B1].
      * exact B2.
      * intros t0. cbn. destruct (N.eq_dec t0 x) as [->|Hne]; [rewrite upd_same; cbn|rewrite upd_other by assumption]; apply B3.
    + inversion H; subst; clear H. apply invB_set_task_same; [exact I|reflexivity|]. unfold phase_of. cbn. rewrite !Ep. exact Logic.I.
    + assert (Hbf : b = false).
      { destruct I as [B1 _ _]. specialize (B1 x). unfold binv, phase_of in B1. rewrite Ep in B1. tauto. }
      subst b. inversion H; subst; clear H. apply invB_set_task_same; [exact I|reflexivity|]. unfold phase_of. cbn. rewrite !Ep. reflexivity.
    + inversion H; subst; exact I.
  - (* LCallKilled *)
    cbn [step] in H. destruct (running s t && d_call_cancel_kills cfg) eqn:Er; [|discriminate].
    apply andb_true_iff in Er. destruct Er as [Er _].
    destruct (phase_of s x); try discriminate. destruct (tr_final (st_task s x)) as [[| | |]|]; try discriminate.
    inversion H; subst. apply invB_end_body; [apply running_body; assumption|exact I].
Qed.

Lemma invAB_run cfg : conformant_loop cfg -> forall ls s, run cfg ls = Some s -> invA s /\ invB s.
Proof.
  intros Hc ls s H. assert (Hn : no_escape cfg) by (destruct Hc as (_ & H1 & H2); split; assumption).
  apply (run_from_inv cfg (fun s => invA s /\ invB s)) with (ls := ls) (s := init_state); [|split; [apply invA_init|apply invB_init]|exact H].
  intros s0 l s1 [IA IB] Hs. split; [eapply invA_step; eassumption|eapply invB_step; eassumption].
Qed.

(* C14_callbacks_once: when a task is done, the callbacks that were called for it are exactly the entries of its callback
   table at the moment its body ended ([tr_snap]), in insertion order, one call per callback function *)
Theorem callbacks_once cfg : conformant_loop cfg ->
  forall ls s t, run cfg ls = Some s -> phase_of s t = PDone ->
  calls s t = tbl_live (tr_snap (st_task s t)) /\ NoDup (map fst (calls s t)).
Proof.
  intros Hc ls s t H Hd. destruct (invAB_run cfg Hc ls s H) as [_ [B1 _ B3]].
  specialize (B1 t). unfold binv in B1. rewrite Hd in B1. split; [exact B1|]. rewrite B1. apply B3.
Qed.

Lemma filter_key_nodup j (l : list (cbid * N)) : NoDup (map fst l) ->
  filter (fun p => N.eqb (fst p) j) l = match tbl_lookup j l with Some a => [(j, a)] | None => [] end.
Proof.
  induction l as [|[k a] r IH]; cbn; intros H; [reflexivity|]. inversion H; subst.
  destruct (N.eqb_spec k j).
  - subst. rewrite IH by assumption. assert (E : tbl_lookup j r = None) by (apply lookup_none_iff; assumption).
    rewrite E. reflexivity.
  - apply IH; assumption.
Qed.

(* ... hence: a callback registered with argument a (and not removed) when the body ended ran exactly once, with a;
   any other callback did not run *)
Corollary callbacks_exactly_once cfg : conformant_loop cfg ->
  forall ls s t j, run cfg ls = Some s -> phase_of s t = PDone ->
  filter (fun p => N.eqb (fst p) j) (calls s t) =
  match tbl_lookup j (tbl_live (tr_snap (st_task s t))) with Some a => [(j, a)] | None => [] end.
Proof.
  intros Hc ls s t j H Hd. destruct (callbacks_once cfg Hc ls s t H Hd) as [E Hn].
  rewrite <- E. apply filter_key_nodup. exact Hn.
Qed.

(* the snapshot is the callback table of the task at the moment its body ends, however it ends *)
Lemma snapshot_at_body_end cfg s t o s' :
  step cfg s (LEnd t o) = Some s' -> tr_snap (st_task s' t) = table_of s t /\ tr_out (st_task s' t) = Some o.
Proof.
  cbn [step]. destruct (tr_phase (st_task s t)); try discriminate.
  destruct o; destruct (tr_creq (st_task s t)); try discriminate; intros H; inversion H; subst;
    unfold end_body; cbn; rewrite upd_same; cbn; auto.
Qed.

(* every table reachable has one entry per callback function *)
Lemma tables_nodup cfg : conformant_loop cfg -> forall ls s x tb, run cfg ls = Some s -> st_cb s x = Some tb -> NoDup (keys tb).
Proof. intros Hc ls s x tb H. destruct (invAB_run cfg Hc ls s H) as [_ [_ B2 _]]. apply B2. Qed.

(* ---------- D20 off: every task of ours that is still running has a callback record ---------- *)
Definition rinv (s : state) (t : tid) : Prop :=
  match phase_of s t with
  | PCreated => tr_kind (st_task s t) <> KSvc -> tr_kind (st_task s t) <> KShutL -> st_cb s t <> None
  | PBody | PFin _ _ _ _ => st_cb s t <> None
  | _ => True
  end.

Lemma rinv_frame s s' t : st_task s' t = st_task s t -> st_cb s' t = st_cb s t -> rinv s t -> rinv s' t.
Proof. unfold rinv, phase_of. intros -> ->. auto. Qed.

Lemma rinv_phase s s' t :
  st_cb s' t = st_cb s t -> st_cb s t <> None \/ phase_of s' t = PDone ->
  (match phase_of s' t with PNone | PCreated => False | _ => True end) -> rinv s' t.
Proof. unfold rinv. intros -> [H|H]; [|rewrite H; auto]. destruct (phase_of s' t); tauto. Qed.

Ltac rfin R t0 x :=
  pose proof (R t0) as R0; pose proof (R x) as Rx; unfold rinv, phase_of, end_body, escape, cleanup, table_of in *; cbn in *;
  unfold upd in *;
  repeat match goal with
         | |- context [N.eqb ?a ?b] => destruct (N.eqb_spec a b); subst
         | H : context [N.eqb ?a ?b] |- _ => destruct (N.eqb_spec a b); subst
         end; cbn in *;
  repeat match goal with H : ?a = _ |- context [?a] => rewrite H in * end; cbn in *;
  try tauto; try congruence; try discriminate;
  repeat match goal with
         | |- context [match tr_phase ?r with _ => _ end] => destruct (tr_phase r) eqn:?
         | H : context [match tr_phase ?r with _ => _ end] |- _ => destruct (tr_phase r) eqn:?
         end; cbn in *; try tauto; try congruence; try discriminate.

Lemma rinv_step cfg : d_service_no_cbrec cfg = false -> d_shutdown_no_cbrec cfg = false ->
  forall s l s', (forall t, rinv s t) -> step cfg s l = Some s' -> forall t, rinv s' t.
Proof.
  intros Hd Hd2 s l s' R H t0. destruct l as [t k|t|t x j a|t x j|src x|t n|t o|t|t res|t| | |t x|t x]; cbn [step] in H.
  - destruct (phase_of s t) eqn:Ep; try discriminate. inversion H; subst; clear H.
    destruct k; rfin R t0 t.
  - destruct (tr_phase (st_task s t)) eqn:Ep; try discriminate. inversion H; subst; clear H.
    rewrite Hd, Hd2. destruct (tr_kind (st_task s t)) eqn:Ek; cbn [st_cb set_ours set_task]; destruct (st_cb s t) eqn:Ec;
      rfin R t0 t.
  - destruct (running s t) eqn:Er; [|discriminate]. apply running_body in Er.
    destruct (st_cb s x) as [tb|] eqn:Ex; inversion H; subst; clear H; rfin R t0 t.
  - destruct (running s t) eqn:Er; [|discriminate]. apply running_body in Er.
    destruct (st_cb s x) as [tb|] eqn:Ex; inversion H; subst; clear H; rfin R t0 t.
  - destruct src as [t|].
    + destruct (running s t) eqn:Er; [|discriminate]. apply running_body in Er.
      destruct (st_ours s x); inversion H; subst; clear H; rfin R t0 t.
    + destruct (st_ours s x); inversion H; subst; clear H; exact (R t0).
  - destruct (running s t) eqn:Er; [|discriminate].
    apply (rinv_frame s s' t0); [| |exact (R t0)];
      (destruct (st_n2t s n) as [o|]; [destruct (negb (o =? t)%N && st_ours s o)|]; cbn in H;
       repeat match type of H with context [match ?e with _ => _ end] => destruct e end; inversion H; subst; reflexivity).
  - destruct (tr_phase (st_task s t)) eqn:Ep; try discriminate.
    destruct o; destruct (tr_creq (st_task s t)); try discriminate; inversion H; subst; clear H; rfin R t0 t.
  - destruct (tr_phase (st_task s t)) as [| | |cur n0 incb brk|] eqn:Ep; try discriminate. destruct incb, brk; try discriminate.
    destruct (loop_fails cfg s t cur n0); [inversion H; subst; clear H; rfin R t0 t|].
    destruct (tbl_next cur (iter_table cfg s t)) as [[cur' [j a]]|]; [|discriminate]. inversion H; subst; clear H. rfin R t0 t.
  - destruct (tr_phase (st_task s t)) as [| | |cur n0 incb brk|] eqn:Ep; try discriminate. destruct incb, brk; try discriminate.
    destruct res; destruct (tr_creq (st_task s t)); try discriminate; try destruct (d_fin_cancel_escapes cfg);
      inversion H; subst; clear H; rfin R t0 t.
  - destruct (tr_phase (st_task s t)) as [| | |cur n0 incb brk|] eqn:Ep; try discriminate. destruct incb; try discriminate.
    destruct brk; [|destruct (negb (length (tbl_live (iter_table cfg s t)) =? n0)%nat); [|destruct (tbl_next cur (iter_table cfg s t)); [discriminate|]]];
      inversion H; subst; clear H; unfold cleanup; destruct (st_t2n s t); rfin R t0 t.
  - destruct (st_rbusy s); [discriminate|]. destruct (st_rq s) as [|x q]; [discriminate|]. cbn [st_task set_rq] in H.
    destruct (tr_phase (st_task s x)) eqn:Ep; inversion H; subst; clear H; rfin R t0 x.
  - destruct (st_rbusy s) as [x|]; [|discriminate]. destruct (is_done s x); [|discriminate]. inversion H; subst. exact (R t0).
  - destruct (tr_phase (st_task s t)) eqn:Ept; try discriminate. destruct (tr_creq (st_task s t) && negb (t =? x)%N); [|discriminate].
    destruct (tr_phase (st_task s x)) eqn:Ep; try (inversion H; subst; exact (R t0)).
    + destruct (tr_kind (st_task s x)) eqn:Ek; try (inversion H; subst; exact (R t0)).
      destruct (st_cb s x) eqn:Ec; inversion H; subst; clear H; [exact (R t0)|]. rfin R t0 x.
    + inversion H; subst; clear H. rfin R t0 x.
    + inversion H; subst; clear H. rfin R t0 x.
  - destruct (running s t && d_call_cancel_kills cfg) eqn:Er; [|discriminate].
    apply andb_true_iff in Er. destruct Er as [Er _]. apply running_body in Er.
    destruct (phase_of s x); try discriminate. destruct (tr_final (st_task s x)) as [[| | |]|]; try discriminate.
    inversion H; subst; clear H. rfin R t0 t.
Qed.

Lemma rinv_run cfg : d_service_no_cbrec cfg = false -> d_shutdown_no_cbrec cfg = false ->
  forall ls s, run cfg ls = Some s -> forall t, rinv s t.
Proof.
  intros Hd Hd2 ls s H. apply (run_from_inv cfg (fun s => forall t, rinv s t) (rinv_step cfg Hd Hd2) ls init_state s); [|exact H].
  intros t. unfold rinv, phase_of. cbn. exact Logic.I.
Qed.

(* with D20 repaired, add_done_callback on any task whose body is running registers the callback *)
Theorem add_registers_on_running cfg : d_service_no_cbrec cfg = false -> d_shutdown_no_cbrec cfg = false ->
  forall ls s t x j a, run cfg ls = Some s -> running s t = true -> phase_of s x = PBody ->
  exists tb, st_cb s x = Some tb /\ step cfg s (LAdd t x j a) = Some (set_cb s x (Some (tbl_add j a tb))).
Proof.
  intros Hd Hd2 ls s t x j a H Hr Hx. pose proof (rinv_run cfg Hd Hd2 ls s H x) as R. unfold rinv in R. rewrite Hx in R.
  destruct (st_cb s x) as [tb|] eqn:E; [|congruence]. exists tb. split; [reflexivity|]. cbn [step]. rewrite Hr, E. reflexivity.
Qed.

(* ---------- E. progress: a task in its finally can always complete by its own steps ---------- *)
Lemma run_from_cons cfg s l ls : run_from cfg s (l :: ls) = match step cfg s l with Some s1 => run_from cfg s1 ls | None => None end.
Proof. reflexivity. Qed.

Lemma tbl_next_lt cur t r : tbl_next cur t = Some r -> (cur < length t)%nat.
Proof.
  unfold tbl_next. destruct (skipn cur t) eqn:E; [cbn; discriminate|]. intros _.
  destruct (Nat.lt_ge_cases cur (length t)) as [Hl|Hg]; [exact Hl|]. rewrite skipn_all2 in E by exact Hg. discriminate.
Qed.

Lemma can_finish_aux cfg : d_live_iter cfg = false ->
  forall n s t cur n0 brk,
    phase_of s t = PFin cur n0 false brk -> tr_creq (st_task s t) = false ->
    (length (tr_snap (st_task s t)) - cur <= n)%nat ->
    exists ls s', (forall l, In l ls -> owner l = Some t) /\ run_from cfg s ls = Some s' /\ phase_of s' t = PDone.
Proof.
  intros Hl n. induction n as [|n IH]; intros s t cur n0 brk Ep Hc Hm.
  all: unfold phase_of in Ep.
  all: destruct brk;
    [ exists [LExit t], (cleanup s t); split; [intros l [<-|[]]; reflexivity|]; split;
      [rewrite run_from_cons; cbn [step]; rewrite Ep; reflexivity
      |unfold cleanup, phase_of; destruct (st_t2n s t); cbn; rewrite !upd_same; reflexivity] |].
  all: destruct (negb (length (tbl_live (tr_snap (st_task s t))) =? n0)%nat) eqn:Esz;
    [ exists [LExit t], (escape s t OEscape); split; [intros l [<-|[]]; reflexivity|]; split;
      [rewrite run_from_cons; cbn [step]; unfold iter_table; rewrite Ep, Hl, Esz; reflexivity
      |unfold escape, phase_of; cbn; rewrite upd_same; reflexivity] |].
  all: destruct (tbl_next cur (tr_snap (st_task s t))) as [[cur' [j a]]|] eqn:En;
    [| exists [LExit t], (cleanup s t); split; [intros l [<-|[]]; reflexivity|]; split;
       [rewrite run_from_cons; cbn [step]; unfold iter_table; rewrite Ep, Hl, Esz, En; reflexivity
       |unfold cleanup, phase_of; destruct (st_t2n s t); cbn; rewrite !upd_same; reflexivity] ].
  - exfalso. apply tbl_next_lt in En. lia.
  - set (s1 := add_log (set_task s t (set_phase (st_task s t) (PFin cur' n0 true false))) (t, j, a)).
    set (s2 := set_task s1 t (set_phase (st_task s1 t) (PFin cur' n0 false false))).
    destruct (tbl_next_some _ _ _ _ En) as [_ Hlt].
    destruct (IH s2 t cur' n0 false) as (ls & s' & Hown & Hrun & Hd).
    + unfold phase_of, s2. cbn. rewrite upd_same. reflexivity.
    + unfold s2, s1. cbn. rewrite !upd_same. cbn. exact Hc.
    + unfold s2, s1. cbn. rewrite !upd_same. cbn. lia.
    + exists (LCbBegin t :: LCbEnd t CbOk :: ls), s'. split; [|split; [|exact Hd]].
      * intros l [<-|[<-|Hi]]; [reflexivity|reflexivity|apply Hown; exact Hi].
      * rewrite run_from_cons. cbn [step]. unfold loop_fails, iter_table. rewrite Ep, Hl. cbn [andb]. rewrite orb_false_r, Esz, En. fold s1.
        rewrite run_from_cons. cbn [step]. unfold s1 at 1 2. cbn [st_task add_log set_task]. rewrite upd_same.
        cbn [tr_phase set_phase tr_creq]. rewrite Hc. exact Hrun.
Qed.

Theorem can_finish cfg : d_live_iter cfg = false ->
  forall s t cur n0 incb brk,
    phase_of s t = PFin cur n0 incb brk -> tr_creq (st_task s t) = false -> (incb = true -> brk = false) ->
    exists ls s', (forall l, In l ls -> owner l = Some t) /\ run_from cfg s ls = Some s' /\ phase_of s' t = PDone.
Proof.
  intros Hl s t cur n0 incb brk Ep Hc Hb. destruct incb.
  - rewrite (Hb eq_refl) in Ep. unfold phase_of in Ep.
    set (s1 := set_task s t (set_phase (st_task s t) (PFin cur n0 false false))).
    destruct (can_finish_aux cfg Hl (length (tr_snap (st_task s1 t))) s1 t cur n0 false) as (ls & s' & Hown & Hrun & Hd).
    + unfold phase_of, s1. cbn. rewrite upd_same. reflexivity.
    + unfold s1. cbn. rewrite upd_same. exact Hc.
    + lia.
    + exists (LCbEnd t CbOk :: ls), s'. split; [|split; [|exact Hd]].
      * intros l [<-|Hi]; [reflexivity|apply Hown; exact Hi].
      * rewrite run_from_cons. cbn [step]. rewrite Ep, Hc. exact Hrun.
  - eapply can_finish_aux; [exact Hl|exact Ep|exact Hc|apply Nat.le_refl].
Qed.
Local Open Scope N_scope.

(* ---------- the statements are false of the code as it is: witnesses, checked by computation ---------- *)
Definition only_d22 := mkDev true false false false false false.
Definition only_d20 := mkDev false true false false false false.
Definition only_d140 := mkDev false false true false false false.
Definition only_d141 := mkDev false false false true false false.
Definition only_d142 := mkDev false false false false true false.

(* D22: two callbacks, the first raises: the second is never called *)
Definition wit_d22 : list label :=
  [LCreate 0 KTrig; LStart 0; LAdd 0 0 0 5; LAdd 0 0 1 6; LEnd 0 (ORet None); LCbBegin 0; LCbEnd 0 CbRaise; LExit 0].
Lemma refuted_D22 :
  exists s, run only_d22 wit_d22 = Some s /\ phase_of s 0 = PDone /\
            tbl_live (tr_snap (st_task s 0)) = [(0, 5); (1, 6)]%N /\ calls s 0 = [(0, 5)]%N.
Proof. eexists. split; [vm_compute; reflexivity|]. vm_compute. auto. Qed.

(* D20: add_done_callback on a running service task: no record, the caller's body dies with KeyError *)
Definition wit_d20 : list label := [LCreate 0 KSvc; LStart 0; LAdd 0 0 0 5].
Lemma refuted_D20 :
  exists s0 s, run only_d20 (firstn 2 wit_d20) = Some s0 /\ running s0 0 = true /\ phase_of s0 0 = PBody /\
               run only_d20 wit_d20 = Some s /\ st_cb s 0 = None /\ tr_out (st_task s 0) = Some ORaise.
Proof. eexists. eexists. split; [vm_compute; reflexivity|]. split; [vm_compute; reflexivity|]. split; [vm_compute; reflexivity|].
  split; [vm_compute; reflexivity|]. vm_compute. auto. Qed.

(* D140: the task returned 7, its first done-callback is suspended, task.cancel arrives: the second callback never
   runs, every registry keeps the dead task, the task reports "cancelled" *)
Definition wit_d140 : list label :=
  [LCreate 0 KTrig; LStart 0; LAdd 0 0 0 5; LAdd 0 0 1 6; LClaim 0 3; LEnd 0 (ORet (Some 7)); LCbBegin 0;
   LCancel None 0; LReaper; LCbEnd 0 CbCancelled; LReaperWake].
Lemma refuted_D140 :
  exists s, run only_d140 wit_d140 = Some s /\ phase_of s 0 = PDone /\
            st_ours s 0 = true /\ st_cb s 0 <> None /\ st_ctx s 0 = true /\ st_t2n s 0 <> None /\ st_n2t s 3 = Some 0%N /\
            calls s 0 = [(0, 5)]%N /\ tr_out (st_task s 0) = Some (ORet (Some 7%N)) /\ tr_final (st_task s 0) = Some OCancel.
Proof. eexists. split; [vm_compute; reflexivity|]. vm_compute. repeat split; try discriminate. Qed.

(* D141: task 1 adds a callback to task 0 while task 0's first done-callback is suspended: RuntimeError leaves run_coro *)
Definition wit_d141 : list label :=
  [LCreate 0 KTrig; LStart 0; LCreate 1 KTrig; LStart 1; LAdd 0 0 0 5; LEnd 0 (ORet None); LCbBegin 0;
   LAdd 1 0 1 6; LCbEnd 0 CbOk; LCbBegin 0].
Lemma refuted_D141 :
  exists s, run only_d141 wit_d141 = Some s /\ phase_of s 0 = PDone /\
            st_ours s 0 = true /\ st_cb s 0 <> None /\ st_ctx s 0 = true /\
            calls s 0 = [(0, 5)]%N /\ tr_final (st_task s 0) = Some OEscape.
Proof. eexists. split; [vm_compute; reflexivity|]. vm_compute. repeat split; try discriminate. Qed.

(* D142: task 0 is blocked in service.call on service run 1; task 1 is cancelled: task 0 ends cancelled although no
   cancellation was ever delivered to it; with the switch off that step does not exist *)
Definition wit_d142 : list label :=
  [LCreate 0 KTrig; LStart 0; LCreate 1 KSvc; LStart 1; LCancel None 1; LReaper; LEnd 1 OCancel; LExit 1; LReaperWake; LCallKilled 0 1; LExit 0].
Lemma refuted_D142 :
  exists s, run only_d142 wit_d142 = Some s /\ phase_of s 0 = PDone /\ tr_final (st_task s 0) = Some OCancel /\
            tr_ncancel (st_task s 0) = 0%nat.
Proof. eexists. split; [vm_compute; reflexivity|]. vm_compute. auto. Qed.
Lemma callee_cancel_spares_caller cfg s t x : d_call_cancel_kills cfg = false -> step cfg s (LCallKilled t x) = None.
Proof. intros H. cbn [step]. rewrite H, andb_false_r. reflexivity. Qed.

(* D143: a legacy shutdown run (started by the waiter task without ast_ctx) has no callback record either *)
Definition only_d143 := mkDev false false false false false true.
Definition wit_d143 : list label := [LCreate 0 KShutL; LStart 0; LAdd 0 0 0 5].
Lemma refuted_D143 :
  exists s0 s, run only_d143 (firstn 2 wit_d143) = Some s0 /\ running s0 0 = true /\ st_ctx s0 0 = true /\
               run only_d143 wit_d143 = Some s /\ st_cb s 0 = None /\ tr_out (st_task s 0) = Some ORaise.
Proof. eexists. eexists. split; [vm_compute; reflexivity|]. split; [vm_compute; reflexivity|]. split; [vm_compute; reflexivity|].
  split; [vm_compute; reflexivity|]. vm_compute. auto. Qed.

(* independence fails for the live-dict loop: whether task 0 can take its next loop step normally depends on task 1 *)
Lemma independent_needs_D141_off :
  exists s1 s2, st_task s1 0%N = st_task s2 0%N /\
    (exists s', step only_d141 s1 (LExit 0) = Some s' /\ st_cb s' 0 = None) /\
    (exists s', step only_d141 s2 (LExit 0) = Some s' /\ st_cb s' 0 <> None).
Proof.
  pose (pre := [LCreate 0 KTrig; LStart 0; LCreate 1 KTrig; LStart 1; LAdd 0 0 0 5; LEnd 0 (ORet None); LCbBegin 0; LCbEnd 0 CbOk]).
  destruct (run only_d141 pre) as [s1|] eqn:E1; [|vm_compute in E1; discriminate].
  destruct (step only_d141 s1 (LAdd 1 0 1 6)) as [s2|] eqn:E2.
  2:{ revert E2. vm_compute in E1. inversion E1; subst. vm_compute. discriminate. }
  exists s1, s2. vm_compute in E1. inversion E1; subst; clear E1. vm_compute in E2. inversion E2; subst; clear E2.
  split; [reflexivity|]. split; eexists; (split; [vm_compute; reflexivity|]); vm_compute; [reflexivity|discriminate].
Qed.

(* the hypotheses of the conformant theorems are inhabited, and the scheduler really is a path of the transition system *)
Example conformant_loop_no_dev : conformant_loop no_dev.
Proof. repeat split. Qed.

Definition ex_tasks : list tdesc :=
  [mkTd KTrig 1024 [SSleep 4096; SCreate 1; SAdd 1 0 4; SAdd 1 1 5; SAdd 1 0 6; SRem 1 1; SWait 1; SSleep 16384; SRet 2];
   mkTd KCreate 0 [SSleep 8192; SClaim 0; SSleep 65536; SRet 7];
   mkTd KSvc 2048 [SSleep 32768; SCancel 1; SSleep 131072; SCancelSelf]]%N.
Definition ex_cbs : list cbdesc := [mkCd 0 false; mkCd 0 false]%N.
Example sim_is_a_run :
  let sc := sim no_dev ex_tasks ex_cbs [] in
  sc_err sc = false /\
  exists s, run no_dev (rev (sc_labels sc)) = Some s /\
            forallb (fun t => is_done s t && N.eqb (bits_of s t) 0) [0; 1; 2]%N = true /\ calls s 1 = [(0, 6)]%N.
Proof. cbv zeta. split; [vm_compute; reflexivity|]. eexists. split; [vm_compute; reflexivity|]. vm_compute. auto. Qed.
