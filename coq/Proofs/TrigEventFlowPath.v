(* Proofs/TrigEventFlowPath.v — the trace validator of Trig/EventFlowCheck.v is sound: whenever [ecase_model_ok] accepts an
   observed trace, the label sequence it constructed is a path of the LTS from the initial state, ending in a state in
   which every queue is empty; hence (conformant model) the runs started per decorator are exactly the Spec's runs. *)
From PV Require Import Common.Util Trig.EventBase Gen.EventFlowConsts Trig.EventFlow Trig.EventFlowCheck Proofs.TrigEventFlow.
From Coq Require Import Lia.

Definition rs_wf (Sy : sys) (rs : rstate) : Prop := run_lts Sy (rev (rs_path rs)) = Some (rs_st rs).

Lemma run_from_app Sy st l1 l2 :
  run_from Sy st (l1 ++ l2) = match run_from Sy st l1 with Some st' => run_from Sy st' l2 | None => None end.
Proof.
  revert st; induction l1 as [|a l1 IH]; intros st; cbn; [reflexivity|].
  destruct (step Sy st a); [apply IH|reflexivity].
Qed.

Lemma wf_same Sy a b : rs_st a = rs_st b -> rs_path a = rs_path b -> rs_wf Sy a -> rs_wf Sy b.
Proof. unfold rs_wf. intros -> ->. auto. Qed.

Lemma do_step_wf Sy rs l rs' : rs_wf Sy rs -> do_step Sy rs l = Some rs' -> rs_wf Sy rs'.
Proof.
  unfold rs_wf, do_step, run_lts. intros W E. destruct (step Sy (rs_st rs) l) as [st'|] eqn:ES; [|discriminate].
  inversion E; subst rs'; clear E. cbn [rs_path rs_st rev]. rewrite run_from_app, W. cbn. rewrite ES. reflexivity.
Qed.

Lemma drain_wf Sy : forall fuel rs T, rs_wf Sy rs -> rs_wf Sy (drain Sy fuel rs T).
Proof.
  induction fuel as [|fuel IH]; intros rs T W; cbn [drain]; [exact W|].
  destruct (trig_at Sy T) as [tr|]; [|exact W].
  destruct (st_q (rs_st rs) T) as [|m q]; [exact W|].
  destruct (sy_legacy Sy && negb (passes tr (m_args m))); [|exact W].
  destruct (do_step Sy rs (LConsume T 0)) as [rs'|] eqn:E; [|exact W].
  apply IH. eapply do_step_wf; eassumption.
Qed.

Lemma drain_all_wf Sy rs T : rs_wf Sy rs -> rs_wf Sy (drain_all Sy rs T).
Proof. apply drain_wf. Qed.

Lemma set_pc_wf Sy rs r pc : rs_wf Sy rs -> rs_wf Sy (set_pc rs r pc).
Proof. apply wf_same; reflexivity. Qed.

Ltac break E :=
  repeat (cbv zeta in E;
          match type of E with
          | match ?x with _ => _ end = _ => destruct x eqn:?; try discriminate
          | (if ?x then _ else _) = _ => destruct x eqn:?; try discriminate
          end).

Lemma replay_obs_wf c Sy rs ob rs' : rs_wf Sy rs -> replay_obs c Sy rs ob = Some rs' -> rs_wf Sy rs'.
Proof.
  intros W E. destruct ob as [o|T f kw cx|rid f kw cx|rid ai key data cx ep|rid ai cx|rid ai cx]; cbn [replay_obs] in E.
  - eapply do_step_wf; eassumption.
  - break E. inversion E; subst rs'. eapply do_step_wf; [apply drain_all_wf; exact W|eassumption].
  - break E. inversion E; subst rs'.
    match goal with H : do_step _ _ _ = Some ?r |- _ => apply (wf_same Sy r); [reflexivity|reflexivity|eapply do_step_wf; eassumption] end.
  - break E. inversion E; subst rs'. apply set_pc_wf. eapply do_step_wf; eassumption.
  - break E. inversion E; subst rs'. apply set_pc_wf. eapply do_step_wf; eassumption.
  - break E. inversion E; subst rs'. apply set_pc_wf. eapply do_step_wf; eassumption.
Qed.

Lemma replay_wf c Sy : forall l rs n n' rs' b, rs_wf Sy rs -> replay c Sy rs l n = (n', rs', b) -> rs_wf Sy rs'.
Proof.
  induction l as [|ob l IH]; intros rs n n' rs' b W E; cbn [replay] in E.
  - inversion E; subst; exact W.
  - destruct (replay_obs c Sy rs ob) as [rs1|] eqn:E1.
    + eapply IH; [eapply replay_obs_wf; eassumption|exact E].
    + inversion E; subst; exact W.
Qed.

Lemma fold_drain_wf Sy : forall Ts rs, rs_wf Sy rs -> rs_wf Sy (fold_left (drain_all Sy) Ts rs).
Proof. induction Ts as [|T Ts IH]; intros rs W; cbn [fold_left]; [exact W|]. apply IH, drain_all_wf, W. Qed.

Lemma rs_init_wf Sy : rs_wf Sy rs_init.
Proof. reflexivity. Qed.

(* the validator accepts only paths of the LTS that end with every queue empty *)
Theorem model_ok_path : forall cfg c, ecase_model_ok cfg c = true ->
  exists ls st, run_lts (case_sys cfg c) ls = Some st /\ forall T, (T < length (ec_trigs c))%nat -> st_q st T = [].
Proof.
  intros cfg c H. unfold ecase_model_ok in H. cbv zeta in H.
  destruct (replay c (case_sys cfg c) rs_init (ec_obs c) 0) as [[n rs] b] eqn:ER.
  destruct b; [|discriminate].
  pose proof (replay_wf c (case_sys cfg c) _ _ _ _ _ _ (rs_init_wf _) ER) as W.
  unfold final_ok in H. cbv zeta in H.
  set (rs' := fold_left (drain_all (case_sys cfg c)) (seq 0 (length (ec_trigs c))) rs) in *.
  assert (W' : rs_wf (case_sys cfg c) rs') by (apply fold_drain_wf; exact W).
  apply andb_true_iff in H. destruct H as [HQ _].
  exists (rev (rs_path rs')), (rs_st rs'). split; [exact W'|].
  intros T HT. rewrite forallb_forall in HQ.
  specialize (HQ T). rewrite in_seq in HQ. specialize (HQ ltac:(lia)).
  destruct (st_q (rs_st rs') T); [reflexivity|discriminate].
Qed.

(* ... so, for the conformant model, an accepted trace ends in a state where every decorator started exactly the runs the
   Spec demands for the occurrences handed over on that path, in order *)
Corollary model_ok_exact : forall c, ecase_model_ok all_off c = true ->
  exists ls st, run_lts (case_sys all_off c) ls = Some st /\
    forall T tr, nth_error (ec_trigs c) T = Some tr -> started st T = spec_runs tr (st_occs st).
Proof.
  intros c H. destruct (model_ok_path all_off c H) as (ls & st & E & HQ).
  exists ls, st. split; [exact E|]. intros T tr ET.
  unfold case_sys in E.
  apply (fifo_quiescent (ec_legacy c) (ec_trigs c) (ec_order c) ls st T tr E ET).
  apply empty_queue_drained. apply HQ. apply nth_error_Some. congruence.
Qed.

(* the hypothesis of the two theorems above is inhabited: a small trace of the real code (legacy subsystem: one event,
   one decorator with decorator kwargs, the body fires one event) *)
Definition ex_case : ecase :=
  {| ec_legacy := true;
     ec_trigs := [ {| t_func := 100; t_dm := 100; t_epochs := [0%N]; t_kind := KEvent; t_key := 20; t_filter := Some (FCmp CmpEq 24 (VInt 1)); t_kwargs := [(25%N, VInt 5)] |} ];
     ec_order := [];
     ec_scripts := [(100%N, [SSleep; SFire 21 [(22%N, VInt 1)] CNone])];
     ec_obs := [ OBus {| o_kind := KEvent; o_key := 20; o_epoch := 0; o_ctx := Some 1%N; o_attrs := []; o_data := [(24%N, VInt 2)]; o_opt := None |};
                 OBus {| o_kind := KEvent; o_key := 20; o_epoch := 0; o_ctx := Some 2%N; o_attrs := []; o_data := [(24%N, VInt 1)]; o_opt := None |};
                 ORunning 0 100 [(1%N, VStr 4); (2%N, VStr 20); (3%N, VCtx 2); (24%N, VInt 1); (25%N, VInt 5)] {| c_id := 3; c_parent := Some 2%N |};
                 OBegin 1 100 [(25%N, VInt 5); (1%N, VStr 4); (2%N, VStr 20); (3%N, VCtx 2); (24%N, VInt 1)] {| c_id := 3; c_parent := Some 2%N |};
                 OFire 1 1 21 [(13%N, VInt 1); (14%N, VInt 1); (22%N, VInt 1)] {| c_id := 3; c_parent := Some 2%N |} 0 ] |}.

Example model_ok_example : ecase_model_ok all_off ex_case = true /\ ecase_spec_ok ex_case = true /\
                           length (ecase_path all_off ex_case) = 6%nat.
Proof. vm_compute. repeat split. Qed.
