(* Proofs/TaskUnique.v — invariants of the task.unique transition system (Task/Unique.v), proved by induction
   over arbitrary label sequences (= all interleavings of any number of tasks), and soundness of the trace
   validator's path construction (Task/UniqueCheck.v). *)
From PV Require Import Common.Util Gen.UniqueConsts Task.Unique Task.UniqueCheck.
From Coq Require Import String Ascii.
Import List ListNotations.
Local Open Scope list_scope.

(* ---------- booleans <-> propositions ---------- *)
Lemma key_eqb_eq a b : key_eqb a b = true <-> a = b.
Proof.
  destruct a as [a1 a2], b as [b1 b2]. unfold key_eqb; cbn [fst snd].
  rewrite andb_true_iff, !String.eqb_eq. split; [intros [-> ->]; reflexivity|intros E; inversion E; auto].
Qed.
Lemma key_eqb_refl a : key_eqb a a = true.
Proof. apply key_eqb_eq; reflexivity. Qed.
Lemma key_eqb_neq a b : key_eqb a b = false <-> a <> b.
Proof.
  split.
  - intros H E. apply key_eqb_eq in E. congruence.
  - intros H. destruct (key_eqb a b) eqn:E; [apply key_eqb_eq in E; contradiction|reflexivity].
Qed.
Lemma key_eqb_sym a b : key_eqb a b = key_eqb b a.
Proof.
  destruct (key_eqb a b) eqn:E.
  - apply key_eqb_eq in E; subst. symmetry; apply key_eqb_refl.
  - symmetry. apply key_eqb_neq. apply key_eqb_neq in E. congruence.
Qed.

Lemma memN_In t l : memN t l = true <-> In t l.
Proof.
  unfold memN. rewrite existsb_exists. split.
  - intros (x & Hx & E). apply N.eqb_eq in E; subst; assumption.
  - intros H. exists t. split; [assumption|apply N.eqb_refl].
Qed.
Lemma memN_nIn t l : memN t l = false <-> ~ In t l.
Proof.
  split.
  - intros H I. apply memN_In in I. congruence.
  - intros H. destruct (memN t l) eqn:E; [apply memN_In in E; contradiction|reflexivity].
Qed.
Lemma In_removeN x t l : In x (removeN t l) <-> In x l /\ x <> t.
Proof.
  unfold removeN. rewrite filter_In, negb_true_iff, N.eqb_neq. tauto.
Qed.

(* ---------- association lists ---------- *)
Lemma lookup_remove_key_eq k m : lookup k (remove_key k m) = None.
Proof.
  induction m as [|[k' t] m IH]; cbn; [reflexivity|].
  destruct (key_eqb k' k) eqn:E; cbn; [assumption|]. rewrite E. assumption.
Qed.
Lemma lookup_remove_key_neq k k' m : k' <> k -> lookup k' (remove_key k m) = lookup k' m.
Proof.
  intros N. induction m as [|[k0 t] m IH]; cbn; [reflexivity|].
  destruct (key_eqb k0 k) eqn:E; cbn.
  - apply key_eqb_eq in E; subst. destruct (key_eqb k k') eqn:E2; [apply key_eqb_eq in E2; congruence|assumption].
  - destruct (key_eqb k0 k'); [reflexivity|assumption].
Qed.
Lemma lookup_upd_eq k t m : lookup k (upd k t m) = Some t.
Proof. unfold upd; cbn. rewrite key_eqb_refl. reflexivity. Qed.
Lemma lookup_upd_neq k k' t m : k' <> k -> lookup k' (upd k t m) = lookup k' m.
Proof.
  intros N. unfold upd; cbn. destruct (key_eqb k k') eqn:E; [apply key_eqb_eq in E; congruence|].
  apply lookup_remove_key_neq; assumption.
Qed.
Lemma mem_key_In k ks : mem_key k ks = true <-> In k ks.
Proof.
  unfold mem_key. rewrite existsb_exists. split.
  - intros (x & Hx & E). apply key_eqb_eq in E; subst; assumption.
  - intros H. exists k. split; [assumption|apply key_eqb_refl].
Qed.
Lemma lookup_remove_keys k ks m :
  lookup k (remove_keys ks m) = if mem_key k ks then None else lookup k m.
Proof.
  unfold remove_keys.
  induction m as [|[k0 t] m IH]; cbn [filter lookup fst]; [destruct (mem_key k ks); reflexivity|].
  destruct (mem_key k0 ks) eqn:M; cbn [negb lookup].
  - rewrite IH. destruct (key_eqb k0 k) eqn:E; [|reflexivity].
    apply key_eqb_eq in E; subst. rewrite M. reflexivity.
  - rewrite IH. destruct (key_eqb k0 k) eqn:E; [|reflexivity].
    apply key_eqb_eq in E; subst. rewrite M. reflexivity.
Qed.

Lemma In_remove_pair p t k r : In p (remove_pair t k r) <-> In p r /\ p <> (t, k).
Proof.
  unfold remove_pair. rewrite filter_In, negb_true_iff. unfold pair_is.
  destruct p as [t' k']; cbn [fst snd]. split; intros [H1 H2]; split; try assumption.
  - intros E; inversion E; subst. rewrite N.eqb_refl, key_eqb_refl in H2. discriminate.
  - destruct (N.eqb t' t) eqn:E1; [|reflexivity]. destruct (key_eqb k' k) eqn:E2; [|reflexivity].
    apply N.eqb_eq in E1. apply key_eqb_eq in E2. subst. contradiction.
Qed.
Lemma In_keys_of k t r : In k (keys_of t r) <-> In (t, k) r.
Proof.
  unfold keys_of. rewrite in_map_iff. split.
  - intros ([t' k'] & E & H). cbn in E; subst. apply filter_In in H. destruct H as [H E]. cbn in E.
    apply N.eqb_eq in E; subst. assumption.
  - intros H. exists (t, k). split; [reflexivity|]. apply filter_In. split; [assumption|cbn; apply N.eqb_refl].
Qed.
Lemma In_remove_task p t r : In p (remove_task t r) <-> In p r /\ fst p <> t.
Proof. unfold remove_task. rewrite filter_In, negb_true_iff, N.eqb_neq. tauto. Qed.

(* ---------- the reaper's drain ---------- *)
Lemma drain_spec lv q : forall q' b, drain lv q = (q', b) ->
  (forall t, In t q' -> In t q) /\
  (forall t, b = Some t -> In t q /\ In t lv) /\
  (forall t, In t q -> In t lv -> In t q' \/ b = Some t).
Proof.
  induction q as [|x q IH]; intros q' b H; cbn in H.
  - inversion H; subst. repeat split; intros; try discriminate; try contradiction.
  - destruct (memN x lv) eqn:M.
    + inversion H; subst. repeat split.
      * intros t I; right; assumption.
      * inversion H0; subst. left; reflexivity.
      * inversion H0; subst. apply memN_In; assumption.
      * intros t [->|I] L; [right; reflexivity|left; assumption].
    + destruct (IH _ _ H) as (A & B & C). repeat split.
      * intros t I; right; apply A; assumption.
      * right. apply (B t H0).
      * apply (B t H0).
      * intros t [->|I] L; [apply memN_nIn in M; contradiction|apply C; assumption].
Qed.

(* ==================================================================================================== *)
(* the invariant                                                                                         *)
(* ==================================================================================================== *)
Definition cancel_pending (s : ustate) (t : task) : Prop := In t (rq s) \/ busy s = Some t.

Record Inv (s : ustate) : Prop := {
  inv_maps : forall k t, lookup k (n2t s) = Some t <-> In (t, k) (t2n s);
  inv_owner_ours : forall k t, lookup k (n2t s) = Some t -> In t (ours s);
  inv_ours_live : forall t, In t (ours s) -> In t (live s);
  inv_live_started : forall t, In t (live s) -> In t (started s);
  inv_claimed_started : forall k t, In (k, t) (claimed s) -> In t (started s);
  inv_claim : forall k t, In (k, t) (claimed s) -> In t (live s) -> lookup k (n2t s) = Some t \/ cancel_pending s t;
  inv_rq_started : forall t, cancel_pending s t -> In t (started s);
  inv_rq : forall t, cancel_pending s t -> In t (live s) -> In t (ours s) \/ In t (waiting s);
  inv_waiting : forall t, In t (waiting s) -> In t (live s) /\ cancel_pending s t
}.

Lemma Inv_init : Inv init_state.
Proof.
  constructor; unfold cancel_pending; cbn; intros; try tauto; try discriminate.
  - split; [discriminate|tauto].
  - destruct H; [tauto|discriminate].
Qed.

(* ---------- start ---------- *)
Lemma Inv_start s t o : Inv s -> ~ In t (started s) -> Inv (start s t o).
Proof.
  intros I F. destruct I. constructor; unfold cancel_pending in *; cbn [start n2t t2n ours rq busy live started waiting admitted claimed].
  - assumption.
  - intros k t' H. destruct o; [right|]; eauto.
  - intros t' H. destruct o.
    + destruct H as [->|H]; [left; reflexivity|right; auto].
    + right; auto.
  - intros t' [->|H]; [left; reflexivity|right; auto].
  - intros k t' H. right; eauto.
  - intros k t' H [->|L].
    + exfalso. apply F. eauto.
    + auto.
  - intros t' H. right; auto.
  - intros t' H [->|L].
    + exfalso. apply F. auto.
    + destruct (inv_rq0 t' H L) as [A|A]; [left; destruct o; [right|]; assumption|right; assumption].
  - intros t' H. destruct (inv_waiting0 t' H) as [A B]. split; [right; assumption|assumption].
Qed.

(* ---------- claim ---------- *)
Lemma claim_noop s t k : ~ In t (ours s) -> claim s t k = s.
Proof. intros H. unfold claim. apply memN_nIn in H. rewrite H. reflexivity. Qed.

Lemma claim_fields s t k :
  ours (claim s t k) = ours s /\ rq (claim s t k) = rq s /\ busy (claim s t k) = busy s /\ live (claim s t k) = live s
  /\ started (claim s t k) = started s /\ waiting (claim s t k) = waiting s /\ admitted (claim s t k) = admitted s.
Proof. unfold claim. destruct (memN t (ours s)); cbn; repeat split; reflexivity. Qed.

Lemma claim_lookup_eq s t k : In t (ours s) -> lookup k (n2t (claim s t k)) = Some t.
Proof. intros H. unfold claim. apply memN_In in H. rewrite H. cbn. apply lookup_upd_eq. Qed.
Lemma claim_lookup_neq s t k k' : k' <> k -> lookup k' (n2t (claim s t k)) = lookup k' (n2t s).
Proof.
  intros N. unfold claim. destruct (memN t (ours s)); [|reflexivity]. cbn. apply lookup_upd_neq; assumption.
Qed.

(* the part of the invariant that does not mention the reaper, preserved by claim *)
Lemma claim_maps s t k :
  (forall k0 t0, lookup k0 (n2t s) = Some t0 <-> In (t0, k0) (t2n s)) ->
  forall k0 t0, lookup k0 (n2t (claim s t k)) = Some t0 <-> In (t0, k0) (t2n (claim s t k)).
Proof.
  intros M k0 t0. unfold claim. destruct (memN t (ours s)) eqn:O; [|apply M]. cbn [set_maps n2t t2n].
  destruct (key_eqb k0 k) eqn:E.
  - apply key_eqb_eq in E; subst k0. rewrite lookup_upd_eq. split.
    + intros H; inversion H; subst. left; reflexivity.
    + intros [H|H]; [inversion H; reflexivity|].
      exfalso. apply In_remove_pair in H. destruct H as [H N].
      assert (H' : In (t0, k) (t2n s)).
      { destruct (lookup k (n2t s)) eqn:L; [apply In_remove_pair in H; tauto|assumption]. }
      apply M in H'. rewrite H' in H. apply In_remove_pair in H. destruct H as [_ H]. congruence.
  - apply key_eqb_neq in E. rewrite lookup_upd_neq by assumption. rewrite M. split.
    + intros H. right. apply In_remove_pair. split; [|intros X; inversion X; congruence].
      destruct (lookup k (n2t s)); [apply In_remove_pair; split; [assumption|intros X; inversion X; congruence]|assumption].
    + intros [H|H]; [inversion H; congruence|]. apply In_remove_pair in H. destruct H as [H _].
      destruct (lookup k (n2t s)); [apply In_remove_pair in H; tauto|assumption].
Qed.

Lemma Inv_claim s t k :
  Inv s -> In t (live s) ->
  (forall o, lookup k (n2t s) = Some o -> o <> t -> cancel_pending s o) ->
  Inv (claim s t k).
Proof.
  intros I L P. destruct (memN t (ours s)) eqn:O.
  2:{ rewrite claim_noop; [assumption|apply memN_nIn; assumption]. }
  apply memN_In in O.
  pose proof (claim_maps s t k (inv_maps s I)) as M.
  destruct I. unfold cancel_pending in *.
  assert (C : claimed (claim s t k) = (k, t) :: claimed s).
  { unfold claim. apply memN_In in O. rewrite O. reflexivity. }
  destruct (claim_fields s t k) as (E1 & E2 & E3 & E4 & E5 & E6 & E7).
  constructor; unfold cancel_pending; rewrite ?E1, ?E2, ?E3, ?E4, ?E5, ?E6, ?E7, ?C; try assumption.
  - intros k0 t0 H. destruct (key_eqb k0 k) eqn:E.
    + apply key_eqb_eq in E; subst. rewrite claim_lookup_eq in H by assumption. inversion H; subst; assumption.
    + apply key_eqb_neq in E. rewrite claim_lookup_neq in H by assumption. eauto.
  - intros k0 t0 [H|H]; [inversion H; subst; auto|eauto].
  - intros k0 t0 [H|H] L0.
    + inversion H; subst. left. apply claim_lookup_eq; assumption.
    + destruct (key_eqb k0 k) eqn:E.
      * apply key_eqb_eq in E; subst. rewrite claim_lookup_eq by assumption.
        destruct (N.eq_dec t0 t) as [->|N]; [left; reflexivity|].
        destruct (inv_claim0 _ _ H L0) as [A|A]; [right; apply (P t0 A N)|right; assumption].
      * apply key_eqb_neq in E. rewrite claim_lookup_neq by assumption. auto.
Qed.

Lemma Inv_enqueue s t :
  Inv s -> In t (live s) -> In t (ours s) \/ In t (waiting s) -> Inv (enqueue s t).
Proof.
  intros I L W. destruct I. unfold cancel_pending in *.
  constructor; unfold cancel_pending; cbn [enqueue n2t t2n ours rq busy live started waiting admitted claimed]; try assumption.
  - intros k t0 H L0. destruct (inv_claim0 _ _ H L0) as [A|[A|A]]; [left; assumption|right; left; apply in_or_app; left; assumption|right; right; assumption].
  - intros t0 [H|H]; [|auto]. apply in_app_or in H. destruct H as [H|[->|[]]]; auto.
  - intros t0 [H|H] L0; [|auto]. apply in_app_or in H. destruct H as [H|[->|[]]]; auto.
  - intros t0 H. destruct (inv_waiting0 _ H) as [A [B|B]]; split; auto. left; apply in_or_app; left; assumption.
Qed.

Lemma Inv_suspend s t :
  Inv s -> In t (live s) -> Inv (set_waiting (enqueue s t) (t :: waiting s)).
Proof.
  intros I L. destruct I. unfold cancel_pending in *.
  constructor; unfold cancel_pending; cbn [set_waiting enqueue n2t t2n ours rq busy live started waiting admitted claimed]; try assumption.
  - intros k t0 H L0. destruct (inv_claim0 _ _ H L0) as [A|[A|A]]; [left; assumption|right; left; apply in_or_app; left; assumption|right; right; assumption].
  - intros t0 [H|H]; [|auto]. apply in_app_or in H. destruct H as [H|[->|[]]]; auto.
  - intros t0 [H|H] L0.
    + apply in_app_or in H. destruct H as [H|[->|[]]].
      * destruct (inv_rq0 t0 (or_introl H) L0); [left; assumption|right; right; assumption].
      * right; left; reflexivity.
    + destruct (inv_rq0 t0 (or_intror H) L0); [left; assumption|right; right; assumption].
  - intros t0 [->|H].
    + split; [assumption|left; apply in_or_app; right; left; reflexivity].
    + destruct (inv_waiting0 _ H) as [A [B|B]]; split; auto. left; apply in_or_app; left; assumption.
Qed.

Lemma enqueue_maps s t : n2t (enqueue s t) = n2t s /\ live (enqueue s t) = live s /\ ours (enqueue s t) = ours s.
Proof. repeat split. Qed.

Lemma Inv_do_unique cfg s t ctx name km : Inv s -> In t (live s) -> Inv (do_unique cfg s t ctx name km).
Proof.
  intros I L. unfold do_unique. set (k := key_of cfg ctx name).
  destruct (lookup k (n2t s)) as [o|] eqn:Lk.
  - destruct km.
    + destruct (N.eqb o t) eqn:E.
      * apply N.eqb_eq in E; subst. apply Inv_claim; try assumption. intros o H N. rewrite Lk in H. inversion H; congruence.
      * apply Inv_suspend; assumption.
    + destruct (negb (N.eqb o t) && memN o (ours s)) eqn:C.
      * apply andb_true_iff in C. destruct C as [C1 C2]. apply memN_In in C2.
        apply Inv_claim.
        -- apply Inv_enqueue; [assumption| |left; assumption]. apply (inv_ours_live s I); assumption.
        -- assumption.
        -- cbn [enqueue n2t]. intros o' H N. rewrite Lk in H. inversion H; subst.
           left. cbn [enqueue rq]. apply in_or_app; right; left; reflexivity.
      * apply Inv_claim; try assumption. intros o' H N. rewrite Lk in H. inversion H; subst.
        exfalso. apply andb_false_iff in C. destruct C as [C|C].
        -- apply negb_false_iff, N.eqb_eq in C. congruence.
        -- apply memN_nIn in C. apply C. apply (inv_owner_ours s I k); assumption.
  - apply Inv_claim; try assumption. intros o H. rewrite Lk in H. discriminate.
Qed.

Lemma Inv_reaper s : Inv s -> reaper_ready s = true -> Inv (do_reaper s).
Proof.
  intros I R. unfold do_reaper. destruct (drain (live s) (rq s)) as [q b] eqn:D.
  destruct (drain_spec _ _ _ _ D) as (A & B & C).
  assert (P : forall t, In t (live s) -> cancel_pending s t -> In t q \/ b = Some t).
  { intros t L [H|H]; [apply C; assumption|].
    unfold reaper_ready in R. rewrite H in R. apply negb_true_iff, memN_nIn in R. contradiction. }
  assert (Q : forall t, In t q \/ b = Some t -> cancel_pending s t).
  { intros t [H|H]; left; [apply A; assumption|apply (B t H)]. }
  destruct I. constructor; unfold cancel_pending in *; cbn [set_reaper n2t t2n ours rq busy live started waiting admitted claimed]; try assumption.
  - intros k t H L. destruct (inv_claim0 _ _ H L) as [X|X]; [left; assumption|right; apply P; assumption].
  - intros t H. apply inv_rq_started0. apply Q; assumption.
  - intros t H L. apply inv_rq0; [apply Q|]; assumption.
  - intros t H. destruct (inv_waiting0 _ H) as [X Y]. split; [assumption|apply P; assumption].
Qed.

Lemma Inv_exit s t : Inv s -> In t (live s) -> Inv (do_exit s t).
Proof.
  intros I L. destruct I. unfold cancel_pending in *.
  assert (K : forall k, mem_key k (keys_of t (t2n s)) = true <-> lookup k (n2t s) = Some t).
  { intros k. rewrite mem_key_In, In_keys_of, inv_maps0. tauto. }
  assert (LK : forall k t', lookup k (remove_keys (keys_of t (t2n s)) (n2t s)) = Some t' <-> lookup k (n2t s) = Some t' /\ t' <> t).
  { intros k t'. rewrite lookup_remove_keys. destruct (mem_key k (keys_of t (t2n s))) eqn:M.
    - apply K in M. split; [discriminate|]. intros [H N]. congruence.
    - split; [|tauto]. intros H; split; [assumption|]. intros ->. apply K in H. congruence. }
  constructor; unfold cancel_pending; cbn [do_exit n2t t2n ours rq busy live started waiting admitted claimed]; try assumption.
  - intros k t'. rewrite LK, In_remove_task, inv_maps0. cbn [fst]. tauto.
  - intros k t' H. apply LK in H. destruct H as [H N]. apply In_removeN. split; [eauto|assumption].
  - intros t' H. apply In_removeN in H. destruct H as [H N]. apply In_removeN. split; [auto|assumption].
  - intros t' H. apply In_removeN in H. destruct H as [H N]. auto.
  - intros k t' H L'. apply In_removeN in L'. destruct L' as [L' N].
    destruct (inv_claim0 _ _ H L') as [A|A]; [left; apply LK; split; assumption|right; assumption].
  - intros t' H L'. apply In_removeN in L'. destruct L' as [L' N].
    destruct (inv_rq0 _ H L') as [A|A]; [left|right]; apply In_removeN; split; assumption.
  - intros t' H. apply In_removeN in H. destruct H as [H N]. destruct (inv_waiting0 _ H) as [A B].
    split; [apply In_removeN; split; assumption|assumption].
Qed.

Lemma Inv_set_admitted s a : Inv s -> Inv (set_admitted s a).
Proof. intros I. destruct I. constructor; assumption. Qed.
Lemma Inv_set_started s t : Inv s -> Inv (set_started s (t :: started s)).
Proof.
  intros I. destruct I. constructor; unfold cancel_pending in *; cbn [set_started n2t t2n ours rq busy live started waiting admitted claimed]; try assumption.
  - intros t' H; right; auto.
  - intros k t' H; right; eauto.
  - intros t' H; right; auto.
Qed.

Theorem Inv_step cfg s l s' : Inv s -> ustep cfg s l = Some s' -> Inv s'.
Proof.
  intros I H. destruct l as [t o|t ctx name km| |t c|t ctx name km lg|t ctx name km lg|t]; cbn [ustep] in H.
  - destruct (memN t (started s) || memN t (admitted s)) eqn:E; [discriminate|]. inversion H; subst.
    apply orb_false_iff in E. destruct E as [E _]. apply Inv_start; [assumption|apply memN_nIn; assumption].
  - destruct (memN t (live s) && negb (memN t (waiting s))) eqn:E; [|discriminate]. inversion H; subst.
    apply andb_true_iff in E. destruct E as [E _]. apply Inv_do_unique; [assumption|apply memN_In; assumption].
  - destruct (reaper_ready s) eqn:E; [|discriminate]. inversion H; subst. apply Inv_reaper; assumption.
  - destruct (memN t (live s) && Bool.eqb c (is_busy s t)) eqn:E; [|discriminate]. inversion H; subst.
    apply andb_true_iff in E. destruct E as [E _]. apply Inv_exit; [assumption|apply memN_In; assumption].
  - destruct (memN t (started s) || memN t (admitted s)); [discriminate|].
    destruct (precheck cfg lg && km && used cfg s ctx name); inversion H; subst.
    + apply Inv_set_started; assumption.
    + apply Inv_set_admitted; assumption.
  - destruct (memN t (admitted s) && negb (memN t (started s))) eqn:E; [|discriminate].
    apply andb_true_iff in E. destruct E as [_ E]. apply negb_true_iff, memN_nIn in E.
    destruct (negb (precheck cfg lg) && km && used cfg s ctx name); inversion H; subst.
    + apply (Inv_set_started (set_admitted s (removeN t (admitted s)))). apply Inv_set_admitted; assumption.
    + apply Inv_do_unique.
      * apply Inv_start; [apply Inv_set_admitted; assumption|assumption].
      * left; reflexivity.
  - destruct (memN t (live s) && negb (memN t (waiting s))); inversion H; subst; assumption.
Qed.

Lemma Inv_run_from cfg ls : forall s s', Inv s -> run_from cfg s ls = Some s' -> Inv s'.
Proof.
  induction ls as [|l ls IH]; intros s s' I H; cbn in H.
  - inversion H; subst; assumption.
  - unfold run_from in H. cbn [fold_left_opt] in H. destruct (ustep cfg s l) as [s1|] eqn:E; [|discriminate].
    apply (IH s1); [eapply Inv_step; eassumption|assumption].
Qed.

Theorem Inv_run cfg ls s : run cfg ls = Some s -> Inv s.
Proof. intros H. apply (Inv_run_from cfg ls init_state); [apply Inv_init|assumption]. Qed.

(* ==================================================================================================== *)
(* property lemmas                                                                                       *)
(* ==================================================================================================== *)

(* ---------- C13_maps_inverse ---------- *)
Lemma maps_inverse_run cfg ls s : run cfg ls = Some s ->
  forall k t, lookup k (n2t s) = Some t <-> In (t, k) (t2n s).
Proof. intros H. apply inv_maps. eapply Inv_run; eassumption. Qed.

(* ---------- frame of task.unique: only the claimed key changes, only the caller or the owner is queued ---------- *)
Lemma do_unique_lookup_neq cfg s t ctx name km k' :
  k' <> key_of cfg ctx name -> lookup k' (n2t (do_unique cfg s t ctx name km)) = lookup k' (n2t s).
Proof.
  intros N. unfold do_unique. destruct (lookup (key_of cfg ctx name) (n2t s)) as [o|].
  - destruct km.
    + destruct (N.eqb o t); [apply claim_lookup_neq; assumption|reflexivity].
    + rewrite claim_lookup_neq by assumption. destruct (negb (N.eqb o t) && memN o (ours s)); reflexivity.
  - apply claim_lookup_neq; assumption.
Qed.

Lemma claim_rq s t k : rq (claim s t k) = rq s.
Proof. apply claim_fields. Qed.

Lemma do_unique_rq cfg s t ctx name km x :
  In x (rq (do_unique cfg s t ctx name km)) ->
  In x (rq s)
  \/ (x = t /\ km = true /\ exists o, lookup (key_of cfg ctx name) (n2t s) = Some o /\ o <> t)
  \/ (lookup (key_of cfg ctx name) (n2t s) = Some x /\ x <> t /\ km = false /\ In x (ours s)).
Proof.
  unfold do_unique. destruct (lookup (key_of cfg ctx name) (n2t s)) as [o|] eqn:L.
  - destruct km.
    + destruct (N.eqb o t) eqn:E.
      * rewrite claim_rq. auto.
      * cbn [set_waiting enqueue rq]. intros H. apply in_app_or in H. destruct H as [H|[<-|[]]]; [auto|].
        right; left. split; [reflexivity|split; [reflexivity|]]. exists o. split; [reflexivity|]. apply N.eqb_neq; assumption.
    + rewrite claim_rq. destruct (negb (N.eqb o t) && memN o (ours s)) eqn:C; [|auto].
      cbn [enqueue rq]. intros H. apply in_app_or in H. destruct H as [H|[<-|[]]]; [auto|].
      apply andb_true_iff in C. destruct C as [C1 C2]. right; right.
      split; [reflexivity|split; [apply N.eqb_neq, negb_true_iff; assumption|split; [reflexivity|apply memN_In; assumption]]].
  - rewrite claim_rq. auto.
Qed.

(* ---------- C13_claim ---------- *)
Lemma unique_claims cfg ls s t ctx name s' :
  run cfg ls = Some s -> ustep cfg s (UUnique t ctx name false) = Some s' -> In t (ours s) ->
  owner cfg s' ctx name = Some t
  /\ (forall o, owner cfg s ctx name = Some o -> o <> t -> In o (rq s'))
  /\ (forall t', In (key_of cfg ctx name, t') (claimed s') -> In t' (live s') -> t' <> t -> cancel_pending s' t').
Proof.
  intros R H O. pose proof (Inv_run _ _ _ R) as I.
  assert (I' : Inv s') by (eapply Inv_step; eassumption).
  cbn [ustep] in H. destruct (memN t (live s) && negb (memN t (waiting s))); [|discriminate]. inversion H; subst; clear H.
  assert (OW : owner cfg (do_unique cfg s t ctx name false) ctx name = Some t).
  { unfold owner, do_unique. destruct (lookup (key_of cfg ctx name) (n2t s)) as [o|].
    - apply claim_lookup_eq. destruct (negb (N.eqb o t) && memN o (ours s)); assumption.
    - apply claim_lookup_eq; assumption. }
  split; [assumption|split].
  - intros o Ho N. unfold owner in Ho. unfold do_unique. rewrite Ho. rewrite claim_rq.
    assert (In o (ours s)) as Oo by (eapply inv_owner_ours; eassumption).
    apply memN_In in Oo. rewrite Oo. apply N.eqb_neq in N. rewrite N. cbn [negb andb enqueue rq].
    apply in_or_app; right; left; reflexivity.
  - intros t' C L N. destruct (inv_claim _ I' _ _ C L) as [A|A]; [|assumption].
    unfold owner in OW. rewrite OW in A. inversion A; congruence.
Qed.

(* at most one live owner per name: of all the live tasks that ever claimed a key, only its current owner is not
   about to be cancelled *)
Lemma one_live_owner cfg ls s k t1 t2 :
  run cfg ls = Some s -> In (k, t1) (claimed s) -> In (k, t2) (claimed s) -> In t1 (live s) -> In t2 (live s) ->
  ~ cancel_pending s t1 -> ~ cancel_pending s t2 -> t1 = t2 /\ lookup k (n2t s) = Some t1.
Proof.
  intros R C1 C2 L1 L2 P1 P2. pose proof (Inv_run _ _ _ R) as I.
  destruct (inv_claim _ I _ _ C1 L1) as [A|A]; [|contradiction].
  destruct (inv_claim _ I _ _ C2 L2) as [B|B]; [|contradiction].
  split; [congruence|assumption].
Qed.

(* ---------- C13_kill_me ---------- *)
Lemma kill_me_blocked cfg s t ctx name s' o :
  ustep cfg s (UUnique t ctx name true) = Some s' -> owner cfg s ctx name = Some o -> o <> t ->
  n2t s' = n2t s /\ t2n s' = t2n s /\ ours s' = ours s /\ live s' = live s /\ rq s' = rq s ++ [t] /\ In t (waiting s').
Proof.
  intros H Ho N. cbn [ustep] in H. destruct (memN t (live s) && negb (memN t (waiting s))); [|discriminate].
  inversion H; subst; clear H. unfold owner in Ho. unfold do_unique. rewrite Ho.
  apply N.eqb_neq in N. rewrite N. cbn. repeat split; auto.
Qed.

Lemma kill_me_free cfg s t ctx name s' :
  ustep cfg s (UUnique t ctx name true) = Some s' -> In t (ours s) ->
  (owner cfg s ctx name = None \/ owner cfg s ctx name = Some t) ->
  owner cfg s' ctx name = Some t /\ rq s' = rq s /\ waiting s' = waiting s.
Proof.
  intros H O Ho. cbn [ustep] in H. destruct (memN t (live s) && negb (memN t (waiting s))); [|discriminate].
  inversion H; subst; clear H. unfold owner in *. unfold do_unique.
  destruct Ho as [Ho|Ho]; rewrite Ho; [|rewrite N.eqb_refl];
    (split; [apply claim_lookup_eq; assumption|split; apply claim_fields]).
Qed.

Lemma waiting_pending cfg ls s t : run cfg ls = Some s -> In t (waiting s) -> In t (live s) /\ cancel_pending s t.
Proof. intros R H. eapply inv_waiting; [eapply Inv_run; eassumption|assumption]. Qed.

Lemma waiting_stuck cfg s t ctx name km : In t (waiting s) ->
  ustep cfg s (UUnique t ctx name km) = None /\ ustep cfg s (UNop t) = None.
Proof.
  intros H. apply memN_In in H. cbn [ustep]. rewrite H. cbn [negb]. rewrite andb_false_r. split; reflexivity.
Qed.

(* ---------- @task_unique: the same rule, applied before the body starts ---------- *)
Lemma used_start cfg s t o ctx name : used cfg (start s t o) ctx name = used cfg s ctx name.
Proof. reflexivity. Qed.

Lemma dec_start_rule cfg ls s t ctx name km lg s' :
  run cfg ls = Some s -> precheck cfg lg = false ->
  ustep cfg s (UDecStart t ctx name km lg) = Some s' ->
  (km = true -> used cfg s ctx name = true ->
     n2t s' = n2t s /\ t2n s' = t2n s /\ rq s' = rq s /\ live s' = live s /\ ~ In t (live s'))
  /\ (km && used cfg s ctx name = false ->
     exists s1, ustep cfg (set_admitted s (removeN t (admitted s))) (UStart t true) = Some s1
                /\ ustep cfg s1 (UUnique t ctx name km) = Some s').
Proof.
  intros R PC H. pose proof (Inv_run _ _ _ R) as I. cbn [ustep] in H. rewrite PC in H. cbn [negb andb] in H.
  destruct (memN t (admitted s) && negb (memN t (started s))) eqn:E; [|discriminate].
  apply andb_true_iff in E. destruct E as [_ E]. apply negb_true_iff in E.
  assert (NL : ~ In t (live s)).
  { intros L. apply (inv_live_started _ I) in L. apply memN_nIn in E. contradiction. }
  split.
  - intros -> U. rewrite U in H. cbn in H. inversion H; subst; clear H. cbn. repeat split; auto.
  - intros KU. replace (km && used cfg s ctx name) with false in H by (symmetry; assumption).
    inversion H; subst; clear H.
    exists (start (set_admitted s (removeN t (admitted s))) t true). split.
    + cbn [ustep]. cbn [set_admitted started admitted]. rewrite E.
      assert (memN t (removeN t (admitted s)) = false) as ->.
      { apply memN_nIn. intros X. apply In_removeN in X. destruct X; congruence. }
      reflexivity.
    + cbn [ustep]. cbn [start live waiting set_admitted]. unfold memN at 1. cbn [existsb]. rewrite N.eqb_refl. cbn [orb andb].
      assert (memN t (waiting s) = false) as ->.
      { apply memN_nIn. intros X. apply (inv_waiting _ I) in X. destruct X; contradiction. }
      cbn [negb]. f_equal. destruct km; [|reflexivity]. cbn [andb] in KU.
      unfold do_unique. unfold used in KU. cbn [start n2t set_admitted] in *.
      destruct (lookup (key_of cfg ctx name) (n2t s)); [discriminate|reflexivity].
Qed.

(* ---------- C13_multi_names ---------- *)
Lemma unique_keeps_other_names cfg s t ctx name km s' :
  ustep cfg s (UUnique t ctx name km) = Some s' ->
  forall k', k' <> key_of cfg ctx name -> lookup k' (n2t s') = lookup k' (n2t s).
Proof.
  intros H k' N. cbn [ustep] in H. destruct (memN t (live s) && negb (memN t (waiting s))); [|discriminate].
  inversion H; subst. apply do_unique_lookup_neq; assumption.
Qed.

(* ---------- C13_release_on_exit ---------- *)
Lemma exit_releases cfg ls s t c s' :
  run cfg ls = Some s -> ustep cfg s (UExit t c) = Some s' ->
  (forall k, lookup k (n2t s') <> Some t)
  /\ (forall k t', t' <> t -> (lookup k (n2t s') = Some t' <-> lookup k (n2t s) = Some t'))
  /\ ~ In t (live s') /\ ~ In t (ours s').
Proof.
  intros R H. pose proof (Inv_run _ _ _ R) as I. cbn [ustep] in H.
  destruct (memN t (live s) && Bool.eqb c (is_busy s t)); [|discriminate]. inversion H; subst; clear H.
  assert (K : forall k, mem_key k (keys_of t (t2n s)) = true <-> lookup k (n2t s) = Some t).
  { intros k. rewrite mem_key_In, In_keys_of, (inv_maps _ I). tauto. }
  cbn [do_exit n2t live ours]. repeat split.
  - intros k. rewrite lookup_remove_keys. destruct (mem_key k (keys_of t (t2n s))) eqn:M; [discriminate|].
    intros X. apply K in X. congruence.
  - rewrite lookup_remove_keys. destruct (mem_key k (keys_of t (t2n s))) eqn:M; [discriminate|auto].
  - intros X. rewrite lookup_remove_keys. destruct (mem_key k (keys_of t (t2n s))) eqn:M; [|assumption].
    apply K in M. congruence.
  - intros X. apply In_removeN in X. destruct X; congruence.
  - intros X. apply In_removeN in X. destruct X; congruence.
Qed.

Lemma owner_is_live cfg ls s k t : run cfg ls = Some s -> lookup k (n2t s) = Some t -> In t (live s) /\ In t (ours s).
Proof.
  intros R H. pose proof (Inv_run _ _ _ R) as I.
  assert (In t (ours s)) by (eapply inv_owner_ours; eassumption). split; [apply (inv_ours_live _ I)|]; assumption.
Qed.

(* ---------- C13_foreign_safe ---------- *)
Lemma cancelled_exit_ours cfg ls s t s' :
  run cfg ls = Some s -> ustep cfg s (UExit t true) = Some s' -> In t (ours s) \/ In t (waiting s).
Proof.
  intros R H. pose proof (Inv_run _ _ _ R) as I. cbn [ustep] in H.
  destruct (memN t (live s)) eqn:L; [|discriminate]. cbn [andb] in H.
  destruct (is_busy s t) eqn:B; [|discriminate]. unfold is_busy in B.
  destruct (busy s) as [b|] eqn:Bs; [|discriminate]. apply N.eqb_eq in B; subst b.
  apply (inv_rq _ I); [right; assumption|apply memN_In; assumption].
Qed.

Lemma step_queues_only_ours cfg ls s l s' x :
  run cfg ls = Some s -> ustep cfg s l = Some s' -> In x (rq s') ->
  In x (rq s) \/ In x (ours s) \/ exists ctx name, l = UUnique x ctx name true.
Proof.
  intros R H X. pose proof (Inv_run _ _ _ R) as I.
  destruct l as [t o|t ctx name km| |t c|t ctx name km lg|t ctx name km lg|t]; cbn [ustep] in H.
  - destruct (memN t (started s) || memN t (admitted s)); [discriminate|]. inversion H; subst. left; exact X.
  - destruct (memN t (live s) && negb (memN t (waiting s))); [|discriminate]. inversion H; subst.
    apply do_unique_rq in X. destruct X as [X|[(-> & -> & _)|(_ & _ & _ & X)]]; eauto.
  - destruct (reaper_ready s); [|discriminate]. inversion H; subst. unfold do_reaper in X.
    destruct (drain (live s) (rq s)) as [q b] eqn:D. cbn in X. left.
    destruct (drain_spec _ _ _ _ D) as (A & _ & _). apply A; exact X.
  - destruct (memN t (live s) && Bool.eqb c (is_busy s t)); [|discriminate]. inversion H; subst. left; exact X.
  - destruct (memN t (started s) || memN t (admitted s)); [discriminate|].
    destruct (precheck cfg lg && km && used cfg s ctx name); inversion H; subst; left; exact X.
  - destruct (memN t (admitted s) && negb (memN t (started s))) eqn:E; [|discriminate].
    destruct (negb (precheck cfg lg) && km && used cfg s ctx name); inversion H; subst; [left; exact X|].
    apply do_unique_rq in X. cbn [start rq n2t ours set_admitted] in X.
    destruct X as [X|[(_ & Y & _)|(_ & N & _ & [Y|Y])]]; [auto|discriminate|congruence|auto].
  - destruct (memN t (live s) && negb (memN t (waiting s))); inversion H; subst. left; exact X.
Qed.

(* ---------- C13_contexts_disjoint ---------- *)
Lemma dot_free_cat a b : dot_free (cat a (String key_sep_char b)) = false.
Proof.
  unfold cat. induction a as [|c a IH]; cbn [String.append dot_free].
  - rewrite Ascii.eqb_refl. reflexivity.
  - rewrite IH. apply andb_false_r.
Qed.

Lemma cat_dot_inj a : forall b n1 n2, dot_free n1 = true -> dot_free n2 = true ->
  cat a (cat dot n1) = cat b (cat dot n2) -> a = b /\ n1 = n2.
Proof.
  induction a as [|c a IH]; intros [|d b] n1 n2 F1 F2 E; cbn in E.
  - inversion E; auto.
  - inversion E; subst. change (String.append b (String key_sep_char n2)) with (cat b (String key_sep_char n2)) in F1.
    rewrite dot_free_cat in F1. discriminate.
  - inversion E; subst. change (String.append a (String key_sep_char n1)) with (cat a (String key_sep_char n1)) in F2.
    rewrite dot_free_cat in F2. discriminate.
  - inversion E; subst. destruct (IH b n1 n2 F1 F2) as [-> ->]; [assumption|auto].
Qed.

Lemma key_of_inj cfg c1 n1 c2 n2 :
  d17_concat_keys cfg = false \/ (dot_free n1 = true /\ dot_free n2 = true) ->
  key_of cfg c1 n1 = key_of cfg c2 n2 -> c1 = c2 /\ n1 = n2.
Proof.
  intros H E. unfold key_of in E. destruct (d17_concat_keys cfg).
  - destruct H as [H|[F1 F2]]; [discriminate|]. inversion E. apply cat_dot_inj; assumption.
  - inversion E; auto.
Qed.

Lemma contexts_disjoint cfg s t ctx name km s' ctx' name' :
  d17_concat_keys cfg = false \/ (dot_free name = true /\ dot_free name' = true) ->
  ctx <> ctx' ->
  ustep cfg s (UUnique t ctx name km) = Some s' ->
  owner cfg s' ctx' name' = owner cfg s ctx' name'
  /\ (forall x, In x (rq s') -> In x (rq s) \/ x = t \/ owner cfg s ctx name = Some x).
Proof.
  intros D N H. split.
  - unfold owner. eapply unique_keeps_other_names; [eassumption|].
    intros E. symmetry in E. apply key_of_inj in E; [destruct E; congruence|assumption].
  - intros x X. cbn [ustep] in H. destruct (memN t (live s) && negb (memN t (waiting s))); [|discriminate].
    inversion H; subst. apply do_unique_rq in X. unfold owner. tauto.
Qed.

Lemma contexts_disjoint_dec cfg s t ctx name km lg s' ctx' name' :
  d17_concat_keys cfg = false \/ (dot_free name = true /\ dot_free name' = true) ->
  ctx <> ctx' ->
  ustep cfg s (UDecStart t ctx name km lg) = Some s' ->
  owner cfg s' ctx' name' = owner cfg s ctx' name'
  /\ (forall x, In x (rq s') -> In x (rq s) \/ owner cfg s ctx name = Some x).
Proof.
  intros D N H. cbn [ustep] in H. destruct (memN t (admitted s) && negb (memN t (started s))); [|discriminate].
  destruct (negb (precheck cfg lg) && km && used cfg s ctx name); inversion H; subst; clear H.
  - split; [reflexivity|auto].
  - split.
    + unfold owner. rewrite do_unique_lookup_neq; [reflexivity|].
      intros E. symmetry in E. apply key_of_inj in E; [destruct E; congruence|assumption].
    + intros x X. apply do_unique_rq in X. cbn [start set_admitted rq n2t] in X. unfold owner.
      destruct X as [X|[(_ & Y & _)|(Y & _)]]; [auto|discriminate|auto].
Qed.

(* what task.name2id() lists in another context is untouched (pair keys) *)
Lemma view_entry_other cfg ctx name ctx' t :
  d17_concat_keys cfg = false -> ctx <> ctx' -> view_entry cfg ctx' ((ctx, name), t) = None.
Proof.
  intros D N. unfold view_entry. rewrite D.
  destruct (String.eqb ctx ctx') eqn:E2; [apply String.eqb_eq in E2; contradiction|reflexivity].
Qed.

Lemma view_off_remove_key cfg ctx name ctx' m :
  d17_concat_keys cfg = false -> ctx <> ctx' -> view cfg ctx' (remove_key (ctx, name) m) = view cfg ctx' m.
Proof.
  intros D N. unfold view, remove_key. induction m as [|[[c k] t] m IH]; [reflexivity|].
  cbn [filter fst]. destruct (key_eqb (c, k) (ctx, name)) eqn:E; cbn [negb filter_opt].
  - apply key_eqb_eq in E. inversion E; subst. rewrite IH. rewrite view_entry_other by assumption. reflexivity.
  - rewrite IH. reflexivity.
Qed.

Lemma view_off_claim cfg s t ctx name ctx' :
  d17_concat_keys cfg = false -> ctx <> ctx' ->
  view cfg ctx' (n2t (claim s t (key_of cfg ctx name))) = view cfg ctx' (n2t s).
Proof.
  intros D N. unfold claim. destruct (memN t (ours s)); [|reflexivity]. cbn [set_maps n2t].
  unfold key_of. rewrite D. unfold upd. unfold view at 1. cbn [filter_opt].
  rewrite view_entry_other by assumption.
  apply view_off_remove_key; assumption.
Qed.

Lemma view_off_do_unique cfg s t ctx name km ctx' :
  d17_concat_keys cfg = false -> ctx <> ctx' ->
  view cfg ctx' (n2t (do_unique cfg s t ctx name km)) = view cfg ctx' (n2t s).
Proof.
  intros D N. unfold do_unique. destruct (lookup (key_of cfg ctx name) (n2t s)) as [o|].
  - destruct km.
    + destruct (N.eqb o t); [apply view_off_claim; assumption|reflexivity].
    + rewrite view_off_claim by assumption. destruct (negb (N.eqb o t) && memN o (ours s)); reflexivity.
  - apply view_off_claim; assumption.
Qed.

Lemma contexts_disjoint_view cfg s t ctx name km s' ctx' :
  d17_concat_keys cfg = false -> ctx <> ctx' ->
  ustep cfg s (UUnique t ctx name km) = Some s' -> view cfg ctx' (n2t s') = view cfg ctx' (n2t s).
Proof.
  intros D N H. cbn [ustep] in H. destruct (memN t (live s) && negb (memN t (waiting s))); [|discriminate].
  inversion H; subst. apply view_off_do_unique; assumption.
Qed.

(* ==================================================================================================== *)
(* refutations (the faithful model, switches on) and inhabitation examples                                *)
(* ==================================================================================================== *)
Local Open Scope string_scope.

Definition d17_path : list ulabel :=
  [UStart 0%N true; UUnique 0%N "scripts.a" "b.x" false; UStart 1%N true].

(* D17: task 0 of context scripts.a owns "b.x"; task 1 of context scripts.a.b claims "x": task 0 loses its name
   as reported by task.name2id in ITS context and is queued for cancellation *)
Lemma refuted_D17 : exists ls s s',
  run as_is ls = Some s
  /\ "scripts.a.b" <> "scripts.a"
  /\ ustep as_is s (UUnique 1%N "scripts.a.b" "x" false) = Some s'
  /\ owner as_is s "scripts.a" "b.x" = Some 0%N
  /\ owner as_is s' "scripts.a" "b.x" = Some 1%N
  /\ In 0%N (rq s')
  /\ view as_is "scripts.a" (n2t s') = [("b.x", 1%N)].
Proof.
  exists d17_path. eexists. eexists. split; [vm_compute; reflexivity|].
  split; [discriminate|]. split; [vm_compute; reflexivity|]. vm_compute. repeat split; auto.
Qed.

(* the same path under pair keys keeps the contexts apart *)
Example D17_off_ok : exists s s',
  run all_off d17_path = Some s /\ ustep all_off s (UUnique 1%N "scripts.a.b" "x" false) = Some s'
  /\ owner all_off s' "scripts.a" "b.x" = Some 0%N /\ rq s' = [].
Proof. eexists. eexists. split; [vm_compute; reflexivity|]. split; [vm_compute; reflexivity|]. vm_compute. auto. Qed.

Definition d130_path : list ulabel :=
  [UDispatch 1%N "scripts.a" "x" true true; UStart 0%N true; UUnique 0%N "scripts.a" "x" false].

(* D130: the legacy @task_unique("x", kill_me=True) run was admitted when "x" was free; task 0 took "x" before the run
   started; the run starts nevertheless, takes the name and task 0 is queued for cancellation *)
Lemma refuted_D130 : exists ls s s',
  run as_is ls = Some s
  /\ owner as_is s "scripts.a" "x" = Some 0%N /\ In 0%N (live s)
  /\ ustep as_is s (UDecStart 1%N "scripts.a" "x" true true) = Some s'
  /\ In 1%N (live s') /\ owner as_is s' "scripts.a" "x" = Some 1%N /\ In 0%N (rq s').
Proof.
  exists d130_path. eexists. eexists. split; [vm_compute; reflexivity|]. vm_compute. repeat split; auto.
Qed.

Example D130_off_ok : exists s s',
  run all_off d130_path = Some s /\ ustep all_off s (UDecStart 1%N "scripts.a" "x" true true) = Some s'
  /\ ~ In 1%N (live s') /\ owner all_off s' "scripts.a" "x" = Some 0%N /\ rq s' = [].
Proof.
  eexists. eexists. split; [vm_compute; reflexivity|]. split; [vm_compute; reflexivity|]. vm_compute.
  repeat split; auto. intros [H|[]]. discriminate.
Qed.

(* a task may own several names *)
Example two_names : exists s,
  run as_is [UStart 0%N true; UUnique 0%N "scripts.a" "x" false; UUnique 0%N "scripts.a" "y" true] = Some s
  /\ owner as_is s "scripts.a" "x" = Some 0%N /\ owner as_is s "scripts.a" "y" = Some 0%N.
Proof. eexists. split; [vm_compute; reflexivity|]. vm_compute. auto. Qed.

Example dot_free_inhabited : dot_free "x" = true /\ dot_free "unique_name_1" = true /\ dot_free "b.x" = false.
Proof. vm_compute. auto. Qed.

(* a contended schedule: three tasks claim the same name in the same instant, the reaper ends the first two *)
Example contended_run : exists s,
  run as_is [UStart 0%N true; UUnique 0%N "scripts.a" "x" false; UStart 1%N true; UStart 2%N true;
             UUnique 1%N "scripts.a" "x" false; UUnique 2%N "scripts.a" "x" false;
             UReaper; UExit 0%N true; UReaper; UExit 1%N true; UReaper] = Some s
  /\ owner as_is s "scripts.a" "x" = Some 2%N /\ live s = [2%N] /\ rq s = [] /\ busy s = None.
Proof. eexists. split; [vm_compute; reflexivity|]. vm_compute. auto. Qed.

Local Close Scope string_scope.

(* ==================================================================================================== *)
(* trace validation builds a path of the transition system                                               *)
(* ==================================================================================================== *)
Lemma fold_left_opt_app {S L} (f : S -> L -> option S) a : forall b s,
  fold_left_opt f (a ++ b) s = match fold_left_opt f a s with Some s' => fold_left_opt f b s' | None => None end.
Proof.
  induction a as [|x a IH]; intros b s; cbn; [reflexivity|]. destruct (f s x); [apply IH|reflexivity].
Qed.

Definition vinv (cfg : deviations) (v : vstate) : Prop := run cfg (rev (v_ls v)) = Some (v_s v).

Lemma vinv_vdo cfg v l v' : vinv cfg v -> vdo cfg v l = Some v' -> vinv cfg v'.
Proof.
  unfold vinv, vdo. intros I H. destruct (ustep cfg (v_s v) l) as [s'|] eqn:E; [|discriminate].
  inversion H; subst; clear H. cbn [v_ls v_s rev]. unfold run. rewrite fold_left_opt_app.
  unfold run in I. rewrite I. cbn. rewrite E. reflexivity.
Qed.
Lemma vinv_vtry cfg v l : vinv cfg v -> vinv cfg (vtry cfg v l).
Proof.
  intros I. unfold vtry. destruct (vdo cfg v l) eqn:E; [eapply vinv_vdo; eassumption|assumption].
Qed.
Lemma vinv_poll_one cfg c v t : vinv cfg v -> vinv cfg (poll_one cfg c v t).
Proof.
  intros I. unfold poll_one. destruct (task_dec c t) as [[name km]|]; [|assumption].
  repeat match goal with
  | |- vinv _ (if ?b then _ else _) => destruct b
  | |- vinv _ (vtry _ _ _) => apply vinv_vtry
  end; assumption.
Qed.
Lemma vinv_fold_poll cfg c l : forall v, vinv cfg v -> vinv cfg (fold_left (poll_one cfg c) l v).
Proof. induction l as [|t l IH]; intros v I; cbn; [assumption|]. apply IH. apply vinv_poll_one; assumption. Qed.
Lemma vinv_poll cfg c v : vinv cfg v -> vinv cfg (poll cfg c v).
Proof. intros I. unfold poll. apply vinv_fold_poll. apply vinv_fold_poll. assumption. Qed.

Lemma vinv_gap_loop cfg fuel : forall v pend quiet v', vinv cfg v -> gap_loop cfg fuel v pend quiet = Some v' -> vinv cfg v'.
Proof.
  induction fuel as [|f IH]; intros v pend quiet v' I H; cbn [gap_loop] in H; [discriminate|].
  destruct (busy (v_s v)) as [t|].
  - destruct (memN t (live (v_s v))).
    + destruct (memN t pend).
      * destruct (vdo cfg v (UExit t true)) as [v1|] eqn:E; [|discriminate].
        eapply IH; [eapply vinv_vdo; eassumption|eassumption].
      * destruct (is_nil pend && negb quiet); inversion H; subst; assumption.
    + destruct (negb (is_nil pend) || quiet).
      * destruct (vdo cfg v UReaper) as [v1|] eqn:E; [|discriminate].
        eapply IH; [eapply vinv_vdo; eassumption|eassumption].
      * inversion H; subst; assumption.
  - destruct (rq (v_s v)).
    + destruct (is_nil pend); inversion H; subst; assumption.
    + destruct (negb (is_nil pend) || quiet).
      * destruct (vdo cfg v UReaper) as [v1|] eqn:E; [|discriminate].
        eapply IH; [eapply vinv_vdo; eassumption|eassumption].
      * inversion H; subst; assumption.
Qed.

Lemma vinv_fold_exit cfg l : forall v v', vinv cfg v ->
  fold_left_opt (fun v t => vdo cfg v (UExit t false)) l v = Some v' -> vinv cfg v'.
Proof.
  induction l as [|t l IH]; intros v v' I H; cbn in H; [inversion H; subst; assumption|].
  destruct (vdo cfg v (UExit t false)) as [v1|] eqn:E; [|discriminate].
  eapply IH; [eapply vinv_vdo; eassumption|eassumption].
Qed.

Lemma vinv_gap cfg v exits quiet v' : vinv cfg v -> gap cfg v exits quiet = Some v' -> vinv cfg v'.
Proof.
  intros I H. unfold gap in H.
  destruct (fold_left_opt (fun v t => vdo cfg v (UExit t false)) (map fst (filter (fun p => negb (snd p)) exits)) v) as [v1|] eqn:E;
    [|discriminate].
  eapply vinv_gap_loop; [eapply vinv_fold_exit; eassumption|eassumption].
Qed.

Lemma vinv_set_post cfg v p : vinv cfg v -> vinv cfg (set_post v p).
Proof. exact (fun I => I). Qed.
Lemma vinv_set_done cfg v d : vinv cfg v -> vinv cfg (set_done v d).
Proof. exact (fun I => I). Qed.
Lemma vinv_add_fired cfg v t : vinv cfg v -> vinv cfg (add_fired v t).
Proof. exact (fun I => I). Qed.

Lemma vinv_vevent cfg c v e v' : vinv cfg v -> vevent cfg c v e = Some v' -> vinv cfg v'.
Proof.
  intros I H. unfold vevent in H.
  match type of H with (if ?b then _ else _) = _ => destruct b; [discriminate|] end.
  destruct (gap cfg v _ _) as [v1|] eqn:G; [|discriminate].
  pose proof (vinv_gap _ _ _ _ _ I G) as I1.
  pose proof (vinv_poll cfg c v1 I1) as I2.
  match type of H with (match ?x with Some _ => _ | None => _ end) = _ => destruct x as [v3|] eqn:E3; [|discriminate] end.
  assert (I3 : vinv cfg v3).
  { destruct (e_kind e) as [t|t|t ci name km|t who|t|].
    - inversion E3; subst. apply vinv_poll. destruct (task_dec c t); [apply vinv_add_fired|]; assumption.
    - destruct (tinfo_of c t) as [ti|]; [|discriminate]. destruct (ti_dec ti) as [[name km]|].
      + destruct (vdo cfg (poll cfg c v1) _) as [v'' |] eqn:E4; [|discriminate].
        destruct (memN t (live (v_s v''))); [|discriminate]. inversion E3; subst. eapply vinv_vdo; eassumption.
      + eapply vinv_vdo; eassumption.
    - inversion E3; subst; assumption.
    - eapply vinv_vdo; eassumption.
    - eapply vinv_vdo; eassumption.
    - inversion E3; subst; assumption. }
  destruct (negb (snap_ok cfg c (v_s v3) e)); [discriminate|].
  match type of H with (match ?x with Some _ => _ | None => _ end) = _ => destruct x as [v4|] eqn:E4; [|discriminate] end.
  inversion H; subst; clear H. apply vinv_poll. apply vinv_set_done.
  destruct (e_kind e) as [t|t|t ci name km|t who|t|]; try (inversion E4; subst; apply vinv_set_post; assumption).
  destruct (vdo cfg v3 _) as [v5|] eqn:E5; [|discriminate]. inversion E4; subst. apply vinv_set_post.
  eapply vinv_vdo; eassumption.
Qed.

Lemma vinv_validate_from cfg c evs : forall v v', vinv cfg v -> fold_left_opt (vevent cfg c) evs v = Some v' -> vinv cfg v'.
Proof.
  induction evs as [|e evs IH]; intros v v' I H; cbn in H; [inversion H; subst; assumption|].
  destruct (vevent cfg c v e) as [v1|] eqn:E; [|discriminate].
  eapply IH; [eapply vinv_vevent; eassumption|eassumption].
Qed.

(* an accepted observation IS a path of the transition system, and its final state satisfies the invariant *)
Theorem validated_is_path cfg c : ucase_model_ok cfg c = true ->
  exists ls s, ucase_path cfg c = Some ls /\ run cfg ls = Some s /\ Inv s.
Proof.
  unfold ucase_model_ok, ucase_path. intros H. destruct (validate cfg c) as [v|] eqn:V.
  - exists (rev (v_ls v)), (v_s v). split; [reflexivity|].
    assert (I : vinv cfg v) by (eapply (vinv_validate_from cfg c (uc_events c) v0); [reflexivity|exact V]).
    split; [exact I|eapply Inv_run; exact I].
  - rewrite andb_false_r in H. discriminate.
Qed.

(* ==================================================================================================== *)
(* inhabitation of the hypotheses of the property theorems                                               *)
(* ==================================================================================================== *)
(* an observation of the real pyscript (legacy subsystem): task 0 of scripts.a claims "x" directly and again through a helper of
   the imported module (context modules.pvh), starts task 2 with task.create() and sleeps inside the module's helper; task 2 calls
   task.unique("x", kill_me=True) meanwhile and is terminated; task 1 is a @task_unique("x") trigger closure made by the module's
   factory (context modules.pvh) and replaces task 0 as owner of modules.pvh/"x" only.  Recorded by harness/vh/workers/c13_unique.py *)
Definition example_case : ucase :=
    (let pv_s0 := {| o_n2t := []; o_t2n := []; o_ours := []; o_done := []; o_views := [[]; []; 
    []] |} in let pv_s1 := {| o_n2t := []; o_t2n := []; o_ours := [0%N]; o_done := []; o_views := [[]; []; 
    []] |} in let pv_s2 := {| o_n2t := [(("scripts.a"%string, "x"%string), 0%N)]; 
    o_t2n := [(0%N, ("scripts.a"%string, "x"%string))]; o_ours := [0%N]; o_done := []; 
    o_views := [[("x"%string, 0%N)]; []; 
    []] |} in let pv_s3 := {| o_n2t := [(("modules.pvh"%string, "x"%string), 0%N); 
    (("scripts.a"%string, "x"%string), 0%N)]; o_t2n := [(0%N, ("modules.pvh"%string, "x"%string)); 
    (0%N, ("scripts.a"%string, "x"%string))]; o_ours := [0%N]; o_done := []; o_views := [[("x"%string, 0%N)]; []; 
    [("x"%string, 0%N)]] |} in let pv_s4 := {| o_n2t := [(("modules.pvh"%string, "x"%string), 0%N); 
    (("scripts.a"%string, "x"%string), 0%N)]; o_t2n := [(0%N, ("modules.pvh"%string, "x"%string)); 
    (0%N, ("scripts.a"%string, "x"%string))]; o_ours := [0%N; 2%N]; o_done := []; o_views := [[("x"%string, 0%N)]; 
    []; [("x"%string, 0%N)]] |} in let pv_s5 := {| o_n2t := [(("modules.pvh"%string, "x"%string), 0%N); 
    (("scripts.a"%string, "x"%string), 0%N)]; o_t2n := [(0%N, ("modules.pvh"%string, "x"%string)); 
    (0%N, ("scripts.a"%string, "x"%string))]; o_ours := [0%N]; o_done := [(2%N, true)]; 
    o_views := [[("x"%string, 0%N)]; []; 
    [("x"%string, 0%N)]] |} in let pv_s6 := {| o_n2t := [(("modules.pvh"%string, "x"%string), 1%N); 
    (("scripts.a"%string, "x"%string), 0%N)]; o_t2n := [(0%N, ("scripts.a"%string, "x"%string)); 
    (1%N, ("modules.pvh"%string, "x"%string))]; o_ours := [0%N; 1%N]; o_done := [(2%N, true)]; 
    o_views := [[("x"%string, 0%N)]; []; 
    [("x"%string, 1%N)]] |} in let pv_s7 := {| o_n2t := [(("modules.pvh"%string, "x"%string), 1%N)]; 
    o_t2n := [(1%N, ("modules.pvh"%string, "x"%string))]; o_ours := [1%N]; o_done := [(0%N, true); (2%N, true)]; 
    o_views := [[]; []; [("x"%string, 1%N)]] |} in let pv_s8 := {| o_n2t := []; o_t2n := []; o_ours := []; 
    o_done := [(0%N, true); (1%N, false); (2%N, true)]; o_views := [[]; []; []] |} in {| uc_legacy := true; 
    uc_ctxs := ["scripts.a"%string; "scripts.c"%string; "modules.pvh"%string]; uc_tasks := [{| ti_ctx := 0%nat; 
    ti_ours := true; ti_dec := None; ti_created := false |}; {| ti_ctx := 2%nat; ti_ours := true; 
    ti_dec := (Some ("x"%string, false)); ti_created := false |}; {| ti_ctx := 0%nat; ti_ours := true; 
    ti_dec := None; ti_created := true |}]; uc_horizon := 4%N; uc_events := [{| e_kind := KFire 0%N; e_own := None; 
    e_snap := pv_s0 |}; {| e_kind := KBegin 0%N; e_own := (Some (0%nat, [])); e_snap := pv_s1 |}; 
    {| e_kind := KPre 0%N 0%nat "x"%string false; e_own := (Some (0%nat, [])); e_snap := pv_s1 |}; 
    {| e_kind := KPost 0%N (Some 0%N); e_own := (Some (0%nat, [("x"%string, 0%N)])); e_snap := pv_s2 |}; 
    {| e_kind := KPre 0%N 2%nat "x"%string false; e_own := (Some (2%nat, [])); e_snap := pv_s2 |}; 
    {| e_kind := KPost 0%N (Some 0%N); e_own := (Some (2%nat, [("x"%string, 0%N)])); e_snap := pv_s3 |}; 
    {| e_kind := KNop 0%N; e_own := (Some (0%nat, [("x"%string, 0%N)])); e_snap := pv_s3 |}; {| e_kind := KNop 0%N; 
    e_own := (Some (0%nat, [("x"%string, 0%N)])); e_snap := pv_s3 |}; {| e_kind := KBegin 2%N; 
    e_own := (Some (0%nat, [("x"%string, 0%N)])); e_snap := pv_s4 |}; {| e_kind := KPre 2%N 0%nat "x"%string true; 
    e_own := (Some (0%nat, [("x"%string, 0%N)])); e_snap := pv_s4 |}; {| e_kind := KQuiet; e_own := None; 
    e_snap := pv_s5 |}; {| e_kind := KFire 1%N; e_own := None; e_snap := pv_s5 |}; {| e_kind := KBegin 1%N; 
    e_own := (Some (2%nat, [("x"%string, 1%N)])); e_snap := pv_s6 |}; {| e_kind := KQuiet; e_own := None; 
    e_snap := pv_s7 |}; {| e_kind := KNop 1%N; e_own := (Some (2%nat, [("x"%string, 1%N)])); e_snap := pv_s7 |}; 
    {| e_kind := KNop 1%N; e_own := (Some (2%nat, [("x"%string, 1%N)])); e_snap := pv_s7 |}; {| e_kind := KQuiet; 
    e_own := None; e_snap := pv_s8 |}; {| e_kind := KQuiet; e_own := None; e_snap := pv_s8 |}; {| e_kind := KQuiet; 
    e_own := None; e_snap := pv_s8 |}]; uc_sane := true |}).

Example validated_inhabited : ucase_model_ok all_off example_case = true /\ ucase_spec_ok example_case = true.
Proof. vm_compute. auto. Qed.

Example contexts_disjoint_inhabited : exists s s',
  run as_is [UStart 0%N true; UUnique 0%N "scripts.a"%string "x"%string false; UStart 1%N true] = Some s
  /\ dot_free "x"%string = true
  /\ ustep as_is s (UUnique 1%N "scripts.a.b"%string "x"%string false) = Some s'
  /\ owner as_is s' "scripts.a"%string "x"%string = Some 0%N /\ rq s' = [].
Proof. eexists. eexists. split; [vm_compute; reflexivity|]. split; [reflexivity|]. split; [vm_compute; reflexivity|]. vm_compute. auto. Qed.
