(* Proofs/TimeNext.v — lemmas about Time/Next.v: the `<`-minimum over specification lists, and the successor property
   of once(), period() (open, closed with a dated side, closed daily windows) and cron() (through croniter's contract). *)
From Coq Require Import ZArith List Bool Lia.
From PV Require Import Common.Civil Proofs.Civil Time.DtExpr Time.Next Gen.TimeConsts.
Import ListNotations.
Local Open Scope Z_scope.

(* let [lia] reason about floor division / modulo by constants *)
Ltac Zify.zify_post_hook ::= Z.to_euclidean_division_equations.

Lemma unit_table_documented : unit_scale_table = doc_scale_table.
Proof. reflexivity. Qed.

Lemma dither_lists : dither_undated = [-1; 0; 1] /\ dither_dated = [0].
Proof. split; reflexivity. Qed.

(* ---------- arithmetic progressions ---------- *)
Lemma grid_step_gt S P now : 0 < P -> now < S + P * ((now - S) / P + 1).
Proof.
  intros HP. pose proof (Z.div_mod (now - S) P ltac:(lia)) as E.
  pose proof (Z.mod_pos_bound (now - S) P HP) as B. nia.
Qed.

Lemma grid_step_le S P now : 0 < P -> S + P * ((now - S) / P) <= now.
Proof.
  intros HP. pose proof (Z.div_mod (now - S) P ltac:(lia)) as E.
  pose proof (Z.mod_pos_bound (now - S) P HP) as B. nia.
Qed.

Lemma grid_step_min S P now k : 0 < P -> now < S + P * k -> S + P * ((now - S) / P + 1) <= S + P * k.
Proof.
  intros HP H. pose proof (grid_step_le S P now HP) as L.
  assert ((now - S) / P < k) as Hq by nia.
  nia.
Qed.

Lemma div_nonneg_iff a P : 0 < P -> (0 <= a / P <-> 0 <= a).
Proof.
  intros HP. pose proof (Z.div_mod a P ltac:(lia)) as E. pose proof (Z.mod_pos_bound a P HP) as B.
  split; intros H; [nia|]. apply Z.div_pos; lia.
Qed.

(* ---------- the minimum over specifications ---------- *)
Lemma successor_upd (D1 D2 : Z -> Prop) now su acc c :
  successor_of D1 now su acc -> successor_of D2 now su c ->
  successor_of (fun t => D1 t \/ D2 t) now su (upd acc c).
Proof.
  unfold successor_of, upd.
  destruct c as [[t a]|]; destruct acc as [[t0 a0]|].
  - intros (H1 & H2 & H3) (G1 & G2 & G3).
    destruct (t <? t0) eqn:E; [apply Z.ltb_lt in E|apply Z.ltb_ge in E].
    + split; [exact G1|]. split; [right; exact G2|].
      intros t' L1 L2 [X|X]; [apply (H3 t'); [lia|lia|exact X]|apply (G3 t'); auto].
    + split; [exact H1|]. split; [left; exact H2|].
      intros t' L1 L2 [X|X]; [apply (H3 t'); auto|apply (G3 t'); [lia|lia|exact X]].
  - intros H (G1 & G2 & G3). split; [exact G1|]. split; [right; exact G2|].
    intros t' L1 L2 [X|X]; [apply (H t'); auto|apply (G3 t'); auto].
  - intros (H1 & H2 & H3) G. split; [exact H1|]. split; [left; exact H2|].
    intros t' L1 L2 [X|X]; [apply (H3 t'); auto|apply (G t'); auto].
  - intros H G t' L [X|X]; [apply (H t'); auto|apply (G t'); auto].
Qed.

Lemma successor_ext (D1 D2 : Z -> Prop) now su r :
  (forall t, D1 t <-> D2 t) -> successor_of D1 now su r -> successor_of D2 now su r.
Proof.
  intros E. unfold successor_of. destruct r as [[t a]|].
  - intros (H1 & H2 & H3). split; [exact H1|]. split; [apply E; exact H2|].
    intros t' L1 L2 X. apply (H3 t' L1 L2). apply E; exact X.
  - intros H t' L X. apply (H t' L). apply E; exact X.
Qed.

(* ---------- dates ---------- *)
Lemma valid_common_year_all y m d : valid_date 2023 m d = true -> valid_date y m d = true.
Proof.
  unfold valid_date, days_in_month. rewrite !andb_true_iff, !Z.leb_le. intros (((H1 & H2) & H3) & H4).
  repeat split; try lia.
  assert (m = 1 \/ m = 2 \/ m = 3 \/ m = 4 \/ m = 5 \/ m = 6 \/ m = 7 \/ m = 8 \/ m = 9 \/ m = 10 \/ m = 11 \/ m = 12) as C by lia.
  destruct C as [->|[->|[->|[->|[->|[->|[->|[->|[->|[->|[->| ->]]]]]]]]]]];
    unfold days_before_month in *; cbn in H4 |- *; destruct (is_leap y); cbn; lia.
Qed.

Lemma valid_date_month y m d : valid_date y m d = true -> 1 <= m <= 12.
Proof. unfold valid_date. rewrite !andb_true_iff, !Z.leb_le. lia. Qed.

(* a valid date lies inside its year *)
Lemma dfc_in_year y m d : valid_date y m d = true -> jan1 y <= days_from_civil y m d < jan1 (y + 1).
Proof.
  intros V. pose proof (valid_date_bounds y m d V) as (Hm & Hd & Hle).
  pose proof (dbm_mono_13 y m Hm) as H13. rewrite dbm_13 in H13.
  assert (0 <= days_before_month y m) as H0.
  { assert (m = 1 \/ m = 2 \/ m = 3 \/ m = 4 \/ m = 5 \/ m = 6 \/ m = 7 \/ m = 8 \/ m = 9 \/ m = 10 \/ m = 11 \/ m = 12) as C by lia.
    destruct C as [->|[->|[->|[->|[->|[->|[->|[->|[->|[->|[->| ->]]]]]]]]]]]; unfold days_before_month; cbn; destruct (is_leap y); cbn; lia. }
  rewrite dfc_via_jan1, jan1_succ. lia.
Qed.

(* the weekday search: the unique day with weekday w among the seven days starting today *)
Lemma dow_unique today w day : 0 <= w <= 6 ->
  (today <= day < today + 7 /\ weekday_sun0 day = w) <->
  day = today + (if weekday_sun0 today <=? w then w - weekday_sun0 today else 7 + w - weekday_sun0 today).
Proof.
  intros Hw. unfold weekday_sun0.
  destruct ((today + 4) mod 7 <=? w) eqn:E; [apply Z.leb_le in E|apply Z.leb_gt in E].
  - split; [intros ((A & B) & C)|intros ->]; lia.
  - split; [intros ((A & B) & C)|intros ->]; lia.
Qed.

(* ---------- parse_date_time on the fragment without sunrise/sunset ---------- *)
Section Denote.
  Variable scale : N -> Z.
  Variable sun : Z -> bool -> option Z.

  (* the day the date stage resolves to (when the date is valid) *)
  Definition day_val (d : dspec) (is_now : bool) (ys k now : Z) : Z :=
    let today := day_of now in
    match d with
    | DFull y m dd => days_from_civil y m dd
    | DMonthDay m dd => days_from_civil (year_of_day today + ys) m dd
    | DDow w => today + (if weekday_sun0 today <=? w then w - weekday_sun0 today else 7 + w - weekday_sun0 today)
    | DToday => today
    | DTomorrow => today + 1
    | DNone => today + (if is_now then 0 else k)
    end.

  Lemma date_day_ok d is_now ys k now : date_ok d = true -> date_day d is_now ys k now = ROk (day_val d is_now ys k now).
  Proof.
    destruct d as [y m dd|m dd|w| | |]; cbn; intros H; try reflexivity.
    - rewrite H. reflexivity.
    - rewrite (valid_common_year_all _ _ _ H). reflexivity.
  Qed.

  Definition inst_val (e : dtexpr) (ys k now su : Z) : Z :=
    match de_time e with
    | TNow => su + off_us scale (de_off e)
    | _ => midnight (day_val (de_date e) (uses_now e) ys k now) + tod_off scale e
    end.

  Lemma denote_gen_ok e ys k now su : expr_ok e = true ->
    denote_gen scale sun e ys k now su = ROk (inst_val e ys k now su, fixed_date e).
  Proof.
    unfold expr_ok. rewrite !andb_true_iff. intros ((NS & DO) & NO).
    unfold denote_gen. rewrite (date_day_ok _ _ _ _ _ DO). cbn [rbind].
    unfold inst_val, tod_off, no_sun in *. destruct (de_time e); try discriminate; try reflexivity; f_equal; f_equal; lia.
  Qed.

  Lemma time_on_iff e su day t : no_sun e = true ->
    time_on scale sun e su day t <->
    t = match de_time e with TNow => su + off_us scale (de_off e) | _ => midnight day + tod_off scale e end.
  Proof.
    unfold no_sun, time_on, tod_off. destruct (de_time e); try discriminate; intros _; split; intros H; lia.
  Qed.
End Denote.
