(* Proofs/TimeNextPeriod.v — the period(...) branches of timer_trigger_next: open grids, one dated window, daily windows. *)
From Coq Require Import ZArith List Bool Lia.
From PV Require Import Common.Civil Proofs.Civil Time.DtExpr Time.Next Gen.TimeConsts Proofs.TimeNext Proofs.TimeNextOnce.
Import ListNotations.
Local Open Scope Z_scope.
Ltac Zify.zify_post_hook ::= Z.to_euclidean_division_equations.

(* ---------- part A: arithmetic of grids and windows (no model functions) ---------- *)
  Definition open_result (S P now su : Z) : cand :=
    if (now <? S) || startup_eq now S su then Some (S, S)
    else let this := S + P * ((now - S) / P + 1) in if now <? this then Some (this, this) else None.

  Definition closed_step (S E P now su : Z) : option cand :=     (* Some = break with that result; None = next day *)
    if ((now <? S) || startup_eq now S su) && (S <=? E) then Some (Some (S, S))
    else let this := S + P * ((now - S) / P + 1) in
         if (S <=? this) && (this <=? E) then Some (Some (this, this)) else None.

  Fixpoint dither_pure (days : list Z) (Sf Ef : Z -> Z) (P now su : Z) : cand :=
    match days with
    | [] => None
    | d :: r => match closed_step (Sf d) (Ef d) P now su with
                | Some c => c
                | None => dither_pure r Sf Ef P now su
                end
    end.

Ltac bool_to_prop :=
    rewrite ?andb_true_iff, ?orb_true_iff, ?andb_false_iff, ?orb_false_iff, ?Z.ltb_lt, ?Z.ltb_ge, ?Z.leb_le, ?Z.leb_gt,
            ?Z.eqb_eq, ?Z.eqb_neq in *.

  (* one window [S, E] *)
  Lemma closed_successor S E P now su : 0 < P ->
    successor_of (fun t => exists k, 0 <= k /\ t = S + P * k /\ t <= E) now su
                 (dither_pure [0] (fun _ => S) (fun _ => E) P now su).
  Proof.
    intros HP. cbn [dither_pure]. unfold closed_step, startup_eq.
    pose proof (grid_step_gt S P now HP) as G.
    pose proof (fun k => grid_step_min S P now k HP) as M.
    assert (S <= S + P * ((now - S) / P + 1) -> 0 <= (now - S) / P + 1) as KP by (intros; nia).
    set (q := (now - S) / P + 1) in *. clearbody q.
    destruct (((now <? S) || ((now =? S) && (now =? su))) && (S <=? E)) eqn:C1.
    - bool_to_prop. unfold successor_of. split; [lia|]. split.
      + exists 0. split; [lia|]. split; [ring|lia].
      + intros t' L1 L2 (k & Hk & -> & Hle). nia.
    - cbv zeta. destruct ((S <=? S + P * q) && (S + P * q <=? E)) eqn:C2.
      + bool_to_prop. unfold successor_of. split; [left; exact G|]. split.
        * exists q. split; [apply KP; lia|]. split; [reflexivity|lia].
        * intros t' L1 L2 (k & Hk & -> & Hle). pose proof (M k L1). lia.
      + bool_to_prop. unfold successor_of. intros t' L (k & Hk & -> & Hle). pose proof (M k L).
        assert (S <= S + P * k) by nia. lia.
  Qed.

  (* daily windows: both ends undated, times of day inside [0, 24h) *)
  Lemma windows_successor cs ce P now su : 0 < P -> 0 <= cs < DAY -> 0 <= ce < DAY ->
    let today := day_of now in
    let eoff := if ce <? cs then 1 else 0 in
    successor_of (fun t => exists D k, 0 <= k /\ t = midnight D + cs + P * k /\ t <= midnight (D + eoff) + ce) now su
      (dither_pure [-1; 0; 1] (fun d => midnight (today + d) + cs) (fun d => midnight (today + (d + eoff)) + ce) P now su).
  Proof.
    intros HP Hcs Hce today eoff.
    pose proof (day_tod now) as (EN & BN). fold today in EN.
    set (A := fun d => midnight (today + d) + cs). set (B := fun d => midnight (today + (d + eoff)) + ce).
    cbn [dither_pure]. unfold closed_step, startup_eq. cbv zeta.
    assert (forall d, A d <= B d < A d + DAY) as WB.
    { intros d. subst A B eoff. cbv beta. unfold midnight. destruct (ce <? cs) eqn:E; bool_to_prop; lia. }
    assert (forall d, A (d + 1) = A d + DAY) as WS by (intros d; subst A; cbv beta; unfold midnight; ring).
    assert (now < A 1 /\ A (-1) < now) as (N1 & Nm1).
    { pose proof (WS 0) as W0. pose proof (WS (-1)) as W1. cbn in W0, W1. subst A. cbv beta in *. unfold midnight in *.
      replace (today + 0) with today in * by lia. lia. }
    assert (forall D k, midnight D + cs + P * k = A (D - today) + P * k) as DA.
    { intros D k. subst A. cbv beta. replace (today + (D - today)) with D by lia. reflexivity. }
    assert (forall D, midnight (D + eoff) + ce = B (D - today)) as DB.
    { intros D. subst B. cbv beta. replace (today + (D - today + eoff)) with (D + eoff) by lia. reflexivity. }
    assert (forall a b, a <= b -> A a + DAY * (b - a) = A b) as AM by (intros a b _; subst A; cbv beta; unfold midnight; ring).
    (* grid facts for the three candidate days *)
    pose proof (grid_step_gt (A (-1)) P now HP) as G1. pose proof (fun k => grid_step_min (A (-1)) P now k HP) as M1.
    pose proof (grid_step_gt (A 0) P now HP) as G2. pose proof (fun k => grid_step_min (A 0) P now k HP) as M2.
    pose proof (grid_step_gt (A 1) P now HP) as G3. pose proof (fun k => grid_step_min (A 1) P now k HP) as M3.
    assert (A (-1) <= A (-1) + P * ((now - A (-1)) / P + 1) -> 0 <= (now - A (-1)) / P + 1) as K1 by (intros; nia).
    assert (A 0 <= A 0 + P * ((now - A 0) / P + 1) -> 0 <= (now - A 0) / P + 1) as K2 by (intros; nia).
    assert (A 1 <= A 1 + P * ((now - A 1) / P + 1) -> 0 <= (now - A 1) / P + 1) as K3 by (intros; nia).
    set (q1 := (now - A (-1)) / P + 1) in *. set (q2 := (now - A 0) / P + 1) in *. set (q3 := (now - A 1) / P + 1) in *.
    clearbody q1 q2 q3.
    pose proof (WB (-1)) as B1. pose proof (WB 0) as B2. pose proof (WB 1) as B3.
    pose proof (WS (-1)) as S1. pose proof (WS 0) as S2. cbn in S1, S2.
    (* a denoted instant after now lies in yesterday's, today's or a later window *)
    assert (forall D k, 0 <= k -> now < A (D - today) + P * k -> A (D - today) + P * k <= B (D - today) ->
                        D - today = -1 \/ D - today = 0 \/ 1 <= D - today) as WD.
    { intros D k Hk L1 L2. destruct (Z_le_gt_dec (D - today) (-2)) as [LE|GT]; [|lia].
      pose proof (WB (D - today)) as W. pose proof (AM (D - today) (-1) ltac:(lia)) as X. unfold DAY in *. lia. }
    assert (forall D k, 0 <= k -> 1 <= D - today -> A 1 <= A (D - today) + P * k) as WL.
    { intros D k Hk L. pose proof (AM 1 (D - today) L) as X. assert (0 <= P * k) by nia. unfold DAY in *. lia. }
    assert (forall (r : cand), match r with
              | Some (t, _) => (now < t \/ (t = now /\ now = su)) /\
                               (exists d k, 0 <= k /\ t = A d + P * k /\ t <= B d) /\
                               (forall d k, 0 <= k -> (d = -1 \/ d = 0 \/ 1 <= d) -> now < A d + P * k -> A d + P * k <= B d -> t <= A d + P * k)
              | None => False
              end ->
            successor_of (fun t => exists D k, 0 <= k /\ t = midnight D + cs + P * k /\ t <= midnight (D + eoff) + ce) now su r) as FIN.
    { intros [[t a]|] H; [|contradiction]. destruct H as (H1 & (d & k & Hk & Ht & Hb) & H3). unfold successor_of.
      split; [exact H1|]. split.
      - exists (today + d), k. split; [exact Hk|]. rewrite DA, DB. replace (today + d - today) with d by lia. split; assumption.
      - intros t' L1 L2 (D & k' & Hk' & -> & Hle). rewrite DA in *. rewrite DB in Hle.
        pose proof (WD D k' Hk' L1 Hle) as C. pose proof (H3 (D - today) k' Hk' C L1 Hle). lia. }
    apply FIN. clear FIN DA DB AM WD EN BN WB WS.
    assert (forall k, 0 <= k -> 0 <= P * k) as PK by (intros k Hk; apply Z.mul_nonneg_nonneg; lia).
    assert (0 < DAY) as HD by reflexivity.
    destruct (((now <? A (-1)) || ((now =? A (-1)) && (now =? su))) && (A (-1) <=? B (-1))) eqn:C1; [bool_to_prop; lia|clear C1].
    destruct ((A (-1) <=? A (-1) + P * q1) && (A (-1) + P * q1 <=? B (-1))) eqn:C2.
    { assert (A (-1) <= A (-1) + P * q1 /\ A (-1) + P * q1 <= B (-1)) as (F0 & F1) by (bool_to_prop; lia). clear C2.
      split; [left; exact G1|]. split.
      - exists (-1), q1. split; [apply K1; lia|]. split; [reflexivity|lia].
      - intros d k Hk [->|[->|L]] L1 L2; [apply M1; exact L1| |].
        + pose proof (PK k Hk). lia.
        + pose proof (WL (today + d) k Hk ltac:(lia)) as X. replace (today + d - today) with d in X by lia. lia. }
    assert (B (-1) < A (-1) + P * q1) as F1 by (bool_to_prop; lia). clear C2.
    destruct (((now <? A 0) || ((now =? A 0) && (now =? su))) && (A 0 <=? B 0)) eqn:C3.
    { assert (now < A 0 \/ (A 0 = now /\ now = su)) as F2 by (bool_to_prop; lia). clear C3.
      split; [lia|]. split.
      - exists 0, 0. split; [lia|]. split; [ring|lia].
      - intros d k Hk [->|[->|L]] L1 L2.
        + pose proof (M1 k L1). lia.
        + pose proof (PK k Hk). lia.
        + pose proof (WL (today + d) k Hk ltac:(lia)) as X. replace (today + d - today) with d in X by lia. lia. }
    assert (A 0 <= now) as F2 by (bool_to_prop; lia). clear C3.
    destruct ((A 0 <=? A 0 + P * q2) && (A 0 + P * q2 <=? B 0)) eqn:C4.
    { assert (A 0 + P * q2 <= B 0) as F3 by (bool_to_prop; lia). clear C4.
      split; [left; exact G2|]. split.
      - exists 0, q2. split; [apply K2; lia|]. split; [reflexivity|lia].
      - intros d k Hk [->|[->|L]] L1 L2.
        + pose proof (M1 k L1). lia.
        + apply M2; exact L1.
        + pose proof (WL (today + d) k Hk ltac:(lia)) as X. replace (today + d - today) with d in X by lia. lia. }
    assert (B 0 < A 0 + P * q2) as F3 by (bool_to_prop; lia). clear C4.
    destruct (((now <? A 1) || ((now =? A 1) && (now =? su))) && (A 1 <=? B 1)) eqn:C5; [clear C5|bool_to_prop; lia].
    split; [lia|]. split.
    - exists 1, 0. split; [lia|]. split; [ring|lia].
    - intros d k Hk [->|[->|L]] L1 L2.
      + pose proof (M1 k L1). lia.
      + pose proof (M2 k L1). lia.
      + pose proof (WL (today + d) k Hk ltac:(lia)) as X. replace (today + d - today) with d in X by lia. lia.
  Qed.
  Lemma open_successor S P now su : 0 < P ->
    successor_of (fun t => exists k, 0 <= k /\ t = S + P * k) now su (open_result S P now su).
  Proof.
    intros HP. unfold open_result, startup_eq, successor_of.
    destruct ((now <? S) || ((now =? S) && (now =? su))) eqn:E.
    - rewrite orb_true_iff, andb_true_iff, Z.ltb_lt, !Z.eqb_eq in E. split; [lia|]. split.
      + exists 0. split; [lia|ring].
      + intros t' L1 L2 (k & Hk & ->). nia.
    - rewrite orb_false_iff, Z.ltb_ge in E. destruct E as (E & _).
      pose proof (grid_step_gt S P now HP) as G. cbv zeta.
      replace (now <? S + P * ((now - S) / P + 1)) with true by (symmetry; apply Z.ltb_lt; exact G).
      split; [left; exact G|]. split.
      + exists ((now - S) / P + 1). split; [|reflexivity].
        pose proof (proj2 (div_nonneg_iff (now - S) P HP) ltac:(lia)). lia.
      + intros t' L1 L2 (k & Hk & ->). pose proof (grid_step_min S P now k HP L1). lia.
  Qed.

  (* time-only start: the quantifier's self-consistency condition makes every day's grid the same grid *)
  Lemma open_successor_daily c P now su : 0 < P -> 0 <= c < P -> DAY mod P = 0 ->
    successor_of (fun t => exists day k, 0 <= k /\ t = midnight day + c + P * k) now su
                 (open_result (midnight (day_of now + 0) + c) P now su).
  Proof.
    intros HP Hc Hd.
    assert (exists n, DAY = P * n) as (n & Hn).
    { assert (P <> 0) as NZ by (clear - HP; lia). exists (DAY / P). pose proof (Z.div_mod DAY P NZ) as H. rewrite Hd, Z.add_0_r in H. exact H. }
    clear Hd.
    pose proof (day_tod now) as (EN & BN). replace (day_of now + 0) with (day_of now) by lia.
    set (S := midnight (day_of now) + c).
    (* every denoted instant is S + P * j for some integer j *)
    assert (forall day k, midnight day + c + P * k = S + P * ((day - day_of now) * n + k)) as GR.
    { intros day k. subst S. unfold midnight. rewrite Hn. ring. }
    unfold open_result, startup_eq, successor_of.
    destruct ((now <? S) || ((now =? S) && (now =? su))) eqn:E.
    - rewrite orb_true_iff, andb_true_iff, Z.ltb_lt, !Z.eqb_eq in E. split; [lia|]. split.
      + exists (day_of now), 0. split; [lia|]. subst S. ring.
      + intros t' L1 L2 (day & k & Hk & ->). rewrite GR in L1, L2.
        assert (S - P < now) as LB by (subst S; unfold midnight in *; lia).
        set (j := (day - day_of now) * n + k) in *. clearbody j. clear - L1 L2 LB HP.
        assert (j < 0) as Hj by nia. assert (P * (j + 1) <= 0) as Hj2 by nia. lia.
    - rewrite orb_false_iff, Z.ltb_ge in E. destruct E as (E & _).
      pose proof (grid_step_gt S P now HP) as G. cbv zeta.
      replace (now <? S + P * ((now - S) / P + 1)) with true by (symmetry; apply Z.ltb_lt; exact G).
      split; [left; exact G|]. split.
      + exists (day_of now), ((now - S) / P + 1). split.
        * pose proof (proj2 (div_nonneg_iff (now - S) P HP) ltac:(lia)). lia.
        * subst S. ring.
      + intros t' L1 L2 (day & k & Hk & ->). rewrite GR in L1, L2.
        pose proof (grid_step_min S P now _ HP L1). lia.
  Qed.


(* ---------- part B: what dated / undated expressions denote ---------- *)
Section Inst.
  Variable scale : N -> Z.
  Variable sun : Z -> bool -> option Z.

  (* ---- dated expressions name one instant ---- *)
  Lemma day_val_fixed d b ys k now : (match d with DNone => b | _ => true end) = true ->
    day_val d b ys k now = day_val d b ys 0 now.
  Proof.
    destruct d; cbn [day_val]; intros H; try reflexivity. rewrite H. reflexivity.
  Qed.

  Lemma inst_val_fixed e ys k now su : fixed_date e = true -> inst_val scale e ys k now su = inst_val scale e ys 0 now su.
  Proof.
    intros FX. unfold inst_val.
    assert ((match de_date e with DNone => uses_now e | _ => true end) = true) as H.
    { unfold fixed_date in FX. destruct (de_date e); try reflexivity. exact FX. }
    rewrite (day_val_fixed (de_date e) (uses_now e) ys k now H). reflexivity.
  Qed.

  Lemma inst_fixed_iff e now su t : expr_ok e = true -> fixed_date e = true ->
    inst scale sun e false su now t <-> t = inst_val scale e 0 0 now su.
  Proof.
    intros OK FX. destruct (single e) eqn:SG; [exact (inst_single_iff scale sun e false now su t OK SG)|].
    assert (exists m dd, de_date e = DMonthDay m dd /\ de_time e <> TNow) as (m & dd & Ed & NN).
    { unfold single, fixed_date, uses_now in *. destruct (de_time e); destruct (de_date e); try discriminate; eexists; eexists; split; try reflexivity; discriminate. }
    assert (no_sun e = true /\ valid_date 2023 m dd = true) as (NS & V).
    { unfold expr_ok in OK. rewrite !andb_true_iff in OK. rewrite Ed in OK. cbn [date_ok] in OK. tauto. }
    unfold inst, inst_val. rewrite Ed. cbn [day_denoted day_val]. split.
    - intros (day & (y & _ & -> & Hy) & H). pose proof (Hy eq_refl) as Ey. subst y. apply (time_on_iff scale sun e su _ t NS) in H.
      replace (year_of_day (day_of now) + 0) with (year_of_day (day_of now)) by lia.
      destruct (de_time e); try congruence; exact H.
    - intros ->. exists (days_from_civil (year_of_day (day_of now) + 0) m dd). split.
      + exists (year_of_day (day_of now) + 0). split; [apply valid_common_year_all; exact V|]. split; [reflexivity|intros _; lia].
      + apply (time_on_iff scale sun e su _ _ NS). destruct (de_time e); try congruence; reflexivity.
  Qed.

  (* the instant an expression names when an omitted date means day D *)
  Definition on_day (e : dtexpr) (D now su : Z) : Z :=
    if fixed_date e then inst_val scale e 0 0 now su else midnight D + tod_off scale e.

  Lemma inst_on_iff e D now su t : expr_ok e = true -> inst_on scale sun e D su now t <-> t = on_day e D now su.
  Proof.
    intros OK. unfold on_day. destruct (fixed_date e) eqn:FX.
    - rewrite <- (inst_fixed_iff e now su t OK FX). unfold inst_on, inst.
      destruct (de_date e) eqn:Ed; try tauto.
      (* DNone with "now" *)
      unfold fixed_date in FX. rewrite Ed in FX. cbn [day_denoted]. split; intros (day & _ & H); exists day; (split; [auto|exact H]).
    - assert (de_date e = DNone /\ uses_now e = false) as (Ed & Un).
      { unfold fixed_date in FX. destruct (de_date e); try discriminate. split; [reflexivity|exact FX]. }
      assert (no_sun e = true) as NS by (unfold expr_ok in OK; rewrite !andb_true_iff in OK; tauto).
      unfold inst_on. rewrite Ed, Un. split.
      + intros (day & [X| ->] & H); [discriminate|]. apply (time_on_iff scale sun e su D t NS) in H.
        unfold uses_now in Un. destruct (de_time e); try discriminate; exact H.
      + intros ->. exists D. split; [right; reflexivity|]. apply (time_on_iff scale sun e su D _ NS).
        unfold uses_now in Un. destruct (de_time e); try discriminate; reflexivity.
  Qed.

  Lemma denote_on_day e k now su : expr_ok e = true ->
    denote_dt scale sun e k now su = ROk (on_day e (day_of now + k) now su, fixed_date e).
  Proof.
    intros OK. unfold denote_dt. rewrite (denote_gen_ok scale sun e 0 k now su OK). f_equal. f_equal.
    unfold on_day. destruct (fixed_date e) eqn:FX; [apply inst_val_fixed; exact FX|].
    assert (de_date e = DNone /\ uses_now e = false) as (Ed & Un).
    { unfold fixed_date in FX. destruct (de_date e); try discriminate. split; [reflexivity|exact FX]. }
    unfold inst_val. rewrite Ed, Un. cbn [day_val]. unfold uses_now in Un. destruct (de_time e); try discriminate; reflexivity.
  Qed.

End Inst.

(* ---------- part C: the period branches of the Model as pure functions of the start / end values ---------- *)
Section Period.
  Variable scale : N -> Z.
  Variable sun : Z -> bool -> option Z.
  Variable lu ul : Z -> Z.
  Variable cfg : deviations.
  Hypothesis Htz : d_period_wallclock cfg = true \/ tz_const lu ul.

  Let elapsed := negb (d_period_wallclock cfg).

  Lemma grid_next_eq start P now : grid_next lu ul cfg false start P now = start + P * ((now - start) / P + 1).
  Proof.
    unfold grid_next. rewrite andb_false_r. cbn [andb].
    destruct (d_period_wallclock cfg) eqn:E; [reflexivity|].
    destruct Htz as [X|(c & Hc)]; [discriminate|].
    destruct (Hc start) as (-> & _). destruct (Hc now) as (-> & _). destruct (Hc (start - c + P * ((now - c - (start - c)) / P + 1))) as (_ & ->).
    replace (now - c - (start - c)) with (now - start) by ring. ring.
  Qed.

  Lemma grid_iff S P t : grid lu ul elapsed S P t <-> exists k, 0 <= k /\ t = S + P * k.
  Proof.
    unfold grid, elapsed. destruct (d_period_wallclock cfg) eqn:E; cbn [negb]; [tauto|].
    destruct Htz as [X|(c & Hc)]; [discriminate|].
    split; intros (k & Hk & H); exists k; (split; [exact Hk|]).
    - rewrite H. destruct (Hc S) as (-> & _). destruct (Hc (S - c + P * k)) as (_ & ->). ring.
    - rewrite H. destruct (Hc S) as (-> & _). destruct (Hc (S - c + P * k)) as (_ & ->). ring.
  Qed.

  Lemma period_open_val st P now su : expr_ok st = true ->
    period_open scale sun lu ul cfg false st P now su = ROk (open_result (on_day scale st (day_of now + 0) now su) P now su).
  Proof.
    intros OK. unfold period_open. rewrite (denote_on_day scale sun st 0 now su OK). cbn [rbind]. unfold open_result.
    rewrite grid_next_eq. destruct ((now <? _) || _); reflexivity.
  Qed.

  Lemma dither_loop_val days s e P eoff now su : expr_ok s = true -> expr_ok e = true ->
    dither_loop scale sun lu ul cfg false days s e P eoff now su =
    ROk (dither_pure days (fun d => on_day scale s (day_of now + d) now su) (fun d => on_day scale e (day_of now + (d + eoff)) now su) P now su).
  Proof.
    intros OKs OKe. induction days as [|d r IH]; [reflexivity|].
    cbn [dither_loop dither_pure]. rewrite (denote_on_day scale sun s d now su OKs), (denote_on_day scale sun e (d + eoff) now su OKe). cbn [rbind].
    unfold closed_step. rewrite grid_next_eq.
    destruct (((now <? _) || _) && _); [reflexivity|]. cbv zeta.
    destruct ((_ <=? _) && (_ <=? _)); [reflexivity|exact IH].
  Qed.

  Lemma period_closed_val s e P now su : expr_ok s = true -> expr_ok e = true ->
    period_closed scale sun lu ul cfg false s e P now su =
    ROk (if negb (fixed_date s) && negb (fixed_date e)
         then let eoff := if on_day scale e (day_of now + 0) now su <? on_day scale s (day_of now + 0) now su then 1 else 0 in
              dither_pure dither_undated (fun d => on_day scale s (day_of now + d) now su) (fun d => on_day scale e (day_of now + (d + eoff)) now su) P now su
         else dither_pure dither_dated (fun d => on_day scale s (day_of now + d) now su) (fun d => on_day scale e (day_of now + (d + 0)) now su) P now su).
  Proof.
    intros OKs OKe. unfold period_closed. rewrite (denote_on_day scale sun s 0 now su OKs), (denote_on_day scale sun e 0 now su OKe). cbn [rbind].
    destruct (negb (fixed_date s) && negb (fixed_date e)); apply dither_loop_val; assumption.
  Qed.

End Period.
