(* Proofs/TrigWaitUntil.v — lemmas and proofs about Trig/WaitUntil.v (C15). *)
From Coq Require Import ZArith List Bool Lia ZifyBool.
From PV Require Import Common.Util Gen.WaitConsts Trig.WaitUntil Trig.WaitUntilCheck.
Import ListNotations.
Local Open Scope Z_scope.

(* ================================================================================================ *)
(* 1. the ledger: subscribe then unsubscribe is the identity                                         *)
(* ================================================================================================ *)
Lemma lg_sub_add : forall L s, lg_sub (lg_add L s) s = L.
Proof.
  intros [a b c d] [a' b' c' d']. unfold lg_sub, lg_add; cbn. f_equal; lia.
Qed.

Lemma lg_add_zero : forall L, lg_add L lg_zero = L.
Proof. intros [a b c d]. unfold lg_add; cbn. f_equal; lia. Qed.

Lemma lg_sub_add2 : forall L s1 s2, lg_sub (lg_sub (lg_add (lg_add L s1) s2) s1) s2 = L.
Proof.
  intros [a b c d] [a1 b1 c1 d1] [a2 b2 c2 d2]. unfold lg_sub, lg_add; cbn. f_equal; lia.
Qed.

Lemma lg_sub_add_add : forall L s1 s2, lg_sub (lg_add (lg_add L s1) s2) (lg_add s1 s2) = L.
Proof.
  intros [a b c d] [a1 b1 c1 d1] [a2 b2 c2 d2]. unfold lg_sub, lg_add; cbn. f_equal; lia.
Qed.

(* every exit of the loop other than a leaking cancellation runs the epilogue *)
Lemma loop_ledger : forall p L0 h base hp fp,
  lp_leak p = false ->
  r_exit (loop p (lg_add L0 (lp_subs p)) base hp fp h) <> XPending ->
  r_ledger (loop p (lg_add L0 (lp_subs p)) base hp fp h) = L0.
Proof.
  intros p L0 h. induction h as [|[t o] rest IH]; intros base hp fp Hleak Hx.
  - cbn [loop] in *. destruct (earliest (timers p base hp)) as [[tm r]|]; cbn in *.
    + apply lg_sub_add.
    + congruence.
  - cbn [loop] in *.
    destruct (earliest (timers p base hp)) as [[tm r]|]; [destruct (tm <=? t); [cbn; apply lg_sub_add|]|];
      (destruct o as [r0 n|n| |r0 n|]; cbn in *;
       [ destruct (lp_state p); [|apply IH; assumption];
         destruct r0; [destruct (hf_passed (lp_hf p) fp t); [destruct (lp_hold p)|]| |]; cbn in *;
         try apply lg_sub_add; apply IH; assumption
       | destruct (lp_state p); [destruct (lp_attr_false p)|]; apply IH; assumption
       | apply IH; assumption
       | destruct (lp_event p); [|apply IH; assumption];
         destruct r0; cbn in *; try apply lg_sub_add; apply IH; assumption
       | rewrite Hleak; apply lg_sub_add ]).
Qed.

(* C15, last sentence, for the conformant model: on every exit path the ledger is what it was before the call *)
Lemma run_ledger_restored : forall legacy a L0 init pre h,
  r_exit (run all_off legacy a L0 init pre h) <> XPending ->
  r_ledger (run all_off legacy a L0 init pre h) = L0.
Proof.
  intros legacy a L0 init pre h. unfold run. destruct legacy.
  - unfold run_legacy. destruct (no_args a).
    + destruct (a_timeout a) as [T|]; [|reflexivity].
      intros Hx. rewrite <- (lg_add_zero L0) in Hx |- * at 1.
      apply (loop_ledger (mkp a (Some T) false false false false lg_zero) L0); [reflexivity|exact Hx].
    + destruct (immediate (cn_eff true a) a (truth_after init pre)) as [[[x|] hp0] fp0]; [reflexivity|].
      destruct (a_badexpr a); [cbn; intros _; apply lg_sub_add2|].
      match goal with |- context [if ?c then _ else _] => destruct c end.
      * cbn. intros _. apply lg_sub_add_add.
      * cbn [all_off d_now_restarts d_leak_legacy d_hold_latest d_hold_attr_cancels].
        set (subs := lg_add (legacy_state_subs a) (legacy_event_subs a)).
        replace (lg_add (lg_add L0 (legacy_state_subs a)) (legacy_event_subs a)) with (lg_add L0 subs).
        -- apply (loop_ledger (mkp a (a_timeout a) false false false false subs) L0). reflexivity.
        -- subst subs. destruct L0, (legacy_state_subs a), (legacy_event_subs a). unfold lg_add; cbn. f_equal; lia.
  - unfold run_dm.
    destruct (no_args a && match a_timeout a with None => true | Some _ => false end); [reflexivity|].
    destruct (a_badexpr a); [reflexivity|].
    match goal with |- context [if ?c then _ else _] => destruct c end; [reflexivity|].
    destruct (immediate (cn_eff false a) a (truth_after init pre)) as [[[x|] hp0] fp0]; [reflexivity|].
    match goal with |- context [if ?c then _ else _] => destruct c end; [reflexivity|].
    apply (loop_ledger (mkp a (dm_timeout all_off a) false false false false (dm_subs all_off a)) L0). reflexivity.
Qed.

(* ================================================================================================ *)
(* 2. first qualifying occurrence: the conformant loop computes the Spec                              *)
(* ================================================================================================ *)
(* the earlier of two optional candidates; the left one wins a tie *)
Definition emin (s e : option (Z * ret)) : option (Z * ret) :=
  match s, e with
  | Some (ts, rs), Some (te, re) => if ts <=? te then Some (ts, rs) else Some (te, re)
  | Some x, None => Some x
  | None, e' => e'
  end.

Lemma earliest_app_single : forall l x, earliest (l ++ [x]) = emin (earliest l) (Some x).
Proof.
  induction l as [|[t r] l IH]; intros [te re]; cbn [app earliest].
  - reflexivity.
  - rewrite IH. destruct (earliest l) as [[t' r']|]; cbn [emin].
    + destruct (t' <=? te) eqn:E1; destruct (t <=? t') eqn:E2; cbn; rewrite ?E1, ?E2;
        try reflexivity; destruct (t <=? te) eqn:E3; try reflexivity; lia.
    + destruct (t <=? te); reflexivity.
Qed.

Lemma earliest_timers : forall a T rs lk la af subs hp,
  earliest (timers (mkp a T rs lk la af subs) 0 hp)
  = emin (earliest (map (fun o => (o, RTime o)) (future_offs a) ++ map (fun T => (T, RTimeout)) (opt_list T)))
         (expiry (a_hold a) hp).
Proof.
  intros. unfold timers, hold_timer. cbn [mkp lp_offs lp_timeout lp_hold].
  replace (map (fun o : Z => (0 + o, RTime (0 + o))) (future_offs a)) with (map (fun o : Z => (o, RTime o)) (future_offs a))
    by (apply map_ext; intros; reflexivity).
  destruct (expiry (a_hold a) hp) as [x|]; cbn [opt_list].
  - rewrite app_assoc. apply earliest_app_single.
  - rewrite app_nil_r.
    destruct (earliest _) as [[? ?]|]; reflexivity.
Qed.

(* the next hold state is never due before the occurrence that produced it *)
Definition hp_ok (a : wargs) (lo : Z) (hp : option (Z * N)) : Prop :=
  forall te r, expiry (a_hold a) hp = Some (te, r) -> lo <= te.

Lemma hp_ok_none : forall a lo, hp_ok a lo None.
Proof. intros a lo te r H. cbn in H. discriminate. Qed.

Lemma hp_ok_start : forall a t n hp, args_ok a -> hp_ok a t hp ->
  hp_ok a t (match hp with None => Some (t, n) | Some _ => hp end).
Proof.
  intros a t n hp [Hh _] Hok. destruct hp as [[ts m]|]; [exact Hok|].
  intros te r H. cbn in H. destruct (a_hold a) as [H0|]; [|discriminate]. inversion H; subst. lia.
Qed.

Lemma hp_ok_weaken : forall a lo lo' hp, lo' <= lo -> hp_ok a lo hp -> hp_ok a lo' hp.
Proof. intros a lo lo' hp Hle Hok te r H. specialize (Hok te r H). lia. Qed.

(* one-step unfoldings with the let-bound continuation named *)
Definition deliver_of (p : lparams) (L : ledger) (base : Z) (hp : option (Z * N)) (fp : option Z) (t : Z) (o : occ)
  (rest : hist) : result :=
  let release := lg_sub L (lp_subs p) in
  match o with
  | OCancel => done XCancelled t (if lp_leak p then L else release)
  | OUnw => loop p L base hp fp rest
  | OAttr _ => if lp_state p then
                 if lp_attr_false p then loop p L (wake p base t) None (fp_on_false (lp_hf p) fp t) rest
                 else loop p L (wake p base t) hp fp rest
               else loop p L base hp fp rest
  | OState r n =>
      if lp_state p then
        match r with
        | SRaise => done (XExc EState) t release
        | STrue =>
            if hf_passed (lp_hf p) fp t then
              match lp_hold p with
              | None => done (XRet (RState n)) t release
              | Some _ => loop p L (wake p base t)
                               (match hp with
                                | None => Some (t, n)
                                | Some (ts, m) => Some (ts, if lp_latest p then n else m)
                                end) (fp_on_true (lp_hf p) fp) rest
              end
            else loop p L (wake p base t)
                      (match hp with None => None | Some (ts, m) => Some (ts, if lp_latest p then n else m) end)
                      (fp_on_true (lp_hf p) fp) rest
        | SFalse => loop p L (wake p base t) None (fp_on_false (lp_hf p) fp t) rest
        end
      else loop p L base hp fp rest
  | OEvent r n =>
      if lp_event p then
        match r with
        | SRaise => done (XExc EEvent) t release
        | STrue => done (XRet (REvent n)) t release
        | SFalse => loop p L (wake p base t) hp fp rest
        end
      else loop p L base hp fp rest
  end.

Lemma loop_cons : forall p L base hp fp t o rest,
  loop p L base hp fp ((t, o) :: rest)
  = match earliest (timers p base hp) with
    | Some (tm, r) => if tm <=? t then done (XRet r) tm (lg_sub L (lp_subs p)) else deliver_of p L base hp fp t o rest
    | None => deliver_of p L base hp fp t o rest
    end.
Proof. reflexivity. Qed.

Definition here_of (a : wargs) (hp : option (Z * N)) (fp : option Z) (t : Z) (o : occ) (rest : hist) : option (Z * exit) :=
  match o with
  | OCancel => Some (t, XCancelled)
  | OUnw | OAttr _ => first_occ a hp fp rest
  | OState r n =>
      if a_state a then
        match r with
        | SRaise => Some (t, XExc EState)
        | STrue =>
            if hf_passed (a_hf a) fp t then
              match a_hold a with
              | None => Some (t, XRet (RState n))
              | Some _ => first_occ a (match hp with None => Some (t, n) | Some _ => hp end) (fp_on_true (a_hf a) fp) rest
              end
            else first_occ a hp (fp_on_true (a_hf a) fp) rest
        | SFalse => first_occ a None (fp_on_false (a_hf a) fp t) rest
        end
      else first_occ a hp fp rest
  | OEvent r n =>
      if a_event a then
        match r with
        | SRaise => Some (t, XExc EEvent)
        | STrue => Some (t, XRet (REvent n))
        | SFalse => first_occ a hp fp rest
        end
      else first_occ a hp fp rest
  end.

Lemma first_occ_cons : forall a hp fp t o rest,
  first_occ a hp fp ((t, o) :: rest)
  = match expiry (a_hold a) hp with
    | Some (te, r) => if te <=? t then Some (te, XRet r) else here_of a hp fp t o rest
    | None => here_of a hp fp t o rest
    end.
Proof. reflexivity. Qed.

(* a lower bound for the continuation, given one for the recursive calls *)
Lemma here_lb_gen : forall a hp fp t o rest t' x,
  args_ok a -> hp_ok a t hp ->
  (forall hp' fp', hp_ok a t hp' -> first_occ a hp' fp' rest = Some (t', x) -> t <= t') ->
  here_of a hp fp t o rest = Some (t', x) -> t <= t'.
Proof.
  intros a hp fp t o rest t' x Ha Hok Hrec Hf.
  destruct o as [r0 n|n| |r0 n|]; cbn [here_of] in Hf.
  - destruct (a_state a); [|eauto].
    destruct r0; [destruct (hf_passed (a_hf a) fp t); [destruct (a_hold a) eqn:Eh|]| |].
    + eapply Hrec; [|exact Hf]. apply hp_ok_start; assumption.
    + inversion Hf; subst; lia.
    + eauto.
    + eapply Hrec; [|exact Hf]. apply hp_ok_none.
    + inversion Hf; subst; lia.
  - eauto.
  - eauto.
  - destruct (a_event a); [|eauto]. destruct r0; try (inversion Hf; subst; lia). eauto.
  - inversion Hf; subst; lia.
Qed.

Lemma first_occ_lb : forall a h lo hp fp t x,
  args_ok a -> timed_from lo h -> hp_ok a lo hp -> first_occ a hp fp h = Some (t, x) -> lo <= t.
Proof.
  intros a h. induction h as [|[t0 o] rest IH]; intros lo hp fp t x Ha Ht Hok Hf.
  - cbn [first_occ] in Hf. destruct (expiry (a_hold a) hp) as [[te r]|] eqn:E; [|discriminate].
    inversion Hf; subst. apply (Hok _ _ E).
  - rewrite first_occ_cons in Hf. destruct Ht as [Hlo Ht].
    assert (Hrec : forall hp' fp', hp_ok a t0 hp' -> first_occ a hp' fp' rest = Some (t, x) -> t0 <= t)
      by (intros hp' fp' Hok' Hf'; exact (IH t0 hp' fp' t x Ha Ht Hok' Hf')).
    destruct (expiry (a_hold a) hp) as [[te r]|] eqn:E.
    + destruct (te <=? t0) eqn:Ele.
      * inversion Hf; subst. apply (Hok _ _ E).
      * assert (Hok0 : hp_ok a t0 hp) by (intros te' r' E'; rewrite E in E'; inversion E'; subst; lia).
        pose proof (here_lb_gen a hp fp t0 o rest t x Ha Hok0 Hrec Hf). lia.
    + assert (Hok0 : hp_ok a t0 hp) by (intros te' r' E'; rewrite E in E'; discriminate).
      pose proof (here_lb_gen a hp fp t0 o rest t x Ha Hok0 Hrec Hf). lia.
Qed.

Lemma here_lb : forall a hp fp t o rest t' x,
  args_ok a -> timed_from t rest -> hp_ok a t hp -> here_of a hp fp t o rest = Some (t', x) -> t <= t'.
Proof.
  intros a hp fp t o rest t' x Ha Ht Hok Hf.
  eapply here_lb_gen; eauto. intros hp' fp' Hok' Hf'. eapply first_occ_lb; eauto.
Qed.

Definition static_not_due (S : option (Z * ret)) (t : Z) : Prop :=
  match S with Some (ts, _) => t < ts | None => True end.

Lemma pick_not_due_here : forall S t x, static_not_due S t -> pick S (Some (t, x)) = (x, t).
Proof.
  intros [[ts rs]|] t x H; cbn in *; [|reflexivity].
  destruct (ts <=? t) eqn:E; [lia|reflexivity].
Qed.

Lemma deliver_here : forall a T lk subs L hp fp t o rest S,
  args_ok a -> hp_ok a t hp -> static_not_due S t ->
  (forall hp' fp', hp_ok a t hp' ->
     outcome (loop (mkp a T false lk false false subs) L 0 hp' fp' rest) = pick S (first_occ a hp' fp' rest)) ->
  outcome (deliver_of (mkp a T false lk false false subs) L 0 hp fp t o rest) = pick S (here_of a hp fp t o rest).
Proof.
  intros a T lk subs L hp fp t o rest S Ha Hok Hnd Hcont.
  destruct o as [r0 n|n| |r0 n|];
    cbn [deliver_of here_of mkp lp_state lp_event lp_hold lp_hf lp_restart lp_latest lp_attr_false wake].
  - destruct (a_state a); [|apply Hcont; assumption].
    destruct r0; [destruct (hf_passed (a_hf a) fp t); [destruct (a_hold a) eqn:Eh|]| |].
    + replace (match hp with Some (ts, m) => Some (ts, m) | None => Some (t, n) end)
        with (match hp with Some _ => hp | None => Some (t, n) end) by (destruct hp as [[? ?]|]; reflexivity).
      apply Hcont. apply hp_ok_start; assumption.
    + rewrite pick_not_due_here by assumption. reflexivity.
    + replace (match hp with Some (ts, m) => Some (ts, m) | None => None end) with hp
        by (destruct hp as [[? ?]|]; reflexivity).
      apply Hcont. assumption.
    + apply Hcont. apply hp_ok_none.
    + rewrite pick_not_due_here by assumption. reflexivity.
  - destruct (a_state a); apply Hcont; assumption.
  - apply Hcont; assumption.
  - destruct (a_event a); [|apply Hcont; assumption].
    destruct r0; try (rewrite pick_not_due_here by assumption; reflexivity). apply Hcont; assumption.
  - rewrite pick_not_due_here by assumption. reflexivity.
Qed.

(* the conformant loop (no re-basing of `now`) returns the earlier of the earliest fixed instant and the first
   qualifying occurrence *)
Lemma loop_spec : forall a T lk subs, args_ok a ->
  forall h L lo hp fp, timed_from lo h -> hp_ok a lo hp ->
  outcome (loop (mkp a T false lk false false subs) L 0 hp fp h)
  = pick (earliest (map (fun o => (o, RTime o)) (future_offs a) ++ map (fun T => (T, RTimeout)) (opt_list T)))
         (first_occ a hp fp h).
Proof.
  intros a T lk subs Ha.
  set (S := earliest (map (fun o => (o, RTime o)) (future_offs a) ++ map (fun T => (T, RTimeout)) (opt_list T))).
  induction h as [|[t o] rest IH]; intros L lo hp fp Ht Hok.
  - cbn [loop first_occ]. rewrite earliest_timers. fold S.
    destruct S as [[ts rs]|]; destruct (expiry (a_hold a) hp) as [[te re]|]; cbn [emin pick]; try reflexivity.
    destruct (ts <=? te); reflexivity.
  - rewrite loop_cons, first_occ_cons, earliest_timers. fold S. destruct Ht as [Hlo Ht].
    assert (Hcont : forall hp' fp', hp_ok a t hp' ->
              outcome (loop (mkp a T false lk false false subs) L 0 hp' fp' rest) = pick S (first_occ a hp' fp' rest))
      by (intros hp' fp' Hok'; apply IH with (lo := t); assumption).
    destruct (expiry (a_hold a) hp) as [[te re]|] eqn:EE.
    + destruct (te <=? t) eqn:Ete.
      * destruct S as [[ts rs]|]; cbn [emin pick].
        -- destruct (ts <=? te) eqn:E1.
           ++ replace (ts <=? t) with true by lia. reflexivity.
           ++ rewrite Ete. reflexivity.
        -- rewrite Ete. reflexivity.
      * assert (Hok0 : hp_ok a t hp) by (intros te' r' E'; rewrite EE in E'; inversion E'; subst; lia).
        destruct S as [[ts rs]|] eqn:ES; cbn [emin].
        -- destruct (ts <=? te) eqn:E1.
           ++ destruct (ts <=? t) eqn:E2.
              ** destruct (here_of a hp fp t o rest) as [[t' x]|] eqn:EH; cbn [pick]; [|reflexivity].
                 assert (t <= t') by (eapply here_lb; eauto).
                 replace (ts <=? t') with true by lia. reflexivity.
              ** apply deliver_here; try assumption. cbn. lia.
           ++ rewrite Ete. apply deliver_here; try assumption. cbn. lia.
        -- rewrite Ete. apply deliver_here; try assumption. exact I.
    + assert (Hok0 : hp_ok a t hp) by (intros te' r' E'; rewrite EE in E'; discriminate).
      destruct S as [[ts rs]|] eqn:ES; cbn [emin].
      * destruct (ts <=? t) eqn:E2.
        -- destruct (here_of a hp fp t o rest) as [[t' x]|] eqn:EH; cbn [pick]; [|reflexivity].
           assert (t <= t') by (eapply here_lb; eauto).
           replace (ts <=? t') with true by lia. reflexivity.
        -- apply deliver_here; try assumption. cbn. lia.
      * apply deliver_here; try assumption. exact I.
Qed.

Lemma statics_nil : forall a,
  match statics a with [] => true | _ => false end
  = match future_offs a, a_timeout a with [], None => true | _, _ => false end.
Proof. intros a. unfold statics. destruct (future_offs a); destruct (a_timeout a); reflexivity. Qed.

Lemma immediate_hp_ok : forall cn a truth hp0 fp0, args_ok a -> immediate cn a truth = (None, hp0, fp0) -> hp_ok a 0 hp0.
Proof.
  intros cn a truth hp0 fp0 [Hh _] H. unfold immediate in H.
  destruct (a_state a && _); [|inversion H; apply hp_ok_none].
  destruct truth; [destruct cn; [destruct (a_hold a) as [H0|] eqn:Eh|]| |]; inversion H; subst; try apply hp_ok_none.
  intros te r E. cbn in E. rewrite Eh in E. inversion E; subst. lia.
Qed.

Lemma immediate_nostate : forall cn a truth, a_state a = false -> immediate cn a truth = (None, None, None).
Proof. intros cn a truth H. unfold immediate. rewrite H. reflexivity. Qed.

Lemma dm_timeout_all_off : forall a, dm_timeout all_off a = a_timeout a.
Proof. intros a. unfold dm_timeout. destruct (a_timeout a); reflexivity. Qed.

(* C15, first sentence, for the conformant model of both subsystems *)
Lemma run_first : forall legacy a L0 init pre h,
  args_ok a -> a_badexpr a = false -> timed h ->
  outcome (run all_off legacy a L0 init pre h) = spec_run a (truth_after init pre) h.
Proof.
  intros legacy a L0 init pre h Ha Hb Ht. unfold run, spec_run.
  set (truth := truth_after init pre).
  assert (Hcn : forall lg, cn_eff lg a = match a_cn a with Some b => b | None => spec_cn_default end).
  { intros lg. unfold cn_eff. destruct (a_cn a); [reflexivity|]. destruct lg; reflexivity. }
  set (cn := match a_cn a with Some b => b | None => spec_cn_default end) in *.
  destruct legacy.
  - unfold run_legacy. rewrite Hcn, Hb.
    destruct (no_args a) eqn:Hna.
    + unfold no_args in Hna. rewrite !andb_true_iff, !negb_true_iff in Hna. destruct Hna as [[[Hs He] _] Htm].
      rewrite (immediate_nostate cn a truth Hs), Hs, He. cbn [negb andb].
      rewrite statics_nil.
      assert (Hfo : future_offs a = []) by (unfold future_offs; destruct (a_times a); [discriminate|reflexivity]).
      rewrite Hfo. destruct (a_timeout a) as [T|] eqn:ET; [|reflexivity].
      rewrite (loop_spec a (Some T) false lg_zero Ha h L0 0 None None Ht (hp_ok_none a 0)).
      unfold statics. rewrite ET. reflexivity.
    + destruct (immediate cn a truth) as [[[x|] hp0] fp0] eqn:EI; [reflexivity|].
      rewrite statics_nil.
      destruct (negb (a_state a) && negb (a_event a)
                && match future_offs a, a_timeout a with [], None => true | _, _ => false end) eqn:EN.
      * reflexivity.
      * cbn [all_off d_now_restarts d_leak_legacy d_hold_latest d_hold_attr_cancels].
        rewrite (loop_spec a (a_timeout a) false _ Ha h _ 0 hp0 fp0 Ht (immediate_hp_ok cn a truth hp0 fp0 Ha EI)).
        reflexivity.
  - unfold run_dm. rewrite Hcn, Hb, dm_timeout_all_off.
    destruct (no_args a && match a_timeout a with None => true | Some _ => false end) eqn:Hna.
    + rewrite andb_true_iff in Hna. destruct Hna as [Hna Hto].
      unfold no_args in Hna. rewrite !andb_true_iff, !negb_true_iff in Hna. destruct Hna as [[[Hs He] _] Htm].
      rewrite (immediate_nostate cn a truth Hs), Hs, He. cbn [negb andb].
      rewrite statics_nil.
      assert (Hfo : future_offs a = []) by (unfold future_offs; destruct (a_times a); [discriminate|reflexivity]).
      rewrite Hfo. destruct (a_timeout a); [discriminate|reflexivity].
    + destruct (immediate cn a truth) as [[[x|] hp0] fp0] eqn:EI; [reflexivity|].
      rewrite statics_nil. cbn [all_off d_none_eager d_leak_dm d_hold_latest d_hold_attr_cancels orb].
      (* the two formulations of "only exhausted time triggers" agree *)
      assert (Heq : (match a_times a with Some _ => true | None => false end
                     && match future_offs a with [] => true | _ => false end
                     && (negb (a_state a) && negb (a_event a) && match a_timeout a with None => true | Some _ => false end))
                    = (negb (a_state a) && negb (a_event a)
                       && match future_offs a, a_timeout a with [], None => true | _, _ => false end)).
      { unfold no_args in Hna. rewrite Hb in Hna. unfold future_offs in *.
        destruct (a_state a), (a_event a), (a_times a) as [l|], (a_timeout a); cbn in *; try reflexivity; try discriminate;
          destruct (filter (fun o : Z => 0 <? o) l); reflexivity. }
      rewrite Heq.
      destruct (negb (a_state a) && negb (a_event a)
                && match future_offs a, a_timeout a with [], None => true | _, _ => false end) eqn:EN.
      * reflexivity.
      * rewrite (loop_spec a (a_timeout a) false _ Ha h _ 0 hp0 fp0 Ht (immediate_hp_ok cn a truth hp0 fp0 Ha EI)).
        reflexivity.
Qed.

(* ================================================================================================ *)
(* 3. deaf outside the call                                                                          *)
(* ================================================================================================ *)
Lemma loop_fires : forall p L base hp fp h tm r,
  earliest (timers p base hp) = Some (tm, r) -> (forall t o, In (t, o) h -> tm <= t) ->
  loop p L base hp fp h = done (XRet r) tm (lg_sub L (lp_subs p)).
Proof.
  intros p L base hp fp h tm r He Hall. destruct h as [|[t o] rest]; cbn [loop]; rewrite He; [reflexivity|].
  replace (tm <=? t) with true; [reflexivity|]. specialize (Hall t o (or_introl eq_refl)). lia.
Qed.

(* whatever happens at or after the instant of the exit does not change it (any switches) *)
Lemma loop_deaf_after : forall p L h1 h2 base hp fp,
  r_exit (loop p L base hp fp h1) <> XPending ->
  (forall t o, In (t, o) h2 -> r_time (loop p L base hp fp h1) <= t) ->
  loop p L base hp fp (h1 ++ h2) = loop p L base hp fp h1.
Proof.
  intros p L h1 h2. induction h1 as [|[t o] rest IH]; intros base hp fp Hx Hall.
  - cbn [app]. cbn [loop] in Hx, Hall |- *.
    destruct (earliest (timers p base hp)) as [[tm r]|] eqn:He; [|cbn in Hx; congruence].
    cbn in Hall. rewrite (loop_fires p L base hp fp h2 tm r He Hall). destruct h2; reflexivity.
  - rewrite <- app_comm_cons. rewrite loop_cons in Hx, Hall |- *. rewrite loop_cons.
    assert (HD : r_exit (deliver_of p L base hp fp t o rest) <> XPending ->
                 (forall t' o', In (t', o') h2 -> r_time (deliver_of p L base hp fp t o rest) <= t') ->
                 deliver_of p L base hp fp t o (rest ++ h2) = deliver_of p L base hp fp t o rest).
    { clear Hx Hall. destruct o as [r0 n|n| |r0 n|]; cbn [deliver_of].
      - destruct (lp_state p); [|apply IH].
        destruct r0; [destruct (hf_passed (lp_hf p) fp t); [destruct (lp_hold p)|]| |]; try (intros; reflexivity); apply IH.
      - destruct (lp_state p); [destruct (lp_attr_false p)|]; apply IH.
      - apply IH.
      - destruct (lp_event p); [|apply IH]. destruct r0; try (intros; reflexivity); apply IH.
      - intros; reflexivity. }
    destruct (earliest (timers p base hp)) as [[tm r]|].
    + destruct (tm <=? t); [reflexivity|]. apply HD; assumption.
    + apply HD; assumption.
Qed.

Lemma run_deaf_after : forall cfg legacy a L0 init pre h1 h2,
  r_exit (run cfg legacy a L0 init pre h1) <> XPending ->
  (forall t o, In (t, o) h2 -> r_time (run cfg legacy a L0 init pre h1) <= t) ->
  run cfg legacy a L0 init pre (h1 ++ h2) = run cfg legacy a L0 init pre h1.
Proof.
  intros cfg legacy a L0 init pre h1 h2. unfold run. destruct legacy.
  - unfold run_legacy. destruct (no_args a).
    + destruct (a_timeout a); [apply loop_deaf_after|reflexivity].
    + destruct (immediate _ a _) as [[[x|] hp0] fp0]; [reflexivity|].
      destruct (a_badexpr a); [reflexivity|].
      match goal with |- context [if ?c then _ else _] => destruct c end; [reflexivity|].
      apply loop_deaf_after.
  - unfold run_dm.
    destruct (no_args a && match a_timeout a with None => true | Some _ => false end); [reflexivity|].
    destruct (a_badexpr a); [reflexivity|].
    match goal with |- context [if ?c then _ else _] => destruct c end; [reflexivity|].
    destruct (immediate _ a _) as [[[x|] hp0] fp0]; [reflexivity|].
    match goal with |- context [if ?c then _ else _] => destruct c end; [reflexivity|].
    apply loop_deaf_after.
Qed.

(* occurrences before the call matter only through the current value of the state expression, and not even
   through that when state_check_now is not in effect (any switches) *)
Lemma immediate_no_check : forall a truth truth', a_state a = false -> immediate true a truth = immediate true a truth'.
Proof. intros a truth truth' H. unfold immediate. rewrite H. reflexivity. Qed.

Lemma run_deaf_before : forall cfg legacy a L0 init pre init' pre' h,
  truth_after init pre = truth_after init' pre' \/ a_state a = false \/ (cn_eff legacy a = false /\ a_hf a = None) ->
  run cfg legacy a L0 init pre h = run cfg legacy a L0 init' pre' h.
Proof.
  intros cfg legacy a L0 init pre init' pre' h H. unfold run.
  destruct H as [H|H]; [rewrite H; reflexivity|].
  assert (Hi : forall t t', immediate (cn_eff legacy a) a t = immediate (cn_eff legacy a) a t').
  { intros t t'. unfold immediate. destruct H as [H|[H1 H2]]; [rewrite H; reflexivity|]. rewrite H1, H2. rewrite andb_false_r. reflexivity. }
  destruct legacy.
  - unfold run_legacy. rewrite (Hi (truth_after init pre) (truth_after init' pre')). reflexivity.
  - unfold run_dm. rewrite (Hi (truth_after init pre) (truth_after init' pre')). reflexivity.
Qed.

Lemma run_deaf_outside : forall cfg legacy a L0 init pre h1,
  (forall init' pre', truth_after init pre = truth_after init' pre' ->
     run cfg legacy a L0 init pre h1 = run cfg legacy a L0 init' pre' h1)
  /\ (forall h2, r_exit (run cfg legacy a L0 init pre h1) <> XPending ->
        (forall t o, In (t, o) h2 -> r_time (run cfg legacy a L0 init pre h1) <= t) ->
        run cfg legacy a L0 init pre (h1 ++ h2) = run cfg legacy a L0 init pre h1).
Proof.
  intros cfg legacy a L0 init pre h1. split.
  - intros init' pre' H. apply run_deaf_before. left. exact H.
  - intros h2. apply run_deaf_after.
Qed.

(* ================================================================================================ *)
(* 4. what the correspondence evaluates: Model = code  implies  Spec holds (conformant switches)     *)
(* ================================================================================================ *)
Lemma wcase_model_implies_spec : forall c,
  wcase_wf c -> wcase_model_ok all_off c = true ->
  o_dict_ok (wc_obs c) = true -> o_late (wc_obs c) = 0%N -> o_other_ok (wc_obs c) = true ->
  o_leak_end (wc_obs c) = (0, 0, 0, 0) ->
  wcase_spec_ok c = true.
Proof.
  intros c [Ha [Hb Ht]] Hm Hd Hl Ho Hle. unfold wcase_model_ok, model_of in Hm. unfold wcase_spec_ok.
  pose proof (run_first (wc_legacy c) (wc_args c) lg_zero (wc_init c) (wc_pre c) (wc_hist c) Ha Hb Ht) as Hf.
  pose proof (run_ledger_restored (wc_legacy c) (wc_args c) lg_zero (wc_init c) (wc_pre c) (wc_hist c)) as Hled.
  destruct (spec_run (wc_args c) (truth_after (wc_init c) (wc_pre c)) (wc_hist c)) as [x t].
  unfold outcome in Hf. injection Hf as Hx Htm. rewrite Hx, Htm in Hm.
  rewrite Hd, Hl, Ho, Hle. cbn [N.eqb andb].
  assert (Hend : match o_exit (wc_obs c) with XPending => true | _ => leak_eqb (0, 0, 0, 0) (0, 0, 0, 0) end = true)
    by (destruct (o_exit (wc_obs c)); reflexivity).
  rewrite Hend, !andb_true_r. apply orb_true_iff. left.
  destruct x as [r|k| |].
  - rewrite Hled in Hm by (rewrite Hx; discriminate). exact Hm.
  - rewrite Hled in Hm by (rewrite Hx; discriminate). exact Hm.
  - rewrite Hled in Hm by (rewrite Hx; discriminate). exact Hm.
  - exact Hm.
Qed.

(* ================================================================================================ *)
(* 5. refutations: with one switch on (= today's code) the witness of the finding violates the Spec  *)
(* ================================================================================================ *)
Definition w_args (st : bool) (cn : option bool) (times : option (list Z)) (ev : bool) (to : option Z) (bad : bool) : wargs :=
  {| a_state := st; a_cn := cn; a_hold := None; a_hf := None; a_times := times; a_event := ev; a_timeout := to;
     a_badexpr := bad; a_shared := false |}.

Lemma refuted_D18 : exists a init pre h,
  args_ok a /\ a_badexpr a = false /\ timed h /\
  outcome (run only_D18 false a lg_zero init pre h) <> spec_run a (truth_after init pre) h.
Proof.
  exists (w_args false None None true (Some 0) false), SFalse, [], [(3000, OEvent STrue 1%N)].
  repeat split; cbn; try lia. vm_compute. discriminate.
Qed.

Lemma refuted_D19_legacy : exists a init pre h,
  timed h /\ r_exit (run only_D19 true a lg_zero init pre h) = XCancelled /\
  r_ledger (run only_D19 true a lg_zero init pre h) <> lg_zero.
Proof.
  exists (w_args true (Some false) None true None false), SFalse, [], [(1125, OCancel)].
  repeat split; cbn; try lia. vm_compute. discriminate.
Qed.

Lemma refuted_D19_new : exists a init pre h,
  timed h /\ r_exit (run only_D150 false a lg_zero init pre h) = XCancelled /\
  r_ledger (run only_D150 false a lg_zero init pre h) <> lg_zero.
Proof.
  exists (w_args true (Some false) None true None false), SFalse, [], [(1125, OCancel)].
  repeat split; cbn; try lia. vm_compute. discriminate.
Qed.

Lemma refuted_D151 : exists a init pre h,
  args_ok a /\ a_badexpr a = false /\ timed h /\
  outcome (run only_D151 true a lg_zero init pre h) <> spec_run a (truth_after init pre) h.
Proof.
  exists (w_args false None (Some [1250]) true None false), SFalse, [], [(1000, OEvent SFalse 1%N)].
  repeat split; cbn; try lia. vm_compute. discriminate.
Qed.

Lemma refuted_D152 : exists a init pre h,
  r_exit (run only_D152 true a lg_zero init pre h) = XExc ESyntax /\
  r_ledger (run only_D152 true a lg_zero init pre h) <> lg_zero.
Proof.
  exists (w_args false None None true None true), SFalse, [], [].
  split; vm_compute; [reflexivity|discriminate].
Qed.

Lemma refuted_D153 : exists a init pre h,
  args_ok a /\ a_badexpr a = false /\ timed h /\
  outcome (run only_D153 false a lg_zero init pre h) <> spec_run a (truth_after init pre) h.
Proof.
  exists (w_args true None (Some [-1000]) false None false), SFalse, [], [(2000, OState STrue 1%N)].
  repeat split; cbn; try lia. vm_compute. discriminate.
Qed.

Definition w_hold_args : wargs :=
  {| a_state := true; a_cn := Some false; a_hold := Some 2750; a_hf := None; a_times := None; a_event := false;
     a_timeout := None; a_badexpr := false; a_shared := false |}.

Lemma refuted_D154 : exists a init pre h,
  args_ok a /\ a_badexpr a = false /\ timed h /\
  outcome (run only_D154 false a lg_zero init pre h) <> spec_run a (truth_after init pre) h.
Proof.
  exists w_hold_args, SFalse, [], [(1000, OState STrue 1%N); (1400, OState STrue 2%N)].
  repeat split; cbn; try lia. vm_compute. discriminate.
Qed.

Lemma refuted_D155 : exists a init pre h,
  args_ok a /\ a_badexpr a = false /\ timed h /\
  outcome (run only_D155 false a lg_zero init pre h) <> spec_run a (truth_after init pre) h.
Proof.
  exists w_hold_args, SFalse, [], [(1000, OState STrue 1%N); (2000, OAttr 2%N)].
  repeat split; cbn; try lia. vm_compute. discriminate.
Qed.

(* the hold period is neither restarted nor cancelled by further true evaluations, and the first dictionary is kept *)
Example ex_hold_not_restarted :
  let h := [(1000, OState STrue 1%N); (1400, OState STrue 2%N); (2000, OAttr 3%N); (2600, OState STrue 4%N)] in
  outcome (run all_off true w_hold_args lg_zero SFalse [] h) = (XRet (RState 1), 3750)
  /\ outcome (run all_off false w_hold_args lg_zero SFalse [] h) = (XRet (RState 1), 3750)
  /\ spec_run w_hold_args SFalse h = (XRet (RState 1), 3750).
Proof. vm_compute. repeat split. Qed.

(* ================================================================================================ *)
(* 6. the hypotheses are inhabited by non-trivial instances                                          *)
(* ================================================================================================ *)
Definition ex_args : wargs :=
  {| a_state := true; a_cn := Some false; a_hold := Some 1750; a_hf := None; a_times := Some [3250; -1000]; a_event := true;
     a_timeout := Some 4500; a_badexpr := false; a_shared := false |}.
Definition ex_hist : hist :=
  [(1000, OEvent SFalse 1%N); (2000, OState STrue 2%N); (2125, OCancel); (3000, OState SFalse 3%N); (4000, OEvent STrue 4%N)].

Example ex_first_hyps : args_ok ex_args /\ a_badexpr ex_args = false /\ timed ex_hist.
Proof. repeat split; cbn; lia. Qed.

(* on it both subsystems are cancelled at 2.125 s, as the Spec says, and restore the ledger *)
Example ex_first_instance :
  outcome (run all_off true ex_args lg_zero STrue [] ex_hist) = (XCancelled, 2125)
  /\ outcome (run all_off false ex_args lg_zero STrue [] ex_hist) = (XCancelled, 2125)
  /\ spec_run ex_args STrue ex_hist = (XCancelled, 2125).
Proof. vm_compute. repeat split. Qed.

(* without the cancellation the state trigger, held for 1.75 s, returns at 3.75 s?  no: the expression turns false at
   3 s, so the time trigger at 3.25 s is first *)
Example ex_deaf_after_instance :
  let h1 := [(1000, OEvent SFalse 1%N); (2000, OState STrue 2%N); (3000, OState SFalse 3%N)] in
  let h2 := [(4000, OEvent STrue 4%N)] in
  r_exit (run all_off true ex_args lg_zero STrue [] h1) = XRet (RTime 3250)
  /\ (forall t o, In (t, o) h2 -> r_time (run all_off true ex_args lg_zero STrue [] h1) <= t).
Proof.
  cbn zeta. split; [vm_compute; reflexivity|].
  intros t o [H|[]]. inversion H; subst. vm_compute. discriminate.
Qed.

Example ex_deaf_before_instance :
  truth_after SFalse [(-2000, OState STrue 1%N); (-1000, OState SFalse 2%N); (-1000, OEvent STrue 3%N)]
  = truth_after SFalse [].
Proof. reflexivity. Qed.

Example ex_model_implies_spec_hyps :
  let c := {| wc_legacy := false; wc_args := ex_args; wc_init := STrue; wc_pre := []; wc_hist := ex_hist;
              wc_obs := {| o_exit := XCancelled; o_time := 2125; o_dict_ok := true; o_leak := Some (0, 0, 0, 0);
                           o_leak_end := (0, 0, 0, 0); o_late := 0; o_other_ok := true |} |} in
  wcase_wf c /\ wcase_model_ok all_off c = true.
Proof. cbn zeta. split; [exact ex_first_hyps|vm_compute; reflexivity]. Qed.
