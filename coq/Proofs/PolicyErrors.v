(* Proofs/PolicyErrors.v — C18 containment: for every entry point, subsystem and user outcome the wrapper logs
   exactly once, lets nothing out and leaves the trigger serving; by induction for every history of occurrences,
   every list of done-callbacks and every list of script files.  The except classes come from Gen/ErrorConsts.v, so
   these proofs are re-run against what the source says on every check. *)
From PV Require Import Common.Util Gen.ErrorConsts Policy.Errors.
From Coq Require Import Lia.

Definition clean_result (o : outcome) : ostate := mkO None (if raises o then [LScript] else []) true SkNone.

(* one occurrence, conformant switches: every entry kind, both subsystems, every outcome *)
Lemma site_contained : forall sub e o, run_site all_off sub e o = clean_result o.
Proof. intros sub e o. destruct sub, e, o as [|[|]]; reflexivity. Qed.

(* today's code: the same holds for every exception that is an Exception, at every entry point but the default
   subsystem's trigger function (D180) *)
Lemma site_contained_today : forall sub e o,
  o <> ORaise KBase -> (sub, e) <> (Dm, ETrigFunc) -> run_site as_is sub e o = clean_result o.
Proof.
  intros sub e o Ho He. destruct o as [|[|]]; [| |congruence]; destruct sub, e; try reflexivity; congruence.
Qed.

Lemma callbacks_all_off : forall outs,
  run_callbacks all_off outs = mkCb (map (fun _ => true) outs) (map (fun _ => LScript) (filter raises outs)) SkNone.
Proof.
  unfold run_callbacks. induction outs as [|o r IH]; [reflexivity|].
  cbn [run_callbacks_c]. rewrite IH. destruct o as [|[|]]; cbn; try reflexivity.
  all: rewrite andb_false_r; reflexivity.
Qed.

Lemma count_script_map {A} (l : list A) : count_logger LScript (map (fun _ => LScript) l) = N.of_nat (length l).
Proof. unfold count_logger. induction l as [|a l IH]; [reflexivity|]. cbn [map filter length]. f_equal. cbn. f_equal.
  apply Nat2N.inj in IH. exact IH. Qed.

Lemma list_eqb_bool_refl l : list_eqb Bool.eqb l l = true.
Proof. induction l as [|b l IH]; [reflexivity|]. cbn. rewrite IH. destruct b; reflexivity. Qed.

Lemma occ_contained : forall sub m oc, (forall e, m e = true) ->
  occ_ok oc (snd (occ_step all_off sub m oc)) = true /\ forall e, fst (occ_step all_off sub m oc) e = true.
Proof.
  intros sub m oc Hm. unfold occ_step. destruct oc as [e o|outs| |e o]; cbn [occ_step_c].
  - fold (run_site all_off sub e o). rewrite Hm, site_contained. cbn [fst snd]. split.
    + destruct o as [|k]; reflexivity.
    + intros e'. unfold set_alive. cbn. destruct (entry_eqb e e'); [reflexivity|apply Hm].
  - fold (run_callbacks all_off outs). rewrite callbacks_all_off. cbn [fst snd cb_logs cb_sink cb_ran occ_ok ob_served ob_script_logs ob_sink ob_cb_ran].
    split; [|exact Hm]. rewrite count_script_map, N.eqb_refl, list_eqb_bool_refl. reflexivity.
  - split; reflexivity.
  - fold (run_site all_off sub e o). rewrite Hm, site_contained. cbn [fst snd]. split; [|reflexivity].
    destruct o as [|k]; reflexivity.
Qed.

Theorem history_contained : forall sub h m, (forall e, m e = true) ->
  history_ok h (snd (run_history all_off sub m h)) = true /\ forall e, fst (run_history all_off sub m h) e = true.
Proof.
  intros sub h. induction h as [|oc r IH]; intros m Hm; [split; [reflexivity|exact Hm]|].
  unfold run_history in *. cbn [run_history_c]. fold (occ_step all_off sub m oc).
  destruct (occ_contained sub m oc Hm) as [H1 H2].
  destruct (occ_step all_off sub m oc) as [m1 ob] eqn:E1. cbn [fst snd] in H1, H2.
  destruct (IH m1 H2) as [H3 H4].
  destruct (run_history_c gen_classes all_off sub m1 r) as [m2 obs] eqn:E2. cbn [fst snd] in *.
  split; [|exact H4]. cbn [history_ok]. rewrite H1, H3. reflexivity.
Qed.

(* whatever the switches: an occurrence of one entry kind does not touch the serving state of any other *)
Theorem others_undisturbed : forall dv sub m oc e',
  (match oc with OUser e _ => e <> e' | OCallbacks _ => True | OReload => False | OLate _ _ => False end) ->
  fst (occ_step dv sub m oc) e' = m e'.
Proof.
  intros dv sub m oc e' H. unfold occ_step. destruct oc as [e o|outs| |e o]; cbn [occ_step_c]; [|reflexivity|contradiction|contradiction].
  destruct (m e) eqn:Em; [|reflexivity]. cbn [fst]. unfold set_alive.
  destruct (entry_eqb e e') eqn:Ee; [|reflexivity]. destruct e, e'; cbn in Ee; try discriminate; congruence.
Qed.

(* script load: a failing file is reported once, stays unloaded, and every other file loads *)
Theorem load_isolated : forall files, load_ok files (load_scripts all_off files) = true.
Proof.
  unfold load_ok, load_scripts. induction files as [|o r IH]; [reflexivity|].
  assert (E : fold_left (layer_step all_off) [LCatchLogRaise (c_load_file gen_classes); LCatchOther (c_load_scripts gen_classes); LEnd SkHA] (start_of o)
              = mkO None (if raises o then [LScript; LOther] else []) true SkNone).
  { destruct o as [|[|]]; reflexivity. }
  cbn [load_scripts_c]. rewrite E. cbn [o_sink sink_none o_logs l_loaded l_script_logs l_sink map].
  apply andb_true_iff in IH as [IH1 IH3]. apply andb_true_iff in IH1 as [IH1 IH2].
  rewrite IH1. cbn [list_eqb]. rewrite IH2, IH3.
  destruct o as [|k]; reflexivity.
Qed.

(* today's code on ordinary exceptions: same statement for files whose load raises an Exception *)
Theorem load_isolated_today : forall files, Forall (fun o => o <> ORaise KBase) files -> load_ok files (load_scripts as_is files) = true.
Proof.
  unfold load_ok, load_scripts. induction files as [|o r IH]; intros HF; [reflexivity|].
  inversion HF as [|? ? Ho Hr]; subst.
  assert (E : fold_left (layer_step as_is) [LCatchLogRaise (c_load_file gen_classes); LCatchOther (c_load_scripts gen_classes); LEnd SkHA] (start_of o)
              = mkO None (if raises o then [LScript; LOther] else []) true SkNone).
  { destruct o as [|[|]]; try reflexivity. congruence. }
  cbn [load_scripts_c]. rewrite E. cbn [o_sink sink_none o_logs l_loaded l_script_logs l_sink map].
  specialize (IH Hr). apply andb_true_iff in IH as [IH1 IH3]. apply andb_true_iff in IH1 as [IH1 IH2].
  rewrite IH1. cbn [list_eqb]. rewrite IH2, IH3.
  destruct o as [|k]; reflexivity.
Qed.

(* ---------- the deviations of today's code, on witnesses ---------- *)
Definition only_base : deviations := mkDev true false false.
Definition only_nowrap : deviations := mkDev false true false.
Definition only_break : deviations := mkDev false false true.

(* D181: a BaseException raised by a legacy trigger expression is not logged and ends the trigger: the next
   occurrence is not served *)
Lemma refuted_D181 :
  let h := [OUser EExprEvent (ORaise KBase); OUser EExprEvent ORet] in
  history_ok h (snd (run_history_c today_classes only_base Legacy all_alive h)) = false /\
  map ob_served (snd (run_history_c today_classes only_base Legacy all_alive h)) = [true; false].
Proof. split; reflexivity. Qed.

(* D181, service call: the exception reaches Home Assistant's caller *)
Lemma refuted_D181_service : forall sub, o_sink (run_site_c today_classes only_base sub EService (ORaise KBase)) = SkHA.
Proof. destruct sub; reflexivity. Qed.

(* D180: the default subsystem reports a trigger function's exception on another logger only *)
Lemma refuted_D180 : o_logs (run_site_c today_classes only_nowrap Dm ETrigFunc (ORaise KExc)) = [LOther].
Proof. reflexivity. Qed.

(* D22: the callback after a raising one does not run *)
Lemma refuted_D22 : cb_ran (run_callbacks_c today_classes only_break [ORaise KExc; ORet]) = [true; false].
Proof. reflexivity. Qed.

(* D181 at load time: the load loop is left, the files after the failing one are not loaded *)
Lemma refuted_D181_load :
  l_sink (load_scripts_c today_classes only_base [ORet; ORaise KBase; ORet]) = SkHA /\
  l_loaded (load_scripts_c today_classes only_base [ORet; ORaise KBase; ORet]) = [true; false; false].
Proof. split; reflexivity. Qed.

(* non-trivial instances of the hypotheses used above *)
Example all_alive_alive : forall e, all_alive e = true.
Proof. reflexivity. Qed.
Example today_instance : Forall (fun o => o <> ORaise KBase) [ORet; ORaise KExc; ORet].
Proof. repeat constructor; congruence. Qed.

(* the source still has the shape the attribution model mirrors *)
Lemma formatter_shape : fmt_replace_on_filename = true /\ fmt_replace_on_name = true
  /\ fmt_chains_cause = true /\ fmt_chains_context = true.
Proof. repeat split; reflexivity. Qed.
