(* Proofs/LifePlan.v — the step-by-step plan of load_scripts (changed-set, will_reload, import closure, package
   widening; in-place force flags, a growing delete set, a `done` list) computes exactly the declarative sets of
   Life/ReloadPlanSpec.v, for every context table with an acyclic import graph, every discovered file list and
   every reload argument (conformant model). *)
From PV Require Import Common.Util Life.ReloadBase Gen.ReloadConsts Life.Modules Life.Reload Life.ReloadPlanSpec
  Proofs.LifeReloadBase Proofs.LifeClosure.
From Coq Require Import Lia.

(* ---------- SourceFile lists ---------- *)
Lemma sf_set_force_id s : sf_set_force (sf_force s) s = s.
Proof. destruct s; reflexivity. Qed.
Lemma sf_set_force_twice b b' s : sf_set_force b' (sf_set_force b s) = sf_set_force b' s.
Proof. reflexivity. Qed.

Lemma same_files_refl fs : same_files fs fs.
Proof. induction fs as [|s fs IH]; constructor; [exists (sf_force s); symmetry; apply sf_set_force_id|exact IH]. Qed.

Lemma same_files_trans a b c : same_files a b -> same_files b c -> same_files a c.
Proof.
  intros H. revert c. induction H as [|x y a b [bx ->] H IH]; intros c Hc; inversion Hc as [|y' z b' c' [by' ->] Hc']; subst; constructor.
  - exists by'. reflexivity.
  - apply IH. assumption.
Qed.

Lemma same_files_map fs (f : sfile -> bool) : same_files fs (map (fun s => sf_set_force (f s) s) fs).
Proof. induction fs as [|s fs IH]; cbn; constructor; [eexists; reflexivity|exact IH]. Qed.

Lemma same_files_map_cond fs (p f : sfile -> bool) :
  same_files fs (map (fun s => if p s then sf_set_force (f s) s else s) fs).
Proof.
  induction fs as [|s fs IH]; cbn; constructor; [|exact IH].
  destruct (p s); [eexists; reflexivity|exists (sf_force s); symmetry; apply sf_set_force_id].
Qed.

Lemma same_files_names fs fs' : same_files fs fs' -> map sf_name fs' = map sf_name fs.
Proof. induction 1 as [|s s' fs fs' [b ->] H IH]; cbn; [reflexivity|rewrite IH; reflexivity]. Qed.

Lemma sf_has_In fs n : sf_has fs n = true <-> In n (map sf_name fs).
Proof.
  unfold sf_has. rewrite existsb_exists, in_map_iff. split.
  - intros (s & Hs & E). apply nl_eqb_eq in E. eauto.
  - intros (s & E & Hs). exists s. split; [exact Hs|]. rewrite E. apply nl_eqb_refl.
Qed.

Lemma same_files_has fs fs' n : same_files fs fs' -> sf_has fs' n = sf_has fs n.
Proof.
  intros H. apply same_files_names in H.
  destruct (sf_has fs n) eqn:E.
  - apply sf_has_In. rewrite H. apply sf_has_In. exact E.
  - destruct (sf_has fs' n) eqn:E'; [|reflexivity]. apply sf_has_In in E'. rewrite H in E'. apply sf_has_In in E'. congruence.
Qed.

Lemma same_files_find fs fs' n : same_files fs fs' ->
  match sf_find fs n with
  | Some s => exists b, sf_find fs' n = Some (sf_set_force b s)
  | None => sf_find fs' n = None
  end.
Proof.
  induction 1 as [|s s' fs fs' [b ->] H IH]; cbn; [reflexivity|].
  destruct (nl_eqb (sf_name s) n); [eexists; reflexivity|exact IH].
Qed.

Lemma same_files_In fs fs' s' : same_files fs fs' -> In s' fs' -> exists s b, In s fs /\ s' = sf_set_force b s.
Proof.
  induction 1 as [|s0 s0' fs fs' [b ->] H IH]; intros HI; [destruct HI|].
  destruct HI as [<-|HI]; [exists s0, b; cbn; auto|].
  destruct (IH HI) as (s & b' & Hs & E). exists s, b'. cbn; auto.
Qed.

Lemma sf_find_Some fs n s : sf_find fs n = Some s -> In s fs /\ sf_name s = n.
Proof. unfold sf_find. intros H. apply find_some in H. destruct H as [H1 H2]. apply nl_eqb_eq in H2. auto. Qed.

Lemma sf_find_uniq fs s : uniq_files fs -> In s fs -> sf_find fs (sf_name s) = Some s.
Proof.
  unfold uniq_files, sf_find. induction fs as [|x fs IH]; intros Hu HI; [destruct HI|].
  cbn in Hu. inversion Hu as [|? ? Hnot Hu']; subst. cbn [find].
  destruct HI as [->|HI].
  - rewrite nl_eqb_refl. reflexivity.
  - destruct (nl_eqb (sf_name x) (sf_name s)) eqn:E.
    + apply nl_eqb_eq in E. exfalso. apply Hnot. rewrite E. apply in_map. exact HI.
    + apply IH; assumption.
Qed.

Lemma sf_find_has fs n : sf_has fs n = true <-> exists s, sf_find fs n = Some s.
Proof.
  unfold sf_has, sf_find. split.
  - intros H. apply existsb_exists in H. destruct H as (s & Hs & E).
    destruct (find _ fs) eqn:F; [eauto|]. pose proof (find_none _ _ F s Hs) as H'. cbn in H'. congruence.
  - intros (s & H). apply find_some in H. apply existsb_exists. exists s. exact H.
Qed.

Lemma sf_force_name_same n b fs : same_files fs (sf_force_name n b fs).
Proof. unfold sf_force_name. apply (same_files_map_cond fs (fun s => nl_eqb (sf_name s) n) (fun _ => b)). Qed.

Lemma sf_force_name_In n b fs s' : In s' (sf_force_name n b fs) ->
  exists s, In s fs /\ s' = (if nl_eqb (sf_name s) n then sf_set_force b s else s).
Proof. unfold sf_force_name. intros H. apply in_map_iff in H. destruct H as (s & E & Hs). eauto. Qed.

(* ---------- context lists ---------- *)
Lemma find_ctx_spec (all : list gctx) n c : NoDup (map c_name all) ->
  (find (fun c => nl_eqb (c_name c) n) all = Some c <-> In c all /\ c_name c = n).
Proof.
  intros Hu. split.
  - intros H. apply find_some in H. destruct H as [H1 H2]. apply nl_eqb_eq in H2. auto.
  - intros [HI E]. induction all as [|x all IH]; [destruct HI|].
    cbn in Hu. inversion Hu as [|? ? Hnot Hu']; subst. cbn [find].
    destruct HI as [->|HI].
    + rewrite nl_eqb_refl. reflexivity.
    + destruct (nl_eqb (c_name x) (c_name c)) eqn:E'.
      * apply nl_eqb_eq in E'. exfalso. apply Hnot. rewrite E'. apply in_map. exact HI.
      * apply IH; assumption.
Qed.

Lemma find_ctx_none (all : list gctx) n :
  find (fun c => nl_eqb (c_name c) n) all = None <-> ~ In n (map c_name all).
Proof.
  split.
  - intros H HI. apply in_map_iff in HI. destruct HI as (c & E & HI).
    pose proof (find_none _ _ H c HI) as H'. cbn in H'. rewrite E, nl_eqb_refl in H'. discriminate.
  - intros H. destruct (find _ all) eqn:F; [|reflexivity]. apply find_some in F. destruct F as [F1 F2].
    apply nl_eqb_eq in F2. exfalso. apply H. apply in_map_iff. eauto.
Qed.

Lemma existsb_name_In (all : list gctx) n : existsb (fun c => nl_eqb (c_name c) n) all = true <-> In n (map c_name all).
Proof.
  rewrite existsb_exists, in_map_iff. split.
  - intros (c & Hc & E). apply nl_eqb_eq in E. eauto.
  - intros (c & E & Hc). exists c. split; [exact Hc|]. rewrite E. apply nl_eqb_refl.
Qed.

(* ---------- step 1: the changed set ---------- *)
Lemma changed_fold dv all : forall fs ps,
  let r := fold_left (changed_step dv all) fs ps in
  ps_files r = ps_files ps ++ map (fun s => match find (fun c => nl_eqb (c_name c) (sf_name s)) all with
                                            | Some c => if changed dv s c then sf_set_force true s else s
                                            | None => sf_set_force (sf_auto s) s
                                            end) fs
  /\ (forall n, In n (ps_del r) <-> In n (ps_del ps) \/
        exists s c, In s fs /\ find (fun c => nl_eqb (c_name c) (sf_name s)) all = Some c /\ changed dv s c = true /\ n = sf_name s).
Proof.
  induction fs as [|s fs IH]; intros ps; cbn [fold_left map].
  - rewrite app_nil_r. split; [reflexivity|]. intros n. split; [auto|]. intros [H|(s & c & [] & _)]. exact H.
  - destruct (IH (changed_step dv all ps s)) as [IH1 IH2]. cbv zeta in IH1, IH2. split.
    + rewrite IH1. unfold changed_step. destruct (find _ all) as [c|]; [destruct (changed dv s c)|]; cbn [ps_files];
        rewrite <- app_assoc; reflexivity.
    + intros n. rewrite IH2. unfold changed_step.
      destruct (find (fun c => nl_eqb (c_name c) (sf_name s)) all) as [c|] eqn:F; [destruct (changed dv s c) eqn:C|]; cbn [ps_del].
      * rewrite nl_add_In. split.
        -- intros [[->|H]|(s' & c' & Hs' & R)]; [right; exists s, c; cbn; auto|left; exact H|].
           right. exists s', c'. cbn. tauto.
        -- intros [H|(s' & c' & [<-|Hs'] & F' & C' & ->)]; [left; right; exact H|left; left; reflexivity|].
           right. exists s', c'. auto.
      * split.
        -- intros [H|(s' & c' & Hs' & R)]; [left; exact H|right; exists s', c'; cbn; tauto].
        -- intros [H|(s' & c' & [<-|Hs'] & F' & C' & ->)]; [left; exact H|congruence|right; exists s', c'; auto].
      * split.
        -- intros [H|(s' & c' & Hs' & R)]; [left; exact H|right; exists s', c'; cbn; tauto].
        -- intros [H|(s' & c' & [<-|Hs'] & F' & C' & ->)]; [left; exact H|congruence|right; exists s', c'; auto].
Qed.

Lemma plan_changed_spec st fs a ps : fresh fs -> uniq_files fs -> NoDup (map c_name (ctx_all st)) ->
  plan_changed all_off (ctx_all st) fs a = Some ps ->
  same_files fs (ps_files ps)
  /\ (forall n, In n (ps_del ps) <-> Changed st fs a n)
  /\ (forall s', In s' (ps_files ps) -> (sf_force s' = true <-> Forced0 st fs a (sf_name s'))).
Proof.
  intros Hfresh Hu Hall H. set (all := ctx_all st) in *.
  destruct a as [| |m]; cbn [plan_changed] in H.
  - (* default reload *)
    inversion H as [Hps]; clear H.
    destruct (changed_fold all_off all fs {| ps_del := map c_name (filter (fun c => negb (sf_has fs (c_name c))) all); ps_files := [] |}) as [F1 F2].
    cbv zeta in F1, F2. cbn [ps_files ps_del app] in F1, F2. split; [|split].
    + rewrite F1. clear. induction fs as [|s fs IH]; cbn; constructor; [|exact IH].
      destruct (find _ all) as [c|]; [destruct (changed all_off s c)|]; try (eexists; reflexivity).
      exists (sf_force s). symmetry. apply sf_set_force_id.
    + intros n. rewrite F2. unfold Changed, loaded, on_disk. fold all. split.
      * intros [HI|(s & c & Hs & Fc & C & ->)].
        -- apply in_map_iff in HI. destruct HI as (c & <- & HI). apply filter_In in HI. destruct HI as [HI Hn].
           split; [apply in_map; exact HI|]. left. apply negb_true_iff in Hn. congruence.
        -- apply (find_ctx_spec all _ c Hall) in Fc. destruct Fc as [Hc En].
           split; [rewrite <- En; apply in_map; exact Hc|]. right. exists c, s.
           repeat split; auto. apply sf_find_uniq; assumption.
      * intros [HL [Hnd|(c & s & Hc & En & Fs & C)]].
        -- left. apply in_map_iff in HL. destruct HL as (c & <- & Hc). apply in_map. apply filter_In. split; [exact Hc|].
           apply negb_true_iff. destruct (sf_has fs (c_name c)); [tauto|reflexivity].
        -- right. apply sf_find_Some in Fs. destruct Fs as [Hs Es]. exists s, c. repeat split; auto.
           apply (find_ctx_spec all _ c Hall). rewrite Es. auto.
    + intros s' Hs'. rewrite F1 in Hs'. apply in_map_iff in Hs'. destruct Hs' as (s & <- & Hs).
      unfold Forced0, loaded. fold all.
      destruct (find (fun c => nl_eqb (c_name c) (sf_name s)) all) as [c|] eqn:Fc.
      * apply (find_ctx_spec all _ c Hall) in Fc. destruct Fc as [Hc En].
        destruct (changed all_off s c) eqn:C.
        -- cbn. split; [intros _|reflexivity]. exists s. split; [apply sf_find_uniq; assumption|]. left. exists c. auto.
        -- rewrite (Hfresh s Hs). split; [discriminate|]. intros (s2 & Fs & [(c2 & Hc2 & En2 & C2)|[Hnl _]]).
           ++ rewrite (sf_find_uniq fs s Hu Hs) in Fs. inversion Fs; subst s2.
              assert (c2 = c).
              { assert (F2' : find (fun c => nl_eqb (c_name c) (sf_name s)) all = Some c2) by (apply find_ctx_spec; auto).
                assert (F1' : find (fun c => nl_eqb (c_name c) (sf_name s)) all = Some c) by (apply find_ctx_spec; auto).
                congruence. }
              subst c2. congruence.
           ++ exfalso. apply Hnl. rewrite <- En. apply in_map. exact Hc.
      * apply find_ctx_none in Fc. cbn [sf_set_force sf_force sf_name]. split.
        -- intros Ha. exists s. split; [apply sf_find_uniq; assumption|]. right. auto.
        -- intros (s2 & Fs & [(c2 & Hc2 & En2 & _)|[_ Ha]]).
           ++ exfalso. apply Fc. rewrite <- En2. apply in_map. exact Hc2.
           ++ rewrite (sf_find_uniq fs s Hu Hs) in Fs. inversion Fs; subst s2. exact Ha.
  - (* '*' *)
    inversion H as [Hps]; clear H. cbn [ps_files ps_del]. split; [|split].
    + apply (same_files_map fs (fun _ => true)).
    + intros n. unfold Changed, loaded. tauto.
    + intros s' Hs'. apply in_map_iff in Hs'. destruct Hs' as (s & <- & Hs). cbn. unfold Forced0, on_disk.
      split; [intros _|reflexivity]. apply sf_has_In. apply in_map. exact Hs.
  - (* a name *)
    destruct (negb (existsb (fun c => nl_eqb (c_name c) m) all) && negb (sf_has fs m)) eqn:E1; [discriminate|].
    destruct (sf_has fs m) eqn:E2; cbn [negb] in H; inversion H as [Hps]; clear H; cbn [ps_files ps_del].
    + split; [apply sf_force_name_same|split].
      * intros n. unfold Changed, on_disk. rewrite E2. split; [intros []|intros [_ Hn]; apply Hn; reflexivity].
      * intros s' Hs'. apply sf_force_name_In in Hs'. destruct Hs' as (s & Hs & ->). unfold Forced0, on_disk.
        destruct (nl_eqb (sf_name s) m) eqn:En.
        -- apply nl_eqb_eq in En. cbn. split; [intros _; split; [exact En|exact E2]|reflexivity].
        -- apply nl_eqb_neq in En. rewrite (Hfresh s Hs). split; [discriminate|intros [E _]; congruence].
    + split; [apply same_files_refl|split].
      * intros n. unfold Changed, on_disk. rewrite E2. cbn. split; [intros [<-|[]]; split; [reflexivity|discriminate]|intros [-> _]; auto].
      * intros s' Hs'. rewrite (Hfresh s' Hs'). unfold Forced0, on_disk. rewrite E2. split; [discriminate|intros [_ Hx]; discriminate].
Qed.

(* ---------- step 2: will_reload ---------- *)
Lemma fold_nl_add_In (l acc : list cname) x :
  In x (fold_left (fun acc r => nl_add r acc) l acc) <-> In x acc \/ In x l.
Proof.
  revert acc. induction l as [|y l IH]; intros acc; cbn [fold_left]; [cbn; tauto|].
  rewrite IH, nl_add_In. cbn. split; [intros [[->|H]|H]; auto|intros [H|[->|H]]; auto].
Qed.

Lemma Forced0_on_disk st fs a n : Forced0 st fs a n -> sf_has fs n = true.
Proof.
  unfold Forced0, on_disk. destruct a as [| |m].
  - intros (s & Fs & _). apply sf_find_has. eauto.
  - auto.
  - intros [-> H]. exact H.
Qed.

(* what step 1 establishes, as a predicate on a pstate *)
Record P1 st fs a (ps : pstate) : Prop := {
  p1_same : same_files fs (ps_files ps);
  p1_del : forall n, In n (ps_del ps) <-> Changed st fs a n;
  p1_force : forall s', In s' (ps_files ps) -> (sf_force s' = true <-> Forced0 st fs a (sf_name s')) }.

Lemma has_file_In fs fs' n : same_files fs fs' -> sf_has fs n = true -> exists s', In s' fs' /\ sf_name s' = n.
Proof.
  intros Hs H. rewrite <- (same_files_has fs fs' n Hs) in H. apply sf_has_In in H. apply in_map_iff in H.
  destruct H as (s' & E & HI). eauto.
Qed.

Lemma will_reload_spec st fs a ps : P1 st fs a ps ->
  forall r, In r (will_reload all_off ps) <-> ChangedModRoot st fs a r.
Proof.
  intros [Hsame Hdel Hforce] r. unfold will_reload. cbn [d_deleted_no_propagate all_off].
  rewrite fold_nl_add_In. cbn [In]. rewrite in_app_iff, !in_map_iff. unfold ChangedModRoot. split.
  - intros [[]|[(s' & <- & Hs')|(n & <- & Hn)]].
    + apply filter_In in Hs'. destruct Hs' as [Hs' Hc]. apply andb_true_iff in Hc. destruct Hc as [Hu Hc].
      exists (sf_name s'). split; [exact Hu|]. split; [reflexivity|].
      apply orb_true_iff in Hc. destruct Hc as [Hc|Hc].
      * left. apply Hdel. apply nl_mem_In. exact Hc.
      * right. apply Hforce; assumption.
    + apply filter_In in Hn. destruct Hn as [Hn Hc]. apply andb_true_iff in Hc. destruct Hc as [Hu _].
      exists n. split; [exact Hu|]. split; [reflexivity|]. left. apply Hdel. exact Hn.
  - intros (n & Hu & <- & Hc). right.
    destruct (sf_has fs n) eqn:Hd.
    + left. destruct (has_file_In fs (ps_files ps) n Hsame Hd) as (s' & Hs' & En). exists s'. split; [rewrite En; reflexivity|].
      apply filter_In. split; [exact Hs'|]. rewrite En, Hu. cbn [andb]. apply orb_true_iff.
      destruct Hc as [Hc|Hc].
      * left. apply nl_mem_In. apply Hdel. exact Hc.
      * right. apply Hforce; [exact Hs'|]. rewrite En. exact Hc.
    + destruct Hc as [Hc|Hc]; [|apply Forced0_on_disk in Hc; congruence].
      right. exists n. split; [reflexivity|]. apply filter_In. split; [apply Hdel; exact Hc|].
      rewrite Hu. cbn [andb]. rewrite (same_files_has fs (ps_files ps) n Hsame), Hd. reflexivity.
Qed.

(* ---------- step 3: importers of changed modules ---------- *)
Definition upd (P : cname -> Prop) (s s' : sfile) : Prop :=
  (s' = s /\ ~ P (sf_name s)) \/ (s' = sf_set_force true s /\ P (sf_name s)).

Lemma upd_same (P : cname -> Prop) a b : Forall2 (upd P) a b -> same_files a b.
Proof.
  induction 1 as [|s s' a b H _ IH]; constructor; [|exact IH].
  destruct H as [[-> _]|[-> _]]; [exists (sf_force s); symmetry; apply sf_set_force_id|eexists; reflexivity].
Qed.

Lemma upd_compose (P Q : cname -> Prop) a b c :
  Forall2 (upd P) a b -> Forall2 (upd Q) b c -> Forall2 (upd (fun n => P n \/ Q n)) a c.
Proof.
  intros H. revert c. induction H as [|s s' a b H _ IH]; intros c Hc; inversion Hc as [|? s'' ? c' H' Hc']; subst; constructor; [|apply IH; assumption].
  destruct H as [[-> HP]|[-> HP]]; destruct H' as [[-> HQ]|[-> HQ]]; cbn [sf_name sf_set_force] in *.
  - left. split; [reflexivity|tauto].
  - right. split; [reflexivity|tauto].
  - right. split; [reflexivity|tauto].
  - right. split; [reflexivity|tauto].
Qed.

Lemma upd_iff (P Q : cname -> Prop) a b : (forall n, P n <-> Q n) -> Forall2 (upd P) a b -> Forall2 (upd Q) a b.
Proof.
  intros HPQ. induction 1 as [|s s' a b H _ IH]; constructor; [|exact IH].
  destruct H as [[-> HP]|[-> HP]]; [left|right]; (split; [reflexivity|]); rewrite <- HPQ; exact HP.
Qed.

Lemma upd_force (P : cname -> Prop) a b s' : Forall2 (upd P) a b -> In s' b ->
  exists s, In s a /\ sf_name s' = sf_name s /\ (sf_force s' = true <-> sf_force s = true \/ P (sf_name s)).
Proof.
  induction 1 as [|s0 s0' a b H _ IH]; intros HI; [destruct HI|].
  destruct HI as [<-|HI].
  - exists s0. split; [cbn; auto|]. destruct H as [[-> HP]|[-> HP]]; cbn.
    + split; [reflexivity|tauto].
    + split; [reflexivity|tauto].
  - destruct (IH HI) as (s & Hs & R). exists s. split; [cbn; auto|exact R].
Qed.

Lemma upd_force_name (P : cname -> Prop) fs n : (P n) -> (forall k, k <> n -> ~ P k) -> Forall2 (upd P) fs (sf_force_name n true fs).
Proof.
  intros HP Hn. unfold sf_force_name. induction fs as [|s fs IH]; cbn; constructor; [|exact IH].
  destruct (nl_eqb (sf_name s) n) eqn:E.
  - apply nl_eqb_eq in E. right. split; [reflexivity|rewrite E; exact HP].
  - apply nl_eqb_neq in E. left. split; [reflexivity|apply Hn; exact E].
Qed.

Lemma upd_none (P : cname -> Prop) fs : (forall k, ~ P k) -> Forall2 (upd P) fs fs.
Proof. intros H. induction fs; constructor; [left; split; [reflexivity|apply H]|assumption]. Qed.

Section Step3.
  Variable st : state.
  Variable wr : list cname.
  Hypothesis Hac : acyclic st.
  Definition Hit (n : cname) : Prop := exists d, reach_plus st n d /\ In (root2 d) wr.

  Lemma hit_dec v n : closure_of st n v -> existsb (fun modn => nl_mem (root2 modn) wr) v = true <-> Hit n.
  Proof.
    intros Hv. rewrite existsb_exists. unfold Hit. split.
    - intros (d & Hd & Hm). exists d. split; [apply Hv; exact Hd|apply nl_mem_In; exact Hm].
    - intros (d & Hd & Hm). exists d. split; [apply Hv; exact Hd|apply nl_mem_In; exact Hm].
  Qed.

  Lemma imports_fold : forall (todo : list gctx) (acc : istate),
    INV st (is_memo acc) [] [] -> is_fuel_ok acc = true ->
    let r := fold_left (imports_step st wr) todo acc in
    is_fuel_ok r = true
    /\ Forall2 (upd (fun n => In n (map c_name todo) /\ Hit n)) (ps_files (is_ps acc)) (ps_files (is_ps r))
    /\ (forall n, In n (ps_del (is_ps r)) <-> In n (ps_del (is_ps acc)) \/ (In n (map c_name todo) /\ Hit n)).
  Proof.
    induction todo as [|c todo IH]; intros acc Hinv Hok; cbn [fold_left map].
    - cbv zeta. split; [exact Hok|]. split; [apply upd_none; intros k [[] _]|]. intros n. cbn. tauto.
    - (* one context *)
      set (n := c_name c).
      assert (Hstep : exists m1, INV st m1 [] [] /\ closure_of st n (memo_or_empty m1 n) /\
                imports_step st wr acc c =
                  {| is_ps := if existsb (fun modn => nl_mem (root2 modn) wr) (memo_or_empty m1 n)
                              then {| ps_del := nl_add n (ps_del (is_ps acc)); ps_files := sf_force_name n true (ps_files (is_ps acc)) |}
                              else is_ps acc;
                     is_memo := m1; is_fuel_ok := true |}).
      { unfold imports_step. fold n. destruct (memo_get (is_memo acc) n) as [v|] eqn:Em.
        - exists (is_memo acc). split; [exact Hinv|]. split.
          + unfold memo_or_empty. rewrite Em. apply (inv_memo _ _ _ _ Hinv n v Em). intros [].
          + rewrite Hok. reflexivity.
        - destruct (import_closure st n (is_memo acc) Hac Hinv) as (res & v' & m' & E & _ & Hcl & Hinv').
          rewrite E. exists m'. split; [exact Hinv'|]. split; [exact Hcl|]. rewrite Hok. reflexivity. }
      destruct Hstep as (m1 & Hinv1 & Hcl & ->).
      pose proof (hit_dec _ n Hcl) as Hhit.
      destruct (existsb (fun modn => nl_mem (root2 modn) wr) (memo_or_empty m1 n)) eqn:Eh.
      + assert (HH : Hit n) by (apply Hhit; reflexivity).
        destruct (IH {| is_ps := {| ps_del := nl_add n (ps_del (is_ps acc)); ps_files := sf_force_name n true (ps_files (is_ps acc)) |};
                        is_memo := m1; is_fuel_ok := true |} Hinv1 eq_refl) as (R1 & R2 & R3).
        cbv zeta in R1, R2, R3. cbn [is_ps ps_files ps_del] in R2, R3. split; [exact R1|]. split.
        * eapply upd_iff; [|eapply upd_compose; [apply (upd_force_name (fun k => k = n /\ Hit k) _ n)|exact R2]].
          -- intros k. cbn. split; [intros [[-> H]|[H1 H2]]; auto|intros [[<-|H1] H2]; auto].
          -- auto.
          -- intros k Hk [E _]. congruence.
        * intros k. rewrite R3, nl_add_In. cbn. split; [intros [[->|H]|[H1 H2]]; auto|intros [H|[[<-|H1] H2]]; auto].
      + assert (HH : ~ Hit n) by (intros H; apply Hhit in H; congruence).
        destruct (IH {| is_ps := is_ps acc; is_memo := m1; is_fuel_ok := true |} Hinv1 eq_refl) as (R1 & R2 & R3).
        cbv zeta in R1, R2, R3. cbn [is_ps] in R2, R3. split; [exact R1|]. split.
        * eapply upd_iff; [|exact R2]. intros k. cbn. split; [intros [H1 H2]; auto|intros [[<-|H1] H2]; [tauto|auto]].
        * intros k. rewrite R3. cbn. split; [intros [H|[H1 H2]]; auto|intros [H|[[<-|H1] H2]]; [auto|tauto|auto]].
  Qed.
End Step3.

Record P2 st fs a (ps : pstate) : Prop := {
  p2_same : same_files fs (ps_files ps);
  p2_del : forall n, In n (ps_del ps) <-> Discard1 st fs a n;
  p2_force : forall s', In s' (ps_files ps) -> (sf_force s' = true <-> Forced1 st fs a (sf_name s')) }.

Lemma plan_imports_spec st fs a ps : acyclic st -> P1 st fs a ps ->
  exists ps2, plan_imports all_off st (ctx_all st) ps = (ps2, true) /\ P2 st fs a ps2.
Proof.
  intros Hac HP1. pose proof (will_reload_spec st fs a ps HP1) as Hwr. destruct HP1 as [Hsame Hdel Hforce].
  unfold plan_imports. destruct (will_reload all_off ps) as [|r0 wr'] eqn:Ew.
  - (* nothing to follow *)
    exists ps. split; [reflexivity|].
    assert (Hno : forall n, ~ Importer st fs a n).
    { intros n (_ & d & _ & Hc). apply Hwr in Hc. destruct Hc. }
    split; [exact Hsame| |].
    + intros n. rewrite Hdel. unfold Discard1. split; [auto|intros [H|H]; [exact H|destruct (Hno n H)]].
    + intros s' Hs'. rewrite (Hforce s' Hs'). unfold Forced1. split; [auto|intros [H|[H _]]; [exact H|destruct (Hno _ H)]].
  - set (wr := r0 :: wr') in *.
    destruct (imports_fold st wr Hac (ctx_all st) {| is_ps := ps; is_memo := []; is_fuel_ok := true |} (INV_empty st) eq_refl) as (R1 & R2 & R3).
    cbv zeta in R1, R2, R3. cbn [is_ps] in R2, R3.
    set (r := fold_left (imports_step st wr) (ctx_all st) {| is_ps := ps; is_memo := []; is_fuel_ok := true |}) in *.
    exists (is_ps r). split; [rewrite R1; reflexivity|].
    assert (Himp : forall n, (In n (map c_name (ctx_all st)) /\ Hit st wr n) <-> Importer st fs a n).
    { intros n. unfold Importer, loaded, Hit. split; intros [H1 (d & Hd & Hm)]; (split; [exact H1|]); exists d; (split; [exact Hd|]); apply Hwr; exact Hm. }
    split.
    + eapply same_files_trans; [exact Hsame|eapply upd_same; exact R2].
    + intros n. rewrite R3, Hdel, Himp. unfold Discard1. tauto.
    + intros s' Hs'. destruct (upd_force _ _ _ s' R2 Hs') as (s & Hs & En & Hf). rewrite Hf, (Hforce s Hs), En, Himp.
      unfold Forced1, on_disk. split; [intros [H|H]; [auto|right; split; [exact H|]]|intros [H|[H _]]; auto].
      rewrite <- (same_files_has fs (ps_files ps) _ Hsame). apply sf_has_In. apply in_map. exact Hs.
Qed.

(* ---------- step 4: package widening ---------- *)
Lemma under_roots_shape rs n : under_roots rs n = true -> exists x y rest, n = x :: y :: rest /\ existsb (fun r => (x =? r)%N) rs = true.
Proof.
  unfold under_roots. destruct n as [|x [|y rest]].
  - intros H. exfalso. induction rs; cbn in H; [discriminate|auto].
  - intros H. exfalso. induction rs; cbn in H; [discriminate|auto].
  - intros H. exists x, y, rest. split; [reflexivity|exact H].
Qed.

Lemma prefix_root2 rs n m : under_roots rs n = true ->
  (prefix_of (root2 n) m = true <-> (root2 m = root2 n /\ under_roots rs m = true)).
Proof.
  intros Hn. destruct (under_roots_shape rs n Hn) as (x & y & rest & -> & Hx). cbn [root2 firstn].
  destruct m as [|a [|b m']]; cbn [prefix_of root2 firstn].
  - split; [discriminate|intros [H _]; discriminate].
  - split; [rewrite andb_false_r; discriminate|intros [H _]; discriminate].
  - rewrite andb_true_r. split.
    + intros H. apply andb_true_iff in H. destruct H as [H1 H2]. apply N.eqb_eq in H1, H2. subst. split; [reflexivity|exact Hx].
    + intros [H _]. inversion H; subst. rewrite !N.eqb_refl. reflexivity.
Qed.

Lemma root2_idem n : root2 (root2 n) = root2 n.
Proof. destruct n as [|x [|y r]]; reflexivity. Qed.

Section Widen.
  Variable loaded_names : list cname.
  Variable files2 : list sfile.
  Variable del2 : list cname.

  Definition InP (Pr : cname -> Prop) (n : cname) : Prop := exists r, Pr r /\ prefix_of r n = true.
  Definition wrel (Pr : cname -> Prop) (s s' : sfile) : Prop :=
    (InP Pr (sf_name s) /\ s' = sf_set_force (is_root_file s) s) \/ (~ InP Pr (sf_name s) /\ s' = s).

  Record WInv (w : wstate) (Pr : cname -> Prop) : Prop := {
    wi_done : forall r, In r (w_done w) <-> Pr r;
    wi_root : forall r, Pr r -> exists n, under_roots widen_roots n = true /\ root2 n = r;
    wi_files : Forall2 (wrel Pr) files2 (w_files w);
    wi_del : forall n, In n (w_del w) <-> In n del2 \/ (InP Pr n /\ (sf_has files2 n = true \/ In n loaded_names)) }.

  Lemma wrel_iff (P Q : cname -> Prop) a b : (forall r, P r <-> Q r) -> Forall2 (wrel P) a b -> Forall2 (wrel Q) a b.
  Proof.
    intros H. assert (HI : forall n, InP P n <-> InP Q n).
    { intros n. unfold InP. split; intros (r & Hr & Hp); exists r; (split; [apply H; exact Hr|exact Hp]). }
    induction 1 as [|s s' a b R _ IH]; constructor; [|exact IH].
    destruct R as [[R1 R2]|[R1 R2]]; [left|right]; (split; [|exact R2]); rewrite <- HI; exact R1.
  Qed.

  Lemma WInv_iff w (P Q : cname -> Prop) : (forall r, P r <-> Q r) -> WInv w P -> WInv w Q.
  Proof.
    intros H [I1 I2 I3 I4].
    assert (HI : forall n, InP P n <-> InP Q n).
    { intros n. unfold InP. split; intros (r & Hr & Hp); exists r; (split; [apply H; exact Hr|exact Hp]). }
    split.
    - intros r. rewrite I1. apply H.
    - intros r Hr. apply I2. apply H. exact Hr.
    - eapply wrel_iff; eassumption.
    - intros n. rewrite I4, HI. reflexivity.
  Qed.

  Lemma wrel_names Pr a b : Forall2 (wrel Pr) a b -> map sf_name b = map sf_name a.
  Proof.
    induction 1 as [|s s' a b R _ IH]; cbn; [reflexivity|]. rewrite IH.
    destruct R as [[_ ->]|[_ ->]]; reflexivity.
  Qed.

  Lemma wrel_find Pr a b n s : Forall2 (wrel Pr) a b -> sf_find a n = Some s ->
    exists s', sf_find b n = Some s' /\ wrel Pr s s'.
  Proof.
    induction 1 as [|s0 s0' a b R _ IH]; cbn; [discriminate|].
    assert (En : sf_name s0' = sf_name s0) by (destruct R as [[_ ->]|[_ ->]]; reflexivity).
    rewrite En. destruct (nl_eqb (sf_name s0) n); [intros H; inversion H; subst; eauto|exact IH].
  Qed.

  (* the one place where the table changes *)
  Lemma widen_one_new w Pr n : WInv w Pr -> under_roots widen_roots n = true -> ~ Pr (root2 n) ->
    WInv (widen_one all_off loaded_names w n true) (fun r => Pr r \/ r = root2 n).
  Proof.
    intros [I1 I2 I3 I4] Hu Hnew. unfold widen_one. rewrite Hu. cbn [negb d_deleted_no_propagate all_off].
    assert (Hd : nl_mem (root2 n) (w_done w) = false) by (apply nl_mem_false; rewrite I1; exact Hnew).
    rewrite Hd.
    set (root := root2 n).
    assert (HIn : forall k, InP (fun r => Pr r \/ r = root) k <-> InP Pr k \/ prefix_of root k = true).
    { intros k. unfold InP. split.
      - intros (r & [Hr| ->] & Hp); [left; eauto|right; exact Hp].
      - intros [(r & Hr & Hp)|Hp]; [exists r; auto|exists root; auto]. }
    assert (Hexcl : forall k, InP Pr k -> prefix_of root k = true -> False).
    { intros k (r & Hr & Hp) Hp2. destruct (I2 r Hr) as (n0 & Hu0 & <-).
      apply (prefix_root2 widen_roots n0 k Hu0) in Hp. apply (prefix_root2 widen_roots n k Hu) in Hp2.
      apply Hnew. destruct Hp as [E1 _], Hp2 as [E2 _]. rewrite <- E2, E1. exact Hr. }
    split; cbn [w_done w_files w_del].
    - intros r. cbn. rewrite I1. split; [intros [<-|H]; auto|intros [H| ->]; auto].
    - intros r [Hr| ->]; [apply I2; exact Hr|exists n; auto].
    - clear I4. induction I3 as [|s s' a b R _ IH]; cbn [map]; constructor; [|exact IH].
      assert (En : sf_name s' = sf_name s) by (destruct R as [[_ ->]|[_ ->]]; reflexivity).
      rewrite En. destruct (prefix_of root (sf_name s)) eqn:Ep.
      + (* newly widened: it was untouched so far *)
        destruct R as [[R1 _]|[_ ->]]; [destruct (Hexcl _ R1 Ep)|].
        left. split; [apply HIn; auto|].
        unfold is_root_file. apply (prefix_root2 widen_roots n _ Hu) in Ep. destruct Ep as [Er _]. rewrite Er. reflexivity.
      + destruct R as [[R1 ->]|[R1 ->]]; [left|right]; (split; [|reflexivity]); rewrite HIn; [auto|].
        intros [H|H]; [tauto|congruence].
    - intros k.
      assert (Hfold1 : forall (l : list sfile) acc, In k (fold_left (fun acc s => if prefix_of root (sf_name s) then nl_add (sf_name s) acc else acc) l acc)
                 <-> In k acc \/ (prefix_of root k = true /\ In k (map sf_name l))).
      { induction l as [|s l IHl]; intros acc; cbn [fold_left map]; [cbn; tauto|].
        rewrite IHl. destruct (prefix_of root (sf_name s)) eqn:Ep.
        - rewrite nl_add_In. cbn [In]. split; [intros [[->|H]|[H1 H2]]; auto|intros [H|[H1 [<-|H2]]]; auto].
        - cbn [In]. split; [intros [H|[H1 H2]]; auto|intros [H|[H1 [<-|H2]]]; [auto|congruence|auto]]. }
      assert (Hfold2 : forall (l : list cname) acc, In k (fold_left (fun acc m => if prefix_of root m then nl_add m acc else acc) l acc)
                 <-> In k acc \/ (prefix_of root k = true /\ In k l)).
      { induction l as [|m l IHl]; intros acc; cbn [fold_left]; [cbn; tauto|].
        rewrite IHl. destruct (prefix_of root m) eqn:Ep.
        - rewrite nl_add_In. cbn [In]. split; [intros [[->|H]|[H1 H2]]; auto|intros [H|[H1 [<-|H2]]]; auto].
        - cbn [In]. split; [intros [H|[H1 H2]]; auto|intros [H|[H1 [<-|H2]]]; [auto|congruence|auto]]. }
      rewrite Hfold2, Hfold1, I4, HIn, (wrel_names _ _ _ I3). rewrite <- sf_has_In. tauto.
  Qed.

  Lemma widen_one_noop w n forced : (forced = false \/ under_roots widen_roots n = false \/ In (root2 n) (w_done w)) ->
    widen_one all_off loaded_names w n forced = w.
  Proof.
    intros H. unfold widen_one. destruct forced; [|reflexivity]. cbn [negb].
    destruct (under_roots widen_roots n) eqn:Hu; [|reflexivity]. cbn [negb].
    destruct H as [H|[H|H]]; try discriminate. apply nl_mem_In in H. rewrite H. reflexivity.
  Qed.

  (* a request to widen for name [n] when [Q] holds *)
  Lemma widen_one_spec w Pr n forced (Q : Prop) : WInv w Pr -> (forced = true <-> Q) ->
    WInv (widen_one all_off loaded_names w n forced) (fun r => Pr r \/ (r = root2 n /\ under_roots widen_roots n = true /\ Q)).
  Proof.
    intros HI HQ. destruct forced.
    - destruct (under_roots widen_roots n) eqn:Hu.
      + destruct (nl_mem (root2 n) (w_done w)) eqn:Hd.
        * apply nl_mem_In in Hd. rewrite widen_one_noop by auto. eapply WInv_iff; [|exact HI].
          intros r. split; [auto|]. intros [H|[-> _]]; [exact H|]. apply (wi_done _ _ HI). exact Hd.
        * apply nl_mem_false in Hd. eapply WInv_iff; [|apply (widen_one_new w Pr n HI Hu)].
          -- intros r. split; [intros [H| ->]; [auto|right; repeat split; auto; apply HQ; reflexivity]|intros [H|[-> _]]; auto].
          -- intros H. apply Hd. apply (wi_done _ _ HI). exact H.
      + rewrite widen_one_noop by auto. eapply WInv_iff; [|exact HI]. intros r. split; [auto|intros [H|[_ [H _]]]; [exact H|discriminate]].
    - rewrite widen_one_noop by auto. eapply WInv_iff; [|exact HI]. intros r. split; [auto|intros [H|[_ [_ H]]]; [exact H|]].
      apply HQ in H. discriminate.
  Qed.
End Widen.

Section WidenFolds.
  Variable loaded_names : list cname.
  Variable files2 : list sfile.
  Variable del2 : list cname.
  Variable F : cname -> Prop.
  Hypothesis HF : forall s, In s files2 -> (sf_force s = true <-> F (sf_name s)).

  Lemma InP_shape w Pr n : WInv loaded_names files2 del2 w Pr -> InP Pr n ->
    under_roots widen_roots n = true /\ In (root2 n) (w_done w).
  Proof.
    intros HI (r & Hr & Hp). destruct (wi_root _ _ _ _ _ HI r Hr) as (n0 & Hu0 & <-).
    apply (prefix_root2 widen_roots n0 n Hu0) in Hp. destruct Hp as [E Hu]. split; [exact Hu|].
    apply (wi_done _ _ _ _ _ HI). rewrite E. exact Hr.
  Qed.

  Lemma widen_files_fold : forall L w Pr, WInv loaded_names files2 del2 w Pr -> incl L (map sf_name files2) ->
    WInv loaded_names files2 del2 (fold_left (widen_file_step all_off loaded_names) L w)
         (fun r => Pr r \/ exists n, In n L /\ r = root2 n /\ under_roots widen_roots n = true /\ F n).
  Proof.
    induction L as [|n L IH]; intros w Pr HI HL; cbn [fold_left].
    - eapply WInv_iff; [|exact HI]. intros r. split; [auto|intros [H|(n & [] & _)]; exact H].
    - assert (Hn : In n (map sf_name files2)) by (apply HL; cbn; auto).
      assert (Hs : exists s, sf_find files2 n = Some s).
      { apply sf_find_has. apply sf_has_In. exact Hn. }
      destruct Hs as (s & Fs). destruct (sf_find_Some _ _ _ Fs) as [Hs En].
      destruct (wrel_find Pr files2 (w_files w) n s (wi_files _ _ _ _ _ HI) Fs) as (s' & Fs' & R).
      assert (Hstep : WInv loaded_names files2 del2 (widen_file_step all_off loaded_names w n)
                        (fun r => Pr r \/ (r = root2 n /\ under_roots widen_roots n = true /\ F n))).
      { unfold widen_file_step. rewrite Fs'. destruct R as [[R1 _]|[R1 ->]].
        - rewrite En in R1. destruct (InP_shape w Pr n HI R1) as [Hu Hd].
          rewrite widen_one_noop by auto. eapply WInv_iff; [|exact HI].
          intros r. split; [auto|intros [H|[-> _]]; [exact H|apply (wi_done _ _ _ _ _ HI); exact Hd]].
        - apply widen_one_spec; [exact HI|]. rewrite <- En. apply HF. exact Hs. }
      eapply WInv_iff; [|apply (IH _ _ Hstep)].
      + intros r. split.
        * intros [[H|(-> & Hu & Hf)]|(k & Hk & R')]; [auto|right; exists n; cbn; auto|].
          right. exists k. cbn. tauto.
        * intros [H|(k & [<-|Hk] & R')]; [auto|left; right; exact R'|right; exists k; auto].
      + intros k Hk. apply HL. cbn; auto.
  Qed.

  Lemma widen_del_fold : forall D w Pr, WInv loaded_names files2 del2 w Pr ->
    WInv loaded_names files2 del2 (fold_left (widen_del_step all_off loaded_names files2) D w)
         (fun r => Pr r \/ exists n, In n D /\ r = root2 n /\ under_roots widen_roots n = true /\ sf_has files2 n = false).
  Proof.
    induction D as [|n D IH]; intros w Pr HI; cbn [fold_left].
    - eapply WInv_iff; [|exact HI]. intros r. split; [auto|intros [H|(n & [] & _)]; exact H].
    - assert (Hstep : WInv loaded_names files2 del2 (widen_del_step all_off loaded_names files2 w n)
                        (fun r => Pr r \/ (r = root2 n /\ under_roots widen_roots n = true /\ sf_has files2 n = false))).
      { unfold widen_del_step. destruct (sf_has files2 n) eqn:Hd.
        - eapply WInv_iff; [|exact HI]. intros r. split; [auto|intros [H|[_ [_ H]]]; [exact H|discriminate]].
        - eapply WInv_iff; [|apply (widen_one_spec loaded_names files2 del2 w Pr n true True HI)]; [|tauto].
          intros r. split; [intros [H|[H1 [H2 _]]]; auto|intros [H|[H1 [H2 _]]]; auto]. }
      eapply WInv_iff; [|apply (IH _ _ Hstep)].
      intros r. split.
      + intros [[H|(-> & Hu & Hf)]|(k & Hk & R')]; [auto|right; exists n; cbn; auto|].
        right. exists k. cbn. tauto.
      + intros [H|(k & [<-|Hk] & R')]; [auto|left; right; exact R'|right; exists k; auto].
  Qed.
End WidenFolds.

Lemma wrel_same Pr a b : Forall2 (wrel Pr) a b -> same_files a b.
Proof.
  induction 1 as [|s s' a' b' R _ IH]; constructor; [|exact IH].
  destruct R as [[_ ->]|[_ ->]]; [eexists; reflexivity|exists (sf_force s); symmetry; apply sf_set_force_id].
Qed.
Lemma wrel_In Pr a b s' : Forall2 (wrel Pr) a b -> In s' b -> exists s, In s a /\ wrel Pr s s'.
Proof.
  induction 1 as [|s0 s0' a' b' R _ IH]; intros Hs'; [destruct Hs'|].
  destruct Hs' as [<-|Hs']; [exists s0; cbn; auto|]. destruct (IH Hs') as (s & Hs & R'). exists s. cbn; auto.
Qed.
Lemma wrel_init (l : list sfile) : Forall2 (wrel (fun _ => False)) l l.
Proof. induction l as [|s l IH]; constructor; [|exact IH]. right. split; [intros (r & [] & _)|reflexivity]. Qed.

Record P3 st fs a (ps : pstate) : Prop := {
  p3_same : same_files fs (ps_files ps);
  p3_del : forall n, In n (ps_del ps) <-> Discard st fs a n;
  p3_force : forall s', In s' (ps_files ps) -> (sf_force s' = true <-> Forced st fs a s') }.

Lemma Forced1_on_disk st fs a n : Forced1 st fs a n -> sf_has fs n = true.
Proof. intros [H|[_ H]]; [apply (Forced0_on_disk st fs a n H)|exact H]. Qed.

Lemma plan_widen_spec st fs a ps2 : P2 st fs a ps2 ->
  P3 st fs a (plan_widen all_off (map c_name (ctx_all st)) ps2).
Proof.
  intros [Hsame Hdel Hforce]. unfold plan_widen. cbn [d_deleted_no_propagate all_off].
  set (ln := map c_name (ctx_all st)). set (files2 := ps_files ps2). set (del2 := ps_del ps2).
  set (w0 := {| w_files := files2; w_del := del2; w_done := [] |}).
  assert (H0 : WInv ln files2 del2 w0 (fun _ => False)).
  { split; cbn [w_done w_files w_del].
    - intros r. cbn. tauto.
    - intros r [].
    - apply wrel_init.
    - intros n. split; [auto|intros [H|[(r & [] & _) _]]; exact H]. }
  pose proof (widen_files_fold ln files2 del2 (Forced1 st fs a) Hforce (map sf_name files2) w0 _ H0 (incl_refl _)) as H1.
  pose proof (widen_del_fold ln files2 del2 del2 _ _ H1) as H2.
  set (w2 := fold_left (widen_del_step all_off ln files2) del2 (fold_left (widen_file_step all_off ln) (map sf_name files2) w0)) in *.
  assert (HW : forall r, ((False \/ exists n, In n (map sf_name files2) /\ r = root2 n /\ under_roots widen_roots n = true /\ Forced1 st fs a n)
                          \/ exists n, In n del2 /\ r = root2 n /\ under_roots widen_roots n = true /\ sf_has files2 n = false)
                         <-> WidenRoot st fs a r).
  { intros r. unfold WidenRoot, on_disk. split.
    - intros [[[]|(n & Hn & -> & Hu & Hf)]|(n & Hn & -> & Hu & Hd)].
      + exists n. auto.
      + exists n. split; [exact Hu|]. split; [reflexivity|]. right. split; [apply Hdel; exact Hn|].
        unfold files2 in Hd. rewrite (same_files_has fs _ n Hsame) in Hd. congruence.
    - intros (n & Hu & <- & [Hf|[Hd Hnd]]).
      + left. right. exists n. split; [|auto]. apply sf_has_In. unfold files2. rewrite (same_files_has fs _ n Hsame).
        apply (Forced1_on_disk st fs a n Hf).
      + right. exists n. split; [apply Hdel; exact Hd|]. split; [reflexivity|]. split; [exact Hu|].
        unfold files2. rewrite (same_files_has fs _ n Hsame). destruct (sf_has fs n); [tauto|reflexivity]. }
  apply (WInv_iff ln files2 del2 w2 _ _ HW) in H2. destruct H2 as [I1 I2 I3 I4].
  assert (HIn : forall n, InP (WidenRoot st fs a) n <-> InWidened st fs a n) by (intros n; reflexivity).
  split; cbn [ps_files ps_del].
  - eapply same_files_trans; [exact Hsame|]. eapply wrel_same; exact I3.
  - intros n. rewrite I4, HIn. unfold Discard, on_disk, loaded. fold ln. unfold del2. rewrite Hdel.
    unfold files2. rewrite (same_files_has fs _ n Hsame). reflexivity.
  - intros s' Hs'. unfold Forced.
    assert (Hx : exists s, In s files2 /\ wrel (WidenRoot st fs a) s s') by (eapply wrel_In; eassumption).
    destruct Hx as (s & Hs & [[R1 ->]|[R1 ->]]); cbn [sf_name sf_set_force sf_force].
    + rewrite HIn in R1. unfold is_root_file at 2. cbn [sf_path sf_name sf_set_force]. fold (is_root_file s). split; [intros H; left; auto|].
      intros [[_ H]|[H _]]; [exact H|tauto].
    + rewrite HIn in R1. rewrite (Hforce s Hs). split; [intros H; right; auto|intros [[H _]|[_ H]]; [tauto|exact H]].
Qed.

(* ---------- the plan as a whole ---------- *)
Theorem plan_exact st fs a : acyclic st -> fresh fs -> uniq_files fs -> NoDup (map c_name (ctx_all st)) ->
  p_ok (plan all_off st fs a) = true ->
  let pl := plan all_off st fs a in
  p_fuel_ok pl = true
  /\ same_files fs (p_files pl)
  /\ (forall n, In n (p_del pl) <-> Discard st fs a n)
  /\ (forall s', In s' (p_files pl) -> (sf_force s' = true <-> Forced st fs a s')).
Proof.
  intros Hac Hfresh Hu Hall Hok. unfold plan in *.
  destruct (plan_changed all_off (ctx_all st) fs a) as [ps1|] eqn:E1; [|cbn in Hok; discriminate].
  destruct (plan_changed_spec st fs a ps1 Hfresh Hu Hall E1) as (S1 & D1 & F1).
  destruct (plan_imports_spec st fs a ps1 Hac (Build_P1 st fs a ps1 S1 D1 F1)) as (ps2 & E2 & HP2).
  rewrite E2. cbn [p_fuel_ok p_files p_del].
  destruct (plan_widen_spec st fs a ps2 HP2) as [S3 D3 F3].
  split; [reflexivity|]. split; [exact S3|]. split; [exact D3|exact F3].
Qed.
