(* Proofs/TimeWindows.v — timer_active_check's model agrees with the property's reading of @time_active for every list of
   signed windows, every start-up time, sun table and instant (C07, second clause). *)
From PV Require Import Common.Util Gen.GuardConsts Time.Windows.
From Coq Require Import Lia ZifyBool.

Local Open Scope Z_scope.

(* ---------- facts about the regenerated constants (a changed operator breaks these) ---------- *)
Lemma consts_windows :
  wa_order_cmp = CmpLe /\ wa_in_lo_cmp = CmpLe /\ wa_in_hi_cmp = CmpLe /\ wa_wrap_lo_cmp = CmpGe /\ wa_wrap_hi_cmp = CmpLe /\
  wa_wrap_or = true /\ wa_pos_any = true /\ wa_pos_empty = true /\ wa_neg_all = true /\ wa_comb_and = true.
Proof. repeat split; reflexivity. Qed.

(* ---------- ranges ---------- *)
Lemma range_match_spec s e now : range_match s e now = in_range_spec s e now.
Proof.
  destruct consts_windows as (H1 & H2 & H3 & H4 & H5 & H6 & _).
  unfold range_match, in_range_spec. rewrite H1, H2, H3, H4, H5, H6. reflexivity.
Qed.

Lemma in_range_spec_iff s e now : in_range_spec s e now = true <-> in_range s e now.
Proof. unfold in_range_spec, in_range. destruct (Z.leb_spec s e); lia. Qed.

Lemma win_match_spec w st sun now : win_match w st sun now = in_window_spec w st sun now.
Proof. destruct w as [a b|c]; cbn [win_match in_window_spec]; [apply range_match_spec|reflexivity]. Qed.

(* ---------- cron ---------- *)
Lemma inl_In x l : inl x l = true <-> In x l.
Proof.
  unfold inl. rewrite existsb_exists. split.
  - intros (y & Hy & E). apply Z.eqb_eq in E. subst. assumption.
  - intros H. exists x. split; [assumption|apply Z.eqb_refl].
Qed.

Lemma cron_match_spec c now : cron_match c now = true <-> cron_spec c now.
Proof.
  unfold cron_match, cron_spec. cbv zeta.
  destruct (c_dom_star c || c_dow_star c);
    rewrite ?andb_true_iff, ?orb_true_iff, ?inl_In; tauto.
Qed.

Lemma in_window_spec_iff w st sun now : in_window_spec w st sun now = true <-> in_window w st sun now.
Proof. destruct w as [a b|c]; cbn [in_window_spec in_window]; [apply in_range_spec_iff|apply cron_match_spec]. Qed.

(* ---------- the loop and the +/- combination ---------- *)
Definition is_neg (s : sspec) : bool := fst s.
Definition is_pos (s : sspec) : bool := negb (fst s).

Lemma collect_spec specs st sun now : forall pos neg,
  collect specs st sun now pos neg =
  (pos ++ map (fun s : sspec => win_match (snd s) st sun now) (filter is_pos specs),
   neg ++ map (fun s : sspec => negb (win_match (snd s) st sun now)) (filter is_neg specs)).
Proof.
  induction specs as [|[ng w] r IH]; intros pos neg; cbn [collect filter map].
  - rewrite !app_nil_r. reflexivity.
  - unfold is_pos, is_neg; cbn [fst snd]. destruct ng; cbn [negb]; rewrite IH; cbn [map snd];
      rewrite <- app_assoc; reflexivity.
Qed.

Lemma existsb_map_filter {A} (P f : A -> bool) l :
  existsb (fun b => b) (map f (filter P l)) = existsb (fun x => P x && f x) l.
Proof.
  induction l as [|x r IH]; cbn; [reflexivity|]. destruct (P x); cbn; rewrite IH; reflexivity.
Qed.

Lemma forallb_map_filter {A} (P f : A -> bool) l :
  forallb (fun b => b) (map f (filter P l)) = forallb (fun x => negb (P x) || f x) l.
Proof.
  induction l as [|x r IH]; cbn; [reflexivity|]. destruct (P x); cbn; rewrite IH; reflexivity.
Qed.

Lemma filter_nil_existsb {A} (P : A -> bool) l : filter P l = [] <-> existsb P l = false.
Proof.
  induction l as [|x r IH]; cbn; [tauto|]. destruct (P x); cbn; [split; discriminate|assumption].
Qed.

Lemma existsb_ext' {A} (f g : A -> bool) l : (forall x, f x = g x) -> existsb f l = existsb g l.
Proof. intros H. induction l as [|x r IH]; cbn; [reflexivity|]. rewrite H, IH. reflexivity. Qed.
Lemma forallb_ext' {A} (f g : A -> bool) l : (forall x, f x = g x) -> forallb f l = forallb g l.
Proof. intros H. induction l as [|x r IH]; cbn; [reflexivity|]. rewrite H, IH. reflexivity. Qed.

Lemma pos_comb_alt (l : list bool) :
  match l with [] => true | _ :: _ => existsb (fun b => b) l end = negb (existsb (fun _ => true) l) || existsb (fun b => b) l.
Proof. destruct l; reflexivity. Qed.

Lemma existsb_const_map_filter {A B} (P : A -> bool) (f : A -> B) l :
  existsb (fun _ => true) (map f (filter P l)) = existsb P l.
Proof. induction l as [|x r IH]; cbn; [reflexivity|]. destruct (P x); cbn; [reflexivity|assumption]. Qed.

(* C07_windows *)
Lemma active_check_spec specs st sun now : active_check specs st sun now = active_spec_b specs st sun now.
Proof.
  destruct consts_windows as (_ & _ & _ & _ & _ & _ & H7 & H8 & H9 & H10).
  unfold active_check. rewrite collect_spec. cbn [app]. unfold combine_results, active_spec_b.
  rewrite H7, H8, H9, H10. unfold py_any, py_all.
  rewrite forallb_map_filter, pos_comb_alt, existsb_const_map_filter, existsb_map_filter.
  assert (E1 : existsb (fun x : sspec => is_pos x && win_match (snd x) st sun now) specs =
               existsb (fun s : sspec => negb (fst s) && in_window_spec (snd s) st sun now) specs).
  { apply existsb_ext'. intros x. unfold is_pos. rewrite win_match_spec. reflexivity. }
  assert (E2 : forallb (fun x : sspec => negb (is_neg x) || negb (win_match (snd x) st sun now)) specs =
               forallb (fun s : sspec => negb (fst s) || negb (in_window_spec (snd s) st sun now)) specs).
  { apply forallb_ext'. intros x. unfold is_neg. rewrite win_match_spec. reflexivity. }
  rewrite E1, E2. reflexivity.
Qed.

(* the same against the propositional reading of the property text *)
Lemma active_spec_b_iff specs st sun now : active_spec_b specs st sun now = true <-> active_spec specs st sun now.
Proof.
  unfold active_spec_b, active_spec. rewrite andb_true_iff, orb_true_iff, negb_true_iff, forallb_forall.
  rewrite existsb_exists. split.
  - intros [[Hn|(s & Hin & Hs)] Hneg]; split.
    + left. intros w Hw. 
      assert (X : existsb (fun s : sspec => negb (fst s)) specs = true).
      { apply existsb_exists. exists (false, w). split; [assumption|reflexivity]. }
      congruence.
    + intros w Hw Hi. specialize (Hneg _ Hw). cbn [fst snd negb orb] in Hneg.
      apply in_window_spec_iff in Hi. rewrite Hi in Hneg. discriminate.
    + right. destruct s as [ng w]. cbn [fst snd] in Hs. apply andb_true_iff in Hs. destruct Hs as [Hp Hw].
      destruct ng; [discriminate|]. exists w. split; [assumption|apply in_window_spec_iff; assumption].
    + intros w Hw Hi. specialize (Hneg _ Hw). cbn [fst snd negb orb] in Hneg.
      apply in_window_spec_iff in Hi. rewrite Hi in Hneg. discriminate.
  - intros [Hpos Hneg]. split.
    + destruct Hpos as [Hnone|(w & Hin & Hw)].
      * left. destruct (existsb (fun s : sspec => negb (fst s)) specs) eqn:E; [|reflexivity].
        apply existsb_exists in E. destruct E as ([ng w] & Hin & Hp). cbn [fst] in Hp. destruct ng; [discriminate|].
        exfalso. exact (Hnone w Hin).
      * right. exists (false, w). split; [assumption|]. cbn [fst snd negb andb]. apply in_window_spec_iff. assumption.
    + intros [ng w] Hin. cbn [fst snd]. destruct ng; cbn [negb orb]; [|reflexivity].
      destruct (in_window_spec w st sun now) eqn:E; [|reflexivity].
      exfalso. apply (Hneg w Hin). apply in_window_spec_iff. assumption.
Qed.

Lemma active_check_iff specs st sun now : active_check specs st sun now = true <-> active_spec specs st sun now.
Proof. rewrite active_check_spec. apply active_spec_b_iff. Qed.

(* ---------- range(): both end points are included ---------- *)
Lemma range_inclusive s e : s <= e ->
  range_match s e s = true /\ range_match s e e = true /\
  range_match s e (s - 1) = false /\ range_match s e (e + 1) = false.
Proof.
  intros H. repeat split.
  - rewrite range_match_spec, in_range_spec_iff. unfold in_range. lia.
  - rewrite range_match_spec, in_range_spec_iff. unfold in_range. lia.
  - apply not_true_is_false. rewrite range_match_spec, in_range_spec_iff. unfold in_range. lia.
  - apply not_true_is_false. rewrite range_match_spec, in_range_spec_iff. unfold in_range. lia.
Qed.

(* ---------- a range whose end precedes its start wraps ---------- *)
Lemma range_wraps s e now : e < s -> range_match s e now = (s <=? now) || (now <=? e).
Proof. intros H. rewrite range_match_spec. unfold in_range_spec. destruct (Z.leb_spec s e); [lia|reflexivity]. Qed.

Lemma range_wrap_endpoints s e : e < s ->
  range_match s e s = true /\ range_match s e e = true /\
  (e + 1 < s -> range_match s e (e + 1) = false) /\ (e < s - 1 -> range_match s e (s - 1) = false).
Proof.
  intros H. repeat split; intros.
  - rewrite range_match_spec, in_range_spec_iff. unfold in_range. lia.
  - rewrite range_match_spec, in_range_spec_iff. unfold in_range. lia.
  - apply not_true_is_false. rewrite range_match_spec, in_range_spec_iff. unfold in_range. lia.
  - apply not_true_is_false. rewrite range_match_spec, in_range_spec_iff. unfold in_range. lia.
Qed.

(* ---------- daily windows "range(HH:MM:SS, HH:MM:SS)" at an instant [d * DAY + t] of day [d] ---------- *)
Lemma DAY_pos : 0 < DAY. Proof. reflexivity. Qed.

Lemma day_of_add d t : 0 <= t < DAY -> day_of (d * DAY + t) = d.
Proof.
  intros H. unfold day_of. rewrite Z.add_comm, Z.div_add by (pose proof DAY_pos; lia).
  rewrite Z.div_small by assumption. reflexivity.
Qed.

Lemma daily_match ta tb st sun d t : 0 <= ta < DAY -> 0 <= t < DAY ->
  win_match (daily ta tb) st sun (d * DAY + t) = in_range_spec ta tb t.
Proof.
  intros Ha Ht. unfold daily. cbn [win_match resolve resolve_day].
  rewrite (day_of_add d t Ht), (day_of_add d ta Ha), range_match_spec.
  unfold in_range_spec.
  destruct (Z.leb_spec (d * DAY + ta) (d * DAY + tb)), (Z.leb_spec ta tb); try lia;
    destruct (Z.leb_spec (d * DAY + ta) (d * DAY + t)), (Z.leb_spec ta t),
             (Z.leb_spec (d * DAY + t) (d * DAY + tb)), (Z.leb_spec t tb); try lia; reflexivity.
Qed.

Lemma daily_endpoints_inclusive ta tb st sun d : 0 <= ta -> ta <= tb -> tb < DAY ->
  win_match (daily ta tb) st sun (d * DAY + ta) = true /\
  win_match (daily ta tb) st sun (d * DAY + tb) = true /\
  (tb + 1 < DAY -> win_match (daily ta tb) st sun (d * DAY + (tb + 1)) = false) /\
  (0 <= ta - 1 -> win_match (daily ta tb) st sun (d * DAY + (ta - 1)) = false).
Proof.
  intros H0 H1 H2. repeat split; intros; rewrite daily_match by lia.
  - rewrite in_range_spec_iff. unfold in_range. lia.
  - rewrite in_range_spec_iff. unfold in_range. lia.
  - apply not_true_is_false. rewrite in_range_spec_iff. unfold in_range. lia.
  - apply not_true_is_false. rewrite in_range_spec_iff. unfold in_range. lia.
Qed.

Lemma daily_wrap_midnight ta tb st sun d t : 0 <= tb -> tb < ta -> ta < DAY -> 0 <= t < DAY ->
  win_match (daily ta tb) st sun (d * DAY + t) = (ta <=? t) || (t <=? tb).
Proof.
  intros H0 H1 H2 Ht. rewrite daily_match by lia. unfold in_range_spec. destruct (Z.leb_spec ta tb); [lia|reflexivity].
Qed.

(* … i.e. the instant lies between [ta] of some day and [tb] of the following day *)
Lemma daily_wrap_overnight ta tb st sun d t : 0 <= tb -> tb < ta -> ta < DAY -> 0 <= t < DAY ->
  win_match (daily ta tb) st sun (d * DAY + t) = true <->
  exists k, k * DAY + ta <= d * DAY + t <= (k + 1) * DAY + tb.
Proof.
  intros H0 H1 H2 Ht. rewrite daily_wrap_midnight by assumption. pose proof DAY_pos as HD. split.
  - intros H. apply orb_true_iff in H. destruct H as [H|H].
    + exists d. lia.
    + exists (d - 1). lia.
  - intros (k & Hk1 & Hk2).
    assert (k = d \/ k = d - 1) as [-> | ->] by nia; lia.
Qed.

(* concrete end points, +/- one microsecond (day 19786 = Monday 2024-03-04) *)
Definition D0 : Z := 19786 * DAY.
Definition hms (h m s : Z) : Z := h * HOUR + m * MINUTE + s * 1000000.

Example range_10_13_end_included : win_match (daily (hms 10 0 0) (hms 13 0 0)) 0 [] (D0 + hms 13 0 0) = true.
Proof. reflexivity. Qed.
Example range_10_13_after_end : win_match (daily (hms 10 0 0) (hms 13 0 0)) 0 [] (D0 + hms 13 0 0 + 1) = false.
Proof. reflexivity. Qed.
Example range_10_13_start_included : win_match (daily (hms 10 0 0) (hms 13 0 0)) 0 [] (D0 + hms 10 0 0) = true.
Proof. reflexivity. Qed.
Example range_10_13_before_start : win_match (daily (hms 10 0 0) (hms 13 0 0)) 0 [] (D0 + hms 10 0 0 - 1) = false.
Proof. reflexivity. Qed.
Example range_22_06_end_included : win_match (daily (hms 22 0 0) (hms 6 0 0)) 0 [] (D0 + hms 6 0 0) = true.
Proof. reflexivity. Qed.
Example range_22_06_after_end : win_match (daily (hms 22 0 0) (hms 6 0 0)) 0 [] (D0 + hms 6 0 0 + 1) = false.
Proof. reflexivity. Qed.
Example range_22_06_before_start : win_match (daily (hms 22 0 0) (hms 6 0 0)) 0 [] (D0 + hms 22 0 0 - 1) = false.
Proof. reflexivity. Qed.
Example range_22_06_start_included : win_match (daily (hms 22 0 0) (hms 6 0 0)) 0 [] (D0 + hms 22 0 0) = true.
Proof. reflexivity. Qed.
Example range_22_06_midnight : win_match (daily (hms 22 0 0) (hms 6 0 0)) 0 [] (D0 + DAY - 1) = true
                               /\ win_match (daily (hms 22 0 0) (hms 6 0 0)) 0 [] (D0 + DAY) = true.
Proof. split; reflexivity. Qed.
(* the hypotheses of the daily lemmas are inhabited *)
Example daily_hyps_inhabited : 0 <= hms 6 0 0 /\ hms 6 0 0 < hms 22 0 0 /\ hms 22 0 0 < DAY /\ hms 10 0 0 <= hms 13 0 0.
Proof. cbv. intuition discriminate. Qed.

(* ---------- calendar and cron, concrete ---------- *)
Example civil_2024_03_04 : civil_from_days 19786 = (2024, 3, 4) /\ days_from_civil 2024 3 4 = 19786 /\ dow_of_day 19786 = 1.
Proof. repeat split; reflexivity. Qed.
Example civil_leap_day : civil_from_days (days_from_civil 2024 2 28 + 1) = (2024, 2, 29)
                         /\ civil_from_days (days_from_civil 2023 2 28 + 1) = (2023, 3, 1)
                         /\ civil_from_days (days_from_civil 2023 12 31 + 1) = (2024, 1, 1).
Proof. repeat split; reflexivity. Qed.

Definition zr (a n : nat) : list Z := map Z.of_nat (seq a n).
Definition cron_noon : cronspec :=                      (* "0 12 * * *" *)
  {| c_min := [0]; c_hour := [12]; c_dom := zr 1 31; c_mon := zr 1 12; c_dow := zr 0 7; c_dom_star := true; c_dow_star := true |}.
Example cron_noon_minute : cron_match cron_noon (D0 + hms 12 0 0) = true /\ cron_match cron_noon (D0 + hms 12 0 59 + 999999) = true
                           /\ cron_match cron_noon (D0 + hms 12 1 0) = false /\ cron_match cron_noon (D0 + hms 12 0 0 - 1) = false.
Proof. repeat split; reflexivity. Qed.
(* "* * 5 * 1" on Monday the 4th: both day fields restricted, the weekday suffices; "* * 5 * *": it does not *)
Definition cron_5th_or_monday : cronspec :=
  {| c_min := zr 0 60; c_hour := zr 0 24; c_dom := [5]; c_mon := zr 1 12; c_dow := [1]; c_dom_star := false; c_dow_star := false |}.
Definition cron_5th : cronspec :=
  {| c_min := zr 0 60; c_hour := zr 0 24; c_dom := [5]; c_mon := zr 1 12; c_dow := zr 0 7; c_dom_star := false; c_dow_star := true |}.
Example cron_day_rule : cron_match cron_5th_or_monday (D0 + hms 12 0 0) = true /\ cron_match cron_5th (D0 + hms 12 0 0) = false
                        /\ cron_match cron_5th (D0 + DAY + hms 12 0 0) = true.
Proof. repeat split; reflexivity. Qed.
