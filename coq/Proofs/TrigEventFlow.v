(* Proofs/TrigEventFlow.v — C08: exactly-once, in-order delivery for every schedule of the LTS of Trig/EventFlow.v,
   independence of consumption from runs, context parenting, exactness of event.fire. *)
From PV Require Import Common.Util Trig.EventBase Gen.EventFlowConsts Trig.EventFlow.
From Coq Require Import Lia.

(* ---------- the generated tables say what the documentation says ---------- *)
Lemma base_args_spec : forall legacy o, base_args legacy o = spec_base o.
Proof. intros [|] [[| |] key ep ctx attrs data opt]; reflexivity. Qed.

Lemma ctx_key_action_spec : forall legacy, ctx_key_action legacy = s_context.
Proof. intros [|]; reflexivity. Qed.

Lemma ctx_key_fire_spec : ctx_key_fire = s_context.
Proof. reflexivity. Qed.

(* ---------- small helpers ---------- *)
Lemma upd_same {A} (f : nat -> A) i x : upd f i x i = x.
Proof. unfold upd. rewrite Nat.eqb_refl. reflexivity. Qed.

Lemma upd_other {A} (f : nat -> A) i j x : j <> i -> upd f i x j = f j.
Proof. intros H. unfold upd. destruct (Nat.eqb j i) eqn:E; [apply Nat.eqb_eq in E; congruence|reflexivity]. Qed.

Lemma mk_context_parent_indep S c c' K m : c_parent (mk_context S c K m) = c_parent (mk_context S c' K m).
Proof. reflexivity. Qed.

(* ---------- pending / model_runs distribute over append ---------- *)
Lemma pending_app S T q1 q2 : pending S T (q1 ++ q2) = pending S T q1 ++ pending S T q2.
Proof.
  unfold pending. destruct (trig_at S T) as [tr|]; [|reflexivity].
  destruct (sy_legacy S); [rewrite filter_app|]; rewrite map_app; reflexivity.
Qed.

Lemma model_runs_app S T o1 o2 : model_runs S T (o1 ++ o2) = model_runs S T o1 ++ model_runs S T o2.
Proof.
  unfold model_runs. destruct (trig_at S T) as [tr|]; [|reflexivity].
  rewrite filter_app, map_app. reflexivity.
Qed.

Lemma pending_deliver S T o : pending S T (deliver S T o) = model_runs S T [o].
Proof.
  unfold pending, deliver, model_runs, matches, expected_parent, mk_context.
  destruct (trig_at S T) as [tr|]; [|reflexivity].
  cbn [filter].
  destruct (sy_live S T && subscribed tr o) eqn:Esub; cbn [andb].
  - destruct (sy_legacy S) eqn:EL.
    + cbn [filter m_args m_occ]. destruct (passes tr (base_args true o)) eqn:EP; cbn [map m_args m_occ c_parent]; [|reflexivity].
      unfold run_kwargs. reflexivity.
    + destruct (passes tr (base_args false o)) eqn:EP; cbn [map m_args m_occ c_parent]; reflexivity.
  - destruct (sy_legacy S); reflexivity.
Qed.

(* ---------- the invariant ---------- *)
Definition inv (S : sys) (st : state) : Prop :=
  forall T, started st T ++ pending S T (st_q st T) = model_runs S T (st_occs st).

Lemma inv_init S : inv S init_state.
Proof.
  intros T. unfold started, pending, model_runs, init_state; cbn.
  destruct (trig_at S T); [destruct (sy_legacy S)|]; reflexivity.
Qed.

Lemma started_bus S st o T : started (bus S st o) T = started st T.
Proof. reflexivity. Qed.

Lemma inv_bus S st o : inv S st -> inv S (bus S st o).
Proof.
  intros H T. rewrite started_bus. cbn [bus st_q st_occs].
  rewrite pending_app, model_runs_app, app_assoc, H, pending_deliver. reflexivity.
Qed.

Lemma started_app_run st T rn q occs acts :
  started {| st_q := q; st_occs := occs; st_runs := st_runs st ++ [rn]; st_acts := acts |} T =
  started st T ++ (if Nat.eqb (r_trig rn) T then [(r_kwargs rn, c_parent (r_ctx rn))] else []).
Proof.
  unfold started; cbn [st_runs]. rewrite filter_app, map_app. cbn [filter].
  destruct (Nat.eqb (r_trig rn) T); reflexivity.
Qed.

Lemma inv_consume S st T c st' : inv S st -> consume S st T c = Some st' -> inv S st'.
Proof.
  intros H E T'. unfold consume in E.
  destruct (trig_at S T) as [tr|] eqn:ET; [|discriminate].
  destruct (st_q st T) as [|m rest] eqn:EQ; [discriminate|].
  pose proof (H T') as HT'.
  destruct (Nat.eq_dec T' T) as [->|NE].
  - (* the consumed queue *)
    rewrite EQ in HT'. unfold pending in HT' |- *. rewrite ET in HT' |- *.
    destruct (sy_legacy S) eqn:EL.
    + cbn [filter] in HT'.
      destruct (passes tr (m_args m)) eqn:EP; inversion E; subst st'; clear E.
      * unfold start_run. rewrite started_app_run. cbn [r_trig r_kwargs r_ctx st_q st_occs].
        rewrite Nat.eqb_refl, upd_same, <- app_assoc. cbn [map app] in HT' |- *. exact HT'.
      * unfold started in *. cbn [st_runs st_q st_occs]. rewrite upd_same. exact HT'.
    + inversion E; subst st'; clear E.
      unfold start_run. rewrite started_app_run. cbn [r_trig r_kwargs r_ctx st_q st_occs].
      rewrite Nat.eqb_refl, upd_same, <- app_assoc. cbn [map app] in HT' |- *. exact HT'.
  - (* another queue: untouched *)
    assert (NE' : Nat.eqb T T' = false) by (apply Nat.eqb_neq; congruence).
    destruct (sy_legacy S) eqn:EL.
    + destruct (passes tr (m_args m)) eqn:EP; inversion E; subst st'; clear E.
      * unfold start_run. rewrite started_app_run. cbn [r_trig st_q st_occs].
        rewrite NE', app_nil_r, upd_other by exact NE. exact HT'.
      * unfold started in *. cbn [st_runs st_q st_occs]. rewrite upd_other by exact NE. exact HT'.
    + inversion E; subst st'; clear E.
      unfold start_run. rewrite started_app_run. cbn [r_trig st_q st_occs].
      rewrite NE', app_nil_r, upd_other by exact NE. exact HT'.
Qed.

Lemma set_begun_proj {B} (f : run -> B) (g : run -> bool) :
  (forall x, f (mark_begun x) = f x) -> (forall x, g (mark_begun x) = g x) ->
  forall rs r, map f (filter g (set_begun rs r)) = map f (filter g rs).
Proof.
  intros Hf Hg. induction rs as [|x rs IH]; intros [|r]; cbn [set_begun filter]; try reflexivity.
  - rewrite Hg. destruct (g x); cbn [map]; [rewrite Hf|]; reflexivity.
  - destruct (g x); cbn [map]; rewrite IH; reflexivity.
Qed.

Lemma started_set_begun st r q occs acts T :
  started {| st_q := q; st_occs := occs; st_runs := set_begun (st_runs st) r; st_acts := acts |} T = started st T.
Proof. unfold started; cbn [st_runs]. apply set_begun_proj; intros x; reflexivity. Qed.

Lemma inv_emit S st e : inv S st -> inv S (emit st e).
Proof. intros H T. exact (H T). Qed.

Lemma inv_step_run S st r a st' : inv S st -> step_run S st r a = Some st' -> inv S st'.
Proof.
  intros H E. unfold step_run in E.
  destruct (nth_error (st_runs st) r) as [rn|]; [|discriminate].
  destruct a as [kw c|key given data c ep|c|c|].
  - destruct (negb (r_begun rn) && kw_eqb kw (r_kwargs rn) && ctxv_eqb c (r_ctx rn)); inversion E; subst st'.
    intros T. rewrite started_set_begun. exact (H T).
  - match type of E with (if ?b then _ else _) = _ => destruct b end; inversion E; subst st'.
    apply inv_bus, inv_emit, H.
  - destruct (r_begun rn && ctxv_eqb c (r_ctx rn)); inversion E; subst st'. apply inv_emit, H.
  - destruct (r_begun rn && ctxv_eqb c (r_ctx rn)); inversion E; subst st'. apply inv_emit, H.
  - inversion E; subst st'. exact H.
Qed.

Lemma inv_step S st l st' : inv S st -> step S st l = Some st' -> inv S st'.
Proof.
  intros H E. destruct l as [o|T c|r a]; cbn [step] in E.
  - inversion E; subst. apply inv_bus, H.
  - eapply inv_consume; eassumption.
  - eapply inv_step_run; eassumption.
Qed.

Lemma run_from_inv (P : state -> Prop) S :
  (forall st l st', P st -> step S st l = Some st' -> P st') ->
  forall ls st st', P st -> run_from S st ls = Some st' -> P st'.
Proof.
  intros Hstep. induction ls as [|l ls IH]; intros st st' H E; cbn in E.
  - inversion E; subst; exact H.
  - unfold run_from in IH. destruct (step S st l) as [st1|] eqn:E1; [|discriminate].
    eapply IH; [eapply Hstep; eassumption|exact E].
Qed.

(* the Model does, for every schedule, exactly what [model_runs] says *)
Theorem fifo_invariant_model : forall S ls st, run_lts S ls = Some st ->
  forall T, started st T ++ pending S T (st_q st T) = model_runs S T (st_occs st).
Proof.
  intros S ls st E. unfold run_lts in E.
  exact (run_from_inv (inv S) S (inv_step S) ls init_state st (inv_init S) E).
Qed.

(* ---------- conformant systems: the Model's runs are the Spec's runs ---------- *)
Definition conformant (S : sys) : Prop := ctx_shadow S = false /\ forall T, sy_live S T = true.

Lemma model_runs_spec S T tr occs : conformant S -> trig_at S T = Some tr -> model_runs S T occs = spec_runs tr occs.
Proof.
  intros [Hs Hl] ET. unfold model_runs, spec_runs. rewrite ET.
  assert (Hf : forall o, matches S T o = spec_matches tr o).
  { intros o. unfold matches, spec_matches. rewrite ET, Hl, base_args_spec. reflexivity. }
  rewrite (filter_ext _ _ Hf). apply map_ext. intros o.
  unfold expected_parent, run_kwargs, spec_kwargs. rewrite Hs, base_args_spec. reflexivity.
Qed.

Lemma mk_sys_conformant legacy trigs order : conformant (mk_sys all_off legacy trigs order).
Proof.
  split; [destruct legacy; reflexivity|]. intros T. cbn. unfold compute_live. cbn. rewrite orb_true_r. reflexivity.
Qed.

Theorem fifo_invariant : forall legacy trigs order ls st T tr,
  let S := mk_sys all_off legacy trigs order in
  run_lts S ls = Some st -> nth_error trigs T = Some tr ->
  started st T ++ pending S T (st_q st T) = spec_runs tr (st_occs st).
Proof.
  intros legacy trigs order ls st T tr S E ET.
  rewrite (fifo_invariant_model S ls st E T).
  apply model_runs_spec; [apply mk_sys_conformant|exact ET].
Qed.

(* prefix at every moment: nothing is started that the Spec does not demand, in the Spec's order *)
Corollary fifo_prefix : forall legacy trigs order ls st T tr,
  run_lts (mk_sys all_off legacy trigs order) ls = Some st -> nth_error trigs T = Some tr ->
  exists rest, spec_runs tr (st_occs st) = started st T ++ rest.
Proof. intros. eexists. symmetry. eapply fifo_invariant; eassumption. Qed.

(* a queue is drained when nothing in it will start a run any more (legacy: only filtered-out messages left) *)
Definition drained (S : sys) (st : state) (T : nat) : Prop := pending S T (st_q st T) = [].

Corollary fifo_quiescent : forall legacy trigs order ls st T tr,
  let S := mk_sys all_off legacy trigs order in
  run_lts S ls = Some st -> nth_error trigs T = Some tr -> drained S st T ->
  started st T = spec_runs tr (st_occs st).
Proof.
  intros legacy trigs order ls st T tr S E ET D.
  pose proof (fifo_invariant legacy trigs order ls st T tr E ET) as H. cbv zeta in H. fold S in H.
  unfold drained in D. rewrite D, app_nil_r in H. exact H.
Qed.

Lemma empty_queue_drained S st T : st_q st T = [] -> drained S st T.
Proof.
  intros E. unfold drained, pending. rewrite E. destruct (trig_at S T); [destruct (sy_legacy S)|]; reflexivity.
Qed.

(* ---------- independence: consumption never waits for a run ---------- *)
Theorem consume_enabled_total : forall S st T c,
  trig_at S T <> None -> consume_enabled st T = true -> exists st', step S st (LConsume T c) = Some st'.
Proof.
  intros S st T c HT HE. cbn [step]. unfold consume, consume_enabled in *.
  destruct (trig_at S T) as [tr|]; [|congruence].
  destruct (st_q st T) as [|m rest]; [discriminate|].
  destruct (sy_legacy S); [destruct (passes tr (m_args m))|]; eexists; reflexivity.
Qed.

Lemma app_not_nil {A} (l1 l2 : list A) : l1 <> [] -> l1 ++ l2 <> [].
Proof. destruct l1; [congruence|discriminate]. Qed.

Theorem run_step_keeps_consume_enabled : forall S st r a st' T,
  step S st (LRun r a) = Some st' -> consume_enabled st T = true -> consume_enabled st' T = true.
Proof.
  intros S st r a st' T E HE. cbn [step] in E. unfold step_run in E.
  destruct (nth_error (st_runs st) r) as [rn|]; [|discriminate].
  destruct a as [kw c|key given data c ep|c|c|].
  - destruct (negb (r_begun rn) && kw_eqb kw (r_kwargs rn) && ctxv_eqb c (r_ctx rn)); inversion E; subst st'. exact HE.
  - match type of E with (if ?b then _ else _) = _ => destruct b end; inversion E; subst st'.
    unfold consume_enabled in *. cbn [bus emit st_q].
    destruct (st_q st T) as [|m q]; [discriminate|]. reflexivity.
  - destruct (r_begun rn && ctxv_eqb c (r_ctx rn)); inversion E; subst st'. exact HE.
  - destruct (r_begun rn && ctxv_eqb c (r_ctx rn)); inversion E; subst st'. exact HE.
  - inversion E; subst st'. exact HE.
Qed.

(* the outcome of a consumption depends on the queues only: two states that differ in their runs
   (how many, begun or not, what they emitted) enable the same consumptions with the same effect on the queues *)
Theorem consume_ignores_runs : forall S st1 st2 T c,
  st_q st1 T = st_q st2 T ->
  match consume S st1 T c, consume S st2 T c with
  | Some a, Some b => st_q a T = st_q b T /\
                      exists new, st_runs a = st_runs st1 ++ new /\ st_runs b = st_runs st2 ++ new
  | None, None => True
  | _, _ => False
  end.
Proof.
  intros S st1 st2 T c EQ. unfold consume. rewrite <- EQ.
  destruct (trig_at S T) as [tr|]; [|exact I].
  destruct (st_q st1 T) as [|m rest]; [exact I|].
  destruct (sy_legacy S); [destruct (passes tr (m_args m))|]; unfold start_run; cbn [st_q st_runs]; rewrite !upd_same;
    (split; [reflexivity|]).
  - eexists; split; reflexivity.
  - exists []. rewrite !app_nil_r. split; reflexivity.
  - eexists; split; reflexivity.
Qed.

(* ---------- contexts ---------- *)
(* every emission without an explicit context carries the context of the run that made it *)
Definition acts_inv (st : state) : Prop :=
  Forall (fun e => em_explicit e = false ->
            exists rn, nth_error (st_runs st) (em_run e) = Some rn /\ em_ctx e = r_ctx rn) (st_acts st).

Lemma nth_error_set_begun rs r i rn :
  nth_error rs i = Some rn -> exists rn', nth_error (set_begun rs r) i = Some rn' /\ r_ctx rn' = r_ctx rn
    /\ r_trig rn' = r_trig rn /\ r_kwargs rn' = r_kwargs rn /\ r_func rn' = r_func rn.
Proof.
  revert r i. induction rs as [|x rs IH]; intros r i E; [destruct i; discriminate|].
  destruct r as [|r], i as [|i]; cbn [set_begun nth_error] in *.
  - inversion E; subst. eexists; split; [reflexivity|]. repeat split.
  - eexists; split; [exact E|]. repeat split.
  - inversion E; subst. eexists; split; [reflexivity|]. repeat split.
  - apply IH; exact E.
Qed.

Lemma acts_inv_runs_ext st runs' q occs :
  (forall i rn, nth_error (st_runs st) i = Some rn -> exists rn', nth_error runs' i = Some rn' /\ r_ctx rn' = r_ctx rn) ->
  acts_inv st -> acts_inv {| st_q := q; st_occs := occs; st_runs := runs'; st_acts := st_acts st |}.
Proof.
  intros Hext H. unfold acts_inv in *. cbn [st_acts st_runs].
  eapply Forall_impl; [|exact H]. intros e He Hx. destruct (He Hx) as (rn & E1 & E2).
  destruct (Hext _ _ E1) as (rn' & E1' & E2'). exists rn'. split; [exact E1'|congruence].
Qed.

Lemma acts_inv_emit st e :
  (em_explicit e = false -> exists rn, nth_error (st_runs st) (em_run e) = Some rn /\ em_ctx e = r_ctx rn) ->
  acts_inv st -> acts_inv (emit st e).
Proof.
  intros He H. unfold acts_inv, emit in *. cbn [st_acts st_runs]. apply Forall_app. split; [exact H|].
  constructor; [exact He|constructor].
Qed.

Lemma acts_inv_step S st l st' : acts_inv st -> step S st l = Some st' -> acts_inv st'.
Proof.
  intros H E. destruct l as [o|T c|r a]; cbn [step] in E.
  - inversion E; subst. exact H.
  - unfold consume in E. destruct (trig_at S T) as [tr|]; [|discriminate].
    destruct (st_q st T) as [|m rest]; [discriminate|].
    assert (Happ : forall rn0, acts_inv {| st_q := upd (st_q st) T rest; st_occs := st_occs st;
                                             st_runs := st_runs st ++ [rn0]; st_acts := st_acts st |}).
    { intros rn0. apply acts_inv_runs_ext; [|exact H]. intros i rn Ei. exists rn. split; [|reflexivity].
      rewrite nth_error_app1; [exact Ei|]. apply nth_error_Some. congruence. }
    destruct (sy_legacy S); [destruct (passes tr (m_args m))|]; inversion E; subst st'; try apply Happ.
    exact H.
  - unfold step_run in E. destruct (nth_error (st_runs st) r) as [rn|] eqn:ER; [|discriminate].
    destruct a as [kw c|key given data c ep|c|c|].
    + destruct (negb (r_begun rn) && kw_eqb kw (r_kwargs rn) && ctxv_eqb c (r_ctx rn)); inversion E; subst st'.
      apply acts_inv_runs_ext; [|exact H]. intros i rn0 Ei.
      destruct (nth_error_set_begun _ r _ _ Ei) as (rn' & E1 & E2 & _). exists rn'. split; assumption.
    + match type of E with (if ?b then _ else _) = _ => destruct b end; inversion E; subst st'.
      unfold bus. cbn [st_acts st_runs emit].
      change (acts_inv (emit st {| em_run := r; em_explicit := match fire_explicit given with Some _ => true | None => false end;
                                   em_ctx := match fire_explicit given with Some _ => c | None => r_ctx rn end |})).
      apply acts_inv_emit; [|exact H]. cbn [em_explicit em_run em_ctx].
      destruct (fire_explicit given); [discriminate|]. intros _. exists rn. split; [exact ER|reflexivity].
    + destruct (r_begun rn && ctxv_eqb c (r_ctx rn)); inversion E; subst st'.
      apply acts_inv_emit; [|exact H]. intros _. exists rn. split; [exact ER|reflexivity].
    + destruct (r_begun rn && ctxv_eqb c (r_ctx rn)); inversion E; subst st'.
      apply acts_inv_emit; [|exact H]. intros _. exists rn. split; [exact ER|reflexivity].
    + inversion E; subst st'. exact H.
Qed.

Lemma acts_inv_reachable S ls st : run_lts S ls = Some st -> acts_inv st.
Proof.
  intros E. unfold run_lts in E.
  refine (run_from_inv acts_inv S _ ls init_state st _ E).
  - intros st0 l st1. apply acts_inv_step.
  - constructor.
Qed.

Lemma run_in_started st i rn : nth_error (st_runs st) i = Some rn ->
  In (r_kwargs rn, c_parent (r_ctx rn)) (started st (r_trig rn)).
Proof.
  intros E. unfold started. apply in_map_iff. exists rn. split; [reflexivity|].
  apply filter_In. split; [eapply nth_error_In; exact E|apply Nat.eqb_refl].
Qed.

(* runs only ever belong to declared decorators *)
Definition runs_wf (S : sys) (st : state) : Prop :=
  Forall (fun rn => exists tr, trig_at S (r_trig rn) = Some tr /\ r_func rn = t_func tr) (st_runs st).

Lemma set_begun_Forall (P : run -> Prop) : (forall x, P x -> P (mark_begun x)) ->
  forall rs r, Forall P rs -> Forall P (set_begun rs r).
Proof.
  intros HP. induction rs as [|x rs IH]; intros [|r] H; cbn [set_begun]; auto; inversion H; subst; constructor; auto.
Qed.

Lemma runs_wf_step S st l st' : runs_wf S st -> step S st l = Some st' -> runs_wf S st'.
Proof.
  intros H E. destruct l as [o|T c|r a]; cbn [step] in E.
  - inversion E; subst. exact H.
  - unfold consume in E. destruct (trig_at S T) as [tr|] eqn:ET; [|discriminate].
    destruct (st_q st T) as [|m rest]; [discriminate|].
    assert (Happ : forall K cx, runs_wf S (start_run S st T tr K c cx rest)).
    { intros K cx. unfold runs_wf, start_run. cbn [st_runs]. apply Forall_app. split; [exact H|].
      constructor; [|constructor]. cbn [r_trig r_func]. exists tr. split; [exact ET|reflexivity]. }
    destruct (sy_legacy S); [destruct (passes tr (m_args m))|]; inversion E; subst st'; try apply Happ.
    exact H.
  - unfold step_run in E. destruct (nth_error (st_runs st) r) as [rn|]; [|discriminate].
    destruct a as [kw c|key given data c ep|c|c|].
    + destruct (negb (r_begun rn) && kw_eqb kw (r_kwargs rn) && ctxv_eqb c (r_ctx rn)); inversion E; subst st'.
      unfold runs_wf. cbn [st_runs]. apply set_begun_Forall; [|exact H]. intros x Hx. exact Hx.
    + match type of E with (if ?b then _ else _) = _ => destruct b end; inversion E; subst st'. exact H.
    + destruct (r_begun rn && ctxv_eqb c (r_ctx rn)); inversion E; subst st'. exact H.
    + destruct (r_begun rn && ctxv_eqb c (r_ctx rn)); inversion E; subst st'. exact H.
    + inversion E; subst st'. exact H.
Qed.

Lemma runs_wf_reachable S ls st : run_lts S ls = Some st -> runs_wf S st.
Proof.
  intros E. unfold run_lts in E.
  refine (run_from_inv (runs_wf S) S _ ls init_state st _ E).
  - intros st0 l st1. apply runs_wf_step.
  - constructor.
Qed.

(* every run was started by an occurrence matching one of the decorators of its function, received exactly the Spec's
   kwargs for it, and its HA context has that occurrence's context as parent; what it emits carries that context *)
Theorem context_parent : forall legacy trigs order ls st,
  run_lts (mk_sys all_off legacy trigs order) ls = Some st ->
  (forall i rn, nth_error (st_runs st) i = Some rn ->
     exists tr o, nth_error trigs (r_trig rn) = Some tr /\ r_func rn = t_func tr /\ In o (st_occs st) /\
                  spec_matches tr o = true /\ r_kwargs rn = spec_kwargs tr o /\ c_parent (r_ctx rn) = o_ctx o) /\
  (forall e, In e (st_acts st) -> em_explicit e = false ->
     exists rn, nth_error (st_runs st) (em_run e) = Some rn /\ em_ctx e = r_ctx rn).
Proof.
  intros legacy trigs order ls st E. split.
  - intros i rn Ei.
    pose proof (runs_wf_reachable _ _ _ E) as W. unfold runs_wf in W. rewrite Forall_forall in W.
    destruct (W rn (nth_error_In _ _ Ei)) as (tr & ET & EF). unfold trig_at in ET. cbn [mk_sys sy_trigs] in ET.
    pose proof (fifo_invariant legacy trigs order ls st (r_trig rn) tr E ET) as F. cbv zeta in F.
    pose proof (run_in_started st i rn Ei) as HI.
    assert (HI' : In (r_kwargs rn, c_parent (r_ctx rn)) (spec_runs tr (st_occs st))).
    { rewrite <- F. apply in_or_app. left. exact HI. }
    unfold spec_runs in HI'. apply in_map_iff in HI'. destruct HI' as (o & Eo & Io).
    apply filter_In in Io. destruct Io as [Io Mo]. inversion Eo; subst.
    exists tr, o. repeat split; try assumption; congruence.
  - intros e Ie Hx. pose proof (acts_inv_reachable _ _ _ E) as A. unfold acts_inv in A.
    rewrite Forall_forall in A. exact (A e Ie Hx).
Qed.

(* the same about the UNCHANGED code (switch D81 on): the parent is right unless the event data or the decorator
   kwargs bind the name "context" *)
Lemma kw_get_set_other kw k k' v : k <> k' -> kw_get k (kw_set kw k' v) = kw_get k kw.
Proof.
  intros NE. induction kw as [|[k0 v0] kw IH]; cbn [kw_set kw_get].
  - destruct (N.eqb k k') eqn:E; [apply N.eqb_eq in E; congruence|reflexivity].
  - destruct (N.eqb k' k0) eqn:E0; cbn [kw_get].
    + apply N.eqb_eq in E0; subst k0. destruct (N.eqb k k') eqn:E; [apply N.eqb_eq in E; congruence|reflexivity].
    + destruct (N.eqb k k0); [reflexivity|exact IH].
Qed.

Lemma kw_get_update_notin k b : ~ In k (map fst b) -> forall a, kw_get k (kw_update a b) = kw_get k a.
Proof.
  unfold kw_update. induction b as [|[k' v] b IH]; intros NI a; cbn [fold_left fst snd]; [reflexivity|].
  cbn [map fst In] in NI. rewrite IH by tauto. apply kw_get_set_other. intros ->. tauto.
Qed.

Theorem expected_parent_current : forall legacy trigs order tr o,
  let S := mk_sys all_on legacy trigs order in
  o_kind o = KEvent -> ~ In s_context (map fst (o_data o)) -> ~ In s_context (map fst (t_kwargs tr)) ->
  expected_parent S tr o = o_ctx o.
Proof.
  intros legacy trigs order tr o S Hk Hd Hkw. unfold expected_parent, S, ctx_shadow. cbn [mk_sys sy_cfg sy_legacy all_on d_ctx_shadow_legacy d_ctx_shadow_new].
  replace (if legacy then true else true) with true by (destruct legacy; reflexivity).
  unfold ctx_parent_of, run_kwargs. rewrite ctx_key_action_spec, base_args_spec.
  rewrite kw_get_update_notin by exact Hkw. unfold spec_base. rewrite Hk.
  rewrite kw_get_update_notin by exact Hd. cbn. destruct (o_ctx o); reflexivity.
Qed.

(* ---------- event.fire ---------- *)
Lemma filter_ctx_notin given :
  ~ In s_context (map fst given) ->
  filter (fun kv => negb (N.eqb (fst kv) s_context && match snd kv with VCtx _ => true | _ => false end)) given = given.
Proof.
  induction given as [|[k v] r IH]; intros NI; cbn [filter fst snd]; [reflexivity|].
  cbn [map fst In] in NI. destruct (N.eqb k s_context) eqn:E; [apply N.eqb_eq in E; subst; tauto|].
  cbn [andb negb]. rewrite IH by tauto. reflexivity.
Qed.

Lemma fire_data_spec : forall given, NoDup (map fst given) -> fire_data given = spec_fire_data given.
Proof.
  unfold fire_data, fire_explicit, spec_fire_data. rewrite ctx_key_fire_spec.
  induction given as [|[k v] r IH]; intros ND; [reflexivity|].
  cbn [map fst] in ND. inversion ND as [|? ? NI ND']; subst.
  cbn [kw_get kw_del filter fst snd].
  destruct (N.eqb s_context k) eqn:E.
  - apply N.eqb_eq in E; subst k. rewrite N.eqb_refl. cbn [andb].
    destruct v; cbn [negb]; rewrite filter_ctx_notin by exact NI; reflexivity.
  - assert (E' : N.eqb k s_context = false) by (rewrite N.eqb_sym; exact E). rewrite E'. cbn [andb negb].
    specialize (IH ND').
    destruct (kw_get s_context r) as [[z|s| |b|c|i t]|]; rewrite <- IH; reflexivity.
Qed.

(* an event.fire step of any run puts exactly the given parameters (minus a Context-typed `context`) on the bus, as
   data of an event that is itself handed to every subscribed trigger, under the explicit context if one was given
   and under the run's context otherwise *)
Theorem fire_exact : forall S st r key given data c ep st',
  NoDup (map fst given) ->
  step S st (LRun r (AFire key given data c ep)) = Some st' ->
  kw_eqb data (spec_fire_data given) = true /\
  st_occs st' = st_occs st ++ [ {| o_kind := KEvent; o_key := key; o_epoch := ep; o_ctx := Some (c_id c); o_attrs := [];
                                  o_data := spec_fire_data given; o_opt := None |} ] /\
  (match kw_get s_context given with
   | Some (VCtx x) => c_id c = x
   | _ => exists rn, nth_error (st_runs st) r = Some rn /\ c_id c = c_id (r_ctx rn) /\ c_parent c = c_parent (r_ctx rn)
   end).
Proof.
  intros S st r key given data c ep st' ND E. cbn [step] in E. unfold step_run in E.
  destruct (nth_error (st_runs st) r) as [rn|] eqn:ER; [|discriminate].
  match type of E with (if ?b then _ else _) = _ => destruct b eqn:EB end; inversion E; subst st'; clear E.
  apply andb_true_iff in EB. destruct EB as [EB Ec]. apply andb_true_iff in EB. destruct EB as [_ Ed].
  rewrite (fire_data_spec given ND) in Ed. split; [exact Ed|]. split.
  - cbn [bus emit st_occs]. unfold fired_occ. rewrite (fire_data_spec given ND). reflexivity.
  - unfold fire_explicit in Ec. rewrite ctx_key_fire_spec in Ec.
    destruct (kw_get s_context given) as [[z|s| |b|x|i t]|];
      try (exists rn; split; [reflexivity|]; unfold ctxv_eqb in Ec; apply andb_true_iff in Ec; destruct Ec as [E1 E2];
           apply N.eqb_eq in E1; split; [exact E1|];
           destruct (c_parent c), (c_parent (r_ctx rn)); cbn in E2; try discriminate; try reflexivity;
           apply N.eqb_eq in E2; congruence).
    apply N.eqb_eq in Ec. exact Ec.
Qed.

(* ---------- known findings: the property is false of the faithful model ---------- *)
Definition wh_occ (key : N) : occ :=
  {| o_kind := KWebhook; o_key := key; o_epoch := 0; o_ctx := None; o_attrs := [(s_payload, VOther 50 true)]; o_data := []; o_opt := None |}.
Definition wh_trig (f key : N) : trigger :=
  {| t_func := f; t_dm := f; t_epochs := [0%N]; t_kind := KWebhook; t_key := key; t_filter := None; t_kwargs := [] |}.

(* D80: two functions share a webhook id (new subsystem): the second never runs although the request matches it
   (stated on the final state of a concrete schedule; states contain functions, so no equation on states) *)
Theorem refuted_D80 :
  exists trigs order ls T tr,
    let S := mk_sys {| d_webhook_dup := true; d_ctx_shadow_legacy := false; d_ctx_shadow_new := false |} false trigs order in
    nth_error trigs T = Some tr /\
    match run_lts S ls with
    | Some st => drained S st T /\ started st T <> spec_runs tr (st_occs st)
    | None => False
    end.
Proof.
  exists [wh_trig 100 40; wh_trig 101 40], [(true, 0%nat); (true, 1%nat)], [LBus (wh_occ 40); LConsume 0 7], 1%nat, (wh_trig 101 40).
  cbv zeta. split; [reflexivity|]. vm_compute. split; [reflexivity|discriminate].
Qed.

(* D81: an event whose data has a key "context": the run's HA context has no parent although the event has a context *)
Definition ev_occ_shadow : occ :=
  {| o_kind := KEvent; o_key := 41; o_epoch := 0; o_ctx := Some 9%N; o_attrs := []; o_data := [(s_context, VStr 42)]; o_opt := None |}.
Definition ev_trig (f key : N) : trigger :=
  {| t_func := f; t_dm := f; t_epochs := [0%N]; t_kind := KEvent; t_key := key; t_filter := None; t_kwargs := [] |}.

Theorem refuted_D81 :
  exists trigs order ls T tr,
    let S := mk_sys {| d_webhook_dup := false; d_ctx_shadow_legacy := true; d_ctx_shadow_new := false |} true trigs order in
    nth_error trigs T = Some tr /\
    match run_lts S ls with
    | Some st => drained S st T /\ started st T <> spec_runs tr (st_occs st) /\
                 map fst (started st T) = map fst (spec_runs tr (st_occs st))
    | None => False
    end.
Proof.
  exists [ev_trig 100 41], [], [LBus ev_occ_shadow; LConsume 0 7], 0%nat, (ev_trig 100 41).
  cbv zeta. split; [reflexivity|]. vm_compute. split; [reflexivity|split; [discriminate|reflexivity]].
Qed.

(* D82: the same in the new subsystem *)
Theorem refuted_D82 :
  exists trigs order ls T tr,
    let S := mk_sys {| d_webhook_dup := false; d_ctx_shadow_legacy := false; d_ctx_shadow_new := true |} false trigs order in
    nth_error trigs T = Some tr /\
    match run_lts S ls with
    | Some st => drained S st T /\ started st T <> spec_runs tr (st_occs st) /\
                 map fst (started st T) = map fst (spec_runs tr (st_occs st))
    | None => False
    end.
Proof.
  exists [ev_trig 100 41], [], [LBus ev_occ_shadow; LConsume 0 7], 0%nat, (ev_trig 100 41).
  cbv zeta. split; [reflexivity|]. vm_compute. split; [reflexivity|split; [discriminate|reflexivity]].
Qed.

(* the hypotheses of the theorems above are inhabited by non-trivial instances *)
Definition ex_trigs : list trigger :=
  [ {| t_func := 100; t_dm := 100; t_epochs := [0%N]; t_kind := KEvent; t_key := 41; t_filter := Some (FCmp CmpEq 43 (VInt 1)); t_kwargs := [(44%N, VInt 5)] |};
    {| t_func := 100; t_dm := 100; t_epochs := [0%N]; t_kind := KEvent; t_key := 41; t_filter := None; t_kwargs := [] |} ].
Definition ex_occ (c : N) (x : Z) : occ :=
  {| o_kind := KEvent; o_key := 41; o_epoch := 0; o_ctx := Some c; o_attrs := []; o_data := [(43%N, VInt x)]; o_opt := None |}.

Example fifo_example_legacy :
  match run_lts (mk_sys all_off true ex_trigs [])
          [LBus (ex_occ 1 1); LBus (ex_occ 2 2); LBus (ex_occ 3 1); LConsume 1 10; LConsume 0 11;
           LRun 0 (ABegin (spec_kwargs (ev_trig 100 41) (ex_occ 1 1)) {| c_id := 10; c_parent := Some 1%N |});
           LConsume 0 12; LConsume 0 13] with
  | Some st => map snd (started st 0) = [Some 1%N; Some 3%N] /\ length (st_q st 1) = 2%nat /\ drained (mk_sys all_off true ex_trigs []) st 0
  | None => False
  end.
Proof. vm_compute. repeat split. Qed.

Example fire_exact_example :
  NoDup (map fst [(s_rid, VInt 1); (43%N, VStr 45); (s_context, VCtx 9)]) /\
  spec_fire_data [(s_rid, VInt 1); (43%N, VStr 45); (s_context, VCtx 9)] = [(s_rid, VInt 1); (43%N, VStr 45)].
Proof.
  split; [|reflexivity].
  repeat constructor; cbn; intuition discriminate.
Qed.

Example expected_parent_current_example :
  o_kind (ex_occ 1 1) = KEvent /\ ~ In s_context (map fst (o_data (ex_occ 1 1))) /\
  ~ In s_context (map fst (t_kwargs (ev_trig 100 41))).
Proof. cbn. intuition discriminate. Qed.
