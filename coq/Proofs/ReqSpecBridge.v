(* Proofs/ReqSpecBridge.v — the conformant Model satisfies the *executable* Spec predicate [spec_table_ok] that the
   correspondence files evaluate on observations (C20, first sentence): for every list of lines, the table the
   conformant Model computes passes the very check applied to what the real code returned. *)
From PV Require Import Common.Util Gen.ReqConsts Req.Merge Req.Install Req.Spec Req.ReqCheck Proofs.ReqMerge.
From Coq Require Import Lia.

(* the property's reading of a line is the conformant model's reading *)
Lemma spec_line_parse l n v : spec_line l = Some (n, v) -> parse_line true l = PReq n v.
Proof.
  unfold spec_line, parse_line. change req_comment_char with 35%N. change req_sep with [61; 61]%N.
  destruct (strip (cut_at 35 l)) as [|c s] eqn:Es; [discriminate|].
  rewrite reject_chars_spec.
  destruct (contains 44 (c :: s) || contains 60 (c :: s) || contains 62 (c :: s)); [discriminate|].
  rewrite orb_false_r.
  destruct (split [61; 61]%N (c :: s)) as [|a [|b [|x r]]]; try discriminate.
  - cbn [length]. change req_max_parts with 2%N. cbn. intros H. inversion H; subst. reflexivity.
  - cbn [length]. change req_max_parts with 2%N. cbn -[strip]. intros H. inversion H; subst. reflexivity.
Qed.

Definition spec_reqs (lines : list str) : list (str * option str) :=
  flat_map (fun l => match spec_line l with Some r => [r] | None => [] end) lines.

Lemma in_spec_reqs ls n ov : In (n, ov) (spec_reqs (map snd ls)) <-> requires true n ov ls.
Proof.
  unfold spec_reqs, requires. rewrite in_flat_map. split.
  - intros (l & Hl & H). apply in_map_iff in Hl. destruct Hl as ([f l'] & E & Hl). cbn [snd] in E. subst l'.
    destruct (spec_line l) as [[n' ov']|] eqn:Es; [|destruct H]. destruct H as [H|[]]. inversion H; subst.
    exists f, l. split; [exact Hl|apply spec_line_parse; exact Es].
  - intros (f & l & Hl & Hp). exists l. split; [apply in_map_iff; exists (f, l); tauto|].
    rewrite (spec_line_some l n ov Hp). left. reflexivity.
Qed.

Lemma filter_key_none (t : table) n : ~ In n (map fst t) -> (forall k, In k (map fst t) -> strip k = k) ->
  filter (fun kv : str * option str => str_eqb (strip (fst kv)) n) (table_otable t) = [].
Proof.
  induction t as [|[k0 e0] r IH]; intros Hn Hs; [reflexivity|].
  cbn [table_otable map filter fst snd]. rewrite (Hs k0 (or_introl eq_refl)).
  destruct (str_eqb k0 n) eqn:E.
  - apply str_eqb_eq in E. subst. exfalso. apply Hn. left. reflexivity.
  - apply IH; [intros H; apply Hn; right; exact H|intros k Hk; apply Hs; right; exact Hk].
Qed.

Lemma filter_key_single (t : table) n e : NoDup (map fst t) -> (forall k, In k (map fst t) -> strip k = k) ->
  tlookup n t = Some e ->
  filter (fun kv : str * option str => str_eqb (strip (fst kv)) n) (table_otable t) = [(n, e_ver e)].
Proof.
  induction t as [|[k0 e0] r IH]; intros ND Hs Hl; [discriminate|].
  cbn [map fst] in ND. inversion ND as [|? ? Hk ND']; subst.
  cbn [table_otable map filter fst snd]. rewrite (Hs k0 (or_introl eq_refl)).
  cbn [tlookup] in Hl. destruct (str_eqb n k0) eqn:E.
  - apply str_eqb_eq in E. subst k0. inversion Hl; subst e0. rewrite str_eqb_refl. f_equal.
    apply (filter_key_none r n Hk). intros k Hk'. apply Hs. right. exact Hk'.
  - rewrite str_eqb_sym, E. apply IH; [exact ND'|intros k Hk'; apply Hs; right; exact Hk'|exact Hl].
Qed.

Lemma in_pins_of n reqs v : In v (pins_of n reqs) <-> In (n, Some v) reqs.
Proof.
  unfold pins_of. rewrite in_flat_map. split.
  - intros ([n' ov] & Hin & H). cbn [fst snd] in H. destruct (str_eqb n' n) eqn:E; [|destruct H].
    apply str_eqb_eq in E. subst n'. destruct ov as [w|]; [|destruct H]. destruct H as [H|[]]. subst. exact Hin.
  - intros Hin. exists (n, Some v). split; [exact Hin|]. cbn [fst snd]. rewrite str_eqb_refl. left. reflexivity.
Qed.

Section Bridge.
  Variable vvalid : str -> bool.
  Variable vle : str -> str -> bool.
  Variable installed : str -> option str.
  Hypothesis vle_total : forall a b, vvalid a = true -> vvalid b = true -> vle a b = true \/ vle b a = true.
  Hypothesis vle_trans : forall a b c, vvalid a = true -> vvalid b = true -> vvalid c = true ->
    vle a b = true -> vle b c = true -> vle a c = true.
  Hypothesis vvalid_nil : vvalid [] = false.
  Hypothesis vvalid_marker : vvalid unpinned_version = false.

  Theorem conformant_table_ok (ls : list (N * str)) :
    spec_table_ok vvalid vle (map snd ls) (table_otable (merge_lines vvalid vle installed all_off ls)) = true.
  Proof.
    set (t := merge_lines vvalid vle installed all_off ls).
    assert (ND : NoDup (map fst t)) by apply merge_lines_NoDup.
    assert (KS : forall k, In k (map fst t) -> strip k = k).
    { intros k Hk. apply (merge_lines_keys_stripped vvalid vle installed all_off ls k eq_refl Hk). }
    assert (OK : cfg_ok vvalid all_off ls) by (intros H; discriminate).
    pose proof (fun p => merge_max vvalid vle installed vle_total vle_trans vvalid_nil vvalid_marker all_off ls p OK) as MM.
    cbn [d25_no_strip all_off negb] in MM. cbv zeta in MM. fold t in MM.
    unfold spec_table_ok. fold (spec_reqs (map snd ls)). apply andb_true_iff. split.
    - (* every required package: exactly one entry, the highest pin *)
      apply forallb_forall. intros [n ov] Hin. cbn [fst]. unfold spec_name_ok.
      destruct (existsb (fun v => negb (vvalid v)) (pins_of n (spec_reqs (map snd ls)))) eqn:Ex; [reflexivity|].
      assert (PV : forall v, requires true n (Some v) ls -> vvalid v = true).
      { intros v Hr. destruct (vvalid v) eqn:Ev; [reflexivity|]. exfalso.
        assert (existsb (fun v => negb (vvalid v)) (pins_of n (spec_reqs (map snd ls))) = true); [|congruence].
        apply existsb_exists. exists v. split; [apply in_pins_of, in_spec_reqs; exact Hr|rewrite Ev; reflexivity]. }
      apply in_spec_reqs in Hin. specialize (MM n).
      destruct (tlookup n t) as [e|] eqn:El.
      + rewrite (filter_key_single t n e ND KS El). destruct MM as (_ & MM).
        destruct (e_ver e) as [w|].
        * destruct MM as (Vw & Rw & Mx).
          assert (Hw : In w (pins_of n (spec_reqs (map snd ls)))) by (apply in_pins_of, in_spec_reqs; exact Rw).
          destruct (pins_of n (spec_reqs (map snd ls))) as [|p0 ps] eqn:Ep; [destruct Hw|]. rewrite <- Ep in *.
          rewrite Vw. cbn [andb]. unfold is_max. apply andb_true_iff. split.
          -- apply existsb_exists. exists w. split; [exact Hw|]. unfold Merge.veq.
             destruct (vle_total w w Vw Vw) as [H|H]; rewrite H; reflexivity.
          -- apply forallb_forall. intros v Hv. apply in_pins_of, in_spec_reqs in Hv. apply Mx; [exact Hv|exact (PV v Hv)].
        * destruct MM as (_ & Mn).
          destruct (pins_of n (spec_reqs (map snd ls))) as [|p0 ps] eqn:Ep; [reflexivity|]. exfalso.
          assert (Hp : In p0 (pins_of n (spec_reqs (map snd ls)))) by (rewrite Ep; left; reflexivity).
          apply in_pins_of, in_spec_reqs in Hp. pose proof (Mn p0 Hp) as Hc. rewrite (PV p0 Hp) in Hc. discriminate.
      + exfalso. destruct (MM ov Hin) as (v & Hv & Iv). subst ov. rewrite (PV v Hin) in Iv. discriminate.
    - (* nothing else *)
      apply forallb_forall. intros [k v] Hin. cbn [fst]. unfold table_otable in Hin. apply in_map_iff in Hin.
      destruct Hin as ([k' e] & E & Hin). inversion E; subst k' v. clear E.
      assert (Hk : In k (map fst t)) by (apply in_map_iff; exists (k, e); split; [reflexivity|exact Hin]).
      rewrite (KS k Hk). unfold has_req. apply existsb_exists.
      unfold t in Hk. rewrite merge_lines_reqs in Hk. apply merge_reqs_keys in Hk. destruct Hk as [[]|Hk].
      apply in_map_iff in Hk. destruct Hk as ([[f n] ov] & E & Hr). cbn [r_name fst snd] in E. subst n.
      cbn [all_off d25_no_strip negb] in Hr. apply in_parse_reqs in Hr. destruct Hr as (l & Hl & Hp).
      exists (k, ov). split; [apply in_spec_reqs; exists f, l; tauto|cbn [fst]; apply str_eqb_refl].
  Qed.
End Bridge.
