(* Proofs/LifeDiscoverDoc.v — discover (driven by the regenerated load_paths) against the documented rules of
   docs/reference.rst: which files are auto-loaded (top level, scripts/**, configured apps with the package form
   preferred), under which context name, '#'-commented files and directories skipped.  The statements mention the
   generated [load_paths]: a changed table re-checks (and, if it changes the rules, breaks) these proofs. *)
From PV Require Import Common.Util Life.ReloadBase Gen.ReloadConsts Life.Modules Life.Reload Life.ReloadPlanSpec Life.ReloadSpec
  Proofs.LifeReloadBase Proofs.LifePlan Proofs.LifeDiscover.
From Coq Require Import Lia.

Definition lp1 := {| lp_base := None; lp_pat := [GStarPy]; lp_check := false; lp_auto := true |}.
Definition lp2 := {| lp_base := Some s_apps; lp_pat := [GStar; GInitPy]; lp_check := true; lp_auto := true |}.
Definition lp3 := {| lp_base := Some s_apps; lp_pat := [GStarPy]; lp_check := true; lp_auto := true |}.
Definition lp4 := {| lp_base := Some s_apps; lp_pat := [GStar; GStarStar; GStarPy]; lp_check := false; lp_auto := false |}.
Definition lp5 := {| lp_base := Some s_modules; lp_pat := [GStar; GInitPy]; lp_check := false; lp_auto := false |}.
Definition lp6 := {| lp_base := Some s_modules; lp_pat := [GStarPy]; lp_check := false; lp_auto := false |}.
Definition lp7 := {| lp_base := Some s_modules; lp_pat := [GStar; GStarStar; GStarPy]; lp_check := false; lp_auto := false |}.
Definition lp8 := {| lp_base := Some s_scripts; lp_pat := [GStarStar; GStarPy]; lp_check := false; lp_auto := true |}.

(* tie T1: the regenerated table is this one *)
Lemma load_paths_is : load_paths = [lp1; lp2; lp3; lp4; lp5; lp6; lp7; lp8].
Proof. reflexivity. Qed.
Lemma top_root_is : top_root = s_file.
Proof. reflexivity. Qed.

(* ---------- trees ---------- *)
Definition nondeg (p : path) : Prop := ends_slash_init p = true -> (2 < length p)%nat.
Record tree_ok (t : tree) : Prop := {
  to_nodup : NoDup (map fst t);
  to_nondeg : forall p f, In (p, f) t -> nondeg p }.

Lemma tree_get_In t p f : NoDup (map fst t) -> (tree_get t p = Some f <-> In (p, f) t).
Proof.
  induction t as [|[q g] t IH]; cbn [tree_get map fst In]; intros Hn; [split; [discriminate|intros []]|].
  inversion Hn as [|? ? Hnot Hn']; subst. destruct (nl_eqb q p) eqn:E.
  - apply nl_eqb_eq in E. subst q. split.
    + intros H; inversion H; subst. auto.
    + intros [H|H]; [inversion H; reflexivity|]. exfalso. apply Hnot. apply in_map_iff. exists (p, f). auto.
  - apply nl_eqb_neq in E. rewrite (IH Hn'). split; [auto|]. intros [H|H]; [inversion H; congruence|exact H].
Qed.

(* ---------- candidates of one row ---------- *)
Lemma entry_of_Some lp k p f x : entry_of lp k (p, f) = Some x ->
  lp_match lp p = true /\ hashed p = false /\ sf_path x = p /\ sf_auto x = lp_auto lp /\ sf_gen x = f_gen f /\
  sf_name x = (match lp_base lp with None => top_root :: strip_init p | Some _ => strip_init p end) /\
  (lp_check lp = true -> exists v, cfg_get k (app_of (lp_base lp) (sf_name x)) = Some v).
Proof.
  unfold entry_of. destruct (lp_match lp p); cbn [negb]; [|discriminate]. destruct (hashed p); [discriminate|].
  destruct (lp_check lp).
  - destruct (cfg_get k _) as [v|] eqn:Eg; [|discriminate]. intros H; inversion H; subst; cbn. repeat split; auto. intros _. eauto.
  - intros H; inversion H; subst; cbn. repeat split; auto. discriminate.
Qed.

Lemma entry_of_make lp k p f : lp_match lp p = true -> hashed p = false ->
  (lp_check lp = true -> exists v, cfg_get k (app_of (lp_base lp) (match lp_base lp with None => top_root :: strip_init p | Some _ => strip_init p end)) = Some v) ->
  exists x, entry_of lp k (p, f) = Some x.
Proof.
  intros Hm Hh Hg. unfold entry_of. rewrite Hm, Hh. cbn [negb]. cbv zeta. destruct (lp_check lp); [|eauto].
  destruct (Hg eq_refl) as (v & Ev). eexists. unfold cname, path in *. rewrite Ev. reflexivity.
Qed.

Lemma find_none_if l n : (forall x, In x l -> sf_name x <> n) -> sf_find l n = None.
Proof.
  intros H. destruct (sf_find l n) as [s|] eqn:E; [|reflexivity]. apply sf_find_Some in E. destruct E as [E1 E2]. destruct (H s E1 E2).
Qed.
Lemma find_some_if l n x : In x l -> sf_name x = n -> exists s, sf_find l n = Some s /\ In s l /\ sf_name s = n.
Proof.
  intros Hx En. destruct (sf_find l n) as [s|] eqn:E.
  - exists s. apply sf_find_Some in E. tauto.
  - apply sf_find_None_has in E. assert (sf_has l n = true) by (apply sf_has_In; rewrite <- En; apply in_map; exact Hx). congruence.
Qed.

Lemma strip_init_head b r : r <> [] -> exists q, strip_init (b :: r) = b :: q.
Proof.
  intros Hr. unfold strip_init. destruct (ends_slash_init (b :: r)); [|eauto].
  destruct r as [|c r]; [congruence|]. cbn [removelast]. eauto.
Qed.

(* shape of the path and name of a candidate, row by row *)
Lemma row1_shape k t x : In x (row_cands k t lp1) -> exists y, sf_path x = [y] /\ sf_name x = [s_file; y] /\ sf_auto x = true.
Proof.
  intros H. apply row_cands_In in H. destruct H as ([p f] & _ & E). apply entry_of_Some in E.
  destruct E as (Hm & _ & Hp & Ha & _ & Hn & _). cbn in Hm. apply (gmatch_starpy p) in Hm. destruct Hm as (y & ->).
  exists y. repeat split; auto.
Qed.

Lemma based_name_head k t lp b x : lp_base lp = Some b -> lp_pat lp <> [] -> In x (row_cands k t lp) ->
  exists r q, sf_path x = b :: r /\ r <> [] /\ sf_name x = b :: q /\ sf_name x = strip_init (sf_path x) /\ gmatch (lp_pat lp) r = true.
Proof.
  intros Hb Hpat H. apply row_cands_In in H. destruct H as ([p f] & _ & E). apply entry_of_Some in E.
  destruct E as (Hm & _ & Hp & _ & _ & Hn & _). unfold lp_match in Hm. rewrite Hb in Hm, Hn.
  destruct p as [|b' r]; [discriminate|]. apply andb_true_iff in Hm. destruct Hm as [Hb' Hm]. apply N.eqb_eq in Hb'. subst b'.
  assert (Hr : r <> []).
  { intros ->. destruct (lp_pat lp) as [|g pat]; [congruence|]. destruct g; cbn in Hm; discriminate. }
  destruct (strip_init_head b r Hr) as (q & Hq). exists r, q. rewrite Hp, Hn. repeat split; auto.
Qed.

(* ---------- documented names ---------- *)
Lemma sp_name_of_long p : (2 <= length (strip_init p))%nat -> sp_name_of p = strip_init p.
Proof. unfold sp_name_of. destruct (strip_init p) as [|x [|y q]]; cbn; intros; try lia; reflexivity. Qed.

Lemma strip_init_len p : nondeg p -> (2 <= length p)%nat -> (2 <= length (strip_init p))%nat.
Proof.
  intros Hn Hl. unfold strip_init. destruct (ends_slash_init p) eqn:E; [|exact Hl].
  specialize (Hn E). destruct p as [|a p]; [cbn in Hl; lia|].
  assert (H : length (removelast (a :: p)) = length p).
  { clear. revert a. induction p as [|b p IH]; intros a; [reflexivity|]. cbn [removelast length] in *. rewrite IH. reflexivity. }
  rewrite H. cbn in Hn. lia.
Qed.

Theorem discover_names t k s : tree_ok t -> In s (discover t k) ->
  sf_name s = sp_name_of (sf_path s) /\ hashed (sf_path s) = false /\ exists f, In (sf_path s, f) t /\ sf_gen s = f_gen f /\ sf_mtime s = f_mtime f.
Proof.
  intros [Hnd Hdeg] Hs. destruct (discover_entry_ok t k s Hs) as [(f & Hf & Eg & Em & _) Hv (lp & Hlp & Hm & _ & Hn & _) _ _].
  split; [|split; [exact Hv|exists f; auto]].
  apply load_paths_rows in Hlp. unfold lp_match in Hm.
  destruct Hlp as [->|[->|[->|[->|[->|[->|[->| ->]]]]]]]; cbn [lp_base lp_pat] in Hm, Hn.
  - apply gmatch_starpy in Hm. destruct Hm as (y & Ep). rewrite Hn, Ep. reflexivity.
  - destruct (sf_path s) as [|b r] eqn:Ep; [discriminate|]. apply andb_true_iff in Hm. destruct Hm as [_ Hm].
    rewrite Hn. symmetry. apply sp_name_of_long. apply strip_init_len; [apply (Hdeg _ f); exact Hf|].
    apply gmatch_star_init in Hm. destruct Hm as (a & ->). cbn; lia.
  - destruct (sf_path s) as [|b r] eqn:Ep; [discriminate|]. apply andb_true_iff in Hm. destruct Hm as [_ Hm].
    rewrite Hn. symmetry. apply sp_name_of_long. apply strip_init_len; [apply (Hdeg _ f); exact Hf|].
    apply gmatch_starpy in Hm. destruct Hm as (a & ->). cbn; lia.
  - destruct (sf_path s) as [|b r] eqn:Ep; [discriminate|]. apply andb_true_iff in Hm. destruct Hm as [_ Hm].
    rewrite Hn. symmetry. apply sp_name_of_long. apply strip_init_len; [apply (Hdeg _ f); exact Hf|].
    apply gmatch_star_starstar_py in Hm. destruct Hm as (a & r' & -> & Hr). destruct r'; [congruence|cbn; lia].
  - destruct (sf_path s) as [|b r] eqn:Ep; [discriminate|]. apply andb_true_iff in Hm. destruct Hm as [_ Hm].
    rewrite Hn. symmetry. apply sp_name_of_long. apply strip_init_len; [apply (Hdeg _ f); exact Hf|].
    apply gmatch_star_init in Hm. destruct Hm as (a & ->). cbn; lia.
  - destruct (sf_path s) as [|b r] eqn:Ep; [discriminate|]. apply andb_true_iff in Hm. destruct Hm as [_ Hm].
    rewrite Hn. symmetry. apply sp_name_of_long. apply strip_init_len; [apply (Hdeg _ f); exact Hf|].
    apply gmatch_starpy in Hm. destruct Hm as (a & ->). cbn; lia.
  - destruct (sf_path s) as [|b r] eqn:Ep; [discriminate|]. apply andb_true_iff in Hm. destruct Hm as [_ Hm].
    rewrite Hn. symmetry. apply sp_name_of_long. apply strip_init_len; [apply (Hdeg _ f); exact Hf|].
    apply gmatch_star_starstar_py in Hm. destruct Hm as (a & r' & -> & Hr). destruct r'; [congruence|cbn; lia].
  - destruct (sf_path s) as [|b r] eqn:Ep; [discriminate|]. apply andb_true_iff in Hm. destruct Hm as [_ Hm].
    rewrite Hn. symmetry. apply sp_name_of_long. apply strip_init_len; [apply (Hdeg _ f); exact Hf|].
    apply gmatch_starstar_py in Hm. destruct r; [congruence|cbn; lia].
Qed.

(* ---------- which row answers for a name ---------- *)
Lemma disc_found t k pre lp post n : load_paths = pre ++ lp :: post ->
  (forall lp' x, In lp' pre -> In x (row_cands k t lp') -> sf_name x <> n) ->
  (exists x, In x (row_cands k t lp) /\ sf_name x = n) ->
  exists s, sf_find (discover t k) n = Some s /\ In s (row_cands k t lp) /\ sf_name s = n.
Proof.
  intros E Hpre (x & Hx & En). rewrite discover_find. unfold cands. rewrite E, flat_map_app. cbn [flat_map].
  rewrite sf_find_app, find_none_if.
  - rewrite sf_find_app. destruct (find_some_if _ n x Hx En) as (s & Fs & Hs & Es). rewrite Fs. eauto.
  - intros y Hy. apply in_flat_map in Hy. destruct Hy as (lp' & Hlp' & Hy). eapply Hpre; eassumption.
Qed.

Lemma disc_entry_is_found t k s : In s (discover t k) -> sf_find (discover t k) (sf_name s) = Some s.
Proof. intros Hs. apply sf_find_uniq; [apply discover_uniq|exact Hs]. Qed.

Lemma row_name_head k t lp x : In lp load_paths -> In x (row_cands k t lp) ->
  exists q, sf_name x = (match lp_base lp with None => s_file | Some b => b end) :: q.
Proof.
  intros Hlp Hx. apply load_paths_rows in Hlp.
  destruct Hlp as [->|[->|[->|[->|[->|[->|[->| ->]]]]]]];
    try (destruct (row1_shape k t x Hx) as (y & _ & -> & _); eexists; reflexivity);
    (eapply based_name_head in Hx; [|reflexivity|discriminate]; destruct Hx as (r & q & _ & _ & -> & _); eexists; reflexivity).
Qed.

Lemma cand_in_row k t lp p f : In (p, f) t -> lp_match lp p = true -> hashed p = false ->
  (lp_check lp = true -> exists v, cfg_get k (app_of (lp_base lp) (match lp_base lp with None => top_root :: strip_init p | Some _ => strip_init p end)) = Some v) ->
  exists x, In x (row_cands k t lp) /\ sf_path x = p /\ sf_auto x = lp_auto lp
            /\ sf_name x = (match lp_base lp with None => top_root :: strip_init p | Some _ => strip_init p end).
Proof.
  intros Hin Hm Hh Hg. destruct (entry_of_make lp k p f Hm Hh Hg) as (x & Ex). exists x.
  split; [apply row_cands_In; exists (p, f); auto|]. apply entry_of_Some in Ex. tauto.
Qed.

Lemma row_cand_file k t lp x : In x (row_cands k t lp) -> exists f, In (sf_path x, f) t /\ hashed (sf_path x) = false /\ sf_auto x = lp_auto lp
   /\ (lp_check lp = true -> exists v, cfg_get k (app_of (lp_base lp) (sf_name x)) = Some v).
Proof.
  intros H. apply row_cands_In in H. destruct H as ([p f] & Hpf & E). apply entry_of_Some in E.
  destruct E as (_ & Hh & Hp & Ha & _ & _ & Hg). exists f. rewrite Hp. auto.
Qed.

(* scripts/a.py and scripts/a/__init__.py would both be "scripts.a" *)
Definition unambiguous (t : tree) (p : path) : Prop := forall p' f', In (p', f') t -> strip_init p' = strip_init p -> p' = p.

Lemma hashed_app_init a : hashed [s_apps; a] = false -> hashed [s_apps; a; s_init] = false.
Proof. unfold hashed. cbn. intros H. rewrite !orb_false_r in *. exact H. Qed.

Theorem discover_autoload_exact t k p f : tree_ok t -> In (p, f) t -> unambiguous t p ->
  (sp_autoload t k p = true <-> exists s, In s (discover t k) /\ sf_path s = p /\ sf_auto s = true).
Proof.
  intros [Hnd Hdeg] Hpf Hamb. split.
  - (* documented auto-load place -> discovered as auto-loaded *)
    intros Ha. unfold sp_autoload in Ha. apply andb_true_iff in Ha. destruct Ha as [Hh Ha]. apply negb_true_iff in Hh.
    destruct p as [|r rest]; [discriminate|]. destruct rest as [|a rest].
    + (* top level *)
      destruct (cand_in_row k t lp1 [r] f Hpf eq_refl Hh) as (x & Hx & Hp & Hau & Hn); [discriminate|].
      destruct (disc_found t k [] lp1 [lp2; lp3; lp4; lp5; lp6; lp7; lp8] (sf_name x) eq_refl) as (s & Fs & Hs & Es); [intros ? ? []|eauto|].
      apply sf_find_Some in Fs. exists s. split; [tauto|].
      destruct (row1_shape k t s Hs) as (y & Py & Ny & Ay). split; [|exact Ay].
      rewrite Es, Hn in Ny. cbn in Ny. inversion Ny; subst. exact Py.
    + destruct (r =? s_scripts)%N eqn:Er.
      * (* scripts/** *)
        apply N.eqb_eq in Er. subst r.
        destruct (cand_in_row k t lp8 (s_scripts :: a :: rest) f Hpf) as (x & Hx & Hp & Hau & Hn); [unfold lp_match; cbn [lp_base lp8 lp_pat]; rewrite N.eqb_refl; cbn [andb]; apply gmatch_starstar_py; discriminate|exact Hh|discriminate|].
        destruct (strip_init_head s_scripts (a :: rest)) as (q & Eq); [discriminate|].
        destruct (disc_found t k [lp1; lp2; lp3; lp4; lp5; lp6; lp7] lp8 [] (sf_name x) eq_refl) as (s & Fs & Hs & Es).
        { intros lp' y Hlp' Hy E. assert (Hin : In lp' load_paths) by (rewrite load_paths_is; cbn in *; tauto).
          destruct (row_name_head k t lp' y Hin Hy) as (q' & Eq'). rewrite Hn in E. cbn [lp_base lp8] in E. rewrite E, Eq in Eq'.
          cbn in Hlp'. destruct Hlp' as [<-|[<-|[<-|[<-|[<-|[<-|[<-|[]]]]]]]]; cbn in Eq'; inversion Eq'. }
        { eauto. }
        apply sf_find_Some in Fs. exists s. split; [tauto|].
        destruct (row_cand_file k t lp8 s Hs) as (f' & Hf' & _ & Hau' & _). split; [|exact Hau'].
        apply (Hamb _ f' Hf'). destruct (based_name_head k t lp8 s_scripts s eq_refl) as (r' & q' & _ & _ & _ & En & _); [discriminate|exact Hs|].
        rewrite <- En, Es, Hn. reflexivity.
      * destruct (r =? s_apps)%N eqn:Ea; [|discriminate]. apply N.eqb_eq in Ea. subst r.
        destruct rest as [|i rest].
        -- (* apps/<a>.py, configured, no package form *)
           apply andb_true_iff in Ha. destruct Ha as [Hc Hnp].
           destruct (cfg_get k a) as [v|] eqn:Ec; [|discriminate].
           destruct (tree_get t [s_apps; a; s_init]) as [f'|] eqn:Ei; [discriminate|].
           assert (Hai : (a =? s_init)%N = false).
           { destruct (a =? s_init)%N eqn:E; [|reflexivity]. apply N.eqb_eq in E. subst a.
             specialize (Hdeg _ _ Hpf eq_refl). cbn in Hdeg. lia. }
           assert (Estrip : strip_init [s_apps; a] = [s_apps; a]) by (unfold strip_init, ends_slash_init; cbn; rewrite Hai; reflexivity).
           destruct (cand_in_row k t lp3 [s_apps; a] f Hpf eq_refl Hh) as (x & Hx & Hp & Hau & Hn).
           { intros _. cbn [lp_base lp3]. rewrite Estrip. cbn. eauto. }
           cbn [lp_base lp3] in Hn. rewrite Estrip in Hn.
           destruct (disc_found t k [lp1; lp2] lp3 [lp4; lp5; lp6; lp7; lp8] (sf_name x) eq_refl) as (s & Fs & Hs & Es).
           { intros lp' y Hlp' Hy E. cbn in Hlp'. destruct Hlp' as [<-|[<-|[]]].
             - destruct (row1_shape k t y Hy) as (z & _ & Nz & _). rewrite E, Hn in Nz. inversion Nz.
             - destruct (row_cand_file k t lp2 y Hy) as (fy & Hfy & _).
               destruct (based_name_head k t lp2 s_apps y eq_refl) as (r' & q' & Py & _ & _ & En & Hm); [discriminate|exact Hy|].
               cbn in Hm. fold (gmatch [GStar; GInitPy] r') in Hm. apply gmatch_star_init in Hm. destruct Hm as (a' & ->).
               rewrite Py in En, Hfy. rewrite E, Hn in En. unfold strip_init, ends_slash_init in En. cbn in En. inversion En; subst a'.
               apply (tree_get_In t _ _ Hnd) in Hfy. congruence. }
           { eauto. }
           apply sf_find_Some in Fs. exists s. split; [tauto|].
           destruct (row_cand_file k t lp3 s Hs) as (f' & Hf' & _ & Hau' & _). split; [|exact Hau'].
           destruct (based_name_head k t lp3 s_apps s eq_refl) as (r' & q' & Py & _ & _ & En & Hm); [discriminate|exact Hs|].
           cbn in Hm. fold (gmatch [GStarPy] r') in Hm. apply gmatch_starpy in Hm. destruct Hm as (y & ->).
           rewrite Py in En |- *. rewrite Es, Hn in En. unfold strip_init, ends_slash_init in En. cbn in En.
           destruct (y =? s_init)%N; cbn in En; inversion En; reflexivity.
        -- destruct rest as [|j rest]; [|discriminate].
           (* apps/<a>/__init__.py, configured *)
           apply andb_true_iff in Ha. destruct Ha as [Hi Hc]. apply N.eqb_eq in Hi. subst i.
           destruct (cfg_get k a) as [v|] eqn:Ec; [|discriminate].
           assert (Estrip : strip_init [s_apps; a; s_init] = [s_apps; a]) by reflexivity.
           destruct (cand_in_row k t lp2 [s_apps; a; s_init] f Hpf) as (x & Hx & Hp & Hau & Hn); [cbn; reflexivity|exact Hh| |].
           { intros _. cbn [lp_base lp2]. rewrite Estrip. cbn. eauto. }
           cbn [lp_base lp2] in Hn. rewrite Estrip in Hn.
           destruct (disc_found t k [lp1] lp2 [lp3; lp4; lp5; lp6; lp7; lp8] (sf_name x) eq_refl) as (s & Fs & Hs & Es).
           { intros lp' y Hlp' Hy E. cbn in Hlp'. destruct Hlp' as [<-|[]].
             destruct (row1_shape k t y Hy) as (z & _ & Nz & _). rewrite E, Hn in Nz. inversion Nz. }
           { eauto. }
           apply sf_find_Some in Fs. exists s. split; [tauto|].
           destruct (row_cand_file k t lp2 s Hs) as (f' & Hf' & _ & Hau' & _). split; [|exact Hau'].
           destruct (based_name_head k t lp2 s_apps s eq_refl) as (r' & q' & Py & _ & _ & En & Hm); [discriminate|exact Hs|].
           cbn in Hm. fold (gmatch [GStar; GInitPy] r') in Hm. apply gmatch_star_init in Hm. destruct Hm as (a' & ->).
           rewrite Py in En |- *. rewrite Es, Hn in En. unfold strip_init, ends_slash_init in En. cbn in En. inversion En; reflexivity.
  - (* discovered as auto-loaded -> documented auto-load place *)
    intros (s & Hs & Hp & Hau).
    destruct (discover_entry_ok t k s Hs) as [_ Hv (lp & Hlp & Hm & Hal & Hn & Hg) _ _].
    rewrite Hp in Hv, Hm, Hn. rewrite Hau in Hal. unfold sp_autoload. rewrite Hv. cbn [negb andb].
    apply load_paths_rows in Hlp. unfold lp_match in Hm.
    destruct Hlp as [->|[->|[->|[->|[->|[->|[->| ->]]]]]]]; cbn [lp_auto] in Hal; try discriminate; cbn [lp_base lp_pat lp_check] in Hm, Hn, Hg.
    + apply gmatch_starpy in Hm. destruct Hm as (y & ->). reflexivity.
    + destruct p as [|b r]; [discriminate|]. apply andb_true_iff in Hm. destruct Hm as [Hb Hm]. apply N.eqb_eq in Hb. subst b.
      apply gmatch_star_init in Hm. destruct Hm as (a & ->).
      destruct Hg as (v & Hg & _). rewrite Hn in Hg. cbn in Hg. cbn. rewrite Hg. reflexivity.
    + destruct p as [|b r]; [discriminate|]. apply andb_true_iff in Hm. destruct Hm as [Hb Hm]. apply N.eqb_eq in Hb. subst b.
      apply gmatch_starpy in Hm. destruct Hm as (y & ->).
      assert (Hyi : (y =? s_init)%N = false).
      { destruct (y =? s_init)%N eqn:E; [|reflexivity]. apply N.eqb_eq in E. subst y.
        specialize (Hdeg _ _ Hpf eq_refl). cbn in Hdeg. lia. }
      assert (Estrip : strip_init [s_apps; y] = [s_apps; y]) by (unfold strip_init, ends_slash_init; cbn; rewrite Hyi; reflexivity).
      rewrite Estrip in Hn. destruct Hg as (v & Hg & _). rewrite Hn in Hg. cbn in Hg. cbn. rewrite Hg. cbn.
      destruct (tree_get t [s_apps; y; s_init]) as [f'|] eqn:Ei; [|reflexivity]. exfalso.
      apply (tree_get_In t _ _ Hnd) in Ei.
      destruct (cand_in_row k t lp2 [s_apps; y; s_init] f' Ei) as (x & Hx & Hpx & _ & Hnx); [cbn; reflexivity|apply hashed_app_init; exact Hv| |].
      { intros _. cbn. eauto. }
      cbn in Hnx.
      destruct (disc_found t k [lp1] lp2 [lp3; lp4; lp5; lp6; lp7; lp8] [s_apps; y] eq_refl) as (s2 & Fs & Hs2 & Es).
      { intros lp' z Hlp' Hz E. cbn in Hlp'. destruct Hlp' as [<-|[]].
        destruct (row1_shape k t z Hz) as (w & _ & Nz & _). rewrite E in Nz. inversion Nz. }
      { eauto. }
      pose proof (disc_entry_is_found t k s Hs) as Fs'. rewrite Hn, Fs in Fs'. inversion Fs'; subst s2.
      destruct (based_name_head k t lp2 s_apps s eq_refl) as (r' & q' & Py & _ & _ & _ & Hm'); [discriminate|exact Hs2|].
      cbn in Hm'. fold (gmatch [GStar; GInitPy] r') in Hm'. apply gmatch_star_init in Hm'. destruct Hm' as (a' & ->).
      rewrite Hp in Py. discriminate.
    + destruct p as [|b r]; [discriminate|]. apply andb_true_iff in Hm. destruct Hm as [Hb Hm]. apply N.eqb_eq in Hb. subst b.
      apply gmatch_starstar_py in Hm. destruct r as [|a r]; [congruence|]. reflexivity.
Qed.

(* an auto-loaded file below apps/ (or modules/) is the root file of its package: package widening keeps it forced *)
Lemma auto_root_file t k s : In s (discover t k) -> sf_auto s = true -> under_roots widen_roots (sf_name s) = true ->
  is_root_file s = true.
Proof.
  intros Hs Hau Hu. destruct (discover_entry_ok t k s Hs) as [_ _ (lp & Hlp & Hm & Hal & Hn & _) _ _].
  rewrite Hau in Hal. apply load_paths_rows in Hlp. unfold lp_match in Hm.
  destruct Hlp as [->|[->|[->|[->|[->|[->|[->| ->]]]]]]]; cbn [lp_auto] in Hal; try discriminate; cbn [lp_base lp_pat] in Hm, Hn.
  - apply gmatch_starpy in Hm. destruct Hm as (y & Ep). rewrite Ep in Hn. rewrite Hn in Hu. discriminate.
  - destruct (sf_path s) as [|b r] eqn:Ep; [discriminate|]. apply andb_true_iff in Hm. destruct Hm as [Hb Hm]. apply N.eqb_eq in Hb. subst b.
    apply gmatch_star_init in Hm. destruct Hm as (a & ->). unfold is_root_file. rewrite Ep, Hn. cbn. rewrite !N.eqb_refl. reflexivity.
  - destruct (sf_path s) as [|b r] eqn:Ep; [discriminate|]. apply andb_true_iff in Hm. destruct Hm as [Hb Hm]. apply N.eqb_eq in Hb. subst b.
    apply gmatch_starpy in Hm. destruct Hm as (y & ->). unfold is_root_file. rewrite Ep, Hn.
    destruct (y =? s_init)%N eqn:Ey.
    + apply N.eqb_eq in Ey. subst y. rewrite Hn in Hu. discriminate.
    + assert (E : strip_init [s_apps; y] = [s_apps; y]) by (unfold strip_init, ends_slash_init; cbn; rewrite Ey; reflexivity).
      rewrite E. cbn [root2 firstn]. rewrite nl_eqb_refl. apply orb_true_r.
  - destruct (sf_path s) as [|b r] eqn:Ep; [discriminate|]. apply andb_true_iff in Hm. destruct Hm as [Hb Hm]. apply N.eqb_eq in Hb. subst b.
    apply gmatch_starstar_py in Hm. destruct (strip_init_head s_scripts r Hm) as (q & Eq). rewrite Eq in Hn. rewrite Hn in Hu.
    destruct q; discriminate.
Qed.
