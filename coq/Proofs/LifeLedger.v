(* Proofs/LifeLedger.v — lemmas and proofs for C09 (model: Life/Ledger.v). *)
From Coq Require Import List NArith Bool Lia.
From PV Require Import Common.Util Gen.LedgerConsts Life.Ledger Life.LedgerCheck.
Import ListNotations.
Local Open Scope N_scope.

Local Arguments memp : simpl never.
Local Arguments delp : simpl never.
Local Arguments addp : simpl never.
Local Arguments memn : simpl never.
Local Arguments deln : simpl never.
Local Arguments addn : simpl never.
Local Arguments has_fst : simpl never.
Local Arguments pair_eqb : simpl never.

Ltac wsimpl := cbn [w_led w_funcs w_active w_delayed w_pending w_zombie w_running w_starting w_hdl w_auto w_next w_log
                    set_led led_log set_active set_delayed set_pending set_zombie set_running set_starting set_hdl set_auto set_next fst snd
                    l_state l_event l_bus l_tasks l_reap l_svc set_state set_evbus set_tasks set_reap set_svc] in *.

(* ============================================================================================== *)
(* 1. list helpers                                                                                *)
(* ============================================================================================== *)
Lemma pair_eqb_eq a b : pair_eqb a b = true <-> a = b.
Proof.
  unfold pair_eqb. rewrite andb_true_iff, !N.eqb_eq. destruct a, b; cbn. split.
  - intros [-> ->]; reflexivity.
  - intros E; inversion E; auto.
Qed.
Lemma pair_eqb_refl a : pair_eqb a a = true.
Proof. apply pair_eqb_eq; reflexivity. Qed.
Lemma pair_eqb_neq a b : pair_eqb a b = false <-> a <> b.
Proof. rewrite <- pair_eqb_eq. destruct (pair_eqb a b); split; congruence. Qed.

Lemma memp_In p l : memp p l = true <-> In p l.
Proof.
  unfold memp. rewrite existsb_exists. split.
  - intros [x [Hx E]]. apply pair_eqb_eq in E. subst. exact Hx.
  - intros H. exists p. split; [exact H|apply pair_eqb_refl].
Qed.
Lemma memp_false p l : memp p l = false <-> ~ In p l.
Proof. rewrite <- memp_In. destruct (memp p l); split; congruence. Qed.
Lemma memn_In x l : memn x l = true <-> In x l.
Proof.
  unfold memn. rewrite existsb_exists. split.
  - intros [y [Hy E]]. apply N.eqb_eq in E. subst. exact Hy.
  - intros H. exists x. split; [exact H|apply N.eqb_refl].
Qed.
Lemma memn_false x l : memn x l = false <-> ~ In x l.
Proof. rewrite <- memn_In. destruct (memn x l); split; congruence. Qed.

Lemma In_delp p x l : In x (delp p l) <-> In x l /\ x <> p.
Proof.
  unfold delp. rewrite filter_In, negb_true_iff, pair_eqb_neq. split; intros [A B]; split; auto.
Qed.
Lemma In_deln a x l : In x (deln a l) <-> In x l /\ x <> a.
Proof.
  unfold deln. rewrite filter_In, negb_true_iff, N.eqb_neq. split; intros [A B]; split; auto.
Qed.
Lemma In_addp p x l : In x (addp p l) <-> In x l \/ x = p.
Proof.
  unfold addp. destruct (memp p l) eqn:E.
  - apply memp_In in E. split; [auto|]. intros [H| ->]; auto.
  - rewrite in_app_iff. cbn. split; intros [H|H]; auto. destruct H as [H|[]]; auto.
Qed.
Lemma In_addn a x l : In x (addn a l) <-> In x l \/ x = a.
Proof.
  unfold addn. destruct (memn a l) eqn:E.
  - apply memn_In in E. split; [auto|]. intros [H| ->]; auto.
  - rewrite in_app_iff. cbn. split; intros [H|H]; auto. destruct H as [H|[]]; auto.
Qed.

Lemma filter_all {A} (f : A -> bool) l : (forall x, In x l -> f x = true) -> filter f l = l.
Proof.
  induction l as [|a l IH]; intros H; cbn; [reflexivity|].
  rewrite (H a (or_introl eq_refl)). f_equal. apply IH. intros x Hx. apply H. right; exact Hx.
Qed.
Lemma filter_none {A} (f : A -> bool) l : (forall x, In x l -> f x = false) -> filter f l = [].
Proof.
  induction l as [|a l IH]; intros H; cbn; [reflexivity|].
  rewrite (H a (or_introl eq_refl)). apply IH. intros x Hx. apply H. right; exact Hx.
Qed.
Lemma filter_filter {A} (f g : A -> bool) l : filter f (filter g l) = filter (fun x => g x && f x) l.
Proof.
  induction l as [|a l IH]; cbn; [reflexivity|].
  destruct (g a); cbn; [destruct (f a); cbn; rewrite IH; reflexivity|exact IH].
Qed.
Lemma filter_ext_in' {A} (f g : A -> bool) l : (forall x, In x l -> f x = g x) -> filter f l = filter g l.
Proof.
  induction l as [|a l IH]; intros H; cbn; [reflexivity|].
  rewrite (H a (or_introl eq_refl)), IH; [reflexivity|]. intros x Hx. apply H. right; exact Hx.
Qed.

Lemma delp_notin p l : ~ In p l -> delp p l = l.
Proof.
  intros H. apply filter_all. intros x Hx. apply negb_true_iff, pair_eqb_neq. intros ->. exact (H Hx).
Qed.
Lemma delp_app_last p l : ~ In p l -> delp p (l ++ [p]) = l.
Proof.
  intros H. unfold delp. rewrite filter_app. cbn. rewrite pair_eqb_refl. cbn. rewrite app_nil_r.
  apply delp_notin. exact H.
Qed.
Lemma delp_addp p l : ~ In p l -> delp p (addp p l) = l.
Proof.
  intros H. unfold addp. apply memp_false in H. rewrite H. apply delp_app_last. apply memp_false. exact H.
Qed.
Lemma deln_notin a l : ~ In a l -> deln a l = l.
Proof.
  intros H. apply filter_all. intros x Hx. apply negb_true_iff, N.eqb_neq. intros ->. exact (H Hx).
Qed.
Lemma deln_addn a l : ~ In a l -> deln a (addn a l) = l.
Proof.
  intros H. unfold addn. apply memn_false in H. rewrite H. unfold deln. rewrite filter_app. cbn.
  rewrite N.eqb_refl. cbn. rewrite app_nil_r. apply deln_notin. apply memn_false. exact H.
Qed.
Lemma addn_in a l : In a l -> addn a l = l.
Proof. intros H. unfold addn. apply memn_In in H. rewrite H. reflexivity. Qed.
Lemma deln_idem a l : deln a (deln a l) = deln a l.
Proof. apply deln_notin. rewrite In_deln. intros [_ H]. apply H. reflexivity. Qed.

Lemma has_fst_In k l : has_fst k l = true <-> exists q, In (k, q) l.
Proof.
  unfold has_fst. rewrite existsb_exists. split.
  - intros [[a b] [H E]]. cbn in E. apply N.eqb_eq in E. subst. exists b. exact H.
  - intros [q H]. exists (k, q). split; [exact H|cbn; apply N.eqb_refl].
Qed.

(* ============================================================================================== *)
(* 2. State.notify_add / notify_del                                                               *)
(* ============================================================================================== *)
Definition sub_of (ids : list ident) (q : N) (p : N * N) : bool := N.eqb (snd p) q && memn (fst p) (ident_keys ids).

Lemma In_notify_add ids q : forall S p, In p (notify_add ids q S) <-> In p S \/ (snd p = q /\ In (fst p) (ident_keys ids)).
Proof.
  induction ids as [|i r IH]; intros S p; cbn [notify_add ident_keys].
  - split; [auto|]. intros [H|[_ []]]. exact H.
  - destruct (ident_key i) as [e|] eqn:E.
    + rewrite IH, In_addp. cbn [In]. split.
      * intros [[H| ->]|[A B]]; cbn; auto.
      * intros [H|[A [B|B]]]; auto. left. right. destruct p; cbn in *; subst; reflexivity.
    + apply IH.
Qed.

(* added entries go behind the old ones, in particular the old entries keep their order *)
Lemma notify_add_app ids q : forall S, exists N', notify_add ids q S = S ++ N' /\
  forall p, In p N' -> snd p = q /\ In (fst p) (ident_keys ids).
Proof.
  induction ids as [|i r IH]; intros S; cbn [notify_add ident_keys].
  - exists []. rewrite app_nil_r. split; [reflexivity|intros p []].
  - destruct (ident_key i) as [e|] eqn:E.
    + destruct (IH (addp (e, q) S)) as [N' [EQ HN]]. unfold addp in *. destruct (memp (e, q) S).
      * exists N'. split; [exact EQ|]. intros p Hp. destruct (HN p Hp). split; [assumption|right; assumption].
      * exists ((e, q) :: N'). rewrite EQ, <- app_assoc. split; [reflexivity|].
        intros p [<-|Hp]; [cbn; auto|]. destruct (HN p Hp). split; [assumption|right; assumption].
    + apply IH.
Qed.

(* the conformant notify_del removes exactly the entries of queue q under the keys of the watched names *)
Lemma notify_del_filter ids q : forall S, notify_del false ids q S = filter (fun p => negb (sub_of ids q p)) S.
Proof.
  induction ids as [|i r IH]; intros S; cbn [notify_del].
  - symmetry. apply filter_all. intros x _. unfold sub_of. cbn. rewrite andb_false_r. reflexivity.
  - unfold sub_of in *. cbn [ident_keys]. destruct (ident_key i) as [e|] eqn:E.
    + assert (EQ : forall S', filter (fun p => negb (N.eqb (snd p) q && memn (fst p) (ident_keys r))) (delp (e, q) S') =
                          filter (fun p => negb (N.eqb (snd p) q && memn (fst p) (e :: ident_keys r))) S').
      { intros S'. unfold delp. rewrite filter_filter. apply filter_ext_in'. intros [a b] _. cbn.
        unfold pair_eqb, memn. cbn. rewrite (N.eqb_sym e a), (N.eqb_sym q b).
        destruct (N.eqb a e), (N.eqb b q); cbn; reflexivity. }
      destruct (memp (e, q) S) eqn:M.
      * rewrite IH. apply EQ.
      * rewrite IH, <- EQ. rewrite delp_notin; [reflexivity|]. apply memp_false. exact M.
    + apply IH.
Qed.

Lemma notify_del_add_fresh ids q S : (forall p, In p S -> snd p <> q) ->
  notify_del false ids q (notify_add ids q S) = S.
Proof.
  intros F. destruct (notify_add_app ids q S) as [N' [EQ HN]]. rewrite EQ, notify_del_filter, filter_app.
  rewrite (filter_all _ S), (filter_none _ N'), app_nil_r; [reflexivity| |].
  - intros p Hp. destruct (HN p Hp) as [A B]. unfold sub_of. apply negb_false_iff, andb_true_iff. split.
    + apply N.eqb_eq. exact A.
    + apply memn_In. exact B.
  - intros p Hp. unfold sub_of. apply negb_true_iff, andb_false_iff. left. apply N.eqb_neq. apply F. exact Hp.
Qed.

Lemma In_notify_del_sub ret ids q : forall S p, In p (notify_del ret ids q S) -> In p S.
Proof.
  induction ids as [|i r IH]; intros S p; cbn [notify_del]; [auto|].
  destruct (ident_key i) as [e|]; [|apply IH].
  destruct (memp (e, q) S).
  - intros H. apply IH in H. apply In_delp in H. tauto.
  - destruct ret; [auto|apply IH].
Qed.

(* ============================================================================================== *)
(* 3. start followed by stop is the identity on the ledger (conformant configuration)             *)
(* ============================================================================================== *)
Lemma ledger_eq A B : l_state A = l_state B -> l_event A = l_event B -> l_bus A = l_bus B ->
  l_tasks A = l_tasks B -> l_reap A = l_reap B -> l_svc A = l_svc B -> A = B.
Proof. destruct A, B. cbn. intros; subst; reflexivity. Qed.

(* projections of the unit-level ledger functions *)
Lemma ev_add_proj ev q L :
  l_state (ev_add ev q L) = l_state L /\ l_event (ev_add ev q L) = addp (ev, q) (l_event L) /\
  l_bus (ev_add ev q L) = (if has_fst ev (l_event L) then l_bus L else addp (ev, 0) (l_bus L)) /\
  l_tasks (ev_add ev q L) = l_tasks L /\ l_reap (ev_add ev q L) = l_reap L /\ l_svc (ev_add ev q L) = l_svc L.
Proof. unfold ev_add. repeat split; reflexivity. Qed.

Lemma ev_del_proj ev q L :
  l_state (ev_del ev q L) = l_state L /\
  l_event (ev_del ev q L) = (if memp (ev, q) (l_event L) then delp (ev, q) (l_event L) else l_event L) /\
  l_bus (ev_del ev q L) = (if memp (ev, q) (l_event L) then
                             if has_fst ev (delp (ev, q) (l_event L)) then l_bus L else delp (ev, 0) (l_bus L)
                           else l_bus L) /\
  l_tasks (ev_del ev q L) = l_tasks L /\ l_reap (ev_del ev q L) = l_reap L /\ l_svc (ev_del ev q L) = l_svc L.
Proof. unfold ev_del. destruct (memp (ev, q) (l_event L)); repeat split; reflexivity. Qed.

Lemma leg_prologue_proj u L : let L' := fst (leg_prologue u L) in
  l_state L' = match u_state u with Some ids => notify_add ids (u_id u) (l_state L) | None => l_state L end /\
  l_event L' = match u_event u with Some ev => addp (ev, u_id u) (l_event L) | None => l_event L end /\
  l_bus L' = match u_event u with
             | Some ev => if has_fst ev (l_event L) then l_bus L else addp (ev, 0) (l_bus L)
             | None => l_bus L end /\
  l_tasks L' = (if u_persistent u then l_tasks L else deln (u_id u) (l_tasks L)) /\
  l_reap L' = l_reap L /\ l_svc L' = l_svc L.
Proof.
  unfold leg_prologue. destruct (u_state u), (u_event u), (u_persistent u); cbn [fst]; repeat split; reflexivity.
Qed.

Lemma leg_stop_running_proj cfg u L : let L' := fst (leg_stop_running cfg u L) in
  l_state L' = match u_state u with
               | Some ids => notify_del (d16_notify_del_return cfg) ids (u_id u) (l_state L) | None => l_state L end /\
  l_event L' = match u_event u with
               | Some ev => if memp (ev, u_id u) (l_event L) then delp (ev, u_id u) (l_event L) else l_event L
               | None => l_event L end /\
  l_bus L' = match u_event u with
             | Some ev => if memp (ev, u_id u) (l_event L) then
                            if has_fst ev (delp (ev, u_id u) (l_event L)) then l_bus L else delp (ev, 0) (l_bus L)
                          else l_bus L
             | None => l_bus L end /\
  l_tasks L' = l_tasks L /\ l_reap L' = addn (u_id u) (l_reap L) /\ l_svc L' = l_svc L.
Proof.
  unfold leg_stop_running. destruct (u_state u) as [ids|], (u_event u) as [ev|];
    cbn [fst set_reap set_state l_state l_event l_bus l_tasks l_reap l_svc].
  all: try (match goal with |- context [ev_del ?e ?q ?X] =>
              destruct (ev_del_proj e q X) as [E1 [E2 [E3 [E4 [E5 E6]]]]]; rewrite ?E1, ?E2, ?E3, ?E4, ?E5, ?E6 end).
  all: cbn [set_reap set_state l_state l_event l_bus l_tasks l_reap l_svc]; repeat split; reflexivity.
Qed.

Lemma filter_not_single id T : ~ In id T -> filter (fun t => negb (memn t [id])) T = T.
Proof.
  intros H. apply filter_all. intros x Hx. apply negb_true_iff, memn_false. intros [->|[]]. exact (H Hx).
Qed.
Lemma addn_nil a : addn a [] = [a].
Proof. reflexivity. Qed.
Lemma filter_reap id T : ~ In id T -> filter (fun t => negb (memn t [id])) (addn id T) = T.
Proof.
  intros H. unfold addn. pose proof H as H'. apply memn_false in H'. rewrite H', filter_app. cbn.
  assert (E : memn id [id] = true) by (apply memn_In; left; reflexivity). rewrite E. cbn.
  rewrite app_nil_r. apply filter_not_single. exact H.
Qed.

Lemma leg_cycle_inverse cfg u L : all_off cfg -> ledger_wf L -> id_fresh (u_id u) L -> leg_cycle cfg u L = L.
Proof.
  intros [D16 _] WF FR. pose proof FR as [Hz [FS [FE [FB [FT FRp]]]]]. pose proof WF as [WB [WR _]].
  unfold leg_cycle.
  set (La := leg_start u L).
  destruct (leg_prologue_proj u La) as [Ps [Pe [Pb [Pt [Pr Pv]]]]].
  set (Lb := fst (leg_prologue u La)) in *.
  destruct (leg_stop_running_proj cfg u Lb) as [Qs [Qe [Qb [Qt [Qr Qv]]]]].
  set (Lc := fst (leg_stop_running cfg u Lb)) in *.
  assert (As : l_state La = l_state L /\ l_event La = l_event L /\ l_bus La = l_bus L /\ l_tasks La = addn (u_id u) (l_tasks L) /\ l_reap La = l_reap L /\ l_svc La = l_svc L)
    by (repeat split; reflexivity).
  destruct As as [As [Ae [Ab [At [Ar Av]]]]].
  apply ledger_eq; unfold reap; wsimpl.
  - rewrite Qs, Ps, As, D16. destruct (u_state u); [apply notify_del_add_fresh; exact FS|reflexivity].
  - rewrite Qe, Pe, Ae. destruct (u_event u) as [ev|]; [|reflexivity].
    assert (NE : ~ In (ev, (u_id u)) (l_event L)) by (intros H; exact (FE _ H eq_refl)).
    assert (M : memp (ev, (u_id u)) (addp (ev, (u_id u)) (l_event L)) = true) by (apply memp_In, In_addp; auto).
    rewrite M. apply delp_addp. exact NE.
  - rewrite Qb, Pe, Pb, Ae, Ab. destruct (u_event u) as [ev|]; [|reflexivity].
    assert (NE : ~ In (ev, (u_id u)) (l_event L)) by (intros H; exact (FE _ H eq_refl)).
    assert (M : memp (ev, (u_id u)) (addp (ev, (u_id u)) (l_event L)) = true) by (apply memp_In, In_addp; auto).
    rewrite M, (delp_addp _ _ NE). destruct (has_fst ev (l_event L)) eqn:HF; [reflexivity|].
    apply delp_addp. intros H. apply WB in H. congruence.
  - rewrite Qr, Qt, Pr, Pt, Ar, At, WR, addn_nil. destruct (u_persistent u).
    + apply filter_reap. exact FT.
    + rewrite (deln_addn _ _ FT). apply filter_not_single. exact FT.
  - symmetry. exact WR.
  - rewrite Qv, Pv, Av. reflexivity.
Qed.

Lemma dec_start_proj u L : let L' := fst (dec_start u L) in
  l_state L' = match u_state u with Some ids => notify_add ids (u_id u) (l_state L) | None => l_state L end /\
  l_event L' = l_event L /\
  l_bus L' = match u_event u with Some ev => addp (ev, u_id u) (l_bus L) | None => l_bus L end /\
  l_tasks L' = (let T1 := match u_state u with
                          | Some ids => if notify_added ids then addn (u_id u) (l_tasks L) else l_tasks L
                          | None => l_tasks L end in
                if u_periodic u then addn (u_id u) T1 else T1) /\
  l_reap L' = l_reap L /\ l_svc L' = l_svc L.
Proof.
  unfold dec_start. destruct (u_state u) as [ids|]; [destruct (notify_added ids)|]; destruct (u_event u), (u_periodic u);
    cbn [fst]; repeat split; reflexivity.
Qed.

Lemma dec_stop_proj cfg u L : let L' := fst (dec_stop cfg u L) in
  l_state L' = match u_state u with
               | Some ids => notify_del (d16_notify_del_return cfg) ids (u_id u) (l_state L) | None => l_state L end /\
  l_event L' = l_event L /\
  l_bus L' = match u_event u with Some ev => delp (ev, u_id u) (l_bus L) | None => l_bus L end /\
  l_tasks L' = deln (u_id u) (l_tasks L) /\ l_reap L' = l_reap L /\ l_svc L' = l_svc L.
Proof.
  unfold dec_stop. destruct (u_state u), (u_event u); cbn [fst]; repeat split; reflexivity.
Qed.

Lemma dec_cycle_inverse cfg u L : all_off cfg -> id_fresh (u_id u) L -> dec_cycle cfg u L = L.
Proof.
  intros [D16 _] FR. pose proof FR as [Hz [FS [FE [FB [FT FRp]]]]].
  unfold dec_cycle.
  destruct (dec_start_proj u L) as [Ps [Pe [Pb [Pt [Pr Pv]]]]].
  set (Lb := fst (dec_start u L)) in *.
  destruct (dec_stop_proj cfg u Lb) as [Qs [Qe [Qb [Qt [Qr Qv]]]]].
  apply ledger_eq.
  - rewrite Qs, Ps, D16. destruct (u_state u); [apply notify_del_add_fresh; exact FS|reflexivity].
  - rewrite Qe, Pe. reflexivity.
  - rewrite Qb, Pb. destruct (u_event u) as [ev|]; [|reflexivity]. apply delp_addp. intros H. exact (FB _ H eq_refl).
  - rewrite Qt, Pt. cbn zeta.
    assert (X : forall T1, (T1 = l_tasks L \/ T1 = addn (u_id u) (l_tasks L)) ->
                deln (u_id u) (if u_periodic u then addn (u_id u) T1 else T1) = l_tasks L).
    { intros T1 [-> | ->]; destruct (u_periodic u).
      - apply deln_addn. exact FT.
      - apply deln_notin. exact FT.
      - rewrite (addn_in (u_id u) (addn (u_id u) (l_tasks L))) by (apply In_addn; auto). apply deln_addn. exact FT.
      - apply deln_addn. exact FT. }
    apply X. destruct (u_state u) as [ids|]; [destruct (notify_added ids)|]; auto.
  - rewrite Qr, Pr. reflexivity.
  - rewrite Qv, Pv. reflexivity.
Qed.

(* ============================================================================================== *)
(* 4. the invariant of the world                                                                  *)
(* ============================================================================================== *)

Definition owns (W : world) (f : func) (u : unit_) : Prop := In f (w_funcs W) /\ In u (f_units f).

Record ids_ok (W : world) : Prop := {
  io_next : 0 < w_next W;
  io_gen : forall f, In f (w_funcs W) -> 0 < f_gen f /\ f_gen f < w_next W;
  io_unit : forall f u, owns W f u -> u_gen u = f_gen f /\ f_gen f < u_id u /\ u_id u < w_next W;
  io_uniq : forall f1 u1 f2 u2, owns W f1 u1 -> owns W f2 u2 -> u_id u1 = u_id u2 -> f1 = f2 /\ u1 = u2;
  io_guniq : forall f1 f2, In f1 (w_funcs W) -> In f2 (w_funcs W) -> f_gen f1 = f_gen f2 -> f1 = f2
}.

Record stat_ok (W : world) : Prop := {
  so_run : forall id, In id (w_running W) -> exists f u, owns W f u /\ u_id u = id /\
             In (f_gen f) (w_active W) /\ ~ In (f_gen f) (w_delayed W);
  so_pend : forall id, In id (w_pending W) -> exists f u, owns W f u /\ u_id u = id /\ f_new f = false /\
             In (f_gen f) (w_active W) /\ ~ In (f_gen f) (w_delayed W);
  so_disj : forall id, In id (w_pending W) -> ~ In id (w_running W);
  so_act : forall g, In g (w_active W) -> exists f, In f (w_funcs W) /\ f_gen f = g;
  so_zomb : w_zombie W = []
}.

Record led_ok (W : world) : Prop := {
  ok_state : forall e q, In (e, q) (l_state (w_led W)) -> In q (w_running W) /\
     exists f u ids, owns W f u /\ u_id u = q /\ u_state u = Some ids /\ In e (ident_keys ids);
  ok_event : forall ev q, In (ev, q) (l_event (w_led W)) -> In q (w_running W) /\
     exists f u, owns W f u /\ u_id u = q /\ u_event u = Some ev /\ f_new f = false;
  ok_bus : forall ev o, In (ev, o) (l_bus (w_led W)) ->
     (o = 0 /\ has_fst ev (l_event (w_led W)) = true) \/
     (In o (w_running W) /\ exists f u, owns W f u /\ u_id u = o /\ u_event u = Some ev /\ f_new f = true);
  ok_tasks : forall t, In t (l_tasks (w_led W)) -> In t (l_reap (w_led W)) \/ In t (w_pending W) \/ In t (w_running W);
  ok_svc : forall g, In g (l_svc (w_led W)) -> In g (w_active W) /\ exists f, In f (w_funcs W) /\ f_gen f = g /\ is_some (f_svc f) = true /\
             (f_new f = true -> ~ In g (w_delayed W))
}.

Definition Inv (W : world) : Prop := ids_ok W /\ stat_ok W /\ led_ok W.

Lemma Inv0 : Inv world0.
Proof.
  split; [|split]; constructor; cbn; try (intros; contradiction); try reflexivity.
  - intros f u [[] _].
  - intros f1 u1 f2 u2 [[] _].
Qed.

Lemma unit_id_nz W f u : ids_ok W -> owns W f u -> u_id u <> 0.
Proof.
  intros I O. destruct (io_unit W I f u O) as [_ [A _]]. destruct O as [Hf _].
  destruct (io_gen W I f Hf) as [B _]. lia.
Qed.

Lemma nil_of_notin {A} (l : list A) : (forall x, ~ In x l) -> l = [].
Proof. destruct l as [|a l]; [reflexivity|]. intros H. exfalso. apply (H a). left; reflexivity. Qed.

(* ---- frames: operations that touch neither the function table nor the id counter -------------- *)
Definition same_tables (W W' : world) : Prop := w_funcs W' = w_funcs W /\ w_next W' = w_next W.

Lemma ids_ok_same W W' : same_tables W W' -> ids_ok W -> ids_ok W'.
Proof.
  intros [E1 E2] I. constructor; unfold owns; rewrite ?E1, ?E2.
  - apply (io_next W I).
  - apply (io_gen W I).
  - apply (io_unit W I).
  - apply (io_uniq W I).
  - apply (io_guniq W I).
Qed.

Lemma owns_same W W' f u : w_funcs W' = w_funcs W -> owns W' f u <-> owns W f u.
Proof. intros E. unfold owns. rewrite E. tauto. Qed.

(* ---- State.notify_del / Event.notify_del on a ledger satisfying the invariant ----------------- *)
Lemma has_fst_delp_other ev ev' q E : ev' <> ev -> has_fst ev' (delp (ev, q) E) = has_fst ev' E.
Proof.
  intros NE. destruct (has_fst ev' E) eqn:H.
  - apply has_fst_In in H. destruct H as [q' H]. apply has_fst_In. exists q'. apply In_delp. split; [exact H|].
    intros C. inversion C. congruence.
  - destruct (has_fst ev' (delp (ev, q) E)) eqn:H'; [|reflexivity].
    apply has_fst_In in H'. destruct H' as [q' H']. apply In_delp in H'. destruct H' as [H' _].
    assert (has_fst ev' E = true) by (apply has_fst_In; exists q'; exact H'). congruence.
Qed.

Lemma Inv_log W rs : Inv W -> Inv (led_log W (w_led W, rs)).
Proof.
  intros [I [S L]]. split; [|split].
  - apply (ids_ok_same W); [split; reflexivity|exact I].
  - destruct S as [SR SP SD SA SZ]. constructor; wsimpl; assumption.
  - destruct L as [KS KE KB KT KV]. constructor; wsimpl; assumption.
Qed.

(* what a unit-level stop guarantees besides the invariant *)
Definition stop_post (W W' : world) (id : N) : Prop :=
  same_tables W W' /\ w_active W' = w_active W /\ w_delayed W' = w_delayed W /\
  (forall x, In x (w_running W') -> In x (w_running W) /\ x <> id) /\
  (forall x, In x (w_pending W') -> In x (w_pending W) /\ x <> id) /\
  l_svc (w_led W') = l_svc (w_led W) /\
  (forall t, In t (l_tasks (w_led W')) -> In t (l_tasks (w_led W))).

Lemma ev_del_cases ev q L :
  (ev_del ev q L = L /\ ~ In (ev, q) (l_event L)) \/
  (In (ev, q) (l_event L) /\ l_event (ev_del ev q L) = delp (ev, q) (l_event L) /\
   l_state (ev_del ev q L) = l_state L /\ l_tasks (ev_del ev q L) = l_tasks L /\ l_reap (ev_del ev q L) = l_reap L /\
   l_svc (ev_del ev q L) = l_svc L /\
   l_bus (ev_del ev q L) = if has_fst ev (delp (ev, q) (l_event L)) then l_bus L else delp (ev, 0) (l_bus L)).
Proof.
  unfold ev_del. destruct (memp (ev, q) (l_event L)) eqn:M.
  - right. apply memp_In in M. wsimpl. repeat split; try reflexivity. exact M.
  - left. split; [reflexivity|]. apply memp_false. exact M.
Qed.

Lemma leg_unit_stop_inv cfg W f u : all_off cfg -> Inv W -> owns W f u -> f_new f = false ->
  Inv (leg_unit_stop cfg W u) /\ stop_post W (leg_unit_stop cfg W u) (u_id u).
Proof.
  intros [D16 [_ [D91 _]]] [I [S L]] O NF. unfold leg_unit_stop, leg_stop_pending, leg_stop_running. rewrite D91, D16.
  set (id := u_id u).
  destruct (memn id (w_pending W)) eqn:MP.
  { (* stopped while pending: nothing subscribed yet *)
    apply memn_In in MP.
    assert (NR : ~ In id (w_running W)) by (apply (so_disj W S); exact MP).
    assert (EV : match u_event u with Some ev => ev_del ev id (w_led W) | None => w_led W end = w_led W).
    { destruct (u_event u) as [ev|]; [|reflexivity]. destruct (ev_del_cases ev id (w_led W)) as [[E _]|[H _]]; [exact E|].
      exfalso. apply NR. apply (ok_event W L ev id H). }
    rewrite EV. split; [split; [|split]|].
    - apply (ids_ok_same W); [split; reflexivity|exact I].
    - destruct S as [SR SP SD SA SZ]. constructor; wsimpl; try assumption.
      + intros x Hx. apply In_deln in Hx. destruct Hx as [Hx _]. apply SP. exact Hx.
      + intros x Hx. apply In_deln in Hx. destruct Hx as [Hx _]. apply SD. exact Hx.
    - destruct L as [KS KE KB KT KV]. constructor; wsimpl; try assumption.
      intros t Ht. destruct (KT t Ht) as [H|[H|H]].
      + left. apply In_addn. left; exact H.
      + destruct (N.eq_dec t id) as [->|NE].
        * left. apply In_addn. right; reflexivity.
        * right; left. apply In_deln. split; assumption.
      + right; right. exact H.
    - unfold stop_post, same_tables. wsimpl. repeat split; try reflexivity.
      + exact H.
      + intros ->. exact (NR H).
      + apply In_deln in H. tauto.
      + apply In_deln in H. tauto.
      + auto. }
  destruct (memn id (w_running W)) eqn:MR.
  2:{ split; [apply Inv_log; exact (conj I (conj S L))|].
      unfold stop_post, same_tables. wsimpl. apply memn_false in MP, MR. repeat split; try reflexivity; try assumption.
      - intros ->. exact (MR H).
      - intros ->. exact (MP H).
      - auto. }
  apply memn_In in MR. apply memn_false in MP.
  set (L1 := match u_state u with Some ids => set_state (w_led W) (notify_del false ids id (l_state (w_led W))) | None => w_led W end).
  assert (L1s : forall p, In p (l_state L1) -> In p (l_state (w_led W)) /\ snd p <> id).
  { intros [e q] Hp. assert (HS : In (e, q) (l_state (w_led W))).
    { unfold L1 in Hp. destruct (u_state u); wsimpl; [eapply In_notify_del_sub; exact Hp|exact Hp]. }
    split; [exact HS|]. cbn. intros ->.
    destruct (ok_state W L e id HS) as [_ [f' [u' [ids' [O' [E' [ST' K']]]]]]].
    destruct (io_uniq W I f' u' f u O' O E') as [_ ->].
    unfold L1 in Hp. rewrite ST' in Hp. wsimpl. rewrite notify_del_filter in Hp. apply filter_In in Hp.
    destruct Hp as [_ Hp]. unfold sub_of in Hp. cbn in Hp. rewrite N.eqb_refl in Hp. cbn in Hp.
    apply memn_In in K'. rewrite K' in Hp. discriminate. }
  assert (L1o : l_event L1 = l_event (w_led W) /\ l_bus L1 = l_bus (w_led W) /\ l_tasks L1 = l_tasks (w_led W) /\
                l_reap L1 = l_reap (w_led W) /\ l_svc L1 = l_svc (w_led W)).
  { unfold L1. destruct (u_state u); wsimpl; repeat split; reflexivity. }
  destruct L1o as [L1e [L1b [L1t [L1r L1v]]]].
  set (L2 := match u_event u with Some ev => ev_del ev id L1 | None => L1 end).
  assert (L2s : l_state L2 = l_state L1 /\ l_tasks L2 = l_tasks L1 /\ l_reap L2 = l_reap L1 /\ l_svc L2 = l_svc L1).
  { unfold L2. destruct (u_event u) as [ev|]; [|repeat split; reflexivity].
    destruct (ev_del_cases ev id L1) as [[E _]|[_ [_ [A [B [C [D _]]]]]]]; [rewrite E; repeat split; reflexivity|].
    repeat split; assumption. }
  destruct L2s as [L2s [L2t [L2r L2v]]].
  assert (L2e : forall p, In p (l_event L2) -> In p (l_event (w_led W)) /\ snd p <> id).
  { intros [ev' q] Hp. unfold L2 in Hp. destruct (u_event u) as [ev|] eqn:UE.
    - destruct (ev_del_cases ev id L1) as [[E N1]|[H1 [E _]]].
      + rewrite E in Hp. rewrite L1e in *. split; [exact Hp|]. cbn. intros ->.
        destruct (ok_event W L ev' id Hp) as [_ [f' [u' [O' [E' [UE' _]]]]]].
        destruct (io_uniq W I f' u' f u O' O E') as [_ ->]. rewrite UE in UE'. inversion UE'; subst. exact (N1 Hp).
      + rewrite E in Hp. apply In_delp in Hp. destruct Hp as [Hp NE]. rewrite L1e in *. split; [exact Hp|]. cbn. intros ->.
        destruct (ok_event W L ev' id Hp) as [_ [f' [u' [O' [E' [UE' _]]]]]].
        destruct (io_uniq W I f' u' f u O' O E') as [_ ->]. rewrite UE in UE'. inversion UE'; subst. apply NE; reflexivity.
    - rewrite L1e in Hp. split; [exact Hp|]. cbn. intros ->.
      destruct (ok_event W L ev' id Hp) as [_ [f' [u' [O' [E' [UE' _]]]]]].
      destruct (io_uniq W I f' u' f u O' O E') as [_ ->]. congruence. }
  assert (L2b : forall ev' o, In (ev', o) (l_bus L2) -> In (ev', o) (l_bus (w_led W)) /\
                 (o = 0 -> has_fst ev' (l_event L2) = true)).
  { intros ev' o Hp. unfold L2 in *. destruct (u_event u) as [ev|] eqn:UE.
    - destruct (ev_del_cases ev id L1) as [[E N1]|[H1 [E [_ [_ [_ [_ EB]]]]]]].
      + rewrite E in *. rewrite L1b in Hp. split; [exact Hp|]. intros ->. rewrite L1e.
        destruct (ok_bus W L ev' 0 Hp) as [[_ H]|[H _]]; [exact H|].
        exfalso. destruct (so_run W S 0 H) as [f' [u' [O' [E' _]]]]. exact (unit_id_nz W f' u' I O' E').
      + rewrite EB in Hp. rewrite E.
        assert (HB : In (ev', o) (l_bus (w_led W))).
        { rewrite <- L1b. destruct (has_fst ev (delp (ev, id) (l_event L1))); [exact Hp|]. apply In_delp in Hp. tauto. }
        split; [exact HB|]. intros ->.
        destruct (ok_bus W L ev' 0 HB) as [[_ H]|[H _]].
        2:{ exfalso. destruct (so_run W S 0 H) as [f' [u' [O' [E' _]]]]. exact (unit_id_nz W f' u' I O' E'). }
        destruct (N.eq_dec ev' ev) as [->|NE].
        * destruct (has_fst ev (delp (ev, id) (l_event L1))) eqn:HF; [reflexivity|].
          apply In_delp in Hp. exfalso. apply (proj2 Hp). reflexivity.
        * rewrite has_fst_delp_other by exact NE. rewrite L1e. exact H.
    - rewrite L1b in Hp. split; [exact Hp|]. intros ->. rewrite L1e.
      destruct (ok_bus W L ev' 0 Hp) as [[_ H]|[H _]]; [exact H|].
      exfalso. destruct (so_run W S 0 H) as [f' [u' [O' [E' _]]]]. exact (unit_id_nz W f' u' I O' E'). }
  split; [split; [|split]|].
  - apply (ids_ok_same W); [split; reflexivity|exact I].
  - destruct S as [SR SP SD SA SZ]. constructor; wsimpl; try assumption.
    + intros x Hx. apply In_deln in Hx. destruct Hx as [Hx _]. apply SR. exact Hx.
    + intros x Hx C. apply In_deln in C. destruct C as [C _]. exact (SD x Hx C).
  - constructor; wsimpl.
    + intros e q Hp. rewrite L2s in Hp. destruct (L1s _ Hp) as [HS NE]. cbn in NE.
      destruct (ok_state W L e q HS) as [R X]. split; [apply In_deln; split; assumption|exact X].
    + intros ev' q Hp. destruct (L2e _ Hp) as [HS NE]. cbn in NE.
      destruct (ok_event W L ev' q HS) as [R X]. split; [apply In_deln; split; assumption|exact X].
    + intros ev' o Hp. destruct (L2b _ _ Hp) as [HB Z].
      destruct (ok_bus W L ev' o HB) as [[-> _]|[R [f' [u' [O' [E' [UE' NF']]]]]]].
      * left. split; [reflexivity|apply Z; reflexivity].
      * right. split; [|exists f', u'; repeat split; assumption || apply O'].
        apply In_deln. split; [exact R|]. intros ->.
        destruct (io_uniq W I f' u' f u O' O E') as [-> _]. congruence.
    + intros t Ht. rewrite L2t, L1t in Ht. rewrite L2r, L1r.
      destruct (ok_tasks W L t Ht) as [H|[H|H]].
      * left. apply In_addn. left; exact H.
      * right; left; exact H.
      * destruct (N.eq_dec t id) as [->|NE]; [left; apply In_addn; right; reflexivity|].
        right; right. apply In_deln. split; assumption.
    + intros g Hg. rewrite L2v, L1v in Hg. exact (ok_svc W L g Hg).
  - unfold stop_post, same_tables. wsimpl. repeat split; try reflexivity.
    + apply In_deln in H. tauto.
    + apply In_deln in H. tauto.
    + exact H.
    + intros ->. exact (MP H).
    + rewrite L2v, L1v. reflexivity.
    + rewrite L2t, L1t. auto.
Qed.

Lemma dec_unit_stop_inv cfg W f u : all_off cfg -> Inv W -> owns W f u -> f_new f = true ->
  Inv (dec_unit_stop cfg W u) /\ stop_post W (dec_unit_stop cfg W u) (u_id u).
Proof.
  intros [D16 _] [I [S L]] O NF. unfold dec_unit_stop, dec_stop. rewrite D16.
  set (id := u_id u).
  set (L0 := set_tasks (w_led W) (deln id (l_tasks (w_led W)))).
  set (L1 := match u_state u with Some ids => set_state L0 (notify_del false ids id (l_state L0)) | None => L0 end).
  assert (L1s : forall p, In p (l_state L1) -> In p (l_state (w_led W)) /\ snd p <> id).
  { intros [e q] Hp. assert (HS : In (e, q) (l_state (w_led W))).
    { unfold L1, L0 in Hp. destruct (u_state u); wsimpl; [eapply In_notify_del_sub; exact Hp|exact Hp]. }
    split; [exact HS|]. cbn. intros ->.
    destruct (ok_state W L e id HS) as [_ [f' [u' [ids' [O' [E' [ST' K']]]]]]].
    destruct (io_uniq W I f' u' f u O' O E') as [_ ->].
    unfold L1, L0 in Hp. rewrite ST' in Hp. wsimpl. rewrite notify_del_filter in Hp. apply filter_In in Hp.
    destruct Hp as [_ Hp]. unfold sub_of in Hp. cbn in Hp. rewrite N.eqb_refl in Hp. cbn in Hp.
    apply memn_In in K'. rewrite K' in Hp. discriminate. }
  assert (L1o : l_event L1 = l_event (w_led W) /\ l_bus L1 = l_bus (w_led W) /\ l_tasks L1 = deln id (l_tasks (w_led W)) /\
                l_reap L1 = l_reap (w_led W) /\ l_svc L1 = l_svc (w_led W)).
  { unfold L1, L0. destruct (u_state u); wsimpl; repeat split; reflexivity. }
  destruct L1o as [L1e [L1b [L1t [L1r L1v]]]].
  set (L2 := match u_event u with Some ev => set_evbus L1 (l_event L1) (delp (ev, id) (l_bus L1)) | None => L1 end).
  assert (L2o : l_state L2 = l_state L1 /\ l_event L2 = l_event L1 /\ l_tasks L2 = l_tasks L1 /\ l_reap L2 = l_reap L1 /\
                l_svc L2 = l_svc L1).
  { unfold L2. destruct (u_event u); wsimpl; repeat split; reflexivity. }
  destruct L2o as [L2s [L2e [L2t [L2r L2v]]]].
  assert (L2b : forall ev' o, In (ev', o) (l_bus L2) -> In (ev', o) (l_bus (w_led W)) /\ o <> id).
  { intros ev' o Hp. unfold L2 in Hp. destruct (u_event u) as [ev|] eqn:UE; wsimpl.
    - apply In_delp in Hp. destruct Hp as [Hp NE]. rewrite L1b in Hp. split; [exact Hp|]. intros ->.
      destruct (ok_bus W L ev' id Hp) as [[Z _]|[_ [f' [u' [O' [E' [UE' _]]]]]]].
      + exact (unit_id_nz W f u I O Z).
      + destruct (io_uniq W I f' u' f u O' O E') as [_ ->]. rewrite UE in UE'. inversion UE'; subst. apply NE; reflexivity.
    - rewrite L1b in Hp. split; [exact Hp|]. intros ->.
      destruct (ok_bus W L ev' id Hp) as [[Z _]|[_ [f' [u' [O' [E' [UE' _]]]]]]].
      + exact (unit_id_nz W f u I O Z).
      + destruct (io_uniq W I f' u' f u O' O E') as [_ ->]. congruence. }
  split; [split; [|split]|].
  - apply (ids_ok_same W); [split; reflexivity|exact I].
  - destruct S as [SR SP SD SA SZ]. constructor; wsimpl; try assumption.
    + intros x Hx. apply In_deln in Hx. destruct Hx as [Hx _]. apply SR. exact Hx.
    + intros x Hx C. apply In_deln in C. destruct C as [C _]. exact (SD x Hx C).
  - constructor; wsimpl.
    + intros e q Hp. rewrite L2s in Hp. destruct (L1s _ Hp) as [HS NE]. cbn in NE.
      destruct (ok_state W L e q HS) as [R X]. split; [apply In_deln; split; assumption|exact X].
    + intros ev' q Hp. rewrite L2e, L1e in Hp.
      destruct (ok_event W L ev' q Hp) as [R [f' [u' [O' [E' [UE' NF']]]]]].
      split; [|exists f', u'; repeat split; assumption || apply O'].
      apply In_deln. split; [exact R|]. intros ->. destruct (io_uniq W I f' u' f u O' O E') as [-> _]. congruence.
    + intros ev' o Hp. destruct (L2b _ _ Hp) as [HB NE]. rewrite L2e, L1e.
      destruct (ok_bus W L ev' o HB) as [[-> H]|[R X]]; [left; split; [reflexivity|exact H]|].
      right. split; [apply In_deln; split; assumption|exact X].
    + intros t Ht. rewrite L2t, L1t in Ht. rewrite L2r, L1r. apply In_deln in Ht. destruct Ht as [Ht NE].
      destruct (ok_tasks W L t Ht) as [H|[H|H]]; [left; exact H|right; left; exact H|].
      right; right. apply In_deln. split; assumption.
    + intros g Hg. rewrite L2v, L1v in Hg. exact (ok_svc W L g Hg).
  - unfold stop_post, same_tables. wsimpl. repeat split; try reflexivity.
    + apply In_deln in H. tauto.
    + apply In_deln in H. tauto.
    + exact H.
    + intros ->. destruct (so_pend W S _ H) as [f' [u' [O' [E' [NF' _]]]]].
      destruct (io_uniq W I f' u' f u O' O E') as [-> _]. congruence.
    + rewrite L2v, L1v. reflexivity.
    + rewrite L2t, L1t. intros t Ht. apply In_deln in Ht. tauto.
Qed.

(* ---- unit-level starts ------------------------------------------------------------------------ *)
Definition start_post (W W' : world) : Prop :=
  same_tables W W' /\ w_active W' = w_active W /\ w_delayed W' = w_delayed W /\ w_zombie W' = w_zombie W /\
  l_svc (w_led W') = l_svc (w_led W).

Lemma leg_unit_start_inv W f u : Inv W -> owns W f u -> f_new f = false -> In (f_gen f) (w_active W) ->
  ~ In (f_gen f) (w_delayed W) -> ~ In (u_id u) (w_running W) ->
  Inv (leg_unit_start W u) /\ start_post W (leg_unit_start W u) /\ w_running (leg_unit_start W u) = w_running W.
Proof.
  intros [I [S L]] O NF A ND NR. unfold leg_unit_start, leg_start. split; [split; [|split]|].
  - apply (ids_ok_same W); [split; reflexivity|exact I].
  - destruct S as [SR SP SD SA SZ]. constructor; wsimpl; try assumption.
    + intros x Hx. apply In_addn in Hx. destruct Hx as [Hx| ->]; [apply SP; exact Hx|].
      exists f, u. repeat split; assumption || apply O.
    + intros x Hx. apply In_addn in Hx. destruct Hx as [Hx| ->]; [apply SD; exact Hx|exact NR].
  - destruct L as [KS KE KB KT KV]. constructor; wsimpl; try assumption.
    intros t Ht. apply In_addn in Ht. destruct Ht as [Ht| ->].
    + destruct (KT t Ht) as [H|[H|H]]; auto. right; left. apply In_addn. left; exact H.
    + right; left. apply In_addn. right; reflexivity.
  - unfold start_post, same_tables. wsimpl. repeat split; reflexivity.
Qed.

Lemma dec_unit_start_inv W f u : Inv W -> owns W f u -> f_new f = true -> In (f_gen f) (w_active W) ->
  ~ In (f_gen f) (w_delayed W) ->
  Inv (dec_unit_start W u) /\ start_post W (dec_unit_start W u) /\ w_pending (dec_unit_start W u) = w_pending W.
Proof.
  intros [I [S L]] O NF A ND. unfold dec_unit_start, dec_start.
  set (id := u_id u).
  set (L1 := match u_state u with
             | Some ids => let L' := set_state (w_led W) (notify_add ids id (l_state (w_led W))) in
                           if notify_added ids then set_tasks L' (addn id (l_tasks L')) else L'
             | None => w_led W end).
  assert (L1s : forall p, In p (l_state L1) -> In p (l_state (w_led W)) \/
                 (snd p = id /\ exists ids, u_state u = Some ids /\ In (fst p) (ident_keys ids))).
  { intros p Hp. unfold L1 in Hp. destruct (u_state u) as [ids|]; [|left; exact Hp].
    assert (Hq : In p (notify_add ids id (l_state (w_led W)))) by (destruct (notify_added ids); wsimpl; exact Hp).
    apply In_notify_add in Hq. destruct Hq as [Hq|[A1 A2]]; [left; exact Hq|right]. split; [exact A1|]. exists ids. split; [reflexivity|exact A2]. }
  assert (L1o : l_event L1 = l_event (w_led W) /\ l_bus L1 = l_bus (w_led W) /\ l_reap L1 = l_reap (w_led W) /\
                l_svc L1 = l_svc (w_led W) /\ forall t, In t (l_tasks L1) -> In t (l_tasks (w_led W)) \/ t = id).
  { unfold L1. destruct (u_state u) as [ids|]; [destruct (notify_added ids)|]; wsimpl; repeat split; try reflexivity; auto.
    intros t Ht. apply In_addn in Ht. exact Ht. }
  destruct L1o as [L1e [L1b [L1r [L1v L1t]]]].
  set (L2 := match u_event u with Some ev => set_evbus L1 (l_event L1) (addp (ev, id) (l_bus L1)) | None => L1 end).
  assert (L2o : l_state L2 = l_state L1 /\ l_event L2 = l_event L1 /\ l_tasks L2 = l_tasks L1 /\ l_reap L2 = l_reap L1 /\
                l_svc L2 = l_svc L1).
  { unfold L2. destruct (u_event u); wsimpl; repeat split; reflexivity. }
  destruct L2o as [L2s [L2e [L2t [L2r L2v]]]].
  assert (L2b : forall p, In p (l_bus L2) -> In p (l_bus (w_led W)) \/ (snd p = id /\ u_event u = Some (fst p))).
  { intros p Hp. unfold L2 in Hp. destruct (u_event u) as [ev|]; wsimpl; rewrite L1b in Hp; [|left; exact Hp].
    apply In_addp in Hp. destruct Hp as [Hp| ->]; [left; exact Hp|right; split; reflexivity]. }
  set (L3 := if u_periodic u then set_tasks L2 (addn id (l_tasks L2)) else L2).
  assert (L3o : l_state L3 = l_state L2 /\ l_event L3 = l_event L2 /\ l_bus L3 = l_bus L2 /\ l_reap L3 = l_reap L2 /\
                l_svc L3 = l_svc L2 /\ forall t, In t (l_tasks L3) -> In t (l_tasks L2) \/ t = id).
  { unfold L3. destruct (u_periodic u); wsimpl; repeat split; try reflexivity; auto. intros t Ht. apply In_addn in Ht. exact Ht. }
  destruct L3o as [L3s [L3e [L3b [L3r [L3v L3t]]]]].
  assert (RID : In id (addn id (w_running W))) by (apply In_addn; right; reflexivity).
  assert (RM : forall x, In x (w_running W) -> In x (addn id (w_running W))) by (intros x Hx; apply In_addn; left; exact Hx).
  split; [split; [|split]|].
  - apply (ids_ok_same W); [split; reflexivity|exact I].
  - destruct S as [SR SP SD SA SZ]. constructor; wsimpl; try assumption.
    + intros x Hx. apply In_addn in Hx. destruct Hx as [Hx| ->]; [apply SR; exact Hx|].
      exists f, u. repeat split; assumption || apply O.
    + intros x Hx C. apply In_addn in C. destruct C as [C| ->]; [exact (SD x Hx C)|].
      destruct (SP _ Hx) as [f' [u' [O' [E' [NF' _]]]]].
      destruct (io_uniq W I f' u' f u O' O E') as [-> _]. congruence.
  - constructor; wsimpl.
    + intros e q Hp. rewrite L3s, L2s in Hp. destruct (L1s _ Hp) as [H|[H [ids [US K]]]].
      * destruct (ok_state W L e q H) as [R X]. split; [apply RM; exact R|exact X].
      * cbn in H, K. subst q. split; [exact RID|]. exists f, u, ids. repeat split; assumption || apply O.
    + intros ev' q Hp. rewrite L3e, L2e, L1e in Hp. destruct (ok_event W L ev' q Hp) as [R X]. split; [apply RM; exact R|exact X].
    + intros ev' o Hp. rewrite L3b in Hp. rewrite L3e, L2e, L1e. destruct (L2b _ Hp) as [H|[H UE]].
      * destruct (ok_bus W L ev' o H) as [[-> X]|[R X]]; [left; split; [reflexivity|exact X]|right; split; [apply RM; exact R|exact X]].
      * cbn in H, UE. subst o. right. split; [exact RID|]. exists f, u. repeat split; assumption || apply O.
    + intros t Ht. rewrite L3r, L2r, L1r. destruct (L3t t Ht) as [H| ->]; [|right; right; exact RID].
      rewrite L2t in H. destruct (L1t t H) as [H'| ->]; [|right; right; exact RID].
      destruct (ok_tasks W L t H') as [X|[X|X]]; auto.
    + intros g Hg. rewrite L3v, L2v, L1v in Hg. exact (ok_svc W L g Hg).
  - unfold start_post, same_tables. wsimpl. repeat split; try reflexivity. rewrite L3v, L2v, L1v. reflexivity.
Qed.
