(* Proofs/LifeUntouched.v — what a reload does not discard it does not touch: the context object (its source,
   variables, counter, import set, identity) is in the table afterwards exactly as it was, except that its
   triggers may have been (re)armed.  Holds for every state, tree, configuration and argument; for contexts that
   are not modules it needs that no import statement can resolve to their name (module_import would replace them). *)
From PV Require Import Common.Util Life.ReloadBase Gen.ReloadConsts Life.Modules Life.Reload Life.ReloadPlanSpec
  Proofs.LifeReloadBase.
From Coq Require Import Lia.

(* no import statement anywhere can make module_import load a file under the name [n] *)
Definition safe_name (dv : deviations) (t : tree) (n : cname) : Prop :=
  forall self_name self_rel i cs cnd, candidates dv self_name self_rel i = Some cs -> In cnd cs -> cd_name cnd = n ->
    tree_get t (cd_path cnd) = None.

Definition keeps (c : gctx) (st st' : state) : Prop := In c st -> In c st'.

Lemma find_loaded_hit st cs c : uniq_ctx st -> In c st -> c_ismod c = true ->
  (exists cnd, In cnd cs /\ cd_name cnd = c_name c) -> find_loaded st cs <> None.
Proof.
  intros Hu Hc Hm (cnd & Hcnd & En). induction cs as [|x cs IH]; [destruct Hcnd|].
  cbn [find_loaded]. destruct (st_get st (cd_name x)) as [y|] eqn:G.
  - destruct (c_ismod y) eqn:My; [discriminate|].
    destruct Hcnd as [->|Hcnd]; [|apply IH; exact Hcnd].
    exfalso. rewrite En in G. apply st_get_Some in G. destruct G as [Hy Ey].
    assert (y = c).
    { clear -Hu Hy Hc Ey. unfold uniq_ctx in Hu. induction st as [|z st IH]; [destruct Hy|].
      cbn in Hu. inversion Hu as [|? ? Hnot Hu']; subst.
      destruct Hy as [->|Hy], Hc as [<-|Hc]; auto.
      - exfalso. apply Hnot. rewrite Ey. apply in_map. exact Hc.
      - exfalso. apply Hnot. rewrite <- Ey. apply in_map. exact Hy. }
    subst y. congruence.
  - destruct Hcnd as [->|Hcnd]; [|apply IH; exact Hcnd].
    exfalso. rewrite En in G. apply st_get_None in G. apply G. apply in_map. exact Hc.
Qed.

Lemma find_file_In t cs c f : find_file t cs = Some (c, f) -> In c cs /\ tree_get t (cd_path c) = Some f.
Proof.
  induction cs as [|x cs IH]; cbn [find_file]; [discriminate|].
  destruct (tree_get t (cd_path x)) as [g|] eqn:G.
  - intros H; inversion H; subst. cbn; auto.
  - intros H. destruct (IH H). cbn; auto.
Qed.

Lemma uniq_st_del st n : uniq_ctx st -> uniq_ctx (st_del st n).
Proof.
  unfold uniq_ctx, st_del. induction st as [|c st IH]; cbn; [auto|]. intros H. inversion H as [|? ? Hnot H']; subst.
  destruct (negb (nl_eqb (c_name c) n)); cbn; [|apply IH; exact H'].
  constructor; [|apply IH; exact H']. intros HI. apply Hnot. apply in_map_iff in HI. destruct HI as (x & E & HI).
  apply filter_In in HI. destruct HI as [HI _]. rewrite <- E. apply in_map. exact HI.
Qed.

Lemma uniq_st_set st c : uniq_ctx st -> uniq_ctx (st_set st c).
Proof.
  intros H. unfold st_set, uniq_ctx. rewrite map_app. cbn.
  apply (uniq_st_del st (c_name c)) in H. unfold uniq_ctx in H.
  assert (Hn : ~ In (c_name c) (map c_name (st_del st (c_name c)))).
  { intros HI. apply in_map_iff in HI. destruct HI as (x & E & HI). apply st_del_In in HI. destruct HI as [_ HI]. congruence. }
  revert H Hn. generalize (map c_name (st_del st (c_name c))). intros l. induction l as [|x l IH]; cbn; intros H Hn.
  - constructor; [intros []|constructor].
  - inversion H as [|? ? Hnot H']; subst. constructor.
    + rewrite in_app_iff. cbn. intros [HI|[E|[]]]; [tauto|]. apply Hn. auto.
    + apply IH; [exact H'|]. intros HI. apply Hn. auto.
Qed.

Section Exec.
  Variable dv : deviations.
  Variable t : tree.
  Variable c : gctx.
  Hypothesis Hsafe : c_ismod c = true \/ safe_name dv t (c_name c).

  (* result states of an execution *)
  Definition xres_good (st : state) (r : xres) : Prop :=
    match r with
    | XOk st' _ _ => uniq_ctx st' /\ (In c st -> In c st')
    | XFail st' _ => uniq_ctx st' /\ (In c st -> In c st')
    | XFuel => True
    end.

  Lemma imports_loop_keeps load self_name self_rel :
    (forall cnd f st ev, uniq_ctx st -> (find_loaded st [cnd] = None \/ True) ->
        (In c st -> c_ismod c = true -> cd_name cnd <> c_name c) ->
        (tree_get t (cd_path cnd) = Some f) ->
        (exists i cs, candidates dv self_name self_rel i = Some cs /\ In cnd cs) ->
        xres_good st (load cnd f st ev)) ->
    forall imps st ev acc, uniq_ctx st -> xres_good st (imports_loop load dv t self_name self_rel imps st ev acc).
  Proof.
    intros Hload. induction imps as [|i rest IH]; intros st ev acc Hu; cbn [imports_loop].
    - cbn. auto.
    - destruct (candidates dv self_name self_rel i) as [cs|] eqn:Ec; [|cbn; auto].
      destruct (find_loaded st cs) as [n|] eqn:El; [apply IH; exact Hu|].
      destruct (find_file t cs) as [[cnd f]|] eqn:Ef; [|cbn; auto].
      destruct (find_file_In _ _ _ _ Ef) as [Hcnd Hf].
      assert (Hg : xres_good st (load cnd f st ev)).
      { apply Hload; auto.
        - intros Hc Hm En. apply (find_loaded_hit st cs c Hu Hc Hm); [eauto|exact El].
        - eauto. }
      destruct (load cnd f st ev) as [st2 ev2 imps2|st2 ev2|]; cbn in Hg |- *; [|exact Hg|exact I].
      destruct Hg as [Hu2 Hk2]. specialize (IH st2 ev2 (nl_add (cd_name cnd) acc) Hu2).
      destruct (imports_loop load dv t self_name self_rel rest st2 ev2 (nl_add (cd_name cnd) acc)); cbn in IH |- *; try exact I;
        destruct IH as [Hu3 Hk3]; split; auto.
  Qed.

  Lemma load_module_keeps : forall fuel born started cnd f st ev,
    uniq_ctx st -> (In c st -> c_ismod c = true -> cd_name cnd <> c_name c) ->
    tree_get t (cd_path cnd) = Some f ->
    (exists self_name self_rel i cs, candidates dv self_name self_rel i = Some cs /\ In cnd cs) ->
    xres_good st (load_module fuel dv t born started cnd f st ev).
  Proof.
    induction fuel as [|fuel IH]; intros born started cnd f st ev Hu Hne Hf Hcand; cbn [load_module]; [exact I|].
    assert (Hname : In c st -> cd_name cnd <> c_name c).
    { intros Hc. destruct Hsafe as [Hm|Hs]; [apply Hne; assumption|].
      intros En. destruct Hcand as (sn & sr & i & cs & Ec & Hin). rewrite (Hs sn sr i cs cnd Ec Hin En) in Hf. discriminate. }
    pose proof (uniq_st_del st (cd_name cnd) Hu) as Hu1.
    assert (Hloop : xres_good (st_del st (cd_name cnd))
              (imports_loop (load_module fuel dv t born started) dv t (cd_name cnd) (cd_rel cnd) (f_imps f)
                 (st_del st (cd_name cnd)) (ev ++ [(cd_name cnd, f_gen f)]) [])).
    { apply imports_loop_keeps; [|exact Hu1]. intros cnd' f' st' ev' Hu' _ Hne' Hf' (i & cs & Ec & Hin).
      apply IH; auto. exists (cd_name cnd), (cd_rel cnd), i, cs. auto. }
    destruct (imports_loop _ dv t (cd_name cnd) (cd_rel cnd) (f_imps f) _ _ []) as [st2 ev2 imps2|st2 ev2|]; cbn in Hloop |- *; [| |exact I].
    - destruct Hloop as [Hu2 Hk2]. split; [apply uniq_st_set; exact Hu2|].
      intros Hc. apply st_set_In. right. split.
      + apply Hk2. apply st_del_In. split; [exact Hc|]. intros E. apply (Hname Hc). symmetry. exact E.
      + cbn. intros E. apply (Hname Hc). symmetry. exact E.
    - destruct Hloop as [Hu2 Hk2]. split; [exact Hu2|].
      intros Hc. apply Hk2. apply st_del_In. split; [exact Hc|]. intros E. apply (Hname Hc). symmetry. exact E.
  Qed.

  Lemma exec_body_keeps fuel born started self_name self_rel imps st ev : uniq_ctx st ->
    xres_good st (exec_body fuel dv t born started self_name self_rel imps st ev).
  Proof.
    intros Hu. unfold exec_body. apply imports_loop_keeps; [|exact Hu].
    intros cnd f st' ev' Hu' _ Hne Hf (i & cs & Ec & Hin). apply load_module_keeps; auto.
    exists self_name, self_rel, i, cs. auto.
  Qed.
End Exec.

Lemma delete_phase_keeps st del c : uniq_ctx st -> In c st -> ~ In (c_name c) del ->
  uniq_ctx (delete_phase st del) /\ In c (delete_phase st del).
Proof.
  unfold delete_phase. generalize (map c_name (ctx_all st)). intros all. revert st.
  induction del as [|n del IH]; intros st Hu Hc Hn; cbn [fold_left]; [auto|].
  apply IH.
  - destruct (nl_mem n all); [apply uniq_st_del; exact Hu|exact Hu].
  - destruct (nl_mem n all); [|exact Hc]. apply st_del_In. split; [exact Hc|]. intros E. apply Hn. cbn; auto.
  - intros HI. apply Hn. cbn; auto.
Qed.

Lemma load_one_keeps dv t born w s c : (c_ismod c = true \/ safe_name dv t (c_name c)) ->
  uniq_ctx (w_st w) -> In c (w_st w) -> sf_name s <> c_name c ->
  uniq_ctx (w_st (load_one dv t born w s)) /\ In c (w_st (load_one dv t born w s)).
Proof.
  intros Hsafe Hu Hc Hne. unfold load_one.
  pose proof (uniq_st_del (w_st w) (sf_name s) Hu) as Hu1.
  assert (Hc1 : In c (st_del (w_st w) (sf_name s))) by (apply st_del_In; split; [exact Hc|congruence]).
  pose proof (exec_body_keeps dv t c Hsafe (exec_fuel t) born false (sf_name s) (sf_rel s) (sf_imps s)
                (st_del (w_st w) (sf_name s)) (w_ev w ++ [(sf_name s, sf_gen s)]) Hu1) as Hx.
  destruct (exec_body _ dv t born false (sf_name s) (sf_rel s) (sf_imps s) _ _) as [st2 ev2 imps2|st2 ev2|]; cbn in Hx |- *.
  - destruct Hx as [Hu2 Hk2]. split; [apply uniq_st_set; exact Hu2|].
    apply st_set_In. right. split; [apply Hk2; exact Hc1|cbn; congruence].
  - destruct Hx as [Hu2 Hk2]. auto.
  - auto.
Qed.

Lemma start_phase_keeps dv a st c : In c st -> In c (start_phase dv a st) \/ In (set_started c) (start_phase dv a st).
Proof.
  intros Hc. unfold start_phase.
  set (g := fun c0 : gctx => if negb (in_ctx_roots (c_name c0)) then c0 else
              match a with
              | RName n => if d_named_start dv then if prefix_of n (c_name c0) then set_started c0 else c0 else set_started c0
              | _ => set_started c0
              end).
  assert (Hg : g c = c \/ g c = set_started c).
  { unfold g. destruct (negb _); [auto|]. destruct a; auto. destruct (d_named_start dv); auto. destruct (prefix_of n (c_name c)); auto. }
  destruct Hg as [E|E]; [left|right]; rewrite <- E; apply (in_map g); exact Hc.
Qed.

(* for every deviation setting: a context that is neither in the plan's delete set nor the name of a file the plan
   loads is still there after the reload *)
Theorem reload_untouched dv born st t k a c :
  uniq_ctx st -> In c st -> (c_ismod c = true \/ safe_name dv t (c_name c)) ->
  let pl := plan dv st (discover t k) a in
  ~ In (c_name c) (p_del pl) -> ~ In (c_name c) (map sf_name (load_list (p_files pl))) ->
  let st' := r_st (reload dv born st t k a) in
  In c st' \/ In (set_started c) st'.
Proof.
  intros Hu Hc Hsafe pl Hdel Hload. unfold reload. fold pl.
  destruct (p_ok pl); cbn [negb r_st]; [|apply start_phase_keeps; exact Hc].
  destruct (delete_phase_keeps st (p_del pl) c Hu Hc Hdel) as [Hu1 Hc1].
  apply start_phase_keeps.
  set (w0 := {| w_st := delete_phase st (p_del pl); w_ev := []; w_fuel := true |}).
  assert (H0 : uniq_ctx (w_st w0) /\ In c (w_st w0)) by (cbn; auto).
  revert H0 Hload. generalize w0. generalize (load_list (p_files pl)). intros l.
  induction l as [|s l IH]; intros w [Hu2 Hc2] Hl; cbn [fold_left]; [exact Hc2|].
  apply IH.
  - apply load_one_keeps; auto. intros E. apply Hl. cbn; auto.
  - intros HI. apply Hl. cbn; auto.
Qed.
