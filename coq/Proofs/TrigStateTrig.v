(* Proofs/TrigStateTrig.v — lemmas and proofs for C04 (models in Trig/Notify.v, Trig/StateTrig.v). *)
From Coq Require Import ZArith NArith List Bool Lia ZifyBool Sorted.
From PV Require Import Common.Util Gen.StateTrigConsts Trig.Notify Trig.StateTrig Trig.StateTrigCheck.
Import ListNotations.

(* ------------------------------------------------------------------------------------------------ *)
(* hass.states                                                                                        *)
(* ------------------------------------------------------------------------------------------------ *)
Lemma hget_hdel_same h e : hget (hdel h e) e = None.
Proof.
  unfold hget, hdel. induction h as [|[k v] r IH]; cbn; [reflexivity|].
  destruct (N.eqb k e) eqn:E; cbn; [exact IH|].
  rewrite N.eqb_sym, E. exact IH.
Qed.

Lemma hget_hdel_other h e x : x <> e -> hget (hdel h e) x = hget h x.
Proof.
  intros Hne. unfold hget, hdel. induction h as [|[k v] r IH]; cbn; [reflexivity|].
  destruct (N.eqb k e) eqn:E; cbn.
  - apply N.eqb_eq in E. subst k. destruct (N.eqb x e) eqn:E2; [apply N.eqb_eq in E2; contradiction|exact IH].
  - destruct (N.eqb x k); [reflexivity|exact IH].
Qed.

Lemma hget_hset_same h e s : hget (hset h e s) e = Some s.
Proof. unfold hget, hset. cbn. rewrite N.eqb_refl. reflexivity. Qed.

Lemma hget_hset_other h e s x : x <> e -> hget (hset h e s) x = hget h x.
Proof.
  intros Hne. unfold hset. change (hget ((e, s) :: hdel h e) x) with (if N.eqb x e then Some s else hget (hdel h e) x).
  destruct (N.eqb x e) eqn:E; [apply N.eqb_eq in E; contradiction|]. apply hget_hdel_other; exact Hne.
Qed.

(* what an event says about the states before and after the write *)
Lemma apply_op_event h id o h' ev :
  apply_op h id o = (h', Some ev) ->
  ev_id ev = id /\ hget h' (ev_ent ev) = ev_new ev /\ hget h (ev_ent ev) = ev_old ev
  /\ (forall x, x <> ev_ent ev -> hget h' x = hget h x).
Proof.
  destruct o as [e v a|e]; cbn [apply_op].
  - destruct (hget h e) as [old|] eqn:G.
    + destruct (sv_same old (mkSv v a)); intros H; inversion H; subst; cbn.
      repeat split; [apply hget_hset_same|exact G|intros x Hx; apply hget_hset_other; exact Hx].
    + intros H; inversion H; subst; cbn.
      repeat split; [apply hget_hset_same|exact G|intros x Hx; apply hget_hset_other; exact Hx].
  - destruct (hget h e) as [old|] eqn:G; intros H; inversion H; subst; cbn.
    repeat split; [apply hget_hdel_same|exact G|intros x Hx; apply hget_hdel_other; exact Hx].
Qed.

Lemma apply_op_noevent h id o h' : apply_op h id o = (h', None) -> h' = h.
Proof.
  destruct o as [e v a|e]; cbn [apply_op].
  - destruct (hget h e) as [old|]; [destruct (sv_same old (mkSv v a))|]; intros H; inversion H; reflexivity.
  - destruct (hget h e); intros H; inversion H; reflexivity.
Qed.

(* ------------------------------------------------------------------------------------------------ *)
(* evaluation of names: pyscript's resolution (notify_vars, then hass.states, then getattr) agrees    *)
(* with "the event's own values, NAME.old = previous value, undefined = None"                         *)
(* ------------------------------------------------------------------------------------------------ *)
Section TermLemma.
  Variables (cfg : sdev) (vn : list name) (ev : event) (h' : hass) (last' : last_map).
  (* notify_var_last agrees with hass.states as of the event *)
  Hypothesis Hlast : forall x v, assoc x last' = Some v -> v = hget h' x.
  Hypothesis Hnew : hget h' (ev_ent ev) = ev_new ev.

  Notation nv := (nv_lookup vn (mkItem ev h' last')).
  (* a name is harmless if undefined names read as None, or if notify_var_get handles it (it is in var_names) *)
  Definition name_ok (n : name) : Prop := d_undef_raises cfg = false \/ mem_name n vn = true.

  Lemma undef_off : d_undef_raises cfg = false -> undef cfg = RVal PNone.
  Proof. intros H. unfold undef. rewrite H. reflexivity. Qed.

  Lemma name_ok_not_mem n : name_ok n -> mem_name n vn = false -> undef cfg = RVal PNone.
  Proof. intros [H|H] M; [apply undef_off; exact H|congruence]. Qed.

  Lemma eval_ent_ok x : name_ok (NEnt x) -> eval_ent cfg nv h' x = RVal (of_osv (hget h' x)).
  Proof.
    intros Hok. unfold eval_ent, nv_lookup. cbn [it_ev it_hass it_last].
    destruct (N.eqb x (ev_ent ev)) eqn:E.
    - apply N.eqb_eq in E. subst x. rewrite Hnew. reflexivity.
    - destruct (mem_name (NEnt x) vn) eqn:M.
      + cbn [fill]. destruct (assoc x last') as [v|] eqn:A.
        * rewrite (Hlast _ _ A). reflexivity.
        * destruct (hget h' x) eqn:G; reflexivity.
      + destruct (hget h' x) eqn:G; [reflexivity|]. rewrite (name_ok_not_mem _ Hok M). reflexivity.
  Qed.

  (* without the name_ok hypothesis the entity still never raises when undefined names read as None; in general it is
     a value whenever it is bound or exists *)
  Lemma eval_ent_val x : d_undef_raises cfg = false -> eval_ent cfg nv h' x = RVal (of_osv (hget h' x)).
  Proof. intros H. apply eval_ent_ok. left. exact H. Qed.

  Lemma eval_old_ok x :
    name_ok (NOld x) ->
    eval_old cfg nv h' x = RVal (if N.eqb x (ev_ent ev) then of_osv (ev_old ev) else PNone).
  Proof.
    intros Hok. unfold eval_old. unfold nv_lookup at 1. cbn [it_ev it_hass it_last].
    destruct (N.eqb x (ev_ent ev)) eqn:E; [reflexivity|].
    destruct (mem_name (NOld x) vn) eqn:M; [reflexivity|].
    pose proof (name_ok_not_mem _ Hok M) as U.
    assert (Hd : d_undef_raises cfg = false) by (destruct Hok; congruence).
    rewrite (eval_ent_val x Hd). exact U.
  Qed.

  Lemma tev_ok t : name_ok (term_name t) -> tev cfg nv h' t = RVal (spec_term ev h' t).
  Proof.
    intros Hok. destruct t as [x|x a|x|x a]; cbn [tev spec_term term_name] in *.
    - apply eval_ent_ok. exact Hok.
    - unfold nv_lookup at 1. cbn [it_ev it_hass it_last].
      destruct (mem_name (NAttr x a) vn) eqn:M.
      + cbn [fill]. destruct (assoc x last') as [v|] eqn:A.
        * rewrite (Hlast _ _ A). reflexivity.
        * destruct (ogetattr a (hget h' x)) eqn:G; reflexivity.
      + pose proof (name_ok_not_mem _ Hok M) as U.
        assert (Hd : d_undef_raises cfg = false) by (destruct Hok; congruence).
        destruct (ogetattr a (hget h' x)) as [v|] eqn:G; [reflexivity|].
        rewrite (eval_ent_val x Hd). unfold getattr_strict.
        destruct (hget h' x) as [s|] eqn:G2; cbn [of_osv of_oatom]; [|exact U].
        cbn [ogetattr] in G. rewrite G. exact U.
    - apply eval_old_ok. exact Hok.
    - unfold nv_lookup at 1. cbn [it_ev it_hass it_last].
      destruct (mem_name (NOldAttr x a) vn) eqn:M.
      + cbn [fill]. destruct (N.eqb x (ev_ent ev)); reflexivity.
      + pose proof (name_ok_not_mem _ Hok M) as U.
        assert (Hd : d_undef_raises cfg = false) by (destruct Hok; congruence).
        rewrite (eval_old_ok x (or_introl Hd)). unfold getattr_strict.
        destruct (N.eqb x (ev_ent ev)); [|exact U].
        destruct (ev_old ev) as [s|]; cbn [of_osv ogetattr of_oatom]; [|exact U].
        destruct (get_attr a s); [reflexivity|exact U].
  Qed.

  Definition oexp_ok (o : oexp) : Prop := forall t, In t (oexp_terms o) -> name_ok (term_name t).
  Fixpoint bexp_ok (b : bexp) : Prop :=
    match b with
    | BEqC o _ | BNeC o _ | BGtC o _ | BTruthy o => oexp_ok o
    | BEqT o u | BNeT o u => oexp_ok o /\ oexp_ok u
    | BNot b => bexp_ok b
    | BAnd b c | BOr b c => bexp_ok b /\ bexp_ok c
    end.

  Notation sterm := (fun t => RVal (spec_term ev h' t)).

  Lemma oeval_ok o : oexp_ok o -> oeval (tev cfg nv h') o = oeval sterm o.
  Proof.
    unfold oexp_ok. induction o as [t|o IH|o IH|o IH|o IH|o IH|o IH|o IH]; cbn [oeval oexp_terms]; intros H;
      try (rewrite (IH H); reflexivity).
    rewrite (tev_ok t (H t (or_introl eq_refl))). reflexivity.
  Qed.

  Lemma beval_ok b : bexp_ok b -> beval (tev cfg nv h') b = beval sterm b.
  Proof.
    induction b as [o c|o c|o u|o u|o n|o|b IH|b IHb c IHc|b IHb c IHc]; cbn [bexp_ok beval]; intros H.
    - rewrite (oeval_ok o H). reflexivity.
    - rewrite (oeval_ok o H). reflexivity.
    - destruct H as [Ho Hu]. rewrite (oeval_ok o Ho), (oeval_ok u Hu). reflexivity.
    - destruct H as [Ho Hu]. rewrite (oeval_ok o Ho), (oeval_ok u Hu). reflexivity.
    - rewrite (oeval_ok o H). reflexivity.
    - rewrite (oeval_ok o H). reflexivity.
    - rewrite (IH H). reflexivity.
    - destruct H as [Hb Hc]. rewrite (IHb Hb), (IHc Hc). reflexivity.
    - destruct H as [Hb Hc]. rewrite (IHb Hb), (IHc Hc). reflexivity.
  Qed.

  Lemma all_vals_ok l : Forall bexp_ok l -> all_vals (tev cfg nv h') l = all_vals sterm l.
  Proof.
    induction l as [|b r IH]; intros H; cbn [all_vals]; [reflexivity|].
    inversion H as [|? ? Hb Hr]; subst. rewrite (beval_ok b Hb), (IH Hr). reflexivity.
  Qed.

  Lemma exprs_truthy_ok l : Forall bexp_ok l -> exprs_truthy (tev cfg nv h') l = spec_truthy ev h' l.
  Proof. intros H. unfold spec_truthy, exprs_truthy. rewrite (all_vals_ok l H). reflexivity. Qed.

  (* names of an expression are in var_names when there is no watch= *)
  Lemma oexp_ok_of_names o : (forall n, In n (oexp_names o) -> name_ok n) -> oexp_ok o.
  Proof. intros H t Ht. apply H. unfold oexp_names. apply in_map. exact Ht. Qed.

  Lemma bexp_ok_of_names b : (forall n, In n (bexp_names b) -> name_ok n) -> bexp_ok b.
  Proof.
    induction b as [o c|o c|o u|o u|o n|o|b IH|b IHb c IHc|b IHb c IHc]; cbn [bexp_ok bexp_names]; intros H.
    - apply oexp_ok_of_names. exact H.
    - apply oexp_ok_of_names. exact H.
    - split; apply oexp_ok_of_names; intros m Hm; apply H; apply in_or_app; auto.
    - split; apply oexp_ok_of_names; intros m Hm; apply H; apply in_or_app; auto.
    - apply oexp_ok_of_names. exact H.
    - apply oexp_ok_of_names. exact H.
    - apply IH. exact H.
    - split; [apply IHb|apply IHc]; intros m Hm; apply H; apply in_or_app; auto.
    - split; [apply IHb|apply IHc]; intros m Hm; apply H; apply in_or_app; auto.
  Qed.
End TermLemma.

(* ------------------------------------------------------------------------------------------------ *)
(* the decision for one delivered event                                                               *)
(* ------------------------------------------------------------------------------------------------ *)
Lemma name_eqb_refl n : name_eqb n n = true.
Proof. destruct n; cbn; rewrite ?N.eqb_refl; reflexivity. Qed.

Lemma mem_name_in n l : In n l -> mem_name n l = true.
Proof. intros H. unfold mem_name. apply existsb_exists. exists n. split; [exact H|apply name_eqb_refl]. Qed.

Lemma oval_eqb_sym a b : oval_eqb a b = oval_eqb b a.
Proof. destruct a, b; cbn; try reflexivity. apply N.eqb_sym. Qed.

Lemma value_differs_sym a b : value_differs a b = value_differs b a.
Proof. unfold value_differs. rewrite oval_eqb_sym. reflexivity. Qed.

Definition no_aold (T : trig) : Prop := forall e, ~ In (AOld e) (trig_anys T).

(* configurations/switch settings under which the code's decision is the property's *)
Definition benign (cfg : sdev) (legacy : bool) (T : trig) : Prop :=
  (t_watch T = None \/ (d_undef_raises cfg = false /\ d_watch_hides_any cfg = false))
  /\ (d_noexpr_runs cfg = false \/ legacy = true \/ (t_watch T = None /\ no_aold T)).

Lemma benign_off legacy T : benign sdev_off legacy T.
Proof. split; [right; split; reflexivity|left; reflexivity]. Qed.

Lemma any_name_changed ev f :
  (forall e, f <> AOld e) -> name_changed ev (any_name f) = true -> any_form_changed ev f = true.
Proof.
  intros Hn. destruct f as [e|e a|e|e]; cbn [any_name name_changed any_form_changed]; intros H.
  - rewrite value_differs_sym. exact H.
  - exact H.
  - exfalso. apply (Hn e). reflexivity.
  - discriminate.
Qed.

Lemma no_expr_not_changed T ev :
  t_watch T = None -> trig_exprs T = [] -> no_aold T ->
  any_changed ev (trig_anys T) = false -> values_changed ev (trig_ident T) = false.
Proof.
  intros Hw Hex Hno Hany. unfold trig_ident. rewrite Hw, Hex. cbn [flat_map app].
  unfold values_changed. destruct (existsb (name_changed ev) (map any_name (trig_anys T))) eqn:E; [|reflexivity].
  apply existsb_exists in E. destruct E as [n [Hin Hn]]. apply in_map_iff in Hin. destruct Hin as [f [Hf Hin]]. subst n.
  assert (any_form_changed ev f = true) as Hc.
  { apply any_name_changed; [|exact Hn]. intros e He. subst f. exact (Hno e Hin). }
  unfold any_changed in Hany. assert (existsb (any_form_changed ev) (trig_anys T) = true) as Hx.
  { apply existsb_exists. exists f. split; assumption. }
  congruence.
Qed.

Lemma exprs_names_in_ident T b n :
  t_watch T = None -> In b (trig_exprs T) -> In n (bexp_names b) -> mem_name n (trig_ident T) = true.
Proof.
  intros Hw Hb Hn. apply mem_name_in. unfold trig_ident. rewrite Hw. apply in_or_app. left.
  apply in_flat_map. exists b. split; assumption.
Qed.

Lemma decide_ok cfg legacy T ev h' last' hnow :
  (forall x v, assoc x last' = Some v -> v = hget h' x) ->
  hget h' (ev_ent ev) = ev_new ev ->
  benign cfg legacy T ->
  (d_late_read cfg = false \/ hnow = h') ->
  decide cfg legacy T (mkItem ev h' last') hnow = qualifies T ev h'.
Proof.
  intros Hlast Hnew [Hb1 Hb2] Hnow. unfold decide, qualifies. cbn [it_ev it_hass].
  destruct (any_changed ev (trig_anys T)) eqn:A; [reflexivity|]. cbn [orb].
  destruct (values_changed ev (trig_ident T)) eqn:V; cbn [negb andb]; [|reflexivity].
  destruct (trig_exprs T) as [|b r] eqn:Ex.
  - change (spec_truthy ev h' []) with false. destruct Hb2 as [H|[H|[Hw Hno]]].
    + rewrite H. apply andb_false_r.
    + rewrite H. reflexivity.
    + rewrite (no_expr_not_changed T ev Hw Ex Hno A) in V. discriminate.
  - assert ((if d_late_read cfg then hnow else h') = h') as Hhf.
    { destruct Hnow as [H|H]; [rewrite H; reflexivity|subst hnow; destruct (d_late_read cfg); reflexivity]. }
    rewrite Hhf. apply (exprs_truthy_ok cfg (trig_ident T) ev h' last' Hlast Hnew).
    rewrite <- Ex. apply Forall_forall. intros e He. apply bexp_ok_of_names. intros n Hn.
    destruct Hb1 as [Hw|[Hu _]]; [right; apply (exprs_names_in_ident T e n Hw He Hn)|left; exact Hu].
Qed.

(* ------------------------------------------------------------------------------------------------ *)
(* subscription: an event on an entity the trigger is not subscribed to never qualifies               *)
(* ------------------------------------------------------------------------------------------------ *)
Lemma names_have_ent_in l n e : In n l -> name_ent n = Some e -> names_have_ent l e = true.
Proof.
  intros Hin Hn. unfold names_have_ent. apply existsb_exists. exists n. split; [exact Hin|]. rewrite Hn. apply N.eqb_refl.
Qed.

Lemma name_changed_ent ev n : name_changed ev n = true -> name_ent n = Some (ev_ent ev).
Proof.
  destruct n as [e|e a|e|e a|e]; cbn [name_changed name_ent]; intros H; try discriminate;
    apply andb_true_iff in H; destruct H as [H _]; apply N.eqb_eq in H; subst; reflexivity.
Qed.

Lemma any_form_changed_ent ev f : any_form_changed ev f = true -> name_ent (any_name f) = Some (ev_ent ev).
Proof.
  destruct f as [e|e a|e|e]; cbn [any_form_changed any_name name_ent]; intros H; try discriminate;
    apply andb_true_iff in H; destruct H as [H _]; apply N.eqb_eq in H; subst; reflexivity.
Qed.

Lemma ident_in_sub cfg T n : In n (trig_ident T) -> In n (trig_sub_names cfg T).
Proof.
  unfold trig_sub_names, trig_ident. destruct (t_watch T) as [w|]; [|auto].
  destruct (d_watch_hides_any cfg); [auto|]. intros H. apply in_or_app. left. exact H.
Qed.

Lemma anys_in_sub cfg T f :
  (t_watch T = None \/ d_watch_hides_any cfg = false) -> In f (trig_anys T) -> In (any_name f) (trig_sub_names cfg T).
Proof.
  intros Hc Hf. unfold trig_sub_names, trig_ident. destruct (t_watch T) as [w|].
  - destruct Hc as [Hc|Hc]; [discriminate|]. rewrite Hc. apply in_or_app. right. apply in_map. exact Hf.
  - apply in_or_app. right. apply in_map. exact Hf.
Qed.

Lemma unsub_not_qualifies cfg T ev S :
  (t_watch T = None \/ d_watch_hides_any cfg = false) ->
  names_have_ent (trig_sub_names cfg T) (ev_ent ev) = false -> qualifies T ev S = false.
Proof.
  intros Hc Hs. unfold qualifies.
  destruct (any_changed ev (trig_anys T)) eqn:A.
  - unfold any_changed in A. apply existsb_exists in A. destruct A as [f [Hf Hch]].
    rewrite (names_have_ent_in _ _ _ (anys_in_sub cfg T f Hc Hf) (any_form_changed_ent ev f Hch)) in Hs. discriminate.
  - cbn [orb]. destruct (values_changed ev (trig_ident T)) eqn:V; [|reflexivity].
    unfold values_changed in V. apply existsb_exists in V. destruct V as [n [Hn Hch]].
    rewrite (names_have_ent_in _ _ _ (ident_in_sub cfg T n Hn) (name_changed_ent ev n Hch)) in Hs. discriminate.
Qed.

(* ------------------------------------------------------------------------------------------------ *)
(* fan-out: the queue entries of one trigger                                                          *)
(* ------------------------------------------------------------------------------------------------ *)
Definition tid_is (tid : N) (r : run) : bool := N.eqb (r_tid r) tid.

Lemma decide_push_tid cfg legacy hnow p r : In r (decide_push cfg legacy hnow p) -> r_tid r = t_id (fst p).
Proof.
  unfold decide_push. destruct (decide cfg legacy (fst p) (snd p) hnow); cbn; [|tauto].
  intros [H|[]]. subst r. reflexivity.
Qed.

Lemma filter_all {A} (f : A -> bool) l : (forall x, In x l -> f x = true) -> filter f l = l.
Proof.
  induction l as [|x r IH]; intros H; cbn; [reflexivity|].
  rewrite (H x (or_introl eq_refl)). f_equal. apply IH. intros y Hy. apply H. right. exact Hy.
Qed.

Lemma filter_none {A} (f : A -> bool) l : (forall x, In x l -> f x = false) -> filter f l = [].
Proof.
  induction l as [|x r IH]; intros H; cbn; [reflexivity|].
  rewrite (H x (or_introl eq_refl)). apply IH. intros y Hy. apply H. right. exact Hy.
Qed.

Lemma filter_dp_all cfg legacy hnow tid l :
  (forall p, In p l -> t_id (fst p) = tid) ->
  filter (tid_is tid) (flat_map (decide_push cfg legacy hnow) l) = flat_map (decide_push cfg legacy hnow) l.
Proof.
  intros H. apply filter_all. intros r Hr. apply in_flat_map in Hr. destruct Hr as [p [Hp Hr]].
  unfold tid_is. rewrite (decide_push_tid _ _ _ _ _ Hr), (H p Hp). apply N.eqb_refl.
Qed.

Lemma filter_dp_none cfg legacy hnow tid l :
  (forall p, In p l -> t_id (fst p) <> tid) ->
  filter (tid_is tid) (flat_map (decide_push cfg legacy hnow) l) = [].
Proof.
  intros H. apply filter_none. intros r Hr. apply in_flat_map in Hr. destruct Hr as [p [Hp Hr]].
  unfold tid_is. rewrite (decide_push_tid _ _ _ _ _ Hr). apply N.eqb_neq. apply H. exact Hp.
Qed.

(* the entries State.update makes for one event, as a function of the subscriber *)
Definition pushes_of (cfg : sdev) (ev : event) (h' : hass) (L : last_map) (q : trig) : list (trig * item) :=
  if subscribed (trig_sub_names cfg) q (ev_ent ev) then [(q, mkItem ev h' L)] else [].

Lemma state_update_spec cfg trigs h' last ev L P :
  state_update (trig_sub_names cfg) trigs h' last ev = (L, P) ->
  P = flat_map (pushes_of cfg ev h' L) trigs
  /\ ((L = last /\ notify_has (trig_sub_names cfg) trigs (ev_ent ev) = false)
      \/ (L = (ev_ent ev, ev_new ev) :: last /\ notify_has (trig_sub_names cfg) trigs (ev_ent ev) = true)).
Proof.
  unfold state_update. destruct (notify_has (trig_sub_names cfg) trigs (ev_ent ev)) eqn:Nh; intros H; inversion H; subst.
  - split; [reflexivity|right; split; reflexivity].
  - split; [|left; split; reflexivity]. unfold notify_has in Nh. symmetry.
    induction trigs as [|q r IH]; cbn; [reflexivity|]. cbn in Nh. apply orb_false_iff in Nh. destruct Nh as [Hq Hr].
    unfold pushes_of at 1. rewrite Hq. cbn. apply IH. exact Hr.
Qed.

Lemma pushes_of_fst cfg ev h' L q p : In p (pushes_of cfg ev h' L q) -> p = (q, mkItem ev h' L).
Proof. unfold pushes_of. destruct (subscribed _ q (ev_ent ev)); cbn; [intros [H|[]]; auto|tauto]. Qed.

Lemma filter_tid_pushes cfg legacy hnow ev h' L trigs T :
  NoDup (map t_id trigs) -> In T trigs ->
  filter (tid_is (t_id T)) (flat_map (decide_push cfg legacy hnow) (flat_map (pushes_of cfg ev h' L) trigs))
  = flat_map (decide_push cfg legacy hnow) (pushes_of cfg ev h' L T).
Proof.
  induction trigs as [|q r IH]; intros Hnd Hin; [destruct Hin|].
  cbn [flat_map map] in *. rewrite flat_map_app, filter_app. inversion Hnd as [|? ? Hnotin Hnd']; subst.
  destruct Hin as [Heq|Hin].
  - subst q. rewrite filter_dp_all.
    + rewrite filter_dp_none; [apply app_nil_r|].
      intros p Hp. apply in_flat_map in Hp. destruct Hp as [q' [Hq' Hp]]. apply pushes_of_fst in Hp. subst p. cbn [fst].
      intros E. apply Hnotin. rewrite <- E. apply in_map. exact Hq'.
    + intros p Hp. apply pushes_of_fst in Hp. subst p. reflexivity.
  - rewrite filter_dp_none.
    + cbn [app]. apply IH; assumption.
    + intros p Hp. apply pushes_of_fst in Hp. subst p. cbn [fst]. intros E. apply Hnotin. rewrite E. apply in_map. exact Hin.
Qed.

(* the property's verdict on a list of events *)
Definition spec_part (T : trig) (evs : list (event * hass)) : list run :=
  flat_map (fun p => if qualifies T (fst p) (snd p) then [mk_run T (fst p)] else []) evs.

(* one event: the runs of trigger T among everything the event causes *)
Lemma event_runs cfg legacy hnow trigs T ev h' L :
  NoDup (map t_id trigs) -> In T trigs ->
  (forall x v, assoc x L = Some v -> v = hget h' x) ->
  hget h' (ev_ent ev) = ev_new ev ->
  benign cfg legacy T ->
  (d_late_read cfg = false \/ (subscribed (trig_sub_names cfg) T (ev_ent ev) = true -> hnow = h')) ->
  filter (tid_is (t_id T)) (flat_map (decide_push cfg legacy hnow) (flat_map (pushes_of cfg ev h' L) trigs))
  = spec_part T [(ev, h')].
Proof.
  intros Hnd Hin Hlast Hnew Hb Hnow. rewrite (filter_tid_pushes _ _ _ _ _ _ _ _ Hnd Hin).
  unfold spec_part, pushes_of. cbn [flat_map fst snd]. rewrite app_nil_r.
  destruct (subscribed (trig_sub_names cfg) T (ev_ent ev)) eqn:Sb.
  - cbn [flat_map]. rewrite app_nil_r. unfold decide_push. cbn [fst snd it_ev].
    rewrite (decide_ok cfg legacy T ev h' L hnow Hlast Hnew Hb); [reflexivity|].
    destruct Hnow as [H|H]; [left; exact H|right; apply H; reflexivity].
  - cbn [flat_map]. rewrite (unsub_not_qualifies cfg T ev h'); [reflexivity| |exact Sb].
    destruct Hb as [[Hw|[_ Hd]] _]; [left; exact Hw|right; exact Hd].
Qed.

(* ------------------------------------------------------------------------------------------------ *)
(* bursts and histories                                                                               *)
(* ------------------------------------------------------------------------------------------------ *)
(* hass.states after a list of writes *)
Fixpoint ops_h (h : hass) (id : N) (ops : list op) : hass :=
  match ops with
  | [] => h
  | o :: r => ops_h (fst (apply_op h id o)) (N.succ id) r
  end.

Lemma hist_events_app a : forall h id b,
  hist_events h id (a ++ b) = hist_events h id a ++ hist_events (ops_h h id a) (id + N.of_nat (length a)) b.
Proof.
  induction a as [|o r IH]; intros h id b.
  - cbn. rewrite N.add_0_r. reflexivity.
  - cbn [app hist_events ops_h length]. destruct (apply_op h id o) as [h' oev]. cbn [fst].
    replace (id + N.of_nat (S (length r)))%N with (N.succ id + N.of_nat (length r))%N by lia.
    destruct oev; rewrite IH; reflexivity.
Qed.

Lemma spec_part_app T a b : spec_part T (a ++ b) = spec_part T a ++ spec_part T b.
Proof. unfold spec_part. apply flat_map_app. Qed.

(* notify_var_last only has entries for subscribed entities, and they agree with hass.states *)
Definition inv (cfg : sdev) (trigs : list trig) (st : gstate) : Prop :=
  forall x v, assoc x (g_last st) = Some v ->
    notify_has (trig_sub_names cfg) trigs x = true /\ v = hget (g_h st) x.

Lemma inv_init cfg trigs h0 : inv cfg trigs (g_init h0).
Proof. intros x v H. cbn in H. discriminate. Qed.

Lemma inv_step cfg trigs st o h' ev L P :
  inv cfg trigs st ->
  apply_op (g_h st) (g_next st) o = (h', Some ev) ->
  state_update (trig_sub_names cfg) trigs h' (g_last st) ev = (L, P) ->
  inv cfg trigs (mkG h' L (N.succ (g_next st))).
Proof.
  intros Hinv Ap Su. destruct (apply_op_event _ _ _ _ _ Ap) as [_ [Hnew [_ Hoth]]].
  destruct (state_update_spec _ _ _ _ _ _ _ Su) as [_ [[HL Hn]|[HL Hn]]]; subst L; intros x v H; cbn [g_last g_h] in *.
  - destruct (Hinv x v H) as [Hs Hv]. split; [exact Hs|].
    rewrite Hoth; [exact Hv|]. intros E. subst x. congruence.
  - cbn [assoc] in H. destruct (N.eqb x (ev_ent ev)) eqn:E.
    + apply N.eqb_eq in E. subst x. inversion H; subst v. split; [exact Hn|]. symmetry. exact Hnew.
    + apply N.eqb_neq in E. destruct (Hinv x v H) as [Hs Hv]. split; [exact Hs|]. rewrite Hoth; [exact Hv|exact E].
Qed.

(* Generic over the projection of the runs that is observed ([sel]: one decorator, or one function) and the property's
   verdict per event ([spec_ev]); [Hev] is the statement for the queue entries of a single event. *)
Section Proj.
  Variables (cfg : sdev) (legacy : bool) (trigs : list trig) (sel : run -> bool) (spec_ev : event * hass -> list run).
  Hypothesis Hev : forall hnow ev h' L,
    (forall x v, assoc x L = Some v -> v = hget h' x) ->
    hget h' (ev_ent ev) = ev_new ev ->
    (d_late_read cfg = false \/ Forall (fun p => it_hass (snd p) = hnow) (flat_map (pushes_of cfg ev h' L) trigs)) ->
    filter sel (flat_map (decide_push cfg legacy hnow) (flat_map (pushes_of cfg ev h' L) trigs)) = spec_ev (ev, h').

  Lemma burst_gen hnow :
    forall ops st st' pushes,
      inv cfg trigs st ->
      burst_events cfg trigs st ops = (st', pushes) ->
      (d_late_read cfg = false \/ Forall (fun p => it_hass (snd p) = hnow) pushes) ->
      filter sel (flat_map (decide_push cfg legacy hnow) pushes)
        = flat_map spec_ev (hist_events (g_h st) (g_next st) ops)
      /\ inv cfg trigs st'
      /\ g_h st' = ops_h (g_h st) (g_next st) ops
      /\ g_next st' = (g_next st + N.of_nat (length ops))%N.
  Proof.
    induction ops as [|o r IH]; intros st st' pushes Hinv Be Hnow.
    - cbn in Be. inversion Be; subst. cbn. refine (conj eq_refl (conj Hinv (conj eq_refl _))). lia.
    - cbn [burst_events] in Be. cbn [hist_events ops_h length].
      destruct (apply_op (g_h st) (g_next st) o) as [h' oev] eqn:Ap. cbn [fst]. destruct oev as [ev|].
      + destruct (state_update (trig_sub_names cfg) trigs h' (g_last st) ev) as [L P] eqn:Su.
        destruct (burst_events cfg trigs (mkG h' L (N.succ (g_next st))) r) as [st2 more] eqn:Be2.
        inversion Be; subst st' pushes. clear Be.
        pose proof (inv_step _ _ _ _ _ _ _ _ Hinv Ap Su) as Hinv2.
        assert (Hnow2 : d_late_read cfg = false \/ Forall (fun p => it_hass (snd p) = hnow) more).
        { destruct Hnow as [H|H]; [left; exact H|right]. apply Forall_app in H. tauto. }
        destruct (IH _ _ _ Hinv2 Be2 Hnow2) as [Hruns [Hinv' [Hh Hn]]]. cbn [g_h g_next] in *.
        rewrite flat_map_app, filter_app, Hruns.
        destruct (state_update_spec _ _ _ _ _ _ _ Su) as [HP _]. subst P.
        destruct (apply_op_event _ _ _ _ _ Ap) as [_ [Hnew _]].
        cbn [flat_map]. refine (conj _ (conj Hinv' (conj Hh _))); [|lia]. f_equal.
        apply Hev; [intros x v Hx; exact (proj2 (Hinv2 x v Hx))|exact Hnew|].
        destruct Hnow as [H|H]; [left; exact H|right]. apply Forall_app in H. tauto.
      + pose proof (apply_op_noevent _ _ _ _ Ap) as E. subst h'.
        assert (Hinv2 : inv cfg trigs (mkG (g_h st) (g_last st) (N.succ (g_next st)))) by exact Hinv.
        destruct (IH _ _ _ Hinv2 Be Hnow) as [Hruns [Hinv' [Hh Hn]]]. cbn [g_h g_next] in *.
        refine (conj Hruns (conj Hinv' (conj Hh _))). lia.
  Qed.
End Proj.

(* a burst of at most one write: the trigger tasks run before anything else changes *)
Lemma settled_pushes cfg trigs b st st' pushes :
  (length b <= 1)%nat -> burst_events cfg trigs st b = (st', pushes) ->
  Forall (fun p => it_hass (snd p) = g_h st') pushes.
Proof.
  intros Hlen Be. destruct b as [|o [|o2 r]]; [| |cbn in Hlen; lia].
  - cbn in Be. inversion Be. constructor.
  - cbn [burst_events] in Be. destruct (apply_op (g_h st) (g_next st) o) as [h' oev]. destruct oev as [ev|].
    + destruct (state_update (trig_sub_names cfg) trigs h' (g_last st) ev) as [L P] eqn:Su.
      inversion Be; subst. cbn [g_h]. rewrite app_nil_r.
      destruct (state_update_spec _ _ _ _ _ _ _ Su) as [HP _]. subst P.
      apply Forall_forall. intros p Hp. apply in_flat_map in Hp. destruct Hp as [q [_ Hp]].
      apply pushes_of_fst in Hp. subst p. reflexivity.
    + inversion Be. constructor.
Qed.

(* ------------------------------------------------------------------------------------------------ *)
(* run order inside a burst: grouping by trigger does not change any single trigger's runs            *)
(* ------------------------------------------------------------------------------------------------ *)
Definition push_is (tid : N) (p : trig * item) : bool := N.eqb (t_id (fst p)) tid.

Lemma filter_flat_map_dp cfg legacy hnow tid l :
  filter (tid_is tid) (flat_map (decide_push cfg legacy hnow) l)
  = flat_map (decide_push cfg legacy hnow) (filter (push_is tid) l).
Proof.
  induction l as [|p r IH]; cbn [flat_map filter]; [reflexivity|].
  rewrite filter_app, IH. destruct (push_is tid p) eqn:E; unfold push_is in E.
  - cbn [flat_map]. f_equal. apply filter_all. intros x Hx. unfold tid_is.
    rewrite (decide_push_tid _ _ _ _ _ Hx). exact E.
  - rewrite filter_none; [reflexivity|]. intros x Hx. unfold tid_is. rewrite (decide_push_tid _ _ _ _ _ Hx). exact E.
Qed.

Lemma flat_map_filter_neq {B} (F : N -> list B) x l :
  F x = [] -> flat_map F (filter (fun y => negb (N.eqb y x)) l) = flat_map F l.
Proof.
  intros Hx. induction l as [|y r IH]; cbn [filter flat_map]; [reflexivity|].
  destruct (N.eqb y x) eqn:E; cbn [negb flat_map].
  - apply N.eqb_eq in E. subst y. rewrite Hx. exact IH.
  - rewrite IH. reflexivity.
Qed.

Lemma flat_map_filter_self {B} (X : list B) tid l :
  flat_map (fun t => if N.eqb t tid then X else []) (filter (fun y => negb (N.eqb y tid)) l) = [].
Proof.
  induction l as [|y l' IHl]; cbn [filter flat_map]; [reflexivity|].
  destruct (N.eqb y tid) eqn:E2; cbn [negb flat_map]; [exact IHl|]. rewrite E2. exact IHl.
Qed.

Lemma flat_map_dedup_single {B} (X : list B) tid l :
  flat_map (fun t => if N.eqb t tid then X else []) (dedup l) = if existsb (fun t => N.eqb t tid) l then X else [].
Proof.
  induction l as [|x r IH]; cbn [dedup flat_map existsb]; [reflexivity|].
  destruct (N.eqb x tid) eqn:E; cbn [orb].
  - apply N.eqb_eq in E. subst x. rewrite flat_map_filter_self. apply app_nil_r.
  - rewrite flat_map_filter_neq; [exact IH|]. rewrite E. reflexivity.
Qed.

Lemma burst_runs_proj cfg legacy hnow pushes tid :
  filter (tid_is tid) (burst_runs cfg legacy hnow pushes)
  = filter (tid_is tid) (flat_map (decide_push cfg legacy hnow) pushes).
Proof.
  unfold burst_runs. destruct (d_grouped_order cfg); [|reflexivity].
  set (dp := decide_push cfg legacy hnow).
  set (G := fun t => flat_map dp (filter (fun p => N.eqb (t_id (fst p)) t) pushes)).
  assert (Hg : forall l, filter (tid_is tid) (flat_map G l) = flat_map (fun t => if N.eqb t tid then G tid else []) l).
  { induction l as [|t r IH]; cbn [flat_map]; [reflexivity|]. rewrite filter_app, IH. f_equal.
    destruct (N.eqb t tid) eqn:E.
    - apply N.eqb_eq in E. subst t. unfold G, dp. apply filter_dp_all.
      intros p Hp. apply filter_In in Hp. destruct Hp as [_ Hp]. apply N.eqb_eq in Hp. exact Hp.
    - unfold G, dp. apply filter_dp_none. intros p Hp. apply filter_In in Hp. destruct Hp as [_ Hp].
      apply N.eqb_eq in Hp. rewrite Hp. apply N.eqb_neq. exact E. }
  change (filter (tid_is tid) (flat_map G (dedup (map (fun p => t_id (fst p)) pushes)))
          = filter (tid_is tid) (flat_map dp pushes)).
  rewrite Hg, flat_map_dedup_single. unfold dp. rewrite filter_flat_map_dp.
  change (flat_map (decide_push cfg legacy hnow) (filter (push_is tid) pushes)) with (G tid).
  destruct (existsb (fun t => N.eqb t tid) (map (fun p => t_id (fst p)) pushes)) eqn:Ex; [reflexivity|].
  unfold G. rewrite filter_none; [reflexivity|]. intros p Hp.
  destruct (N.eqb (t_id (fst p)) tid) eqn:E; [|reflexivity].
  assert (existsb (fun t => N.eqb t tid) (map (fun p => t_id (fst p)) pushes) = true) as Hx.
  { apply existsb_exists. exists (t_id (fst p)).
    split; [exact (in_map (fun p0 : trig * item => t_id (fst p0)) pushes p Hp)|exact E]. }
  congruence.
Qed.

(* ------------------------------------------------------------------------------------------------ *)
(* the history theorem                                                                                *)
(* ------------------------------------------------------------------------------------------------ *)
Definition settled (hist : list (list op)) : Prop := Forall (fun b => (length b <= 1)%nat) hist.

Section ProjHist.
  Variables (cfg : sdev) (s : sys) (sel : run -> bool) (spec_ev : event * hass -> list run).
  Hypothesis Hev : forall hnow ev h' L,
    (forall x v, assoc x L = Some v -> v = hget h' x) ->
    hget h' (ev_ent ev) = ev_new ev ->
    (d_late_read cfg = false \/ Forall (fun p => it_hass (snd p) = hnow) (flat_map (pushes_of cfg ev h' L) (s_trigs s))) ->
    filter sel (flat_map (decide_push cfg (s_legacy s) hnow) (flat_map (pushes_of cfg ev h' L) (s_trigs s))) = spec_ev (ev, h').
  (* the order in which a burst's runs start does not matter for this projection *)
  Hypothesis Hproj : forall hnow pushes,
    filter sel (burst_runs cfg (s_legacy s) hnow pushes) = filter sel (flat_map (decide_push cfg (s_legacy s) hnow) pushes).

  Lemma bursts_gen :
    forall hist st,
      inv cfg (s_trigs s) st ->
      (d_late_read cfg = false \/ settled hist) ->
      filter sel (run_bursts cfg s st hist) = flat_map spec_ev (hist_events (g_h st) (g_next st) (concat hist)).
  Proof.
    induction hist as [|b r IH]; intros st Hinv Hs; [reflexivity|].
    cbn [run_bursts concat]. destruct (burst_events cfg (s_trigs s) st b) as [st' pushes] eqn:Be.
    rewrite filter_app, Hproj, hist_events_app, flat_map_app.
    assert (Hnow : d_late_read cfg = false \/ Forall (fun p => it_hass (snd p) = g_h st') pushes).
    { destruct Hs as [H|H]; [left; exact H|right]. inversion H; subst. eapply settled_pushes; eassumption. }
    destruct (burst_gen cfg (s_legacy s) (s_trigs s) sel spec_ev Hev (g_h st') b st st' pushes Hinv Be Hnow)
      as [Hruns [Hinv' [Hh Hn]]].
    rewrite Hruns. f_equal. rewrite <- Hh, <- Hn. apply IH; [exact Hinv'|].
    destruct Hs as [H|H]; [left; exact H|right; inversion H; assumption].
  Qed.
End ProjHist.

Theorem trig_runs_general cfg s T h0 hist :
  NoDup (map t_id (s_trigs s)) -> In T (s_trigs s) -> benign cfg (s_legacy s) T ->
  (d_late_read cfg = false \/ settled hist) ->
  trig_runs cfg s (t_id T) h0 hist = spec_trig_runs T h0 hist.
Proof.
  intros Hnd Hin Hb Hs. unfold trig_runs, run_history, spec_trig_runs.
  apply (bursts_gen cfg s (tid_is (t_id T)) (fun p => if qualifies T (fst p) (snd p) then [mk_run T (fst p)] else [])).
  - intros hnow ev h' L Hlast Hnew Hnow.
    rewrite (event_runs cfg (s_legacy s) hnow (s_trigs s) T ev h' L Hnd Hin Hlast Hnew Hb).
    + unfold spec_part. cbn [flat_map]. apply app_nil_r.
    + destruct Hnow as [H|H]; [left; exact H|right]. intros Sb. rewrite Forall_forall in H. symmetry.
      apply (H (T, mkItem ev h' L)). apply in_flat_map. exists T. split; [exact Hin|].
      unfold pushes_of. rewrite Sb. left. reflexivity.
  - intros hnow pushes. apply burst_runs_proj.
  - apply inv_init.
  - exact Hs.
Qed.

(* C04, first sentence, for conformant code (all switches off), both subsystems, every configuration and history *)
Theorem trig_runs_spec s T h0 hist :
  NoDup (map t_id (s_trigs s)) -> In T (s_trigs s) ->
  trig_runs sdev_off s (t_id T) h0 hist = spec_trig_runs T h0 hist.
Proof.
  intros Hnd Hin. apply trig_runs_general; [exact Hnd|exact Hin|apply benign_off|left; reflexivity].
Qed.

(* what holds of the code as it is today (every switch on): a decorator without watch= and without a "d.e.old" any-change
   form, over a history whose writes are settled one at a time, runs for exactly the qualifying events *)
Theorem trig_runs_code_settled s T h0 hist :
  NoDup (map t_id (s_trigs s)) -> In T (s_trigs s) ->
  t_watch T = None -> no_aold T -> settled hist ->
  trig_runs sdev_code s (t_id T) h0 hist = spec_trig_runs T h0 hist.
Proof.
  intros Hnd Hin Hw Hno Hs. apply trig_runs_general; [exact Hnd|exact Hin| |right; exact Hs].
  split; [left; exact Hw|right; right; split; assumption].
Qed.

(* ------------------------------------------------------------------------------------------------ *)
(* runs of a function                                                                                 *)
(* ------------------------------------------------------------------------------------------------ *)
Definition fn_is (fn : N) (r : run) : bool := N.eqb (r_fn r) fn.
Definition fn_spec_ev (s : sys) (fn : N) (p : event * hass) : list run :=
  flat_map (fun T => if N.eqb (t_fn T) fn && qualifies T (fst p) (snd p) then [mk_run T (fst p)] else []) (s_trigs s).

Lemma event_fn_runs cfg legacy hnow fn ev h' L :
  (forall x v, assoc x L = Some v -> v = hget h' x) ->
  hget h' (ev_ent ev) = ev_new ev ->
  forall l,
    (forall T, In T l -> benign cfg legacy T) ->
    (d_late_read cfg = false \/ Forall (fun p => it_hass (snd p) = hnow) (flat_map (pushes_of cfg ev h' L) l)) ->
    filter (fn_is fn) (flat_map (decide_push cfg legacy hnow) (flat_map (pushes_of cfg ev h' L) l))
    = flat_map (fun T => if N.eqb (t_fn T) fn && qualifies T ev h' then [mk_run T ev] else []) l.
Proof.
  intros Hlast Hnew. induction l as [|T r IH]; intros Hb Hnow; [reflexivity|].
  cbn [flat_map]. rewrite flat_map_app, filter_app. f_equal.
  - unfold pushes_of. destruct (subscribed (trig_sub_names cfg) T (ev_ent ev)) eqn:Sb.
    + cbn [flat_map]. rewrite app_nil_r. unfold decide_push. cbn [fst snd it_ev].
      rewrite (decide_ok cfg legacy T ev h' L hnow Hlast Hnew (Hb T (or_introl eq_refl))).
      * destruct (qualifies T ev h'); cbn [filter]; [|rewrite andb_false_r; reflexivity].
        unfold fn_is. cbn [r_fn mk_run]. rewrite andb_true_r. destruct (N.eqb (t_fn T) fn); reflexivity.
      * destruct Hnow as [H|H]; [left; exact H|right]. cbn [flat_map] in H. apply Forall_app in H. destruct H as [H _].
        unfold pushes_of in H. rewrite Sb in H. inversion H; subst. cbn in *. congruence.
    + cbn [flat_map filter]. rewrite (unsub_not_qualifies cfg T ev h'); [rewrite andb_false_r; reflexivity| |exact Sb].
      destruct (Hb T (or_introl eq_refl)) as [[Hw|[_ Hd]] _]; [left; exact Hw|right; exact Hd].
  - apply IH; [intros T' HT'; apply Hb; right; exact HT'|].
    destruct Hnow as [H|H]; [left; exact H|right]. cbn [flat_map] in H. apply Forall_app in H. tauto.
Qed.

Theorem fn_runs_general cfg s fn h0 hist :
  (forall T, In T (s_trigs s) -> benign cfg (s_legacy s) T) ->
  d_grouped_order cfg = false ->
  (d_late_read cfg = false \/ settled hist) ->
  fn_runs cfg s fn h0 hist = spec_fn_runs s fn h0 hist.
Proof.
  intros Hb Hg Hs. unfold fn_runs, run_history, spec_fn_runs.
  apply (bursts_gen cfg s (fn_is fn) (fn_spec_ev s fn)).
  - intros hnow ev h' L Hlast Hnew Hnow. exact (event_fn_runs cfg (s_legacy s) hnow fn ev h' L Hlast Hnew (s_trigs s) Hb Hnow).
  - intros hnow pushes. unfold burst_runs. rewrite Hg. reflexivity.
  - apply inv_init.
  - exact Hs.
Qed.

(* C04, second sentence (order): for conformant code the runs of a function are, event by event in history order, the
   runs of its qualifying decorators *)
Theorem fn_runs_spec s fn h0 hist : fn_runs sdev_off s fn h0 hist = spec_fn_runs s fn h0 hist.
Proof. apply fn_runs_general; [intros T _; apply benign_off|reflexivity|left; reflexivity]. Qed.

(* ------------------------------------------------------------------------------------------------ *)
(* order, no loss, no duplication                                                                     *)
(* ------------------------------------------------------------------------------------------------ *)
Definition evid (p : event * hass) : N := ev_id (fst p).

Lemma hist_events_ids : forall ops h id,
  Forall (fun p => (id <= evid p)%N) (hist_events h id ops)
  /\ StronglySorted N.lt (map evid (hist_events h id ops)).
Proof.
  induction ops as [|o r IH]; intros h id; cbn [hist_events]; [split; constructor|].
  destruct (apply_op h id o) as [h' oev] eqn:Ap. destruct (IH h' (N.succ id)) as [Hge Hs].
  assert (Hge' : Forall (fun p => (id < evid p)%N) (hist_events h' (N.succ id) r)).
  { eapply Forall_impl; [|exact Hge]. cbn. intros p Hp. lia. }
  destruct oev as [ev|].
  - destruct (apply_op_event _ _ _ _ _ Ap) as [Hid _]. split.
    + constructor; [unfold evid; cbn; lia|]. eapply Forall_impl; [|exact Hge']. cbn. intros p Hp. lia.
    + cbn [map]. constructor; [exact Hs|]. apply Forall_map. unfold evid at 1. cbn [fst]. rewrite Hid. exact Hge'.
  - split; [|exact Hs]. eapply Forall_impl; [|exact Hge']. cbn. intros p Hp. lia.
Qed.

Lemma sorted_map_filter {A} (f : A -> N) (g : A -> bool) l :
  StronglySorted N.lt (map f l) -> StronglySorted N.lt (map f (filter g l)).
Proof.
  induction l as [|a r IH]; cbn; intros H; [constructor|]. inversion H as [|? ? Hs Hf]; subst.
  destruct (g a); [|apply IH; exact Hs]. cbn [map]. constructor; [apply IH; exact Hs|].
  apply Forall_map. apply Forall_forall. intros x Hx. apply filter_In in Hx. destruct Hx as [Hx _].
  rewrite Forall_map, Forall_forall in Hf. apply Hf. exact Hx.
Qed.

Lemma spec_part_ids T evs :
  map r_ev (spec_part T evs) = map evid (filter (fun p => qualifies T (fst p) (snd p)) evs).
Proof.
  induction evs as [|p r IH]; cbn [spec_part flat_map filter]; [reflexivity|].
  rewrite map_app. fold (spec_part T r). rewrite IH. destruct (qualifies T (fst p) (snd p)); reflexivity.
Qed.

(* exactly one run per qualifying event: the event numbers of a decorator's runs are the qualifying events of the
   history, in history order, each once *)
Theorem spec_trig_runs_ids T h0 hist :
  map r_ev (spec_trig_runs T h0 hist)
  = map evid (filter (fun p => qualifies T (fst p) (snd p)) (hist_events h0 1 (concat hist))).
Proof. unfold spec_trig_runs. apply (spec_part_ids T). Qed.

Theorem spec_trig_runs_sorted T h0 hist : StronglySorted N.lt (map r_ev (spec_trig_runs T h0 hist)).
Proof.
  rewrite spec_trig_runs_ids. apply sorted_map_filter. apply (proj2 (hist_events_ids (concat hist) h0 1%N)).
Qed.

(* the runs of one decorator start in event order, none lost, none duplicated - also in bursts *)
Theorem trig_runs_sorted s T h0 hist :
  NoDup (map t_id (s_trigs s)) -> In T (s_trigs s) ->
  StronglySorted N.lt (map r_ev (trig_runs sdev_off s (t_id T) h0 hist)).
Proof. intros Hnd Hin. rewrite (trig_runs_spec s T h0 hist Hnd Hin). apply spec_trig_runs_sorted. Qed.

Lemma sorted_le_app_const l1 : forall l2 c,
  (forall x, In x l1 -> x = c) -> Forall (N.le c) l2 -> StronglySorted N.le l2 -> StronglySorted N.le (l1 ++ l2).
Proof.
  induction l1 as [|a r IH]; intros l2 c Hc Hle Hs; cbn [app]; [exact Hs|].
  constructor; [apply (IH l2 c); [intros x Hx; apply Hc; right; exact Hx|exact Hle|exact Hs]|].
  rewrite (Hc a (or_introl eq_refl)). apply Forall_app. split.
  - apply Forall_forall. intros x Hx. rewrite (Hc x (or_intror Hx)). lia.
  - exact Hle.
Qed.

Lemma fn_spec_ev_ids s fn p x : In x (map r_ev (fn_spec_ev s fn p)) -> x = evid p.
Proof.
  intros Hx. apply in_map_iff in Hx. destruct Hx as [r [Hr Hin]]. subst x. unfold fn_spec_ev in Hin.
  apply in_flat_map in Hin. destruct Hin as [T [_ Hin]].
  destruct (N.eqb (t_fn T) fn && qualifies T (fst p) (snd p)); [|destruct Hin].
  destruct Hin as [H|[]]. subst r. reflexivity.
Qed.

Lemma fn_spec_sorted s fn evs :
  StronglySorted N.lt (map evid evs) ->
  StronglySorted N.le (map r_ev (flat_map (fn_spec_ev s fn) evs))
  /\ forall c, Forall (fun p => (c <= evid p)%N) evs -> Forall (N.le c) (map r_ev (flat_map (fn_spec_ev s fn) evs)).
Proof.
  induction evs as [|p r IH]; intros Hs; cbn [flat_map map]; [split; [constructor|intros; constructor]|].
  cbn [map] in Hs. inversion Hs as [|? ? Hs' Hf]; subst. destruct (IH Hs') as [IHs IHf]. rewrite map_app. split.
  - apply (sorted_le_app_const _ _ (evid p)); [apply fn_spec_ev_ids| |exact IHs].
    apply IHf. rewrite Forall_map in Hf. eapply Forall_impl; [|exact Hf]. cbn. intros q Hq. lia.
  - intros c Hc. inversion Hc as [|? ? Hcp Hcr]; subst. apply Forall_app. split; [|apply IHf; exact Hcr].
    apply Forall_forall. intros x Hx. rewrite (fn_spec_ev_ids s fn p x Hx). exact Hcp.
Qed.

(* the runs of one function start in event order *)
Theorem fn_runs_sorted s fn h0 hist : StronglySorted N.le (map r_ev (fn_runs sdev_off s fn h0 hist)).
Proof.
  rewrite fn_runs_spec. unfold spec_fn_runs.
  apply (proj1 (fn_spec_sorted s fn _ (proj2 (hist_events_ids (concat hist) h0 1%N)))).
Qed.

(* ------------------------------------------------------------------------------------------------ *)
(* keyword arguments                                                                                  *)
(* ------------------------------------------------------------------------------------------------ *)
Lemma assoc_app {B} k (a b : list (N * B)) :
  assoc k (a ++ b) = match assoc k a with Some v => Some v | None => assoc k b end.
Proof.
  induction a as [|[k' v] r IH]; cbn [app assoc]; [reflexivity|]. destruct (N.eqb k k'); [reflexivity|exact IH].
Qed.

Lemma assoc_filter_other {B} k (f : N * B -> bool) (l : list (N * B)) :
  (forall p, fst p = k -> f p = true) -> assoc k (filter f l) = assoc k l.
Proof.
  intros Hf. induction l as [|[k' v] r IH]; cbn [filter assoc]; [reflexivity|].
  destruct (N.eqb k k') eqn:E.
  - apply N.eqb_eq in E. subst k'. rewrite (Hf (k, v) eq_refl). cbn [assoc]. rewrite N.eqb_refl. reflexivity.
  - destruct (f (k', v)); [cbn [assoc]; rewrite E|]; exact IH.
Qed.

Lemma assoc_none_not_key {B} k (l : list (N * B)) : assoc k l = None -> existsb (N.eqb k) (map fst l) = false.
Proof.
  induction l as [|[k' v] r IH]; cbn [assoc map existsb fst]; [reflexivity|].
  destruct (N.eqb k k'); [discriminate|]. exact IH.
Qed.

(* func_args.update(kwargs): the decorator's kwargs win, every other key keeps the event's value *)
Theorem merge_kw_lookup std user k :
  assoc k (merge_kw std user) = match assoc k user with Some u => Some u | None => assoc k std end.
Proof.
  unfold merge_kw. rewrite assoc_app.
  assert (Hm : assoc k (map (fun p => (fst p, match assoc (fst p) user with Some u => u | None => snd p end)) std)
               = match assoc k std with Some v => Some (match assoc k user with Some u => u | None => v end) | None => None end).
  { induction std as [|[k' v] r IH]; cbn [map assoc fst snd]; [reflexivity|].
    destruct (N.eqb k k') eqn:E; [apply N.eqb_eq in E; subst k'; reflexivity|exact IH]. }
  rewrite Hm. destruct (assoc k std) as [v|] eqn:A.
  - destruct (assoc k user); reflexivity.
  - rewrite assoc_filter_other; [destruct (assoc k user); reflexivity|].
    intros p Hp. rewrite Hp. rewrite (assoc_none_not_key k std A). reflexivity.
Qed.

Theorem run_kwargs T ev k :
  assoc k (r_kw (mk_run T ev)) = match assoc k (t_kwargs T) with Some u => Some u | None => assoc k (std_kw ev) end.
Proof. cbn [mk_run r_kw]. apply merge_kw_lookup. Qed.

(* the event's own trigger_type, var_name, value, old_value and context (keys read from state_changed by the translator) *)
Theorem std_kw_values ev :
  assoc key_trigger_type (std_kw ev) = Some KTypeState
  /\ assoc key_var_name (std_kw ev) = Some (KEnt (ev_ent ev))
  /\ assoc key_value (std_kw ev) = Some (match ev_new ev with Some s => KSv s | None => KNone end)
  /\ assoc key_old_value (std_kw ev) = Some (match ev_old ev with Some s => KSv s | None => KNone end)
  /\ assoc key_context (std_kw ev) = Some (KCtx (ev_id ev)).
Proof. repeat split; reflexivity. Qed.

(* every run of a decorator is the run of one qualifying event of the history and carries that event's arguments *)
Theorem trig_runs_kwargs s T h0 hist r :
  NoDup (map t_id (s_trigs s)) -> In T (s_trigs s) ->
  In r (trig_runs sdev_off s (t_id T) h0 hist) ->
  exists ev S, In (ev, S) (hist_events h0 1 (concat hist)) /\ qualifies T ev S = true /\ r = mk_run T ev.
Proof.
  intros Hnd Hin Hr. rewrite (trig_runs_spec s T h0 hist Hnd Hin) in Hr. unfold spec_trig_runs in Hr.
  apply in_flat_map in Hr. destruct Hr as [[ev S] [Hp Hr]]. cbn [fst snd] in Hr.
  destruct (qualifies T ev S) eqn:Q; [|destruct Hr]. destruct Hr as [Hr|[]].
  exists ev, S. repeat split; [exact Hp|exact Q|symmetry; exact Hr].
Qed.

(* ------------------------------------------------------------------------------------------------ *)
(* the deviations of today's code refute the property: one witness each (replayed on the real code    *)
(* by the check on every run, see known_findings.d/C04.json)                                          *)
(* ------------------------------------------------------------------------------------------------ *)
Local Open Scope N_scope.
Definition only_D40 := {| d_late_read := true; d_undef_raises := false; d_noexpr_runs := false; d_grouped_order := false; d_watch_hides_any := false |}.
Definition only_D41 := {| d_late_read := false; d_undef_raises := true; d_noexpr_runs := false; d_grouped_order := false; d_watch_hides_any := false |}.
Definition only_D42 := {| d_late_read := false; d_undef_raises := false; d_noexpr_runs := true; d_grouped_order := false; d_watch_hides_any := false |}.
Definition only_D43 := {| d_late_read := false; d_undef_raises := false; d_noexpr_runs := false; d_grouped_order := true; d_watch_hides_any := false |}.
Definition only_D44 := {| d_late_read := false; d_undef_raises := false; d_noexpr_runs := false; d_grouped_order := false; d_watch_hides_any := true |}.

Definition mkT (id fn : N) (args : list arg) (w : option (list name)) : trig :=
  {| t_id := id; t_fn := fn; t_args := args; t_watch := w; t_kwargs := [] |}.

(* D40: e1 exists before the trigger starts; burst e0 := s1, e1 := s1.  At the first event e1 is still s0. *)
Definition w40_T := mkT 0 0 [AExpr (BAnd (BEqC (TVal 0) (CStr 1)) (BEqC (TVal 1) (CStr 0)))] None.
Theorem refuted_D40 : exists s T h0 hist,
  NoDup (map t_id (s_trigs s)) /\ In T (s_trigs s) /\ trig_runs only_D40 s (t_id T) h0 hist <> spec_trig_runs T h0 hist.
Proof.
  exists {| s_legacy := true; s_trigs := [w40_T] |}, w40_T, [(1%N, mkSv 0 [])], [[OSet 0 1 []; OSet 1 1 []]].
  split; [repeat constructor; intros []|]. split; [left; reflexivity|]. intros H. vm_compute in H. discriminate H.
Qed.

(* D41: watch=[e0], expression e1 == None, e1 undefined *)
Definition w41_T := mkT 0 0 [AExpr (BEqC (TVal 1) CNone)] (Some [NEnt 0]).
Theorem refuted_D41 : exists s T h0 hist,
  NoDup (map t_id (s_trigs s)) /\ In T (s_trigs s) /\ trig_runs only_D41 s (t_id T) h0 hist <> spec_trig_runs T h0 hist.
Proof.
  exists {| s_legacy := true; s_trigs := [w41_T] |}, w41_T, [], [[OSet 0 1 []]].
  split; [repeat constructor; intros []|]. split; [left; reflexivity|]. intros H. vm_compute in H. discriminate H.
Qed.

(* D42: default subsystem, only the any-change form "e0.x0", watch={e0}: a value change runs the function *)
Definition w42_T := mkT 0 0 [AExpr (BTruthy (TAttr 0 0))] (Some [NEnt 0]).
Theorem refuted_D42 : exists s T h0 hist,
  NoDup (map t_id (s_trigs s)) /\ In T (s_trigs s) /\ trig_runs only_D42 s (t_id T) h0 hist <> spec_trig_runs T h0 hist.
Proof.
  exists {| s_legacy := false; s_trigs := [w42_T] |}, w42_T, [], [[OSet 0 0 []]].
  split; [repeat constructor; intros []|]. split; [left; reflexivity|]. intros H. vm_compute in H. discriminate H.
Qed.

(* D43: two decorators on one function, burst e0, e1, e0: the runs start as events 1, 3, 2 *)
Definition w43_s := {| s_legacy := true; s_trigs := [mkT 0 0 [AExpr (BTruthy (TVal 0))] None; mkT 1 0 [AExpr (BTruthy (TVal 1))] None] |}.
Theorem refuted_D43 : exists s fn h0 hist,
  NoDup (map t_id (s_trigs s)) /\ fn_runs only_D43 s fn h0 hist <> spec_fn_runs s fn h0 hist
  /\ ~ StronglySorted N.le (map r_ev (fn_runs only_D43 s fn h0 hist)).
Proof.
  exists w43_s, 0%N, [], [[OSet 0 0 []; OSet 1 0 []; OSet 0 1 []]].
  split; [repeat constructor; cbn; intuition discriminate|]. split.
  - intros H. vm_compute in H. discriminate H.
  - intros H.
    assert (E : map r_ev (fn_runs only_D43 w43_s 0 [] [[OSet 0 0 []; OSet 1 0 []; OSet 0 1 []]]) = [1; 3; 2]) by (vm_compute; reflexivity).
    rewrite E in H. inversion H as [|? ? Hs _]; subst. inversion Hs as [|? ? _ Hf]; subst.
    inversion Hf as [|? ? Hle _]; subst. lia.
Qed.

(* D44: any-change form "e1" with watch=[e0] *)
Definition w44_T := mkT 0 0 [AExpr (BTruthy (TVal 1))] (Some [NEnt 0]).
Theorem refuted_D44 : exists s T h0 hist,
  NoDup (map t_id (s_trigs s)) /\ In T (s_trigs s) /\ trig_runs only_D44 s (t_id T) h0 hist <> spec_trig_runs T h0 hist.
Proof.
  exists {| s_legacy := true; s_trigs := [w44_T] |}, w44_T, [], [[OSet 1 1 []]].
  split; [repeat constructor; intros []|]. split; [left; reflexivity|]. intros H. vm_compute in H. discriminate H.
Qed.

(* ------------------------------------------------------------------------------------------------ *)
(* the hypotheses are inhabited by non-trivial instances                                              *)
(* ------------------------------------------------------------------------------------------------ *)
Definition ex_T0 := mkT 0 0 [AExpr (BAnd (BEqC (TVal 0) (CStr 1)) (BNeT (TVal 0) (TOld 0))); AStarArg 1] None.
Definition ex_T1 := {| t_id := 1; t_fn := 0; t_args := [AExpr (BEqC (TAttr 1 0) (CInt 2))]; t_watch := Some [NAttr 1 0; NEnt 0];
                       t_kwargs := [(key_var_name, KInt 7); (5%N, KInt 1)] |}.
Definition ex_sys := {| s_legacy := false; s_trigs := [ex_T0; ex_T1] |}.
Definition ex_hist : list (list op) :=
  [[OSet 0 1 []]; [OSet 1 0 [(0%N, 2%N)]; OSet 0 1 [(1%N, 1%N)]; OSet 1 0 []]; [ODel 0; OSet 0 1 []]].

Example ex_nodup : NoDup (map t_id (s_trigs ex_sys)).
Proof. repeat constructor; cbn; intuition discriminate. Qed.

(* a history with bursts, deletes and attribute-only updates on which both decorators run and skip events *)
Example ex_runs_nontrivial :
  map r_ev (trig_runs sdev_off ex_sys 0 [] ex_hist) = [1; 2; 4; 6]%N
  /\ map r_ev (trig_runs sdev_off ex_sys 1 [] ex_hist) = [2]%N
  /\ map r_ev (fn_runs sdev_off ex_sys 0 [] ex_hist) = [1; 2; 2; 4; 6]%N.
Proof. vm_compute. repeat split. Qed.

Example ex_benign_code_settled :
  benign sdev_code (s_legacy ex_sys) ex_T0 /\ t_watch ex_T0 = None /\ no_aold ex_T0
  /\ settled [[OSet 0 1 []]; [OSet 1 0 [(0%N, 2%N)]]; []; [ODel 0]].
Proof.
  assert (Hno : no_aold ex_T0). { intros e H. vm_compute in H. intuition discriminate. }
  split; [split; [left; reflexivity|right; right; split; [reflexivity|exact Hno]]|].
  split; [reflexivity|]. split; [exact Hno|]. repeat constructor.
Qed.

(* ------------------------------------------------------------------------------------------------ *)
(* the correspondence check and the theorems: an observation that the conformant Model reproduces     *)
(* satisfies the Spec side of the check                                                               *)
(* ------------------------------------------------------------------------------------------------ *)
Definition case_wf (c : scase) : Prop :=
  NoDup (map t_id (sc_trigs c)) /\ forall T, In T (sc_trigs c) -> assoc key_context (t_kwargs T) = None.

Lemma assoc_some_in_keys {B} k (l : list (N * B)) v : assoc k l = Some v -> In k (map fst l).
Proof.
  induction l as [|[k' w] r IH]; cbn [assoc map fst]; [discriminate|].
  destruct (N.eqb k k') eqn:E; [apply N.eqb_eq in E; subst; left; reflexivity|intros H; right; apply IH; exact H].
Qed.

Lemma kw_eqb_ctx a b n : kw_eqb a b = true -> assoc key_context a = Some (KCtx n) -> assoc key_context b = Some (KCtx n).
Proof.
  intros H Ha. unfold kw_eqb in H. rewrite forallb_forall in H.
  specialize (H key_context (in_or_app _ _ _ (or_introl (assoc_some_in_keys _ _ _ Ha)))). rewrite Ha in H.
  destruct (assoc key_context b) as [v|]; [|discriminate]. cbn in H.
  destruct v; try discriminate. apply N.eqb_eq in H. subst. reflexivity.
Qed.

Lemma runs_match_evids ms : forall os,
  (forall m, In m ms -> assoc key_context (r_kw m) = Some (KCtx (r_ev m))) ->
  runs_match ms os = true -> map o_evid os = map r_ev ms.
Proof.
  induction ms as [|m r IH]; intros [|o os] Hm H; cbn [runs_match] in H; try discriminate; [reflexivity|].
  apply andb_true_iff in H. destruct H as [H1 H2]. cbn [map]. f_equal.
  - unfold run_matches in H1. apply andb_true_iff in H1. destruct H1 as [H1 _].
    apply andb_true_iff in H1. destruct H1 as [_ Hk].
    unfold o_evid. rewrite (kw_eqb_ctx _ _ _ Hk (Hm m (or_introl eq_refl))). reflexivity.
  - apply IH; [intros m' Hm'; apply Hm; right; exact Hm'|exact H2].
Qed.

Lemma sorted_nondecreasing l : StronglySorted N.le l -> nondecreasing l = true.
Proof.
  induction l as [|x r IH]; intros H; [reflexivity|]. inversion H as [|? ? Hs Hf]; subst.
  destruct r as [|y r']; [reflexivity|]. cbn [nondecreasing]. inversion Hf; subst.
  apply andb_true_iff. split; [apply N.leb_le; assumption|apply IH; exact Hs].
Qed.

Lemma mk_run_ctx T ev : assoc key_context (t_kwargs T) = None -> assoc key_context (r_kw (mk_run T ev)) = Some (KCtx (r_ev (mk_run T ev))).
Proof. intros H. rewrite run_kwargs, H. reflexivity. Qed.

Theorem scase_model_implies_spec c : case_wf c -> scase_model_ok sdev_off c = true -> scase_spec_ok c = true.
Proof.
  intros [Hnd Hctx] H. unfold scase_model_ok in H. unfold scase_spec_ok.
  apply andb_true_iff in H. destruct H as [H Hf]. apply andb_true_iff in H. destruct H as [H Ht].
  apply andb_true_iff in H. destruct H as [Hc Ha]. rewrite Hc, Ha. cbn [andb]. apply andb_true_iff.
  rewrite forallb_forall in Ht. rewrite forallb_forall in Hf.
  split; apply forallb_forall; [intros T HT; specialize (Ht T HT)|intros f Hfn; specialize (Hf f Hfn)].
  - rewrite <- (trig_runs_spec (case_sys c) T (sc_init c) (sc_hist c) Hnd HT). exact Ht.
  - change (filter (fun r => N.eqb (r_fn r) f) (run_history sdev_off (case_sys c) (sc_init c) (sc_hist c)))
      with (fn_runs sdev_off (case_sys c) f (sc_init c) (sc_hist c)) in Hf.
    rewrite (runs_match_evids (fn_runs sdev_off (case_sys c) f (sc_init c) (sc_hist c)) _); [| |exact Hf].
    + apply sorted_nondecreasing. apply fn_runs_sorted.
    + intros m Hm. rewrite fn_runs_spec in Hm. unfold spec_fn_runs in Hm.
      apply in_flat_map in Hm. destruct Hm as [p [_ Hm]]. apply in_flat_map in Hm. destruct Hm as [T [HT Hm]].
      destruct (N.eqb (t_fn T) f && qualifies T (fst p) (snd p)); [|destruct Hm].
      destruct Hm as [Hm|[]]. subst m. apply mk_run_ctx. apply Hctx. exact HT.
Qed.

Example ex_case_wf :
  case_wf {| sc_legacy := false; sc_init := []; sc_trigs := s_trigs ex_sys; sc_hist := ex_hist; sc_obs := []; sc_clean := true |}.
Proof. split; [exact ex_nodup|]. intros T [H|[H|[]]]; subst T; reflexivity. Qed.
