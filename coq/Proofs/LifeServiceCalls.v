(* Proofs/LifeServiceCalls.v — C12, last sentence: a service call made from a script delivers exactly the given keyword
   parameters minus the recognised control keywords, for every keyword set, at each of the three call sites. *)
From PV Require Import Common.Util Gen.ServiceConsts Life.Services Life.ServiceCalls.
From Coq Require Import Lia.

Local Open Scope N_scope.

Definition rec_tbl (tbl : list (N * list N * bool)) (x : kwarg) : bool :=
  existsb (fun '(k, tys, _) => N.eqb k (kw_key x) && memN (kw_ty x) tys) tbl.

Lemma recognised_tbl s x : recognised s x = rec_tbl (table s) x.
Proof. reflexivity. Qed.

Lemma kw_find_some k l x : kw_find k l = Some x -> In x l /\ kw_key x = k.
Proof. unfold kw_find. intros H. apply find_some in H. destruct H as (A & B). apply N.eqb_eq in B. auto. Qed.

Lemma kw_find_none k l y : kw_find k l = None -> In y l -> kw_key y <> k.
Proof. unfold kw_find. intros H Hy E. pose proof (find_none _ _ H y Hy) as F. cbn in F. rewrite E, N.eqb_refl in F. discriminate. Qed.

Lemma unique_key l x y : NoDup (map kw_key l) -> In x l -> In y l -> kw_key x = kw_key y -> x = y.
Proof.
  induction l as [|a l IH]; intros Hnd Hx Hy E; [contradiction|].
  cbn in Hnd. inversion Hnd as [|? ? Hnot Hnd']; subst.
  destruct Hx as [->|Hx], Hy as [->|Hy]; auto.
  - exfalso. apply Hnot. rewrite E. apply in_map. assumption.
  - exfalso. apply Hnot. rewrite <- E. apply in_map. assumption.
Qed.

Lemma nodup_kw_drop k l : NoDup (map kw_key l) -> NoDup (map kw_key (kw_drop k l)).
Proof.
  unfold kw_drop. induction l as [|a l IH]; intros H; cbn; [constructor|]. cbn in H. inversion H as [|? ? Hnot Hnd]; subst.
  destruct (negb (N.eqb (kw_key a) k)); [|apply IH; assumption]. cbn. constructor; [|apply IH; assumption].
  intros Hin. apply Hnot. apply in_map_iff in Hin. destruct Hin as (y & E & Hy). apply filter_In in Hy.
  rewrite <- E. apply in_map. tauto.
Qed.

Lemma filter_filter_and {A} (f g : A -> bool) l : filter f (filter g l) = filter (fun x => g x && f x) l.
Proof. induction l as [|a l IH]; cbn; [reflexivity|]. destruct (g a); cbn; [destruct (f a); rewrite IH; reflexivity|assumption]. Qed.

(* the loop pops exactly the recognised keywords, whatever the table *)
Lemma split_loop_data tbl tc : forall kws h, NoDup (map kw_key kws) ->
  fst (split_loop tbl tc kws h) = filter (fun x => negb (rec_tbl tbl x)) kws.
Proof.
  induction tbl as [|[[k tys] d] tbl IH]; intros kws h Hnd; cbn [split_loop].
  - cbn. induction kws as [|a l IHl]; cbn; [reflexivity|]. cbn in Hnd. inversion Hnd; subst. f_equal. apply IHl. assumption.
  - assert (Hhead : forall y, In y kws -> kw_key y <> k -> rec_tbl ((k, tys, d) :: tbl) y = rec_tbl tbl y).
    { intros y _ Hne. unfold rec_tbl. cbn [existsb]. destruct (N.eqb_spec k (kw_key y)); [congruence|reflexivity]. }
    destruct (kw_find k kws) as [x|] eqn:Ef.
    + apply kw_find_some in Ef. destruct Ef as (Hx & Ekx).
      assert (Hsame : forall y, In y kws -> kw_key y = k -> y = x).
      { intros y Hy E. apply (unique_key kws); auto. congruence. }
      destruct (memN (kw_ty x) tys) eqn:Et.
      * rewrite IH by (apply nodup_kw_drop; assumption). unfold kw_drop. rewrite filter_filter_and.
        apply filter_ext_in. intros y Hy. destruct (N.eqb_spec (kw_key y) k) as [E|Hne]; cbn [negb andb].
        -- rewrite (Hsame y Hy E). unfold rec_tbl. cbn [existsb]. rewrite Ekx, N.eqb_refl, Et. reflexivity.
        -- rewrite (Hhead y Hy Hne). reflexivity.
      * assert (Hgoal : forall hh, fst (split_loop tbl tc kws hh) = filter (fun y => negb (rec_tbl ((k, tys, d) :: tbl) y)) kws).
        { intros hh. rewrite IH by assumption. apply filter_ext_in. intros y Hy.
          destruct (N.eq_dec (kw_key y) k) as [E|Hne]; [|rewrite (Hhead y Hy Hne); reflexivity].
          rewrite (Hsame y Hy E). unfold rec_tbl. cbn [existsb]. rewrite Ekx, N.eqb_refl, Et. reflexivity. }
        destruct (d && tc); apply Hgoal.
    + assert (Hgoal : forall hh, fst (split_loop tbl tc kws hh) = filter (fun y => negb (rec_tbl ((k, tys, d) :: tbl) y)) kws).
      { intros hh. rewrite IH by assumption. apply filter_ext_in. intros y Hy.
        rewrite (Hhead y Hy (kw_find_none k kws y Ef Hy)). reflexivity. }
      destruct (d && tc); apply Hgoal.
Qed.

(* ... and hands each of them to hass.services.async_call with the value the script gave *)
Lemma split_loop_keeps tbl tc : forall kws h a, In a h -> In a (snd (split_loop tbl tc kws h)).
Proof.
  induction tbl as [|[[k tys] d] tbl IH]; intros kws h a Ha; cbn [split_loop]; [assumption|].
  destruct (kw_find k kws) as [x|]; [destruct (memN (kw_ty x) tys)|];
    try destruct (d && tc); apply IH; try assumption; apply in_or_app; left; assumption.
Qed.

Lemma split_loop_hargs tbl tc : forall kws h x, NoDup (map kw_key kws) -> In x kws -> rec_tbl tbl x = true ->
  In (HGiven x) (snd (split_loop tbl tc kws h)).
Proof.
  induction tbl as [|[[k tys] d] tbl IH]; intros kws h x Hnd Hx Hr; [discriminate|]. cbn [split_loop].
  unfold rec_tbl in Hr. cbn [existsb] in Hr. fold (rec_tbl tbl x) in Hr.
  destruct (kw_find k kws) as [y|] eqn:Ef.
  - apply kw_find_some in Ef. destruct Ef as (Hy & Eky).
    destruct (N.eqb_spec k (kw_key x)) as [E|Hne].
    + assert (y = x) by (apply (unique_key kws); auto; congruence). subst y.
      destruct (memN (kw_ty x) tys) eqn:Et.
      * apply split_loop_keeps. apply in_or_app. right. left. reflexivity.
      * cbn in Hr. destruct (d && tc); apply IH; assumption.
    + cbn in Hr. destruct (memN (kw_ty y) tys).
      * apply IH; [apply nodup_kw_drop; assumption| |assumption]. unfold kw_drop. apply filter_In. split; [assumption|].
        apply negb_true_iff. apply N.eqb_neq. congruence.
      * destruct (d && tc); apply IH; assumption.
  - destruct (N.eqb_spec k (kw_key x)) as [E|Hne].
    + exfalso. apply (kw_find_none k kws x Ef Hx). congruence.
    + cbn in Hr. destruct (d && tc); apply IH; assumption.
Qed.

Lemma harg_find_filtered k h : harg_find k (filter (fun x => negb (N.eqb (harg_key x) k)) h) = None.
Proof.
  unfold harg_find. induction h as [|a h IH]; cbn; [reflexivity|].
  destruct (N.eqb (harg_key a) k) eqn:E; cbn; [assumption|]. rewrite E. assumption.
Qed.

Lemma ha_call_off target data h :
  ha_call all_off target data h = OValidation \/ exists rr, ha_call all_off target data h = ODelivered data rr.
Proof.
  unfold ha_call. cbn [all_off d_limit_kw]. rewrite harg_find_filtered.
  destruct (harg_true _); [destruct (negb _); [left; reflexivity|]|]; destruct target; eauto.
Qed.

(* C12, last sentence.  [expected_data] is "the given keywords minus the recognised control keywords" (plus the entity id
   and the single positional parameter for entity-method calls), sorted by keyword *)
Theorem outgoing_exact s task_ctx target honly nargs nparams kws :
  NoDup (map kw_key kws) ->
  match outgoing all_off s task_ctx target honly nargs nparams kws with
  | ODelivered d _ => d = expected_data s nargs nparams kws
  | OTypeError => args_misuse s nargs nparams = true
  | OValidation => True
  | OOther => False
  end.
Proof.
  intros Hnd. unfold outgoing, split.
  pose proof (split_loop_data (table s) task_ctx kws [] Hnd) as Hd.
  destruct (split_loop (table s) task_ctx kws []) as [data h]. cbn [fst] in Hd. subst data.
  unfold expected_data, args_misuse.
  assert (Hrec : filter (fun x => negb (rec_tbl (table s) x)) kws = filter (fun x => negb (recognised s x)) kws) by reflexivity.
  rewrite Hrec.
  destruct s.
  - destruct (ha_call_off target (kw_sort (filter (fun x => negb (recognised SiteCall x)) kws)) (helper honly h)) as [->|(rr & ->)]; auto.
  - destruct (N.eqb nargs 0); cbn [negb]; [|reflexivity].
    destruct (ha_call_off target (kw_sort (filter (fun x => negb (recognised SiteName x)) kws)) (helper honly h)) as [->|(rr & ->)]; auto.
  - destruct (N.eqb nargs 1 && N.eqb nparams 1) eqn:E1.
    + match goal with |- context [ha_call all_off target ?d ?hh] => destruct (ha_call_off target d hh) as [->|(rr & ->)]; auto end.
    + destruct (N.eqb nargs 0); cbn [negb andb]; [|reflexivity].
      match goal with |- context [ha_call all_off target ?d ?hh] => destruct (ha_call_off target d hh) as [->|(rr & ->)]; auto end.
Qed.

(* every recognised control keyword reaches async_call as the script wrote it *)
Theorem outgoing_controls s task_ctx kws x :
  NoDup (map kw_key kws) -> In x kws -> recognised s x = true -> In (HGiven x) (snd (split s task_ctx kws)).
Proof. intros. apply split_loop_hargs; assumption. Qed.

(* the tables the theorems are about are the ones in the source: recognised keywords per site *)
Example tables_now :
  hass_args_call = [(1, [1], true); (2, [2], false); (3, [2], false)] /\
  hass_args_name = [(1, [1], true); (2, [2], false); (3, [2], false)] /\
  firstn 3 hass_args_entity = [(1, [1], true); (2, [2], false); (3, [2], false)].
Proof. repeat split; reflexivity. Qed.

Example outgoing_instance :
  outgoing all_off SiteName false SrOpt false 0 1 [mk_kw 40 4 7; mk_kw 2 2 1; mk_kw 3 4 1]
  = ODelivered [mk_kw 3 4 1; mk_kw 40 4 7] false.
Proof. reflexivity. Qed.
