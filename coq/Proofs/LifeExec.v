(* Proofs/LifeExec.v — invariants of executing files (imports_loop / load_module / exec_body): names stay unique,
   and every context in the table afterwards either was there before or was built by this execution from a file of
   the tree (its current source generation and mtime), under the name and path of one import candidate. *)
From PV Require Import Common.Util Life.ReloadBase Gen.ReloadConsts Life.Modules Life.Reload Life.ReloadPlanSpec
  Proofs.LifeReloadBase Proofs.LifeUntouched.
From Coq Require Import Lia.

Section ExecInv.
  Variable dv : deviations.
  Variable t : tree.
  Variable born : N.
  Variable Q : gctx -> Prop.
  (* Q holds of every module context this execution can build *)
  Hypothesis Qnew : forall cnd f started imps self_name self_rel i cs,
      candidates dv self_name self_rel i = Some cs -> In cnd cs -> tree_get t (cd_path cnd) = Some f ->
      Q {| c_name := cd_name cnd; c_gen := f_gen f; c_mtime := f_mtime f; c_cfg := None; c_imports := imps;
           c_ismod := true; c_rel := cd_rel cnd; c_born := born; c_started := started; c_cnt := 0 |}.

  Definition all_Q (st : state) : Prop := uniq_ctx st /\ forall c, In c st -> Q c.
  Definition xres_Q (r : xres) : Prop :=
    match r with XOk st' _ _ => all_Q st' | XFail st' _ => all_Q st' | XFuel => True end.

  Lemma all_Q_del st n : all_Q st -> all_Q (st_del st n).
  Proof. intros [Hu Hq]. split; [apply uniq_st_del; exact Hu|]. intros c Hc. apply st_del_In in Hc. apply Hq, Hc. Qed.
  Lemma all_Q_set st c : all_Q st -> Q c -> all_Q (st_set st c).
  Proof.
    intros [Hu Hq] Hc. split; [apply uniq_st_set; exact Hu|]. intros x Hx. apply st_set_In in Hx.
    destruct Hx as [->|[Hx _]]; [exact Hc|apply Hq, Hx].
  Qed.

  Lemma imports_loop_Q load self_name self_rel :
    (forall cnd f st ev i cs, candidates dv self_name self_rel i = Some cs -> In cnd cs ->
        tree_get t (cd_path cnd) = Some f -> all_Q st -> xres_Q (load cnd f st ev)) ->
    forall imps st ev acc, all_Q st -> xres_Q (imports_loop load dv t self_name self_rel imps st ev acc).
  Proof.
    intros Hload. induction imps as [|i rest IH]; intros st ev acc Hst; cbn [imports_loop]; [exact Hst|].
    destruct (candidates dv self_name self_rel i) as [cs|] eqn:Ec; [|exact Hst].
    destruct (find_loaded st cs) as [n|]; [apply IH; exact Hst|].
    destruct (find_file t cs) as [[cnd f]|] eqn:Ef; [|exact Hst].
    destruct (find_file_In _ _ _ _ Ef) as [Hcnd Hf].
    pose proof (Hload cnd f st ev i cs Ec Hcnd Hf Hst) as Hg.
    destruct (load cnd f st ev) as [st2 ev2 imps2|st2 ev2|]; cbn in Hg |- *; [apply IH; exact Hg|exact Hg|exact I].
  Qed.

  Lemma load_module_Q : forall fuel started cnd f st ev self_name self_rel i cs,
    candidates dv self_name self_rel i = Some cs -> In cnd cs -> tree_get t (cd_path cnd) = Some f ->
    all_Q st -> xres_Q (load_module fuel dv t born started cnd f st ev).
  Proof.
    induction fuel as [|fuel IH]; intros started cnd f st ev sn sr i cs Ec Hcnd Hf Hst; cbn [load_module]; [exact I|].
    assert (Hloop : xres_Q (imports_loop (load_module fuel dv t born started) dv t (cd_name cnd) (cd_rel cnd) (f_imps f)
                              (st_del st (cd_name cnd)) (ev ++ [(cd_name cnd, f_gen f)]) [])).
    { apply imports_loop_Q; [|apply all_Q_del; exact Hst].
      intros cnd' f' st' ev' i' cs' Ec' Hcnd' Hf' Hst'. eapply IH; eassumption. }
    destruct (imports_loop _ dv t (cd_name cnd) (cd_rel cnd) (f_imps f) _ _ []) as [st2 ev2 imps2|st2 ev2|]; cbn in Hloop |- *; [|exact Hloop|exact I].
    apply all_Q_set; [exact Hloop|]. eapply Qnew; eassumption.
  Qed.

  Lemma exec_body_Q fuel started self_name self_rel imps st ev : all_Q st ->
    xres_Q (exec_body fuel dv t born started self_name self_rel imps st ev).
  Proof.
    intros Hst. unfold exec_body. apply imports_loop_Q; [|exact Hst].
    intros cnd f st' ev' i cs Ec Hcnd Hf Hst'. eapply load_module_Q; eassumption.
  Qed.
End ExecInv.

(* events are only ever appended *)
Section ExecEvents.
  Variable dv : deviations.
  Variable t : tree.
  Definition xres_ev (ev : list event) (r : xres) : Prop :=
    match r with XOk _ ev' _ => incl ev ev' | XFail _ ev' => incl ev ev' | XFuel => True end.

  Lemma imports_loop_ev load self_name self_rel :
    (forall cnd f st ev, xres_ev ev (load cnd f st ev)) ->
    forall imps st ev acc, xres_ev ev (imports_loop load dv t self_name self_rel imps st ev acc).
  Proof.
    intros Hload. induction imps as [|i rest IH]; intros st ev acc; cbn [imports_loop]; [apply incl_refl|].
    destruct (candidates dv self_name self_rel i) as [cs|]; [|apply incl_refl].
    destruct (find_loaded st cs) as [n|]; [apply IH|].
    destruct (find_file t cs) as [[cnd f]|]; [|apply incl_refl].
    pose proof (Hload cnd f st ev) as Hg.
    destruct (load cnd f st ev) as [st2 ev2 imps2|st2 ev2|]; cbn in Hg |- *; [|exact Hg|exact I].
    specialize (IH st2 ev2 (nl_add (cd_name cnd) acc)).
    destruct (imports_loop load dv t self_name self_rel rest st2 ev2 _); cbn in IH |- *; try exact I; eapply incl_tran; eassumption.
  Qed.

  Lemma load_module_ev : forall fuel born started cnd f st ev, xres_ev ev (load_module fuel dv t born started cnd f st ev).
  Proof.
    induction fuel as [|fuel IH]; intros born started cnd f st ev; cbn [load_module]; [exact I|].
    pose proof (imports_loop_ev (load_module fuel dv t born started) (cd_name cnd) (cd_rel cnd) (IH born started)
                  (f_imps f) (st_del st (cd_name cnd)) (ev ++ [(cd_name cnd, f_gen f)]) []) as H.
    destruct (imports_loop _ dv t (cd_name cnd) (cd_rel cnd) (f_imps f) _ _ []); cbn in H |- *; try exact I;
      intros x Hx; apply H; apply in_or_app; auto.
  Qed.

  Lemma exec_body_ev fuel born started self_name self_rel imps st ev :
    xres_ev ev (exec_body fuel dv t born started self_name self_rel imps st ev).
  Proof. unfold exec_body. apply imports_loop_ev. intros. apply load_module_ev. Qed.
End ExecEvents.

(* every load event belongs to a file the caller asked for or to a file found by an import statement *)
Section ExecEventOrigin.
  Variable dv : deviations.
  Variable t : tree.
  Variable E : event -> Prop.
  Hypothesis Enew : forall cnd f self_name self_rel i cs,
      candidates dv self_name self_rel i = Some cs -> In cnd cs -> tree_get t (cd_path cnd) = Some f -> E (cd_name cnd, f_gen f).

  Definition all_E (ev : list event) : Prop := forall e, In e ev -> E e.
  Definition xres_E (r : xres) : Prop :=
    match r with XOk _ ev' _ => all_E ev' | XFail _ ev' => all_E ev' | XFuel => True end.

  Lemma imports_loop_E load self_name self_rel :
    (forall cnd f st ev i cs, candidates dv self_name self_rel i = Some cs -> In cnd cs ->
        tree_get t (cd_path cnd) = Some f -> all_E ev -> xres_E (load cnd f st ev)) ->
    forall imps st ev acc, all_E ev -> xres_E (imports_loop load dv t self_name self_rel imps st ev acc).
  Proof.
    intros Hload. induction imps as [|i rest IH]; intros st ev acc Hev; cbn [imports_loop]; [exact Hev|].
    destruct (candidates dv self_name self_rel i) as [cs|] eqn:Ec; [|exact Hev].
    destruct (find_loaded st cs) as [n|]; [apply IH; exact Hev|].
    destruct (find_file t cs) as [[cnd f]|] eqn:Ef; [|exact Hev].
    destruct (find_file_In _ _ _ _ Ef) as [Hcnd Hf].
    pose proof (Hload cnd f st ev i cs Ec Hcnd Hf Hev) as Hg.
    destruct (load cnd f st ev) as [st2 ev2 imps2|st2 ev2|]; cbn in Hg |- *; [apply IH; exact Hg|exact Hg|exact I].
  Qed.

  Lemma load_module_E : forall fuel born started cnd f st ev self_name self_rel i cs,
    candidates dv self_name self_rel i = Some cs -> In cnd cs -> tree_get t (cd_path cnd) = Some f ->
    all_E ev -> xres_E (load_module fuel dv t born started cnd f st ev).
  Proof.
    induction fuel as [|fuel IH]; intros born started cnd f st ev sn sr i cs Ec Hcnd Hf Hev; cbn [load_module]; [exact I|].
    assert (Hloop : xres_E (imports_loop (load_module fuel dv t born started) dv t (cd_name cnd) (cd_rel cnd) (f_imps f)
                              (st_del st (cd_name cnd)) (ev ++ [(cd_name cnd, f_gen f)]) [])).
    { apply imports_loop_E.
      - intros cnd' f' st' ev' i' cs' Ec' Hcnd' Hf' Hev'. eapply IH; eassumption.
      - intros e He. apply in_app_or in He. destruct He as [He|[<-|[]]]; [apply Hev; exact He|eapply Enew; eassumption]. }
    destruct (imports_loop _ dv t (cd_name cnd) (cd_rel cnd) (f_imps f) _ _ []); cbn in Hloop |- *; try exact I; exact Hloop.
  Qed.

  Lemma exec_body_E fuel born started self_name self_rel imps st ev : all_E ev ->
    xres_E (exec_body fuel dv t born started self_name self_rel imps st ev).
  Proof.
    intros Hev. unfold exec_body. apply imports_loop_E; [|exact Hev].
    intros cnd f st' ev' i cs Ec Hcnd Hf Hev'. eapply load_module_E; eassumption.
  Qed.
End ExecEventOrigin.
