(* Proofs/StateVarRefine.v — C16: the Model of state.py / eval.py's dotted-name routing (deviation switches off)
   refines the documented rules (Spec) on every sequence of script operations and external changes. *)
From PV Require Import Common.Util Gen.StateConsts StateVar.StateModel StateVar.Resolve StateVar.Spec StateVar.StateCheck.
From Coq Require Import Lia.

(* ---------- identifiers ---------- *)
Lemma ename_eqb_eq a b : ename_eqb a b = true <-> a = b.
Proof.
  destruct a as [a1 a2], b as [b1 b2]. unfold ename_eqb; cbn [fst snd].
  rewrite andb_true_iff, !N.eqb_eq. split; [intros [-> ->]; reflexivity | intros E; inversion E; auto].
Qed.
Lemma ename_eqb_refl a : ename_eqb a a = true.
Proof. apply ename_eqb_eq; reflexivity. Qed.
Lemma ename_eqb_neq a b : ename_eqb a b = false <-> a <> b.
Proof.
  split.
  - intros E Heq. apply ename_eqb_eq in Heq. congruence.
  - intros N. destruct (ename_eqb a b) eqn:E; [apply ename_eqb_eq in E; congruence | reflexivity].
Qed.

(* ---------- dict lemmas ---------- *)
Lemma alookup_aset k k' v a : alookup k (aset k' v a) = if N.eqb k k' then Some v else alookup k a.
Proof.
  induction a as [|[k0 v0] r IH]; cbn [aset alookup].
  - destruct (N.eqb k k'); reflexivity.
  - destruct (N.eqb k' k0) eqn:E0; cbn [alookup].
    + apply N.eqb_eq in E0; subst k0. destruct (N.eqb k k'); reflexivity.
    + destruct (N.eqb k k0) eqn:E1.
      * apply N.eqb_eq in E1; subst k0. rewrite N.eqb_sym, E0. reflexivity.
      * exact IH.
Qed.

Lemma aupdate_cons a k v kw : aupdate a ((k, v) :: kw) = aupdate (aset k v a) kw.
Proof. reflexivity. Qed.

Lemma alookup_none_notin k (kw : attrs) : ~ In k (map fst kw) -> alookup k kw = None.
Proof.
  induction kw as [|[k0 v0] r IH]; cbn; [reflexivity|]. intros N.
  destruct (N.eqb k k0) eqn:E; [apply N.eqb_eq in E; subst; tauto | apply IH; tauto].
Qed.

Lemma alookup_aupdate k a kw : NoDup (map fst kw) ->
  alookup k (aupdate a kw) = match alookup k kw with Some v => Some v | None => alookup k a end.
Proof.
  revert a; induction kw as [|[k0 v0] r IH]; intros a ND; [reflexivity|].
  rewrite aupdate_cons. cbn [map fst] in ND. inversion ND as [|? ? Hn ND']; subst.
  rewrite IH by assumption. rewrite alookup_aset. cbn [alookup].
  destruct (N.eqb k k0) eqn:E.
  - apply N.eqb_eq in E; subst k0. rewrite (alookup_none_notin k r Hn). reflexivity.
  - reflexivity.
Qed.

Lemma adel_filter k a : adel k a = filter (fun kv : ident * vid => negb (N.eqb k (fst kv))) a.
Proof.
  induction a as [|[k0 v0] r IH]; cbn [adel filter fst]; [reflexivity|].
  destruct (N.eqb k k0); cbn [negb]; rewrite IH; reflexivity.
Qed.

Lemma filter_filter {A} (f g : A -> bool) l : filter f (filter g l) = filter (fun x => g x && f x) l.
Proof.
  induction l as [|x r IH]; cbn; [reflexivity|].
  destruct (g x); cbn; [destruct (f x); rewrite IH; reflexivity | exact IH].
Qed.

Lemma filter_ext' {A} (f g : A -> bool) l : (forall x, f x = g x) -> filter f l = filter g l.
Proof. intros E. induction l as [|x r IH]; cbn; [reflexivity|]. rewrite E, IH. reflexivity. Qed.

Lemma adiscard_filter ks a :
  adiscard ks a = filter (fun kv : ident * vid => negb (mem_ident (fst kv) ks)) a.
Proof.
  revert a; induction ks as [|k ks IH]; intros a.
  - cbn. induction a as [|x r IHa]; cbn; [reflexivity|]. rewrite <- IHa. reflexivity.
  - change (adiscard (k :: ks) a) with (adiscard ks (adel k a)).
    rewrite IH, adel_filter, filter_filter. apply filter_ext'. intros [k0 v0]; cbn [fst mem_ident existsb].
    rewrite negb_orb, (N.eqb_sym k0 k). reflexivity.
Qed.

Lemma fold_left_map {A B C} (f : A -> C -> A) (g : B -> C) l a :
  fold_left f (map g l) a = fold_left (fun x y => f x (g y)) l a.
Proof. revert a; induction l as [|y r IH]; intros a; cbn; [reflexivity | apply IH]. Qed.

(* ---------- facts about the regenerated constants (a changed constant breaks these) ---------- *)
(* the virtual attributes the code discards / the fields StateVal.__new__ sets are exactly the documented four *)
Lemma consts_virtual_same k : mem_ident k state_virtual_attrs = mem_ident k doc_virtual_attrs.
Proof.
  unfold mem_ident, state_virtual_attrs, doc_virtual_attrs; cbn [existsb].
  repeat match goal with |- context [N.eqb k ?c] => destruct (N.eqb k c) end; reflexivity.
Qed.
(* each field is read from the hass State field of the same name (codes: 0 entity_id, 1 last_changed, 2 last_updated, 3 last_reported) *)
Lemma consts_fields_doc : stateval_new_fields = [(100, 0); (102, 2); (101, 1); (103, 3)]%N.
Proof. reflexivity. Qed.
Lemma consts_fields_nodup : NoDup doc_virtual_attrs.
Proof.
  unfold doc_virtual_attrs.
  repeat (constructor; [cbn; intuition discriminate|]). constructor.
Qed.

(* ---------- the state machine ---------- *)
Lemma ha_get_put m e st e' : ha_get (ha_put m e st) e' = if ename_eqb e' e then Some st else ha_get m e'.
Proof.
  induction m as [|[e0 st0] r IH]; cbn [ha_put ha_get].
  - destruct (ename_eqb e' e); reflexivity.
  - destruct (ename_eqb e e0) eqn:E0; cbn [ha_get].
    + apply ename_eqb_eq in E0; subst e0. destruct (ename_eqb e' e); reflexivity.
    + destruct (ename_eqb e' e0) eqn:E1.
      * apply ename_eqb_eq in E1; subst e0.
        destruct (ename_eqb e' e) eqn:E2; [apply ename_eqb_eq in E2; subst; rewrite ename_eqb_refl in E0; discriminate | reflexivity].
      * exact IH.
Qed.

Lemma ha_get_del m e e' : ha_get (ha_del m e) e' = if ename_eqb e' e then None else ha_get m e'.
Proof.
  induction m as [|[e0 st0] r IH]; cbn [ha_del ha_get].
  - destruct (ename_eqb e' e); reflexivity.
  - destruct (ename_eqb e e0) eqn:E0.
    + apply ename_eqb_eq in E0; subst e0. rewrite IH. destruct (ename_eqb e' e); reflexivity.
    + cbn [ha_get]. destruct (ename_eqb e' e0) eqn:E1.
      * apply ename_eqb_eq in E1; subst e0.
        destruct (ename_eqb e' e) eqn:E2; [apply ename_eqb_eq in E2; subst; rewrite ename_eqb_refl in E0; discriminate | reflexivity].
      * exact IH.
Qed.

Section Refine.
  Variable H : host.
  Variable funcs : list ename.
  Variable now : N.
  Hypothesis Hidem : forall v, h_str H (h_str H v) = h_str H v.      (* str(str(x)) == str(x) *)
  Hypothesis Hnn : forall v, h_str H v <> v_none.                    (* str(x) is never None *)

  Let cf : config := {| cf_dev := all_off; cf_host := H; cf_funcs := funcs |}.

  Lemma is_none_str v : is_none (h_str H v) = false.
  Proof. unfold is_none. apply N.eqb_neq. apply Hnn. Qed.

  (* invariant: stored states are strings (fixed points of str), captured snapshots carry such strings *)
  Definition wf_ha (m : hamap) : Prop := forall e s, ha_get m e = Some s -> h_str H (hs_val s) = hs_val s.
  Definition wf_val (p : pyval) : Prop := match p with PSnap v _ => is_none v = false | _ => True end.
  Definition wf_slots (t : list (N * pyval)) : Prop := forall j, wf_val (slot_get j t).
  Definition wf_state (st : mstate) : Prop := wf_ha (ms_ha st) /\ wf_slots (ms_slots st).

  Lemma wf_ha_not_none m e s : wf_ha m -> ha_get m e = Some s -> is_none (hs_val s) = false.
  Proof. intros W E. rewrite <- (W e s E). apply is_none_str. Qed.

  Lemma wf_ha_write m e s a : wf_ha m -> h_str H s = s -> wf_ha (ha_write H now m e s a).
  Proof.
    intros W Hs e' s' E. unfold ha_write in E.
    destruct (ha_get m e) as [s0|] eqn:Eg; rewrite ha_get_put in E;
      (destruct (ename_eqb e' e); [inversion E; subst s'; exact Hs | exact (W e' s' E)]).
  Qed.

  Lemma wf_ha_del m e : wf_ha m -> wf_ha (ha_del m e).
  Proof.
    intros W e' s' E. rewrite ha_get_del in E. destruct (ename_eqb e' e); [discriminate | exact (W e' s' E)].
  Qed.

  (* ---------- state.py against the rules ---------- *)
  Lemma stateval_new_spec e s : stateval_new H e s = snapshot_of H e s.
  Proof.
    unfold stateval_new, snapshot_of, aupdate, virtual_fields. rewrite consts_fields_doc. reflexivity.
  Qed.

  Lemma alookup_virtual_none e s k :
    mem_ident k state_virtual_attrs = false -> alookup k (virtual_fields H e s) = None.
  Proof.
    intros E. apply alookup_none_notin. change (map fst (virtual_fields H e s)) with doc_virtual_attrs.
    rewrite consts_virtual_same in E. intros Hin.
    assert (mem_ident k doc_virtual_attrs = true); [|congruence].
    unfold mem_ident. apply existsb_exists. exists k. split; [exact Hin | apply N.eqb_refl].
  Qed.

  (* getattr on a snapshot: a state attribute, else what every str has *)
  Definition entity_or_str (e : ename) (s : hastate) (k : ident) : res pyval :=
    match entity_attr H e s k with
    | Ok v => Ok v
    | Raise _ => if h_strattr H k then Ok PFunc else Raise EAttributeError
    end.

  Lemma snap_getattr_spec e s k :
    snap_getattr H (aupdate (hs_attrs s) (virtual_fields H e s)) k = entity_or_str e s k.
  Proof.
    unfold snap_getattr, entity_or_str, entity_attr. rewrite alookup_aupdate.
    - destruct (alookup k (virtual_fields H e s)); [reflexivity|]. destruct (alookup k (hs_attrs s)); [reflexivity|].
      destruct (mem_ident k state_callable_attrs); reflexivity.
    - exact consts_fields_nodup.
  Qed.

  Lemma alookup_virtual_some e s k :
    mem_ident k doc_virtual_attrs = true -> alookup k (virtual_fields H e s) <> None.
  Proof.
    unfold mem_ident, doc_virtual_attrs, virtual_fields; cbn [existsb alookup].
    repeat match goal with |- context [N.eqb k ?c] => destruct (N.eqb k c) end; cbn; congruence.
  Qed.

  Lemma entity_attr_ok e s k :
    amem k (hs_attrs s) || mem_ident k state_virtual_attrs || mem_ident k state_callable_attrs = true ->
    exists v, entity_attr H e s k = Ok v.
  Proof.
    intros Ex. unfold entity_attr.
    destruct (alookup k (virtual_fields H e s)) eqn:Ev; [eauto|].
    unfold amem in Ex. destruct (alookup k (hs_attrs s)); [eauto|].
    destruct (mem_ident k state_callable_attrs); [eauto|].
    cbn [orb] in Ex. rewrite orb_false_r in Ex. rewrite consts_virtual_same in Ex.
    exfalso. exact (alookup_virtual_some e s k Ex Ev).
  Qed.

  Lemma state_get_spec st nm : state_get H (ms_svcargs st) (ms_ha st) nm = spec_get H st nm.
  Proof.
    unfold state_get, spec_get.
    destruct nm as [|d [|n [|k [|x r]]]]; [reflexivity | reflexivity | | | reflexivity].
    - destruct (ha_get (ms_ha st) (d, n)) as [s|]; [rewrite stateval_new_spec|]; reflexivity.
    - destruct (ha_get (ms_ha st) (d, n)) as [s|]; [|reflexivity].
      destruct (svc_method (ms_svcargs st) d k); [reflexivity|].
      rewrite stateval_new_spec. unfold snapshot_of. apply snap_getattr_spec.
  Qed.

  Lemma state_exist_spec svcargs m nm : state_exist svcargs m nm = spec_exist svcargs m nm.
  Proof.
    unfold state_exist, spec_exist.
    destruct nm as [|d [|n [|k [|x r]]]]; try reflexivity.
    destruct (ha_get m (d, n)) as [s|]; [rewrite consts_virtual_same|]; reflexivity.
  Qed.

  Lemma adiscard_spec d : adiscard state_virtual_attrs d = without_virtual d.
  Proof.
    rewrite adiscard_filter. unfold without_virtual. apply filter_ext'. intros kv. rewrite consts_virtual_same. reflexivity.
  Qed.

  Lemma aupdate_or_same (a kw : attrs) : match kw with [] => a | _ => aupdate a kw end = aupdate a kw.
  Proof. destruct kw; reflexivity. Qed.

  Lemma state_set_spec m nm value na kw : wf_ha m -> wf_val value ->
    state_set H now m nm value na kw = spec_set H now m nm value na kw.
  Proof.
    intros W Wv. unfold state_set, spec_set.
    destruct nm as [|d [|n [|x r]]]; try reflexivity.
    destruct value as [v|v dct| | | |]; cbn [fst snd]; try reflexivity.
    - (* plain value *)
      rewrite aupdate_or_same. unfold ha_async_set, cur_attrs.
      destruct (is_none v) eqn:En; cbn [orb].
      + destruct (ha_get m (d, n)) as [s|] eqn:Eg.
        * rewrite (W _ _ Eg). destruct na; reflexivity.
        * unfold is_none in En. apply N.eqb_eq in En. subst v. destruct na; reflexivity.
      + destruct na as [a|]; [reflexivity|]. destruct (ha_get m (d, n)) as [s|]; reflexivity.
    - (* StateVal *)
      cbn [wf_val] in Wv. rewrite aupdate_or_same.
      assert (Es : (match na with Some a => (PVal v, Some a) | None => (PVal v, Some (adiscard state_virtual_attrs dct)) end)
                   = (PVal v, Some (match na with Some a => a | None => without_virtual dct end))).
      { destruct na; [reflexivity | rewrite adiscard_spec; reflexivity]. }
      destruct na as [a|]; cbn [fst snd]; rewrite Wv; cbn [orb]; unfold ha_async_set;
        [reflexivity | rewrite adiscard_spec; reflexivity].
  Qed.

  Lemma state_setattr_spec svcargs m nm v : wf_ha m ->
    state_setattr all_off H now svcargs m nm v = spec_setattr H now m nm v.
  Proof.
    intros W. unfold state_setattr, spec_setattr.
    destruct nm as [|d [|n [|k [|x r]]]]; try reflexivity.
    cbn [state_exist d_setattr_param_clash all_off andb].
    destruct (ha_get m (d, n)) as [s|] eqn:Eg; cbn [negb]; [|reflexivity].
    rewrite state_set_spec by (assumption || exact I).
    unfold spec_set, cur_attrs. rewrite Eg. cbn. reflexivity.
  Qed.

  Lemma state_delete_spec m nm : wf_ha m -> state_delete H now m nm = spec_delete H now m nm.
  Proof.
    intros W. unfold state_delete, spec_delete, ha_async_remove.
    destruct nm as [|d [|n [|k [|x r]]]]; try reflexivity.
    - destruct (ha_get m (d, n)); reflexivity.
    - destruct (ha_get m (d, n)) as [s|] eqn:Eg; [|reflexivity].
      destruct (amem k (hs_attrs s)); [|reflexivity].
      rewrite state_set_spec by (assumption || exact I).
      unfold spec_set. rewrite (wf_ha_not_none m _ s W Eg), (W _ _ Eg). reflexivity.
  Qed.

  Lemma state_getattr_spec m arg : state_getattr m arg = spec_getattr m arg.
  Proof.
    unfold state_getattr, spec_getattr.
    destruct arg as [p|nm].
    - destruct p; rewrite ?adiscard_spec; reflexivity.
    - reflexivity.
  Qed.

  (* ---------- eval.py against the rules ---------- *)
  Lemma dn_shape e : dn_len_ok e = true ->
    (exists d n, e = DAttr (DHead d) n) \/ (exists d n k, e = DAttr (DAttr (DHead d) n) k).
  Proof.
    unfold dn_len_ok. intros E. apply andb_true_iff in E. destruct E as [E1 E2].
    apply Nat.leb_le in E1. apply Nat.leb_le in E2.
    destruct e as [h|[h|[h|p a1] a2] a3]; cbn [dn_parts length app] in *; [lia | left; eauto | right; eauto |].
    rewrite !app_length in E1. cbn in E1.
    assert (1 <= length (dn_parts p))%nat by (destruct p; cbn; [lia | rewrite app_length; cbn; lia]). lia.
  Qed.

  Lemma entity_attr_raise e s k x : entity_attr H e s k = Raise x -> x = EAttributeError.
  Proof.
    unfold entity_attr. destruct (alookup k (virtual_fields H e s)); [discriminate|].
    destruct (alookup k (hs_attrs s)); [discriminate|]. destruct (mem_ident k state_callable_attrs); [discriminate|].
    intros E; inversion E; reflexivity.
  Qed.

  Lemma aeval2 locals st d n :
    aeval_dn cf locals st (DAttr (DHead d) n) = of_res (spec_read H funcs locals st [d; n]).
  Proof.
    cbn [aeval_dn]. unfold collapse. cbn [dn_head dn_parts app]. unfold ast_name_plain, spec_read, denote.
    destruct (vlookup d locals) as [o|]; [reflexivity|].
    destruct (vlookup d (ms_globals st)) as [o|]; [reflexivity|].
    unfold ast_name_dotted, function_get. cbn [cf_funcs cf_host cf].
    destruct (mem_ename (d, n) funcs || mem_ename (d, n) (ms_svcs st)); [reflexivity|].
    cbn [state_get]. destruct (ha_get (ms_ha st) (d, n)) as [s|]; [rewrite stateval_new_spec|]; reflexivity.
  Qed.

  Lemma ast_name_dotted3 st d n k :
    ast_name_dotted cf st [d; n; k] =
    match ha_get (ms_ha st) (d, n) with
    | None => EName
    | Some s =>
        if svc_method (ms_svcargs st) d k then EV PFunc
        else if amem k (hs_attrs s) || mem_ident k state_virtual_attrs || mem_ident k state_callable_attrs
             then of_res (entity_or_str (d, n) s k) else EName
    end.
  Proof.
    unfold ast_name_dotted, function_get. cbn [cf_funcs cf_host cf state_exist state_get].
    destruct (ha_get (ms_ha st) (d, n)) as [s|]; [|reflexivity].
    destruct (svc_method (ms_svcargs st) d k); cbn [orb]; [reflexivity|].
    destruct (amem k (hs_attrs s) || mem_ident k state_virtual_attrs || mem_ident k state_callable_attrs); [|reflexivity].
    rewrite stateval_new_spec. unfold snapshot_of. rewrite snap_getattr_spec. reflexivity.
  Qed.

  Lemma aeval3 locals st d n k :
    aeval_dn cf locals st (DAttr (DAttr (DHead d) n) k) = of_res (spec_read H funcs locals st [d; n; k]).
  Proof.
    change (aeval_dn cf locals st (DAttr (DAttr (DHead d) n) k))
      with (let direct := match collapse locals st (DAttr (DAttr (DHead d) n) k) with
                          | Some parts => ast_name_dotted cf st parts
                          | None => EName
                          end in
            match direct with
            | EName => match aeval_dn cf locals st (DAttr (DHead d) n) with
                       | EV v => of_res (py_getattr cf v k)
                       | EName => ERaise ENameError
                       | ERaise x => ERaise x
                       end
            | r => r
            end).
    rewrite aeval2. cbn zeta.
    unfold collapse. cbn [dn_head dn_parts app]. unfold ast_name_plain, spec_read, denote.
    destruct (vlookup d locals) as [o|].
    { unfold obj_attr. destruct (alookup n o); [|reflexivity]. cbn [of_res py_getattr cf_host cf].
      destruct (h_pyattr H v k); reflexivity. }
    destruct (vlookup d (ms_globals st)) as [o|].
    { unfold obj_attr. destruct (alookup n o); [|reflexivity]. cbn [of_res py_getattr cf_host cf].
      destruct (h_pyattr H v k); reflexivity. }
    rewrite ast_name_dotted3.
    destruct (ha_get (ms_ha st) (d, n)) as [s|] eqn:Eg.
    2: { destruct (mem_ename (d, n) funcs || mem_ename (d, n) (ms_svcs st)); reflexivity. }
    destruct (svc_method (ms_svcargs st) d k) eqn:Es.
    { destruct (mem_ename (d, n) funcs || mem_ename (d, n) (ms_svcs st)); reflexivity. }
    destruct (amem k (hs_attrs s) || mem_ident k state_virtual_attrs || mem_ident k state_callable_attrs) eqn:Ex.
    - destruct (entity_attr_ok (d, n) s k Ex) as [v Ea]. unfold entity_or_str. rewrite Ea.
      destruct (mem_ename (d, n) funcs || mem_ename (d, n) (ms_svcs st)); reflexivity.
    - apply orb_false_iff in Ex. destruct Ex as [Ex Ecl]. apply orb_false_iff in Ex. destruct Ex as [Ea Ev].
      assert (Er : entity_attr H (d, n) s k = Raise EAttributeError).
      { unfold entity_attr. rewrite (alookup_virtual_none _ _ _ Ev). unfold amem in Ea.
        destruct (alookup k (hs_attrs s)); [discriminate|]. rewrite Ecl. reflexivity. }
      rewrite Er.
      destruct (mem_ename (d, n) funcs || mem_ename (d, n) (ms_svcs st)); cbn [of_res py_getattr]; [reflexivity|].
      unfold snapshot_of. cbn [py_getattr cf_host cf]. rewrite snap_getattr_spec. unfold entity_or_str. rewrite Er. reflexivity.
  Qed.

  Lemma aeval_dn_spec locals st e : dn_len_ok e = true ->
    aeval_dn cf locals st e = of_res (spec_read H funcs locals st (dn_parts e)).
  Proof.
    intros L. destruct (dn_shape e L) as [(d & n & ->)|(d & n & k & ->)]; [apply aeval2 | apply aeval3].
  Qed.

  Definition lift_ha_res (st : mstate) (r : res hamap) : res mstate :=
    match r with Ok m => Ok (with_ha st m) | Raise x => Raise x end.

  Lemma assign_dn_spec locals st e val : dn_len_ok e = true -> wf_ha (ms_ha st) -> wf_val val ->
    assign_dn cf locals st now e val = spec_assign H funcs now locals st (dn_parts e) val.
  Proof.
    intros L W Wv. destruct (dn_shape e L) as [(d & n & ->)|(d & n & k & ->)].
    - cbn [assign_dn]. unfold collapse. cbn [dn_head dn_parts app]. unfold ast_name_plain, spec_assign, denote, set_var_attr.
      destruct (vlookup d locals) as [o|]; [destruct val; reflexivity|].
      destruct (vlookup d (ms_globals st)) as [o|]; [destruct val; reflexivity|].
      cbn [cf_host cf_dev cf].
      assert (Ha : forall dd : denot, match dd with DPyLocal _ | DPyGlobal _ => True | _ => True end) by (destruct dd; exact I).
      assert (E : match state_set H now (ms_ha st) [d; n] (assign_value cf val) None [] with
                  | Ok m => Ok (with_ha st m) | Raise x => Raise x end
                  = match val with
                    | PVal v => Ok (with_ha st (ha_write H now (ms_ha st) (d, n) (h_str H v) (cur_attrs (ms_ha st) (d, n))))
                    | PSnap v dct => Ok (with_ha st (ha_write H now (ms_ha st) (d, n) (h_str H v) (without_virtual dct)))
                    | _ => Raise EUnmodelled
                    end).
      { unfold assign_value. cbn [cf_dev cf d_assign_none_omitted all_off cf_host].
        destruct val as [v|v dct| | | |]; try reflexivity.
        - destruct (is_none v) eqn:En.
          + rewrite state_set_spec by (assumption || exact I). unfold spec_set.
            rewrite is_none_str, Hidem. unfold is_none in En. apply N.eqb_eq in En. subst v. reflexivity.
          + rewrite state_set_spec by (assumption || exact I). unfold spec_set. rewrite En. reflexivity.
        - rewrite state_set_spec by assumption. unfold spec_set. reflexivity. }
      destruct (mem_ename (d, n) funcs || mem_ename (d, n) (ms_svcs st)); exact E.
    - cbn [assign_dn]. unfold collapse. cbn [dn_head dn_parts app]. unfold ast_name_plain, spec_assign, denote.
      destruct (vlookup d locals) as [o|] eqn:El.
      { rewrite aeval2. unfold spec_read, denote. rewrite El. unfold obj_attr. destruct (alookup n o); reflexivity. }
      destruct (vlookup d (ms_globals st)) as [o|] eqn:Egl.
      { rewrite aeval2. unfold spec_read, denote. rewrite El, Egl. unfold obj_attr. destruct (alookup n o); reflexivity. }
      cbn [cf_host cf_dev cf].
      assert (E : match val with
                  | PVal v => match state_setattr all_off H now (ms_svcargs st) (ms_ha st) [d; n; k] v with
                              | Ok m => Ok (with_ha st m) | Raise x => Raise x end
                  | _ => Raise EUnmodelled
                  end
                  = match val with
                    | PVal v => match ha_get (ms_ha st) (d, n) with
                                | None => Raise ENameError
                                | Some s => Ok (with_ha st (ha_write H now (ms_ha st) (d, n) (hs_val s) (aset k v (hs_attrs s))))
                                end
                    | _ => Raise EUnmodelled
                    end).
      { destruct val as [v| | | | |]; try reflexivity.
        rewrite state_setattr_spec by assumption. unfold spec_setattr.
        destruct (ha_get (ms_ha st) (d, n)); reflexivity. }
      destruct (mem_ename (d, n) funcs || mem_ename (d, n) (ms_svcs st)); exact E.
  Qed.

  Lemma delete_dn_spec locals st e : dn_len_ok e = true -> wf_ha (ms_ha st) ->
    delete_dn cf locals st now e = spec_del_expr H funcs now locals st (dn_parts e).
  Proof.
    intros L W. destruct (dn_shape e L) as [(d & n & ->)|(d & n & k & ->)].
    - cbn [delete_dn cf_dev cf d_del_ignores_pyvar all_off]. unfold collapse. cbn [dn_head dn_parts app].
      unfold ast_name_plain, spec_del_expr, denote, del_var_attr.
      destruct (vlookup d locals) as [o|]; [reflexivity|].
      destruct (vlookup d (ms_globals st)) as [o|]; [reflexivity|].
      unfold state_delete_st. cbn [cf_host cf]. rewrite state_delete_spec by assumption.
      destruct (mem_ename (d, n) funcs || mem_ename (d, n) (ms_svcs st)); reflexivity.
    - cbn [delete_dn cf_dev cf d_del_ignores_pyvar all_off]. unfold collapse. cbn [dn_head dn_parts app].
      unfold ast_name_plain, spec_del_expr, denote.
      destruct (vlookup d locals) as [o|] eqn:El.
      { rewrite aeval2. unfold spec_read, denote. rewrite El. unfold obj_attr. destruct (alookup n o); reflexivity. }
      destruct (vlookup d (ms_globals st)) as [o|] eqn:Egl.
      { rewrite aeval2. unfold spec_read, denote. rewrite El, Egl. unfold obj_attr. destruct (alookup n o); reflexivity. }
      unfold state_delete_st. cbn [cf_host cf]. rewrite state_delete_spec by assumption.
      destruct (mem_ename (d, n) funcs || mem_ename (d, n) (ms_svcs st)); reflexivity.
  Qed.

  Lemma wf_eval_vexpr st x : wf_slots (ms_slots st) -> wf_val (eval_vexpr st x).
  Proof. intros W. destruct x as [v|j]; cbn [eval_vexpr]; [exact I | apply W]. Qed.

  Lemma py_getattr_slot p k : py_getattr cf p k = spec_slot_attr H p k.
  Proof. destruct p; reflexivity. Qed.

  (* one script operation *)
  Lemma model_op_spec locals st o : wf_state st ->
    model_op cf now locals st o = spec_op H funcs now locals st o.
  Proof.
    intros [W Ws]. destruct o; cbn [model_op spec_op cf_host cf_dev cf].
    - destruct (dn_len_ok e) eqn:L; [rewrite aeval_dn_spec by assumption|]; reflexivity.
    - rewrite state_get_spec. reflexivity.
    - destruct (dn_len_ok e) eqn:L; [|reflexivity].
      rewrite assign_dn_spec by (try assumption; apply wf_eval_vexpr; assumption). reflexivity.
    - rewrite state_set_spec; [reflexivity | assumption |].
      destruct value as [x|]; [apply wf_eval_vexpr; assumption | exact I].
    - rewrite state_setattr_spec by assumption. reflexivity.
    - destruct (dn_len_ok e) eqn:L; [rewrite delete_dn_spec by assumption|]; reflexivity.
    - rewrite state_delete_spec by assumption. reflexivity.
    - rewrite state_exist_spec. reflexivity.
    - rewrite state_getattr_spec. reflexivity.
    - rewrite state_getattr_spec. reflexivity.
    - reflexivity.
    - reflexivity.
    - rewrite py_getattr_slot. reflexivity.
  Qed.

  Lemma model_step_spec st s : wf_state st -> model_step cf now st s = spec_step H funcs now st s.
  Proof.
    intros W. destruct s as [x|locals o]; cbn [model_step spec_step cf_host cf]; [reflexivity|].
    rewrite model_op_spec by assumption. reflexivity.
  Qed.
End Refine.

(* ---------- the invariant is preserved; refinement of whole runs ---------- *)
Lemma slot_get_set j' j p t : slot_get j' (slot_set j p t) = if N.eqb j' j then p else slot_get j' t.
Proof.
  induction t as [|[j0 p0] r IH]; cbn [slot_set slot_get].
  - destruct (N.eqb j' j); reflexivity.
  - destruct (N.eqb j j0) eqn:E0; cbn [slot_get].
    + apply N.eqb_eq in E0; subst j0. destruct (N.eqb j' j); reflexivity.
    + destruct (N.eqb j' j0) eqn:E1.
      * apply N.eqb_eq in E1; subst j0. rewrite N.eqb_sym, E0. reflexivity.
      * exact IH.
Qed.

Section Preserve.
  Variable H : host.
  Variable funcs : list ename.
  Hypothesis Hidem : forall v, h_str H (h_str H v) = h_str H v.
  Hypothesis Hnn : forall v, h_str H v <> v_none.

  Notation wf_ha := (wf_ha H).
  Notation wf_state := (wf_state H).

  Section Step.
  Variable now : N.

  Lemma wf_slots_set t j p : wf_slots t -> wf_val p -> wf_slots (slot_set j p t).
  Proof. intros W Wp j'. rewrite slot_get_set. destruct (N.eqb j' j); [exact Wp | apply W]. Qed.

  Lemma snapshot_wf m e s : wf_ha m -> ha_get m e = Some s -> wf_val (snapshot_of H e s).
  Proof. intros W E. cbn [snapshot_of wf_val]. exact (wf_ha_not_none H Hnn m e s W E). Qed.

  Lemma entity_attr_wf e s k p : entity_attr H e s k = Ok p -> wf_val p.
  Proof.
    unfold entity_attr. destruct (alookup k (virtual_fields H e s)); [intros E; inversion E; exact I|].
    destruct (alookup k (hs_attrs s)); [intros E; inversion E; exact I|].
    destruct (mem_ident k state_callable_attrs); intros E; inversion E; exact I.
  Qed.

  Lemma spec_read_wf locals st parts p : wf_ha (ms_ha st) ->
    spec_read H funcs locals st parts = Ok p -> wf_val p.
  Proof.
    intros W. unfold spec_read, obj_attr.
    destruct parts as [|d [|n [|k [|x r]]]]; try discriminate.
    - destruct (denote funcs locals st d n) as [o|o| |].
      + destruct (alookup n o); intros E; inversion E; exact I.
      + destruct (alookup n o); intros E; inversion E; exact I.
      + intros E; inversion E; exact I.
      + destruct (ha_get (ms_ha st) (d, n)) as [s|] eqn:Eg; intros E; inversion E. eapply snapshot_wf; eassumption.
    - assert (Hpy : forall o, match alookup n o with
                              | Some v => if h_pyattr H v k then Ok PFunc else Raise EAttributeError
                              | None => Raise EAttributeError end = Ok p -> wf_val p).
      { intros o. destruct (alookup n o) as [v|]; [destruct (h_pyattr H v k)|]; intros E; inversion E; exact I. }
      destruct (denote funcs locals st d n) as [o|o| |]; try apply Hpy.
      all: destruct (ha_get (ms_ha st) (d, n)) as [s|] eqn:Eg; try discriminate.
      all: destruct (svc_method (ms_svcargs st) d k); [intros E; inversion E; exact I|].
      all: destruct (entity_attr H (d, n) s k) as [v|x] eqn:Ea; [intros E; inversion E; subst; eapply entity_attr_wf; eassumption|].
      all: try discriminate.
      all: destruct (h_strattr H k); intros E; inversion E; exact I.
  Qed.

  Lemma spec_get_wf st nm p : wf_ha (ms_ha st) -> spec_get H st nm = Ok p -> wf_val p.
  Proof.
    intros W. unfold spec_get.
    destruct nm as [|d [|n [|k [|x r]]]]; try discriminate.
    - destruct (ha_get (ms_ha st) (d, n)) as [s|] eqn:Eg; intros E; inversion E. eapply snapshot_wf; eassumption.
    - destruct (ha_get (ms_ha st) (d, n)) as [s|] eqn:Eg; try discriminate.
      destruct (svc_method (ms_svcargs st) d k); [intros E; inversion E; exact I|].
      destruct (entity_attr H (d, n) s k) as [v|x] eqn:Ea; [intros E; inversion E; subst; eapply entity_attr_wf; eassumption|].
      destruct (h_strattr H k); intros E; inversion E; exact I.
  Qed.

  Lemma capture_wf st cap r : wf_state st -> (forall p, r = EV p -> wf_val p) -> wf_state (snd (capture st cap r)).
  Proof.
    intros [W Ws] Wr. unfold capture. destruct r as [p| |x]; cbn [snd]; [|split; assumption|split; assumption].
    destruct cap as [j|]; [|split; assumption].
    destruct p; cbn [snd]; try (split; assumption).
    - split; [exact W|]. cbn [with_slots ms_slots]. apply wf_slots_set; [exact Ws | apply Wr; reflexivity].
    - split; [exact W|]. cbn [with_slots ms_slots]. apply wf_slots_set; [exact Ws | exact I].
    - split; [exact W|]. cbn [with_slots ms_slots]. apply wf_slots_set; [exact Ws | exact I].
    - split; [exact W|]. cbn [with_slots ms_slots]. apply wf_slots_set; [exact Ws | exact I].
    - split; [exact W|]. cbn [with_slots ms_slots]. apply wf_slots_set; [exact Ws | exact I].
  Qed.

  Lemma lift_ha_wf st r : wf_state st -> (forall m, r = Ok m -> wf_ha m) -> wf_state (snd (lift_ha st r)).
  Proof.
    intros [W Ws] Wr. destruct r as [m|x]; cbn [lift_ha snd]; [|split; assumption].
    split; [cbn [with_ha ms_ha]; apply Wr; reflexivity | exact Ws].
  Qed.

  Lemma lift_st_wf st r : wf_state st -> (forall st', r = Ok st' -> wf_state st') -> wf_state (snd (lift_st st r)).
  Proof.
    intros W Wr. destruct r as [st'|x]; cbn [lift_st snd]; [apply Wr; reflexivity | exact W].
  Qed.

  Lemma spec_set_wf m nm value na kw m' : wf_ha m -> spec_set H now m nm value na kw = Ok m' -> wf_ha m'.
  Proof.
    intros W. unfold spec_set. destruct nm as [|d [|n [|x r]]]; try discriminate.
    destruct value as [v|v dct| | | |]; try discriminate; intros E; inversion E; subst m'; apply wf_ha_write; try assumption.
    - destruct (is_none v); [|apply Hidem].
      destruct (ha_get m (d, n)) as [s|] eqn:Eg; [exact (W _ _ Eg) | apply Hidem].
    - apply Hidem.
  Qed.

  Lemma spec_setattr_wf m nm v m' : wf_ha m -> spec_setattr H now m nm v = Ok m' -> wf_ha m'.
  Proof.
    intros W. unfold spec_setattr. destruct nm as [|d [|n [|k [|x r]]]]; try discriminate.
    destruct (ha_get m (d, n)) as [s|] eqn:Eg; try discriminate.
    intros E; inversion E; subst m'. apply wf_ha_write; [assumption | exact (W _ _ Eg)].
  Qed.

  Lemma spec_delete_wf m nm m' : wf_ha m -> spec_delete H now m nm = Ok m' -> wf_ha m'.
  Proof.
    intros W. unfold spec_delete. destruct nm as [|d [|n [|k [|x r]]]]; try discriminate.
    - destruct (ha_get m (d, n)); try discriminate. intros E; inversion E; subst m'. apply wf_ha_del; assumption.
    - destruct (ha_get m (d, n)) as [s|] eqn:Eg; try discriminate.
      destruct (amem k (hs_attrs s)); try discriminate.
      intros E; inversion E; subst m'. apply wf_ha_write; [assumption | exact (W _ _ Eg)].
  Qed.

  Lemma spec_assign_wf locals st parts rhs st' : wf_state st ->
    spec_assign H funcs now locals st parts rhs = Ok st' -> wf_state st'.
  Proof.
    intros [W Ws]. unfold spec_assign.
    assert (Wg : forall g, wf_state (with_globals st g)) by (intros g; split; assumption).
    assert (Wh : forall m, wf_ha m -> wf_state (with_ha st m)) by (intros m Wm; split; assumption).
    destruct parts as [|d [|n [|k [|x r]]]]; try discriminate.
    - destruct (denote funcs locals st d n) as [o|o| |].
      + destruct rhs; try discriminate. intros E; inversion E; subst; split; assumption.
      + destruct rhs; try discriminate. intros E; inversion E; subst. apply Wg.
      + destruct rhs; try discriminate; intros E; inversion E; subst; apply Wh; apply wf_ha_write; try assumption; apply Hidem.
      + destruct rhs; try discriminate; intros E; inversion E; subst; apply Wh; apply wf_ha_write; try assumption; apply Hidem.
    - destruct (denote funcs locals st d n) as [o|o| |]; try discriminate.
      all: destruct rhs; try discriminate.
      all: destruct (ha_get (ms_ha st) (d, n)) as [s|] eqn:Eg; try discriminate.
      all: intros E; inversion E; subst; apply Wh; apply wf_ha_write; [assumption | exact (W _ _ Eg)].
  Qed.

  Lemma spec_del_expr_wf locals st parts st' : wf_state st ->
    spec_del_expr H funcs now locals st parts = Ok st' -> wf_state st'.
  Proof.
    intros [W Ws]. unfold spec_del_expr.
    assert (Wg : forall g, wf_state (with_globals st g)) by (intros g; split; assumption).
    assert (Wd : forall nm, match spec_delete H now (ms_ha st) nm with Ok m => Ok (with_ha st m) | Raise x => Raise x end = Ok st' ->
                            wf_state st').
    { intros nm. destruct (spec_delete H now (ms_ha st) nm) as [m|x] eqn:Ed; try discriminate.
      intros E; inversion E; subst. split; [cbn; eapply spec_delete_wf; eassumption | exact Ws]. }
    destruct parts as [|d [|n [|k [|x r]]]]; try discriminate.
    - destruct (denote funcs locals st d n) as [o|o| |].
      + destruct (amem n o); try discriminate. intros E; inversion E; subst; split; assumption.
      + destruct (amem n o); try discriminate. intros E; inversion E; subst. apply Wg.
      + apply Wd.
      + apply Wd.
    - destruct (denote funcs locals st d n) as [o|o| |]; try discriminate; apply Wd.
  Qed.

  Lemma ext_op_wf st x : wf_state st -> wf_state (ext_op H now st x).
  Proof.
    intros [W Ws]. destruct x as [e v a|e|e|e|e|]; cbn [ext_op].
    - split; [cbn; unfold ha_async_set; apply wf_ha_write; [assumption | apply Hidem] | exact Ws].
    - split; [|exact Ws]. cbn. unfold ha_async_remove. destruct (ha_get (ms_ha st) e); cbn [snd]; [apply wf_ha_del|]; assumption.
    - destruct (mem_ename e (ms_svcs st)); split; assumption.
    - destruct (mem_ename e (ms_svcs st)); split; assumption.
    - split; assumption.
    - split; assumption.
  Qed.

  Lemma spec_step_wf st s : wf_state st -> wf_state (snd (spec_step H funcs now st s)).
  Proof.
    intros W. destruct s as [x|locals o]; cbn [spec_step snd]; [apply ext_op_wf; assumption|].
    destruct W as [Wh Ws]. assert (W : wf_state st) by (split; assumption).
    destruct o; cbn [spec_op].
    - destruct (dn_len_ok e); [|exact W]. apply capture_wf; [exact W|].
      intros p E. destruct (spec_read H funcs locals st (dn_parts e)) as [p'|x] eqn:Er; inversion E; subst.
      eapply spec_read_wf; eassumption.
    - apply capture_wf; [exact W|].
      intros p E. destruct (spec_get H st nm) as [p'|x] eqn:Er; inversion E; subst.
      eapply spec_get_wf; eassumption.
    - destruct (dn_len_ok e); [|exact W]. apply lift_st_wf; [exact W|]. intros st' E. eapply spec_assign_wf; eassumption.
    - apply lift_ha_wf; [exact W|]. intros m E. eapply spec_set_wf; eassumption.
    - apply lift_ha_wf; [exact W|]. intros m E. eapply spec_setattr_wf; eassumption.
    - destruct (dn_len_ok e); [|exact W]. apply lift_st_wf; [exact W|]. intros st' E. eapply spec_del_expr_wf; eassumption.
    - apply lift_ha_wf; [exact W|]. intros m E. eapply spec_delete_wf; eassumption.
    - exact W.
    - exact W.
    - exact W.
    - exact W.
    - exact W.
    - exact W.
  Qed.

  End Step.

  (* C16, main statement: for every sequence of script operations and external changes, started in any state whose
     stored values are strings, the Model of the code (switches off) yields the same outputs and the same final
     state as the documented rules.  Induction over the sequence; the invariant is carried along. *)
  Theorem run_refines : forall steps now st, wf_state st ->
    run_model {| cf_dev := all_off; cf_host := H; cf_funcs := funcs |} now st steps
    = run_spec H funcs now st steps.
  Proof.
    induction steps as [|s r IH]; intros now st W; cbn [run_model run_spec]; [reflexivity|].
    rewrite (model_step_spec H funcs now Hidem Hnn st s W).
    rewrite IH by (apply spec_step_wf; exact W). reflexivity.
  Qed.
End Preserve.

(* ---------- captured snapshots never change ---------- *)
Definition writes_slot (j : N) (s : step) : bool :=
  match s with
  | SScript _ (ORead _ (Some j')) | SScript _ (OGet _ (Some j')) => N.eqb j j'
  | _ => false
  end.

Ltac break_goal :=
  repeat match goal with
         | |- context [match ?x with _ => _ end] => destruct x eqn:?
         end.

Lemma capture_slots st cap r j : match cap with Some j' => N.eqb j j' = false | None => True end ->
  slot_get j (ms_slots (snd (capture st cap r))) = slot_get j (ms_slots st).
Proof.
  intros Hc. unfold capture. destruct r as [p| |x]; cbn [snd]; try reflexivity.
  destruct cap as [j'|]; [|reflexivity].
  destruct p; cbn [snd with_slots ms_slots]; rewrite ?slot_get_set, ?Hc; reflexivity.
Qed.

Lemma lift_ha_slots st r : ms_slots (snd (lift_ha st r)) = ms_slots st.
Proof. destruct r; reflexivity. Qed.

Lemma lift_st_slots st r : (forall st', r = Ok st' -> ms_slots st' = ms_slots st) -> ms_slots (snd (lift_st st r)) = ms_slots st.
Proof. intros Hr. destruct r as [st'|x]; cbn [lift_st snd]; [apply Hr; reflexivity | reflexivity]. Qed.

Lemma assign_dn_slots cf locals st now e val st' : assign_dn cf locals st now e val = Ok st' -> ms_slots st' = ms_slots st.
Proof.
  unfold assign_dn, set_var_attr. intros E.
  repeat match type of E with
         | context [match ?x with _ => _ end] => destruct x eqn:?
         end; inversion E; subst; reflexivity.
Qed.

Lemma delete_dn_slots cf locals st now e st' : delete_dn cf locals st now e = Ok st' -> ms_slots st' = ms_slots st.
Proof.
  unfold delete_dn, del_var_attr, state_delete_st. intros E.
  repeat match type of E with
         | context [match ?x with _ => _ end] => destruct x eqn:?
         | context [if ?x then _ else _] => destruct x eqn:?
         end; inversion E; subst; reflexivity.
Qed.

Lemma model_step_slots cf now st s j : writes_slot j s = false ->
  slot_get j (ms_slots (snd (model_step cf now st s))) = slot_get j (ms_slots st).
Proof.
  intros Hw. destruct s as [x|locals o]; cbn [model_step snd].
  - destruct x; cbn [ext_op]; try reflexivity; destruct (mem_ename e (ms_svcs st)); reflexivity.
  - destruct o; cbn [model_op]; cbn [writes_slot] in Hw; try reflexivity.
    + destruct (dn_len_ok e); [|reflexivity]. apply capture_slots. destruct cap; [exact Hw | exact I].
    + apply capture_slots. destruct cap; [exact Hw | exact I].
    + destruct (dn_len_ok e); [|reflexivity]. rewrite lift_st_slots; [reflexivity|]. intros st'. apply assign_dn_slots.
    + rewrite lift_ha_slots. reflexivity.
    + rewrite lift_ha_slots. reflexivity.
    + destruct (dn_len_ok e); [|reflexivity]. rewrite lift_st_slots; [reflexivity|]. intros st'. apply delete_dn_slots.
    + rewrite lift_ha_slots. reflexivity.
Qed.

Lemma run_model_slots cf steps : forall now st j, forallb (fun s => negb (writes_slot j s)) steps = true ->
  slot_get j (ms_slots (snd (run_model cf now st steps))) = slot_get j (ms_slots st).
Proof.
  induction steps as [|s r IH]; intros now st j Hall; cbn [run_model snd]; [reflexivity|].
  cbn [forallb] in Hall. apply andb_true_iff in Hall. destruct Hall as [Hs Hr].
  rewrite IH by exact Hr. apply model_step_slots. destruct (writes_slot j s); [discriminate | reflexivity].
Qed.

(* A snapshot captured from entity d.n (by state.get; reading the name is the same by C16_priority) holds exactly the
   value and attributes the entity had at that moment, and reading the variable after ANY later sequence of script
   operations and external changes that does not reassign the variable returns exactly that snapshot. *)
Theorem snapshot_immutable : forall cf now st d n j s later,
  ha_get (ms_ha st) (d, n) = Some s ->
  forallb (fun x => negb (writes_slot j x)) later = true ->
  let snap := stateval_new (cf_host cf) (d, n) s in
  let st1 := snd (model_step cf now st (SScript [] (OGet [d; n] (Some j)))) in
  let st2 := snd (run_model cf (N.succ now) st1 later) in
  forall now', fst (model_step cf now st (SScript [] (OGet [d; n] (Some j)))) = Some (Ok snap) /\
  fst (model_step cf now' st2 (SScript [] (OReadSlot j))) = Some (Ok snap).
Proof.
  intros cf now st d n j s later Eg Hl. cbn zeta. intros now'.
  assert (E1 : model_step cf now st (SScript [] (OGet [d; n] (Some j)))
               = (Some (Ok (stateval_new (cf_host cf) (d, n) s)),
                  with_slots st (slot_set j (stateval_new (cf_host cf) (d, n) s) (ms_slots st)))).
  { cbn [model_step model_op state_get]. rewrite Eg. reflexivity. }
  rewrite E1. cbn [fst snd]. split; [reflexivity|].
  cbn [model_step model_op fst]. rewrite run_model_slots by exact Hl.
  cbn [with_slots ms_slots]. rewrite slot_get_set, N.eqb_refl. reflexivity.
Qed.

(* ---------- priority: Python variables > functions and existing services > state names ---------- *)
Definition is_pyvar (locals : pyvars) (st : mstate) (d : ident) (o : attrs) : Prop :=
  vlookup d locals = Some o \/ (vlookup d locals = None /\ vlookup d (ms_globals st) = Some o).
Definition no_pyvar (locals : pyvars) (st : mstate) (d : ident) : Prop :=
  vlookup d locals = None /\ vlookup d (ms_globals st) = None.

Theorem priority : forall cf locals st d n,
  (* a local or global Python variable d: d.n is the object's attribute, whatever states, services, functions exist;
     assigning d.n leaves the state machine alone *)
  (forall o, is_pyvar locals st d o ->
     aeval_dn cf locals st (DAttr (DHead d) n) = of_res (obj_attr o n) /\
     forall now val st', assign_dn cf locals st now (DAttr (DHead d) n) val = Ok st' ->
                     ms_ha st' = ms_ha st /\ ms_svcs st' = ms_svcs st) /\
  (* otherwise a pyscript function name or an existing service wins over a state of the same name *)
  (no_pyvar locals st d -> mem_ename (d, n) (cf_funcs cf) || mem_ename (d, n) (ms_svcs st) = true ->
     aeval_dn cf locals st (DAttr (DHead d) n) = EV PFunc) /\
  (* otherwise the name is the state variable *)
  (no_pyvar locals st d -> mem_ename (d, n) (cf_funcs cf) || mem_ename (d, n) (ms_svcs st) = false ->
     aeval_dn cf locals st (DAttr (DHead d) n) = of_res (state_get (cf_host cf) (ms_svcargs st) (ms_ha st) [d; n])).
Proof.
  intros cf locals st d n. split; [|split].
  - intros o Hv. split.
    + cbn [aeval_dn]. unfold collapse. cbn [dn_head]. unfold ast_name_plain.
      destruct Hv as [Hl|[Hl Hg]]; rewrite Hl; [|rewrite Hg]; reflexivity.
    + intros now val st'. cbn [assign_dn]. unfold collapse. cbn [dn_head]. unfold ast_name_plain, set_var_attr.
      destruct Hv as [Hl|[Hl Hg]]; rewrite Hl; [|rewrite Hg]; destruct val; intros E; inversion E; subst; split; reflexivity.
  - intros [Hl Hg] Hc. cbn [aeval_dn]. unfold collapse. cbn [dn_head dn_parts app]. unfold ast_name_plain.
    rewrite Hl, Hg. unfold ast_name_dotted, function_get. rewrite Hc. reflexivity.
  - intros [Hl Hg] Hc. cbn [aeval_dn]. unfold collapse. cbn [dn_head dn_parts app]. unfold ast_name_plain.
    rewrite Hl, Hg. unfold ast_name_dotted, function_get. rewrite Hc.
    destruct (state_get (cf_host cf) (ms_svcargs st) (ms_ha st) [d; n]); reflexivity.
Qed.

(* with D7 repaired, del d.n on a Python variable does not touch the state machine either *)
Theorem priority_del : forall cf locals st now d n o st',
  d_del_ignores_pyvar (cf_dev cf) = false -> is_pyvar locals st d o ->
  delete_dn cf locals st now (DAttr (DHead d) n) = Ok st' -> ms_ha st' = ms_ha st /\ ms_svcs st' = ms_svcs st.
Proof.
  intros cf locals st now d n o st' Hd Hv. cbn [delete_dn]. rewrite Hd. unfold collapse. cbn [dn_head]. unfold ast_name_plain, del_var_attr.
  destruct Hv as [Hl|[Hl Hg]]; rewrite Hl; [|rewrite Hg].
  - destruct (amem n o); intros E; inversion E; subst; split; reflexivity.
  - destruct (amem n o); intros E; inversion E; subst; split; reflexivity.
Qed.

(* ---------- host tables ---------- *)
Lemma tlookup_in k x t : tlookup k t = Some x -> In (k, x) t.
Proof.
  induction t as [|[k0 x0] r IH]; cbn [tlookup]; [discriminate|].
  destruct (N.eqb k k0) eqn:E; [apply N.eqb_eq in E; subst; intros E'; inversion E'; left; reflexivity | intros E'; right; auto].
Qed.

Lemma strtab_ok_hyps t et vt vf eqt sa pa : strtab_ok t = true ->
  let H := mk_host t eqt et vt vf sa pa in
  (forall v, h_str H (h_str H v) = h_str H v) /\ (forall v, h_str H v <> v_none).
Proof.
  intros Hok. cbn zeta. cbn [mk_host h_str]. unfold strtab_ok in Hok. apply andb_true_iff in Hok. destruct Hok as [Hall H0].
  rewrite forallb_forall in Hall.
  assert (Himg : forall k x, tlookup k t = Some x -> table_fn t x = x /\ x <> 0%N).
  { intros k x E. specialize (Hall (k, x) (tlookup_in _ _ _ E)). cbn [snd] in Hall.
    apply andb_true_iff in Hall. destruct Hall as [Ha Hb]. apply N.eqb_eq in Ha. apply negb_true_iff in Hb. apply N.eqb_neq in Hb. auto. }
  split; intros v; unfold table_fn.
  - destruct (tlookup v t) as [x|] eqn:E.
    + destruct (Himg v x E) as [Hx _]. unfold table_fn in Hx. exact Hx.
    + rewrite E. reflexivity.
  - unfold v_none. destruct (tlookup v t) as [x|] eqn:E.
    + destruct (Himg v x E) as [_ Hx]. exact Hx.
    + intros ->. rewrite E in H0. discriminate.
Qed.

Lemma wf_ha_forallb (H : host) m :
  forallb (fun p : ename * hastate => N.eqb (h_str H (hs_val (snd p))) (hs_val (snd p))) m = true -> wf_ha H m.
Proof.
  induction m as [|[e0 s0] r IH]; intros Hall e s E; cbn [ha_get] in E; [discriminate|].
  cbn [forallb fst snd] in Hall. apply andb_true_iff in Hall. destruct Hall as [H0 Hr].
  destruct (ename_eqb e e0); [inversion E; subst; apply N.eqb_eq; exact H0 | exact (IH Hr e s E)].
Qed.

Lemma wf_slots_forallb t :
  forallb (fun p : N * pyval => match snd p with PSnap v _ => negb (is_none v) | _ => true end) t = true -> wf_slots t.
Proof.
  induction t as [|[j0 p0] r IH]; intros Hall j; cbn [slot_get]; [exact I|].
  cbn [forallb snd] in Hall. apply andb_true_iff in Hall. destruct Hall as [H0 Hr].
  destruct (N.eqb j j0); [|exact (IH Hr j)].
  destruct p0; cbn [wf_val]; try exact I. apply negb_true_iff. exact H0.
Qed.

(* ---------- non-vacuity and the refutations ---------- *)
Definition ex_host : host :=
  mk_host [(0, 27); (10, 10); (11, 11); (15, 15); (16, 15); (19, 20); (20, 20); (27, 27)]%N [(19, 16)]%N
          [((1, 10), 500); ((1, 11), 501); ((3, 10), 512)]%N 19%N 21%N [24]%N [(10, 24); (11, 24)]%N.
Definition ex_state : mstate :=
  {| ms_ha := [((1, 10), mk_hs 10 [(20, 16); (21, 11)] 1 2 3); ((3, 10), mk_hs 11 [] 1 1 1)]%N; ms_svcs := [(1, 14); (1, 13)]%N; ms_esvcs := [(1, 13)]%N; ms_svcargs := [(1, 13)]%N;
     ms_globals := [(3, [(10, 15)])]%N; ms_slots := [(0, PVal 0)]%N |}.
Definition ex_funcs : list ename := state_function_names.
Definition ex_cfg (dv : deviations) : config :=
  {| cf_dev := dv; cf_host := ex_host; cf_funcs := ex_funcs |}.

(* the hypotheses of [run_refines] hold for a concrete host and a non-trivial state *)
Example host_table_ok :
  (forall v, h_str ex_host (h_str ex_host v) = h_str ex_host v) /\ (forall v, h_str ex_host v <> v_none) /\
  wf_state ex_host ex_state.
Proof.
  destruct (strtab_ok_hyps [(0, 27); (10, 10); (11, 11); (15, 15); (16, 15); (19, 20); (20, 20); (27, 27)]%N
              [((1, 10), 500); ((1, 11), 501); ((3, 10), 512)]%N 19%N 21%N [(19, 16)]%N [24]%N [(10, 24); (11, 24)]%N eq_refl) as [A B].
  split; [exact A | split; [exact B|]].
  split; [apply wf_ha_forallb | apply wf_slots_forallb]; reflexivity.
Qed.

(* a run that exercises capture, an external change, assignment, attribute assignment, state.set, a re-read *)
Definition ex_steps : list step :=
  [ SScript [] (ORead (DAttr (DHead 1) 10) (Some 0));
    SExt (XSet (1, 10) 11 [(20, 19)]);
    SScript [] (OAssign (DAttr (DHead 1) 11) (VSlot 0));
    SScript [] (OAssign (DAttr (DAttr (DHead 1) 10) 21) (VLit 16));
    SScript [] (OSet [1; 10] None (Some (Some [(22, 10)])) [(20, 16)]);
    SScript [] (ODel (DAttr (DAttr (DHead 1) 11) 20));
    SScript [] (OReadSlot 0) ]%N.
Example ex_run_nontrivial :
  ms_ha (snd (run_model (ex_cfg all_off) 4 ex_state ex_steps))
  = [((1, 10), mk_hs 11 [(22, 10); (20, 16)] 5 8 8); ((3, 10), mk_hs 11 [] 1 1 1); ((1, 11), mk_hs 10 [(21, 11)] 6 9 9)]%N
  /\ nth_error (fst (run_model (ex_cfg all_off) 4 ex_state ex_steps)) 6
     = Some (Some (Ok (PSnap 10 [(20, 16); (21, 11); (100, 500); (102, 100002); (101, 100001); (103, 100003)])))%N.
Proof. split; vm_compute; reflexivity. Qed.

(* D160: with the switch on (today's code) `pvd.e0 = None` keeps the old value; the rules demand "None" *)
Theorem refuted_D160 :
  exists steps, wf_state ex_host ex_state /\
    run_model (ex_cfg (only 160)) 4 ex_state steps <> run_spec ex_host ex_funcs 4 ex_state steps.
Proof.
  exists [SScript [] (OAssign (DAttr (DHead 1%N) 10%N) (VLit 0%N))]. split; [apply host_table_ok|].
  intros E. vm_compute in E. discriminate E.
Qed.

(* D161: `pvd.e0.value = 1` sets the state value instead of the attribute `value` *)
Theorem refuted_D161 :
  exists steps, wf_state ex_host ex_state /\
    run_model (ex_cfg (only 161)) 4 ex_state steps <> run_spec ex_host ex_funcs 4 ex_state steps.
Proof.
  exists [SScript [] (OAssign (DAttr (DAttr (DHead 1%N) 10%N) set_param_value) (VLit 16%N))]. split; [apply host_table_ok|].
  intros E. vm_compute in E. discriminate E.
Qed.

(* D7: `del pvg.e0` with pvg a global Python object deletes the state entity pvg.e0 *)
Theorem refuted_D7 :
  exists steps, wf_state ex_host ex_state /\
    run_model (ex_cfg (only 7)) 4 ex_state steps <> run_spec ex_host ex_funcs 4 ex_state steps.
Proof.
  exists [SScript [] (ODel (DAttr (DHead 3%N) 10%N))]. split; [apply host_table_ok|].
  intros E. vm_compute in E. discriminate E.
Qed.

(* instances of the hypotheses of [priority] and [snapshot_immutable] *)
Example priority_instance :
  is_pyvar [] ex_state 3%N [(10, 15)]%N /\ no_pyvar [] ex_state 1%N /\
  aeval_dn (ex_cfg all_off) [] ex_state (DAttr (DHead 3%N) 10%N) = EV (PVal 15%N) /\
  aeval_dn (ex_cfg all_off) [] ex_state (DAttr (DHead 1%N) 14%N) = EV PFunc /\
  aeval_dn (ex_cfg all_off) [] ex_state (DAttr (DHead 4%N) 15%N) = EV PFunc.
Proof. repeat split; try (right; split; reflexivity); vm_compute; reflexivity. Qed.
