(* Proofs/TimeNextMain.v — every specification of the proved fragment, lists of specifications, and the corollaries. *)
From Coq Require Import ZArith List Bool Lia.
From PV Require Import Common.Civil Proofs.Civil Time.DtExpr Time.Next Gen.TimeConsts Proofs.TimeNext Proofs.TimeNextOnce Proofs.TimeNextPeriod.
Import ListNotations.
Local Open Scope Z_scope.
Ltac Zify.zify_post_hook ::= Z.to_euclidean_division_equations.

Section Main.
  Variable scale : N -> Z.
  Variable sun : Z -> bool -> option Z.
  Variable cron_next : cronx -> Z -> Z.
  Variable lu ul : Z -> Z.
  Variable cfg : deviations.
  Hypothesis Hmd : d_once_md_this_year cfg = false.
  Hypothesis Hsu : d_su_coincidence cfg = false.
  Hypothesis Htz : d_period_wallclock cfg = true \/ tz_const lu ul.

  Let elapsed := negb (d_period_wallclock cfg).
  Notation next1 := (next_one scale sun cron_next lu ul cfg false).
  Notation den := (denotes scale sun lu ul elapsed).

  Lemma inst_undated_iff e yearly su now t : expr_ok e = true -> fixed_date e = false ->
    inst scale sun e yearly su now t <-> exists day, t = midnight day + tod_off scale e.
  Proof.
    intros OK UF.
    assert (de_date e = DNone /\ uses_now e = false) as (Ed & Un).
    { unfold fixed_date in UF. destruct (de_date e); try discriminate. split; [reflexivity|exact UF]. }
    assert (no_sun e = true) as NS by (unfold expr_ok in OK; rewrite !andb_true_iff in OK; tauto).
    unfold inst. rewrite Ed. cbn [day_denoted]. split; intros (day & H).
    - exists day. destruct H as (_ & H). apply (time_on_iff scale sun e su day t NS) in H.
      unfold uses_now in Un. destruct (de_time e); try discriminate; exact H.
    - exists day. split; [exact I|]. apply (time_on_iff scale sun e su day t NS).
      unfold uses_now in Un. destruct (de_time e); try discriminate; exact H.
  Qed.

  Lemma once_successor e now su : in_fragment scale (Once e) = true ->
    exists r, next1 (Once e) now su = ROk r /\ successor_of (den (Once e) su now) now su r.
  Proof.
    cbn [in_fragment next_one denotes]. rewrite andb_true_iff. intros (OK & MD).
    destruct (is_monthday e) eqn:IM.
    - assert (exists m dd, de_date e = DMonthDay m dd) as (m & dd & Ed).
      { unfold is_monthday in IM. destruct (de_date e); try discriminate. eexists; eexists; reflexivity. }
      rewrite andb_true_iff, !Z.leb_le in MD.
      apply (once_monthday scale sun cfg Hmd e now su m dd OK Ed). lia.
    - destruct (single e) eqn:SG; [apply (once_single scale sun cfg e now su OK SG)|].
      apply (once_daily scale sun cfg Hsu e now su OK).
      unfold single, is_monthday, fixed_date, uses_now in *.
      destruct (de_time e); destruct (de_date e); try discriminate; reflexivity.
  Qed.

  Lemma nothing_successor (D : Z -> Prop) now su : (forall t, ~ D t) -> successor_of D now su None.
  Proof. intros H t' _. apply H. Qed.

  Lemma period_open_successor st iv now su : in_fragment scale (Period st iv None) = true ->
    exists r, next1 (Period st iv None) now su = ROk r /\ successor_of (den (Period st iv None) su now) now su r.
  Proof.
    cbn [in_fragment next_one denotes]. rewrite andb_true_iff. intros (OK & FR).
    destruct (amount_us_exact scale iv) as [P|] eqn:EP; [|discriminate].
    destruct (P <=? 0) eqn:LP.
    { apply Z.leb_le in LP. eexists. split; [reflexivity|]. apply nothing_successor.
      intros t (P' & S' & E' & HP' & _). rewrite EP in E'. inversion E'. subst P'. clear FR. lia. }
    apply Z.leb_gt in LP. rewrite (period_open_val scale sun lu ul cfg Htz st P now su OK).
    eexists. split; [reflexivity|].
    destruct (fixed_date st) eqn:FX.
    - eapply successor_ext; [|apply (open_successor (on_day scale st (day_of now + 0) now su) P now su LP)].
      intros t. cbv beta iota. split.
      + intros (k & Hk & ->). exists P, (on_day scale st (day_of now + 0) now su). split; [exact EP|]. split; [exact LP|]. split.
        * apply (inst_fixed_iff scale sun st now su _ OK FX). unfold on_day. rewrite FX. reflexivity.
        * apply (grid_iff sun lu ul cfg Htz). exists k. split; [exact Hk|reflexivity].
      + intros (P' & S' & E' & HP' & HI & HG). rewrite EP in E'; inversion E'; subst P'.
        apply (inst_fixed_iff scale sun st now su _ OK FX) in HI. apply (grid_iff sun lu ul cfg Htz) in HG.
        destruct HG as (k & Hk & ->). exists k. split; [exact Hk|]. unfold on_day. rewrite FX, HI. reflexivity.
    - replace ((P <=? 0)) with false in FR by (symmetry; apply Z.leb_gt; exact LP). cbn [orb] in FR.
      rewrite !andb_true_iff, Z.leb_le, Z.ltb_lt, Z.eqb_eq in FR. destruct FR as ((C1 & C2) & C3).
      unfold on_day. rewrite FX.
      eapply successor_ext; [|apply (open_successor_daily (tod_off scale st) P now su LP (conj C1 C2) C3)].
      intros t. cbv beta iota. split.
      + intros (day & k & Hk & ->). exists P, (midnight day + tod_off scale st). split; [exact EP|]. split; [exact LP|]. split.
        * apply (inst_undated_iff st false su now _ OK FX). exists day. reflexivity.
        * apply (grid_iff sun lu ul cfg Htz). exists k. split; [exact Hk|reflexivity].
      + intros (P' & S' & E' & HP' & HI & HG). rewrite EP in E'; inversion E'; subst P'.
        apply (inst_undated_iff st false su now _ OK FX) in HI. destruct HI as (day & ->).
        apply (grid_iff sun lu ul cfg Htz) in HG. destruct HG as (k & Hk & ->). exists day, k. split; [exact Hk|reflexivity].
  Qed.

  Lemma ltb_add_l a x y : (a + x <? a + y) = (x <? y).
  Proof. destruct (x <? y) eqn:E; [apply Z.ltb_lt in E; apply Z.ltb_lt; lia|apply Z.ltb_ge in E; apply Z.ltb_ge; lia]. Qed.

  Lemma period_closed_successor st iv en now su : in_fragment scale (Period st iv (Some en)) = true ->
    exists r, next1 (Period st iv (Some en)) now su = ROk r /\ successor_of (den (Period st iv (Some en)) su now) now su r.
  Proof.
    cbn [in_fragment next_one denotes]. rewrite !andb_true_iff. intros ((OKs & OKe) & FR).
    destruct (amount_us_exact scale iv) as [P|] eqn:EP; [|discriminate].
    destruct (P <=? 0) eqn:LP.
    { apply Z.leb_le in LP. eexists. split; [reflexivity|]. apply nothing_successor.
      intros t (P' & E' & HP' & _). rewrite EP in E'. inversion E'. subst P'. clear FR. lia. }
    apply Z.leb_gt in LP. rewrite (period_closed_val scale sun lu ul cfg Htz st en P now su OKs OKe).
    eexists. split; [reflexivity|].
    destruct (fixed_date st || fixed_date en) eqn:FX.
    - replace (negb (fixed_date st) && negb (fixed_date en)) with false
        by (destruct (fixed_date st); destruct (fixed_date en); try discriminate; reflexivity).
      unfold dither_dated. change (0%Z :: nil) with [0].
      set (S := on_day scale st (day_of now + 0) now su). set (E := on_day scale en (day_of now + (0 + 0)) now su).
      change (dither_pure [0] (fun d : Z => on_day scale st (day_of now + d) now su)
                (fun d : Z => on_day scale en (day_of now + (d + 0)) now su) P now su)
        with (dither_pure [0] (fun _ : Z => S) (fun _ : Z => E) P now su).
      eapply successor_ext; [|apply (closed_successor S E P now su LP)].
      assert (S = on_day scale st (day_of now) now su /\ E = on_day scale en (day_of now) now su) as (ES & EE).
      { subst S E. replace (day_of now + (0 + 0)) with (day_of now) by lia. replace (day_of now + 0) with (day_of now) by lia. tauto. }
      intros t. cbv beta iota. split.
      + intros (k & Hk & -> & Hle). exists P. split; [exact EP|]. split; [exact LP|]. rewrite FX. exists S, E.
        split; [apply (inst_on_iff scale sun st _ now su _ OKs); exact ES|].
        split; [apply (inst_on_iff scale sun en _ now su _ OKe); exact EE|].
        split; [apply (grid_iff sun lu ul cfg Htz); exists k; split; [exact Hk|reflexivity]|exact Hle].
      + intros (P' & E' & HP' & H). rewrite FX in H. destruct H as (S' & E2 & HS & HE & HG & Hle). rewrite EP in E'; inversion E'; subst P'.
        apply (inst_on_iff scale sun st _ now su _ OKs) in HS. apply (inst_on_iff scale sun en _ now su _ OKe) in HE.
        apply (grid_iff sun lu ul cfg Htz) in HG. destruct HG as (k & Hk & ->).
        exists k. split; [exact Hk|]. rewrite ES, EE, <- HS, <- HE. split; [reflexivity|exact Hle].
    - rewrite orb_false_iff in FX. destruct FX as (FS & FE).
      unfold in_day in FR. rewrite !andb_true_iff, !Z.leb_le, !Z.ltb_lt in FR. destruct FR as ((C1 & C2) & (C3 & C4)).
      rewrite FS, FE. cbn [negb andb]. unfold dither_undated. change ((-1)%Z :: 0%Z :: 1%Z :: nil) with [-1; 0; 1].
      unfold on_day. rewrite FS, FE. cbv zeta. rewrite ltb_add_l.
      set (cs := tod_off scale st) in *. set (ce := tod_off scale en) in *.
      eapply successor_ext; [|apply (windows_successor cs ce P now su LP (conj C1 C2) (conj C3 C4))].
      intros t. cbv beta iota zeta. split.
      + intros (D & k & Hk & -> & Hle). exists P. split; [exact EP|]. split; [exact LP|]. rewrite FS, FE. cbn [orb].
        exists D, (midnight D + cs), (midnight D + ce), (midnight (D + (if ce <? cs then 1 else 0)) + ce).
        split; [apply (inst_on_iff scale sun st D now su _ OKs); unfold on_day; rewrite FS; reflexivity|].
        split; [apply (inst_on_iff scale sun en D now su _ OKe); unfold on_day; rewrite FE; reflexivity|].
        split; [rewrite ltb_add_l; destruct (ce <? cs); unfold midnight; ring|].
        split; [apply (grid_iff sun lu ul cfg Htz); exists k; split; [exact Hk|reflexivity]|exact Hle].
      + intros (P' & E' & HP' & H). rewrite FS, FE in H. cbn [orb] in H. destruct H as (D & S' & E0 & E2 & HS & HE & HE2 & HG & Hle).
        rewrite EP in E'; inversion E'; subst P'.
        apply (inst_on_iff scale sun st D now su _ OKs) in HS. apply (inst_on_iff scale sun en D now su _ OKe) in HE.
        unfold on_day in HS, HE. rewrite FS in HS. rewrite FE in HE. subst S' E0.
        apply (grid_iff sun lu ul cfg Htz) in HG. destruct HG as (k & Hk & ->).
        exists D, k. split; [exact Hk|]. split; [reflexivity|].
        rewrite ltb_add_l in HE2. subst E2. fold cs ce in Hle. destruct (ce <? cs); unfold midnight in *; lia.
  Qed.

  Lemma cron_successor c now su : cron_ok cron_next c -> real_now lu now ->
    exists r, next1 (Cron c) now su = ROk r /\ successor_of (den (Cron c) su now) now su r.
  Proof.
    intros HC HR. cbn [next_one denotes]. change 200%nat with (S 199). cbn [cron_loop].
    destruct (HC now) as (L & M & MIN). cbv zeta in *.
    pose proof (HR _ L) as LU.
    replace (lu (cron_next c now) - lu now <=? 0) with false by (symmetry; apply Z.leb_gt; lia).
    eexists. split; [reflexivity|]. unfold successor_of. split; [left; exact L|]. split; [exact M|].
    intros t' L1 L2 H. cbn [denotes] in H. rewrite (MIN t' L1 L2) in H. discriminate.
  Qed.

  Lemma next_one_successor s now su : in_fragment scale s = true ->
    (forall c, s = Cron c -> cron_ok cron_next c /\ real_now lu now) ->
    exists r, next1 s now su = ROk r /\ successor_of (den s su now) now su r.
  Proof.
    intros FR HC. destruct s as [e|st iv [en|]|c].
    - apply once_successor; exact FR.
    - apply period_closed_successor; exact FR.
    - apply period_open_successor; exact FR.
    - destruct (HC c eq_refl) as (H1 & H2). apply cron_successor; assumption.
  Qed.

  (* ---------- lists of specifications ---------- *)
  Notation nextl := (next_list scale sun cron_next lu ul cfg false).
  Notation denl := (denotes_any scale sun lu ul elapsed).

  Notation specs_ok := (specs_ok scale cron_next lu).

  Lemma next_fold_successor specs now su : forall acc (D : Z -> Prop),
    (forall s, In s specs -> exists r, next1 s now su = ROk r /\ successor_of (den s su now) now su r) ->
    successor_of D now su acc ->
    exists r, next_fold scale sun cron_next lu ul cfg false specs now su acc = ROk r /\
              successor_of (fun t => D t \/ denl specs su now t) now su r.
  Proof.
    induction specs as [|s rest IH]; intros acc D HS HA.
    - exists acc. split; [reflexivity|]. eapply successor_ext; [|exact HA].
      intros t. split; [tauto|]. intros [H|(s & [] & _)]. exact H.
    - destruct (HS s (or_introl eq_refl)) as (r & ER & SR).
      cbn [next_fold]. rewrite ER. cbn [rbind].
      destruct (IH (upd acc r) (fun t => D t \/ den s su now t)) as (r' & ER' & SR').
      + intros s' Hin. apply HS. right. exact Hin.
      + apply successor_upd; assumption.
      + exists r'. split; [exact ER'|]. eapply successor_ext; [|exact SR'].
        intros t. unfold denotes_any. split.
        * intros [[H|H]|(s' & Hin & H)]; [left; exact H|right; exists s; split; [left; reflexivity|exact H]|
                                           right; exists s'; split; [right; exact Hin|exact H]].
        * intros [H|(s' & [<-|Hin] & H)]; [left; left; exact H|left; right; exact H|right; exists s'; split; assumption].
  Qed.

  Theorem next_list_successor specs now su : specs_ok specs now ->
    exists r, nextl specs now su = ROk r /\ successor_of (denl specs su now) now su r.
  Proof.
    intros (HF & HC). unfold next_list.
    destruct (next_fold_successor specs now su None (fun _ => False)) as (r & ER & SR).
    - intros s Hin. apply next_one_successor; [apply HF; exact Hin|]. intros c ->. apply HC. exact Hin.
    - intros t' _ H. exact H.
    - exists r. split; [exact ER|]. eapply successor_ext; [|exact SR]. intros t. tauto.
  Qed.


  (* the statement of property C06 spelled out *)
  Theorem next_list_successor_full specs now su : specs_ok specs now ->
    exists r, nextl specs now su = ROk r /\
      match r with
      | Some (t, _) =>
          (now < t \/ (t = now /\ now = su)) /\
          (exists s, In s specs /\ den s su now t) /\
          (forall t', now < t' -> t' < t -> forall s, In s specs -> ~ den s su now t')
      | None => forall t', now < t' -> forall s, In s specs -> ~ den s su now t'
      end.
  Proof.
    intros OK. destruct (next_list_successor specs now su OK) as (r & ER & SR). exists r. split; [exact ER|].
    destruct r as [[t a]|]; cbn [successor_of] in SR.
    - destruct SR as (H1 & H2 & H3). split; [exact H1|]. split; [exact H2|].
      intros t' L1 L2 s Hin H. apply (H3 t' L1 L2). exists s. split; assumption.
    - intros t' L s Hin H. apply (SR t' L). exists s. split; assumption.
  Qed.

  (* successive trigger times strictly increase *)
  Theorem next_strictly_increasing specs now now' su t a t' a' : specs_ok specs now' ->
    nextl specs now su = ROk (Some (t, a)) -> t <= now' -> now' <> su ->
    nextl specs now' su = ROk (Some (t', a')) -> t < t'.
  Proof.
    intros OK _ L NS E'. destruct (next_list_successor specs now' su OK) as (r & ER & SR).
    rewrite E' in ER. inversion ER; subst r. destruct SR as ([H|(H1 & H2)] & _); [lia|congruence].
  Qed.

  (* between two occurrences the answer does not change (for specifications whose meaning does not move with now) *)
  Theorem next_idempotent_between specs now now' su t a : specs_ok specs now -> specs_ok specs now' ->
    (forall x, denl specs su now x <-> denl specs su now' x) ->
    nextl specs now su = ROk (Some (t, a)) -> now <= now' -> now' < t -> now' <> su ->
    exists a', nextl specs now' su = ROk (Some (t, a')).
  Proof.
    intros OK OK' ST E L1 L2 NS.
    destruct (next_list_successor specs now su OK) as (r & ER & SR). rewrite E in ER. inversion ER; subst r. clear ER.
    destruct SR as (_ & DT & MIN).
    destruct (next_list_successor specs now' su OK') as (r' & ER' & SR'). rewrite ER'.
    destruct r' as [[t2 a2]|].
    - destruct SR' as ([G|(G1 & G2)] & DT2 & MIN2); [|congruence].
      destruct (Z.lt_trichotomy t2 t) as [LT|[EQ|GT]].
      + exfalso. apply (MIN t2); [lia|exact LT|apply ST; exact DT2].
      + subst t2. exists a2. reflexivity.
      + exfalso. apply (MIN2 t); [exact L2|exact GT|apply ST; exact DT].
    - exfalso. apply (SR' t L2). apply ST. exact DT.
  Qed.

  (* the successor is unique (away from the startup instant) *)
  Lemma successor_unique (D : Z -> Prop) now su r1 r2 : now <> su ->
    successor_of D now su r1 -> successor_of D now su r2 -> option_map fst r1 = option_map fst r2.
  Proof.
    intros NS H1 H2. destruct r1 as [[t1 a1]|]; destruct r2 as [[t2 a2]|]; cbn; try reflexivity.
    - destruct H1 as ([G1|(X & Y)] & D1 & M1); [|congruence]. destruct H2 as ([G2|(X & Y)] & D2 & M2); [|congruence].
      destruct (Z.lt_trichotomy t1 t2) as [LT|[EQ|GT]]; [exfalso; apply (M2 t1); assumption|subst; reflexivity|exfalso; apply (M1 t2); assumption].
    - destruct H1 as ([G1|(X & Y)] & D1 & M1); [|congruence]. exfalso. apply (H2 t1 G1 D1).
    - destruct H2 as ([G2|(X & Y)] & D2 & M2); [|congruence]. exfalso. apply (H1 t2 G2 D2).
  Qed.
End Main.
