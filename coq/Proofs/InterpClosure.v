(* Proofs/InterpClosure.v — C03 core 3: a strict run of pyscript's closure layout (symbol tables, cells captured by
   searching the run-time table stack, cells shared at call time) that does not stop with an anomaly is, step for step,
   the run of the reference (flat lexical closures, static name classification). *)
From Coq Require Import String ZArith.
From PV Require Import Common.Util Interp.Scope Interp.Closure Proofs.InterpScope.
From Coq Require Import Lia.

(* ---------- association lists ---------- *)
Lemma assoc_app {A} x (a b : list (ident * A)) :
  assoc x (a ++ b) = match assoc x a with Some v => Some v | None => assoc x b end.
Proof. induction a as [|[k v] r IH]; cbn; [reflexivity|]. destruct (String.eqb x k); [reflexivity|apply IH]. Qed.

Lemma assoc_keys {A} x (l : list (ident * A)) : is_some_b (assoc x l) = smem x (map fst l).
Proof.
  induction l as [|[k v] r IH]; cbn; [reflexivity|]. unfold smem in *. cbn. destruct (String.eqb x k); [reflexivity|apply IH].
Qed.

Lemma smem_app x a b : smem x (a ++ b) = smem x a || smem x b.
Proof. unfold smem. apply existsb_app. Qed.

Lemma smem_filter x (f : ident -> bool) l : smem x (filter f l) = smem x l && f x.
Proof.
  unfold smem. induction l as [|y r IH]; cbn [filter existsb]; [reflexivity|].
  destruct (String.eqb x y) eqn:E.
  - apply String.eqb_eq in E. subst y. destruct (f x) eqn:Ef; cbn [existsb orb andb].
    + rewrite String.eqb_refl. reflexivity.
    + rewrite IH. apply andb_false_r.
  - destruct (f y); cbn [existsb orb]; rewrite ?E; cbn [orb]; exact IH.
Qed.

Lemma smem_own_names x d L : smem x (own_names d L) = smem x (d_params d) || smem x L.
Proof.
  unfold own_names. rewrite smem_app, smem_filter. destruct (smem x (d_params d)); cbn; [reflexivity|]. apply andb_true_r.
Qed.

Lemma alloc_keys names : forall vals store, map fst (fst (alloc names vals store)) = names.
Proof.
  induction names as [|x r IH]; intros vals store; cbn [alloc]; [reflexivity|].
  specialize (IH (tl vals) (store ++ [match vals with v :: _ => Some v | [] => None end])).
  destruct (alloc r (tl vals) _) as [slots store']. cbn in *. rewrite IH. reflexivity.
Qed.

Lemma list_eqb_string_eq a b : list_eqb String.eqb a b = true -> a = b.
Proof. apply list_eqb_eq. intros x y. apply String.eqb_eq. Qed.

(* ---------- unfolding equations of the shared skeleton ---------- *)
Lemma ev_S P n stack fr e st :
  ev P (S n) stack fr e st =
  match e with
  | EConst z => Ok (VInt z) st
  | EVar x => match p_lookup P fr st x with LkVal v => Ok v st | LkErr => Err ENameErr | LkAnom k => Anomaly k end
  | EAdd a b =>
      match ev P n stack fr a st with
      | Ok va st1 =>
          match ev P n stack fr b st1 with
          | Ok vb st2 => match va, vb with VInt x, VInt y => Ok (VInt (x + y)) st2 | _, _ => Err ETypeErr end
          | o => o
          end
      | o => o
      end
  | ETr a => match ev P n stack fr a st with Ok v st1 => Ok v (log st1 v) | o => o end
  | EIfPos c a b =>
      match ev P n stack fr c st with
      | Ok (VInt z) st1 => if (0 <? z)%Z then ev P n stack fr a st1 else ev P n stack fr b st1
      | Ok _ _ => Err ETypeErr
      | o => o
      end
  | ECall f args =>
      match ev P n stack fr f st with
      | Ok vf st1 =>
          match ev_args P n stack fr args st1 with
          | Ok vs st2 =>
              match vf with
              | VClo d cap =>
                  match p_enter P d cap vs st2 with
                  | EntOk fr' st3 =>
                      let stack' := match fr with Some f => f :: stack | None => stack end in
                      match ex P n stack' (Some fr') (d_body d) st3 with
                      | Ok (Some v) st4 => Ok v st4
                      | Ok None st4 => Ok VNone st4
                      | Err e => Err e | Fuel => Fuel | Anomaly k => Anomaly k
                      end
                  | EntErr => Err ETypeErr
                  | EntAnom k => Anomaly k
                  end
              | VBuiltin b => match call_builtin b vs with Some z => Ok (VInt z) st2 | None => Err ETypeErr end
              | _ => Err ETypeErr
              end
          | Err e => Err e | Fuel => Fuel | Anomaly k => Anomaly k
          end
      | o => o
      end
  end.
Proof. reflexivity. Qed.

Lemma ev_args_S P n stack fr es st :
  ev_args P (S n) stack fr es st =
  match es with
  | [] => Ok [] st
  | e :: r =>
      match ev P n stack fr e st with
      | Ok v st1 => match ev_args P n stack fr r st1 with Ok vs st2 => Ok (v :: vs) st2 | o => o end
      | Err x => Err x | Fuel => Fuel | Anomaly k => Anomaly k
      end
  end.
Proof. reflexivity. Qed.

Lemma ex_S P n stack fr ss st :
  ex P (S n) stack fr ss st =
  match ss with
  | [] => Ok None st
  | s :: r =>
      match s with
      | SAssign x e =>
          match ev P n stack fr e st with
          | Ok v st1 => match p_assign P fr st1 x v with Some st2 => ex P n stack fr r st2 | None => Anomaly 0 end
          | Err x => Err x | Fuel => Fuel | Anomaly k => Anomaly k
          end
      | SExpr e =>
          match ev P n stack fr e st with
          | Ok _ st1 => ex P n stack fr r st1
          | Err x => Err x | Fuel => Fuel | Anomaly k => Anomaly k
          end
      | SReturn e =>
          match ev P n stack fr e st with
          | Ok v st1 => Ok (Some v) st1
          | Err x => Err x | Fuel => Fuel | Anomaly k => Anomaly k
          end
      | SDef d =>
          match p_capture P stack fr d st with
          | CapOk cap =>
              match p_assign P fr st (d_name d) (VClo d cap) with
              | Some st1 => ex P n stack fr r st1
              | None => Anomaly 0
              end
          | CapErr => Err ESyntaxErr
          | CapAnom k => Anomaly k
          end
      | SWrap w body =>
          match w with
          | WFor => ex P n stack fr (SAssign "w_"%string (EConst 0) :: body ++ r) st
          | _ => ex P n stack fr (body ++ r) st
          end
      end
  end.
Proof. reflexivity. Qed.

(* ---------- frames built by a call ---------- *)
Section Sim.
Variable cfg : sdeviations.
Let L := ps_policy cfg true false.
Let R := py_policy.

Definition frame_ok (f : frame) : Prop :=
  let d := fr_def f in
  map fst (fr_own f) = own_names d (py_locals_list d)
  /\ def_consistent cfg d = true
  /\ forallb (fun x => is_some_b (assoc x (fr_cap f))) (d_nonlocals d) = true.
Definition frame_ok' (fr : option frame) : Prop := match fr with Some f => frame_ok f | None => True end.

Lemma consistent_parts d : def_consistent cfg d = true ->
  ps_locals_list cfg d = py_locals_list d
  /\ (forall x, smem x (ps_raw_locals cfg d) = true ->
        smem x (d_globals d) || smem x (d_nonlocals d) || smem x (own_names d (py_locals_list d)) = true)
  /\ (forall x, smem x (d_globals d ++ d_nonlocals d) = true -> smem x (own_names d (py_locals_list d)) = false).
Proof.
  unfold def_consistent. rewrite !andb_true_iff. intros [[H1 H2] H3]. split; [apply list_eqb_string_eq; assumption|]. split.
  - intros x Hx. rewrite forallb_forall in H2. apply smem_In in Hx. apply H2. assumption.
  - intros x Hx. rewrite forallb_forall in H3. apply smem_In in Hx. specialize (H3 x Hx). apply negb_true_iff in H3. assumption.
Qed.

Lemma own_key f x : frame_ok f -> is_some_b (assoc x (fr_own f)) = smem x (d_params (fr_def f)) || smem x (py_locals_list (fr_def f)).
Proof. intros (H & _ & _). rewrite assoc_keys, H. apply smem_own_names. Qed.

(* ---------- lookup ---------- *)
Lemma lookup_agree fr st x : frame_ok' fr ->
  match p_lookup L fr st x with LkAnom _ => True | r => p_lookup R fr st x = r end.
Proof.
  destruct fr as [f|].
  - intros Hok. cbn [p_lookup L R ps_policy py_policy]. unfold ps_lookup, py_lookup.
    destruct (smem x (d_globals (fr_def f))) eqn:Eg.
    { unfold lk_global, lk_builtin. destruct (assoc x (st_globals st)) as [v|]; [reflexivity|]. cbn [andb].
      destruct (smem x builtin_names); [exact I|reflexivity]. }
    pose proof (own_key f x Hok) as K. rewrite assoc_app.
    rewrite (orb_comm (smem x (py_locals_list (fr_def f)))).
    destruct (assoc x (fr_own f)) as [a|] eqn:Eo; cbn [is_some_b] in K; rewrite <- K.
    { (* a slot of its own *)
      unfold lk_cell. destruct (cell_get st a); [reflexivity|].
      destruct (slot_is_cell f x); [reflexivity|].
      assert (Hraw : smem x (ps_raw_locals cfg (fr_def f)) = true).
      { destruct Hok as (Hk & Hc & Hn). destruct (consistent_parts _ Hc) as (P1 & _ & _).
        unfold ps_raw_locals. rewrite smem_app. rewrite orb_comm in K. symmetry in K. apply orb_true_iff in K as [K|K].
        - rewrite <- P1 in K. unfold ps_locals_list in K. rewrite smem_filter in K. apply andb_true_iff in K as [_ K].
          unfold ps_is_local in K. apply andb_true_iff in K as [K _]. apply andb_true_iff in K as [K _].
          rewrite <- smem_app in K. rewrite smem_app in K. exact K.
        - rewrite K. reflexivity. }
      destruct (assoc x (st_globals st)) as [v|]; [rewrite Hraw; reflexivity|].
      unfold lk_builtin. destruct (smem x builtin_names); [exact I|reflexivity]. }
    destruct (assoc x (fr_cap f)) as [a|] eqn:Ec.
    { unfold lk_cell, slot_is_cell. rewrite Ec. cbn [is_some_b]. rewrite orb_true_r. destruct (cell_get st a); reflexivity. }
    unfold lk_global. destruct (assoc x (st_globals st)) as [v|].
    + destruct (smem x (ps_raw_locals cfg (fr_def f))) eqn:Er; [|reflexivity]. exfalso.
      destruct Hok as (Hk & Hc & Hn). destruct (consistent_parts _ Hc) as (_ & P2 & _). specialize (P2 x Er).
      rewrite Eg in P2. cbn [orb] in P2. apply orb_true_iff in P2 as [P2|P2].
      * rewrite forallb_forall in Hn. apply smem_In in P2. specialize (Hn x P2). rewrite Ec in Hn. discriminate.
      * rewrite smem_own_names in P2. rewrite <- K in P2. discriminate.
    + unfold lk_builtin. destruct (smem x builtin_names); reflexivity.
  - intros _. cbn [p_lookup L R ps_policy py_policy ps_lookup py_lookup]. unfold lk_global, lk_builtin.
    destruct (assoc x (st_globals st)); [reflexivity|]. destruct (smem x builtin_names); reflexivity.
Qed.

(* ---------- assignment ---------- *)
Lemma assign_agree fr st x v st' : frame_ok' fr -> p_assign L fr st x v = Some st' -> p_assign R fr st x v = Some st'.
Proof.
  destruct fr as [f|]; [|intros _ H; exact H]. intros Hok. cbn [p_assign L R ps_policy py_policy]. unfold ps_assign, py_assign.
  destruct (smem x (d_globals (fr_def f))) eqn:Eg; [intros H; exact H|]. cbn [andb].
  pose proof (own_key f x Hok) as K. destruct Hok as (Hk & Hc & Hn). destruct (consistent_parts _ Hc) as (_ & _ & P3).
  destruct (smem x (d_nonlocals (fr_def f))) eqn:En; cbn [negb andb].
  - rewrite assoc_app.
    assert (Ho : assoc x (fr_own f) = None).
    { specialize (P3 x). rewrite smem_app, Eg, En in P3. specialize (P3 eq_refl). rewrite smem_own_names in P3. rewrite <- K in P3.
      destruct (assoc x (fr_own f)); [discriminate|reflexivity]. }
    rewrite Ho. intros H; exact H.
  - destruct (assoc x (fr_own f)) as [a|] eqn:Eo; cbn [is_some_b negb]; [|discriminate].
    rewrite assoc_app, Eo. intros H; exact H.
Qed.

(* ---------- capture ---------- *)
Lemma capture_one_agree stack fr d st x : frame_ok' fr ->
  match ps_capture_one cfg true false stack fr d st x with
  | CrCell a => py_capture_one fr d x = Some a
  | CrSkip => py_capture_one fr d x = None /\ smem x (d_nonlocals d) = false
  | CrSyntaxErr => py_capture_one fr d x = None /\ smem x (d_nonlocals d) = true
  | CrAnom _ => True
  end.
Proof.
  intros Hok. unfold ps_capture_one. cbn [negb].
  destruct (Bool.eqb (is_local_ps cfg d x) (is_local_py d x)) eqn:El; cbn [negb]; [|exact I].
  apply eqb_prop in El.
  set (here := match fr with Some f => assoc x (fr_own f ++ fr_cap f) | None => None end).
  destruct (match fr with Some f => negb (has_closure (fr_def f)) | None => false end) eqn:Ehc; [exact I|].
  assert (Hfind : forall rest, find_cell (match fr with Some f => f :: rest | None => rest end) x
                               = match here with Some a => Some a | None => find_cell rest x end).
  { intros rest. subst here. destruct fr as [f|]; [|reflexivity]. cbn [find_cell].
    apply negb_false_iff in Ehc. unfold slot_is_cell. rewrite Ehc. cbn [orb].
    destruct (assoc x (fr_own f ++ fr_cap f)); reflexivity. }
  unfold py_capture_one. fold (is_local_py d x). fold here. rewrite <- El.
  destruct (negb (smem x (d_globals d)) && negb (is_local_ps cfg d x)) eqn:Ecap.
  - (* capturable *)
    apply andb_true_iff in Ecap as [Eg Eloc]. apply negb_true_iff in Eg, Eloc. cbn [andb].
    destruct (is_some_b here && negb (Bool.eqb (smem x (vn_ps d)) (smem x (uses_py d)))) eqn:A1; [exact I|].
    destruct (smem x (vn_ps d) && negb (is_some_b here) && is_some_b (find_cell stack x)) eqn:A2; [exact I|].
    unfold ps_capture_core. rewrite Eg, Eloc. rewrite Hfind. cbn [negb andb].
    destruct (smem x (vn_ps d)) eqn:Evn; cbn [negb].
    + destruct here as [a|] eqn:Eh; cbn [is_some_b negb andb] in *.
      * apply negb_false_iff, eqb_prop in A1. rewrite <- A1. reflexivity.
      * destruct (find_cell stack x) as [a|]; [discriminate|].
        destruct (smem x (d_nonlocals d)) eqn:En.
        -- destruct (ps_lookup cfg true fr st x); try exact I; (split; [destruct (smem x (uses_py d)); reflexivity|reflexivity]).
        -- split; [destruct (smem x (uses_py d)); reflexivity|reflexivity].
    + (* not in var_names *)
      assert (En : smem x (d_nonlocals d) = false).
      { destruct (smem x (d_nonlocals d)) eqn:En; [|reflexivity]. unfold vn_ps in Evn. rewrite !smem_app, En in Evn.
        cbn [orb] in Evn. rewrite !orb_true_r in Evn. discriminate. }
      rewrite En. split; [|reflexivity].
      destruct here as [a|]; cbn [is_some_b andb] in A1.
      * apply negb_false_iff, eqb_prop in A1. rewrite <- A1. reflexivity.
      * destruct (smem x (uses_py d)); reflexivity.
  - (* declared global or own local: neither side captures *)
    cbn [andb].
    assert (Hcore : ps_capture_core cfg true stack fr d st x = CrSkip).
    { unfold ps_capture_core. destruct (smem x (vn_ps d)); [|reflexivity]. cbn [negb].
      destruct (smem x (d_globals d)); [reflexivity|]. cbn in Ecap. apply negb_false_iff in Ecap. rewrite Ecap. reflexivity. }
    rewrite Hcore.
    destruct (smem x (d_nonlocals d)) eqn:En; [exact I|]. split; [|reflexivity].
    rewrite <- andb_assoc, Ecap, andb_false_r. reflexivity.
Qed.

Lemma capture_list_agree stack fr d st xs : frame_ok' fr ->
  match ps_capture_list cfg true false stack fr d st xs with
  | CapOk cap => py_capture_list fr d xs = Some cap
  | CapErr => py_capture_list fr d xs = None
  | CapAnom _ => True
  end.
Proof.
  intros Hok. induction xs as [|x r IH]; cbn [ps_capture_list py_capture_list]; [reflexivity|].
  pose proof (capture_one_agree stack fr d st x Hok) as H1.
  destruct (ps_capture_one cfg true false stack fr d st x) as [| a | | k].
  - destruct H1 as [H1 H2]. rewrite H1, H2. exact IH.
  - rewrite H1. destruct (ps_capture_list cfg true false stack fr d st r); [rewrite IH; reflexivity|rewrite IH; reflexivity|exact I].
  - destruct H1 as [H1 H2]. rewrite H1, H2. reflexivity.
  - exact I.
Qed.

Lemma capture_agree stack fr d st : frame_ok' fr ->
  match p_capture L stack fr d st with
  | CapAnom _ => True
  | r => p_capture R stack fr d st = r
  end.
Proof.
  intros Hok. cbn [p_capture L R ps_policy py_policy]. unfold ps_capture, py_capture.
  pose proof (capture_list_agree stack fr d st (cand d) Hok) as H.
  destruct (ps_capture_list cfg true false stack fr d st (cand d)); [rewrite H; reflexivity|rewrite H; reflexivity|exact I].
Qed.

(* ---------- call entry ---------- *)
Lemma share_strict cap : forall st cap' st', ps_share true cap st = Some (cap', st') -> cap' = cap /\ st' = st.
Proof.
  induction cap as [|[x a] r IH]; intros st cap' st' H; cbn [ps_share] in H.
  - inversion H. split; reflexivity.
  - destruct (cell_get st a); [|discriminate].
    destruct (ps_share true r st) as [[l s]|] eqn:E; [|discriminate]. inversion H; subst.
    destruct (IH _ _ _ E) as [-> ->]. split; reflexivity.
Qed.

Lemma enter_agree d cap args st :
  match p_enter L d cap args st with
  | EntOk fr' st' => p_enter R d cap args st = EntOk fr' st' /\ frame_ok fr'
  | EntErr => p_enter R d cap args st = EntErr
  | EntAnom _ => True
  end.
Proof.
  cbn [p_enter L R ps_policy py_policy]. unfold ps_enter, py_enter.
  destruct (negb (length args =? length (d_params d))%nat); [reflexivity|]. cbn [andb].
  destruct (def_consistent cfg d) eqn:Hc; cbn [negb]; [|exact I].
  destruct (forallb (fun x => is_some_b (assoc x cap)) (d_nonlocals d)) eqn:Hn; cbn [negb]; [|exact I].
  destruct (consistent_parts _ Hc) as (P1 & _ & _). rewrite P1. fold (own_names d (py_locals_list d)).
  pose proof (alloc_keys (own_names d (py_locals_list d)) args (st_store st)) as Hk.
  destruct (alloc (own_names d (py_locals_list d)) args (st_store st)) as [own store'] eqn:Ea. cbn [fst] in Hk.
  destruct (ps_share true cap _) as [[cap' st2]|] eqn:Es; [|exact I].
  destruct (share_strict _ _ _ _ Es) as [-> ->]. split; [reflexivity|].
  unfold frame_ok. cbn [fr_def fr_own fr_cap]. repeat split; assumption.
Qed.

(* ---------- the skeleton ---------- *)
Definition NA {A} (o : outcome A) : Prop := forall k, o <> Anomaly k.

Lemma sim : forall fuel,
  (forall stack fr e st, frame_ok' fr -> NA (ev L fuel stack fr e st) -> ev R fuel stack fr e st = ev L fuel stack fr e st)
  /\ (forall stack fr es st, frame_ok' fr -> NA (ev_args L fuel stack fr es st) ->
        ev_args R fuel stack fr es st = ev_args L fuel stack fr es st)
  /\ (forall stack fr ss st, frame_ok' fr -> NA (ex L fuel stack fr ss st) -> ex R fuel stack fr ss st = ex L fuel stack fr ss st).
Proof.
  induction fuel as [|n (IHe & IHa & IHx)]; [repeat split; reflexivity|].
  (* a sub-run is anomaly-free when the whole is, and then both sides agree on it *)
  assert (SubE : forall stack fr e st, frame_ok' fr ->
            (forall k, ev L n stack fr e st = Anomaly k -> False) -> ev R n stack fr e st = ev L n stack fr e st).
  { intros. apply IHe; [assumption|]. intros k Hk. eauto. }
  assert (SubA : forall stack fr es st, frame_ok' fr ->
            (forall k, ev_args L n stack fr es st = Anomaly k -> False) -> ev_args R n stack fr es st = ev_args L n stack fr es st).
  { intros. apply IHa; [assumption|]. intros k Hk. eauto. }
  assert (SubX : forall stack fr ss st, frame_ok' fr ->
            (forall k, ex L n stack fr ss st = Anomaly k -> False) -> ex R n stack fr ss st = ex L n stack fr ss st).
  { intros. apply IHx; [assumption|]. intros k Hk. eauto. }
  split; [|split].
  - (* expressions *)
    intros stack fr e st Hok HNA. rewrite !ev_S in *. cbv zeta in *. destruct e as [z|x|a b|a|c a b|f args].
    + reflexivity.
    + pose proof (lookup_agree fr st x Hok) as Hl. destruct (p_lookup L fr st x) as [v| |k]; [rewrite Hl; reflexivity|rewrite Hl; reflexivity|].
      exfalso. apply (HNA k). reflexivity.
    + rewrite (SubE stack fr a st Hok) by (intros k Hk; apply (HNA k); rewrite Hk; reflexivity).
      destruct (ev L n stack fr a st) as [va st1| | |]; try reflexivity.
      rewrite (SubE stack fr b st1 Hok) by (intros k Hk; apply (HNA k); rewrite Hk; reflexivity). reflexivity.
    + rewrite (SubE stack fr a st Hok) by (intros k Hk; apply (HNA k); rewrite Hk; reflexivity). reflexivity.
    + rewrite (SubE stack fr c st Hok) by (intros k Hk; apply (HNA k); rewrite Hk; reflexivity).
      destruct (ev L n stack fr c st) as [vc st1| | |]; try reflexivity. destruct vc; try reflexivity.
      destruct (0 <? z)%Z; apply SubE; try assumption; intros k Hk; apply (HNA k); exact Hk.
    + rewrite (SubE stack fr f st Hok) by (intros k Hk; apply (HNA k); rewrite Hk; reflexivity).
      destruct (ev L n stack fr f st) as [vf st1| | |]; try reflexivity.
      rewrite (SubA stack fr args st1 Hok) by (intros k Hk; apply (HNA k); rewrite Hk; reflexivity).
      destruct (ev_args L n stack fr args st1) as [vs st2| | |]; try reflexivity.
      destruct vf as [| |d cap|b]; try reflexivity.
      pose proof (enter_agree d cap vs st2) as He.
      destruct (p_enter L d cap vs st2) as [fr' st3| |k].
      * destruct He as [He Hok']. rewrite He.
        rewrite (SubX _ (Some fr') (d_body d) st3 Hok').
        -- reflexivity.
        -- intros k Hk. apply (HNA k). rewrite Hk. reflexivity.
      * rewrite He. reflexivity.
      * exfalso. apply (HNA k). reflexivity.
  - (* argument lists *)
    intros stack fr es st Hok HNA. rewrite !ev_args_S in *. destruct es as [|e r]; [reflexivity|].
    rewrite (SubE stack fr e st Hok) by (intros k Hk; apply (HNA k); rewrite Hk; reflexivity).
    destruct (ev L n stack fr e st) as [v st1| | |]; try reflexivity.
    rewrite (SubA stack fr r st1 Hok) by (intros k Hk; apply (HNA k); rewrite Hk; reflexivity). reflexivity.
  - (* statement lists *)
    intros stack fr ss st Hok HNA. rewrite !ex_S in *. destruct ss as [|s r]; [reflexivity|].
    destruct s as [x e|e|e|d|w body].
    + rewrite (SubE stack fr e st Hok) by (intros k Hk; apply (HNA k); rewrite Hk; reflexivity).
      destruct (ev L n stack fr e st) as [v st1| | |]; try reflexivity.
      destruct (p_assign L fr st1 x v) as [st2|] eqn:Ea.
      * rewrite (assign_agree fr st1 x v st2 Hok Ea). apply SubX; [assumption|]. intros k Hk. apply (HNA k). exact Hk.
      * exfalso. apply (HNA 0%nat). reflexivity.
    + rewrite (SubE stack fr e st Hok) by (intros k Hk; apply (HNA k); rewrite Hk; reflexivity).
      destruct (ev L n stack fr e st) as [v st1| | |]; try reflexivity.
      apply SubX; [assumption|]. intros k Hk. apply (HNA k). exact Hk.
    + rewrite (SubE stack fr e st Hok) by (intros k Hk; apply (HNA k); rewrite Hk; reflexivity). reflexivity.
    + pose proof (capture_agree stack fr d st Hok) as Hc.
      destruct (p_capture L stack fr d st) as [cap| |k].
      * rewrite Hc. destruct (p_assign L fr st (d_name d) (VClo d cap)) as [st1|] eqn:Ea.
        -- rewrite (assign_agree fr st _ _ st1 Hok Ea). apply SubX; [assumption|]. intros k Hk. apply (HNA k). exact Hk.
        -- exfalso. apply (HNA 0%nat). reflexivity.
      * rewrite Hc. reflexivity.
      * exfalso. apply (HNA k). reflexivity.
    + destruct w; (apply SubX; [assumption|]; intros k Hk; apply (HNA k); exact Hk).
Qed.

Theorem closure_equiv fuel prog :
  (forall k, ps_run cfg true false fuel prog <> Anomaly k) -> py_run fuel prog = ps_run cfg true false fuel prog.
Proof. intros H. unfold py_run, ps_run, run_module. apply (proj2 (proj2 (sim fuel))); [exact I|exact H]. Qed.
End Sim.

(* ---------- bridge to core 2: the static pass of both policies is the one of C03_locals ---------- *)
Lemma locals_bridge cfg d :
  s_all_off cfg -> forallb wf_top (nodes_of d) = true -> forallb supported (nodes_of d) = true ->
  ps_locals_list cfg d = py_locals_list d.
Proof.
  intros Hoff Hwf Hsup. unfold ps_locals_list, py_locals_list.
  induction (cand d) as [|x r IH]; [reflexivity|]. cbn [filter].
  rewrite (locals_equiv cfg (d_params d) (nodes_of d) x Hoff Hwf Hsup), IH. reflexivity.
Qed.

(* same observable outcome: tracer log, result / exception class, final global table *)
Corollary closure_equiv_observed cfg fuel prog :
  (forall k, ps_run cfg true false fuel prog <> Anomaly k) ->
  observe (py_run fuel prog) = observe (ps_run cfg true false fuel prog).
Proof. intros H. rewrite (closure_equiv cfg fuel prog H). reflexivity. Qed.

(* ---------- a non-trivial program inside the fragment ---------- *)
Local Open Scope string_scope.
Local Open Scope Z_scope.
Definition v (x : ident) := EVar x.
Definition call0 (f : ident) := ECall (EVar f) [].
(*  g = 0
    def mk(p):                       # counter factory: inc and get share the cell of a; g is written through `global`
        a = p
        def inc():
            global g
            nonlocal a
            a = a + 1;  g = g + 1;  return a
        def get():
            return a
        def deep():                  # nonlocal two levels up, through a function that only reads a
            def bump():
                nonlocal a
                a = a + 10;  return a
            b = a
            return bump()
        def sum(p):                  # recursion through the captured cell of `sum`
            return (p + sum(p + -1)) if p > 0 else 0
        tr(inc()); tr(get()); tr(deep()); tr(sum(3))
        return inc
    c = mk(5);  tr(c());  tr(c());  d = mk(0);  tr(d());  tr(c())                                        *)
Definition example_prog : list stmt :=
  [SAssign "g" (EConst 0);
   SDef (FDef "mk" ["p"] [] []
     [SAssign "a" (v "p");
      SDef (FDef "inc" [] ["g"] ["a"]
        [SAssign "a" (EAdd (v "a") (EConst 1)); SAssign "g" (EAdd (v "g") (EConst 1)); SReturn (v "a")]);
      SDef (FDef "get" [] [] [] [SReturn (v "a")]);
      SDef (FDef "deep" [] [] []
        [SDef (FDef "bump" [] [] ["a"] [SAssign "a" (EAdd (v "a") (EConst 10)); SReturn (v "a")]);
         SAssign "b" (v "a");
         SReturn (call0 "bump")]);
      SDef (FDef "sum" ["p"] [] []
        [SReturn (EIfPos (v "p") (EAdd (v "p") (ECall (v "sum") [EAdd (v "p") (EConst (-1))])) (EConst 0))]);
      SExpr (ETr (call0 "inc")); SExpr (ETr (call0 "get")); SExpr (ETr (call0 "deep")); SExpr (ETr (ECall (v "sum") [EConst 3]));
      SReturn (v "inc")]);
   SAssign "c" (ECall (v "mk") [EConst 5]); SExpr (ETr (call0 "c")); SExpr (ETr (call0 "c"));
   SAssign "d" (ECall (v "mk") [EConst 0]); SExpr (ETr (call0 "d")); SExpr (ETr (call0 "c"))].

Example closure_instance :
  observe (ps_run sdev_off true false 100 example_prog)
  = ObsOk [Some 6; Some 6; Some 16; Some 6; Some 17; Some 18; Some 1; Some 1; Some 11; Some 6; Some 12; Some 19]
          [("g", OInt 6); ("mk", OFun); ("c", OFun); ("d", OFun)]
  /\ observe (py_run 100 example_prog) = observe (ps_run sdev_off true false 100 example_prog).
Proof. split; vm_compute; reflexivity. Qed.

(* ---------- where today's run-time layout parts from Python (each replayed on the real code by the check) ---------- *)
(* g = 1; def F1(): def f2(): return tr(g) ...; def F3(): g = 7; def f4(): return g; return F1();  k = F3() *)
Definition prog_D300 : list stmt :=
  [SAssign "g" (EConst 1);
   SDef (FDef "F1" [] [] [] [SDef (FDef "f2" [] [] [] [SReturn (ETr (v "g"))]); SReturn (call0 "f2")]);
   SDef (FDef "F3" [] [] [] [SAssign "g" (EConst 7); SDef (FDef "f4" [] [] [] [SReturn (v "g")]); SReturn (call0 "F1")]);
   SAssign "k" (call0 "F3")].
Lemma closure_refuted_D300 :
  observe (ps_run sdev_off false false 50 prog_D300) <> observe (py_run 50 prog_D300)
  /\ ps_run sdev_off true false 50 prog_D300 = Anomaly 1.
Proof. split; vm_compute; [discriminate|reflexivity]. Qed.

(* def F1(): def f2(): nonlocal a; a = 5; return 0 ...; f2(); b = tr(a); a = 0; return b;  k = F1() *)
Definition prog_D301 : list stmt :=
  [SDef (FDef "F1" [] [] []
     [SDef (FDef "f2" [] [] ["a"] [SAssign "a" (EConst 5); SReturn (EConst 0)]);
      SExpr (call0 "f2"); SAssign "b" (ETr (v "a")); SAssign "a" (EConst 0); SReturn (v "b")]);
   SAssign "k" (call0 "F1")].
Lemma closure_refuted_D301 :
  observe (ps_run sdev_off false false 50 prog_D301) <> observe (py_run 50 prog_D301)
  /\ ps_run sdev_off true false 50 prog_D301 = Anomaly 2.
Proof. split; vm_compute; [discriminate|reflexivity]. Qed.

(* def F1(): global max; return max(1, 2) ...;  k = F1()   — a declared-global name that only the builtins define *)
Definition prog_D302 : list stmt :=
  [SDef (FDef "F1" [] ["max"] [] [SReturn (ECall (v "max") [EConst 1; EConst 2])]); SAssign "k" (call0 "F1")].
Lemma closure_refuted_D302 :
  observe (ps_run sdev_off false false 50 prog_D302) <> observe (py_run 50 prog_D302)
  /\ ps_run sdev_off true false 50 prog_D302 = Anomaly 4.
Proof. split; vm_compute; [discriminate|reflexivity]. Qed.

(* the only nested def of a function sits in an except handler and captures a parameter; globals named like builtins *)
Definition prog_wraps : list stmt :=
  [SAssign "abs" (EConst 7);
   SDef (FDef "F1" ["p"] [] []
     [SWrap WHandler [SDef (FDef "f2" [] [] [] [SReturn (EAdd (v "p") (v "abs"))])];
      SWrap WFor [SAssign "a" (ECall (v "max") [v "p"; call0 "f2"])];
      SReturn (ETr (v "a"))]);
   SAssign "k" (ECall (v "F1") [EConst 5])].
Example closure_wraps_instance :
  observe (ps_run sdev_off true false 50 prog_wraps) = ObsOk [Some 12] [("abs", OInt 7); ("F1", OFun); ("k", OInt 12)]
  /\ observe (py_run 50 prog_wraps) = observe (ps_run sdev_off true false 50 prog_wraps).
Proof. split; vm_compute; reflexivity. Qed.

(* def F1(): b = tr(min); min = 1; return 0 ...;  k = F1()   — an unassigned local of a function without inner def, named like a builtin *)
Definition prog_D303 : list stmt :=
  [SDef (FDef "F1" [] [] [] [SAssign "b" (ETr (v "min")); SAssign "min" (EConst 1); SReturn (EConst 0)]); SAssign "k" (call0 "F1")].
Lemma closure_refuted_D303 :
  observe (ps_run sdev_off false false 50 prog_D303) <> observe (py_run 50 prog_D303)
  /\ ps_run sdev_off true false 50 prog_D303 = Anomaly 5.
Proof. split; vm_compute; [discriminate|reflexivity]. Qed.
