(* Proofs/LifeServicesRefine.v — C12: the conformant Model (all switches off) refines the reference semantics of
   Life/ServicesSpec.v: after every operation sequence both agree, for every service name, on whether it is registered and on
   which function generation answers a call.  Abstraction: the bound function objects of the Model state, with what they hold,
   are the live declarations of the Spec state, in the same order. *)
From PV Require Import Common.Util Gen.ServiceConsts Life.Services Life.ServicesSpec Proofs.LifeServices.
From Coq Require Import Lia Sorted.

Local Open Scope N_scope.

(* ---------- list helpers ---------- *)
Lemma F2_in_l {A B} (P : A -> B -> Prop) l1 l2 a : Forall2 P l1 l2 -> In a l1 -> exists b, In b l2 /\ P a b.
Proof. induction 1 as [|x y l1 l2 Hxy H IH]; intros Hin; [contradiction|]. destruct Hin as [->|Hin]; [exists y; split; [left; reflexivity|assumption]|]. destruct (IH Hin) as (b & Hb & Pb). exists b. split; [right; assumption|assumption]. Qed.

Lemma F2_in_r {A B} (P : A -> B -> Prop) l1 l2 b : Forall2 P l1 l2 -> In b l2 -> exists a, In a l1 /\ P a b.
Proof. induction 1 as [|x y l1 l2 Hxy H IH]; intros Hin; [contradiction|]. destruct Hin as [->|Hin]; [exists x; split; [left; reflexivity|assumption]|]. destruct (IH Hin) as (a & Ha & Pa). exists a. split; [right; assumption|assumption]. Qed.

Lemma F2_filter {A B} (P : A -> B -> Prop) (p : A -> bool) (q : B -> bool) l1 l2 :
  Forall2 P l1 l2 -> (forall a b, In a l1 -> In b l2 -> P a b -> p a = q b) -> Forall2 P (filter p l1) (filter q l2).
Proof.
  induction 1 as [|x y l1 l2 Hxy H IH]; intros Hpq; [constructor|]. cbn [filter].
  rewrite (Hpq x y (or_introl eq_refl) (or_introl eq_refl) Hxy).
  assert (IH' : Forall2 P (filter p l1) (filter q l2)) by (apply IH; intros a b Ha Hb; apply Hpq; right; assumption).
  destruct (q y); [constructor; assumption|assumption].
Qed.

Lemma filter_all {A} (p : A -> bool) l : (forall x, In x l -> p x = true) -> filter p l = l.
Proof. induction l as [|x l IH]; intros H; [reflexivity|]. cbn. rewrite (H x (or_introl eq_refl)). f_equal. apply IH. intros y Hy. apply H. right. assumption. Qed.

Lemma filter_filter {A} (f g : A -> bool) l : filter f (filter g l) = filter (fun x => g x && f x) l.
Proof. induction l as [|a l IH]; cbn; [reflexivity|]. destruct (g a); cbn; [destruct (f a); rewrite IH; reflexivity|assumption]. Qed.

(* ---------- the abstraction ---------- *)
Definition lv (s : st) : list frec := filter f_bound (s_funcs s).
Definition mt (r : frec) (d : dref) : Prop :=
  r_ctx d = f_ctx r /\ r_name d = f_name r /\ r_gen d = f_gen r /\ forall k, memN k (r_eff d) = memN k (f_held r).
Definition UB (l : list frec) : Prop :=      (* a name of a context is bound to at most one function object *)
  forall r1 r2, In r1 l -> In r2 l -> f_ctx r1 = f_ctx r2 -> f_name r1 = f_name r2 -> r1 = r2.

Record Rel (s : st) (t : rst) : Prop := {
  rl_winv : WInv s;
  rl_nopend : NoPend (s_funcs s);
  rl_next : t_next t = s_next s;
  rl_files : t_files t = s_files s;
  rl_live : Forall2 mt (lv s) (t_live t);
  rl_ub : UB (lv s)
}.

Lemma lv_in s r : In r (lv s) <-> In r (s_funcs s) /\ f_bound r = true.
Proof. unfold lv. apply filter_In. Qed.

(* whoever holds a name is bound (conformant states) *)
Lemma holder_live s r k : WInv s -> In r (s_funcs s) -> memN k (f_held r) = true -> In r (lv s).
Proof.
  intros (_ & HF) Hr Hm. apply lv_in. split; [assumption|]. destruct (f_bound r) eqn:E; [reflexivity|].
  destruct (HF r Hr) as (_ & B & _). rewrite (B E) in Hm. discriminate.
Qed.

(* the Spec's derived owner is the Model's owner table *)
Lemma rel_owner_ok s t c k : Rel s t -> owner_ok (t_live t) c k = okf s c k.
Proof.
  intros [HW _ _ _ HL _]. pose proof HW as (HC & HF). unfold owner_ok, ref_owner, okf.
  destruct (find (fun r => memN k (r_eff r)) (t_live t)) as [d|] eqn:Ef.
  - apply find_some in Ef. destruct Ef as (Hd & Hk). destruct (F2_in_r _ _ _ d HL Hd) as (r & Hr & Ec & _ & _ & Hm).
    rewrite Hm in Hk. apply lv_in in Hr. destruct Hr as (Hr & _).
    rewrite (w_ctx _ HC r k Hr Hk). cbn. rewrite Ec. reflexivity.
  - cbn. destruct (s_owner s k) as [o|] eqn:Eo; [|reflexivity]. exfalso.
    assert (Hc : s_cnt s k <> 0) by (intros E; apply (w_own _ HC) in E; congruence).
    rewrite (w_cnt _ HC) in Hc. destruct (hcount_pos_holder k (s_funcs s)) as (r & Hr & Hm); [lia|].
    pose proof (holder_live s r k HW Hr Hm) as Hlv. destruct (F2_in_l _ _ _ r HL Hlv) as (d & Hd & _ & _ & _ & Hmd).
    pose proof (find_none _ _ Ef d Hd) as Hn. cbn in Hn. rewrite Hmd, Hm in Hn. discriminate.
Qed.

(* most recent effective declaration *)
Lemma rlatest_acc l : forall a,
  match fold_left rlater l a with
  | None => a = None /\ l = []
  | Some r => (In r l \/ a = Some r) /\ (forall r', In r' l -> r_gen r' <= r_gen r) /\ (forall x, a = Some x -> r_gen x <= r_gen r)
  end.
Proof.
  induction l as [|y l IH]; intros a; cbn [fold_left].
  - destruct a as [x|]; [|auto]. repeat split; auto. intros ? []. intros z E; inversion E; subst; lia.
  - specialize (IH (rlater a y)). destruct (fold_left rlater l (rlater a y)) as [r|].
    + destruct IH as (Hin & Hmax & Hacc). unfold rlater in *.
      destruct a as [x|].
      * destruct (N.ltb_spec (r_gen x) (r_gen y)) as [Hlt|Hge].
        -- repeat split.
           ++ destruct Hin as [Hin|E]; [left; right; assumption|left; left; inversion E; reflexivity].
           ++ intros r' [->|Hr']; [apply Hacc; reflexivity|apply Hmax; assumption].
           ++ intros z E; inversion E; subst. specialize (Hacc y eq_refl). lia.
        -- repeat split.
           ++ destruct Hin as [Hin|E]; [left; right; assumption|right; assumption].
           ++ intros r' [->|Hr']; [specialize (Hacc x eq_refl); lia|apply Hmax; assumption].
           ++ intros z E; inversion E; subst. apply Hacc; reflexivity.
      * repeat split.
        -- destruct Hin as [Hin|E]; [left; right; assumption|left; left; inversion E; reflexivity].
        -- intros r' [->|Hr']; [apply Hacc; reflexivity|apply Hmax; assumption].
        -- intros z E; discriminate.
    + destruct IH as (E & _). unfold rlater in E. destruct a as [x|]; [destruct (r_gen x <? r_gen y)|]; discriminate.
Qed.

Definition handler_gen (s : st) (k : key) : option gen := option_map fst (s_reg s k).
Definition ref_gen (t : rst) (k : key) : option gen := option_map r_gen (ref_handler t k).

(* the observation: registered or not, and which generation answers *)
Lemma rel_handler s t k : Rel s t -> handler_gen s k = ref_gen t k.
Proof.
  intros [HW _ _ _ HL _]. pose proof HW as (HC & HF). unfold handler_gen, ref_gen, ref_handler.
  pose proof (rlatest_acc (filter (fun r => memN k (r_eff r)) (t_live t)) None) as Hl.
  destruct (fold_left rlater (filter (fun r => memN k (r_eff r)) (t_live t)) None) as [d|].
  - destruct Hl as ([Hd|Hd] & Hmax & _); [|discriminate]. apply filter_In in Hd. destruct Hd as (Hd & Hk).
    destruct (F2_in_r _ _ _ d HL Hd) as (r & Hr & _ & _ & Eg & Hm). rewrite Hm in Hk.
    apply lv_in in Hr. destruct Hr as (Hr & _).
    destruct (s_reg s k) as [[g m]|] eqn:Er.
    + cbn. f_equal. destruct (w_hand _ HC k g m Er) as (r0 & Hr0 & Eg0 & _ & Hm0 & Hmax0).
      pose proof (Hmax0 r Hr Hk) as H1.
      pose proof (holder_live s r0 k HW Hr0 Hm0) as Hlv0. destruct (F2_in_l _ _ _ r0 HL Hlv0) as (d0 & Hd0 & _ & _ & Egd0 & Hmd0).
      assert (H2 : r_gen d0 <= r_gen d) by (apply Hmax; apply filter_In; split; [assumption|rewrite Hmd0; assumption]). lia.
    + exfalso. apply (w_reg _ HC) in Er. rewrite (w_cnt _ HC) in Er. pose proof (hcount_holder_pos k _ r Hr Hk). lia.
  - destruct Hl as (_ & Hnil). destruct (s_reg s k) as [[g m]|] eqn:Er; [|reflexivity]. exfalso.
    destruct (w_hand _ HC k g m Er) as (r0 & Hr0 & _ & _ & Hm0 & _).
    pose proof (holder_live s r0 k HW Hr0 Hm0) as Hlv0. destruct (F2_in_l _ _ _ r0 HL Hlv0) as (d0 & Hd0 & _ & _ & _ & Hmd0).
    assert (Hf : In d0 (filter (fun r => memN k (r_eff r)) (t_live t))) by (apply filter_In; split; [assumption|rewrite Hmd0; assumption]).
    rewrite Hnil in Hf. contradiction.
Qed.

(* ---------- exact effect of the statements on the list of function objects ---------- *)
Lemma upd_rec_notin_id g f L : ~ In g (gens L) -> upd_rec g f L = L.
Proof.
  induction L as [|x L IH]; intros Hn; [reflexivity|]. cbn [upd_rec map]. fold (upd_rec g f L).
  rewrite IH by (intros H; apply Hn; right; assumption).
  destruct (N.eqb_spec (f_gen x) g) as [E|]; [exfalso; apply Hn; left; assumption|reflexivity].
Qed.

Lemma unbind_funcs legacy s r : f_pending r = false ->
  s_funcs (unbind all_off legacy s r) = upd_rec (f_gen r) (with_held []) (upd_rec (f_gen r) (with_bound false) (s_funcs s)).
Proof.
  intros Hp. unfold unbind. cbn [all_off d_pending_zombie]. rewrite Hp.
  destruct legacy; cbv zeta iota beta; rewrite release_funcs; reflexivity.
Qed.

Lemma lv_kill g L : filter f_bound (upd_rec g (with_held []) (upd_rec g (with_bound false) L))
                    = filter (fun r => f_bound r && negb (N.eqb (f_gen r) g)) L.
Proof.
  induction L as [|x L IH]; [reflexivity|]. cbn [upd_rec map]. fold (upd_rec g (with_bound false) L).
  fold (upd_rec g (with_held []) (upd_rec g (with_bound false) L)). cbn [filter].
  destruct (N.eqb_spec (f_gen x) g) as [E|Hne].
  - cbn [with_bound f_gen]. rewrite E, N.eqb_refl. cbn [with_held with_bound f_bound negb]. rewrite andb_false_r. exact IH.
  - destruct (N.eqb_spec (f_gen x) g); [congruence|]. cbn [negb]. rewrite andb_true_r. destruct (f_bound x); [f_equal|]; exact IH.
Qed.

Definition same_name (c : cid) (f : fid) (r : frec) : bool := N.eqb (f_ctx r) c && N.eqb (f_name r) f.

Lemma find_bound_none s c f : find_bound s c f = None -> forall r, In r (lv s) -> same_name c f r = false.
Proof.
  unfold find_bound. intros H r Hr. apply lv_in in Hr. destruct Hr as (Hr & Hb).
  pose proof (find_none _ _ H r Hr) as Hn. cbn in Hn. rewrite Hb in Hn. unfold same_name. rewrite <- andb_assoc in Hn. exact Hn.
Qed.

Lemma find_bound_some s c f r : find_bound s c f = Some r -> In r (lv s) /\ same_name c f r = true.
Proof.
  unfold find_bound. intros H. apply find_some in H. destruct H as (Hr & Hp).
  rewrite <- andb_assoc in Hp. apply andb_prop in Hp. destruct Hp as (Hb & Hn). split; [apply lv_in; auto|exact Hn].
Qed.

(* removing the function object bound to (c, f) = removing every live object of that name *)
Lemma kill_by_name s c f r0 : WInv s -> UB (lv s) -> In r0 (lv s) -> same_name c f r0 = true ->
  filter (fun r => f_bound r && negb (N.eqb (f_gen r) (f_gen r0))) (s_funcs s) = filter (fun r => negb (same_name c f r)) (lv s).
Proof.
  intros (HC & _) Hub H0 Hn0. unfold lv. rewrite filter_filter. apply filter_ext_in. intros r Hr.
  destruct (f_bound r) eqn:Eb; [|reflexivity]. cbn [andb]. f_equal.
  assert (Hlv : In r (lv s)) by (apply lv_in; auto).
  unfold same_name in *. apply andb_prop in Hn0. destruct Hn0 as (Ec0 & Ef0). apply N.eqb_eq in Ec0, Ef0.
  destruct (N.eqb_spec (f_gen r) (f_gen r0)) as [E|Hne].
  - assert (r = r0). { apply (unique_gen (s_funcs s)); auto. apply core_nodup; assumption. apply lv_in in H0; tauto. }
    subst r. rewrite Ec0, Ef0, !N.eqb_refl. reflexivity.
  - destruct (N.eqb_spec (f_ctx r) c) as [Ec|]; [|reflexivity]. destruct (N.eqb_spec (f_name r) f) as [Ef|]; [|reflexivity].
    exfalso. apply Hne. f_equal. apply Hub; auto; congruence.
Qed.

Definition new_rec (legacy stk : bool) (s : st) (c : cid) (f : fid) (decl : list key) (d : srd) : frec :=
  committed (filter (okf s c) (nodupN decl))
            (mk_frec c f (s_next s) (eff_sr legacy d) (nodupN decl) [] true true false (s_inc s c) c stk).

Lemma do_def_imm_lv legacy started rt stk c f decl d s :
  negb legacy && negb started = false -> WInv s -> NoPend (s_funcs s) -> UB (lv s) ->
  lv (do_def all_off legacy started rt stk c f decl d s)
  = filter (fun r => negb (same_name c f r)) (lv s) ++ [new_rec legacy stk s c f decl d].
Proof.
  intros Hmode HW HNP Hub. pose proof HW as (HC & HF). rewrite do_def_off. cbn zeta. rewrite Hmode.
  set (g := s_next s). set (nr := mk_frec c f g (eff_sr legacy d) (nodupN decl) [] true true false (s_inc s c) c stk).
  set (s1 := set_funcs (set_next s (g + 1)) (s_funcs s ++ [nr])).
  assert (Hg : ~ In g (gens (s_funcs s))).
  { intros H. unfold gens in H. apply in_map_iff in H. destruct H as (r & E & Hr). pose proof (w_next _ HC r Hr). unfold g in E. lia. }
  assert (Hf2 : s_funcs (commit false s1 nr) = s_funcs s ++ [new_rec legacy stk s c f decl d]).
  { rewrite (commit_false_eq s1 nr eq_refl). cbn [set_funcs s_funcs s1]. unfold upd_rec. rewrite map_app. fold (upd_rec (f_gen nr) (committed (filter (okf s1 (f_ctx nr)) (f_decl nr))) (s_funcs s)).
    rewrite upd_rec_notin_id by exact Hg. cbn [map f_gen nr]. rewrite N.eqb_refl. reflexivity. }
  destruct (find_bound (set_next s (g + 1)) c f) as [r0|] eqn:Efb.
  - change (find_bound (set_next s (g + 1)) c f) with (find_bound s c f) in Efb.
    apply find_bound_some in Efb. destruct Efb as (H0 & Hn0).
    assert (Hr0 : In r0 (s_funcs s)) by (apply lv_in in H0; tauto).
    unfold lv at 1. rewrite (unbind_funcs legacy _ r0 (HNP r0 Hr0)), lv_kill, Hf2, filter_app.
    rewrite (kill_by_name s c f r0 HW Hub H0 Hn0). f_equal. cbn [filter new_rec committed with_tracked with_pending with_held f_bound f_gen nr].
    destruct (N.eqb_spec (s_next s) (f_gen r0)) as [E|]; [|reflexivity]. exfalso. apply Hg. unfold g. rewrite E. apply in_map. assumption.
  - change (find_bound (set_next s (g + 1)) c f) with (find_bound s c f) in Efb.
    unfold lv at 1. rewrite Hf2, filter_app. cbn [filter new_rec committed with_tracked with_pending with_held f_bound nr]. f_equal.
    symmetry. apply filter_all. intros r Hr. rewrite (find_bound_none s c f Efb r Hr). reflexivity.
Qed.

Lemma do_del_lv legacy c f s : WInv s -> NoPend (s_funcs s) -> UB (lv s) ->
  lv (do_del all_off legacy c f s) = filter (fun r => negb (same_name c f r)) (lv s).
Proof.
  intros HW HNP Hub. unfold do_del. destruct (find_bound s c f) as [r0|] eqn:Efb.
  - apply find_bound_some in Efb. destruct Efb as (H0 & Hn0).
    assert (Hr0 : In r0 (s_funcs s)) by (apply lv_in in H0; tauto).
    unfold lv at 1. rewrite (unbind_funcs legacy _ r0 (HNP r0 Hr0)), lv_kill. apply kill_by_name; assumption.
  - symmetry. apply filter_all. intros r Hr. rewrite (find_bound_none s c f Efb r Hr). reflexivity.
Qed.

(* ---------- counters and files through a statement ---------- *)
Lemma release_frame legacy s r : s_next (release all_off legacy s r) = s_next s /\ s_files (release all_off legacy s r) = s_files s.
Proof.
  rewrite release_off.
  destruct (fold_refresh_spec (f_held r) (fold_left remove (f_held r) (set_funcs s (upd_rec (f_gen r) (with_held []) (s_funcs s))))) as (_ & A & B & _).
  destruct (fold_remove_frame (f_held r) (set_funcs s (upd_rec (f_gen r) (with_held []) (s_funcs s)))) as (_ & A' & B').
  rewrite A, B, A', B'. auto.
Qed.

Lemma unbind_frame legacy s r : s_next (unbind all_off legacy s r) = s_next s /\ s_files (unbind all_off legacy s r) = s_files s.
Proof.
  unfold unbind. cbn [all_off d_pending_zombie].
  destruct legacy; cbv zeta iota beta; [exact (release_frame true _ r)|].
  destruct (f_pending r); [auto|exact (release_frame false _ r)].
Qed.

Lemma commit_frame s r : f_own r = f_ctx r -> s_next (commit false s r) = s_next s /\ s_files (commit false s r) = s_files s.
Proof.
  intros E. rewrite (commit_false_eq s r E). cbn [set_funcs s_next s_files].
  destruct (reg_loop_spec (f_ctx r) (f_gen r, f_sr r) (f_decl r) s []) as (_ & _ & _ & A & B & _). auto.
Qed.

Lemma do_def_frame legacy started rt stk c f decl d s :
  s_next (do_def all_off legacy started rt stk c f decl d s) = s_next s + 1 /\ s_files (do_def all_off legacy started rt stk c f decl d s) = s_files s.
Proof.
  rewrite do_def_off. cbn zeta.
  set (nr := mk_frec c f (s_next s) (eff_sr legacy d) (nodupN decl) [] true true (negb legacy && negb started) (s_inc s c) c stk).
  set (s1 := set_funcs (set_next s (s_next s + 1)) (s_funcs s ++ [nr])).
  assert (H2 : s_next (if negb legacy && negb started then s1 else commit false s1 nr) = s_next s + 1 /\
               s_files (if negb legacy && negb started then s1 else commit false s1 nr) = s_files s).
  { destruct (negb legacy && negb started); [auto|]. destruct (commit_frame s1 nr eq_refl) as (A & B). rewrite A, B. auto. }
  destruct (find_bound (set_next s (s_next s + 1)) c f) as [r|]; [|exact H2].
  destruct (unbind_frame legacy (if negb legacy && negb started then s1 else commit false s1 nr) r) as (A & B).
  rewrite A, B. exact H2.
Qed.

Lemma do_del_frame legacy c f s : s_next (do_del all_off legacy c f s) = s_next s /\ s_files (do_del all_off legacy c f s) = s_files s.
Proof. unfold do_del. destruct (find_bound s c f); [apply unbind_frame|auto]. Qed.

(* ---------- one statement with immediate registration keeps Model and Spec together ---------- *)
Lemma UB_filter_app p l x : UB l -> (forall r, In r (filter p l) -> f_ctx r = f_ctx x -> f_name r = f_name x -> False) -> UB (filter p l ++ [x]).
Proof.
  intros Hub Hx r1 r2 H1 H2 Ec Ef. apply in_app_or in H1. apply in_app_or in H2.
  destruct H1 as [H1|[<-|[]]], H2 as [H2|[<-|[]]].
  - apply filter_In in H1, H2. apply Hub; tauto.
  - exfalso. eapply Hx; eauto.
  - exfalso. eapply Hx; eauto.
  - reflexivity.
Qed.

Lemma UB_filter p l : UB l -> UB (filter p l).
Proof. intros Hub r1 r2 H1 H2. apply filter_In in H1, H2. apply Hub; tauto. Qed.

Lemma mt_same_name c f r d : mt r d -> negb (same_name c f r) = negb (N.eqb (r_ctx d) c && N.eqb (r_name d) f).
Proof. intros (Ec & Ef & _). unfold same_name. rewrite Ec, Ef. reflexivity. Qed.

Lemma rel_def_imm legacy started rt stk c f decl d s t :
  negb legacy && negb started = false -> Rel s t ->
  Rel (do_def all_off legacy started rt stk c f decl d s) (ref_def c t f decl d).
Proof.
  intros Hmode HR. pose proof HR as [HW HNP En Efi HL Hub].
  destruct (winv_do_def_imm legacy started rt stk c f decl d s (c :: map f_ctx (s_funcs s)) Hmode HW HNP) as (HW' & HNP' & _).
  { intros r Hr. right. apply in_map. assumption. } { left; reflexivity. }
  destruct (do_def_frame legacy started rt stk c f decl d s) as (En' & Efi').
  pose proof (do_def_imm_lv legacy started rt stk c f decl d s Hmode HW HNP Hub) as Elv.
  constructor; auto.
  - cbn. rewrite En', En. reflexivity.
  - cbn. rewrite Efi'. assumption.
  - rewrite Elv. cbn [ref_def t_live]. apply Forall2_app.
    + apply F2_filter; [assumption|]. intros r d0 _ _ Hm. apply mt_same_name. assumption.
    + constructor; [|constructor]. unfold mt, new_rec. cbn. rewrite En. repeat split; auto.
      intros k. f_equal. apply filter_ext. intros x. apply rel_owner_ok. assumption.
  - rewrite Elv. apply UB_filter_app; [assumption|]. intros r Hr Ec Ef. apply filter_In in Hr. destruct Hr as (_ & Hn).
    unfold same_name in Hn. cbn in Ec, Ef. rewrite Ec, Ef, !N.eqb_refl in Hn. discriminate.
Qed.

Lemma rel_del_imm legacy c f s t : Rel s t ->
  Rel (do_del all_off legacy c f s) (ref_stmt c t (SDel f)).
Proof.
  intros HR. pose proof HR as [HW HNP En Efi HL Hub].
  destruct (winv_do_del legacy c f s HW (fun _ => HNP)) as (HW' & Hsh & _).
  destruct (do_del_frame legacy c f s) as (En' & Efi').
  pose proof (do_del_lv legacy c f s HW HNP Hub) as Elv.
  constructor; auto.
  - eapply NoPend_shrinks; eassumption.
  - cbn. rewrite En'. assumption.
  - cbn. rewrite Efi'. assumption.
  - rewrite Elv. cbn [ref_stmt t_live]. apply F2_filter; [assumption|]. intros r d0 _ _ Hm. apply mt_same_name. assumption.
  - rewrite Elv. apply UB_filter. assumption.
Qed.

Lemma rel_body_imm legacy started c b : forall s t,
  negb legacy && negb started = false -> Rel s t ->
  Rel (run_body all_off legacy started c b s) (ref_body c b t).
Proof.
  unfold run_body, ref_body. induction b as [|x b IH]; intros s t Hmode HR; cbn [fold_left]; [assumption|].
  apply IH; [assumption|]. destruct x as [f decl d|f decl d|f decl d|f]; cbn [run_stmt ref_stmt].
  - apply rel_def_imm; assumption.
  - apply rel_def_imm; assumption.
  - apply rel_def_imm; assumption.
  - apply rel_del_imm; assumption.
Qed.

(* ---------- ctx.stop(): exactly the function objects of the context disappear ---------- *)
Definition clr (G : list gen) (r : frec) : frec := if memN (f_gen r) G then with_held [] r else r.

Lemma stop_fold_funcs legacy todo : forall s,
  s_funcs (fold_left (stop_step all_off legacy) todo s) = map (clr (gens (filter f_tracked todo))) (s_funcs s).
Proof.
  induction todo as [|r todo IH]; intros s; cbn [fold_left filter].
  - cbn [gens map]. rewrite <- (map_id (s_funcs s)) at 1. apply map_ext. intros x. reflexivity.
  - rewrite IH. unfold stop_step. destruct (f_tracked r); [|reflexivity].
    rewrite release_funcs. unfold upd_rec. rewrite map_map. apply map_ext. intros x. cbn [gens map]. unfold clr.
    rewrite memN_cons. destruct (N.eqb_spec (f_gen x) (f_gen r)) as [E|Hne].
    + cbn [orb with_held f_gen]. destruct (memN (f_gen x) (gens (filter f_tracked todo))); reflexivity.
    + reflexivity.
Qed.

Lemma filter_map_same {A} (p : A -> bool) (phi : A -> A) l :
  (forall x, In x l -> phi x = x \/ (p x = false /\ p (phi x) = false)) -> filter p (map phi l) = filter p l.
Proof.
  induction l as [|x l IH]; intros H; [reflexivity|]. cbn [map filter].
  rewrite IH by (intros y Hy; apply H; right; assumption).
  destruct (H x (or_introl eq_refl)) as [E|(E1 & E2)]; [rewrite E; reflexivity|rewrite E1, E2; reflexivity].
Qed.

Lemma map_filter_drop (c : cid) (keep : frec -> bool) (m : frec -> frec) l :
  (forall r, N.eqb (f_ctx r) c = false -> keep r = true /\ m r = r) -> (forall r, f_ctx (m r) = f_ctx r) ->
  (forall x, In x (map m (filter keep l)) -> f_ctx x <> c) ->
  map m (filter keep l) = filter (fun r => negb (N.eqb (f_ctx r) c)) l.
Proof.
  intros Hk Hm. induction l as [|x l IH]; intros Hno; [reflexivity|]. cbn [filter].
  destruct (N.eqb (f_ctx x) c) eqn:Ec; cbn [negb].
  - destruct (keep x) eqn:Ek.
    + exfalso. apply (Hno (m x)); [cbn [filter]; rewrite Ek; left; reflexivity|]. rewrite Hm. apply N.eqb_eq. assumption.
    + apply IH. intros y Hy. apply Hno. cbn [filter]. rewrite Ek. assumption.
  - destruct (Hk x Ec) as (Ek & Em). rewrite Ek. cbn [map]. rewrite Em. f_equal.
    apply IH. intros y Hy. apply Hno. cbn [filter]. rewrite Ek. right. assumption.
Qed.

Lemma stop_ctx_funcs legacy s c : WInv s ->
  s_funcs (stop_ctx all_off legacy s c) = filter (fun r => negb (N.eqb (f_ctx r) c)) (s_funcs s).
Proof.
  intros HW. destruct (winv_stop_ctx legacy s c HW) as (_ & _ & Hno & _).
  rewrite stop_ctx_eq in *. cbn zeta in *. cbn [set_funcs s_funcs] in *.
  set (todo := filter (fun r => N.eqb (f_ctx r) c) (s_funcs s)) in *.
  rewrite (map_filter_drop c); [| | |exact Hno].
  - rewrite stop_fold_funcs. apply filter_map_same. intros x Hx. unfold clr.
    destruct (memN (f_gen x) (gens (filter f_tracked todo))) eqn:Em; [|left; reflexivity]. right.
    apply memN_In in Em. unfold gens in Em. apply in_map_iff in Em. destruct Em as (r & Eg & Hr).
    apply filter_In in Hr. destruct Hr as (Hr & _). unfold todo in Hr. apply filter_In in Hr. destruct Hr as (Hr & Ec).
    assert (r = x) by (apply (unique_gen (s_funcs s)); auto; apply core_nodup, HW). subst r.
    cbn [with_held f_ctx]. rewrite Ec. auto.
  - intros r Ec. rewrite Ec. cbn. auto.
  - intros r. destruct (N.eqb (f_ctx r) c); reflexivity.
Qed.

Lemma rel_stop legacy s t c : Rel s t -> Rel (stop_ctx all_off legacy s c) (ref_stop t c).
Proof.
  intros HR. pose proof HR as [HW HNP En Efi HL Hub].
  destruct (winv_stop_ctx legacy s c HW) as (HW' & Hsh & _ & Efi' & En').
  assert (Elv : lv (stop_ctx all_off legacy s c) = filter (fun r => negb (N.eqb (f_ctx r) c)) (lv s)).
  { unfold lv. rewrite (stop_ctx_funcs legacy s c HW), !filter_filter. apply filter_ext. intros x. apply andb_comm. }
  constructor; auto.
  - eapply NoPend_shrinks; eassumption.
  - cbn [ref_stop t_next]. rewrite En'. assumption.
  - cbn [ref_stop t_files]. rewrite Efi'. assumption.
  - rewrite Elv. cbn [ref_stop t_live]. apply F2_filter; [assumption|]. intros r d _ _ (Ec & _). rewrite Ec. reflexivity.
  - rewrite Elv. apply UB_filter. assumption.
Qed.

(* ---------- bookkeeping steps ---------- *)
Lemma rel_set_files s t fl : Rel s t -> Rel (set_files s fl) (mk_rst (t_live t) fl (t_next t)).
Proof.
  intros [(HC & HF) HNP En Efi HL Hub]. constructor; auto. split; [apply core_set_files; assumption|exact HF].
Qed.

Lemma rel_set_inc s t c i : Rel s t -> Rel (set_inc s c i) t.
Proof. intros [HW HNP En Efi HL Hub]. constructor; auto. apply winv_set_inc. assumption. Qed.

Lemma rel_prune_gc legacy s t : Rel s t -> Rel (prune (gc all_off legacy s)) t.
Proof.
  intros [HW HNP En Efi HL Hub]. rewrite (gc_off legacy s (proj2 HW)). destruct HW as (HC & HF).
  assert (Hsh : shrinks (s_funcs s) (s_funcs (prune s))) by (unfold prune; cbn; apply shrinks_filter).
  assert (Elv : lv (prune s) = lv s).
  { unfold lv, prune. cbn [set_funcs s_funcs]. rewrite filter_filter. apply filter_ext. intros r.
    destruct (f_bound r) eqn:Eb; [|apply andb_false_r]. unfold inert. rewrite Eb. cbn. reflexivity. }
  constructor; auto.
  - split.
    + unfold prune. apply core_filter; [assumption|]. intros r Hr E. apply orb_false_elim in E. destruct E as (E & _).
      apply negb_false_iff in E. unfold inert in E. destruct (f_held r); [reflexivity|]. rewrite andb_false_r in E. discriminate.
    + intros r Hr. unfold prune in Hr. cbn in Hr. apply filter_In in Hr. apply HF. tauto.
  - eapply NoPend_shrinks; eassumption.
  - rewrite Elv. assumption.
  - rewrite Elv. assumption.
Qed.

(* relation between operations: additionally every function object lives in a loaded context *)
Definition ORel (s : st) (t : rst) : Prop := Rel s t /\ AllCtx (map fst (s_files s)) (s_funcs s).

Lemma rel_loaded s t c : Rel s t -> ref_loaded t c = loaded s c.
Proof. intros HR. unfold ref_loaded, loaded. rewrite (rl_files _ _ HR). reflexivity. Qed.

Lemma allctx_prune_gc legacy s L : Flags s -> AllCtx L (s_funcs s) -> AllCtx L (s_funcs (prune (gc all_off legacy s))).
Proof.
  intros HF HA. rewrite (gc_off legacy s HF). eapply AllCtx_shrinks; [|exact HA]. unfold prune. cbn. apply shrinks_filter.
Qed.

(* stopping a context that has no function objects changes nothing that matters *)
Lemma rel_stop_absent s t c : Rel s t -> (forall r, In r (s_funcs s) -> f_ctx r <> c) -> Rel s (ref_stop t c).
Proof.
  intros HR Hno. pose proof HR as [HW HNP En Efi HL Hub]. constructor; auto. cbn [ref_stop t_live].
  rewrite filter_all; [assumption|]. intros d Hd. destruct (F2_in_r _ _ _ d HL Hd) as (r & Hr & Ec & _).
  apply lv_in in Hr. destruct Hr as (Hr & _). apply negb_true_iff. apply N.eqb_neq. rewrite Ec. apply Hno. assumption.
Qed.

Lemma orel_exec legacy s t c b : ORel s t ->
  ORel (run_op all_off legacy s (OExec c b)) (ref_op t (OExec c b)).
Proof.
  intros (HR & HA). unfold run_op, ref_op. rewrite (rel_loaded s t c HR).
  destruct (loaded s c) eqn:El.
  - assert (Hmode : negb legacy && negb true = false) by (destruct legacy; reflexivity).
    pose proof (rel_body_imm legacy true c b s t Hmode HR) as HR'.
    destruct (winv_body_imm legacy true c (map fst (s_files s)) b s Hmode (rl_winv _ _ HR) (rl_nopend _ _ HR) HA) as (HW' & _ & HA' & Efi & _).
    { apply loaded_In. assumption. }
    split; [apply rel_prune_gc; assumption|].
    assert (Ef : s_files (prune (gc all_off legacy (run_body all_off legacy true c b s))) = s_files s).
    { rewrite (gc_off legacy _ (proj2 HW')). unfold prune. cbn [set_funcs s_files]. assumption. }
    rewrite Ef. apply allctx_prune_gc; [apply HW'|assumption].
  - split; [apply rel_prune_gc; assumption|].
    assert (Ef : s_files (prune (gc all_off legacy s)) = s_files s) by (rewrite (gc_off legacy _ (proj2 (rl_winv _ _ HR))); reflexivity).
    rewrite Ef. apply allctx_prune_gc; [apply (rl_winv _ _ HR)|assumption].
Qed.

Lemma orel_unload legacy s t c : ORel s t ->
  ORel (run_op all_off legacy s (OUnload c)) (ref_op t (OUnload c)).
Proof.
  intros (HR & HA). unfold run_op, ref_op. rewrite (rel_loaded s t c HR).
  destruct (loaded s c) eqn:El.
  - pose proof (rel_stop legacy s t c HR) as HR1.
    destruct (winv_stop_ctx legacy s c (rl_winv _ _ HR)) as (HW1 & Hsh & Hno & Efi1 & _).
    set (s1 := stop_ctx all_off legacy s c) in *.
    assert (HR2 : Rel (set_files s1 (file_del c (s_files s1))) (mk_rst (t_live (ref_stop t c)) (file_del c (t_files (ref_stop t c))) (t_next (ref_stop t c)))).
    { cbn [ref_stop t_files]. rewrite (rl_files _ _ HR), <- Efi1. apply (rel_set_files s1 (ref_stop t c)). assumption. }
    split; [apply rel_prune_gc; exact HR2|].
    assert (HW2 : WInv (set_files s1 (file_del c (s_files s1)))) by apply (rl_winv _ _ HR2).
    assert (Ef : s_files (prune (gc all_off legacy (set_files s1 (file_del c (s_files s1))))) = file_del c (s_files s1)).
    { rewrite (gc_off legacy _ (proj2 HW2)). reflexivity. }
    rewrite Ef. apply allctx_prune_gc; [apply HW2|]. cbn [set_files s_funcs].
    intros r Hr. apply file_del_In. split; [apply Hno; assumption|]. rewrite Efi1. eapply AllCtx_shrinks; eassumption.
  - split; [apply rel_prune_gc; assumption|].
    assert (Ef : s_files (prune (gc all_off legacy s)) = s_files s) by (rewrite (gc_off legacy _ (proj2 (rl_winv _ _ HR))); reflexivity).
    rewrite Ef. apply allctx_prune_gc; [apply (rl_winv _ _ HR)|assumption].
Qed.

(* common first half of a (re)load of context c: stop it, write the file, new incarnation *)
Lemma load_prefix legacy s t c b : ORel s t ->
  let s1 := if loaded s c then stop_ctx all_off legacy s c else s in
  let s2 := set_inc (set_files s1 (file_set c b (s_files s1))) c (s_next (set_files s1 (file_set c b (s_files s1)))) in
  let t1 := ref_stop t c in
  let t2 := mk_rst (t_live t1) (file_set c b (t_files t1)) (t_next t1) in
  Rel s2 t2 /\ AllCtx (map fst (s_files s2)) (s_funcs s2) /\ NoCtx c (s_funcs s2) /\ In c (map fst (s_files s2)).
Proof.
  intros (HR & HA). cbn zeta.
  set (s1 := if loaded s c then stop_ctx all_off legacy s c else s).
  assert (H1 : Rel s1 (ref_stop t c) /\ shrinks (s_funcs s) (s_funcs s1) /\ NoCtx c (s_funcs s1) /\ s_files s1 = s_files s).
  { unfold s1. destruct (loaded s c) eqn:El.
    - destruct (winv_stop_ctx legacy s c (rl_winv _ _ HR)) as (_ & Hsh & Hno & Efi & _).
      split; [apply rel_stop; assumption|auto].
    - assert (Hno : NoCtx c (s_funcs s)).
      { intros r Hr E. assert (Hl : loaded s c = true) by (apply loaded_In; rewrite <- E; apply HA; assumption). congruence. }
      split; [apply rel_stop_absent; assumption|]. split; [apply shrinks_refl|auto]. }
  destruct H1 as (HR1 & Hsh & Hno & Efi1).
  split; [|split; [|split]].
  - apply rel_set_inc. cbn [ref_stop t_files]. rewrite (rl_files _ _ HR), <- Efi1. apply (rel_set_files s1 (ref_stop t c)). assumption.
  - cbn [set_inc set_files s_files s_funcs]. eapply AllCtx_shrinks; [exact Hsh|]. eapply AllCtx_mono; [|exact HA].
    intros c' H. apply file_set_In. right. rewrite Efi1. assumption.
  - exact Hno.
  - cbn [set_inc set_files s_files]. apply file_set_In. left. reflexivity.
Qed.

Lemma finish_op legacy s t : Rel s t -> AllCtx (map fst (s_files s)) (s_funcs s) -> ORel (prune (gc all_off legacy s)) t.
Proof.
  intros HR HA. split; [apply rel_prune_gc; assumption|].
  assert (Ef : s_files (prune (gc all_off legacy s)) = s_files s) by (rewrite (gc_off legacy _ (proj2 (rl_winv _ _ HR))); reflexivity).
  rewrite Ef. apply allctx_prune_gc; [apply (rl_winv _ _ HR)|assumption].
Qed.

Lemma orel_load_legacy s t c b oracle : ORel s t ->
  ORel (run_op all_off true s (OLoad c b oracle)) (ref_op t (OLoad c b oracle)).
Proof.
  intros HO. destruct (load_prefix true s t c b HO) as (HR2 & HA2 & _ & HcL). unfold run_op, ref_op. cbn zeta in *. cbv iota.
  set (s1 := if loaded s c then stop_ctx all_off true s c else s) in *.
  set (s2 := set_inc (set_files s1 (file_set c b (s_files s1))) c (s_next (set_files s1 (file_set c b (s_files s1))))) in *.
  pose proof (rel_body_imm true false c b s2 _ eq_refl HR2) as HR3.
  destruct (winv_body_imm true false c (map fst (s_files s2)) b s2 eq_refl (rl_winv _ _ HR2) (rl_nopend _ _ HR2) HA2 HcL) as (_ & _ & HA3 & Efi3 & _).
  apply finish_op; [exact HR3|]. rewrite Efi3. assumption.
Qed.

(* ---------- reload of everything / start-up ---------- *)
Lemma NoCtx_shrinks c F F' : shrinks F F' -> NoCtx c F -> NoCtx c F'.
Proof. intros Hs HN r Hr. destruct (Hs r Hr) as (r1 & H1 & _ & Ec & _). rewrite Ec. apply HN. assumption. Qed.

Lemma ref_stop_all_frame cs : forall t, t_files (fold_left ref_stop cs t) = t_files t /\ t_next (fold_left ref_stop cs t) = t_next t.
Proof. induction cs as [|c cs IH]; intros t; cbn [fold_left]; [auto|]. destruct (IH (ref_stop t c)) as (A & B). rewrite A, B. auto. Qed.

Lemma stop_all_rel legacy cs : forall s t, Rel s t ->
  let s1 := fold_left (stop_ctx all_off legacy) cs s in
  Rel s1 (fold_left ref_stop cs t) /\ shrinks (s_funcs s) (s_funcs s1) /\ (forall c, In c cs -> NoCtx c (s_funcs s1)) /\
  s_files s1 = s_files s.
Proof.
  induction cs as [|c cs IH]; intros s t HR; cbn [fold_left].
  - split; [assumption|]. split; [apply shrinks_refl|]. split; [intros c []|reflexivity].
  - destruct (winv_stop_ctx legacy s c (rl_winv _ _ HR)) as (_ & Hsh & Hno & Efi & _).
    destruct (IH _ _ (rel_stop legacy s t c HR)) as (A & B & C & D).
    split; [assumption|]. split; [eapply shrinks_trans; eassumption|]. split; [|congruence].
    intros c' [<-|Hc']; [eapply NoCtx_shrinks; eassumption|apply C; assumption].
Qed.

Lemma bodies_rel_imm L fs : forall s t, Rel s t -> AllCtx L (s_funcs s) -> (forall p, In p fs -> In (fst p) L) ->
  let s' := fold_left (fun s p => run_body all_off true false (fst p) (snd p) (set_inc s (fst p) (s_next s))) fs s in
  Rel s' (fold_left (fun t p => ref_body (fst p) (snd p) t) fs t) /\ AllCtx L (s_funcs s') /\ s_files s' = s_files s.
Proof.
  induction fs as [|p fs IH]; intros s t HR HA HL; cbn [fold_left]; [auto|].
  pose proof (rel_set_inc s t (fst p) (s_next s) HR) as HR0.
  pose proof (rel_body_imm true false (fst p) (snd p) _ _ eq_refl HR0) as HR1.
  destruct (winv_body_imm true false (fst p) L (snd p) (set_inc s (fst p) (s_next s)) eq_refl (rl_winv _ _ HR0) (rl_nopend _ _ HR0) HA) as (_ & _ & HA1 & Efi1 & _).
  { apply HL. left. reflexivity. }
  destruct (IH _ _ HR1 HA1) as (A & B & C); [intros q Hq; apply HL; right; assumption|].
  split; [assumption|]. split; [assumption|]. rewrite C, Efi1. reflexivity.
Qed.

Lemma orel_reload_legacy s t w oracle : ORel s t ->
  ORel (run_op all_off true s (OReloadAll w oracle)) (ref_op t (OReloadAll w oracle)).
Proof.
  intros (HR & HA). unfold run_op, ref_op. cbn zeta. cbv iota.
  destruct (stop_all_rel true (map fst (s_files s)) s t HR) as (HR1 & Hsh & Hno & Efi1).
  set (s1 := fold_left (stop_ctx all_off true) (map fst (s_files s)) s) in *.
  assert (Hnil : s_funcs s1 = []).
  { assert (Hall : forall r, In r (s_funcs s1) -> False).
    { intros r Hr. assert (Hc : In (f_ctx r) (map fst (s_files s))) by (eapply AllCtx_shrinks; eassumption).
      apply (Hno _ Hc r Hr). reflexivity. }
    destruct (s_funcs s1) as [|r l]; [reflexivity|]. exfalso. apply (Hall r). left. reflexivity. }
  destruct (ref_stop_all_frame (map fst (s_files s)) t) as (Tf & Tn).
  assert (Hlive : t_live (fold_left ref_stop (map fst (s_files s)) t) = []).
  { pose proof (rl_live _ _ HR1) as HL. unfold lv in HL. rewrite Hnil in HL. cbn in HL. inversion HL. reflexivity. }
  set (fl := fold_left (fun l p => file_set (fst p) (snd p) l) w (s_files s1)).
  assert (Efl0 : fold_left (fun l p => file_set (fst p) (snd p) l) w (t_files t) = fl).
  { unfold fl. rewrite Efi1, (rl_files _ _ HR). reflexivity. }
  rewrite Efl0.
  assert (HR2 : Rel (set_files s1 fl) (mk_rst [] fl (t_next t))).
  { pose proof (rel_set_files s1 _ fl HR1) as H. rewrite Hlive, Tn in H. exact H. }
  set (s2 := set_files s1 fl) in *.
  assert (HA2 : AllCtx (map fst (s_files s2)) (s_funcs s2)) by (intros r Hr; cbn in Hr; rewrite Hnil in Hr; contradiction).
  destruct (bodies_rel_imm (map fst (s_files s2)) (s_files s2) s2 _ HR2 HA2) as (HR3 & HA3 & Efi3).
  { intros p Hp. apply in_map. assumption. }
  change fl with (s_files s2) at 1. apply finish_op; [exact HR3|]. rewrite Efi3. assumption.
Qed.

(* ---------- the conformant Model refines the Spec: legacy subsystem, every operation ---------- *)
Lemma orel_init : ORel init_st init_rst.
Proof.
  split; [constructor; cbn|intros r []].
  - split; [apply core_init|intros r []].
  - intros r [].
  - reflexivity.
  - reflexivity.
  - constructor.
  - intros r1 r2 [].
Qed.

Lemma orel_op_legacy s t o : ORel s t -> ORel (run_op all_off true s o) (ref_op t o).
Proof.
  intros H. destruct o as [c b|c b oracle|c|w oracle].
  - apply orel_exec; assumption.
  - apply orel_load_legacy; assumption.
  - apply orel_unload; assumption.
  - apply orel_reload_legacy; assumption.
Qed.

Theorem refines_legacy ops : forall s t, ORel s t -> ORel (run_ops all_off true ops s) (fold_left ref_op ops t).
Proof.
  unfold run_ops. induction ops as [|o ops IH]; intros s t H; cbn [fold_left]; [assumption|].
  apply IH. apply orel_op_legacy. assumption.
Qed.

(* ================= default subsystem: (re)load of one file with delayed start ================= *)
Lemma okf_commit s r c k : f_own r = f_ctx r -> f_ctx r = c -> okf (commit false s r) c k = okf s c k.
Proof.
  intros Eo Ec. destruct (commit_at s r k Eo) as (_ & B & _). unfold okf at 1. rewrite B, Ec.
  destruct (memN k (filter (okf s c) (f_decl r))) eqn:Em; [|reflexivity].
  rewrite N.eqb_refl. apply memN_In in Em. apply filter_In in Em. symmetry. tauto.
Qed.

Definition started_fn (c : cid) (s : st) (todo : list gen) (r : frec) : frec :=
  if memN (f_gen r) todo then committed (filter (okf s c) (f_decl r)) r else r.

Lemma start_loop_exact c todo : forall s, WInv s -> StronglySorted N.lt todo ->
  (forall g, In g todo -> exists r, In r (s_funcs s) /\ f_gen r = g /\ f_ctx r = c /\ f_pending r = true) ->
  (forall r, In r (s_funcs s) -> f_ctx r = c -> f_held r <> [] -> forall g, In g todo -> f_gen r < g) ->
  s_funcs (fold_left (start_one all_off) todo s) = map (started_fn c s todo) (s_funcs s) /\
  (forall k, okf (fold_left (start_one all_off) todo s) c k = okf s c k).
Proof.
  induction todo as [|g todo IH]; intros s HW Hs Hex Hord; cbn [fold_left].
  - split; [|auto]. rewrite <- (map_id (s_funcs s)) at 1. apply map_ext. intros x. reflexivity.
  - inversion Hs as [|? ? Hs' Hall]; subst. rewrite Forall_forall in Hall.
    destruct (Hex g (or_introl eq_refl)) as (r & Hr & Eg & Ec & Ep).
    pose proof HW as (HC & HF). pose proof (core_nodup s HC) as Hnd.
    assert (Hh : f_held r = []) by (destruct (HF r Hr) as (A & _); apply A; assumption).
    assert (Eown : f_own r = f_ctx r) by apply (HF r Hr).
    assert (Hso : start_one all_off s g = commit false s r) by (unfold start_one; rewrite (find_gen _ g r Hnd Hr Eg), Ep; reflexivity).
    destruct (winv_start_loop c [g] s HW) as (HW1 & _).
    { repeat constructor. } { intros g' [<-|[]]. exists r. auto. } { intros r' H' Ec' Hh' g' [<-|[]]. apply Hord; auto. left; reflexivity. }
    cbn [fold_left] in HW1. rewrite Hso in *.
    destruct (core_commit s r HC Hr Hh Eown) as (_ & Ef1 & _).
    { intros r' H' Ec' Hh'. rewrite Eg. apply Hord; auto. congruence. left; reflexivity. }
    set (s1 := commit false s r) in *.
    assert (Hok1 : forall k, okf s1 c k = okf s c k) by (intros k; apply okf_commit; assumption).
    destruct (IH s1 HW1 Hs') as (A & B).
    { intros g' Hg'. destruct (Hex g' (or_intror Hg')) as (r2 & Hr2 & Eg2 & Ec2 & Ep2). exists r2. repeat split; auto.
      rewrite Ef1. apply in_upd_rec. exists r2. split; [assumption|].
      destruct (N.eqb_spec (f_gen r2) (f_gen r)) as [E|]; [|reflexivity]. specialize (Hall g' Hg'). lia. }
    { intros r' H' Ec' Hh' g' Hg'. rewrite Ef1 in H'. apply in_upd_rec in H'. destruct H' as (r0 & Hr0 & ->).
      destruct (N.eqb_spec (f_gen r0) (f_gen r)) as [E|Hne].
      - cbn. rewrite E, Eg. apply Hall. assumption.
      - apply Hord; auto. right; assumption. }
    split; [|intros k; rewrite B; apply Hok1].
    rewrite A, Ef1. unfold upd_rec. rewrite map_map. apply map_ext_in. intros x Hx. unfold started_fn.
    destruct (N.eqb_spec (f_gen x) (f_gen r)) as [E|Hne].
    + assert (x = r) by (apply (unique_gen (s_funcs s)); auto). subst x.
      cbn [committed with_tracked with_pending with_held f_gen]. rewrite memN_cons, Eg, N.eqb_refl. cbn [orb].
      destruct (memN g todo) eqn:Em; [exfalso; apply memN_In in Em; specialize (Hall g Em); lia|].
      rewrite Ec. reflexivity.
    + rewrite memN_cons. destruct (N.eqb_spec (f_gen x) g) as [E|_]; [congruence|]. cbn [orb].
      destruct (memN (f_gen x) todo); [|reflexivity]. f_equal. apply filter_ext. intros k. apply Hok1.
Qed.

Lemma lv_cancel g L : filter f_bound (upd_rec g (with_pending false) (upd_rec g (with_bound false) L))
                      = filter (fun r => f_bound r && negb (N.eqb (f_gen r) g)) L.
Proof.
  induction L as [|x L IH]; [reflexivity|]. cbn [upd_rec map]. fold (upd_rec g (with_bound false) L).
  fold (upd_rec g (with_pending false) (upd_rec g (with_bound false) L)). cbn [filter].
  destruct (N.eqb_spec (f_gen x) g) as [E|Hne].
  - cbn [with_bound f_gen]. rewrite E, N.eqb_refl. cbn [with_pending with_bound f_bound negb]. rewrite andb_false_r. exact IH.
  - destruct (N.eqb_spec (f_gen x) g); [congruence|]. cbn [negb]. rewrite andb_true_r. destruct (f_bound x); [f_equal|]; exact IH.
Qed.

Definition kill (x : frec) : frec := with_pending false (with_bound false x).
Definition pend_rec (stk : bool) (s : st) (c : cid) (f : fid) (decl : list key) (d : srd) : frec :=
  mk_frec c f (s_next s) (eff_sr false d) (nodupN decl) [] true true true (s_inc s c) c stk.

(* a definition while the context is loading: nothing is registered, the previous waiting manager is cancelled *)
Lemma do_def_pend_exact rt stk c f decl d s : WInv s -> UB (lv s) ->
  (forall r, In r (lv s) -> f_ctx r = c -> f_pending r = true) ->
  let s' := do_def all_off false false rt stk c f decl d s in
  lv s' = filter (fun r => negb (same_name c f r)) (lv s) ++ [pend_rec stk s c f decl d] /\
  (forall k, okf s' c k = okf s c k) /\
  (exists phi, s_funcs s' = map phi (s_funcs s) ++ [pend_rec stk s c f decl d] /\
               forall x, In x (s_funcs s) -> phi x = x \/ (phi x = kill x /\ f_ctx x = c)).
Proof.
  intros HW Hub Hcp. pose proof HW as (HC & HF). cbn zeta. rewrite do_def_off. cbn zeta. cbn [negb andb].
  fold (pend_rec stk s c f decl d). set (nr := pend_rec stk s c f decl d).
  assert (Hg : ~ In (s_next s) (gens (s_funcs s))).
  { intros H. unfold gens in H. apply in_map_iff in H. destruct H as (r & E & Hr). pose proof (w_next _ HC r Hr). lia. }
  destruct (find_bound (set_next s (s_next s + 1)) c f) as [r0|] eqn:Efb.
  - change (find_bound (set_next s (s_next s + 1)) c f) with (find_bound s c f) in Efb.
    apply find_bound_some in Efb. destruct Efb as (H0 & Hn0).
    assert (Hr0 : In r0 (s_funcs s)) by (apply lv_in in H0; tauto).
    assert (Ec0 : f_ctx r0 = c) by (unfold same_name in Hn0; apply andb_prop in Hn0; destruct Hn0 as (A & _); apply N.eqb_eq; exact A).
    pose proof (Hcp r0 H0 Ec0) as Hp0.
    assert (Hnr : N.eqb (f_gen nr) (f_gen r0) = false).
    { apply N.eqb_neq. intros E. apply Hg. cbn in E. rewrite E. apply in_map. assumption. }
    unfold unbind. cbn [all_off d_pending_zombie]. rewrite Hp0. cbn [set_funcs s_funcs].
    split; [|split].
    + unfold lv. cbn [set_funcs s_funcs]. rewrite lv_cancel, filter_app. rewrite (kill_by_name s c f r0 HW Hub H0 Hn0). f_equal.
      cbn [filter]. rewrite Hnr. reflexivity.
    + reflexivity.
    + exists (fun x => if N.eqb (f_gen x) (f_gen r0) then kill x else x). split.
      * unfold upd_rec. rewrite !map_map, map_app. cbn [map]. f_equal.
        -- apply map_ext. intros x. destruct (N.eqb_spec (f_gen x) (f_gen r0)) as [E|Hne].
           ++ cbn [with_bound f_gen]. rewrite E, N.eqb_refl. reflexivity.
           ++ destruct (N.eqb_spec (f_gen x) (f_gen r0)); [congruence|reflexivity].
        -- rewrite Hnr. cbn [with_bound f_gen]. rewrite Hnr. reflexivity.
      * intros x Hx. destruct (N.eqb_spec (f_gen x) (f_gen r0)) as [E|]; [|left; reflexivity]. right. split; [reflexivity|].
        assert (Ex : x = r0) by (apply (unique_gen (s_funcs s)); auto; apply core_nodup; assumption). rewrite Ex. exact Ec0.
  - change (find_bound (set_next s (s_next s + 1)) c f) with (find_bound s c f) in Efb.
    split; [|split].
    + unfold lv. cbn [set_funcs s_funcs]. rewrite filter_app. cbn [filter nr pend_rec f_bound]. f_equal.
      symmetry. apply filter_all. intros r Hr. rewrite (find_bound_none s c f Efb r Hr). reflexivity.
    + reflexivity.
    + exists (fun x => x). split; [rewrite map_id; reflexivity|intros x _; left; reflexivity].
Qed.

Lemma do_del_pend_exact c f s : WInv s -> UB (lv s) ->
  (forall r, In r (lv s) -> f_ctx r = c -> f_pending r = true) ->
  let s' := do_del all_off false c f s in
  lv s' = filter (fun r => negb (same_name c f r)) (lv s) /\ (forall k, okf s' c k = okf s c k) /\
  s_next s' = s_next s /\ s_files s' = s_files s /\
  (exists phi, s_funcs s' = map phi (s_funcs s) /\ forall x, In x (s_funcs s) -> phi x = x \/ (phi x = kill x /\ f_ctx x = c)).
Proof.
  intros HW Hub Hcp. pose proof HW as (HC & HF). cbn zeta. unfold do_del.
  destruct (find_bound s c f) as [r0|] eqn:Efb.
  - apply find_bound_some in Efb. destruct Efb as (H0 & Hn0).
    assert (Hr0 : In r0 (s_funcs s)) by (apply lv_in in H0; tauto).
    assert (Ec0 : f_ctx r0 = c) by (unfold same_name in Hn0; apply andb_prop in Hn0; destruct Hn0 as (A & _); apply N.eqb_eq; exact A).
    pose proof (Hcp r0 H0 Ec0) as Hp0.
    unfold unbind. cbn [all_off d_pending_zombie]. rewrite Hp0. cbn [set_funcs s_funcs s_next s_files].
    split; [|split; [reflexivity|split; [reflexivity|split; [reflexivity|]]]].
    + unfold lv. cbn [set_funcs s_funcs]. rewrite lv_cancel. apply kill_by_name; assumption.
    + exists (fun x => if N.eqb (f_gen x) (f_gen r0) then kill x else x). split.
      * unfold upd_rec. rewrite map_map. apply map_ext. intros x. destruct (N.eqb_spec (f_gen x) (f_gen r0)) as [E|Hne].
        -- cbn [with_bound f_gen]. rewrite E, N.eqb_refl. reflexivity.
        -- destruct (N.eqb_spec (f_gen x) (f_gen r0)); [congruence|reflexivity].
      * intros x Hx. destruct (N.eqb_spec (f_gen x) (f_gen r0)) as [E|]; [|left; reflexivity]. right. split; [reflexivity|].
        assert (Ex : x = r0) by (apply (unique_gen (s_funcs s)); auto; apply core_nodup; assumption). rewrite Ex. exact Ec0.
  - split; [|split; [reflexivity|split; [reflexivity|split; [reflexivity|]]]].
    + symmetry. apply filter_all. intros r Hr. rewrite (find_bound_none s c f Efb r Hr). reflexivity.
    + exists (fun x => x). split; [rewrite map_id; reflexivity|intros x _; left; reflexivity].
Qed.

(* the relation while context c is loading: its bound function objects wait; what they WILL hold is what the Spec already
   gave their declarations, because nothing that decides it (the owner table) moves before they start *)
Definition mtp (c : cid) (s : st) (r : frec) (d : dref) : Prop :=
  r_ctx d = f_ctx r /\ r_name d = f_name r /\ r_gen d = f_gen r /\
  forall k, memN k (r_eff d) = if N.eqb (f_ctx r) c then memN k (filter (okf s c) (f_decl r)) else memN k (f_held r).

Record PRel (c : cid) (s : st) (t : rst) : Prop := {
  p_winv : WInv s;
  p_K : K (s_funcs s);
  p_next : t_next t = s_next s;
  p_files : t_files t = s_files s;
  p_mine : forall r, In r (s_funcs s) -> f_ctx r = c -> f_held r = [] /\ (f_bound r = true -> f_pending r = true) /\ f_own r = c;
  p_other : forall r, In r (s_funcs s) -> f_ctx r <> c -> f_pending r = false;
  p_live : Forall2 (mtp c s) (lv s) (t_live t);
  p_ub : UB (lv s)
}.

Lemma mtp_ext c s s' l1 l2 : (forall k, okf s' c k = okf s c k) -> Forall2 (mtp c s) l1 l2 -> Forall2 (mtp c s') l1 l2.
Proof.
  intros Hok. induction 1 as [|r d l1 l2 (A & B & C & D) H IH]; constructor; [|assumption].
  repeat split; auto. intros k. rewrite D. destruct (N.eqb (f_ctx r) c); [|reflexivity]. f_equal. apply filter_ext. intros x. symmetry. apply Hok.
Qed.

Lemma prel_owner_ok c s t k : PRel c s t -> owner_ok (t_live t) c k = okf s c k.
Proof.
  intros [HW _ _ _ Hmine _ HL _]. pose proof HW as (HC & HF). unfold owner_ok, ref_owner.
  destruct (find (fun r => memN k (r_eff r)) (t_live t)) as [d|] eqn:Ef.
  - apply find_some in Ef. destruct Ef as (Hd & Hk). destruct (F2_in_r _ _ _ d HL Hd) as (r & Hr & Ec & _ & _ & Hm).
    rewrite Hm in Hk. apply lv_in in Hr. destruct Hr as (Hr & _). cbn. rewrite Ec.
    destruct (N.eqb_spec (f_ctx r) c) as [E|Hne].
    + apply memN_In in Hk. apply filter_In in Hk. symmetry. tauto.
    + unfold okf. rewrite (w_ctx _ HC r k Hr Hk). destruct (N.eqb_spec (f_ctx r) c); [congruence|reflexivity].
  - cbn. unfold okf. destruct (s_owner s k) as [o|] eqn:Eo; [|reflexivity]. exfalso.
    assert (Hc : s_cnt s k <> 0) by (intros E; apply (w_own _ HC) in E; congruence).
    rewrite (w_cnt _ HC) in Hc. destruct (hcount_pos_holder k (s_funcs s)) as (r & Hr & Hm); [lia|].
    assert (Hne : f_ctx r <> c) by (intros E; destruct (Hmine r Hr E) as (Hh & _); rewrite Hh in Hm; discriminate).
    pose proof (holder_live s r k HW Hr Hm) as Hlv. destruct (F2_in_l _ _ _ r HL Hlv) as (d & Hd & _ & _ & _ & Hmd).
    pose proof (find_none _ _ Ef d Hd) as Hn. cbn in Hn. rewrite Hmd in Hn.
    destruct (N.eqb_spec (f_ctx r) c); [congruence|]. rewrite Hm in Hn. discriminate.
Qed.

Lemma mtp_same_name c0 s c f r d : mtp c0 s r d -> negb (same_name c f r) = negb (N.eqb (r_ctx d) c && N.eqb (r_name d) f).
Proof. intros (Ec & Ef & _). unfold same_name. rewrite Ec, Ef. reflexivity. Qed.

Lemma prel_cpend c s t : PRel c s t -> forall r, In r (lv s) -> f_ctx r = c -> f_pending r = true.
Proof. intros HP r Hr Ec. apply lv_in in Hr. destruct Hr as (Hr & Hb). destruct (p_mine _ _ _ HP r Hr Ec) as (_ & A & _). auto. Qed.

Lemma prel_pendin c s t : PRel c s t -> PendIn [c] (s_funcs s).
Proof.
  intros HP r Hr Hp. left. destruct (N.eq_dec (f_ctx r) c) as [E|Hne]; [symmetry; assumption|].
  rewrite (p_other _ _ _ HP r Hr Hne) in Hp. discriminate.
Qed.

Lemma prel_def rt stk c f decl d s t : PRel c s t ->
  PRel c (do_def all_off false false rt stk c f decl d s) (ref_def c t f decl d).
Proof.
  intros HP. pose proof HP as [HW HK En Efi Hmine Hother HL Hub].
  destruct (winv_do_def_pend rt stk c f decl d s (c :: map f_ctx (s_funcs s)) [c] HW HK) as (HW' & HK' & _).
  { intros r Hr. right. apply in_map. assumption. } { eapply prel_pendin; eassumption. } { left; reflexivity. } { left; reflexivity. }
  destruct (do_def_frame false false rt stk c f decl d s) as (En' & Efi').
  destruct (do_def_pend_exact rt stk c f decl d s HW Hub (prel_cpend c s t HP)) as (Elv & Hok & phi & Ef & Hphi).
  set (s' := do_def all_off false false rt stk c f decl d s) in *.
  constructor; auto.
  - cbn. rewrite En', En. reflexivity.
  - cbn. rewrite Efi'. assumption.
  - intros r' Hr' Ec. rewrite Ef in Hr'. apply in_app_or in Hr'. destruct Hr' as [Hr'|[<-|[]]]; [|cbn; auto].
    apply in_map_iff in Hr'. destruct Hr' as (x & <- & Hx). destruct (Hphi x Hx) as [E|(E & Ecx)]; rewrite E in *.
    + apply Hmine; assumption.
    + destruct (Hmine x Hx Ecx) as (A & _ & C). cbn. repeat split; auto; discriminate.
  - intros r' Hr' Hne. rewrite Ef in Hr'. apply in_app_or in Hr'. destruct Hr' as [Hr'|[<-|[]]]; [|cbn in Hne; congruence].
    apply in_map_iff in Hr'. destruct Hr' as (x & <- & Hx). destruct (Hphi x Hx) as [E|(E & Ecx)]; rewrite E in *.
    + apply Hother; assumption.
    + reflexivity.
  - rewrite Elv. cbn [ref_def t_live]. apply Forall2_app.
    + apply F2_filter; [apply (mtp_ext c s s'); assumption|]. intros r d0 _ _ Hm. eapply mtp_same_name. eassumption.
    + constructor; [|constructor]. unfold mtp, pend_rec. cbn. rewrite En, N.eqb_refl. repeat split; auto.
      intros k. f_equal. apply filter_ext. intros x. rewrite Hok. apply prel_owner_ok. assumption.
  - rewrite Elv. apply UB_filter_app; [assumption|]. intros r Hr Ec Ef0. apply filter_In in Hr. destruct Hr as (_ & Hn).
    unfold same_name in Hn. cbn in Ec, Ef0. rewrite Ec, Ef0, !N.eqb_refl in Hn. discriminate.
Qed.

Lemma prel_del c f s t : PRel c s t -> PRel c (do_del all_off false c f s) (ref_stmt c t (SDel f)).
Proof.
  intros HP. pose proof HP as [HW HK En Efi Hmine Hother HL Hub].
  destruct (winv_do_del false c f s HW) as (HW' & Hsh & _); [discriminate|].
  destruct (do_del_pend_exact c f s HW Hub (prel_cpend c s t HP)) as (Elv & Hok & En' & Efi' & phi & Ef & Hphi).
  set (s' := do_del all_off false c f s) in *.
  constructor; auto.
  - eapply K_shrinks; eassumption.
  - cbn. rewrite En'. assumption.
  - cbn. rewrite Efi'. assumption.
  - intros r' Hr' Ec. rewrite Ef in Hr'. apply in_map_iff in Hr'. destruct Hr' as (x & <- & Hx).
    destruct (Hphi x Hx) as [E|(E & Ecx)]; rewrite E in *.
    + apply Hmine; assumption.
    + destruct (Hmine x Hx Ecx) as (A & _ & C). cbn. repeat split; auto; discriminate.
  - intros r' Hr' Hne. rewrite Ef in Hr'. apply in_map_iff in Hr'. destruct Hr' as (x & <- & Hx).
    destruct (Hphi x Hx) as [E|(E & Ecx)]; rewrite E in *; [apply Hother; assumption|reflexivity].
  - rewrite Elv. cbn [ref_stmt t_live]. apply F2_filter; [apply (mtp_ext c s s'); assumption|].
    intros r d0 _ _ Hm. eapply mtp_same_name. eassumption.
  - rewrite Elv. apply UB_filter. assumption.
Qed.

Lemma prel_body c b : forall s t, PRel c s t -> PRel c (run_body all_off false false c b s) (ref_body c b t).
Proof.
  unfold run_body, ref_body. induction b as [|x b IH]; intros s t HP; cbn [fold_left]; [assumption|].
  apply IH. destruct x as [f decl d|f decl d|f decl d|f]; cbn [run_stmt ref_stmt].
  - apply prel_def; assumption.
  - apply prel_def; assumption.
  - apply prel_def; assumption.
  - apply prel_del; assumption.
Qed.

Lemma filter_bound_map (phi : frec -> frec) l : (forall x, f_bound (phi x) = f_bound x) ->
  filter f_bound (map phi l) = map phi (filter f_bound l).
Proof. intros H. induction l as [|x l IH]; [reflexivity|]. cbn [map filter]. rewrite H. destruct (f_bound x); cbn [map]; rewrite IH; reflexivity. Qed.

Lemma started_fn_bound c s todo x : f_bound (started_fn c s todo x) = f_bound x.
Proof. unfold started_fn. destruct (memN (f_gen x) todo); reflexivity. Qed.

Lemma load_core_new oracle s2 t2 c b : Rel s2 t2 -> AllCtx (map fst (s_files s2)) (s_funcs s2) -> NoCtx c (s_funcs s2) ->
  In c (map fst (s_files s2)) ->
  ORel (prune (gc all_off false (start_ctx all_off oracle (run_body all_off false false c b s2) c))) (ref_body c b t2).
Proof.
  intros HR2 HA2 Hno2 HcL.
  (* the context is empty: the loading relation holds *)
  assert (HP2 : PRel c s2 t2).
  { destruct HR2 as [HW HNP En Efi HL Hub]. constructor; auto.
    - apply NoPend_K. assumption.
    - intros r Hr Ec. exfalso. apply (Hno2 r Hr Ec).
    - clear - HL Hno2. assert (Hall : forall r, In r (lv s2) -> f_ctx r <> c) by (intros r Hr; apply lv_in in Hr; apply Hno2; tauto).
      induction HL as [|r d l1 l2 (A & B & C & D) H IH]; constructor.
      + repeat split; auto. intros k. destruct (N.eqb_spec (f_ctx r) c) as [E|]; [exfalso; apply (Hall r); [left; reflexivity|assumption]|apply D].
      + apply IH. intros x Hx. apply Hall. right. assumption. }
  pose proof (prel_body c b s2 t2 HP2) as HP3.
  destruct (winv_body_pend c (map fst (s_files s2)) [c] b s2 (p_winv _ _ _ HP2) (p_K _ _ _ HP2) HA2 (prel_pendin _ _ _ HP2) HcL)
    as (_ & _ & HA3 & _ & Efi3 & _); [left; reflexivity|].
  set (s3 := run_body all_off false false c b s2) in *. set (t3 := ref_body c b t2) in *.
  pose proof HP3 as [HW3 HK3 En3 Eft3 Hmine3 Hother3 HL3 Hub3].
  destruct (winv_start_ctx oracle s3 c (map fst (s_files s2)) [] HW3 HK3 HA3 (prel_pendin _ _ _ HP3)) as (HW4 & _ & HA4 & HP4 & Efi4 & En4).
  rewrite start_ctx_off in *.
  set (todo := pending_gens s3 c) in *.
  assert (Htodo : forall g, In g todo <-> exists r, In r (s_funcs s3) /\ f_gen r = g /\ f_ctx r = c /\ f_pending r = true).
  { intros g. unfold todo, pending_gens. rewrite in_map_iff. split.
    - intros (r & Eg & Hr). apply filter_In in Hr. destruct Hr as (Hr & E). apply andb_prop in E. destruct E as (Ep & Ec).
      apply N.eqb_eq in Ec. exists r. auto.
    - intros (r & Hr & Eg & Ec & Ep). exists r. split; [assumption|]. apply filter_In. split; [assumption|].
      rewrite Ep, Ec, N.eqb_refl. reflexivity. }
  destruct (start_loop_exact c todo s3 HW3) as (Ef4 & Hok4).
  { apply (sorted_map_filter _ _ (w_sorted _ (proj1 HW3))). }
  { intros g Hg. apply Htodo. assumption. }
  { intros r Hr Ec Hh. destruct (Hmine3 r Hr Ec) as (A & _). congruence. }
  set (s4 := fold_left (start_one all_off) todo s3) in *.
  assert (Elv4 : lv s4 = map (started_fn c s3 todo) (lv s3)).
  { unfold lv. rewrite Ef4. apply filter_bound_map. intros x. apply started_fn_bound. }
  assert (Hmem : forall r, In r (s_funcs s3) -> memN (f_gen r) todo = (f_pending r && N.eqb (f_ctx r) c)).
  { intros r Hr. destruct (memN (f_gen r) todo) eqn:Em.
    - apply memN_In in Em. apply Htodo in Em. destruct Em as (r' & Hr' & Eg & Ec & Ep).
      assert (r' = r) by (apply (unique_gen (s_funcs s3)); auto; apply core_nodup, HW3). subst r'.
      rewrite Ep, Ec, N.eqb_refl. reflexivity.
    - destruct (f_pending r) eqn:Ep; [|reflexivity]. destruct (N.eqb_spec (f_ctx r) c) as [Ec|]; [|reflexivity].
      exfalso. assert (Hin : In (f_gen r) todo) by (apply Htodo; exists r; auto). apply memN_In in Hin. congruence. }
  apply finish_op; [|rewrite Efi4, Efi3; assumption].
  constructor; auto.
  - intros r Hr. destruct (f_pending r) eqn:Ep; [|reflexivity]. destruct (HP4 r Hr Ep).
  - rewrite En4. assumption.
  - rewrite Efi4. assumption.
  - rewrite Elv4. clear - HL3 Hmem Hmine3 Hother3. 
    assert (Hin : forall r, In r (lv s3) -> In r (s_funcs s3) /\ f_bound r = true) by (intros r Hr; apply lv_in; assumption).
    induction HL3 as [|r d l1 l2 (A & B & C & D) H IH]; cbn [map]; constructor.
    + destruct (Hin r (or_introl eq_refl)) as (Hr & Hb). unfold started_fn. rewrite (Hmem r Hr).
      destruct (N.eqb_spec (f_ctx r) c) as [Ec|Hne].
      * destruct (Hmine3 r Hr Ec) as (_ & Hp & _). rewrite (Hp Hb). cbn [andb]. unfold mt. cbn.
        repeat split; auto; try (intros k; rewrite D; destruct (N.eqb_spec (f_ctx r) c); [reflexivity|congruence]).
      * rewrite (Hother3 r Hr Hne). cbn [andb].
        repeat split; auto; try (intros k; rewrite D; destruct (N.eqb_spec (f_ctx r) c); [congruence|reflexivity]).
    + apply IH. intros x Hx. apply Hin. right. assumption.
  - rewrite Elv4. intros r1' r2' H1 H2 Ec Ef. apply in_map_iff in H1, H2. destruct H1 as (r1 & <- & H1), H2 as (r2 & <- & H2).
    f_equal. apply Hub3; auto.
    + unfold started_fn in Ec. destruct (memN (f_gen r1) todo), (memN (f_gen r2) todo); exact Ec.
    + unfold started_fn in Ef. destruct (memN (f_gen r1) todo), (memN (f_gen r2) todo); exact Ef.
Qed.

Lemma orel_load_new s t c b oracle : ORel s t ->
  ORel (run_op all_off false s (OLoad c b oracle)) (ref_op t (OLoad c b oracle)).
Proof.
  intros HO. destruct (load_prefix false s t c b HO) as (HR2 & HA2 & Hno2 & HcL). unfold run_op, ref_op. cbn zeta in *. cbv iota.
  apply load_core_new; assumption.
Qed.

Lemma run_body_files legacy started c b : forall s, s_files (run_body all_off legacy started c b s) = s_files s.
Proof.
  unfold run_body. induction b as [|x b IH]; intros s; cbn [fold_left]; [reflexivity|]. rewrite IH.
  destruct x as [f decl d|f decl d|f decl d|f]; cbn [run_stmt]; [apply do_def_frame|apply do_def_frame|apply do_def_frame|apply do_del_frame].
Qed.

(* reload of everything / start-up in the default subsystem, when at most one script file exists afterwards *)
Lemma orel_reload_new_small s t w oracle : ORel s t ->
  (length (fold_left (fun l p => file_set (fst p) (snd p) l) w (s_files s)) <= 1)%nat ->
  ORel (run_op all_off false s (OReloadAll w oracle)) (ref_op t (OReloadAll w oracle)).
Proof.
  intros (HR & HA) Hlen. unfold run_op, ref_op. cbn zeta. cbv iota.
  destruct (stop_all_rel false (map fst (s_files s)) s t HR) as (HR1 & Hsh & Hno & Efi1).
  set (s1 := fold_left (stop_ctx all_off false) (map fst (s_files s)) s) in *.
  assert (Hnil : s_funcs s1 = []).
  { assert (Hall : forall r, In r (s_funcs s1) -> False).
    { intros r Hr. assert (Hc : In (f_ctx r) (map fst (s_files s))) by (eapply AllCtx_shrinks; eassumption).
      apply (Hno _ Hc r Hr). reflexivity. }
    destruct (s_funcs s1) as [|r l]; [reflexivity|]. exfalso. apply (Hall r). left. reflexivity. }
  destruct (ref_stop_all_frame (map fst (s_files s)) t) as (Tf & Tn).
  assert (Hlive : t_live (fold_left ref_stop (map fst (s_files s)) t) = []).
  { pose proof (rl_live _ _ HR1) as HL. unfold lv in HL. rewrite Hnil in HL. cbn in HL. inversion HL. reflexivity. }
  set (fl := fold_left (fun l p => file_set (fst p) (snd p) l) w (s_files s1)).
  assert (Efl0 : fold_left (fun l p => file_set (fst p) (snd p) l) w (t_files t) = fl).
  { unfold fl. rewrite Efi1, (rl_files _ _ HR). reflexivity. }
  rewrite Efl0.
  assert (Hlen' : (length fl <= 1)%nat) by (unfold fl; rewrite Efi1; exact Hlen).
  assert (HR2 : Rel (set_files s1 fl) (mk_rst [] fl (t_next t))).
  { pose proof (rel_set_files s1 _ fl HR1) as H. rewrite Hlive, Tn in H. exact H. }
  set (s2 := set_files s1 fl) in *.
  assert (Hno2 : forall c, NoCtx c (s_funcs s2)) by (intros c r Hr; cbn in Hr; rewrite Hnil in Hr; contradiction).
  assert (HA2 : AllCtx (map fst (s_files s2)) (s_funcs s2)) by (intros r Hr; cbn in Hr; rewrite Hnil in Hr; contradiction).
  assert (Efs : s_files s2 = fl) by reflexivity.
  clearbody s2. clear Efl0 HR1 Hlive. clearbody fl.
  rewrite Efs. destruct fl as [|[c b] [|q fl']]; [| |cbn in Hlen'; lia].
  - cbn [fold_left]. rewrite Efs. change (start_all all_off oracle s2 (map fst [])) with s2. apply finish_op; assumption.
  - cbn [fold_left fst snd].
    rewrite (run_body_files false false c b (set_inc s2 c (s_next s2))). cbn [set_inc s_files]. rewrite Efs. cbn [map fst fold_left].
    apply load_core_new.
    + apply rel_set_inc. assumption.
    + cbn [set_inc s_files s_funcs]. assumption.
    + cbn [set_inc s_funcs]. apply Hno2.
    + cbn [set_inc s_files]. rewrite Efs. left. reflexivity.
Qed.

(* ================= the refinement theorem ================= *)
Definition files_after (fl : list (cid * list stmt)) (o : op) : list (cid * list stmt) :=
  match o with
  | OExec _ _ => fl
  | OLoad c b _ => file_set c b fl
  | OUnload c => if existsb (fun p => N.eqb (fst p) c) fl then file_del c fl else fl
  | OReloadAll w _ => fold_left (fun l p => file_set (fst p) (snd p) l) w fl
  end.

(* what is covered: everything in the legacy subsystem; in the default subsystem everything except a reload of everything /
   start-up that leaves more than one script file (several contexts waiting for start at the same time) *)
Definition op_ok (legacy : bool) (fl : list (cid * list stmt)) (o : op) : Prop :=
  legacy = true \/ match o with OReloadAll _ _ => (length (files_after fl o) <= 1)%nat | _ => True end.
Fixpoint ops_ok (legacy : bool) (ops : list op) (fl : list (cid * list stmt)) : Prop :=
  match ops with [] => True | o :: r => op_ok legacy fl o /\ ops_ok legacy r (files_after fl o) end.

Lemma ref_body_files c b : forall t, t_files (ref_body c b t) = t_files t.
Proof.
  unfold ref_body. induction b as [|x b IH]; intros t; cbn [fold_left]; [reflexivity|]. rewrite IH.
  destruct x; reflexivity.
Qed.

Lemma ref_bodies_files fs : forall t, t_files (fold_left (fun t p => ref_body (fst p) (snd p) t) fs t) = t_files t.
Proof. induction fs as [|p fs IH]; intros t; cbn [fold_left]; [reflexivity|]. rewrite IH. apply ref_body_files. Qed.

Lemma ref_op_files t o : t_files (ref_op t o) = files_after (t_files t) o.
Proof.
  destruct o as [c b|c b oracle|c|w oracle]; cbn [ref_op files_after].
  - destruct (ref_loaded t c); [apply ref_body_files|reflexivity].
  - rewrite ref_body_files. reflexivity.
  - unfold ref_loaded. destruct (existsb (fun p => N.eqb (fst p) c) (t_files t)); reflexivity.
  - rewrite ref_bodies_files. reflexivity.
Qed.

Lemma orel_op legacy s t o : ORel s t -> op_ok legacy (s_files s) o -> ORel (run_op all_off legacy s o) (ref_op t o).
Proof.
  intros H Hok. destruct legacy; [apply orel_op_legacy; assumption|].
  destruct Hok as [E|Hok]; [discriminate|].
  destruct o as [c b|c b oracle|c|w oracle].
  - apply orel_exec; assumption.
  - apply orel_load_new; assumption.
  - apply orel_unload; assumption.
  - apply orel_reload_new_small; assumption.
Qed.

Theorem refines legacy ops : forall s t, ORel s t -> ops_ok legacy ops (s_files s) ->
  ORel (run_ops all_off legacy ops s) (fold_left ref_op ops t).
Proof.
  unfold run_ops. induction ops as [|o ops IH]; intros s t H Hok; cbn [fold_left]; [assumption|].
  destruct Hok as (Ho & Hr). pose proof (orel_op legacy s t o H Ho) as H'.
  apply IH; [assumption|].
  rewrite <- (rl_files _ _ (proj1 H')), ref_op_files, (rl_files _ _ (proj1 H)). assumption.
Qed.

(* observations: for every name, registered or not and which generation answers a call (the value a call returns is that
   generation's result, Services.model_call / ServicesSpec.spec_call) *)
Theorem refines_observations legacy ops : ops_ok legacy ops [] ->
  forall k, handler_gen (run_ops all_off legacy ops init_st) k = ref_gen (fold_left ref_op ops init_rst) k.
Proof.
  intros Hok k. apply rel_handler. apply (refines legacy ops init_st init_rst orel_init Hok).
Qed.

Corollary refines_observations_legacy ops k :
  handler_gen (run_ops all_off true ops init_st) k = ref_gen (fold_left ref_op ops init_rst) k.
Proof.
  apply refines_observations. generalize (@nil (cid * list stmt)). induction ops as [|o ops IH]; intros fl; cbn; [exact I|].
  split; [left; reflexivity|apply IH].
Qed.

(* the side condition is inhabited by non-trivial default-subsystem sequences: start-up with one file, further files loaded
   one by one, run-time definitions, deletions, reload of one file, unload *)
Example ops_ok_instance :
  ops_ok false [OReloadAll [(0, [SDef 0 [1; 2] DOpt; SDef 1 [1] DAbs])] []; OLoad 1 [SDef 0 [1; 3] DAbs; SDel 0; SDef 2 [3] DOnly] [];
                OExec 0 [SDefRt 2 [4] DAbs; SDel 1]; OLoad 0 [SDef 0 [3]  DAbs] []; OUnload 1; OExec 0 [SDef 0 [3; 5] DAbs]] [].
Proof. cbn. repeat split; auto; right; cbn; auto. Qed.
