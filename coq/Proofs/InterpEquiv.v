(* Proofs/InterpEquiv.v — equivalence of PsEval (all deviation switches off) and PyRef, for every host that
   satisfies H1/H2, every program of Interp/Syntax.v and every fuel.  Induction on fuel; one lemma per group of
   AST constructors; list helpers are related by induction on the list, given the equivalence of the evaluators
   of the children (the induction hypothesis at the lower fuel). *)
From Coq Require Import List NArith ZArith Bool Lia.
From PV Require Import Common.Util Interp.Syntax Interp.Host Interp.PsEval Interp.PyRef Gen.InterpConsts.
Import ListNotations.

(* ---------- host hypotheses (the domain of C01's quantifier: builtin values) ---------- *)
(* H1: a truth test has no effect and yields a bool *)
Definition H1 {hstate} (prim : primop -> list value -> hstate -> hstate * pres) : Prop :=
  forall v h, exists b, prim PTruth [v] h = (h, PRet (VBool b)).
(* H2: rich comparisons yield bools, and the truth of a bool is itself *)
Definition H2 {hstate} (prim : primop -> list value -> hstate -> hstate * pres) : Prop :=
  (forall o a b h h' v, prim (PCmp o) [a; b] h = (h', PRet v) -> exists t, v = VBool t) /\
  (forall t h, prim PTruth [VBool t] h = (h, PRet (VBool t))).

Lemma binop_row_id : forall o, binop_row o = (o, false).
Proof. destruct o; reflexivity. Qed.

Section Equiv.
  Variable hstate : Type.
  Variable prim : primop -> list value -> hstate -> hstate * pres.
  Variable oh : N -> bool.
  Hypothesis HH1 : H1 prim.
  Hypothesis HH2 : H2 prim.

  Notation M := (M hstate).

  (* pointwise equality of computations *)
  Definition eqm {A} (m1 m2 : M A) : Prop := forall s, m1 s = m2 s.

  Lemma eqm_refl {A} (m : M A) : eqm m m.
  Proof. intros s; reflexivity. Qed.
  Lemma eqm_sym {A} (m1 m2 : M A) : eqm m1 m2 -> eqm m2 m1.
  Proof. intros H s; symmetry; apply H. Qed.
  Lemma eqm_trans {A} (m1 m2 m3 : M A) : eqm m1 m2 -> eqm m2 m3 -> eqm m1 m3.
  Proof. intros H1' H2' s; rewrite H1'; apply H2'. Qed.

  Lemma bind_eqm {A B} (m1 m2 : M A) (k1 k2 : A -> M B) :
    eqm m1 m2 -> (forall a, eqm (k1 a) (k2 a)) -> eqm (bind m1 k1) (bind m2 k2).
  Proof. intros Hm Hk s. unfold bind. rewrite Hm. destruct (m2 s); auto. apply Hk. Qed.

  Lemma bind_eqm_r {A B} (m : M A) (k1 k2 : A -> M B) :
    (forall a, eqm (k1 a) (k2 a)) -> eqm (bind m k1) (bind m k2).
  Proof. intros; apply bind_eqm; [apply eqm_refl|assumption]. Qed.

  Lemma bind_ret_l {A B} (a : A) (k : A -> M B) : eqm (bind (ret a) k) (k a).
  Proof. intros s; reflexivity. Qed.

  Lemma bind_ret_r {A} (m : M A) : eqm (bind m (fun a => ret a)) m.
  Proof. intros s; unfold bind, ret. destruct (m s); reflexivity. Qed.

  Lemma bind_assoc {A B C} (m : M A) (k : A -> M B) (k' : B -> M C) :
    eqm (bind (bind m k) k') (bind m (fun a => bind (k a) k')).
  Proof. intros s; unfold bind. destruct (m s); reflexivity. Qed.

  Lemma ensure_eqm {A} (m1 m2 : M A) (f1 f2 : M unit) :
    eqm m1 m2 -> eqm f1 f2 -> eqm (ensure m1 f1) (ensure m2 f2).
  Proof. intros Hm Hf s. unfold ensure. rewrite Hm. destruct (m2 s); auto; rewrite Hf; reflexivity. Qed.

  (* ---------- consequences of H1 / H2 ---------- *)
  Lemma st_eta (s : istate hstate) : mkst (st_host s) (st_env s) (st_trail s) = s.
  Proof. destruct s; reflexivity. Qed.

  Lemma truth_pure (v : value) (s : istate hstate) : exists b, truth hstate prim v s = Ret b s.
  Proof.
    destruct (HH1 v (st_host s)) as [b Hb]. exists b.
    unfold truth, bind, do_prim_quiet. rewrite Hb. cbn. rewrite st_eta. reflexivity.
  Qed.

  Lemma truth_bool (t : bool) (s : istate hstate) : truth hstate prim (VBool t) s = Ret t s.
  Proof.
    destruct HH2 as [_ Hb]. unfold truth, bind, do_prim_quiet. rewrite Hb. cbn. rewrite st_eta. reflexivity.
  Qed.

  (* a truth test whose answer is not used *)
  Lemma truth_drop {A} (v : value) (k : bool -> M A) (m : M A) :
    (forall t, eqm (k t) m) -> eqm (bind (truth hstate prim v) k) m.
  Proof.
    intros Hk s. destruct (truth_pure v s) as [b Hb]. unfold bind. rewrite Hb. apply Hk.
  Qed.

  Lemma cmp_apply_bool (o : pcmp) (a b : value) (s s' : istate hstate) (v : value) :
    cmp_apply hstate prim o a b s = Ret v s' -> exists t, v = VBool t.
  Proof.
    destruct HH2 as [Hc _].
    destruct o; cbn [cmp_apply];
      try (unfold do_prim; destruct (prim _ _ (st_host s)) as [h' r] eqn:E; destruct r as [w|x]; intros Q; inversion Q; subst;
           eapply Hc; eassumption).
    - unfold ret; intros Q; inversion Q; eauto.
    - unfold ret; intros Q; inversion Q; eauto.
    - unfold bind, do_prim. destruct (prim _ _ (st_host s)) as [h' r]. destruct r as [w|x]; [|discriminate].
      destruct w as [c| | | | | |]; try discriminate. destruct c; try discriminate. unfold ret; intros Q; inversion Q; eauto.
    - unfold bind, do_prim. destruct (prim _ _ (st_host s)) as [h' r]. destruct r as [w|x]; [|discriminate].
      destruct w as [c| | | | | |]; try discriminate. destruct c; try discriminate. unfold ret; intros Q; inversion Q; eauto.
  Qed.

  (* the continuation of a comparison only ever sees a bool *)
  Lemma bind_cmp {A} (o : pcmp) (a b : value) (k1 k2 : value -> M A) :
    (forall t, eqm (k1 (VBool t)) (k2 (VBool t))) ->
    eqm (bind (cmp_apply hstate prim o a b) k1) (bind (cmp_apply hstate prim o a b) k2).
  Proof.
    intros Hk s. unfold bind. destruct (cmp_apply hstate prim o a b s) as [v s'| |] eqn:E; auto.
    destruct (cmp_apply_bool _ _ _ _ _ _ E) as [t ->]. apply Hk.
  Qed.

  Lemma bind_truth_bool {A} (t : bool) (k : bool -> M A) : eqm (bind (truth hstate prim (VBool t)) k) (k t).
  Proof. intros s. unfold bind. rewrite truth_bool. reflexivity. Qed.

  (* comparing, then testing the result and returning True/False, is comparing *)
  Lemma cmp_then_truth (o : pcmp) (a b : value) :
    eqm (bind (cmp_apply hstate prim o a b) (fun val => bind (truth hstate prim val) (fun t =>
           if t then ret (VBool true) else ret (VBool false))))
        (cmp_apply hstate prim o a b).
  Proof.
    eapply eqm_trans; [|apply bind_ret_r]. apply bind_cmp. intros t.
    eapply eqm_trans; [apply bind_truth_bool|]. destruct t; apply eqm_refl.
  Qed.

  (* ================= list helpers, given equivalent evaluators of the children ================= *)
  Section Children.
    Variables ev1 ev2 : expr -> M value.
    Variables asg1 asg2 : expr -> value -> M unit.
    Variable f : nat.
    Hypothesis Hev : forall e, eqm (ev1 e) (ev2 e).
    Hypothesis Hasg : forall t v, eqm (asg1 t v) (asg2 t v).

    Lemma boolop_equiv (o : boolop) : forall rest a val,
      eqm (ps_boolop hstate prim ev1 o (a :: rest) val) (py_bool hstate prim ev2 o a rest).
    Proof.
      induction rest as [|y r IH]; intros a val; cbn [ps_boolop py_bool].
      - eapply eqm_trans; [|apply eqm_trans with (m2 := bind (ev2 a) (fun v => ret v)); [|apply bind_ret_r]].
        + apply bind_eqm; [apply Hev|]. intros v. apply truth_drop. intros t. destruct o, t; apply eqm_refl.
        + apply eqm_refl.
      - apply bind_eqm; [apply Hev|]. intros v. apply bind_eqm_r. intros t.
        destruct o, t; try apply eqm_refl; apply (IH y v).
    Qed.

    Lemma chain_equiv : forall rest lft va o b,
      eqm (ps_compare hstate prim no_deviations ev1 lft (Some va) ((o, b) :: rest)) (py_chain hstate prim ev2 va o b rest).
    Proof.
      induction rest as [|[o2 e2] r IH]; intros lft va o b; cbn [ps_compare py_chain].
      - eapply eqm_trans; [apply bind_ret_l|]. apply bind_eqm; [apply Hev|]. intros vb. apply cmp_then_truth.
      - eapply eqm_trans; [apply bind_ret_l|]. apply bind_eqm; [apply Hev|]. intros vb.
        apply bind_cmp. intros t.
        eapply eqm_trans; [apply bind_truth_bool|]. eapply eqm_trans; [|apply eqm_sym, bind_truth_bool].
        destruct t; [|apply eqm_refl]. cbn [d_compare_reeval no_deviations]. apply (IH b vb o2 e2).
    Qed.

    Lemma compare_equiv a o b rest :
      eqm (ps_compare hstate prim no_deviations ev1 a None ((o, b) :: rest)) (bind (ev2 a) (fun x => py_chain hstate prim ev2 x o b rest)).
    Proof.
      eapply eqm_trans with (m2 := bind (ev1 a) (fun x => ps_compare hstate prim no_deviations ev1 a (Some x) ((o, b) :: rest))).
      - cbn [ps_compare]. apply bind_eqm_r. intros x s. reflexivity.
      - apply bind_eqm; [apply Hev|]. intros x. apply chain_equiv.
    Qed.

    (* one step of symbolic execution on both sides: same scrutinee, split on its result *)
    Ltac mcase :=
      match goal with
      | |- context [match ?X with Ret _ _ => _ | Raise _ _ => _ | Fuel => _ end] => destruct X eqn:?; cbn beta iota; auto
      end.
    Ltac ev2 := repeat match goal with |- context [ev1 ?e ?s] => rewrite (Hev e s) end.

    Lemma elts_nonstar e r acc : is_starred e = false ->
      ps_elts hstate prim ev1 f (e :: r) acc = bind (ev1 e) (fun v => ps_elts hstate prim ev1 f r (acc ++ [v])).
    Proof. destruct e; cbn; intros; try reflexivity; discriminate. Qed.
    Lemma items_nonstar e r : is_starred e = false ->
      py_items hstate prim ev2 f (e :: r) =
      bind (bind (ev2 e) (fun v => ret [v])) (fun here => bind (py_items hstate prim ev2 f r) (fun rest => ret (here ++ rest))).
    Proof. destruct e; cbn; intros; try reflexivity; discriminate. Qed.

    Lemma elts_equiv : forall es acc,
      eqm (ps_elts hstate prim ev1 f es acc) (bind (py_items hstate prim ev2 f es) (fun l => ret (acc ++ l))).
    Proof.
      induction es as [|e r IH]; intros acc s.
      - cbn. unfold bind, ret. rewrite app_nil_r. reflexivity.
      - destruct (is_starred e) eqn:Es.
        + destruct e; try discriminate. cbn [ps_elts py_items]. unfold bind. ev2. mcase. mcase.
          rewrite IH. unfold bind. mcase. unfold ret. rewrite app_assoc. reflexivity.
        + rewrite elts_nonstar, items_nonstar by assumption. unfold bind. ev2. mcase. cbn.
          rewrite IH. unfold bind. mcase. unfold ret. rewrite <- app_assoc. reflexivity.
    Qed.

    Lemma elts_equiv0 es {A} (k : list value -> M A) :
      eqm (bind (ps_elts hstate prim ev1 f es []) k) (bind (py_items hstate prim ev2 f es) k).
    Proof.
      eapply eqm_trans; [apply bind_eqm; [apply elts_equiv|intros; apply eqm_refl]|].
      eapply eqm_trans; [apply bind_assoc|]. apply bind_eqm_r. intros l s. reflexivity.
    Qed.

    (* ---------- keywords ---------- *)
    Lemma kw_put_eq k v d : eqm (kw_put hstate no_deviations k v d) (py_kw_add hstate k v d).
    Proof.
      intros s. unfold kw_put, py_kw_add. cbn [d_kw_dup_silent no_deviations].
      induction d as [|[k' v'] d IH]; cbn; [reflexivity|].
      destruct (value_eqb k k'); cbn; [reflexivity|].
      destruct (find (fun p => value_eqb k (fst p)) d), (existsb (fun p => value_eqb k (fst p)) d); cbn in *;
        try reflexivity; try discriminate.
      unfold ret in *. inversion IH as [Q]. rewrite Q. reflexivity.
    Qed.

    Lemma kw_merge_eq : forall m d, eqm (kw_merge hstate no_deviations m d) (py_kw_add_all hstate m d).
    Proof.
      induction m as [|[k v] r IH]; intros d; cbn [kw_merge py_kw_add_all]; [apply eqm_refl|].
      apply bind_eqm; [apply kw_put_eq|]. intros d'. apply IH.
    Qed.

    Lemma kwargs_equiv : forall kws d,
      eqm (ps_kwargs hstate no_deviations ev1 kws d) (py_keywords hstate ev2 kws d).
    Proof.
      induction kws as [|[[k|] e] r IH]; intros d; cbn [ps_kwargs py_keywords]; [apply eqm_refl| |].
      - apply bind_eqm; [apply Hev|]. intros v. apply bind_eqm; [apply kw_put_eq|]. intros d'. apply IH.
      - apply bind_eqm; [apply Hev|]. intros v. eapply eqm_trans; [|apply eqm_sym, bind_assoc].
        apply bind_eqm_r. intros m. apply bind_eqm; [apply kw_merge_eq|]. intros d'. apply IH.
    Qed.

    (* ---------- dict display ---------- *)
    Lemma flush_eq : forall pend d, eqm (dict_flush hstate oh pend d) (py_store_pairs hstate oh pend d).
    Proof.
      induction pend as [|[k v] r IH]; intros d s; cbn [dict_flush py_store_pairs]; [reflexivity|].
      unfold bind, dict_put. destruct (hashable oh k); cbn; [apply IH|reflexivity].
    Qed.

    Lemma dict_equiv : forall items pend d,
      eqm (ps_dict hstate oh no_deviations ev1 items pend d) (py_dict hstate oh ev2 items pend d).
    Proof.
      induction items as [|[[k|] e] r IH]; intros pend d; cbn [ps_dict py_dict].
      - apply flush_eq.
      - cbn [d_dict_value_first d_dict_eager_insert no_deviations].
        eapply eqm_trans; [apply bind_assoc|]. apply bind_eqm; [apply Hev|]. intros kv.
        eapply eqm_trans; [apply bind_assoc|]. apply bind_eqm; [apply Hev|]. intros v.
        intros s. cbn. apply IH.
      - apply bind_eqm; [apply flush_eq|]. intros d1. apply bind_eqm; [apply Hev|]. intros v.
        apply bind_eqm_r. intros m. apply IH.
    Qed.

    (* ---------- set display ---------- *)
    Lemma split_leading : forall es, split_at_star es = leading es.
    Proof.
      induction es as [|e r IH]; [reflexivity|]. destruct e; cbn; try rewrite IH; reflexivity.
    Qed.

    Lemma set_tail_nonstar e r acc : is_starred e = false ->
      ps_set_tail hstate prim oh ev1 f (e :: r) acc =
      bind (ev1 e) (fun v => bind (set_put oh v acc) (fun s' => ps_set_tail hstate prim oh ev1 f r s')).
    Proof. destruct e; cbn; intros; try reflexivity; discriminate. Qed.
    Lemma set_more_nonstar e r acc : is_starred e = false ->
      py_set_more hstate prim oh ev2 f (e :: r) acc =
      bind (bind (ev2 e) (fun v => set_put oh v acc)) (fun acc' => py_set_more hstate prim oh ev2 f r acc').
    Proof. destruct e; cbn; intros; try reflexivity; discriminate. Qed.

    Lemma set_tail_equiv : forall es acc,
      eqm (ps_set_tail hstate prim oh ev1 f es acc) (py_set_more hstate prim oh ev2 f es acc).
    Proof.
      induction es as [|e r IH]; intros acc s; [reflexivity|].
      destruct (is_starred e) eqn:Es.
      - destruct e; try discriminate. cbn [ps_set_tail py_set_more]. unfold bind. ev2. mcase. mcase. mcase. mcase. apply IH.
      - rewrite set_tail_nonstar, set_more_nonstar by assumption. unfold bind. ev2. mcase. mcase. apply IH.
    Qed.

    Lemma set_equiv es : eqm (ps_set hstate prim oh no_deviations ev1 f es) (py_set hstate prim oh ev2 f es).
    Proof.
      unfold ps_set, py_set. cbn [d_set_late_hash no_deviations]. rewrite split_leading.
      destruct (leading es) as [lead more].
      eapply eqm_trans; [apply elts_equiv0|]. apply bind_eqm_r. intros l. apply bind_eqm_r. intros s0.
      apply bind_eqm; [apply set_tail_equiv|]. intros; apply eqm_refl.
    Qed.

    (* ---------- comprehensions ---------- *)
    Lemma conds_equiv : forall ifs, eqm (ps_conds hstate prim ev1 ifs) (py_ifs hstate prim ev2 ifs).
    Proof.
      induction ifs as [|c r IH]; cbn [ps_conds py_ifs]; [apply eqm_refl|].
      apply bind_eqm; [apply Hev|]. intros v. apply bind_eqm_r. intros t. destruct t; [apply IH|apply eqm_refl].
    Qed.

    Lemma for_each_eqm (b1 b2 : value -> M (list value)) : (forall x, eqm (b1 x) (b2 x)) ->
      forall n c acc, eqm (for_each hstate prim n c b1 acc) (for_each hstate prim n c b2 acc).
    Proof.
      intros Hb. induction n as [|n IH]; intros c acc s; cbn [for_each]; [reflexivity|].
      destruct c as [[|x r]|it]; [reflexivity| |].
      - unfold bind. rewrite Hb. mcase. apply IH.
      - mcase. unfold bind. rewrite Hb. mcase. apply IH.
    Qed.

    Lemma comp_equiv (e1 e2 : M (list value)) : eqm e1 e2 ->
      forall gens, eqm (ps_comp hstate prim ev1 asg1 f gens e1) (py_clauses hstate prim ev2 asg2 f gens e2).
    Proof.
      intros He. induction gens as [|[[tgt it] ifs] r IH]; cbn [ps_comp py_clauses]; [assumption|].
      apply bind_eqm; [apply Hev|]. intros vit. apply bind_eqm_r. intros c.
      apply for_each_eqm. intros x. apply bind_eqm; [apply Hasg|]. intros _.
      apply bind_eqm; [apply conds_equiv|]. intros ok. destruct ok; [apply IH|apply eqm_refl].
    Qed.

    Lemma names_eq : forall n t, target_names n t = bound_names n t.
    Proof.
      induction n as [|n IH]; intros t; [reflexivity|]. destruct t; cbn; try reflexivity;
        try (apply flat_map_ext; intros a; apply IH).
    Qed.

    Lemma scoped_equiv gens (m1 m2 : M value) : eqm m1 m2 ->
      eqm (ps_scoped hstate no_deviations gens m1) (py_nested hstate gens m2).
    Proof.
      intros Hm. unfold ps_scoped, py_nested. cbn [d_comp_leak_on_exc no_deviations].
      apply bind_eqm_r. intros saved. apply ensure_eqm; [assumption|].
      unfold scope_restore, unleak, comp_vars.
      replace (flat_map (fun g : comp => target_names 50 (fst (fst g))) gens)
        with (flat_map (fun g : comp => bound_names 50 (fst (fst g))) gens); [apply eqm_refl|].
      apply flat_map_ext. intros g. symmetry. apply names_eq.
    Qed.

    (* ---------- f-strings ---------- *)
    Lemma joined_equiv : forall parts acc,
      eqm (ps_joined hstate ev1 parts acc) (bind (py_pieces hstate ev2 parts) (fun s => ret (VConst (CStr (acc ++ s))))).
    Proof.
      induction parts as [|p r IH]; intros acc s; cbn [ps_joined py_pieces].
      - unfold bind, ret. rewrite app_nil_r. reflexivity.
      - unfold bind. ev2. mcase.
        destruct a as [[]| | | | | |]; try reflexivity.
        rewrite IH. unfold bind. mcase. unfold ret. rewrite <- app_assoc. reflexivity.
    Qed.

    (* ---------- target lists ---------- *)
    Lemma bind_seq_eqm : forall ts vs, eqm (bind_seq hstate asg1 ts vs) (bind_seq hstate asg2 ts vs).
    Proof.
      induction ts as [|t r IH]; intros vs; destruct vs as [|v vr]; cbn [bind_seq]; try apply eqm_refl.
      apply bind_eqm; [apply Hasg|]. intros _. apply IH.
    Qed.

    Lemma unpack_eqm ts v : eqm (unpack_targets hstate prim asg1 f ts v) (unpack_targets hstate prim asg2 f ts v).
    Proof.
      unfold unpack_targets. destruct (split_star ts) as [[[before star] after]|].
      - apply bind_eqm_r. intros items. destruct (Nat.ltb _ _); [apply eqm_refl|].
        destruct star; try apply eqm_refl.
        apply bind_eqm; [apply bind_seq_eqm|]. intros _. apply bind_eqm; [apply Hasg|]. intros _. apply bind_seq_eqm.
      - apply bind_eqm_r. intros items. apply bind_seq_eqm.
    Qed.

    Lemma opt_equiv o : eqm (ps_opt hstate ev1 o) (py_bound hstate ev2 o).
    Proof. destruct o; [apply Hev|apply eqm_refl]. Qed.

    Ltac bb := first [ apply bind_eqm; [apply Hev|]; intro | apply bind_eqm_r; intro ].

    (* ================= one node ================= *)
    Lemma call_general vf args kws :
      eqm (bind (ps_elts hstate prim ev1 f args []) (fun av => bind (ps_kwargs hstate no_deviations ev1 kws []) (fun kw =>
             do_call hstate prim vf av kw)))
          (bind (py_items hstate prim ev2 f args) (fun pos => bind (py_keywords hstate ev2 kws []) (fun kw =>
             do_call hstate prim vf pos kw))).
    Proof.
      eapply eqm_trans; [apply elts_equiv0|]. apply bind_eqm_r. intros av.
      apply bind_eqm; [apply kwargs_equiv|]. intros; apply eqm_refl.
    Qed.

    Lemma expr_body_equiv e :
      eqm (ps_expr_body hstate prim oh no_deviations ev1 asg1 f e) (py_expr_rule hstate prim oh ev2 asg2 f e).
    Proof.
      destruct e; cbn [ps_expr_body py_expr_rule].
      - apply eqm_refl.
      - apply eqm_refl.
      - rewrite binop_row_id. cbn. bb. bb. apply eqm_refl.
      - destruct o; cbn [d_uadd_identity no_deviations]; bb; apply eqm_refl.
      - apply boolop_equiv.
      - apply compare_equiv.
      - bb. bb. destruct a0; apply Hev.
      - cbn [d_call_kw_first no_deviations]. bb.
        destruct args as [|a0 rr]; [apply call_general|].
        destruct a0; try apply call_general.
        destruct rr; [|apply call_general].
        bb. apply bind_eqm; [apply kwargs_equiv|]. intros; apply eqm_refl.
      - apply eqm_refl.
      - apply elts_equiv0.
      - apply elts_equiv0.
      - apply set_equiv.
      - apply bind_eqm; [apply dict_equiv|]. intros; apply eqm_refl.
      - bb. bb. apply eqm_refl.
      - apply bind_eqm; [apply opt_equiv|]. intros. apply bind_eqm; [apply opt_equiv|]. intros.
        apply bind_eqm; [apply opt_equiv|]. intros. apply eqm_refl.
      - bb. apply eqm_refl.
      - bb. apply eqm_refl.
      - apply scoped_equiv. apply bind_eqm; [|intros; apply eqm_refl]. apply comp_equiv. bb. apply eqm_refl.
      - apply scoped_equiv. apply bind_eqm; [|intros; apply eqm_refl]. apply comp_equiv. bb. apply eqm_refl.
      - apply scoped_equiv. apply bind_eqm; [|intros; apply eqm_refl]. apply comp_equiv. bb. bb. apply eqm_refl.
      - eapply eqm_trans; [apply joined_equiv|]. intros s. reflexivity.
      - cbn [d_fstring_conv d_fstr_conv_early no_deviations]. bb.
        apply bind_eqm; [destruct spec; [apply Hev|apply eqm_refl]|]. intros fmt. apply eqm_refl.
    Qed.

    Lemma assign_body_equiv t v :
      eqm (ps_assign_body hstate prim no_deviations ev1 asg1 f t v) (py_assign_rule hstate prim ev2 asg2 f t v).
    Proof.
      destruct t; cbn [ps_assign_body py_assign_rule]; try apply eqm_refl.
      - cbn [d_list_target no_deviations]. unfold ps_unpack, py_unpack. cbn [d_unpack_drain no_deviations]. apply unpack_eqm.
      - unfold ps_unpack, py_unpack. cbn [d_unpack_drain no_deviations]. apply unpack_eqm.
      - bb. bb. apply eqm_refl.
      - bb. apply eqm_refl.
    Qed.

    Lemma assign_all_equiv : forall ts v, eqm (ps_assign_all hstate asg1 ts v) (py_targets hstate asg2 ts v).
    Proof.
      induction ts as [|t r IH]; intros v; cbn [ps_assign_all py_targets]; [apply eqm_refl|].
      apply bind_eqm; [apply Hasg|]. intros _. apply IH.
    Qed.

    Lemma delete_one_equiv t : eqm (ps_delete_one hstate prim no_deviations ev1 t) (py_del hstate prim ev2 t).
    Proof.
      destruct t; cbn [ps_delete_one py_del d_del_attr_state no_deviations]; try apply eqm_refl.
      - bb. bb. apply eqm_refl.
      - bb. apply eqm_refl.
    Qed.

    Lemma delete_equiv : forall ts, eqm (ps_delete hstate prim no_deviations ev1 ts) (py_dels hstate prim ev2 ts).
    Proof.
      induction ts as [|t r IH]; cbn [ps_delete py_dels]; [apply eqm_refl|].
      apply bind_eqm; [apply delete_one_equiv|]. intros _. apply IH.
    Qed.

    Lemma stmt_body_equiv st :
      eqm (ps_stmt_body hstate prim no_deviations ev1 asg1 st) (py_stmt_rule hstate prim ev2 asg2 st).
    Proof.
      destruct st; cbn [ps_stmt_body py_stmt_rule].
      - bb. apply eqm_refl.
      - bb. apply assign_all_equiv.
      - cbn [d_aug_not_inplace d_aug_target_twice no_deviations].
        destruct t; try apply eqm_refl.
        + bb. bb. apply bind_eqm_r. intros. apply Hasg.
        + bb. bb. apply bind_eqm_r. intros. bb. apply eqm_refl.
        + bb. apply bind_eqm_r. intros. bb. apply eqm_refl.
      - apply delete_equiv.
      - apply eqm_refl.
    Qed.
  End Children.

  (* ================= induction on fuel ================= *)
  Lemma expr_assign_equiv : forall fuel : nat,
    and (forall e, eqm (ps_expr hstate prim oh no_deviations fuel e) (py_expr hstate prim oh fuel e))
        (forall t v, eqm (ps_assign hstate prim oh no_deviations fuel t v) (py_assign hstate prim oh fuel t v)).
  Proof.
    induction fuel as [|n [IHe IHa]]; split; intros; cbn [ps_expr py_expr ps_assign py_assign]; try apply eqm_refl.
    - apply expr_body_equiv; assumption.
    - apply assign_body_equiv; assumption.
  Qed.

  Lemma stmt_equiv fuel st : eqm (ps_stmt hstate prim oh no_deviations fuel st) (py_stmt hstate prim oh fuel st).
  Proof.
    destruct fuel as [|n]; cbn [ps_stmt py_stmt]; [apply eqm_refl|].
    destruct (expr_assign_equiv n) as [He Ha]. apply stmt_body_equiv; assumption.
  Qed.

  Lemma block_equiv fuel : forall p, eqm (ps_block hstate prim oh no_deviations fuel p) (py_block hstate prim oh fuel p).
  Proof.
    induction p as [|st r IH]; cbn [ps_block py_block]; [apply eqm_refl|].
    apply bind_eqm; [apply stmt_equiv|]. intros _. apply IH.
  Qed.

  (* the whole run: same final table, same trail, same outcome, same host state — or both out of fuel *)
  Theorem run_equiv (cfg : deviations) : all_off cfg -> forall fuel p h e,
    ps_run hstate prim oh cfg fuel p h e = py_run hstate prim oh fuel p h e.
  Proof.
    intros -> fuel p h e. unfold ps_run, py_run. rewrite block_equiv. reflexivity.
  Qed.
End Equiv.

(* ---------- the statements used by Properties/C01.v ---------- *)
Lemma run_equal :
  forall (hstate : Type) (prim : primop -> list value -> hstate -> hstate * pres) (oh : N -> bool) (cfg : deviations),
  H1 prim -> H2 prim -> all_off cfg ->
  forall (fuel : nat) (p : program) (h : hstate) (e : env),
  ps_run hstate prim oh cfg fuel p h e = py_run hstate prim oh fuel p h e.
Proof. intros. apply run_equiv; assumption. Qed.

Lemma obs_equiv :
  forall (hstate : Type) (prim : primop -> list value -> hstate -> hstate * pres) (oh : N -> bool) (cfg : deviations),
  all_off cfg -> H1 prim -> H2 prim ->
  forall (fuel : nat) (p : program) (h : hstate) (e : env),
  option_map obs (ps_run hstate prim oh cfg fuel p h e) = option_map obs (py_run hstate prim oh fuel p h e).
Proof. intros. rewrite (run_equal hstate prim oh cfg) by assumption. reflexivity. Qed.

Lemma calls_equal :
  forall (hstate : Type) (prim : primop -> list value -> hstate -> hstate * pres) (oh : N -> bool) (cfg : deviations),
  all_off cfg -> H1 prim -> H2 prim ->
  forall fuel p h e r1 r2,
  ps_run hstate prim oh cfg fuel p h e = Some r1 -> py_run hstate prim oh fuel p h e = Some r2 ->
  calls (rr_trail r1) = calls (rr_trail r2).
Proof.
  intros hstate prim oh cfg Hoff Ha Hb fuel p h e r1 r2 E1 E2.
  rewrite (run_equal hstate prim oh cfg) in E1 by assumption. rewrite E1 in E2. inversion E2. reflexivity.
Qed.

Lemma outcome_equal :
  forall (hstate : Type) (prim : primop -> list value -> hstate -> hstate * pres) (oh : N -> bool) (cfg : deviations),
  all_off cfg -> H1 prim -> H2 prim ->
  forall fuel p h e r1 r2,
  ps_run hstate prim oh cfg fuel p h e = Some r1 -> py_run hstate prim oh fuel p h e = Some r2 ->
  rr_out r1 = rr_out r2 /\ rr_env r1 = rr_env r2.
Proof.
  intros hstate prim oh cfg Hoff Ha Hb fuel p h e r1 r2 E1 E2.
  rewrite (run_equal hstate prim oh cfg) in E1 by assumption. rewrite E1 in E2. inversion E2. split; reflexivity.
Qed.
