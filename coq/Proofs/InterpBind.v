(* Proofs/InterpBind.v — C03 core 1: pyscript's argument binding (with D11, D30 repaired) is the reference
   binding of the Language Reference, except for dropped trigger keywords; for every signature (any number of
   parameters of every kind) and every call (any number of arguments, any * / ** unpacking). *)
From Coq Require Import String.
From PV Require Import Common.Util Interp.Bind.
From Coq Require Import Lia.

Definition keys (kw : kwargs) : list name := map fst kw.

(* ---------- strings / membership ---------- *)
Lemma str_mem_In k l : str_mem k l = true <-> In k l.
Proof.
  unfold str_mem. rewrite existsb_exists. split.
  - intros (x & Hx & E). apply String.eqb_eq in E. subst. assumption.
  - intros H. exists k. split; [assumption|apply String.eqb_refl].
Qed.
Lemma str_mem_false k l : str_mem k l = false <-> ~ In k l.
Proof. rewrite <- str_mem_In. destruct (str_mem k l); split; congruence. Qed.
Lemma str_mem_app k a b : str_mem k (a ++ b) = str_mem k a || str_mem k b.
Proof. unfold str_mem. apply existsb_app. Qed.

Lemma kw_mem_keys k kw : kw_mem k kw = str_mem k (keys kw).
Proof. unfold kw_mem, str_mem, keys. induction kw as [|[k' v] r IH]; cbn; [reflexivity|]. rewrite IH. reflexivity. Qed.
Lemma kw_mem_In k kw : kw_mem k kw = true <-> In k (keys kw).
Proof. rewrite kw_mem_keys. apply str_mem_In. Qed.

Lemma has_dup_NoDup l : has_dup l = false <-> NoDup l.
Proof.
  induction l as [|x r IH]; cbn.
  - split; [constructor|reflexivity].
  - rewrite orb_false_iff, IH, str_mem_false. split.
    + intros [A B]. constructor; assumption.
    + intros H. inversion H; subst. split; assumption.
Qed.

Lemma has_dup_app_mem k a b : In k a -> has_dup (a ++ k :: b) = true.
Proof.
  intros H. destruct (has_dup (a ++ k :: b)) eqn:E; [reflexivity|].
  apply has_dup_NoDup in E. apply NoDup_remove_2 in E. exfalso. apply E. apply in_or_app. left. assumption.
Qed.

Lemma NoDup_snoc {A} (l : list A) x : NoDup l -> ~ In x l -> NoDup (l ++ [x]).
Proof.
  induction l as [|y r IH]; cbn; intros H N.
  - constructor; [intros []|constructor].
  - inversion H; subst. constructor.
    + rewrite in_app_iff. cbn. intros [?|[?|[]]]; [contradiction|subst; apply N; left; reflexivity].
    + apply IH; [assumption|]. intros ?. apply N. right. assumption.
Qed.

Lemma NoDup_app_l {A} (a b : list A) : NoDup (a ++ b) -> NoDup a.
Proof.
  induction a as [|x r IH]; cbn; intros H; [constructor|]. inversion H; subst.
  constructor; [|apply IH; assumption]. intros Hin. apply H2. apply in_or_app. left. assumption.
Qed.
Lemma NoDup_app_r {A} (a b : list A) : NoDup (a ++ b) -> NoDup b.
Proof. induction a as [|x r IH]; cbn; intros H; [assumption|]. inversion H; subst. apply IH. assumption. Qed.
Lemma NoDup_app_disj {A} (a b : list A) x : NoDup (a ++ b) -> In x a -> ~ In x b.
Proof.
  induction a as [|y r IH]; cbn; intros H Hin; [contradiction|]. inversion H; subst. destruct Hin as [->|Hin].
  - intros Hb. apply H2. apply in_or_app. right. assumption.
  - apply IH; assumption.
Qed.

(* ---------- dictionaries ---------- *)
Lemma kw_set_new k v kw : kw_mem k kw = false -> kw_set k v kw = kw ++ [(k, v)].
Proof.
  induction kw as [|[k' v'] r IH]; cbn; [reflexivity|].
  unfold kw_mem in *. cbn. intros H. apply orb_false_iff in H as [H1 H2]. rewrite H1, IH by assumption. reflexivity.
Qed.

Lemma kw_get_mem k kw : kw_mem k kw = is_some (kw_get k kw).
Proof.
  unfold kw_mem. induction kw as [|[k' v] r IH]; cbn; [reflexivity|].
  destruct (String.eqb k k'); cbn; [reflexivity|apply IH].
Qed.

Lemma filter_id {A} (f : A -> bool) l : (forall x, In x l -> f x = true) -> filter f l = l.
Proof.
  induction l as [|x r IH]; cbn; intros H; [reflexivity|].
  rewrite (H x) by (left; reflexivity). rewrite IH; [reflexivity|]. intros y Hy. apply H. right. assumption.
Qed.

Lemma kw_del_filter k kw : NoDup (keys kw) -> kw_del k kw = filter (fun p => negb (String.eqb k (fst p))) kw.
Proof.
  induction kw as [|[k' v] r IH]; cbn; [reflexivity|]. intros H. inversion H; subst.
  destruct (String.eqb k k') eqn:E; cbn.
  - apply String.eqb_eq in E. subst.
    symmetry. apply filter_id. intros [k2 v2] Hin. cbn. apply negb_true_iff. apply String.eqb_neq.
    intros ->. apply H2. apply in_map_iff. exists (k2, v2). split; [reflexivity|assumption].
  - rewrite IH by assumption. reflexivity.
Qed.

(* =====================================================================================================
   A. assembling the call: ast_call with D30 repaired = "a repeated keyword is a TypeError"
   ===================================================================================================== *)
Fixpoint ext (kw kvs : kwargs) : option kwargs :=
  match kvs with
  | [] => Some kw
  | (k, v) :: r => if kw_mem k kw then None else ext (kw ++ [(k, v)]) r
  end.

Lemma ext_app kw a b : ext kw (a ++ b) = match ext kw a with Some kw' => ext kw' b | None => None end.
Proof.
  revert kw. induction a as [|[k v] r IH]; intros kw; cbn; [reflexivity|].
  destruct (kw_mem k kw); [reflexivity|apply IH].
Qed.

Lemma ext_spec kvs : forall kw, NoDup (keys kw) ->
  ext kw kvs = if has_dup (keys (kw ++ kvs)) then None else Some (kw ++ kvs).
Proof.
  induction kvs as [|[k v] r IH]; intros kw H; cbn.
  - rewrite app_nil_r. apply has_dup_NoDup in H. rewrite H. reflexivity.
  - destruct (kw_mem k kw) eqn:E.
    + apply kw_mem_In in E. unfold keys. rewrite map_app. cbn. rewrite has_dup_app_mem by assumption. reflexivity.
    + rewrite IH.
      * rewrite <- app_assoc. reflexivity.
      * unfold keys. rewrite map_app. cbn. apply NoDup_snoc; [assumption|].
        intros Hin. apply kw_mem_In in Hin. congruence.
Qed.

Lemma ps_kw_put_off cfg k v kw : all_off cfg ->
  ps_kw_put cfg k v kw = ext kw [(k, v)].
Proof.
  intros [_ H]. unfold ps_kw_put. rewrite H. cbn. destruct (kw_mem k kw) eqn:E; [reflexivity|].
  rewrite kw_set_new by assumption. reflexivity.
Qed.

Lemma ps_kw_update_off cfg kvs : all_off cfg -> forall kw, ps_kw_update cfg kvs kw = ext kw kvs.
Proof.
  intros Hc. induction kvs as [|[k v] r IH]; intros kw; cbn; [reflexivity|].
  rewrite ps_kw_put_off by assumption. cbn. destruct (kw_mem k kw); [reflexivity|apply IH].
Qed.

Lemma assemble_ps_off cfg items : all_off cfg -> forall args kw,
  assemble_ps cfg items args kw =
  match ext kw (flat_map item_kw items) with
  | Some kw' => Some (args ++ flat_map item_pos items, kw')
  | None => None
  end.
Proof.
  intros Hc. induction items as [|it r IH]; intros args kw; cbn [assemble_ps flat_map].
  - cbn. rewrite app_nil_r. reflexivity.
  - rewrite ext_app. destruct it as [v|vs|k v|kvs]; cbn [item_kw item_pos].
    + cbn [ext]. rewrite IH, <- app_assoc. reflexivity.
    + cbn [ext]. rewrite IH, <- app_assoc. reflexivity.
    + rewrite ps_kw_put_off by assumption. destruct (ext kw [(k, v)]); [|reflexivity]. rewrite IH. reflexivity.
    + rewrite ps_kw_update_off by assumption. destruct (ext kw kvs); [|reflexivity]. rewrite IH. reflexivity.
Qed.

Lemma assemble_equiv cfg items : all_off cfg -> assemble_ps cfg items [] [] = assemble_py items.
Proof.
  intros Hc. rewrite assemble_ps_off by assumption. rewrite ext_spec by constructor. cbn [app].
  unfold assemble_py, keys. destruct (has_dup _); reflexivity.
Qed.

Lemma assemble_py_nodup items args kw : assemble_py items = Some (args, kw) -> NoDup (keys kw).
Proof.
  unfold assemble_py. destruct (has_dup _) eqn:E; [discriminate|]. intros H. inversion H; subst.
  apply has_dup_NoDup. assumption.
Qed.

(* =====================================================================================================
   B. a stateless description of the bound values, to which both algorithms are related
   ===================================================================================================== *)
Definition pos_value (nposonly npos ndef : nat) (args : list val) (kw : kwargs) (i : nat) (p : name) : option bval :=
  match nth_error args i with
  | Some v => if (nposonly <=? i) && kw_mem p kw then None else Some (BV v)
  | None => if (nposonly <=? i) && kw_mem p kw then option_map BV (kw_get p kw) else pos_default npos ndef i
  end.

Fixpoint decl_pos (nposonly npos ndef : nat) (args : list val) (kw : kwargs) (params : list name) (i : nat)
  : option (list (name * bval)) :=
  match params with
  | [] => Some []
  | p :: ps =>
      match pos_value nposonly npos ndef args kw i p, decl_pos nposonly npos ndef args kw ps (S i) with
      | Some v, Some l => Some ((p, v) :: l)
      | _, _ => None
      end
  end.

Definition kwonly_value (kw : kwargs) (i : nat) (p : name) (d : bool) : option bval :=
  match kw_get p kw with Some v => Some (BV v) | None => if d then Some (BKwDef i) else None end.

Fixpoint decl_kwonly (kw : kwargs) (params : list (name * bool)) (i : nat) : option (list (name * bval)) :=
  match params with
  | [] => Some []
  | (p, d) :: ps =>
      match kwonly_value kw i p d, decl_kwonly kw ps (S i) with
      | Some v, Some l => Some ((p, v) :: l)
      | _, _ => None
      end
  end.

Definition kwable (s : sig) : list name := s_args s ++ map fst (s_kwonly s).
Definition not_in (l : list name) (p : name * val) : bool := negb (str_mem (fst p) l).

Definition decl (s : sig) (args : list val) (kw : kwargs) : outcome :=
  let pos := s_posonly s ++ s_args s in
  let npos := length pos in
  if negb (is_some (s_vararg s)) && (npos <? length args) then TypeErr else
  if negb (is_some (s_kwarg s)) && existsb (not_in (kwable s)) kw then TypeErr else
  match decl_pos (length (s_posonly s)) npos (s_ndef s) args kw pos 0, decl_kwonly kw (s_kwonly s) 0 with
  | Some bp, Some bk =>
      Bound {| b_params := bp ++ bk;
               b_var := match s_vararg s with Some va => Some (va, skipn npos args) | None => None end;
               b_kw := match s_kwarg s with Some k => Some (k, filter (not_in (kwable s)) kw) | None => None end |}
  | _, _ => TypeErr
  end.

Definition sig_wf (s : sig) : Prop :=
  NoDup (param_names s) /\ s_ndef s <= length (s_posonly s ++ s_args s).

Lemma sig_wf_b_wf s : sig_wf_b s = true -> sig_wf s.
Proof.
  unfold sig_wf_b, sig_wf. rewrite andb_true_iff, negb_true_iff, has_dup_NoDup, Nat.leb_le. intros [H1 H2].
  split; [|assumption]. unfold sig_names in H1. apply NoDup_app_l in H1. assumption.
Qed.

(* ---------- lookups only matter at the names asked ---------- *)
Definition same_at (k1 k2 : kwargs) (p : name) : Prop := kw_get p k1 = kw_get p k2.

Lemma same_at_mem k1 k2 p : same_at k1 k2 p -> kw_mem p k1 = kw_mem p k2.
Proof. unfold same_at. rewrite !kw_get_mem. intros ->. reflexivity. Qed.

Lemma decl_pos_ext nposonly npos ndef args k1 k2 params : forall i,
  (forall p, In p params -> same_at k1 k2 p) ->
  decl_pos nposonly npos ndef args k1 params i = decl_pos nposonly npos ndef args k2 params i.
Proof.
  induction params as [|p ps IH]; intros i H; cbn [decl_pos]; [reflexivity|].
  rewrite (IH (S i)) by (intros q Hq; apply H; right; assumption).
  unfold pos_value. rewrite (same_at_mem k1 k2 p), (H p) by (try apply H; left; reflexivity). reflexivity.
Qed.

Lemma decl_kwonly_ext k1 k2 params : forall i,
  (forall p, In p (map fst params) -> same_at k1 k2 p) ->
  decl_kwonly k1 params i = decl_kwonly k2 params i.
Proof.
  induction params as [|[p d] ps IH]; intros i H; cbn [decl_kwonly]; [reflexivity|].
  rewrite (IH (S i)) by (intros q Hq; apply H; right; assumption).
  unfold kwonly_value. rewrite (H p) by (left; reflexivity). reflexivity.
Qed.

Lemma kw_get_filter (g : name -> bool) p kw :
  kw_get p (filter (fun kv => g (fst kv)) kw) = if g p then kw_get p kw else None.
Proof.
  induction kw as [|[k v] r IH]; cbn; [destruct (g p); reflexivity|].
  destruct (g k) eqn:Eg; cbn; destruct (String.eqb p k) eqn:E.
  - apply String.eqb_eq in E. subst. rewrite Eg. reflexivity.
  - apply IH.
  - apply String.eqb_eq in E. subst. rewrite IH, Eg. reflexivity.
  - apply IH.
Qed.

Lemma filter_filter {A} (f g : A -> bool) l : filter f (filter g l) = filter (fun x => g x && f x) l.
Proof.
  induction l as [|x r IH]; cbn; [reflexivity|]. destruct (g x); cbn; [destruct (f x); rewrite IH; reflexivity|apply IH].
Qed.

Lemma filter_ext_in' {A} (f g : A -> bool) l : (forall x, In x l -> f x = g x) -> filter f l = filter g l.
Proof.
  induction l as [|x r IH]; cbn; intros H; [reflexivity|].
  rewrite (H x) by (left; reflexivity). rewrite IH by (intros y Hy; apply H; right; assumption). reflexivity.
Qed.

Lemma NoDup_keys_filter (f : name * val -> bool) kw : NoDup (keys kw) -> NoDup (keys (filter f kw)).
Proof.
  induction kw as [|[k v] r IH]; cbn; intros H; [constructor|]. inversion H; subst.
  destruct (f (k, v)); cbn; [|apply IH; assumption]. constructor; [|apply IH; assumption].
  intros Hin. apply H2. unfold keys in *. apply in_map_iff in Hin as ([k2 v2] & E & Hin). cbn in E. subst.
  apply filter_In in Hin as [Hin _]. apply in_map_iff. exists (k, v2). split; [reflexivity|assumption].
Qed.

(* =====================================================================================================
   C. pyscript's loops against the stateless description
   ===================================================================================================== *)
Lemma ps_pos_app cfg nposonly nposn ndef haskw args l1 : forall l2 i kw bad,
  ps_pos cfg nposonly nposn ndef haskw args (l1 ++ l2) i kw bad =
  match ps_pos cfg nposonly nposn ndef haskw args l1 i kw bad with
  | Some (b1, kw1, bad1) =>
      match ps_pos cfg nposonly nposn ndef haskw args l2 (i + length l1) kw1 bad1 with
      | Some (b2, kw2, bad2) => Some (b1 ++ b2, kw2, bad2)
      | None => None
      end
  | None => None
  end.
Proof.
  induction l1 as [|p ps IH]; intros l2 i kw bad.
  - cbn [app ps_pos length]. rewrite Nat.add_0_r.
    destruct (ps_pos cfg nposonly nposn ndef haskw args l2 i kw bad) as [[[? ?] ?]|]; reflexivity.
  - cbn [app ps_pos length]. rewrite <- Nat.add_succ_comm.
    assert (K : forall x kw' bad',
      cons_res x (ps_pos cfg nposonly nposn ndef haskw args (ps ++ l2) (S i) kw' bad') =
      match cons_res x (ps_pos cfg nposonly nposn ndef haskw args ps (S i) kw' bad') with
      | Some (b1, kw1, bad1) =>
          match ps_pos cfg nposonly nposn ndef haskw args l2 (S i + length ps) kw1 bad1 with
          | Some (b2, kw2, bad2) => Some (b1 ++ b2, kw2, bad2)
          | None => None
          end
      | None => None
      end).
    { intros x kw' bad'. rewrite IH.
      destruct (ps_pos cfg nposonly nposn ndef haskw args ps (S i) kw' bad') as [[[b1 kw1] bad1]|]; cbn [cons_res]; [|reflexivity].
      destruct (ps_pos cfg nposonly nposn ndef haskw args l2 (S i + length ps) kw1 bad1) as [[[b2 kw2] bad2]|]; reflexivity. }
    destruct (nth_error args i); destruct (kw_mem p kw && _); try reflexivity; try apply K.
    + destruct (kw_get p kw); [apply K|reflexivity].
    + destruct ((nposn <=? i) && _); [apply K|reflexivity].
Qed.

Lemma decl_pos_app nposonly npos ndef args kw l1 : forall l2 i,
  decl_pos nposonly npos ndef args kw (l1 ++ l2) i =
  match decl_pos nposonly npos ndef args kw l1 i, decl_pos nposonly npos ndef args kw l2 (i + length l1) with
  | Some b1, Some b2 => Some (b1 ++ b2)
  | _, _ => None
  end.
Proof.
  induction l1 as [|p ps IH]; intros l2 i.
  - cbn [app decl_pos length]. rewrite Nat.add_0_r. destruct (decl_pos _ _ _ _ _ l2 i); reflexivity.
  - cbn [app decl_pos length]. rewrite <- Nat.add_succ_comm, IH.
    destruct (pos_value nposonly npos ndef args kw i p); [|reflexivity].
    destruct (decl_pos nposonly npos ndef args kw ps (S i)); [|reflexivity].
    destruct (decl_pos nposonly npos ndef args kw l2 (S i + length ps)); reflexivity.
Qed.

Section PsLoops.
Variables (cfg : deviations) (nposonly npos ndef : nat) (haskw : bool) (args : list val).
Hypothesis Hoff : all_off cfg.
Hypothesis Hnd : ndef <= npos.
Hypothesis Hnp : nposonly <= npos.
Let nposn := npos - ndef.

Lemma ps_default_cond i : i < npos -> (nposn <=? i) && (i <? ndef + nposn) = (npos - ndef <=? i).
Proof.
  intros Hi. unfold nposn.
  replace (i <? ndef + (npos - ndef)) with true by (symmetry; apply Nat.ltb_lt; lia).
  apply andb_true_r.
Qed.

(* positional-only parameters, as long as no keyword is spelled like one of them (or **kwargs takes it) *)
Lemma ps_pos_posonly params : forall i kw bad,
  i + length params <= nposonly ->
  (haskw = true \/ forall p, In p params -> kw_mem p kw = false) ->
  ps_pos cfg nposonly nposn ndef haskw args params i kw bad =
  match decl_pos nposonly npos ndef args kw params i with Some l => Some (l, kw, bad) | None => None end.
Proof.
  destruct Hoff as [H11 _].
  induction params as [|p ps IH]; intros i kw bad Hi Hk; cbn [ps_pos decl_pos]; [reflexivity|].
  cbn [length] in Hi.
  assert (Ei : (i <? nposonly) = true) by (apply Nat.ltb_lt; lia).
  assert (Ej : (nposonly <=? i) = false) by (apply Nat.leb_gt; lia).
  assert (Ek : kw_mem p kw && negb (negb (d_posonly_kw cfg) && (i <? nposonly) && haskw) = false).
  { rewrite H11, Ei. cbn. destruct Hk as [->|Hk]; [apply andb_false_r|]. rewrite Hk by (left; reflexivity). reflexivity. }
  rewrite Ek. unfold pos_value. rewrite Ej. cbn [andb].
  assert (Hk' : haskw = true \/ forall q, In q ps -> kw_mem q kw = false).
  { destruct Hk as [?|Hk]; [left; assumption|right; intros q Hq; apply Hk; right; assumption]. }
  destruct (nth_error args i) as [v|].
  - rewrite IH by (try assumption; lia). destruct (decl_pos nposonly npos ndef args kw ps (S i)); reflexivity.
  - rewrite ps_default_cond by lia. unfold pos_default. fold nposn. destruct (nposn <=? i); [|reflexivity].
    rewrite IH by (try assumption; lia). destruct (decl_pos nposonly npos ndef args kw ps (S i)); reflexivity.
Qed.

Lemma ps_pos_bad_mono params : forall i kw,
  match ps_pos cfg nposonly nposn ndef haskw args params i kw true with Some (_, _, b) => b = true | None => True end.
Proof.
  induction params as [|p ps IH]; intros i kw; cbn [ps_pos]; [reflexivity|].
  assert (K : forall x j kw', match cons_res x (ps_pos cfg nposonly nposn ndef haskw args ps j kw' true) with
                              | Some (_, _, b) => b = true | None => True end).
  { intros x j kw'. specialize (IH j kw'). destruct (ps_pos cfg nposonly nposn ndef haskw args ps j kw' true) as [[[? ?] ?]|]; cbn; auto. }
  destruct (nth_error args i); destruct (kw_mem p kw && _); try exact I; try apply K.
  - destruct (kw_get p kw); [apply K|exact I].
  - destruct ((nposn <=? i) && _); [apply K|exact I].
Qed.

(* without **kwargs, a keyword spelled like a positional-only parameter is an error (Python agrees) *)
Lemma ps_pos_posonly_bad params : haskw = false -> forall i kw bad,
  i + length params <= nposonly ->
  (exists p, In p params /\ kw_mem p kw = true) ->
  match ps_pos cfg nposonly nposn ndef haskw args params i kw bad with Some (_, _, b) => b = true | None => True end.
Proof.
  intros Hk. destruct Hoff as [H11 _].
  induction params as [|p ps IH]; intros i kw bad Hi (q & Hq & Hm); [destruct Hq|].
  cbn [ps_pos]. cbn [length] in Hi.
  assert (Ei : (i <? nposonly) = true) by (apply Nat.ltb_lt; lia).
  rewrite H11, Ei, Hk. cbn [negb andb]. rewrite andb_true_r.
  destruct (kw_mem p kw) eqn:Ep.
  - destruct (nth_error args i); [exact I|].
    destruct (kw_get p kw); [|exact I]. rewrite orb_true_r.
    pose proof (ps_pos_bad_mono ps (S i) (kw_del p kw)) as M. fold nposn in M. rewrite Hk in M.
    destruct (ps_pos cfg nposonly nposn ndef false args ps (S i) (kw_del p kw) true) as [[[? ?] ?]|]; cbn; auto.
  - assert (Hq' : In q ps) by (destruct Hq as [->|?]; [congruence|assumption]).
    assert (K : forall x, match cons_res x (ps_pos cfg nposonly nposn ndef false args ps (S i) kw bad) with
                          | Some (_, _, b) => b = true | None => True end).
    { intros x. specialize (IH (S i) kw bad). rewrite Hk in IH.
      destruct (ps_pos cfg nposonly nposn ndef false args ps (S i) kw bad) as [[[? ?] ?]|]; cbn; [|exact I].
      apply IH; [lia|]. exists q. split; assumption. }
    destruct (nth_error args i); [apply K|]. destruct ((nposn <=? i) && _); [apply K|exact I].
Qed.

(* parameters that may be passed by keyword *)
Lemma ps_pos_bykw params : forall i kw bad,
  nposonly <= i -> i + length params <= npos -> NoDup params -> NoDup (keys kw) ->
  ps_pos cfg nposonly nposn ndef haskw args params i kw bad =
  match decl_pos nposonly npos ndef args kw params i with
  | Some l => Some (l, filter (not_in params) kw, bad)
  | None => None
  end.
Proof.
  induction params as [|p ps IH]; intros i kw bad Hi Hl Hnd' Hkw; cbn [ps_pos decl_pos].
  - rewrite filter_id; [reflexivity|]. intros; reflexivity.
  - cbn [length] in Hl. inversion Hnd' as [|? ? Hp Hps]; subst.
    assert (Ei : (i <? nposonly) = false) by (apply Nat.ltb_ge; lia).
    assert (Ej : (nposonly <=? i) = true) by (apply Nat.leb_le; lia).
    rewrite Ei, andb_false_r. cbn [andb negb]. rewrite andb_true_r.
    unfold pos_value. rewrite Ej. cbn [andb].
    assert (Fnew : kw_mem p kw = false -> filter (not_in ps) kw = filter (not_in (p :: ps)) kw).
    { intros Em. apply filter_ext_in'. intros [k v] Hin. unfold not_in. cbn [fst str_mem existsb].
      destruct (String.eqb k p) eqn:E; [|reflexivity]. apply String.eqb_eq in E. subst.
      exfalso. apply not_true_iff_false in Em. apply Em. apply kw_mem_In. apply in_map_iff. exists (p, v). split; [reflexivity|assumption]. }
    destruct (nth_error args i) as [v|].
    + destruct (kw_mem p kw) eqn:Em; [reflexivity|].
      rewrite IH by (try assumption; lia).
      destruct (decl_pos nposonly npos ndef args kw ps (S i)); cbn [cons_res]; [|reflexivity].
      rewrite Fnew by reflexivity. reflexivity.
    + destruct (kw_mem p kw) eqn:Em.
      * rewrite kw_get_mem in Em. destruct (kw_get p kw) as [v|] eqn:Eg; [|discriminate]. cbn [option_map]. rewrite orb_false_r.
        rewrite IH; [|lia|lia|assumption|rewrite kw_del_filter by assumption; apply NoDup_keys_filter; assumption].
        rewrite kw_del_filter by assumption.
        rewrite (decl_pos_ext nposonly npos ndef args _ kw).
        2:{ intros q Hq. unfold same_at. rewrite (kw_get_filter (fun k => negb (String.eqb p k))).
            destruct (String.eqb p q) eqn:E; [|reflexivity]. apply String.eqb_eq in E. subst. contradiction. }
        destruct (decl_pos nposonly npos ndef args kw ps (S i)); cbn [cons_res]; [|reflexivity].
        rewrite filter_filter. f_equal. f_equal. f_equal. apply filter_ext_in'. intros [k v'] _.
        unfold not_in. cbn [fst str_mem existsb]. rewrite (String.eqb_sym k p). rewrite negb_orb. reflexivity.
      * rewrite ps_default_cond by lia. unfold pos_default. fold nposn. destruct (nposn <=? i); [|reflexivity].
        rewrite IH by (try assumption; lia).
        destruct (decl_pos nposonly npos ndef args kw ps (S i)); cbn [cons_res]; [|reflexivity].
        rewrite Fnew by reflexivity. reflexivity.
Qed.
End PsLoops.

Lemma ps_kwonly_spec params : forall i kw,
  NoDup (map fst params) -> NoDup (keys kw) ->
  ps_kwonly params i kw =
  match decl_kwonly kw params i with
  | Some l => Some (l, filter (not_in (map fst params)) kw)
  | None => None
  end.
Proof.
  induction params as [|[p d] ps IH]; intros i kw Hnd Hkw; cbn [ps_kwonly decl_kwonly map fst].
  - rewrite filter_id; [reflexivity|]. intros; reflexivity.
  - inversion Hnd as [|? ? Hp Hps]; subst. unfold kwonly_value.
    destruct (kw_get p kw) as [v|] eqn:Eg.
    + rewrite IH; [|assumption|rewrite kw_del_filter by assumption; apply NoDup_keys_filter; assumption].
      rewrite kw_del_filter by assumption.
      rewrite (decl_kwonly_ext _ kw).
      2:{ intros q Hq. unfold same_at. rewrite (kw_get_filter (fun k => negb (String.eqb p k))).
          destruct (String.eqb p q) eqn:E; [|reflexivity]. apply String.eqb_eq in E. subst. contradiction. }
      destruct (decl_kwonly kw ps (S i)); cbn [cons_res2]; [|reflexivity].
      rewrite filter_filter. f_equal. f_equal. apply filter_ext_in'. intros [k v'] _.
      unfold not_in. cbn [fst str_mem existsb]. rewrite (String.eqb_sym k p). rewrite negb_orb. reflexivity.
    + assert (Fnew : filter (not_in (map fst ps)) kw = filter (not_in (p :: map fst ps)) kw).
      { apply filter_ext_in'. intros [k v] Hin. unfold not_in. cbn [fst str_mem existsb].
        destruct (String.eqb k p) eqn:E; [|reflexivity]. apply String.eqb_eq in E. subst. exfalso.
        assert (M : kw_mem p kw = true) by (apply kw_mem_In; apply in_map_iff; exists (p, v); split; [reflexivity|assumption]).
        rewrite kw_get_mem, Eg in M. discriminate. }
      destruct d; [|reflexivity].
      rewrite IH by assumption. destruct (decl_kwonly kw ps (S i)); cbn [cons_res2]; [|reflexivity].
      rewrite Fnew. reflexivity.
Qed.

(* ---------- facts from a well-formed signature ---------- *)
Lemma sig_wf_parts s : sig_wf s ->
  NoDup (s_posonly s) /\ NoDup (s_args s) /\ NoDup (map fst (s_kwonly s)) /\
  (forall p, In p (s_posonly s) -> ~ In p (kwable s)) /\
  (forall p, In p (s_args s) -> ~ In p (map fst (s_kwonly s))).
Proof.
  intros [H _]. unfold param_names in H.
  pose proof (NoDup_app_l _ _ H) as H1. pose proof (NoDup_app_r _ _ H) as H2.
  pose proof (NoDup_app_l _ _ H2) as H3. pose proof (NoDup_app_r _ _ H2) as H4.
  repeat split; try assumption.
  - intros p Hp. apply (NoDup_app_disj _ _ p H Hp).
  - intros p Hp. apply (NoDup_app_disj _ _ p H2 Hp).
Qed.

Lemma not_in_kwable s kw :
  filter (not_in (map fst (s_kwonly s))) (filter (not_in (s_args s)) kw) = filter (not_in (kwable s)) kw.
Proof.
  rewrite filter_filter. apply filter_ext_in'. intros [k v] _. unfold not_in, kwable. cbn [fst].
  rewrite str_mem_app, negb_orb. reflexivity.
Qed.

(* what pyscript computes once the positional-only parameters went through without touching the keywords *)
Definition ps_rest (trig : list name) (s : sig) (args : list val) (kw : kwargs) : outcome :=
  let pos := s_posonly s ++ s_args s in
  let npos := length pos in
  match decl_pos (length (s_posonly s)) npos (s_ndef s) args kw pos 0, decl_kwonly kw (s_kwonly s) 0 with
  | Some bp, Some bk =>
      let left := filter (not_in (kwable s)) kw in
      match (match s_kwarg s with
             | Some k => Some (Some (k, left))
             | None => if forallb (fun p => str_mem (fst p) trig) left then Some None else None
             end) with
      | None => TypeErr
      | Some bkw =>
          match s_vararg s with
          | Some va => Bound {| b_params := bp ++ bk; b_var := Some (va, skipn npos args); b_kw := bkw |}
          | None => if npos <? length args then TypeErr
                    else Bound {| b_params := bp ++ bk; b_var := None; b_kw := bkw |}
          end
      end
  | _, _ => TypeErr
  end.

Lemma bind_ps_rest cfg trig s args kw : all_off cfg -> sig_wf s -> NoDup (keys kw) ->
  (is_some (s_kwarg s) = true \/ forall p, In p (s_posonly s) -> kw_mem p kw = false) ->
  bind_ps cfg trig s args kw = ps_rest trig s args kw.
Proof.
  intros Hoff Hwf Hkw Hpo.
  destruct (sig_wf_parts s Hwf) as (N1 & N2 & N3 & D1 & D2). destruct Hwf as [_ Hnd].
  unfold bind_ps, ps_rest.
  set (npos := length (s_posonly s ++ s_args s)) in *.
  assert (Hnp : length (s_posonly s) <= npos) by (subst npos; rewrite app_length; lia).
  rewrite ps_pos_app, decl_pos_app. cbn [Nat.add].
  rewrite (ps_pos_posonly cfg (length (s_posonly s)) npos (s_ndef s) _ args Hoff Hnd Hnp) by (try assumption; cbn; lia).
  destruct (decl_pos (length (s_posonly s)) npos (s_ndef s) args kw (s_posonly s) 0) as [b1|]; [|reflexivity].
  rewrite (ps_pos_bykw cfg (length (s_posonly s)) npos (s_ndef s) _ args Hnd Hnp)
    by (try assumption; subst npos; rewrite ?app_length; cbn; lia).
  destruct (decl_pos (length (s_posonly s)) npos (s_ndef s) args kw (s_args s) (length (s_posonly s))) as [b2|]; [|reflexivity].
  rewrite ps_kwonly_spec by (try assumption; apply NoDup_keys_filter; assumption).
  rewrite (decl_kwonly_ext _ kw).
  2:{ intros q Hq. unfold same_at. unfold not_in. rewrite (kw_get_filter (fun k => negb (str_mem k (s_args s)))).
      destruct (str_mem q (s_args s)) eqn:E; [|reflexivity]. apply str_mem_In in E. exfalso. exact (D2 q E Hq). }
  destruct (decl_kwonly kw (s_kwonly s) 0) as [bk|]; [|reflexivity].
  rewrite not_in_kwable. reflexivity.
Qed.

(* keywords naming a parameter are never dropped; dropping leaves every lookup of a parameter unchanged *)
Lemma drop_same_at trig s kw p : In p (param_names s) -> same_at (drop_trigger_kwargs trig s kw) kw p.
Proof.
  intros Hp. unfold same_at, drop_trigger_kwargs. destruct (s_kwarg s); [reflexivity|].
  rewrite (kw_get_filter (fun k => negb (str_mem k trig && negb (str_mem k (param_names s))))).
  apply str_mem_In in Hp. rewrite Hp. cbn. rewrite andb_false_r. reflexivity.
Qed.

Lemma all_typeerr_decl s args kw :
  decl_pos (length (s_posonly s)) (length (s_posonly s ++ s_args s)) (s_ndef s) args kw (s_posonly s ++ s_args s) 0 = None \/
  decl_kwonly kw (s_kwonly s) 0 = None \/
  (is_some (s_kwarg s) = false /\ existsb (not_in (kwable s)) kw = true) ->
  decl s args kw = TypeErr.
Proof.
  unfold decl. intros [H|[H|[H1 H2]]].
  - rewrite H. destruct (negb _ && _); [reflexivity|]. destruct (negb _ && _); reflexivity.
  - rewrite H. destruct (negb _ && _); [reflexivity|]. destruct (negb _ && _); [reflexivity|].
    destruct (decl_pos _ _ _ _ _ _ _); reflexivity.
  - rewrite H1, H2. cbn. destruct (negb _ && _); reflexivity.
Qed.

Lemma final_kw_test trig s kw :
  (forall p, In p (s_posonly s) -> kw_mem p kw = false) ->
  forallb (fun p => str_mem (fst p) trig) (filter (not_in (kwable s)) kw)
  = negb (existsb (not_in (kwable s))
            (filter (fun p => negb (str_mem (fst p) trig && negb (str_mem (fst p) (param_names s)))) kw)).
Proof.
  intros Hpo. rewrite <- (negb_involutive (forallb _ _)). f_equal.
  induction kw as [|[k v] r IH]; [reflexivity|].
  assert (Hpo' : forall p, In p (s_posonly s) -> kw_mem p r = false).
  { intros p Hp. specialize (Hpo p Hp). unfold kw_mem in *. cbn in Hpo. apply orb_false_iff in Hpo. apply Hpo. }
  specialize (IH Hpo').
  assert (Hk : str_mem k (s_posonly s) = false).
  { apply str_mem_false. intros Hin. specialize (Hpo k Hin). unfold kw_mem in Hpo. cbn in Hpo.
    rewrite String.eqb_refl in Hpo. discriminate. }
  assert (Hpn : str_mem k (param_names s) = str_mem k (kwable s)).
  { unfold param_names, kwable. rewrite str_mem_app, Hk. reflexivity. }
  cbn [filter fst]. unfold not_in at 1. cbn [fst]. rewrite Hpn.
  destruct (str_mem k (kwable s)) eqn:Ea; cbn [negb andb].
  - rewrite andb_false_r. cbn [negb existsb]. unfold not_in at 2. cbn [fst]. rewrite Ea. cbn [negb orb]. exact IH.
  - rewrite andb_true_r. cbn [forallb fst]. destruct (str_mem k trig) eqn:Et; cbn [negb andb].
    + exact IH.
    + cbn [existsb]. unfold not_in at 1. cbn [fst]. rewrite Ea. reflexivity.
Qed.

Lemma bind_ps_decl cfg trig s args kw : all_off cfg -> sig_wf s -> NoDup (keys kw) ->
  bind_ps cfg trig s args kw = decl s args (drop_trigger_kwargs trig s kw).
Proof.
  intros Hoff Hwf Hkw.
  destruct (sig_wf_parts s Hwf) as (N1 & N2 & N3 & D1 & D2).
  destruct (s_kwarg s) as [kname|] eqn:Ekw.
  - (* **kwargs present: nothing is dropped *)
    rewrite bind_ps_rest by (try assumption; left; rewrite Ekw; reflexivity).
    unfold drop_trigger_kwargs, ps_rest, decl. rewrite Ekw. cbn [is_some negb andb].
    destruct (decl_pos _ _ _ _ _ _ _); [|destruct (negb _ && _); reflexivity].
    destruct (decl_kwonly _ _ _); [|destruct (negb _ && _); reflexivity].
    destruct (s_vararg s); cbn [is_some negb andb]; [reflexivity|].
    destruct (_ <? _); reflexivity.
  - set (kd := drop_trigger_kwargs trig s kw).
    destruct (existsb (fun p => kw_mem p kw) (s_posonly s)) eqn:Epo.
    + (* a keyword spelled like a positional-only parameter: TypeError on both sides *)
      apply existsb_exists in Epo as (p & Hp & Hm).
      transitivity TypeErr.
      * unfold bind_ps. rewrite ps_pos_app.
        assert (Hnd : s_ndef s <= length (s_posonly s ++ s_args s)) by apply Hwf.
        assert (Hnp : length (s_posonly s) <= length (s_posonly s ++ s_args s)) by (rewrite app_length; lia).
        pose proof (ps_pos_posonly_bad cfg (length (s_posonly s)) (length (s_posonly s ++ s_args s)) (s_ndef s)
                      (is_some (s_kwarg s)) args Hoff Hnd Hnp (s_posonly s)) as B.
        rewrite Ekw in B. cbn [is_some] in B. specialize (B eq_refl 0 kw false).
        rewrite Ekw. cbn [is_some].
        destruct (ps_pos cfg _ _ _ false args (s_posonly s) 0 kw false) as [[[b1 kw1] bad1]|]; [|reflexivity].
        rewrite B by (cbn; try lia; exists p; split; assumption).
        pose proof (ps_pos_bad_mono cfg (length (s_posonly s)) (length (s_posonly s ++ s_args s)) (s_ndef s)
                      false args (s_args s) (0 + length (s_posonly s)) kw1) as M.
        destruct (ps_pos cfg _ _ _ false args (s_args s) _ kw1 true) as [[[b2 kw2] bad2]|]; [|reflexivity].
        rewrite M. reflexivity.
      * symmetry. apply all_typeerr_decl. right. right. rewrite Ekw. split; [reflexivity|].
        apply existsb_exists. apply kw_mem_In in Hm. apply in_map_iff in Hm as ([k v] & E & Hin). cbn in E. subst k.
        assert (Hpar : In p (param_names s)) by (unfold param_names; apply in_or_app; left; assumption).
        exists (p, v). split.
        -- subst kd. unfold drop_trigger_kwargs. rewrite Ekw. apply filter_In. split; [assumption|]. cbn [fst].
           apply str_mem_In in Hpar. rewrite Hpar. cbn. rewrite andb_false_r. reflexivity.
        -- unfold not_in. cbn [fst]. apply negb_true_iff. apply str_mem_false. apply D1. assumption.
    + (* no keyword is spelled like a positional-only parameter *)
      assert (Hpo : forall p, In p (s_posonly s) -> kw_mem p kw = false).
      { intros p Hp. destruct (kw_mem p kw) eqn:E; [|reflexivity].
        assert (X : existsb (fun p => kw_mem p kw) (s_posonly s) = true) by (apply existsb_exists; exists p; split; assumption).
        congruence. }
      rewrite bind_ps_rest by (try assumption; right; assumption).
      unfold ps_rest, decl. rewrite Ekw. cbn [is_some negb andb].
      assert (Sp : forall q, In q (s_posonly s ++ s_args s) -> same_at kd kw q).
      { intros q Hq. apply drop_same_at. unfold param_names. rewrite app_assoc. apply in_or_app. left. assumption. }
      assert (Sk : forall q, In q (map fst (s_kwonly s)) -> same_at kd kw q).
      { intros q Hq. apply drop_same_at. unfold param_names. apply in_or_app. right. apply in_or_app. right. assumption. }
      rewrite (decl_pos_ext _ _ _ _ kd kw) by assumption.
      rewrite (decl_kwonly_ext kd kw) by assumption.
      (* the final keyword test *)
      assert (T : forallb (fun p => str_mem (fst p) trig) (filter (not_in (kwable s)) kw)
                  = negb (existsb (not_in (kwable s)) kd)).
      { subst kd. unfold drop_trigger_kwargs. rewrite Ekw. apply final_kw_test. assumption. }
      rewrite T.
      destruct (decl_pos _ _ _ _ kw _ _); [|destruct (negb _ && _); [reflexivity|destruct (existsb _ kd); reflexivity]].
      destruct (decl_kwonly kw _ _); [|destruct (negb _ && _); [reflexivity|destruct (existsb _ kd); reflexivity]].
      destruct (existsb (not_in (kwable s)) kd); cbn [negb].
      * destruct (negb _ && _); reflexivity.
      * destruct (s_vararg s); cbn [is_some negb andb]; [reflexivity|]. destruct (_ <? _); reflexivity.
Qed.

(* =====================================================================================================
   D. the reference (slot filling) against the stateless description
   ===================================================================================================== *)
Definition bykw_slot (slots : list slot) (k : name) : bool :=
  existsb (fun s => String.eqb k (sl_name s) && sl_bykw s) slots.
Definition tobv (p : name * val) : name * bval := (fst p, BV (snd p)).

Lemma assoc_get_app k a b :
  assoc_get k (a ++ b) = match assoc_get k a with Some v => Some v | None => assoc_get k b end.
Proof.
  induction a as [|[k' v] r IH]; cbn; [reflexivity|]. destruct (String.eqb k k'); [reflexivity|apply IH].
Qed.

Lemma existsb_ext_in {A} (f g : A -> bool) l : (forall x, In x l -> f x = g x) -> existsb f l = existsb g l.
Proof.
  induction l as [|x r IH]; cbn; intros H; [reflexivity|].
  rewrite (H x) by (left; reflexivity). rewrite IH by (intros y Hy; apply H; right; assumption). reflexivity.
Qed.

Lemma py_keywords_spec slots haskw kw : forall filled extra, NoDup (keys kw) ->
  py_keywords slots haskw kw filled extra =
  if existsb (fun p => bykw_slot slots (fst p) && is_some (assoc_get (fst p) filled)) kw
     || (negb haskw && existsb (fun p => negb (bykw_slot slots (fst p))) kw)
  then None
  else Some (filled ++ map tobv (filter (fun p => bykw_slot slots (fst p)) kw),
             extra ++ filter (fun p => negb (bykw_slot slots (fst p))) kw).
Proof.
  induction kw as [|[k v] r IH]; intros filled extra Hnd.
  - cbn. rewrite andb_false_r, !app_nil_r. reflexivity.
  - inversion Hnd as [|? ? Hk Hr]; subst. cbn [py_keywords existsb filter fst]. fold (bykw_slot slots k).
    destruct (bykw_slot slots k) eqn:Eb; cbn [andb negb orb].
    + destruct (assoc_get k filled) eqn:Eg; cbn [is_some orb]; [reflexivity|].
      rewrite IH by assumption.
      assert (X : existsb (fun p => bykw_slot slots (fst p) && is_some (assoc_get (fst p) (filled ++ [(k, BV v)]))) r
                  = existsb (fun p => bykw_slot slots (fst p) && is_some (assoc_get (fst p) filled)) r).
      { apply existsb_ext_in. intros [k2 v2] Hin. cbn [fst]. f_equal. f_equal. rewrite assoc_get_app.
        destruct (assoc_get k2 filled); [reflexivity|].
        cbn. destruct (String.eqb k2 k) eqn:E; [|reflexivity]. apply String.eqb_eq in E. subst.
        exfalso. apply Hk. apply in_map_iff. exists (k, v2). split; [reflexivity|assumption]. }
      rewrite X. destruct (_ || _); [reflexivity|]. cbn [map]. rewrite <- app_assoc. reflexivity.
    + destruct haskw; cbn [negb andb orb].
      * rewrite IH by assumption. cbn [negb andb]. rewrite !orb_false_r.
        rewrite <- app_assoc. reflexivity.
      * rewrite orb_true_r. reflexivity.
Qed.

Lemma py_finish_app a b filled :
  py_finish (a ++ b) filled =
  match py_finish a filled, py_finish b filled with Some x, Some y => Some (x ++ y) | _, _ => None end.
Proof.
  induction a as [|s r IH]; cbn [app py_finish].
  - destruct (py_finish b filled); reflexivity.
  - destruct (match assoc_get (sl_name s) filled with Some v => Some v | None => sl_default s end); [|reflexivity].
    rewrite IH. destruct (py_finish r filled); [|reflexivity]. destruct (py_finish b filled); reflexivity.
Qed.

Lemma bykw_pos_lo k nposonly npos ndef names : forall i, i + length names <= nposonly ->
  bykw_slot (pos_slots names nposonly npos ndef i) k = false.
Proof.
  induction names as [|p r IH]; intros i Hi; [reflexivity|]. cbn [length] in Hi. cbn [pos_slots].
  unfold bykw_slot in *. cbn [existsb sl_name sl_bykw]. rewrite IH by lia.
  replace (i <? nposonly) with true by (symmetry; apply Nat.ltb_lt; lia). cbn. rewrite andb_false_r. reflexivity.
Qed.

Lemma bykw_pos_hi k nposonly npos ndef names : forall i, nposonly <= i ->
  bykw_slot (pos_slots names nposonly npos ndef i) k = str_mem k names.
Proof.
  induction names as [|p r IH]; intros i Hi; [reflexivity|]. cbn [pos_slots].
  unfold bykw_slot in *. cbn [existsb sl_name sl_bykw str_mem]. rewrite IH by lia.
  replace (i <? nposonly) with false by (symmetry; apply Nat.ltb_ge; lia). cbn. rewrite andb_true_r. reflexivity.
Qed.

Lemma bykw_kwonly k l : forall i, bykw_slot (kwonly_slots l i) k = str_mem k (map fst l).
Proof.
  induction l as [|[p d] r IH]; intros i; [reflexivity|]. cbn [kwonly_slots map fst].
  unfold bykw_slot in *. cbn [existsb sl_name sl_bykw str_mem]. rewrite IH, andb_true_r. reflexivity.
Qed.

Lemma pos_slots_app nposonly npos ndef a b : forall i,
  pos_slots (a ++ b) nposonly npos ndef i = pos_slots a nposonly npos ndef i ++ pos_slots b nposonly npos ndef (i + length a).
Proof.
  induction a as [|p r IH]; intros i; cbn [app pos_slots length].
  - rewrite Nat.add_0_r. reflexivity.
  - rewrite IH, <- Nat.add_succ_comm. reflexivity.
Qed.

Definition sig_slots (s : sig) : list slot :=
  pos_slots (s_posonly s ++ s_args s) (length (s_posonly s)) (length (s_posonly s ++ s_args s)) (s_ndef s) 0
  ++ kwonly_slots (s_kwonly s) 0.

Lemma bykw_sig_slots s k : bykw_slot (sig_slots s) k = str_mem k (kwable s).
Proof.
  unfold sig_slots, bykw_slot. rewrite existsb_app, pos_slots_app, existsb_app.
  fold (bykw_slot (pos_slots (s_posonly s) (length (s_posonly s)) (length (s_posonly s ++ s_args s)) (s_ndef s) 0) k).
  fold (bykw_slot (pos_slots (s_args s) (length (s_posonly s)) (length (s_posonly s ++ s_args s)) (s_ndef s) (0 + length (s_posonly s))) k).
  fold (bykw_slot (kwonly_slots (s_kwonly s) 0) k).
  rewrite bykw_pos_lo by (cbn; lia). rewrite bykw_pos_hi by (cbn; lia). rewrite bykw_kwonly.
  unfold kwable. rewrite str_mem_app. reflexivity.
Qed.

Lemma assoc_get_combine (pos : list name) : forall (l : list bval) i p,
  NoDup pos -> nth_error pos i = Some p -> assoc_get p (combine pos l) = nth_error l i.
Proof.
  induction pos as [|q r IH]; intros l i p Hnd Hn; [destruct i; discriminate|].
  inversion Hnd as [|? ? Hq Hr]; subst. destruct l as [|v l].
  - cbn. destruct i; reflexivity.
  - destruct i as [|i]; cbn in *.
    + inversion Hn; subst. rewrite String.eqb_refl. reflexivity.
    + destruct (String.eqb p q) eqn:E.
      * apply String.eqb_eq in E. subst. exfalso. apply Hq. eapply nth_error_In. eassumption.
      * apply IH; assumption.
Qed.

Lemma assoc_get_combine_notin (pos : list name) : forall (l : list bval) p,
  ~ In p pos -> assoc_get p (combine pos l) = None.
Proof.
  induction pos as [|q r IH]; intros l p Hn; [reflexivity|]. destruct l as [|v l]; [reflexivity|]. cbn.
  destruct (String.eqb p q) eqn:E.
  - apply String.eqb_eq in E. subst. exfalso. apply Hn. left. reflexivity.
  - apply IH. intros Hin. apply Hn. right. assumption.
Qed.

Lemma assoc_get_map_filter (g : name -> bool) p kw :
  assoc_get p (map tobv (filter (fun q => g (fst q)) kw)) = if g p then option_map BV (kw_get p kw) else None.
Proof.
  induction kw as [|[k v] r IH]; cbn; [destruct (g p); reflexivity|].
  destruct (g k) eqn:Eg; cbn; destruct (String.eqb p k) eqn:E.
  - apply String.eqb_eq in E. subst. rewrite Eg. reflexivity.
  - apply IH.
  - apply String.eqb_eq in E. subst. rewrite IH, Eg. reflexivity.
  - apply IH.
Qed.

Lemma nth_error_map_BV (args : list val) i : nth_error (map BV args) i = option_map BV (nth_error args i).
Proof. apply nth_error_map. Qed.

Lemma decl_pos_none nposonly npos ndef args kw params : forall i j p,
  nth_error params j = Some p -> pos_value nposonly npos ndef args kw (i + j) p = None ->
  decl_pos nposonly npos ndef args kw params i = None.
Proof.
  induction params as [|q r IH]; intros i j p Hn Hv; [destruct j; discriminate|].
  cbn [decl_pos]. destruct j as [|j]; cbn in Hn.
  - inversion Hn; subst. rewrite Nat.add_0_r in Hv. rewrite Hv. reflexivity.
  - rewrite (IH (S i) j p) by (try assumption; rewrite <- Nat.add_succ_comm in Hv; assumption).
    destruct (pos_value nposonly npos ndef args kw i q); reflexivity.
Qed.

Section PyDecl.
Variables (s : sig) (args : list val) (kw : kwargs).
Hypothesis Hwf : sig_wf s.
Hypothesis Hkw : NoDup (keys kw).
Let pos := s_posonly s ++ s_args s.
Let npos := length pos.
Let nposonly := length (s_posonly s).
Let filled0 : assoc := combine pos (map BV args).
Let filledF : assoc := filled0 ++ map tobv (filter (fun p => bykw_slot (sig_slots s) (fst p)) kw).
Let E3 : bool := existsb (fun p => bykw_slot (sig_slots s) (fst p) && is_some (assoc_get (fst p) filled0)) kw.

Lemma pos_NoDup : NoDup pos.
Proof. destruct Hwf as [H _]. unfold param_names in H. rewrite app_assoc in H. apply NoDup_app_l in H. exact H. Qed.

Lemma pos_index_kwable i p : nth_error pos i = Some p -> str_mem p (kwable s) = (nposonly <=? i).
Proof.
  intros Hn. destruct (sig_wf_parts s Hwf) as (_ & _ & _ & D1 & D2). subst pos nposonly.
  destruct (Nat.leb_spec (length (s_posonly s)) i) as [Hi|Hi].
  - rewrite nth_error_app2 in Hn by assumption. apply nth_error_In in Hn.
    apply str_mem_In. unfold kwable. apply in_or_app. left. assumption.
  - rewrite nth_error_app1 in Hn by assumption. apply nth_error_In in Hn.
    apply str_mem_false. apply D1. assumption.
Qed.

Lemma slot_lookup i p : nth_error pos i = Some p ->
  assoc_get p filledF =
  match nth_error args i with
  | Some v => Some (BV v)
  | None => if nposonly <=? i then option_map BV (kw_get p kw) else None
  end.
Proof.
  intros Hn. subst filledF filled0. rewrite assoc_get_app.
  rewrite (assoc_get_combine pos _ i p pos_NoDup Hn), nth_error_map_BV.
  destruct (nth_error args i); cbn [option_map]; [reflexivity|].
  rewrite (assoc_get_map_filter (bykw_slot (sig_slots s))). rewrite bykw_sig_slots, (pos_index_kwable i p Hn). reflexivity.
Qed.

Lemma E3_false_value i p : E3 = false -> nth_error pos i = Some p ->
  match assoc_get p filledF with Some v => Some v | None => pos_default npos (s_ndef s) i end
  = pos_value nposonly npos (s_ndef s) args kw i p.
Proof.
  intros HE Hn. unfold pos_value. rewrite (slot_lookup i p Hn).
  destruct (nth_error args i) as [v|] eqn:Ea.
  - destruct ((nposonly <=? i) && kw_mem p kw) eqn:C; [|reflexivity]. exfalso.
    apply andb_true_iff in C as [C1 C2]. apply kw_mem_In in C2. apply in_map_iff in C2 as ([k v'] & Ek & Hin).
    cbn in Ek. subst k.
    assert (X : E3 = true).
    { subst E3. apply existsb_exists. exists (p, v'). split; [assumption|]. cbn [fst].
      rewrite bykw_sig_slots, (pos_index_kwable i p Hn), C1. subst filled0.
      rewrite (assoc_get_combine pos _ i p pos_NoDup Hn), nth_error_map_BV, Ea. reflexivity. }
    congruence.
  - destruct (nposonly <=? i); cbn [andb]; [|reflexivity].
    rewrite kw_get_mem. destruct (kw_get p kw); reflexivity.
Qed.

Lemma py_finish_pos names : E3 = false -> forall i,
  (forall j p, nth_error names j = Some p -> nth_error pos (i + j) = Some p) ->
  py_finish (pos_slots names nposonly npos (s_ndef s) i) filledF = decl_pos nposonly npos (s_ndef s) args kw names i.
Proof.
  intros HE. induction names as [|q r IH]; intros i H; [reflexivity|].
  cbn [pos_slots py_finish decl_pos sl_name sl_default].
  assert (Hq : nth_error pos i = Some q) by (rewrite <- (Nat.add_0_r i); apply H; reflexivity).
  fold (pos_default npos (s_ndef s) i).
  rewrite (E3_false_value i q HE Hq).
  rewrite IH by (intros j p Hj; rewrite Nat.add_succ_comm; apply H; exact Hj).
  destruct (pos_value nposonly npos (s_ndef s) args kw i q); [|reflexivity].
  destruct (decl_pos nposonly npos (s_ndef s) args kw r (S i)); reflexivity.
Qed.

Lemma py_finish_kwonly l : forall i,
  (forall p, In p (map fst l) -> In p (map fst (s_kwonly s))) ->
  py_finish (kwonly_slots l i) filledF = decl_kwonly kw l i.
Proof.
  destruct Hwf as [Hnd _].
  induction l as [|[q d] r IH]; intros i H; [reflexivity|].
  cbn [kwonly_slots py_finish decl_kwonly sl_name sl_default].
  assert (Hq : In q (map fst (s_kwonly s))) by (apply H; left; reflexivity).
  assert (Hnp : ~ In q pos).
  { intros Hin. unfold param_names in Hnd. rewrite app_assoc in Hnd. exact (NoDup_app_disj _ _ q Hnd Hin Hq). }
  assert (L : assoc_get q filledF = option_map BV (kw_get q kw)).
  { subst filledF filled0. rewrite assoc_get_app, (assoc_get_combine_notin pos _ q Hnp).
    rewrite (assoc_get_map_filter (bykw_slot (sig_slots s))), bykw_sig_slots.
    replace (str_mem q (kwable s)) with true; [reflexivity|].
    symmetry. apply str_mem_In. unfold kwable. apply in_or_app. right. assumption. }
  rewrite L. rewrite IH by (intros p Hp; apply H; right; assumption).
  unfold kwonly_value. destruct (kw_get q kw); cbn [option_map]; [reflexivity|].
  destruct d; reflexivity.
Qed.

Lemma E3_true_decl : E3 = true -> decl_pos nposonly npos (s_ndef s) args kw pos 0 = None.
Proof.
  intros HE. subst E3. apply existsb_exists in HE as ([k v] & Hin & C). cbn [fst] in C.
  apply andb_true_iff in C as [C1 C2]. rewrite bykw_sig_slots in C1.
  destruct (assoc_get k filled0) as [bv|] eqn:Eg; [|discriminate].
  assert (Hk : In k pos).
  { destruct (in_dec string_dec k pos) as [?|N]; [assumption|]. subst filled0.
    rewrite (assoc_get_combine_notin pos _ k N) in Eg. discriminate. }
  apply In_nth_error in Hk as (i & Hi).
  subst filled0. rewrite (assoc_get_combine pos _ i k pos_NoDup Hi), nth_error_map_BV in Eg.
  destruct (nth_error args i) as [v'|] eqn:Ea; [|discriminate].
  apply (decl_pos_none nposonly npos (s_ndef s) args kw pos 0 i k Hi). cbn [Nat.add].
  unfold pos_value. rewrite Ea. rewrite <- (pos_index_kwable i k Hi), C1. cbn [andb].
  replace (kw_mem k kw) with true; [reflexivity|]. symmetry. apply kw_mem_In. apply in_map_iff.
  exists (k, v). split; [reflexivity|assumption].
Qed.

Lemma bind_py_decl : bind_py s args kw = decl s args kw.
Proof.
  unfold bind_py, decl. cbv zeta. fold (sig_slots s). fold pos. fold npos. fold nposonly. fold filled0.
  assert (Hsk : (npos <? length args) = negb (match skipn npos args with [] => true | _ => false end)).
  { destruct (Nat.ltb_spec npos (length args)) as [Hl|Hl].
    - destruct (skipn npos args) eqn:E; [|reflexivity]. exfalso.
      assert (L : length (skipn npos args) = length args - npos) by apply skipn_length. rewrite E in L. cbn in L. lia.
    - rewrite skipn_all2 by assumption. reflexivity. }
  rewrite py_keywords_spec by assumption. fold E3. cbn [app].
  assert (Hx : existsb (fun p => negb (bykw_slot (sig_slots s) (fst p))) kw = existsb (not_in (kwable s)) kw).
  { apply existsb_ext_in. intros [k v] _. unfold not_in. cbn [fst]. rewrite bykw_sig_slots. reflexivity. }
  assert (Hf : filter (fun p => negb (bykw_slot (sig_slots s) (fst p))) kw = filter (not_in (kwable s)) kw).
  { apply filter_ext_in'. intros [k v] _. unfold not_in. cbn [fst]. rewrite bykw_sig_slots. reflexivity. }
  rewrite Hx, Hf. fold filledF.
  destruct E3 eqn:HE.
  - (* a slot filled twice *)
    cbn [orb]. rewrite (E3_true_decl HE).
    destruct (s_vararg s); destruct (skipn npos args); cbn [is_some negb andb];
      try reflexivity; rewrite ?Hsk; cbn [negb andb];
      destruct (negb (is_some (s_kwarg s)) && existsb (not_in (kwable s)) kw); reflexivity.
  - cbn [orb].
    unfold sig_slots. fold pos. fold npos. fold nposonly.
    rewrite Hsk.
    destruct (negb (is_some (s_kwarg s)) && existsb (not_in (kwable s)) kw) eqn:C.
    + destruct (s_vararg s); destruct (skipn npos args); reflexivity.
    + cbv beta iota.
      rewrite py_finish_app.
      rewrite (py_finish_pos pos HE 0) by (intros j p Hj; exact Hj).
      rewrite (py_finish_kwonly (s_kwonly s) 0) by (intros p Hp; exact Hp).
      destruct (decl_pos nposonly npos (s_ndef s) args kw pos 0);
        [|destruct (s_vararg s); destruct (skipn npos args); reflexivity].
      destruct (decl_kwonly kw (s_kwonly s) 0);
        [|destruct (s_vararg s); destruct (skipn npos args); reflexivity].
      destruct (s_vararg s); destruct (skipn npos args) eqn:Es; cbn [is_some negb andb]; try reflexivity.
Qed.
End PyDecl.

(* =====================================================================================================
   E. the theorem
   ===================================================================================================== *)
Lemma drop_NoDup trig s kw : NoDup (keys kw) -> NoDup (keys (drop_trigger_kwargs trig s kw)).
Proof. intros H. unfold drop_trigger_kwargs. destruct (s_kwarg s); [assumption|]. apply NoDup_keys_filter. assumption. Qed.

Theorem bind_equiv cfg trig s args kw : all_off cfg -> sig_wf s -> NoDup (keys kw) ->
  bind_ps cfg trig s args kw = bind_py s args (drop_trigger_kwargs trig s kw).
Proof.
  intros Hc Hs Hk. rewrite bind_ps_decl by assumption. symmetry. apply bind_py_decl; [assumption|].
  apply drop_NoDup. assumption.
Qed.

Theorem call_equiv cfg trig s items : all_off cfg -> sig_wf_b s = true ->
  call_ps cfg trig s items = call_spec trig s items.
Proof.
  intros Hc Hs. unfold call_ps, call_spec. rewrite assemble_equiv by assumption.
  destruct (assemble_py items) as [[args kw]|] eqn:E; [|reflexivity].
  apply bind_equiv; [assumption|apply sig_wf_b_wf; assumption|eapply assemble_py_nodup; eassumption].
Qed.

(* ---------- the statement is false of today's code: witnesses (replayed on the real code by the check) ---------- *)
Local Open Scope string_scope.
Definition only_D11 : deviations := {| d_posonly_kw := true; d_dup_kw := false |}.
Definition only_D30 : deviations := {| d_posonly_kw := false; d_dup_kw := true |}.

(* def g(a=0, /, **kw): ...;  g(a=1)   — CPython: a=0, kw={'a': 1};  pyscript: TypeError *)
Lemma bind_refuted_D11 : exists trig s items,
  sig_wf_b s = true /\ call_ps only_D11 trig s items <> call_spec trig s items.
Proof.
  exists [], {| s_posonly := ["a"]; s_args := []; s_ndef := 1; s_vararg := None; s_kwonly := []; s_kwarg := Some "kw" |},
         [CKw "a" 1%N].
  split; [reflexivity|]. vm_compute. discriminate.
Qed.

(* def f(a): ...;  f(a=1, **{'a': 2})   — CPython: TypeError;  pyscript: a=2 *)
Lemma bind_refuted_D30 : exists trig s items,
  sig_wf_b s = true /\ call_ps only_D30 trig s items <> call_spec trig s items.
Proof.
  exists [], {| s_posonly := []; s_args := ["a"]; s_ndef := 0; s_vararg := None; s_kwonly := []; s_kwarg := None |},
         [CKw "a" 1%N; CStarStar [("a", 2%N)]].
  split; [reflexivity|]. vm_compute. discriminate.
Qed.

(* the hypotheses are inhabited by a non-trivial instance:
   def f(p, q=D0, /, a=D1, *va, k, m=KD1, **kw);  f(1, *[2, 3, 4], value=5, k=6, **{'z': 7}) *)
Example call_equiv_instance :
  let s := {| s_posonly := ["p"; "q"]; s_args := ["a"]; s_ndef := 2; s_vararg := Some "va";
              s_kwonly := [("k", false); ("m", true)]; s_kwarg := Some "kw" |} in
  let items := [CPos 1%N; CStar [2%N; 3%N; 4%N]; CKw "value" 5%N; CKw "k" 6%N; CStarStar [("z", 7%N)]] in
  sig_wf_b s = true /\ all_off dev_off /\
  call_ps dev_off ["value"] s items =
  Bound {| b_params := [("p", BV 1%N); ("q", BV 2%N); ("a", BV 3%N); ("k", BV 6%N); ("m", BKwDef 1)];
           b_var := Some ("va", [4%N]); b_kw := Some ("kw", [("value", 5%N); ("z", 7%N)]) |}.
Proof. cbv zeta. repeat split. Qed.

(* without **kw the reserved keyword is dropped, an unknown one is an error *)
Example call_drop_instance :
  let s := {| s_posonly := []; s_args := ["a"]; s_ndef := 0; s_vararg := None; s_kwonly := []; s_kwarg := None |} in
  call_ps dev_off ["value"] s [CPos 1%N; CKw "value" 5%N]
    = Bound {| b_params := [("a", BV 1%N)]; b_var := None; b_kw := None |}
  /\ call_ps dev_off ["value"] s [CPos 1%N; CKw "zz" 5%N] = TypeErr
  /\ call_py s [CPos 1%N; CKw "value" 5%N] = TypeErr.
Proof. cbv zeta. repeat split. Qed.

(* ---------- tie: whatever behaviour the conformant Model reproduces satisfies the Spec ---------- *)
From PV Require Import Gen.BindConsts Interp.BindCheck.
Lemma sig_of_def_equiv f : ps_sig_of_def f = py_sig_of_def f.
Proof.
  unfold ps_sig_of_def, py_sig_of_def. f_equal.
  induction (f_kwonly f) as [|[n d] r IH]; [reflexivity|]. cbn [map py_kwonly_of_def fst snd]. rewrite IH. destruct d; reflexivity.
Qed.

(* from the def statement: whatever the default expressions evaluate to (falsy values included) *)
Theorem call_equiv_def cfg trig f items : all_off cfg -> sig_wf_b (py_sig_of_def f) = true ->
  call_ps cfg trig (ps_sig_of_def f) items = call_spec trig (py_sig_of_def f) items.
Proof. intros Hc Hs. rewrite sig_of_def_equiv. apply call_equiv; assumption. Qed.

Lemma bcase_model_implies_spec c : bcase_model_ok dev_off c = true -> bcase_spec_ok c = true.
Proof.
  unfold bcase_model_ok, bcase_spec_ok, bc_sig, bc_pysig. rewrite !andb_true_iff. intros [[Hs Hm] _].
  rewrite sig_of_def_equiv in Hs, Hm.
  rewrite <- (call_equiv dev_off TRIGGER_KWARGS (py_sig_of_def (bc_def c)) (bc_items c)); [assumption|split; reflexivity|assumption].
Qed.
