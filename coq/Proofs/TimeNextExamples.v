(* Proofs/TimeNextExamples.v — the hypotheses of the C06 theorems are satisfiable (Examples), and the deviations D60, D61,
   D63, D64 of the unchanged code refute the successor property (witnesses evaluated by vm_compute). *)
From Coq Require Import ZArith List Bool Lia.
From PV Require Import Common.Util Common.Civil Proofs.Civil Time.DtExpr Time.Next Time.NextCheck Gen.TimeConsts
                       Proofs.TimeNext Proofs.TimeNextMain.
Import ListNotations.
Local Open Scope Z_scope.
Ltac Zify.zify_post_hook ::= Z.to_euclidean_division_equations.

Definition sc : N -> Z := table_scale unit_scale_table.
Definition nosun : Z -> bool -> option Z := fun _ _ => None.

(* America/New_York around 2024: EST, summer time from 2024-03-10 07:00 UTC to 2024-11-03 06:00 UTC *)
Definition ny2024 : tzdata :=
  {| tz_default := -18000000000;
     tz_trans := [(1710054000000000, -18000000000, -14400000000); (1730613600000000, -14400000000, -18000000000)] |}.

(* a zone without transitions *)
Definition est_lu (x : Z) : Z := x - -18000000000.
Definition est_ul (x : Z) : Z := x + -18000000000.

Lemma est_const : tz_const est_lu est_ul.
Proof. exists (-18000000000). intros x. split; reflexivity. Qed.

Lemma est_real_now now : real_now est_lu now.
Proof. intros t' L. unfold est_lu. lia. Qed.

(* the every-minute crontab (all five fields "any") with the obvious successor function satisfies the contract of croniter *)
Definition every_minute : cronx := {| c_min := None; c_hour := None; c_dom := None; c_mon := None; c_dow := None |}.
Definition next_minute (_ : cronx) (t : Z) : Z := (t / MINUTE + 1) * MINUTE.

Lemma cron_match_every_minute t : cron_match every_minute t = (tod_of t mod MINUTE =? 0).
Proof.
  unfold cron_match, cron_day_match, every_minute. cbn [c_min c_hour c_dom c_mon c_dow fmatch].
  destruct (civil_from_days (day_of t)) as [[y m] d]. rewrite !andb_true_r. reflexivity.
Qed.

Example every_minute_ok : cron_ok next_minute every_minute.
Proof.
  intros t. cbv zeta. unfold next_minute. split; [unfold MINUTE; lia|]. split.
  - rewrite cron_match_every_minute. apply Z.eqb_eq. unfold tod_of, DAY, MINUTE. lia.
  - intros t' L1 L2. rewrite cron_match_every_minute. apply Z.eqb_neq. unfold tod_of, DAY, MINUTE in *. lia.
Qed.

(* once(13:00), period(0:00:30, 1 min), period(now, 5 min, now + 30 min), once(3/5 10:00), period(22:00, 1h, 6:00), every-minute cron *)
Definition hm (h m : Z) : tpart := THMS h m 0 0.
Definition ex_specs : list tspec :=
  [ Once {| de_date := DNone; de_time := hm 13 0; de_off := None |};
    Period {| de_date := DNone; de_time := THMS 0 0 30 0; de_off := None |} {| am_num := 1; am_exp := 0; am_unit := 6 |} None;
    Period {| de_date := DNone; de_time := TNow; de_off := None |} {| am_num := 5; am_exp := 0; am_unit := 6 |}
           (Some {| de_date := DNone; de_time := TNow; de_off := Some {| am_num := 30; am_exp := 0; am_unit := 6 |} |});
    Once {| de_date := DMonthDay 3 5; de_time := hm 10 0; de_off := None |};
    Period {| de_date := DNone; de_time := hm 22 0; de_off := None |} {| am_num := 1; am_exp := 0; am_unit := 10 |}
           (Some {| de_date := DNone; de_time := hm 6 0; de_off := None |});
    Cron every_minute ].

Example ex_specs_ok now : specs_ok sc next_minute est_lu ex_specs now.
Proof.
  split.
  - intros s Hin. cbn [ex_specs In] in Hin.
    repeat (destruct Hin as [<-|Hin]; [vm_compute; reflexivity|]). contradiction.
  - intros c Hin. cbn [ex_specs In] in Hin.
    repeat (destruct Hin as [E|Hin]; [try discriminate E|]); try contradiction.
    inversion E; subst c. split; [exact every_minute_ok|apply est_real_now].
Qed.

(* the theorem applies: the model's answer for this list is the successor (here computed: 12:00:00.000005 = startup) *)
Example ex_next : next_list sc nosun next_minute est_lu est_ul all_off false ex_specs 1709553600000005 1709553600000005
                  = ROk (Some (1709553600000005, 1709553600000005)).
Proof. vm_compute. reflexivity. Qed.

(* ---------- refutations: the deviating code is not the successor function ---------- *)
Definition only (k : nat) : deviations :=
  {| d_period_wallclock := Nat.eqb k 60; d_once_md_this_year := Nat.eqb k 61; d_float_floor := Nat.eqb k 63;
     d_su_coincidence := Nat.eqb k 64; d_newsub_adj_recheck := false; d_legacy_gap_recheck := false;
     d_md_invalid_raises := Nat.eqb k 65; d_legacy_stop_fault := Nat.eqb k 67 |}.

Definition full (y m d : Z) (t : tpart) : dtexpr := {| de_date := DFull y m d; de_time := t; de_off := None |}.

(* D61: once(3/5 10:00) on 2024-03-06: the code says "never", the documentation says 2025-03-05 10:00 *)
Lemma refuted_D61 : exists specs now su r,
  next_list sc nosun next_minute est_lu est_ul (only 61) false specs now su = ROk r /\
  ~ successor_of (denotes_any sc nosun est_lu est_ul true specs su now) now su r.
Proof.
  exists [Once {| de_date := DMonthDay 3 5; de_time := hm 10 0; de_off := None |}], 1709719200000000, 1709280000000000, None.
  split; [vm_compute; reflexivity|]. intros H. apply (H 1741168800000000); [lia|].
  eexists. split; [left; reflexivity|]. cbn [denotes]. exists 20152. split.
  - cbn [de_date day_denoted]. exists 2025. split; [reflexivity|]. split; [reflexivity|discriminate].
  - vm_compute. reflexivity.
Qed.

(* D64: once(13:00) started at exactly 13:00:00: one second later the code says "never", tomorrow 13:00 is denoted *)
Lemma refuted_D64 : exists specs now su r,
  next_list sc nosun next_minute est_lu est_ul (only 64) false specs now su = ROk r /\
  ~ successor_of (denotes_any sc nosun est_lu est_ul true specs su now) now su r.
Proof.
  exists [Once {| de_date := DNone; de_time := hm 13 0; de_off := None |}], 1709557201000000, 1709557200000000, None.
  split; [vm_compute; reflexivity|]. intros H. apply (H 1709643600000000); [lia|].
  eexists. split; [left; reflexivity|]. cbn [denotes]. exists 19787. split; [exact I|vm_compute; reflexivity].
Qed.

(* D63: period(2024/3/4 12:00, 0.1s) at 12:00:00.3: the float quotient 0.3/0.1 = 2.9999999999999996 makes the code return
   nothing; 12:00:00.4 is denoted *)
Lemma refuted_D63 : exists specs now su r,
  next_list sc nosun next_minute est_lu est_ul (only 63) true specs now su = ROk r /\
  ~ successor_of (denotes_any sc nosun est_lu est_ul true specs su now) now su r.
Proof.
  exists [Period (full 2024 3 4 (hm 12 0)) {| am_num := 1; am_exp := 1; am_unit := 1 |} None], 1709553600300000, 1709550000000000, None.
  split; [vm_compute; reflexivity|]. intros H. apply (H 1709553600400000); [lia|].
  eexists. split; [left; reflexivity|]. cbn [denotes]. exists 100000, 1709553600000000.
  split; [vm_compute; reflexivity|]. split; [lia|]. split.
  - exists 19786. split; [cbn; split; reflexivity|vm_compute; reflexivity].
  - exists 4. split; [lia|]. vm_compute. reflexivity.
Qed.

(* D60: period(2024/3/9 18:00, 1 day) in America/New_York on 2024-03-10 18:00 EDT: the code answers 2024-03-11 18:00,
   but 2024-03-10 19:00 EDT - exactly 24 h after the start - is denoted and lies in between *)
Lemma refuted_D60 : exists specs now su r,
  next_list sc nosun next_minute (tz_lu ny2024) (tz_ul ny2024) (only 60) false specs now su = ROk r /\
  ~ successor_of (denotes_any sc nosun (tz_lu ny2024) (tz_ul ny2024) true specs su now) now su r.
Proof.
  exists [Period (full 2024 3 9 (hm 18 0)) {| am_num := 1; am_exp := 0; am_unit := 15 |} None], 1710093600000000, 1709985600000000,
         (Some (1710180000000000, 1710180000000000)).
  split; [vm_compute; reflexivity|]. intros (_ & _ & H). apply (H 1710097200000000); [lia|lia|].
  eexists. split; [left; reflexivity|]. cbn [denotes]. exists 86400000000, 1710007200000000.
  split; [vm_compute; reflexivity|]. split; [lia|]. split.
  - exists 19791. split; [cbn; split; reflexivity|vm_compute; reflexivity].
  - exists 1. split; [lia|]. vm_compute. reflexivity.
Qed.

(* D65: once(2/29 10:00) evaluated on 2025-01-06: datetime(2025, 2, 29) raises ValueError (the trigger task dies); the
   denoted successor is 2028-02-29 10:00 *)
Lemma refuted_D65 : exists specs now su t,
  next_list sc nosun next_minute est_lu est_ul as_code false specs now su = RExc /\
  next_list sc nosun next_minute est_lu est_ul all_off false specs now su = ROk (Some (t, t)) /\
  now < t /\ denotes_any sc nosun est_lu est_ul true specs su now t.
Proof.
  exists [Once {| de_date := DMonthDay 2 29; de_time := hm 10 0; de_off := None |}], 1736157600000000, 1735718400000000, 1835431200000000.
  split; [vm_compute; reflexivity|]. split; [vm_compute; reflexivity|]. split; [lia|].
  eexists. split; [left; reflexivity|]. cbn [denotes]. exists 21243. split.
  - cbn [de_date day_denoted]. exists 2028. split; [reflexivity|]. split; [reflexivity|discriminate].
  - vm_compute. reflexivity.
Qed.

(* with the switch off the same inputs give the denoted successor *)
Example conformant_D60 :
  next_list sc nosun next_minute (tz_lu ny2024) (tz_ul ny2024) all_off false
            [Period (full 2024 3 9 (hm 18 0)) {| am_num := 1; am_exp := 0; am_unit := 15 |} None] 1710093600000000 1709985600000000
  = ROk (Some (1710097200000000, 1710097200000000)).
Proof. vm_compute. reflexivity. Qed.

Example conformant_D61 :
  next_list sc nosun next_minute est_lu est_ul all_off false
            [Once {| de_date := DMonthDay 3 5; de_time := hm 10 0; de_off := None |}] 1709719200000000 1709280000000000
  = ROk (Some (1741168800000000, 1741168800000000)).
Proof. vm_compute. reflexivity. Qed.

(* ---------- the wake-up loops of the two subsystems (deviations D62, D66) ---------- *)
(* conformant variants with a perfect clock: the function runs at the wake-up if the trigger time has come, else exactly at
   the trigger time *)
Definition perfect (u : Z) : Z := u.

Lemma legacy_wake_conformant lu ul cfg f t u : d_legacy_gap_recheck cfg = false -> ul (lu t) = t ->
  legacy_wake lu ul perfect cfg (S (S f)) t u = Some (if ul u <? t then lu t else u).
Proof.
  intros H R. cbn [legacy_wake]. unfold perfect. rewrite H. destruct (ul u <? t) eqn:E; [|reflexivity].
  replace (u + (lu t - u)) with (lu t) by lia. rewrite R, Z.ltb_irrefl. reflexivity.
Qed.

Lemma default_wake_conformant lu ul cfg f t adj u : d_newsub_adj_recheck cfg = false -> ul (lu t) = t ->
  default_wake lu ul perfect cfg (S (S f)) t adj u = Some (if (t <=? ul u) || (lu t - u <=? 1) then u else lu t).
Proof.
  intros H R. cbn [default_wake]. unfold perfect. rewrite H. destruct ((t <=? ul u) || (lu t - u <=? 1)) eqn:E; [reflexivity|].
  replace (u + (lu t - u)) with (lu t) by lia. rewrite R, Z.leb_refl. reflexivity.
Qed.

(* whatever the wall clock does during the wait (steps back, slewing: any function [wall]), the conformant loops never run the
   function before the wall clock has reached the trigger time (the default loop: at most its 1 us tolerance before) *)
Lemma legacy_wake_not_early lu ul wall cfg fuel : forall t u r,
  legacy_wake lu ul wall cfg fuel t u = Some r -> t <= ul (wall r).
Proof.
  induction fuel as [|f IH]; intros t u r H; [discriminate|]. cbn [legacy_wake] in H.
  destruct (ul (wall u) <? t) eqn:E; [apply IH in H; exact H|]. apply Z.ltb_ge in E. inversion H; subst r. exact E.
Qed.

Lemma default_wake_not_early lu ul wall cfg fuel : d_newsub_adj_recheck cfg = false -> forall t adj u r,
  default_wake lu ul wall cfg fuel t adj u = Some r -> t <= ul (wall r) \/ lu t - wall r <= 1.
Proof.
  intros D. induction fuel as [|f IH]; intros t adj u r H; [discriminate|]. cbn [default_wake] in H. rewrite D in H.
  destruct ((t <=? ul (wall u)) || (lu t - wall u <=? 1)) eqn:E; [|apply IH in H; exact H].
  inversion H; subst r. rewrite orb_true_iff, !Z.leb_le in E. exact E.
Qed.

(* D66: a daily cron at 03:00 on 2024-03-10 in America/New_York, wake-up 1 us early: the legacy loop runs the function at
   08:00 UTC = 04:00 EDT, one hour after the trigger time 03:00 EDT = 07:00 UTC *)
Lemma refuted_D66 : exists t u,
  legacy_wake (tz_lu ny2024) (tz_ul ny2024) perfect as_code 5 t u = Some (tz_lu ny2024 t + HOUR) /\
  legacy_wake (tz_lu ny2024) (tz_ul ny2024) perfect all_off 5 t u = Some (tz_lu ny2024 t).
Proof. exists 1710039600000000, (1710054000000000 - 1). split; vm_compute; reflexivity. Qed.

(* D62: a daily cron at 06:00 computed on 2024-11-02 12:00:01 EDT: next_time 2024-11-03 06:00, next_time_adj 07:00; waking at the
   right moment (06:00 EST = 11:00 UTC) the default loop sleeps another hour *)
Lemma refuted_D62 : exists t adj u,
  default_wake (tz_lu ny2024) (tz_ul ny2024) perfect as_code 5 t adj u = Some (tz_lu ny2024 t + HOUR) /\
  default_wake (tz_lu ny2024) (tz_ul ny2024) perfect all_off 5 t adj u = Some (tz_lu ny2024 t).
Proof. exists 1730613600000000, 1730617200000000, 1730631600000000. split; vm_compute; reflexivity. Qed.

(* D67: removal with a failing unsubscribe: the conformant stop always cancels the timer and runs "shutdown"; the legacy code's
   does not *)
Lemma stop_completes_conformant cfg legacy raises : d_legacy_stop_fault cfg = false -> stop_completes cfg legacy raises = true.
Proof. intros H. unfold stop_completes. rewrite H, andb_false_r. reflexivity. Qed.

Lemma refuted_D67 : stop_completes as_code true true = false /\ stop_completes as_code false true = true.
Proof. split; reflexivity. Qed.
