(* Proofs/LifeReloadFindings.v — the four deviations of the unchanged code, each refuting the property on a concrete
   history (witness replayed on the real code by the check), while the conformant Model satisfies the Spec there;
   and concrete instances of the hypotheses used by the C10 theorems. *)
From PV Require Import Common.Util Life.ReloadBase Gen.ReloadConsts Life.Modules Life.Reload Life.ReloadPlanSpec Life.ReloadSpec
  Life.ReloadCheck Proofs.LifeReloadBase Proofs.LifeClosure Proofs.LifePlan Proofs.LifeUntouched Proofs.LifeDiscover
  Proofs.LifeDiscoverDoc Proofs.LifeReloadThms.
From Coq Require Import Lia.

Definition only (k : nat) : deviations :=
  {| d_deleted_no_propagate := Nat.eqb k 100; d_sibling_rel_name := Nat.eqb k 101; d_null_cfg := Nat.eqb k 102;
     d_named_start := Nat.eqb k 103 |}.

Definition fl (g m : N) (imps : list imp) : file := {| f_gen := g; f_mtime := m; f_imps := imps |}.
Definition spec_of_model (dv : deviations) (steps : list rstep) : bool :=
  rcase_spec_ok {| rc_legacy := false; rc_steps := steps; rc_obs := model_obs dv {| rc_legacy := false; rc_steps := steps; rc_obs := [] |} |}.

(* D100: a.py imports modules/m.py; m.py is deleted; default reload *)
Definition w100 : list rstep :=
  [ {| rs_tree := [([3; 60], fl 2 2 []); ([10], fl 1 1 [ImpAbs [60]])]; rs_cfg := []; rs_arg := RNone; rs_opts := 0 |};
    {| rs_tree := [([10], fl 1 1 [ImpAbs [60]])]; rs_cfg := []; rs_arg := RNone; rs_opts := 0 |} ]%N.
(* D101: package m with siblings x -> y imported relatively; a no-change reload *)
Definition t101 : tree :=
  [([3; 60; 0], fl 2 2 [ImpRel [70]]); ([3; 60; 70], fl 3 3 [ImpRel [71]]); ([3; 60; 71], fl 4 4 []); ([10], fl 1 1 [ImpAbs [60]])]%N.
Definition w101 : list rstep :=
  [ {| rs_tree := t101; rs_cfg := []; rs_arg := RNone; rs_opts := 0 |}; {| rs_tree := t101; rs_cfg := []; rs_arg := RNone; rs_opts := 0 |} ].
(* D102: app package configured with a null entry, then the entry is removed *)
Definition w102 : list rstep :=
  [ {| rs_tree := [([1; 40; 0], fl 1 1 [])]; rs_cfg := [(40, 0)]; rs_arg := RNone; rs_opts := 0 |};
    {| rs_tree := [([1; 40; 0], fl 1 1 [])]; rs_cfg := []; rs_arg := RNone; rs_opts := 0 |} ]%N.
(* D103: reload of a module by name *)
Definition t103 : tree := [([3; 60], fl 2 2 []); ([10], fl 1 1 [ImpAbs [60]])]%N.
Definition w103 : list rstep :=
  [ {| rs_tree := t103; rs_cfg := []; rs_arg := RNone; rs_opts := 0 |}; {| rs_tree := t103; rs_cfg := []; rs_arg := RName [3; 60]%N; rs_opts := 0 |} ].

Lemma refuted_D100 : exists steps, spec_of_model (only 100) steps = false /\ spec_of_model all_off steps = true.
Proof. exists w100. split; vm_compute; reflexivity. Qed.
Lemma refuted_D101 : exists steps, spec_of_model (only 101) steps = false /\ spec_of_model all_off steps = true.
Proof. exists w101. split; vm_compute; reflexivity. Qed.
Lemma refuted_D102 : exists steps, spec_of_model (only 102) steps = false /\ spec_of_model all_off steps = true.
Proof. exists w102. split; vm_compute; reflexivity. Qed.
Lemma refuted_D103 : exists steps, spec_of_model (only 103) steps = false /\ spec_of_model all_off steps = true.
Proof. exists w103. split; vm_compute; reflexivity. Qed.

(* ---------- the hypotheses of the theorems are inhabited by non-trivial instances ---------- *)
(* a diamond a -> m1, m2 -> m3, an app package with a sibling importing a module, a script in a sub-directory *)
Definition ex_tree : tree :=
  [([1; 40; 0], fl 5 5 [ImpRel [50]]); ([1; 40; 50], fl 6 6 [ImpAbs [62]]);
   ([3; 60], fl 2 2 [ImpAbs [62]]); ([3; 61], fl 3 3 [ImpAbs [62]]); ([3; 62], fl 4 4 []);
   ([4; 30; 21], fl 7 7 []); ([10], fl 1 1 [ImpAbs [60]; ImpAbs [61]]); ([1011], fl 8 8 [])]%N.
Definition ex_cfg : apps_config := [(40, 1)]%N.
Definition ex_state : state := r_st (reload all_off 0 [] ex_tree ex_cfg RNone).

Definition rank_by_table (tbl : list (cname * nat)) (n : cname) : nat :=
  match find (fun kv => nl_eqb (fst kv) n) tbl with Some kv => snd kv | None => 0%nat end.

Example ex_state_loaded :
  map c_name (sort_by c_name ex_state) =
  [[1; 40]; [1; 40; 50]; [2; 10]; [3; 60]; [3; 61]; [3; 62]; [4; 30; 21]]%N.
Proof. vm_compute. reflexivity. Qed.

Example ex_acyclic : acyclic ex_state.
Proof.
  exists (rank_by_table [([2; 10]%N, 2%nat); ([3; 60]%N, 1%nat); ([3; 61]%N, 1%nat); ([3; 62]%N, 0%nat); ([1; 40]%N, 2%nat); ([1; 40; 50]%N, 1%nat); ([4; 30; 21]%N, 0%nat)]).
  intros a b (c & G & Hb). apply st_get_Some in G. destruct G as [Hc <-].
  vm_compute in Hc.
  repeat (destruct Hc as [<-|Hc]; [cbn in Hb; repeat (destruct Hb as [<-|Hb]; [vm_compute; lia|]); destruct Hb|]).
  destruct Hc.
Qed.

Example ex_uniq : uniq_ctx ex_state.
Proof. unfold uniq_ctx. vm_compute. repeat constructor; cbn; intuition discriminate. Qed.

Example ex_tree_ok : tree_ok ex_tree.
Proof.
  split.
  - vm_compute. repeat constructor; cbn; intuition discriminate.
  - intros p f H. vm_compute in H. unfold nondeg.
    repeat (destruct H as [H|H]; [inversion H; subst; vm_compute; intros; try discriminate; lia|]). destruct H.
Qed.

(* file.x010 is not the name of anything an import statement could load *)
Example ex_safe : safe_name all_off ex_tree [2; 10]%N.
Proof.
  intros sn sr i cs cnd Hc Hin En. destruct i as [m|m]; cbn in Hc.
  - inversion Hc; subst cs. unfold abs_cands in Hin. cbn in Hin.
    destruct (rel_under_apps sr); cbn in Hin;
      repeat (destruct Hin as [<-|Hin]; [cbn in En; discriminate|]); destruct Hin.
  - destruct sr as [rp|]; [|discriminate]. inversion Hc; subst cs. cbn in Hin.
    destruct Hin as [<-|[<-|[]]]; cbn [cd_name cd_path] in En |- *.
    + rewrite app_assoc, En. reflexivity.
    + rewrite En. reflexivity.
Qed.

(* a two-step history (start-up, then modules/x062.py touched) whose intermediate tables are acyclic *)
Definition ex_tree2 : tree :=
  [([1; 40; 0], fl 5 5 [ImpRel [50]]); ([1; 40; 50], fl 6 6 [ImpAbs [62]]);
   ([3; 60], fl 2 2 [ImpAbs [62]]); ([3; 61], fl 3 3 [ImpAbs [62]]); ([3; 62], fl 4 9 []);
   ([4; 30; 21], fl 7 7 []); ([10], fl 1 1 [ImpAbs [60]; ImpAbs [61]]); ([1011], fl 8 8 [])]%N.
Definition ex_steps : list rstep :=
  [ {| rs_tree := ex_tree; rs_cfg := ex_cfg; rs_arg := RNone; rs_opts := 0 |}; {| rs_tree := ex_tree2; rs_cfg := ex_cfg; rs_arg := RNone; rs_opts := 0 |} ].

Example ex_history : hist_all (fun _ st _ _ => acyclic st) 0%N None [] ex_steps.
Proof.
  cbn [hist_all ex_steps]. split; [|split; [|exact I]].
  - exists (fun _ => 0%nat). intros a b (c & G & _). discriminate.
  - exists (rank_by_table [([2; 10]%N, 2%nat); ([3; 60]%N, 1%nat); ([3; 61]%N, 1%nat); ([3; 62]%N, 0%nat); ([1; 40]%N, 2%nat); ([1; 40; 50]%N, 1%nat); ([4; 30; 21]%N, 0%nat)]).
    intros a b (c & G & Hb). apply st_get_Some in G. destruct G as [Hc <-].
    vm_compute in Hc.
    repeat (destruct Hc as [<-|Hc]; [cbn in Hb; repeat (destruct Hb as [<-|Hb]; [vm_compute; lia|]); destruct Hb|]).
    destruct Hc.
Qed.

(* in that history the touch of the shared module re-executes exactly the diamond and the app that reaches it *)
Example ex_history_events :
  map r_ev (run all_off ex_steps) =
  [ [([1; 40], 5); ([1; 40; 50], 6); ([3; 62], 4); ([2; 10], 1); ([3; 60], 2); ([3; 61], 3); ([4; 30; 21], 7)];
    [([1; 40], 5); ([1; 40; 50], 6); ([3; 62], 4); ([2; 10], 1); ([3; 60], 2); ([3; 61], 3)] ]%N.
Proof. vm_compute. reflexivity. Qed.
