(* Proofs/ZmqShell.v — authentication gate and reply correlation of the shell channel (C19, second sentence):
   for every HMAC function, every request sequence and every kernel state. *)
From PV Require Import Common.Util Gen.ZmqConsts Zmq.Framing Zmq.Shell Zmq.ShellCheck.
From Coq Require Import Lia.

Section Proofs.
  Variable hmac : list bytes -> bytes.

  (* ---------- authentication ---------- *)
  Lemma authentic_sig r ids :
    authentic hmac r = Some ids ->
    exists sig frames, split_wire (r_wire r) = Some (ids, sig, frames) /\ sig = hmac frames /\ r_json_ok r = true.
  Proof.
    unfold authentic. destruct (split_wire (r_wire r)) as [[[i s] f]|]; [|discriminate].
    destruct (r_json_ok r); cbn; [|discriminate].
    destruct (bytes_eqb s (hmac f)) eqn:E; [|discriminate].
    intros H; inversion H; subst. apply bytes_eqb_eq in E. eauto.
  Qed.

  Definition forged (r : request) : Prop :=
    forall ids sig frames, split_wire (r_wire r) = Some (ids, sig, frames) -> sig <> hmac frames.

  Lemma forged_not_authentic r : forged r -> authentic hmac r = None.
  Proof.
    intros F. destruct (authentic hmac r) as [ids|] eqn:E; [|reflexivity].
    destruct (authentic_sig r ids E) as (sig & frames & S & Hs & _). exfalso. exact (F ids sig frames S Hs).
  Qed.

  Lemma run_dead st rs : k_alive st = false ->
    fst (run hmac st rs) = st /\ Forall (fun g => g = []) (snd (run hmac st rs)).
  Proof.
    revert st; induction rs as [|r rs IH]; intros st D; cbn [run]; [split; [reflexivity|constructor]|].
    unfold handle. rewrite D.
    destruct (run hmac st rs) as [st2 os] eqn:E. specialize (IH st D). rewrite E in IH. cbn in *.
    destruct IH as [-> F]. split; [reflexivity|constructor; auto].
  Qed.

  (* A request whose signature does not match is never executed and never answered - and neither is anything
     that follows it on that connection. *)
  Theorem forged_request_inert : forall st r rs,
    forged r ->
    let '(st', groups) := run hmac st (r :: rs) in
    Forall (fun g => g = []) groups /\ k_executed st' = k_executed st /\ k_count st' = k_count st.
  Proof.
    intros st r rs F. cbn [run]. unfold handle. rewrite (forged_not_authentic r F).
    destruct (k_alive st) eqn:A.
    - set (d := {| k_alive := false; k_count := k_count st; k_executed := k_executed st |}).
      destruct (run_dead d rs eq_refl) as [E1 E2].
      destruct (run hmac d rs) as [st2 os]. cbn in *. subst st2. split; [constructor; auto|]. split; reflexivity.
    - destruct (run_dead st rs A) as [E1 E2].
      destruct (run hmac st rs) as [st2 os]. cbn in *. subst st2. split; [constructor; auto|]. split; reflexivity.
  Qed.

  (* ---------- replies ---------- *)
  Lemma frames_eqb_refl l : frames_eqb l l = true.
  Proof. apply frames_eqb_eq. reflexivity. Qed.

  Definition stream_out := mkOut ChIopub MStream [zmq_stdout_ident] true true None.

  Lemma stdout_msgs_repeat n : stdout_msgs n = repeat stream_out (N.to_nat n).
  Proof.
    unfold stdout_msgs. induction n as [|n IH] using N.peano_ind; [reflexivity|].
    rewrite N.iter_succ, IH, N2Nat.inj_succ. reflexivity.
  Qed.

  Lemma filter_repeat_false {A} (f : A -> bool) x n : f x = false -> filter f (repeat x n) = [].
  Proof. intros H. induction n as [|n IH]; cbn; [reflexivity|]. rewrite H. exact IH. Qed.
  Lemma filter_repeat_true {A} (f : A -> bool) x n : f x = true -> filter f (repeat x n) = repeat x n.
  Proof. intros H. induction n as [|n IH]; cbn; [reflexivity|]. rewrite H, IH. reflexivity. Qed.
  Lemma forallb_repeat {A} (f : A -> bool) x n : f x = true -> forallb f (repeat x n) = true.
  Proof. intros H. induction n as [|n IH]; cbn; [reflexivity|]. rewrite H. exact IH. Qed.

  Lemma last_snoc {A} (l : list A) x d : last (l ++ [x]) d = x.
  Proof. induction l as [|a l IH]; [reflexivity|]. cbn [app]. destruct (l ++ [x]) eqn:E; [destruct l; discriminate|]. cbn. cbn in IH. exact IH. Qed.

  Lemma filter_repeat_if {A} (f : A -> bool) x n : filter f (repeat x n) = if f x then repeat x n else [].
  Proof. destruct (f x) eqn:H; [apply filter_repeat_true|apply filter_repeat_false]; exact H. Qed.

  Lemma last_app_snoc {A} (a : A) (l m : list A) x d : last (a :: l ++ m ++ [x]) d = x.
  Proof.
    replace (a :: l ++ m ++ [x]) with ((a :: l ++ m) ++ [x]) by (cbn [app]; rewrite <- app_assoc; reflexivity).
    apply last_snoc.
  Qed.

  Ltac norm_group :=
    unfold strip_stream, count_stream;
    rewrite ?filter_app, ?forallb_app, ?map_app; rewrite ?filter_repeat_if;
    cbn [filter is_shell is_stream chan_eqb mtype_eqb o_chan o_type shell iopub stream_out negb app map forallb
         o_sig_ok o_parent_ok o_count o_ids andb];
    rewrite ?filter_app, ?filter_repeat_if, ?map_app, ?app_nil_r;
    cbn [filter is_shell is_stream chan_eqb mtype_eqb o_chan o_type shell iopub stream_out negb app map forallb
         o_sig_ok o_parent_ok o_count o_ids andb].

  Lemma group_ok_handle_ok st ids r :
    group_ok ids (k_count st) r (snd (handle_ok st ids r)) = true.
  Proof.
    unfold handle_ok.
    destruct (r_type r) eqn:T.
    - (* execute *)
      destruct (r_outcome r) eqn:O; cbn [snd].
      + unfold group_ok, expected_reply, expected_iopub, ok_cell, is_execute. rewrite T, O. rewrite stdout_msgs_repeat.
        norm_group.
        rewrite !forallb_repeat by reflexivity.
        rewrite frames_eqb_refl, N.eqb_refl. cbn [list_eqb mtype_eqb option_eqb andb].
        rewrite ?N.eqb_refl, repeat_length, Nat.eqb_refl.
        change (iopub MStatusBusy None :: iopub MExecuteInput (Some (k_count st))
                  :: repeat stream_out (N.to_nat (r_stdout r)) ++ [iopub MStatusIdle None])
          with (iopub MStatusBusy None :: [iopub MExecuteInput (Some (k_count st))]
                  ++ repeat stream_out (N.to_nat (r_stdout r)) ++ [iopub MStatusIdle None]).
        rewrite last_app_snoc. destruct (is_execute r); reflexivity.
      + unfold group_ok, expected_reply, expected_iopub, ok_cell, is_execute. rewrite T, O. rewrite stdout_msgs_repeat.
        norm_group.
        rewrite !forallb_repeat by reflexivity.
        rewrite frames_eqb_refl, N.eqb_refl. cbn [list_eqb mtype_eqb option_eqb andb].
        rewrite ?N.eqb_refl, repeat_length, Nat.eqb_refl.
        change (iopub MStatusBusy None :: iopub MExecuteInput (Some (k_count st)) :: iopub MExecuteResult (Some (k_count st))
                  :: repeat stream_out (N.to_nat (r_stdout r)) ++ [iopub MStatusIdle None])
          with (iopub MStatusBusy None :: [iopub MExecuteInput (Some (k_count st)); iopub MExecuteResult (Some (k_count st))]
                  ++ repeat stream_out (N.to_nat (r_stdout r)) ++ [iopub MStatusIdle None]).
        rewrite last_app_snoc. destruct (is_execute r); reflexivity.
      + unfold group_ok, expected_reply, expected_iopub, ok_cell, is_execute. rewrite T, O. cbn. rewrite frames_eqb_refl, !N.eqb_refl. reflexivity.
      + unfold group_ok, expected_reply, expected_iopub, ok_cell, is_execute. rewrite T, O. cbn. rewrite frames_eqb_refl, !N.eqb_refl. reflexivity.
    - cbn. unfold group_ok, expected_reply, expected_iopub, ok_cell, is_execute. rewrite T. cbn. rewrite frames_eqb_refl. reflexivity.
    - cbn. unfold group_ok, expected_reply, expected_iopub, ok_cell, is_execute. rewrite T. cbn. rewrite frames_eqb_refl. reflexivity.
    - cbn. unfold group_ok, expected_reply, expected_iopub, ok_cell, is_execute. rewrite T. cbn. rewrite frames_eqb_refl. reflexivity.
    - cbn. unfold group_ok, expected_reply, expected_iopub, ok_cell, is_execute. rewrite T. cbn. rewrite frames_eqb_refl. reflexivity.
    - cbn. unfold group_ok, expected_reply, expected_iopub, ok_cell, is_execute. rewrite T. cbn. rewrite frames_eqb_refl. reflexivity.
    - cbn. unfold group_ok, expected_reply, expected_iopub, ok_cell, is_execute. rewrite T. cbn. reflexivity.
    - cbn. unfold group_ok, expected_reply, expected_iopub, ok_cell, is_execute. rewrite T. cbn. reflexivity.
  Qed.

  Lemma handle_ok_state st ids r :
    k_alive st = true ->
    let st' := fst (handle_ok st ids r) in
    k_alive st' = true /\
    k_count st' = (if is_execute r then bump r (k_count st) else k_count st) /\
    k_executed st' = (k_executed st + (if is_execute r && runs_code (r_outcome r) then 1 else 0))%N.
  Proof.
    intros A. unfold handle_ok, is_execute.
    destruct (r_type r) eqn:T; cbn [reply_type fst andb].
    1: destruct (r_outcome r); cbn; repeat split; lia.
    all: repeat split; try assumption; lia.
  Qed.

  Lemma spec_groups_dead c rs gs : Forall (fun g => g = []) gs -> length gs = length rs ->
    spec_groups hmac false c rs gs = true.
  Proof.
    revert gs; induction rs as [|r rs IH]; intros [|g gs] F L; cbn in *; try discriminate; [reflexivity|].
    inversion F; subst. cbn. apply IH; [assumption|lia].
  Qed.

  Lemma run_length st rs : length (snd (run hmac st rs)) = length rs.
  Proof.
    revert st; induction rs as [|r rs IH]; intros st; cbn [run]; [reflexivity|].
    destruct (handle hmac st r) as [st1 o]. specialize (IH st1). destruct (run hmac st1 rs) as [st2 os]. cbn in *. lia.
  Qed.

  (* Model |= Spec: every run of the model, from every state, for every request sequence, is accepted by the
     Spec checker - the same checker the correspondence applies to what the real kernel wrote. *)
  Theorem run_satisfies_spec : forall rs st,
    spec_groups hmac (k_alive st) (k_count st) rs (snd (run hmac st rs)) = true /\
    k_executed (fst (run hmac st rs)) = (k_executed st + spec_executed hmac (k_alive st) rs)%N.
  Proof.
    induction rs as [|r rs IH]; intros st; [cbn; split; [reflexivity|destruct (k_alive st); lia]|].
    destruct (k_alive st) eqn:A.
    - cbn [run spec_groups spec_executed]. unfold handle. rewrite A.
      destruct (authentic hmac r) as [ids|] eqn:Au.
      + pose proof (group_ok_handle_ok st ids r) as G.
        destruct (handle_ok_state st ids r A) as (A1 & C1 & E1).
        destruct (handle_ok st ids r) as [st1 o]. cbn [fst snd] in *.
        specialize (IH st1). destruct (run hmac st1 rs) as [st2 os]. cbn [fst snd] in *.
        rewrite A1, C1 in IH. destruct IH as [IH1 IH2]. rewrite G, IH1. split; [reflexivity|]. rewrite IH2, E1. lia.
      + set (d := {| k_alive := false; k_count := k_count st; k_executed := k_executed st |}).
        destruct (run_dead d rs eq_refl) as [E1 E2]. pose proof (run_length d rs) as L.
        destruct (run hmac d rs) as [st2 os]. cbn [fst snd] in *. subst st2. cbn [is_nil andb].
        split; [apply spec_groups_dead; assumption|cbn; lia].
    - cbn [run spec_groups spec_executed]. unfold handle. rewrite A.
      destruct (run_dead st rs A) as [E1 E2]. pose proof (run_length st rs) as L.
      destruct (run hmac st rs) as [st2 os]. cbn [fst snd] in *. subst st2. cbn [is_nil andb].
      split; [apply spec_groups_dead; assumption|lia].
  Qed.
End Proofs.

(* non-vacuity: a concrete session (toy MAC = first byte of each frame) with a forged request in the middle *)
Definition toy_mac (fs : list bytes) : bytes := map (fun f => hd 0%N f) fs.
Definition toy_req (t : reqtype) (o : exec_outcome) (good : bool) : request :=
  let frames := [[1%N; 2%N]; [3%N]; [4%N]; [5%N]] in
  {| r_wire := [[7%N]; zmq_delim; (if good then toy_mac frames else [0%N]) ] ++ frames;
     r_json_ok := true; r_type := t; r_store := true; r_outcome := o; r_stdout := 2%N |}.
Example session_instance :
  let rs := [toy_req RExecute ExValue true; toy_req RKernelInfo ExNone true; toy_req RExecute ExNone false;
             toy_req RExecute ExNone true] in
  let '(st, gs) := run toy_mac k_init rs in
  map (@length out) gs = [7; 3; 0; 0]%nat /\ k_executed st = 1%N /\ forged toy_mac (toy_req RExecute ExNone false).
Proof.
  vm_compute. split; [reflexivity|split; [reflexivity|]].
  intros ids sig frames H. inversion H; subst. discriminate.
Qed.
