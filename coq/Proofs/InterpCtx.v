(* Proofs/InterpCtx.v — lemmas for C11: pointer restoration, frame, defining-context resolution, module singleton *)
From PV Require Import Common.Util Gen.CtxConsts Interp.Ctx Interp.CtxCheck.
From Coq Require Import Lia.

Lemma consts_ctx : call_restore_in_finally = true /\ star_skip_underscore = true /\ lookup_before_load = true.
Proof. repeat split; reflexivity. Qed.

(* ------------------------------------------------------------------------------------------ *)
(* generic facts                                                                                *)
(* ------------------------------------------------------------------------------------------ *)
Lemma path_eqb_eq a b : path_eqb a b = true <-> a = b.
Proof. apply list_eqb_eq. intros; apply N.eqb_eq. Qed.
Lemma path_eqb_refl a : path_eqb a a = true.
Proof. apply path_eqb_eq; reflexivity. Qed.
Lemma path_eqb_neq a b : a <> b -> path_eqb a b = false.
Proof. intros H. destruct (path_eqb a b) eqn:E; [apply path_eqb_eq in E; congruence|reflexivity]. Qed.

Lemma tget_tset t x y v : tget (tset t x v) y = if N.eqb y x then Some v else tget t y.
Proof.
  induction t as [|[z u] r IH]; cbn.
  - destruct (N.eqb y x); reflexivity.
  - destruct (N.eqb x z) eqn:E; cbn.
    + apply N.eqb_eq in E; subst. destruct (N.eqb y z); reflexivity.
    + rewrite IH. destruct (N.eqb y z) eqn:E2; [|reflexivity].
      apply N.eqb_eq in E2; subst. rewrite N.eqb_sym, E. reflexivity.
Qed.

Lemma pget_pset {A} (m : list (path * A)) p q a : pget (pset m p a) q = if path_eqb q p then Some a else pget m q.
Proof.
  induction m as [|[z u] r IH]; cbn.
  - destruct (path_eqb q p); reflexivity.
  - destruct (path_eqb p z) eqn:E; cbn.
    + apply path_eqb_eq in E; subst. destruct (path_eqb q z); reflexivity.
    + rewrite IH. destruct (path_eqb q z) eqn:E2; [|reflexivity].
      apply path_eqb_eq in E2; subst. destruct (path_eqb z p) eqn:E3; [|reflexivity].
      apply path_eqb_eq in E3; subst. rewrite path_eqb_refl in E. discriminate.
Qed.

Lemma upd_nth_length {A} (l : list A) i f : length (upd_nth l i f) = length l.
Proof. revert i; induction l as [|x r IH]; intros [|i]; cbn; auto. Qed.
Lemma nth_upd_nth_ne {A} (l : list A) i j f : i <> j -> nth_error (upd_nth l i f) j = nth_error l j.
Proof. revert i j; induction l as [|x r IH]; intros [|i] [|j] H; cbn; auto; try congruence. Qed.
Lemma nth_upd_nth_eq {A} (l : list A) i f : nth_error (upd_nth l i f) i = option_map f (nth_error l i).
Proof. revert i; induction l as [|x r IH]; intros [|i]; cbn; auto. Qed.

Lemma last_snoc {A} (l : list A) x d : last (l ++ [x]) d = x.
Proof. induction l as [|y r IH]; cbn; [reflexivity|]. destruct (r ++ [x]) eqn:E; [destruct r; discriminate|]. exact IH. Qed.
Lemma removelast_snoc {A} (l : list A) x : removelast (l ++ [x]) = l.
Proof. rewrite removelast_app by discriminate. cbn. apply app_nil_r. Qed.

(* every world transformer of the model but bump_nsw leaves the switch counter alone *)
Lemma nsw_set_tab w c x v : w_nsw (set_tab w c x v) = w_nsw w. Proof. reflexivity. Qed.
Lemma nsw_bind_sym w e x v : w_nsw (fst (bind_sym w e x v)) = w_nsw w.
Proof. unfold bind_sym. destruct (e_sym e); reflexivity. Qed.
Lemma nsw_assign w e x v : w_nsw (fst (assign_name w e x v)) = w_nsw w.
Proof. unfold assign_name. destruct (is_global_decl e x); [reflexivity|apply nsw_bind_sym]. Qed.

(* ------------------------------------------------------------------------------------------ *)
(* Part A: the context pointers are restored (C11_call_restores)                                *)
(* ------------------------------------------------------------------------------------------ *)
Definition same_kind (a b : symref) : Prop :=
  match a, b with SymG c, SymG c' => c = c' | SymL _, SymL _ => True | _, _ => False end.
Lemma same_kind_refl a : same_kind a a. Proof. destruct a; cbn; auto. Qed.
Lemma same_kind_trans a b c : same_kind a b -> same_kind b c -> same_kind a c.
Proof. destruct a, b, c; cbn; intros; subst; auto; contradiction. Qed.

(* pointers of e' are those of e; only the contents of a local frame may differ *)
Definition ptrs_eq (e e' : evst) : Prop :=
  e_gst e' = e_gst e /\ e_stack e' = e_stack e /\ e_gctx e' = e_gctx e /\ e_func e' = e_func e /\ same_kind (e_sym e) (e_sym e').
Lemma ptrs_eq_refl e : ptrs_eq e e.
Proof. unfold ptrs_eq; repeat split; auto using same_kind_refl. Qed.
Lemma ptrs_eq_trans a b c : ptrs_eq a b -> ptrs_eq b c -> ptrs_eq a c.
Proof. unfold ptrs_eq; intros (?&?&?&?&?) (?&?&?&?&?); repeat split; try congruence. eapply same_kind_trans; eauto. Qed.

Definition coherent (e : evst) : Prop := e_gst e = e_gctx e.

Lemma bind_sym_ptrs w e x v : ptrs_eq e (snd (bind_sym w e x v)) /\ (coherent e -> coherent (snd (bind_sym w e x v))).
Proof. unfold bind_sym. destruct (e_sym e) eqn:E; cbn; split; auto using ptrs_eq_refl.
  unfold ptrs_eq; cbn; rewrite E; cbn; auto. Qed.
Lemma assign_ptrs w e x v : ptrs_eq e (snd (assign_name w e x v)) /\ (coherent e -> coherent (snd (assign_name w e x v))).
Proof. unfold assign_name. destruct (is_global_decl e x); cbn; [split; auto using ptrs_eq_refl|apply bind_sym_ptrs]. Qed.

Lemma bind_items_ptrs : forall items w e c w' e' ok, bind_items w e c items = (w', e', ok) ->
  ptrs_eq e e' /\ (coherent e -> coherent e') /\ w_nsw w' = w_nsw w.
Proof.
  induction items as [|[x b] r IH]; intros w e c w' e' ok H; cbn in H.
  - inversion H; subst. auto using ptrs_eq_refl.
  - destruct (tget (tab w c) x) as [v|]; [|inversion H; subst; auto using ptrs_eq_refl].
    destruct (bind_sym w e b v) as [w1 e1] eqn:B.
    pose proof (bind_sym_ptrs w e b v) as [P1 C1]. pose proof (nsw_bind_sym w e b v) as N1. rewrite B in *; cbn in *.
    apply IH in H. destruct H as (P2 & C2 & N2). split; [eapply ptrs_eq_trans; eauto|split; [auto|congruence]].
Qed.
Lemma bind_all_ptrs : forall l w e w' e', bind_all w e l = (w', e') ->
  ptrs_eq e e' /\ (coherent e -> coherent e') /\ w_nsw w' = w_nsw w.
Proof.
  induction l as [|[x v] r IH]; intros w e w' e' H; cbn in H.
  - inversion H; subst. auto using ptrs_eq_refl.
  - destruct (bind_sym w e x v) as [w1 e1] eqn:B.
    pose proof (bind_sym_ptrs w e x v) as [P1 C1]. pose proof (nsw_bind_sym w e x v) as N1. rewrite B in *; cbn in *.
    apply IH in H. destruct H as (P2 & C2 & N2). split; [eapply ptrs_eq_trans; eauto|split; [auto|congruence]].
Qed.

(* what Part A proves about an evaluator of statements *)
Definition A_ok (ex : world -> evst -> stmt -> res) : Prop :=
  forall w e s w' e' o, ex w e s = (w', e', o) ->
    w_nsw w <= w_nsw w' /\
    (o <> OFuel -> (coherent e -> coherent e') /\ (w_nsw w' = w_nsw w -> ptrs_eq e e')).
Definition A_blk (blk : world -> evst -> list stmt -> res) : Prop :=
  forall w e l w' e' o, blk w e l = (w', e', o) ->
    w_nsw w <= w_nsw w' /\
    (o <> OFuel -> (coherent e -> coherent e') /\ (w_nsw w' = w_nsw w -> ptrs_eq e e')).

Lemma A_block ex : A_ok ex -> A_blk (block_with ex).
Proof.
  intros Hex w e l; revert w e; induction l as [|s r IH]; intros w e w' e' o H; cbn in H.
  - inversion H; subst. split; [lia|]. intros _. split; auto using ptrs_eq_refl.
  - destruct (ex w e s) as [[w1 e1] o1] eqn:E1. destruct (Hex _ _ _ _ _ _ E1) as (M1 & K1).
    destruct o1; try (inversion H; subst; split; [lia|exact K1]).
    destruct (IH _ _ _ _ _ H) as (M2 & K2). split; [lia|]. intros NF.
    destruct (K1 ltac:(discriminate)) as (C1 & P1). destruct (K2 NF) as (C2 & P2).
    split; [auto|]. intros EQ. eapply ptrs_eq_trans; [apply P1|apply P2]; lia.
Qed.

(* a call gives back exactly the evaluator state it was started with *)
Lemma A_call blk : A_blk blk -> forall na w e v w' e' o, call_with blk na w e v = (w', e', o) ->
  w_nsw w <= w_nsw w' /\
  (o <> OFuel ->
     (forall c f gl body, v = VFun c f gl body -> e_gctx e <> c -> e' = e) /\
     (w_nsw w' = w_nsw w -> e' = e)).
Proof.
  intros Hb na w e v w' e' o H. unfold call_with in H.
  destruct v as [| | |c f gl body| |]; try (inversion H; subst; split; [lia|]; intros _; split; [intros; discriminate|reflexivity]).
  destruct (negb (arity_ok f na)); [inversion H; subst; split; [lia|]; intros _; split; [intros; reflexivity|reflexivity]|].
  set (fi := {| fi_gl := gl; fi_ln := local_names gl body |}) in *.
  destruct (blk w (enter_call e c fi) body) as [[w1 e1] o1] eqn:B.
  destruct (Hb _ _ _ _ _ _ B) as (M & K).
  assert (R : o <> OFuel -> w' = w1 /\ o1 <> OFuel /\ e' = leave_call e c e1).
  { destruct o1; inversion H; subst; intros NF; repeat split; congruence. }
  assert (W : w' = w1) by (destruct o1; inversion H; reflexivity). subst w1.
  split; [exact M|]. intros NF. destruct (R NF) as (_ & NF1 & ->). destruct (K NF1) as (_ & P).
  split.
  - intros c0 f0 gl0 body0 EQ NE. inversion EQ; subst c0.
    unfold leave_call. apply Nat.eqb_neq in NE. rewrite NE. destruct e; reflexivity.
  - intros EQ. specialize (P EQ). unfold leave_call, enter_call in *.
    destruct (Nat.eqb (e_gctx e) c) eqn:Ec; [|destruct e; reflexivity].
    destruct P as (Pg & Ps & Pc & _ & _). cbn in *.
    rewrite Ps, last_snoc, removelast_snoc, Pg, Pc. destruct e; reflexivity.
Qed.

Lemma A_call_coherent blk : A_blk blk -> forall na w e v w' e' o, call_with blk na w e v = (w', e', o) ->
  o <> OFuel -> coherent e -> coherent e'.
Proof.
  intros Hb na w e v w' e' o H NF Co. unfold call_with in H.
  destruct v as [| | |c f gl body| |]; try (inversion H; subst; exact Co).
  destruct (negb (arity_ok f na)); [inversion H; subst; exact Co|].
  set (fi := {| fi_gl := gl; fi_ln := local_names gl body |}) in *.
  destruct (blk w (enter_call e c fi) body) as [[w1 e1] o1] eqn:B.
  destruct (Hb _ _ _ _ _ _ B) as (M & K).
  assert (Cin : coherent (enter_call e c fi)).
  { unfold enter_call, coherent in *. destruct (Nat.eqb (e_gctx e) c); cbn; auto. }
  assert (E' : o1 <> OFuel /\ e' = leave_call e c e1).
  { destruct o1; inversion H; subst; split; congruence. }
  destruct E' as (NF1 & ->). destruct (K NF1) as (C1 & _). specialize (C1 Cin).
  unfold leave_call, coherent in *. destruct (Nat.eqb (e_gctx e) c); cbn; auto.
Qed.

Lemma A_import cfg blk : A_blk blk -> forall w self m level w' r, import_with cfg blk w self m level = (w', r) ->
  w_nsw w <= w_nsw w'.
Proof.
  intros Hb w self m level w' r H. unfold import_with in H.
  destruct (ctx_of w self) as [g|]; [|inversion H; subst; lia].
  destruct (resolve cfg g m level) as [|cands]; [inversion H; subst; lia|].
  destruct (if lookup_before_load then find_loaded w cands else None) as [[cn c]|].
  { inversion H; subst. cbn. lia. }
  destruct (find_file w cands) as [[[[cn fp] rel] src]|]; [|inversion H; subst; lia].
  cbn in H.
  match type of H with context [blk ?W ?E src] => destruct (blk W E src) as [[w3 e3] o3] eqn:B end.
  destruct (Hb _ _ _ _ _ _ B) as (M & _). cbn in M.
  destruct o3; inversion H; subst; cbn; lia.
Qed.

Lemma A_import_dots imp : (forall w self m level w' r, imp w self m level = (w', r) -> w_nsw w <= w_nsw w') ->
  forall items w e level w' e' o, import_dots imp w e level items = (w', e', o) ->
    w_nsw w <= w_nsw w' /\ (o <> OFuel -> (coherent e -> coherent e') /\ ptrs_eq e e').
Proof.
  intros Hi. induction items as [|[x b] r IH]; intros w e level w' e' o H; cbn in H.
  - inversion H; subst. split; [lia|]. auto using ptrs_eq_refl.
  - destruct (imp w (e_gctx e) [x] level) as [w1 [c| |]] eqn:I; pose proof (Hi _ _ _ _ _ _ I) as M1.
    + destruct (bind_sym w1 e b (VMod c)) as [w2 e2] eqn:B.
      pose proof (bind_sym_ptrs w1 e b (VMod c)) as [P1 C1]. pose proof (nsw_bind_sym w1 e b (VMod c)) as N1. rewrite B in *; cbn in *.
      destruct (IH _ _ _ _ _ _ H) as (M2 & K2). split; [lia|]. intros NF. destruct (K2 NF) as (C2 & P2).
      split; [auto|eapply ptrs_eq_trans; eauto].
    + inversion H; subst. split; [lia|]. auto using ptrs_eq_refl.
    + inversion H; subst. split; [lia|]. intros NF; congruence.
Qed.

Lemma set_global_ctx_coherent e c : coherent (set_global_ctx e c).
Proof. reflexivity. Qed.

Lemma A_stmt cfg ex : A_ok ex -> A_ok (stmt_with cfg ex).
Proof.
  intros Hex. pose proof (A_block ex Hex) as Hb.
  pose proof (A_import cfg _ Hb) as Hi.
  intros w e s w' e' o H. unfold stmt_with in H.
  destruct s.
  - (* SAssign *)
    destruct (eval_expr w e e0) as [v|]; [|inversion H; subst; split; [lia|auto using ptrs_eq_refl]].
    destruct (assign_name w e x v) as [w1 e1] eqn:As. inversion H; subst.
    pose proof (assign_ptrs w e x v) as [P C]. pose proof (nsw_assign w e x v) as Nn. rewrite As in *; cbn in *.
    split; [lia|]. auto.
  - (* SAttrAssign *)
    destruct (eval_expr w e e0) as [v|]; [|inversion H; subst; split; [lia|auto using ptrs_eq_refl]].
    destruct (lookup_name w e m) as [[| | | |c|]|]; inversion H; subst; (split; [cbn; lia|auto using ptrs_eq_refl]).
  - (* SDef *)
    destruct (assign_name w e f (VFun (e_gctx e) f gl body)) as [w1 e1] eqn:As. inversion H; subst.
    pose proof (assign_ptrs w e f (VFun (e_gctx e) f gl body)) as [P C].
    pose proof (nsw_assign w e f (VFun (e_gctx e) f gl body)) as Nn. rewrite As in *; cbn in *.
    split; [lia|]. auto.
  - (* SCall *)
    destruct (resolve_cref w e c) as [fv|]; [|inversion H; subst; split; [lia|auto using ptrs_eq_refl]].
    destruct (call_with (block_with ex) 0 w e fv) as [[w1 e1] o1] eqn:Cl.
    destruct (A_call _ Hb _ _ _ _ _ _ _ Cl) as (M & K).
    pose proof (A_call_coherent _ Hb _ _ _ _ _ _ _ Cl) as Co.
    destruct o1.
    + inversion H; subst. split; [lia|]. intros NF. destruct (K NF) as (_ & P). split; [auto|].
      intros EQ. rewrite (P EQ). apply ptrs_eq_refl.
    + destruct dst as [x|].
      * destruct (assign_name w1 e1 x v) as [w2 e2] eqn:As. inversion H; subst.
        pose proof (assign_ptrs w1 e1 x v) as [P2 C2]. pose proof (nsw_assign w1 e1 x v) as N2. rewrite As in *; cbn in *.
        split; [lia|]. intros _. destruct (K ltac:(discriminate)) as (_ & P).
        split; [intros; apply C2, Co; [discriminate|assumption]|].
        intros EQ. rewrite P in P2 by lia. exact P2.
      * inversion H; subst. split; [lia|]. intros _. destruct (K ltac:(discriminate)) as (_ & P).
        split; [intros; apply Co; [discriminate|assumption]|]. intros EQ. rewrite (P EQ). apply ptrs_eq_refl.
    + inversion H; subst. split; [lia|]. intros NF. destruct (K NF) as (_ & P). split; [auto|].
      intros EQ. rewrite (P EQ). apply ptrs_eq_refl.
    + inversion H; subst. split; [lia|]. intros NF; congruence.
  - (* STask *)
    destruct (resolve_cref w e c) as [fv|]; [|inversion H; subst; split; [lia|auto using ptrs_eq_refl]].
    destruct (call_with (block_with ex) 0 w (fresh_ev (e_gctx e)) fv) as [[w1 e1] o1] eqn:Cl.
    destruct (A_call _ Hb _ _ _ _ _ _ _ Cl) as (M & _).
    destruct o1; inversion H; subst; (split; [lia|auto using ptrs_eq_refl]).
  - (* SReturn *)
    destruct (eval_expr w e e0); inversion H; subst; (split; [lia|auto using ptrs_eq_refl]).
  - (* SRaise *)
    inversion H; subst; (split; [lia|auto using ptrs_eq_refl]).
  - (* SIf *)
    destruct (eval_expr w e e0) as [v|]; [|inversion H; subst; split; [lia|auto using ptrs_eq_refl]].
    destruct (truthy v); exact (Hb _ _ _ _ _ _ H).
  - (* STry *)
    destruct (block_with ex w e a) as [[w1 e1] o1] eqn:B1. destruct (Hb _ _ _ _ _ _ B1) as (M1 & K1).
    destruct o1; try (inversion H; subst; split; [lia|exact K1]).
    destruct (Hb _ _ _ _ _ _ H) as (M2 & K2). split; [lia|]. intros NF.
    destruct (K1 ltac:(discriminate)) as (C1 & P1). destruct (K2 NF) as (C2 & P2). split; [auto|].
    intros EQ. eapply ptrs_eq_trans; [apply P1|apply P2]; lia.
  - (* SImport *)
    destruct (import_with cfg (block_with ex) w (e_gctx e) m 0) as [w1 [c| |]] eqn:I; pose proof (Hi _ _ _ _ _ _ I) as M1.
    + destruct (bind_sym w1 e bind (VMod c)) as [w2 e2] eqn:B. inversion H; subst.
      pose proof (bind_sym_ptrs w1 e bind (VMod c)) as [P1 C1]. pose proof (nsw_bind_sym w1 e bind (VMod c)) as N1. rewrite B in *; cbn in *.
      split; [lia|auto].
    + inversion H; subst. split; [lia|auto using ptrs_eq_refl].
    + inversion H; subst. split; [lia|]. intros NF; congruence.
  - (* SFrom *)
    destruct (import_with cfg (block_with ex) w (e_gctx e) m level) as [w1 [c| |]] eqn:I; pose proof (Hi _ _ _ _ _ _ I) as M1.
    + destruct (bind_items w1 e c items) as [[w2 e2] ok] eqn:B. inversion H; subst.
      destruct (bind_items_ptrs _ _ _ _ _ _ _ B) as (P & C & Nn). split; [lia|auto].
    + inversion H; subst. split; [lia|auto using ptrs_eq_refl].
    + inversion H; subst. split; [lia|]. intros NF; congruence.
  - (* SFromStar *)
    destruct (import_with cfg (block_with ex) w (e_gctx e) m level) as [w1 [c| |]] eqn:I; pose proof (Hi _ _ _ _ _ _ I) as M1.
    + destruct (star_items cfg (tab w1 c)) as [l|]; [|inversion H; subst; split; [lia|auto using ptrs_eq_refl]].
      destruct (bind_all w1 e l) as [w2 e2] eqn:B. inversion H; subst.
      destruct (bind_all_ptrs _ _ _ _ _ B) as (P & C & Nn). split; [lia|auto].
    + inversion H; subst. split; [lia|auto using ptrs_eq_refl].
    + inversion H; subst. split; [lia|]. intros NF; congruence.
  - (* SFromDot *)
    destruct (A_import_dots _ Hi _ _ _ _ _ _ _ H) as (M & K). split; [exact M|]. intros NF. destruct (K NF); auto.
  - (* SSetCtx *)
    destruct (pget (w_mgr w) c) as [c0|]; inversion H; subst.
    + split; [cbn; lia|]. intros _. split; [intros; apply set_global_ctx_coherent|]. cbn. intros EQ. lia.
    + split; [lia|auto using ptrs_eq_refl].
  - (* SCallBad *)
    inversion H; subst; (split; [lia|auto using ptrs_eq_refl]).
  - (* SDefDeco *)
    destruct (resolve_cref w e d) as [fv|]; [|inversion H; subst; split; [lia|auto using ptrs_eq_refl]].
    destruct (call_with (block_with ex) 1 w e fv) as [[w1 e1] o1] eqn:Cl.
    destruct (A_call _ Hb _ _ _ _ _ _ _ Cl) as (M & K).
    pose proof (A_call_coherent _ Hb _ _ _ _ _ _ _ Cl) as Co.
    destruct o1.
    + inversion H; subst. split; [lia|]. intros NF. destruct (K NF) as (_ & P). split; [auto|].
      intros EQ. rewrite (P EQ). apply ptrs_eq_refl.
    + match type of H with context [assign_name w1 e1 f ?R] => set (r' := R) in * end.
      destruct (assign_name w1 e1 f r') as [w2 e2] eqn:As. inversion H; subst.
      pose proof (assign_ptrs w1 e1 f r') as [P2 C2]. pose proof (nsw_assign w1 e1 f r') as N2. rewrite As in *; cbn in *.
      split; [lia|]. intros _. destruct (K ltac:(discriminate)) as (_ & P).
      split; [intros; apply C2, Co; [discriminate|assumption]|].
      intros EQ. rewrite P in P2 by lia. exact P2.
    + inversion H; subst. split; [lia|]. intros NF. destruct (K NF) as (_ & P). split; [auto|].
      intros EQ. rewrite (P EQ). apply ptrs_eq_refl.
    + inversion H; subst. split; [lia|]. intros NF; congruence.
  - (* SSleep *)
    inversion H; subst; (split; [lia|auto using ptrs_eq_refl]).
Qed.

Lemma A_exec cfg fuel : A_ok (exec cfg fuel).
Proof.
  induction fuel as [|fuel IH].
  - intros w e s w' e' o H. cbn in H. inversion H; subst. split; [lia|]. intros NF; congruence.
  - cbn [exec]. apply A_stmt. exact IH.
Qed.

Lemma call_restores : forall cfg fuel w e v w' e' o,
  call_fun cfg fuel w e v = (w', e', o) -> o <> OFuel ->
  (forall c f gl body, v = VFun c f gl body -> e_gctx e <> c -> e' = e) /\
  (w_nsw w' = w_nsw w -> e' = e).
Proof.
  intros cfg fuel w e v w' e' o H NF. unfold call_fun in H.
  destruct (A_call _ (A_block _ (A_exec cfg fuel)) _ _ _ _ _ _ _ H) as (_ & K). exact (K NF).
Qed.

Lemma block_ptrs : forall cfg fuel w e l w' e' o,
  exec_block cfg fuel w e l = (w', e', o) -> o <> OFuel -> w_nsw w' = w_nsw w -> ptrs_eq e e'.
Proof.
  intros cfg fuel w e l w' e' o H NF EQ.
  destruct (A_block _ (A_exec cfg fuel) _ _ _ _ _ _ H) as (_ & K). destruct (K NF) as (_ & P). auto.
Qed.

(* ------------------------------------------------------------------------------------------ *)
(* Part B: frame — an import-free, switch-free program run in context a touches no other table  *)
(* ------------------------------------------------------------------------------------------ *)
Inductive pure : stmt -> Prop :=
  | P_assign x e : pure (SAssign x e)
  | P_attr m x e : pure (SAttrAssign m x e)
  | P_def f gl body : Forall pure body -> pure (SDef f gl body)
  | P_call d c : pure (SCall d c)
  | P_task c : pure (STask c)
  | P_return e : pure (SReturn e)
  | P_raise : pure SRaise
  | P_if e a b : Forall pure a -> Forall pure b -> pure (SIf e a b)
  | P_try a h : Forall pure a -> Forall pure h -> pure (STry a h)
  | P_callbad c : pure (SCallBad c)
  | P_sleep : pure SSleep.

(* values that belong to context a: plain data and functions defined in a whose bodies are pure *)
Definition closedv (a : nat) (v : val) : Prop :=
  match v with
  | VFun c _ _ body => c = a /\ Forall pure body
  | VMod _ => False
  | _ => True
  end.
Definition closedt (a : nat) (t : table) : Prop := forall x v, tget t x = Some v -> closedv a v.
Definition in_ctx (a : nat) (e : evst) : Prop :=
  e_gst e = a /\ e_gctx e = a /\ match e_sym e with SymG c => c = a | SymL t => closedt a t end.
(* w' differs from w at most in the table of context a, which stays closed *)
Definition frame_rel (a : nat) (w w' : world) : Prop :=
  (forall c, c <> a -> ctx_of w' c = ctx_of w c) /\ closedt a (tab w' a) /\ w_nsw w' = w_nsw w /\
  length (w_ctxs w') = length (w_ctxs w) /\ w_mgr w' = w_mgr w.

Lemma closedt_nil a : closedt a []. Proof. intros x v H; discriminate. Qed.
Lemma closedt_tset a t x v : closedt a t -> closedv a v -> closedt a (tset t x v).
Proof. intros Ht Hv y u. rewrite tget_tset. destruct (N.eqb y x); [intros E; inversion E; subst; exact Hv|apply Ht]. Qed.

Lemma frame_refl a w : closedt a (tab w a) -> frame_rel a w w.
Proof. unfold frame_rel; auto 6. Qed.
Lemma frame_trans a w1 w2 w3 : frame_rel a w1 w2 -> frame_rel a w2 w3 -> frame_rel a w1 w3.
Proof.
  intros (A1 & B1 & C1 & D1 & E1) (A2 & B2 & C2 & D2 & E2). unfold frame_rel.
  split; [|split; [exact B2|repeat split; congruence]].
  intros c Hc. rewrite A2, A1; auto.
Qed.

Lemma tab_set_tab_eq w c x v : c < length (w_ctxs w) -> tab (set_tab w c x v) c = tset (tab w c) x v.
Proof.
  intros L. unfold tab, ctx_of, set_tab; cbn. rewrite nth_upd_nth_eq.
  destruct (nth_error (w_ctxs w) c) eqn:E; [reflexivity|]. apply nth_error_None in E. lia.
Qed.
Lemma tab_set_tab_oob w c x v : length (w_ctxs w) <= c -> tab (set_tab w c x v) c = [].
Proof.
  intros L. unfold tab, ctx_of, set_tab; cbn. rewrite nth_upd_nth_eq.
  destruct (nth_error (w_ctxs w) c) eqn:E; [|reflexivity].
  assert (nth_error (w_ctxs w) c <> None) by congruence. apply nth_error_Some in H. lia.
Qed.

Lemma frame_set_tab a w x v : closedt a (tab w a) -> closedv a v -> frame_rel a w (set_tab w a x v).
Proof.
  intros Ht Hv. unfold frame_rel. repeat split.
  - intros c Hc. unfold ctx_of, set_tab; cbn. apply nth_upd_nth_ne. congruence.
  - destruct (Nat.lt_ge_cases a (length (w_ctxs w))) as [L|L].
    + rewrite tab_set_tab_eq by exact L. apply closedt_tset; assumption.
    + rewrite tab_set_tab_oob by exact L. apply closedt_nil.
  - cbn. apply upd_nth_length.
Qed.

Lemma lookup_closed a w e x v : closedt a (tab w a) -> in_ctx a e -> lookup_name w e x = Some v -> closedv a v.
Proof.
  intros Ht (Hg & Hc & Hs) H. unfold lookup_name in H. rewrite Hg in H.
  destruct (is_global_decl e x); [eapply Ht; eauto|].
  destruct (sym_get w (e_sym e) x) as [u|] eqn:S.
  - inversion H; subst. unfold sym_get in S. destruct (e_sym e); [subst; eapply Ht; eauto|eapply Hs; eauto].
  - destruct (tget (tab w a) x) as [u|] eqn:G; [|discriminate].
    destruct (is_local_name e x); [discriminate|]. inversion H; subst. eapply Ht; eauto.
Qed.
Lemma eval_closed a w e ex v : closedt a (tab w a) -> in_ctx a e -> eval_expr w e ex = Some v -> closedv a v.
Proof.
  intros Ht Hi H. destruct ex; cbn in H; try (inversion H; subst; exact I).
  - eapply lookup_closed; eauto.
  - destruct (lookup_name w e x) as [[]|]; inversion H; subst; exact I.
  - destruct (lookup_name w e m) as [u|] eqn:L; [|discriminate].
    pose proof (lookup_closed _ _ _ _ _ Ht Hi L) as C. destruct u; try discriminate. destruct C.
Qed.
Lemma cref_closed a w e c v : closedt a (tab w a) -> in_ctx a e -> resolve_cref w e c = Some v -> closedv a v.
Proof. intros Ht Hi H. destruct c; cbn [resolve_cref] in H; [eapply lookup_closed; eauto|eapply eval_closed; eauto]. Qed.

Lemma frame_bind_sym a w e x v : closedt a (tab w a) -> in_ctx a e -> closedv a v ->
  frame_rel a w (fst (bind_sym w e x v)) /\ in_ctx a (snd (bind_sym w e x v)).
Proof.
  intros Ht (Hg & Hc & Hs) Hv. unfold bind_sym. destruct (e_sym e) eqn:E; cbn.
  - subst c. split; [apply frame_set_tab; assumption|]. unfold in_ctx. rewrite E. auto.
  - split; [apply frame_refl; assumption|]. unfold in_ctx; cbn. repeat split; auto. apply closedt_tset; assumption.
Qed.
Lemma frame_assign a w e x v : closedt a (tab w a) -> in_ctx a e -> closedv a v ->
  frame_rel a w (fst (assign_name w e x v)) /\ in_ctx a (snd (assign_name w e x v)).
Proof.
  intros Ht Hi Hv. unfold assign_name. destruct (is_global_decl e x); [|apply frame_bind_sym; assumption].
  cbn. destruct Hi as (Hg & Hc & Hs). rewrite Hg. split; [apply frame_set_tab; assumption|unfold in_ctx; auto].
Qed.

Definition B_res (a : nat) (w : world) (e : evst) (r : res) : Prop :=
  let '(w', e', o) := r in
  frame_rel a w w' /\ (o <> OFuel -> in_ctx a e' /\ match o with OReturn v => closedv a v | _ => True end).
Definition B_ok (ex : world -> evst -> stmt -> res) : Prop :=
  forall a w e s, closedt a (tab w a) -> in_ctx a e -> pure s -> B_res a w e (ex w e s).
Definition B_blk (blk : world -> evst -> list stmt -> res) : Prop :=
  forall a w e l, closedt a (tab w a) -> in_ctx a e -> Forall pure l -> B_res a w e (blk w e l).

Lemma B_block ex : B_ok ex -> B_blk (block_with ex).
Proof.
  intros Hex a w e l; revert w e; induction l as [|s r IH]; intros w e Ht Hi Hp; cbn.
  - split; [apply frame_refl; assumption|auto].
  - inversion Hp as [|? ? Ps Pr]; subst.
    pose proof (Hex a w e s Ht Hi Ps) as H1. destruct (ex w e s) as [[w1 e1] o1]. cbn in H1. destruct H1 as (F1 & K1).
    destruct o1; try (cbn; split; [exact F1|exact K1]).
    destruct (K1 ltac:(discriminate)) as (I1 & _).
    pose proof (IH w1 e1 (proj1 (proj2 F1)) I1 Pr) as H2. destruct (block_with ex w1 e1 r) as [[w2 e2] o2]. cbn in *.
    destruct H2 as (F2 & K2). split; [eapply frame_trans; eauto|exact K2].
Qed.

Lemma B_call ex : A_ok ex -> B_ok ex -> forall na a w e v, closedt a (tab w a) -> in_ctx a e -> closedv a v ->
  B_res a w e (call_with (block_with ex) na w e v).
Proof.
  intros HA HB na a w e v Ht Hi Hv. unfold call_with.
  destruct v as [| | |c f gl body| |]; try (cbn; split; [apply frame_refl; assumption|auto]).
  destruct Hv as (-> & Hp).
  destruct (negb (arity_ok f na)); [cbn; split; [apply frame_refl; assumption|auto]|].
  set (fi := {| fi_gl := gl; fi_ln := local_names gl body |}).
  assert (Hin : in_ctx a (enter_call e a fi)).
  { destruct Hi as (Hg & Hc & Hs). unfold enter_call. rewrite Hc, Nat.eqb_refl. unfold in_ctx; cbn. repeat split; auto. apply closedt_nil. }
  pose proof (B_block _ HB a w _ body Ht Hin Hp) as H1.
  destruct (block_with ex w (enter_call e a fi) body) as [[w1 e1] o1] eqn:B. cbn in H1. destruct H1 as (F1 & K1).
  destruct (A_block _ HA _ _ _ _ _ _ B) as (_ & KA).
  assert (L : o1 <> OFuel -> in_ctx a (leave_call e a e1)).
  { intros NF. destruct (KA NF) as (_ & P). specialize (P (proj1 (proj2 (proj2 F1)))).
    destruct Hi as (Hg & Hc & Hs). unfold leave_call, enter_call in *. rewrite Hc, Nat.eqb_refl in *.
    destruct P as (Pg & Ps & Pc & _ & _). cbn in *. unfold in_ctx; cbn. rewrite Ps, last_snoc, Pg, Pc. auto. }
  destruct consts_ctx as (Cf & _).
  destruct o1; cbn; (split; [exact F1|]); intros NF; try (split; [apply L; discriminate|]); auto.
  all: try (destruct (K1 ltac:(discriminate)) as (_ & Cv); exact Cv).
  all: try congruence.
  all: try (rewrite ?Cf; split; [apply L; discriminate|exact I]).
Qed.

Lemma B_stmt cfg ex : A_ok ex -> B_ok ex -> B_ok (stmt_with cfg ex).
Proof.
  intros HA HB. pose proof (B_block _ HB) as Hb.
  intros a w e s Ht Hi Hp. unfold stmt_with.
  inversion Hp; subst.
  - (* SAssign *)
    destruct (eval_expr w e e0) as [v|] eqn:Ev; [|cbn; split; [apply frame_refl; assumption|auto]].
    pose proof (frame_assign a w e x v Ht Hi (eval_closed _ _ _ _ _ Ht Hi Ev)) as (F & I1).
    destruct (assign_name w e x v) as [w1 e1]. cbn in *. auto.
  - (* SAttrAssign: the receiver is never a module *)
    destruct (eval_expr w e e0) as [v|]; [|cbn; split; [apply frame_refl; assumption|auto]].
    destruct (lookup_name w e m) as [u|] eqn:L; [|cbn; split; [apply frame_refl; assumption|auto]].
    pose proof (lookup_closed _ _ _ _ _ Ht Hi L) as C.
    destruct u; try (cbn; split; [apply frame_refl; assumption|auto]). destruct C.
  - (* SDef *)
    assert (C : closedv a (VFun (e_gctx e) f gl body)) by (destruct Hi as (_ & Hc & _); cbn; auto).
    pose proof (frame_assign a w e f _ Ht Hi C) as (F & I1).
    destruct (assign_name w e f (VFun (e_gctx e) f gl body)) as [w1 e1]. cbn in *. auto.
  - (* SCall *)
    destruct (resolve_cref w e c) as [fv|] eqn:R; [|cbn; split; [apply frame_refl; assumption|auto]].
    pose proof (B_call _ HA HB 0 a w e fv Ht Hi (cref_closed _ _ _ _ _ Ht Hi R)) as H1.
    destruct (call_with (block_with ex) 0 w e fv) as [[w1 e1] o1]. cbn in H1. destruct H1 as (F1 & K1).
    destruct o1; try (cbn; split; [exact F1|]; intros NF; destruct (K1 NF); auto).
    destruct (K1 ltac:(discriminate)) as (I1 & Cv).
    destruct d as [x|]; [|cbn; auto].
    pose proof (frame_assign a w1 e1 x v (proj1 (proj2 F1)) I1 Cv) as (F2 & I2).
    destruct (assign_name w1 e1 x v) as [w2 e2]. cbn in *. split; [eapply frame_trans; eauto|auto].
  - (* STask *)
    destruct (resolve_cref w e c) as [fv|] eqn:R; [|cbn; split; [apply frame_refl; assumption|auto]].
    assert (If : in_ctx a (fresh_ev (e_gctx e))) by (destruct Hi as (_ & -> & _); unfold in_ctx; cbn; auto).
    pose proof (B_call _ HA HB 0 a w _ fv Ht If (cref_closed _ _ _ _ _ Ht Hi R)) as H1.
    destruct (call_with (block_with ex) 0 w (fresh_ev (e_gctx e)) fv) as [[w1 e1] o1]. cbn in H1. destruct H1 as (F1 & _).
    destruct o1; cbn; auto.
  - (* SReturn *)
    destruct (eval_expr w e e0) as [v|] eqn:Ev; cbn; (split; [apply frame_refl; assumption|]); auto.
    intros _. split; [assumption|]. eapply eval_closed; eauto.
  - (* SRaise *)
    cbn; split; [apply frame_refl; assumption|auto].
  - (* SIf *)
    destruct (eval_expr w e e0) as [v|]; [|cbn; split; [apply frame_refl; assumption|auto]].
    destruct (truthy v); apply Hb; assumption.
  - (* STry *)
    pose proof (Hb a w e a0 Ht Hi H) as H1. destruct (block_with ex w e a0) as [[w1 e1] o1]. cbn in H1. destruct H1 as (F1 & K1).
    destruct o1; try (cbn; split; [exact F1|exact K1]).
    destruct (K1 ltac:(discriminate)) as (I1 & _).
    pose proof (Hb a w1 e1 h (proj1 (proj2 F1)) I1 H0) as H2. destruct (block_with ex w1 e1 h) as [[w2 e2] o2]. cbn in *.
    destruct H2 as (F2 & K2). split; [eapply frame_trans; eauto|exact K2].
  - (* SCallBad *)
    cbn; split; [apply frame_refl; assumption|auto].
  - (* SSleep *)
    cbn; split; [apply frame_refl; assumption|auto].
Qed.

Lemma B_exec cfg fuel : B_ok (exec cfg fuel).
Proof.
  induction fuel as [|fuel IH].
  - intros a w e s Ht Hi Hp. cbn. split; [apply frame_refl; assumption|]. intros NF; congruence.
  - cbn [exec]. apply B_stmt; [apply A_exec|exact IH].
Qed.

Lemma frame : forall cfg fuel a w e prog w' e' o,
  closedt a (tab w a) -> in_ctx a e -> Forall pure prog ->
  exec_block cfg fuel w e prog = (w', e', o) ->
  (forall c, c <> a -> ctx_of w' c = ctx_of w c) /\ w_mgr w' = w_mgr w /\ closedt a (tab w' a) /\
  (o <> OFuel -> in_ctx a e').
Proof.
  intros cfg fuel a w e prog w' e' o Ht Hi Hp H.
  pose proof (B_block _ (B_exec cfg fuel) a w e prog Ht Hi Hp) as R. unfold exec_block in H. rewrite H in R.
  cbn in R. destruct R as ((F1 & F2 & _ & _ & F5) & K).
  split; [exact F1|split; [exact F5|split; [exact F2|]]]. intros NF. destruct (K NF) as (I1 & _). exact I1.
Qed.

(* loading a pure file: every context that existed before keeps its record; only the file's own name is (re)bound *)
Lemma frame_load : forall cfg fuel w n rel src w' ok,
  Forall pure src -> run_op cfg fuel w (OpLoad n rel src) = (w', ok) ->
  (forall c, c < length (w_ctxs w) -> ctx_of w' c = ctx_of w c) /\
  (forall m, m <> n -> pget (w_mgr w') m = pget (w_mgr w) m).
Proof.
  intros cfg fuel w n rel src w' ok Hp H. cbn [run_op] in H. unfold new_ctx in H.
  set (a := length (w_ctxs w)) in *.
  set (w1 := set_ctxs w (w_ctxs w ++ [{| g_name := n; g_rel := rel; g_tab := []; g_mod := false; g_imports := [] |}])) in *.
  assert (T1 : tab w1 a = []).
  { unfold tab, ctx_of, w1; cbn. rewrite nth_error_app2 by (unfold a; lia). unfold a. rewrite Nat.sub_diag. reflexivity. }
  destruct (exec_block cfg fuel w1 (fresh_ev a) src) as [[w2 e2] o2] eqn:B.
  assert (Ht : closedt a (tab w1 a)) by (rewrite T1; apply closedt_nil).
  assert (Hi : in_ctx a (fresh_ev a)) by (unfold in_ctx; cbn; auto).
  destruct (frame _ _ _ _ _ _ _ _ _ Ht Hi Hp B) as (F1 & F2 & _ & _).
  assert (K : forall c, c < a -> ctx_of w2 c = ctx_of w c).
  { intros c L. rewrite F1 by lia. unfold ctx_of, w1; cbn. apply nth_error_app1. exact L. }
  destruct o2; inversion H; subst; (split; [exact K|]); intros m Hm; cbn; rewrite ?F2; try reflexivity.
  rewrite pget_pset, path_eqb_neq by exact Hm. reflexivity.
Qed.

(* ------------------------------------------------------------------------------------------ *)
(* Part C: inside a body, names resolve in the defining context, whatever the caller            *)
(* ------------------------------------------------------------------------------------------ *)
Definition resolve_global (w : world) (c : nat) (fi : finfo) (x : N) : option val :=
  if memN x (fi_gl fi) then tget (tab w c) x
  else match tget (tab w c) x with
       | Some v => if memN x (fi_ln fi) then None else Some v
       | None => None
       end.

Lemma enter_call_state e c fi : coherent e ->
  e_gst (enter_call e c fi) = c /\ e_gctx (enter_call e c fi) = c /\
  e_sym (enter_call e c fi) = SymL [] /\ e_func (enter_call e c fi) = Some fi.
Proof.
  intros Co. unfold enter_call, coherent in *. destruct (Nat.eqb (e_gctx e) c) eqn:E; cbn; auto.
  apply Nat.eqb_eq in E. repeat split; congruence.
Qed.

Lemma lookup_in_body w e1 c fi t x :
  e_gst e1 = c -> e_func e1 = Some fi -> e_sym e1 = SymL t ->
  lookup_name w e1 x =
    if memN x (fi_gl fi) then tget (tab w c) x
    else match tget t x with Some v => Some v | None => resolve_global w c fi x end.
Proof.
  intros Hg Hf Hs. unfold lookup_name, is_global_decl, is_local_name, resolve_global, sym_get. rewrite Hg, Hf, Hs.
  destruct (memN x (fi_gl fi)); reflexivity.
Qed.

Lemma assign_in_body w e1 c fi x v :
  e_gst e1 = c -> e_func e1 = Some fi -> memN x (fi_gl fi) = true ->
  assign_name w e1 x v = (set_tab w c x v, e1).
Proof. intros Hg Hf Hm. unfold assign_name, is_global_decl. rewrite Hf, Hm, Hg. reflexivity. Qed.

(* the state in which the k-th statement of a body runs *)
Lemma body_state : forall cfg fuel w e c fi pre w1 e1,
  coherent e ->
  exec_block cfg fuel w (enter_call e c fi) pre = (w1, e1, ONormal) -> w_nsw w1 = w_nsw w ->
  e_gst e1 = c /\ e_gctx e1 = c /\ e_func e1 = Some fi /\ exists t, e_sym e1 = SymL t.
Proof.
  intros cfg fuel w e c fi pre w1 e1 Co H EQ.
  destruct (enter_call_state e c fi Co) as (S1 & S2 & S3 & S4).
  pose proof (block_ptrs _ _ _ _ _ _ _ _ H ltac:(discriminate) EQ) as (Pg & _ & Pc & Pf & Pk).
  rewrite S3 in Pk. repeat split; try congruence.
  destruct (e_sym e1) as [c0|t]; [contradiction|eauto].
Qed.

Lemma defining_globals : forall cfg fuel w e1 e2 c fi pre w1 e1' x,
  coherent e1 -> coherent e2 ->
  lookup_name w (enter_call e1 c fi) x = resolve_global w c fi x /\
  lookup_name w (enter_call e2 c fi) x = lookup_name w (enter_call e1 c fi) x /\
  (exec_block cfg fuel w (enter_call e1 c fi) pre = (w1, e1', ONormal) -> w_nsw w1 = w_nsw w ->
   exists t, e_sym e1' = SymL t /\
     lookup_name w1 e1' x = if memN x (fi_gl fi) then tget (tab w1 c) x
                           else match tget t x with Some v => Some v | None => resolve_global w1 c fi x end).
Proof.
  intros cfg fuel w e1 e2 c fi pre w1 e1' x Co1 Co2.
  assert (L : forall e, coherent e -> lookup_name w (enter_call e c fi) x = resolve_global w c fi x).
  { intros e Co. destruct (enter_call_state e c fi Co) as (S1 & S2 & S3 & S4).
    rewrite (lookup_in_body w _ c fi [] x S1 S4 S3). unfold resolve_global. cbn. destruct (memN x (fi_gl fi)); reflexivity. }
  split; [apply L; assumption|]. split; [rewrite !L by assumption; reflexivity|].
  intros H EQ. destruct (body_state _ _ _ _ _ _ _ _ _ Co1 H EQ) as (Bg & _ & Bf & t & Bs).
  exists t. split; [exact Bs|]. apply lookup_in_body; assumption.
Qed.

(* ------------------------------------------------------------------------------------------ *)
(* Part D: one context per module name, every successful import yields it                       *)
(* ------------------------------------------------------------------------------------------ *)
Definition modflag (w : world) (c : nat) : bool := match ctx_of w c with Some g => g_mod g | None => false end.
Definition is_load (n : path) (l : lev) : bool := match l with LLoad m _ => path_eqb m n | LImp _ _ => false end.
Definition nloads (n : path) (log : list lev) : nat := length (filter (is_load n) log).

Lemma nloads_zero n log : (forall c, ~ In (LLoad n c) log) -> nloads n log = 0.
Proof.
  unfold nloads. induction log as [|l r IH]; intros H; [reflexivity|]. cbn.
  destruct l as [m c|m c]; cbn.
  - destruct (path_eqb m n) eqn:E.
    + apply path_eqb_eq in E; subst. exfalso. apply (H c). left; reflexivity.
    + apply IH. intros c0 Hin. apply (H c0). right; exact Hin.
  - apply IH. intros c0 Hin. apply (H c0). right; exact Hin.
Qed.

Lemma modflag_lt w c : modflag w c = true -> c < length (w_ctxs w).
Proof.
  unfold modflag, ctx_of. destruct (nth_error (w_ctxs w) c) eqn:E; [|discriminate].
  intros _. apply nth_error_Some. congruence.
Qed.

Section Singleton.
Variable T : list path.      (* names of the autoloaded (non-module) contexts *)

Definition J (w : world) : Prop := forall n, ~ In n T ->
  (forall c, In (LLoad n c) (w_log w) -> pget (w_mgr w) n = Some c) /\
  (forall c, In (LImp n c) (w_log w) -> In (LLoad n c) (w_log w)) /\
  (forall c, pget (w_mgr w) n = Some c -> modflag w c = true /\ In (LLoad n c) (w_log w)) /\
  nloads n (w_log w) <= 1.

Record ext (w w' : world) : Prop := {
  x_len : length (w_ctxs w) <= length (w_ctxs w');
  x_mod : forall c, c < length (w_ctxs w) -> modflag w' c = modflag w c;
  x_loading : w_loading w' = w_loading w;
  x_cyc : w_cyc w = true -> w_cyc w' = true;
  x_prot : w_cyc w' = false -> forall n, In n (w_loading w) ->
             pget (w_mgr w') n = pget (w_mgr w) n /\ (forall c, In (LLoad n c) (w_log w') -> In (LLoad n c) (w_log w));
  x_J : w_cyc w' = false -> J w -> J w'
}.

Lemma ext_refl w : ext w w.
Proof. constructor; auto. Qed.

Lemma ext_trans w1 w2 w3 : ext w1 w2 -> ext w2 w3 -> ext w1 w3.
Proof.
  intros A B.
  assert (Cy : w_cyc w3 = false -> w_cyc w2 = false).
  { intros H. destruct (w_cyc w2) eqn:E; [|reflexivity]. rewrite (x_cyc _ _ B E) in H. discriminate. }
  constructor.
  - pose proof (x_len _ _ A); pose proof (x_len _ _ B); lia.
  - intros c L. rewrite (x_mod _ _ B) by (pose proof (x_len _ _ A); lia). apply (x_mod _ _ A); exact L.
  - rewrite (x_loading _ _ B). apply (x_loading _ _ A).
  - intros H. apply (x_cyc _ _ B). apply (x_cyc _ _ A). exact H.
  - intros H n Hin. destruct (x_prot _ _ A (Cy H) n Hin) as (M1 & L1).
    rewrite <- (x_loading _ _ A) in Hin. destruct (x_prot _ _ B H n Hin) as (M2 & L2).
    split; [congruence|auto].
  - intros H Hj. apply (x_J _ _ B H). apply (x_J _ _ A (Cy H)). exact Hj.
Qed.

(* steps that change neither the manager, the log, the loading stack, the flag nor any module flag *)
Definition sameview (w w' : world) : Prop :=
  w_mgr w' = w_mgr w /\ w_log w' = w_log w /\ w_loading w' = w_loading w /\ w_cyc w' = w_cyc w /\
  length (w_ctxs w') = length (w_ctxs w) /\ (forall c, modflag w' c = modflag w c).

Lemma J_view w w' : sameview w w' -> J w -> J w'.
Proof.
  intros (Vm & Vl & _ & _ & _ & Vf) Hj n Hn. destruct (Hj n Hn) as (Ja & Jb & Jc & Jd).
  rewrite Vm, Vl. repeat split; auto.
  - rewrite Vf. apply Jc; assumption.
  - apply Jc; assumption.
Qed.
Lemma ext_view w w' : sameview w w' -> ext w w'.
Proof.
  intros V. pose proof V as (Vm & Vl & Vg & Vc & Vn & Vf). constructor.
  - lia.
  - intros; apply Vf.
  - exact Vg.
  - congruence.
  - intros _ n _. rewrite Vm, Vl. auto.
  - intros _. apply J_view; exact V.
Qed.
Lemma sameview_refl w : sameview w w. Proof. unfold sameview; auto 7. Qed.
Lemma sameview_trans a b c : sameview a b -> sameview b c -> sameview a c.
Proof.
  intros (A1 & A2 & A3 & A4 & A5 & A6) (B1 & B2 & B3 & B4 & B5 & B6). unfold sameview.
  repeat split; try congruence; intros x; rewrite B6; apply A6.
Qed.

Lemma modflag_upd w i f : (forall g, g_mod (f g) = g_mod g) ->
  forall c, modflag (set_ctxs w (upd_nth (w_ctxs w) i f)) c = modflag w c.
Proof.
  intros Hf c. unfold modflag, ctx_of; cbn. destruct (Nat.eq_dec i c) as [->|Ne].
  - rewrite nth_upd_nth_eq. destruct (nth_error (w_ctxs w) c); cbn; auto.
  - rewrite nth_upd_nth_ne by exact Ne. reflexivity.
Qed.
Lemma view_set_tab w c x v : sameview w (set_tab w c x v).
Proof. unfold sameview, set_tab. repeat split; cbn; auto using upd_nth_length. apply modflag_upd. reflexivity. Qed.
Lemma view_add_import w c n : sameview w (add_import w c n).
Proof. unfold sameview, add_import. repeat split; cbn; auto using upd_nth_length. apply modflag_upd. reflexivity. Qed.
Lemma view_bump w : sameview w (bump_nsw w).
Proof. unfold sameview; cbn; auto 7. Qed.
Lemma view_bind_sym w e x v : sameview w (fst (bind_sym w e x v)).
Proof. unfold bind_sym. destruct (e_sym e); cbn; [apply view_set_tab|apply sameview_refl]. Qed.
Lemma view_assign w e x v : sameview w (fst (assign_name w e x v)).
Proof. unfold assign_name. destruct (is_global_decl e x); cbn; [apply view_set_tab|apply view_bind_sym]. Qed.
Lemma view_bind_items : forall items w e c w' e' ok, bind_items w e c items = (w', e', ok) -> sameview w w'.
Proof.
  induction items as [|[x b] r IH]; intros w e c w' e' ok H; cbn in H.
  - inversion H; subst. apply sameview_refl.
  - destruct (tget (tab w c) x) as [v|]; [|inversion H; subst; apply sameview_refl].
    pose proof (view_bind_sym w e b v) as V. destruct (bind_sym w e b v) as [w1 e1]. cbn in V.
    eapply sameview_trans; [exact V|eapply IH; eauto].
Qed.
Lemma view_bind_all : forall l w e w' e', bind_all w e l = (w', e') -> sameview w w'.
Proof.
  induction l as [|[x v] r IH]; intros w e w' e' H; cbn in H.
  - inversion H; subst. apply sameview_refl.
  - pose proof (view_bind_sym w e x v) as V. destruct (bind_sym w e x v) as [w1 e1]. cbn in V.
    eapply sameview_trans; [exact V|eapply IH; eauto].
Qed.

Lemma find_loaded_Some w : forall l cn c, find_loaded w l = Some (cn, c) -> pget (w_mgr w) cn = Some c /\ modflag w c = true.
Proof.
  induction l as [|[[cn0 fp] rel] r IH]; intros cn c H; cbn in H; [discriminate|].
  destruct (pget (w_mgr w) cn0) as [c0|] eqn:P; [|auto].
  destruct (ctx_of w c0) as [g|] eqn:G; [|auto].
  destruct (g_mod g) eqn:M; [|auto]. inversion H; subst. split; [exact P|]. unfold modflag. rewrite G. exact M.
Qed.
Lemma find_loaded_None w : forall l, find_loaded w l = None ->
  forall cn fp rel c, In (cn, fp, rel) l -> pget (w_mgr w) cn = Some c -> modflag w c = false.
Proof.
  induction l as [|[[cn0 fp0] rel0] r IH]; intros H cn fp rel c Hin P; [destruct Hin|].
  cbn in H. destruct Hin as [E|Hin].
  - inversion E; subst. rewrite P in H. unfold modflag. destruct (ctx_of w c) as [g|]; [|reflexivity].
    destruct (g_mod g); [discriminate|reflexivity].
  - destruct (pget (w_mgr w) cn0) as [c0|]; [|eapply IH; eauto].
    destruct (ctx_of w c0) as [g|]; [|eapply IH; eauto]. destruct (g_mod g); [discriminate|eapply IH; eauto].
Qed.
Lemma find_file_In w : forall l cd src, find_file w l = Some (cd, src) -> In cd l.
Proof.
  induction l as [|[[cn fp] rel] r IH]; intros cd src H; cbn in H; [discriminate|].
  destruct (pget (w_fs w) fp); [inversion H; subst; left; reflexivity|right; eapply IH; eauto].
Qed.

Lemma memP_In p l : memP p l = true <-> In p l.
Proof.
  unfold memP. rewrite existsb_exists. split.
  - intros (q & Hq & E). apply path_eqb_eq in E. subst; exact Hq.
  - intros H. exists p. split; [exact H|apply path_eqb_refl].
Qed.

Definition D_blk (blk : world -> evst -> list stmt -> res) : Prop :=
  forall w e l w' e' o, blk w e l = (w', e', o) -> ext w w'.
Definition D_ok (ex : world -> evst -> stmt -> res) : Prop :=
  forall w e s w' e' o, ex w e s = (w', e', o) -> ext w w'.

Lemma D_block ex : D_ok ex -> D_blk (block_with ex).
Proof.
  intros Hex w e l; revert w e; induction l as [|s r IH]; intros w e w' e' o H; cbn in H.
  - inversion H; subst. apply ext_refl.
  - destruct (ex w e s) as [[w1 e1] o1] eqn:E1. pose proof (Hex _ _ _ _ _ _ E1) as X1.
    destruct o1; try (inversion H; subst; exact X1).
    eapply ext_trans; [exact X1|eapply IH; eauto].
Qed.

Lemma D_call blk : D_blk blk -> forall na w e v w' e' o, call_with blk na w e v = (w', e', o) -> ext w w'.
Proof.
  intros Hb na w e v w' e' o H. unfold call_with in H.
  destruct v as [| | |c f gl body| |]; try (inversion H; subst; apply ext_refl).
  destruct (negb (arity_ok f na)); [inversion H; subst; apply ext_refl|].
  match type of H with context [blk ?W ?E body] => destruct (blk W E body) as [[w1 e1] o1] eqn:B end.
  pose proof (Hb _ _ _ _ _ _ B) as X. destruct o1; inversion H; subst; exact X.
Qed.

Lemma J_weak w w' : w_mgr w' = w_mgr w -> w_log w' = w_log w ->
  (forall c, modflag w c = true -> modflag w' c = true) -> J w -> J w'.
Proof.
  intros Vm Vl Vf Hj n Hn. destruct (Hj n Hn) as (Ja & Jb & Jc & Jd).
  rewrite Vm, Vl. repeat split; auto.
  - apply Vf. apply Jc; assumption.
  - apply Jc; assumption.
Qed.

Lemma modflag_mark_ne w c c0 : c0 <> c -> modflag (mark_module w c) c0 = modflag w c0.
Proof. intros Ne. unfold modflag, ctx_of, mark_module; cbn. rewrite nth_upd_nth_ne by congruence. reflexivity. Qed.
Lemma modflag_mark_eq w c : c < length (w_ctxs w) -> modflag (mark_module w c) c = true.
Proof.
  intros L. unfold modflag, ctx_of, mark_module; cbn. rewrite nth_upd_nth_eq.
  destruct (nth_error (w_ctxs w) c) eqn:E; [reflexivity|]. apply nth_error_None in E. lia.
Qed.

Lemma ext_found w self cn c : pget (w_mgr w) cn = Some c -> modflag w c = true ->
  ext w (add_log (add_import w self cn) [LImp cn c]).
Proof.
  intros Pm Pf. pose proof (view_add_import w self cn) as (Vm & Vl & Vg & Vc & Vn & Vf).
  constructor.
  - cbn. rewrite upd_nth_length. lia.
  - intros c0 _. change (modflag (add_import w self cn) c0 = modflag w c0). apply Vf.
  - reflexivity.
  - auto.
  - intros _ n _. split; [reflexivity|]. intros c0 [E|Hin]; [discriminate|exact Hin].
  - intros _ Hj n Hn. destruct (Hj n Hn) as (Ja & Jb & Jc & Jd).
    change (w_mgr (add_log (add_import w self cn) [LImp cn c])) with (w_mgr w).
    change (w_log (add_log (add_import w self cn) [LImp cn c])) with (LImp cn c :: w_log w).
    repeat split.
    + intros c0 [E|Hin]; [discriminate|auto].
    + intros c0 [E|Hin]; [|right; auto]. inversion E; subst. right. apply Jc. exact Pm.
    + change (modflag (add_import w self cn) c0 = true). rewrite Vf. apply Jc; assumption.
    + right. apply Jc; assumption.
    + exact Jd.
Qed.

Definition w_start (w : world) (cn : path) : world :=
  set_loading w (cn :: w_loading w) (w_cyc w || memP cn (w_loading w)).
Definition w_created (w : world) (cn : path) (rel : option path) : world := fst (new_ctx (w_start w cn) cn rel).
Definition w_popped (w3 : world) : world := set_loading w3 (tl (w_loading w3)) (w_cyc w3).
Definition w_registered (w4 : world) (cn : path) (c self : nat) : world :=
  add_log (add_import (mark_module (set_mgr w4 (pset (w_mgr w4) cn c)) c) self cn) [LImp cn c; LLoad cn c].

Lemma modflag_created_lt w cn rel c : c < length (w_ctxs w) -> modflag (w_created w cn rel) c = modflag w c.
Proof. intros L. unfold modflag, ctx_of, w_created, new_ctx; cbn. rewrite nth_error_app1 by exact L. reflexivity. Qed.
Lemma modflag_created_new w cn rel : modflag (w_created w cn rel) (length (w_ctxs w)) = false.
Proof. unfold modflag, ctx_of, w_created, new_ctx; cbn. rewrite nth_error_app2 by lia. rewrite Nat.sub_diag. reflexivity. Qed.
Lemma created_length w cn rel : length (w_ctxs (w_created w cn rel)) = S (length (w_ctxs w)).
Proof. unfold w_created, new_ctx; cbn. rewrite app_length; cbn. lia. Qed.

Lemma J_created w cn rel : J w -> J (w_created w cn rel).
Proof.
  apply J_weak; try reflexivity. intros c Hc. rewrite modflag_created_lt; [exact Hc|apply modflag_lt; exact Hc].
Qed.

Lemma ext_load_fail w cn rel w3 : ext (w_created w cn rel) w3 -> ext w (w_popped w3).
Proof.
  intros X. pose proof (created_length w cn rel) as CL.
  assert (Cy : w_cyc w3 = false -> w_cyc w = false /\ ~ In cn (w_loading w)).
  { intros H. destruct (w_cyc (w_created w cn rel)) eqn:E; [rewrite (x_cyc _ _ X E) in H; discriminate|].
    cbn in E. apply orb_false_iff in E. destruct E as (E1 & E2). split; [exact E1|]. intros Hin. apply memP_In in Hin. congruence. }
  constructor.
  - pose proof (x_len _ _ X). cbn. lia.
  - intros c L. change (modflag w3 c = modflag w c). rewrite (x_mod _ _ X) by lia. apply modflag_created_lt; exact L.
  - cbn. rewrite (x_loading _ _ X). reflexivity.
  - intros H. cbn. apply (x_cyc _ _ X). cbn. rewrite H. reflexivity.
  - intros H n Hin. cbn in H. destruct (x_prot _ _ X H n) as (M & L); [right; exact Hin|]. split; [exact M|exact L].
  - intros H Hj. cbn in H. apply (J_weak w3); try reflexivity; [auto|]. apply (x_J _ _ X H). apply J_created. exact Hj.
Qed.

Lemma nloads_cons_other n m c log : m <> n -> nloads n (LImp m c :: LLoad m c :: log) = nloads n log.
Proof. intros Ne. unfold nloads. cbn. rewrite path_eqb_neq by exact Ne. reflexivity. Qed.
Lemma nloads_cons_same n c log : nloads n (LImp n c :: LLoad n c :: log) = S (nloads n log).
Proof. unfold nloads. cbn. rewrite path_eqb_refl. reflexivity. Qed.

Lemma ext_load_ok w w4 cn c self :
  ext w w4 -> length (w_ctxs w) <= c -> c < length (w_ctxs w4) -> modflag w4 c = false ->
  (w_cyc w4 = false -> ~ In cn (w_loading w)) ->
  (w_cyc w4 = false -> J w -> ~ In cn T -> forall c0, ~ In (LLoad cn c0) (w_log w4)) ->
  ext w (w_registered w4 cn c self).
Proof.
  intros X Lc Lc4 Mf Hcy Hnl.
  set (w5 := mark_module (set_mgr w4 (pset (w_mgr w4) cn c)) c).
  pose proof (view_add_import w5 self cn) as (Vm & Vl & Vg & Vc & Vn & Vf).
  assert (MF : forall c0, modflag (w_registered w4 cn c self) c0 = modflag w5 c0).
  { intros c0. change (modflag (add_import w5 self cn) c0 = modflag w5 c0). apply Vf. }
  assert (MG : w_mgr (w_registered w4 cn c self) = pset (w_mgr w4) cn c).
  { change (w_mgr (add_import w5 self cn) = pset (w_mgr w4) cn c). rewrite Vm. reflexivity. }
  assert (LG : w_log (w_registered w4 cn c self) = LImp cn c :: LLoad cn c :: w_log w4).
  { change ([LImp cn c; LLoad cn c] ++ w_log (add_import w5 self cn) = LImp cn c :: LLoad cn c :: w_log w4). rewrite Vl. reflexivity. }
  assert (CY : w_cyc (w_registered w4 cn c self) = w_cyc w4) by (change (w_cyc (add_import w5 self cn) = w_cyc w4); rewrite Vc; reflexivity).
  constructor.
  - change (length (w_ctxs w) <= length (w_ctxs (add_import w5 self cn))). rewrite Vn. unfold w5, mark_module; cbn.
    rewrite upd_nth_length. apply (x_len _ _ X).
  - intros c0 L. rewrite MF. unfold w5. rewrite modflag_mark_ne by lia.
    change (modflag w4 c0 = modflag w c0). apply (x_mod _ _ X). exact L.
  - change (w_loading (add_import w5 self cn) = w_loading w). rewrite Vg. apply (x_loading _ _ X).
  - intros H. rewrite CY. apply (x_cyc _ _ X H).
  - intros H n Hin. rewrite CY in H. rewrite MG, LG.
    assert (Ne : n <> cn) by (intros ->; exact (Hcy H Hin)).
    destruct (x_prot _ _ X H n Hin) as (M & L).
    split.
    + rewrite pget_pset, path_eqb_neq by exact Ne. exact M.
    + intros c0 [E|[E|Hi]]; [discriminate|inversion E; congruence|auto].
  - intros H Hj. rewrite CY in H. pose proof (x_J _ _ X H Hj) as J4.
    intros n Hn. rewrite MG, LG. destruct (J4 n Hn) as (Ja & Jb & Jc & Jd).
    destruct (list_eq_dec N.eq_dec n cn) as [->|Ne].
    + (* the module just loaded *)
      pose proof (Hnl H Hj Hn) as NL.
      repeat split.
      * intros c0 [E|[E|Hi]]; [discriminate| |exfalso; exact (NL _ Hi)].
        inversion E; subst. rewrite pget_pset, path_eqb_refl. reflexivity.
      * intros c0 [E|[E|Hi]]; [|discriminate|right; right; auto]. inversion E; subst. right; left; reflexivity.
      * rewrite pget_pset, path_eqb_refl in H0. inversion H0; subst. rewrite MF. unfold w5. apply modflag_mark_eq. exact Lc4.
      * rewrite pget_pset, path_eqb_refl in H0. inversion H0; subst. right; left; reflexivity.
      * rewrite nloads_cons_same, (nloads_zero cn (w_log w4) NL). lia.
    + repeat split.
      * intros c0 [E|[E|Hi]]; [discriminate|inversion E; congruence|].
        rewrite pget_pset, path_eqb_neq by exact Ne. auto.
      * intros c0 [E|[E|Hi]]; [inversion E; congruence|discriminate|right; right; auto].
      * rewrite pget_pset, path_eqb_neq in H0 by exact Ne. destruct (Jc _ H0) as (F & _).
        rewrite MF. unfold w5. destruct (Nat.eq_dec c0 c) as [->|Nc]; [congruence|].
        rewrite modflag_mark_ne by exact Nc. exact F.
      * rewrite pget_pset, path_eqb_neq in H0 by exact Ne. right; right. apply Jc; exact H0.
      * rewrite nloads_cons_other by congruence. exact Jd.
Qed.

Lemma D_import cfg blk : D_blk blk -> forall w self m level w' r,
  import_with cfg blk w self m level = (w', r) -> ext w w'.
Proof.
  intros Hb w self m level w' r H. unfold import_with in H.
  destruct (ctx_of w self) as [g|]; [|inversion H; subst; apply ext_refl].
  destruct (resolve cfg g m level) as [|cands]; [inversion H; subst; apply ext_refl|].
  destruct consts_ctx as (_ & _ & Cl). rewrite Cl in H.
  destruct (find_loaded w cands) as [[cn c]|] eqn:FL.
  { inversion H; subst. destruct (find_loaded_Some _ _ _ _ FL) as (Pm & Pf). apply ext_found; assumption. }
  destruct (find_file w cands) as [[[[cn fp] rel] src]|] eqn:FF; [|inversion H; subst; apply ext_refl].
  pose proof (find_file_In _ _ _ _ FF) as Hin.
  cbv beta iota zeta delta [new_ctx] in H.
  match type of H with context [blk ?W ?E src] => destruct (blk W E src) as [[w3 e3] o3] eqn:B end.
  assert (X : ext (w_created w cn rel) w3) by exact (Hb _ _ _ _ _ _ B).
  pose proof (ext_load_fail _ _ _ _ X) as X4.
  destruct o3; try (inversion H; subst; exact X4).
  inversion H; subst. clear H.
  pose proof (created_length w cn rel) as CL.
  change (ext w (w_registered (w_popped w3) cn (length (w_ctxs w)) self)).
  assert (Cy : w_cyc w3 = false -> w_cyc w = false /\ ~ In cn (w_loading w)).
  { intros H. destruct (w_cyc (w_created w cn rel)) eqn:E; [rewrite (x_cyc _ _ X E) in H; discriminate|].
    cbn in E. apply orb_false_iff in E. destruct E as (E1 & E2). split; [exact E1|]. intros Hi. apply memP_In in Hi. congruence. }
  apply ext_load_ok.
  - exact X4.
  - lia.
  - pose proof (x_len _ _ X). cbn. lia.
  - change (modflag w3 (length (w_ctxs w)) = false). rewrite (x_mod _ _ X) by lia. apply modflag_created_new.
  - intros H. apply Cy. exact H.
  - intros H Hj Hn c0 Hi. cbn in H, Hi.
    destruct (x_prot _ _ X H cn) as (_ & L); [left; reflexivity|]. apply L in Hi. cbn in Hi.
    destruct (Hj cn Hn) as (Ja & _ & Jc & _). pose proof (Ja _ Hi) as P. destruct (Jc _ P) as (F & _).
    rewrite (find_loaded_None _ _ FL _ _ _ _ Hin P) in F. discriminate.
Qed.

Lemma D_import_dots imp : (forall w self m level w' r, imp w self m level = (w', r) -> ext w w') ->
  forall items w e level w' e' o, import_dots imp w e level items = (w', e', o) -> ext w w'.
Proof.
  intros Hi. induction items as [|[x b] r IH]; intros w e level w' e' o H; cbn in H.
  - inversion H; subst. apply ext_refl.
  - destruct (imp w (e_gctx e) [x] level) as [w1 [c| |]] eqn:I; pose proof (Hi _ _ _ _ _ _ I) as X1.
    + pose proof (view_bind_sym w1 e b (VMod c)) as V. destruct (bind_sym w1 e b (VMod c)) as [w2 e2]. cbn in V.
      eapply ext_trans; [exact X1|]. eapply ext_trans; [apply ext_view; exact V|]. eapply IH; eauto.
    + inversion H; subst; exact X1.
    + inversion H; subst; exact X1.
Qed.

Lemma D_stmt cfg ex : D_ok ex -> D_ok (stmt_with cfg ex).
Proof.
  intros Hex. pose proof (D_block ex Hex) as Hb. pose proof (D_import cfg _ Hb) as Hi.
  intros w e s w' e' o H. unfold stmt_with in H.
  destruct s.
  - destruct (eval_expr w e e0) as [v|]; [|inversion H; subst; apply ext_refl].
    pose proof (view_assign w e x v) as V. destruct (assign_name w e x v) as [w1 e1]. inversion H; subst. apply ext_view; exact V.
  - destruct (eval_expr w e e0) as [v|]; [|inversion H; subst; apply ext_refl].
    destruct (lookup_name w e m) as [[| | | |c|]|]; inversion H; subst; try apply ext_refl. apply ext_view, view_set_tab.
  - pose proof (view_assign w e f (VFun (e_gctx e) f gl body)) as V.
    destruct (assign_name w e f (VFun (e_gctx e) f gl body)) as [w1 e1]. inversion H; subst. apply ext_view; exact V.
  - destruct (resolve_cref w e c) as [fv|]; [|inversion H; subst; apply ext_refl].
    destruct (call_with (block_with ex) 0 w e fv) as [[w1 e1] o1] eqn:Cl. pose proof (D_call _ Hb _ _ _ _ _ _ _ Cl) as X.
    destruct o1; try (inversion H; subst; exact X).
    destruct dst as [x|]; [|inversion H; subst; exact X].
    pose proof (view_assign w1 e1 x v) as V. destruct (assign_name w1 e1 x v) as [w2 e2]. inversion H; subst.
    eapply ext_trans; [exact X|apply ext_view; exact V].
  - destruct (resolve_cref w e c) as [fv|]; [|inversion H; subst; apply ext_refl].
    destruct (call_with (block_with ex) 0 w (fresh_ev (e_gctx e)) fv) as [[w1 e1] o1] eqn:Cl.
    pose proof (D_call _ Hb _ _ _ _ _ _ _ Cl) as X. destruct o1; inversion H; subst; exact X.
  - destruct (eval_expr w e e0); inversion H; subst; apply ext_refl.
  - inversion H; subst; apply ext_refl.
  - destruct (eval_expr w e e0) as [v|]; [|inversion H; subst; apply ext_refl].
    destruct (truthy v); exact (Hb _ _ _ _ _ _ H).
  - destruct (block_with ex w e a) as [[w1 e1] o1] eqn:B1. pose proof (Hb _ _ _ _ _ _ B1) as X1.
    destruct o1; try (inversion H; subst; exact X1). eapply ext_trans; [exact X1|exact (Hb _ _ _ _ _ _ H)].
  - destruct (import_with cfg (block_with ex) w (e_gctx e) m 0) as [w1 [c| |]] eqn:I; pose proof (Hi _ _ _ _ _ _ I) as X1.
    + pose proof (view_bind_sym w1 e bind (VMod c)) as V. destruct (bind_sym w1 e bind (VMod c)) as [w2 e2]. inversion H; subst.
      eapply ext_trans; [exact X1|apply ext_view; exact V].
    + inversion H; subst; exact X1.
    + inversion H; subst; exact X1.
  - destruct (import_with cfg (block_with ex) w (e_gctx e) m level) as [w1 [c| |]] eqn:I; pose proof (Hi _ _ _ _ _ _ I) as X1.
    + destruct (bind_items w1 e c items) as [[w2 e2] ok] eqn:B. inversion H; subst.
      eapply ext_trans; [exact X1|apply ext_view; eapply view_bind_items; eauto].
    + inversion H; subst; exact X1.
    + inversion H; subst; exact X1.
  - destruct (import_with cfg (block_with ex) w (e_gctx e) m level) as [w1 [c| |]] eqn:I; pose proof (Hi _ _ _ _ _ _ I) as X1.
    + destruct (star_items cfg (tab w1 c)) as [l|]; [|inversion H; subst; exact X1].
      destruct (bind_all w1 e l) as [w2 e2] eqn:B. inversion H; subst.
      eapply ext_trans; [exact X1|apply ext_view; eapply view_bind_all; eauto].
    + inversion H; subst; exact X1.
    + inversion H; subst; exact X1.
  - eapply D_import_dots; eauto.
  - destruct (pget (w_mgr w) c); inversion H; subst; [apply ext_view, view_bump|apply ext_refl].
  - inversion H; subst; apply ext_refl.
  - destruct (resolve_cref w e d) as [fv|]; [|inversion H; subst; apply ext_refl].
    destruct (call_with (block_with ex) 1 w e fv) as [[w1 e1] o1] eqn:Cl. pose proof (D_call _ Hb _ _ _ _ _ _ _ Cl) as X.
    destruct o1; try (inversion H; subst; exact X).
    match type of H with context [assign_name w1 e1 f ?R] => set (r' := R) in * end.
    pose proof (view_assign w1 e1 f r') as V. destruct (assign_name w1 e1 f r') as [w2 e2]. inversion H; subst.
    eapply ext_trans; [exact X|apply ext_view; exact V].
  - inversion H; subst; apply ext_refl.
Qed.

Lemma D_exec cfg fuel : D_ok (exec cfg fuel).
Proof.
  induction fuel as [|fuel IH].
  - intros w e s w' e' o H. cbn in H. inversion H; subst. apply ext_refl.
  - cbn [exec]. apply D_stmt. exact IH.
Qed.

(* top level *)
Fixpoint load_names (ops : list op) : list path :=
  match ops with [] => [] | OpLoad n _ _ :: r => n :: load_names r | _ :: r => load_names r end.

Definition top_rel (w w' : world) : Prop := (w_cyc w = true -> w_cyc w' = true) /\ (w_cyc w' = false -> J w -> J w').

Lemma top_of_ext w w' : ext w w' -> top_rel w w'.
Proof. intros X. split; [apply (x_cyc _ _ X)|apply (x_J _ _ X)]. Qed.

Lemma J_set_top w n c : In n T -> J w -> J (set_mgr w (pset (w_mgr w) n c)).
Proof.
  intros Hn Hj m Hm. destruct (Hj m Hm) as (Ja & Jb & Jc & Jd).
  assert (Ne : m <> n) by congruence.
  change (w_log (set_mgr w (pset (w_mgr w) n c))) with (w_log w).
  change (w_mgr (set_mgr w (pset (w_mgr w) n c))) with (pset (w_mgr w) n c).
  repeat split; auto.
  - intros c0 Hi. rewrite pget_pset, path_eqb_neq by exact Ne. auto.
  - rewrite pget_pset, path_eqb_neq in H by exact Ne. change (modflag w c0 = true). apply Jc; exact H.
  - rewrite pget_pset, path_eqb_neq in H by exact Ne. apply Jc; exact H.
Qed.

Lemma D_run_trig cfg fuel w n f w' ok : run_trig cfg fuel w n f = (w', ok) -> top_rel w w'.
Proof.
  intros H. unfold run_trig in H.
  destruct (pget (w_mgr w) n) as [c|]; [|inversion H; subst; split; auto].
  destruct (tget (tab w c) f) as [v|]; [|inversion H; subst; split; auto].
  destruct v as [| | |c' f' gl body| |]; try (inversion H; subst; split; auto; fail).
  destruct (call_fun cfg fuel w (fresh_ev c') (VFun c' f' gl body)) as [[w1 e1] o1] eqn:Cl.
  inversion H; subst. apply top_of_ext. eapply D_call; [apply D_block, D_exec|exact Cl].
Qed.

Lemma D_run_op cfg fuel w o w' ok : (forall n rel src, o = OpLoad n rel src -> In n T) ->
  run_op cfg fuel w o = (w', ok) -> top_rel w w'.
Proof.
  intros HT H. destruct o as [n rel src|n f|n f g v]; cbn [run_op] in H.
  - specialize (HT n rel src eq_refl).
    cbv beta iota zeta delta [new_ctx] in H.
    match type of H with context [exec_block cfg fuel ?W ?E src] => destruct (exec_block cfg fuel W E src) as [[w2 e2] o2] eqn:B end.
    pose proof (D_block _ (D_exec cfg fuel) _ _ _ _ _ _ B) as X.
    assert (R1 : top_rel w w2).
    { split.
      - intros Hc. apply (x_cyc _ _ X). exact Hc.
      - intros Hc Hj. apply (x_J _ _ X Hc). apply (J_weak w); try reflexivity; [|exact Hj].
        intros c Hf. unfold modflag, ctx_of in *; cbn. rewrite nth_error_app1; [exact Hf|].
        destruct (nth_error (w_ctxs w) c) eqn:E; [|discriminate]. apply nth_error_Some. congruence. }
    destruct o2; inversion H; subst; try exact R1.
    destruct R1 as (R1 & R2). split; [exact R1|]. intros Hc Hj. apply J_set_top; [exact HT|]. apply R2; assumption.
  - eapply D_run_trig; eauto.
  - destruct (pget (w_mgr w) n) as [c|]; [|inversion H; subst; split; auto].
    destruct (tget (tab w c) g) as [[t| | | | |]|]; try (inversion H; subst; split; auto; fail).
    destruct (Z.ltb t v); [eapply D_run_trig; eauto|inversion H; subst; split; auto].
Qed.

Lemma D_run_ops cfg fuel : forall ops w w' ok, (forall n, In n (load_names ops) -> In n T) ->
  run_ops cfg fuel w ops = (w', ok) -> top_rel w w'.
Proof.
  induction ops as [|o r IH]; intros w w' ok HT H; cbn in H.
  - inversion H; subst. split; auto.
  - destruct (run_op cfg fuel w o) as [w1 ok1] eqn:R1.
    assert (T1 : top_rel w w1).
    { eapply D_run_op; [|exact R1]. intros n rel src ->. apply HT. left; reflexivity. }
    destruct ok1; [|inversion H; subst; exact T1].
    assert (T2 : top_rel w1 w').
    { eapply IH; [|exact H]. intros n Hn. apply HT. destruct o; [right; exact Hn|exact Hn|exact Hn]. }
    destruct T1 as (A1 & B1), T2 as (A2 & B2). split; [auto|].
    intros Hc Hj. apply B2; [exact Hc|]. apply B1; [|exact Hj].
    destruct (w_cyc w1) eqn:E; [rewrite (A2 eq_refl) in Hc; discriminate|reflexivity].
Qed.

End Singleton.

Lemma J_init T fs : J T (init_world fs).
Proof. intros n _. cbn. repeat split; try contradiction; try discriminate. unfold nloads; cbn; lia. Qed.

Lemma nloads_unique n : forall log, nloads n log <= 1 -> forall c1 c2, In (LLoad n c1) log -> In (LLoad n c2) log -> c1 = c2.
Proof.
  unfold nloads. induction log as [|l r IH]; intros Hle c1 c2 H1 H2; [destruct H1|].
  cbn in Hle. destruct (is_load n l) eqn:E; cbn in Hle.
  - assert (Z : forall c, ~ In (LLoad n c) r).
    { intros c Hin. assert (In (LLoad n c) (filter (is_load n) r)) by (apply filter_In; split; [exact Hin|cbn; apply path_eqb_refl]).
      destruct (filter (is_load n) r); [contradiction|cbn in Hle; lia]. }
    destruct H1 as [->|H1]; [|exfalso; exact (Z _ H1)]. destruct H2 as [E2|H2]; [inversion E2; reflexivity|exfalso; exact (Z _ H2)].
  - destruct H1 as [->|H1]; [cbn in E; rewrite path_eqb_refl in E; discriminate|].
    destruct H2 as [->|H2]; [cbn in E; rewrite path_eqb_refl in E; discriminate|]. eapply IH; eauto.
Qed.

Lemma module_singleton : forall cfg fuel fs ops w ok,
  run_ops cfg fuel (init_world fs) ops = (w, ok) -> w_cyc w = false ->
  forall n, ~ In n (load_names ops) ->
    nloads n (w_log w) <= 1 /\
    (forall c1 c2, In (LLoad n c1) (w_log w) -> In (LLoad n c2) (w_log w) -> c1 = c2) /\
    (forall c, In (LImp n c) (w_log w) ->
       In (LLoad n c) (w_log w) /\ pget (w_mgr w) n = Some c /\ modflag w c = true).
Proof.
  intros cfg fuel fs ops w ok H Hc n Hn.
  destruct (D_run_ops (load_names ops) cfg fuel ops _ _ _ (fun _ h => h) H) as (_ & Hj).
  specialize (Hj Hc (J_init _ fs) n Hn). destruct Hj as (Ja & Jb & Jc & Jd).
  split; [exact Jd|]. split; [apply nloads_unique; exact Jd|].
  intros c Hi. pose proof (Jb _ Hi) as L. pose proof (Ja _ L) as P. destruct (Jc _ P) as (F & _). auto.
Qed.

(* ------------------------------------------------------------------------------------------ *)
(* star import                                                                                  *)
(* ------------------------------------------------------------------------------------------ *)
Lemma star_no_underscore cfg t l : tget t n_all = None -> star_items cfg t = Some l ->
  forall x v, In (x, v) l -> is_under x = false.
Proof.
  intros Hn H x v Hin. unfold star_items in H. rewrite Hn in H. destruct consts_ctx as (_ & Cs & _). rewrite Cs in H.
  assert (E : l = filter (fun '(x, _) => negb (is_under x)) t) by (destruct (d_star_all cfg); inversion H; reflexivity).
  subst l. apply filter_In in Hin. destruct Hin as (_ & Hx). destruct (is_under x); [discriminate|reflexivity].
Qed.

Lemma star_all_respected t names l : tget t n_all = Some (VNames names) -> star_items all_off t = Some l ->
  map fst l = names /\ forall x v, In (x, v) l -> tget t x = Some v.
Proof.
  intros Ha H. unfold star_items in H. cbn [d_star_all all_off] in H. rewrite Ha in H. clear Ha.
  revert l H. induction names as [|x r IH]; intros l H; cbn in H.
  - inversion H; subst. split; [reflexivity|intros ? ? []].
  - destruct (fold_right _ (Some []) r) as [a|] eqn:F; [|discriminate].
    destruct (tget t x) as [v|] eqn:G; [|discriminate]. inversion H; subst.
    destruct (IH a eq_refl) as (M & K). split; [cbn; congruence|].
    intros y u [E|Hin]; [inversion E; subst; exact G|apply K; exact Hin].
Qed.

(* ------------------------------------------------------------------------------------------ *)
(* witnesses: hypotheses are inhabited, deviations refute the conformant statements              *)
(* ------------------------------------------------------------------------------------------ *)
Definition only_D110 : deviations := {| d_rel_sibling := true; d_star_all := false |}.
Definition only_D111 : deviations := {| d_rel_sibling := false; d_star_all := true |}.
Definition total_loads (w : world) : nat := length (filter (fun l => match l with LLoad _ _ => true | _ => false end) (w_log w)).

(* names: pkg=16 sib=17 other=18 m1=14 a=10 b=11; g=100 h=101 cnt=103; bump=200 boom=203 *)
Definition ex_bump : stmt := SDef 200 [103%N] [SAssign 103 (EAddLit 103 1)].
Definition ex_fs_pkg : list (path * list stmt) :=
  [ ([3; 16; 18]%N, [SAssign 103 (ELit 0); ex_bump]);
    ([3; 16; 17]%N, [SFromDot 1 [(18%N, 18%N)]; SCall None (CAttr 18 200)]);
    ([3; 16; 5]%N, [SFromDot 1 [(17%N, 17%N)]; SFromDot 1 [(18%N, 18%N)]; SCall None (CAttr 18 200); SAssign 100 (EAttr 18 103)]) ].
Definition ex_ops_pkg : list op :=
  [ OpLoad [1; 10]%N None [SImport [16%N] 16; SAssign 100 (EAttr 16 100)];
    OpLoad [1; 11]%N None [SFrom [16%N] 0 [(100%N, 101%N)]; SImport [16%N] 16] ].

Example singleton_inhabited :
  let '(w, ok) := run_ops all_off 50 (init_world ex_fs_pkg) ex_ops_pkg in
  ok = true /\ w_cyc w = false /\ total_loads w = 3 /\
  length (filter (fun l => match l with LImp [3; 16]%N _ => true | _ => false end) (w_log w)) = 3 /\
  tget (tab w 0) 100 = Some (VInt 2).
Proof. vm_compute. repeat split. Qed.

(* D110: with the code's context naming, modules/pkg/other.py is loaded twice (4 loads for 3 files) and
   pkg/__init__.py does not see the call that pkg/sib.py made *)
Lemma singleton_refuted_D110 :
  let '(w, ok) := run_ops only_D110 50 (init_world ex_fs_pkg) ex_ops_pkg in
  ok = true /\ w_cyc w = false /\ total_loads w = 4 /\ length ex_fs_pkg = 3 /\
  tget (tab w 0) 100 = Some (VInt 1).
Proof. vm_compute. repeat split. Qed.

Definition ex_fs_star : list (path * list stmt) :=
  [ ([3; 14]%N, [SAssign 100 (ELit 1); SAssign 101 (ELit 2); SAssign 900 (ENames [100%N])]) ].
Definition ex_ops_star : list op := [ OpLoad [1; 10]%N None [SAssign 101 (ELit 7); SFromStar [14%N] 0] ].
Lemma star_refuted_D111 :
  tget (tab (fst (run_ops only_D111 50 (init_world ex_fs_star) ex_ops_star)) 0) 101 = Some (VInt 2) /\
  tget (tab (fst (run_ops all_off 50 (init_world ex_fs_star) ex_ops_star)) 0) 101 = Some (VInt 7).
Proof. vm_compute. split; reflexivity. Qed.

(* a cyclic import: the side condition of the singleton theorem can fail (and then the module body runs repeatedly) *)
Example cyclic_flagged :
  w_cyc (fst (run_ops all_off 30 (init_world [([3; 14]%N, [SImport [15%N] 15]); ([3; 15]%N, [SImport [14%N] 14])])
                [OpLoad [1; 10]%N None [SImport [14%N] 14]])) = true.
Proof. vm_compute. reflexivity. Qed.

(* frame: file a and module m1 share the global names g, cnt and a function name; a pure program run in a *)
Definition ex_pure_prog : list stmt :=
  [ SAssign 100 (ELit 5); ex_bump; SAssign 103 (ELit 1); SCall None (CName 200);
    SDef 203 [100%N] [SAssign 100 (EAddLit 100 10); SRaise];
    STry [SCall None (CName 203)] [SAssign 101 (EName 100)]; STask (CName 200) ].
Example frame_inhabited : Forall pure ex_pure_prog /\
  let w0 := fst (run_ops all_off 50 (init_world [([3; 14]%N, [SAssign 100 (ELit 9); SAssign 103 (ELit 9); ex_bump])])
                   [OpLoad [1; 11]%N None [SImport [14%N] 14]]) in
  let '(w, ok) := run_op all_off 50 w0 (OpLoad [1; 10]%N None ex_pure_prog) in
  ok = true /\ tab w 1 = tab w0 1 /\ tget (tab w 2) 100 = Some (VInt 15) /\ tget (tab w 2) 103 = Some (VInt 3) /\
  tget (tab w 1) 103 = Some (VInt 9).
Proof. split; [unfold ex_pure_prog, ex_bump; repeat constructor|vm_compute; repeat split]. Qed.

(* call_restores: a cross-context call that raises, made from inside a function of another file *)
Example call_restores_inhabited :
  let w0 := fst (run_ops all_off 50 (init_world [([3; 14]%N, [SAssign 100 (ELit 9); SDef 203 [100%N] [SAssign 100 (EAddLit 100 10); SRaise]])])
                   [OpLoad [1; 10]%N None [SImport [14%N] 14]]) in
  let e := {| e_gst := 0; e_sym := SymL [(300%N, VInt 4)]; e_stack := [SymG 0]; e_gctx := 0; e_func := Some {| fi_gl := []; fi_ln := [300%N] |} |} in
  match tget (tab w0 1) 203 with
  | Some f => let '(w', e', o) := call_fun all_off 50 w0 e f in
              o = OExc /\ e' = e /\ tget (tab w' 1) 100 = Some (VInt 19) /\ e_gctx e <> 1
  | None => False
  end.
Proof. vm_compute. repeat split. discriminate. Qed.
