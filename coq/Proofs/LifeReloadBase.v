(* Proofs/LifeReloadBase.v — basic facts about name lists, sets-as-lists, memo tables and context tables (C10). *)
From PV Require Import Common.Util Life.ReloadBase Gen.ReloadConsts Life.Modules Life.Reload.
From Coq Require Import Lia.

Lemma nl_eqb_eq a b : nl_eqb a b = true <-> a = b.
Proof. apply list_eqb_eq. intros; apply N.eqb_eq. Qed.
Lemma nl_eqb_refl a : nl_eqb a a = true.
Proof. apply nl_eqb_eq; reflexivity. Qed.
Lemma nl_eqb_neq a b : nl_eqb a b = false <-> a <> b.
Proof.
  split.
  - intros H E. apply nl_eqb_eq in E. congruence.
  - intros H. destruct (nl_eqb a b) eqn:E; [apply nl_eqb_eq in E; congruence|reflexivity].
Qed.
Lemma nl_eqb_sym a b : nl_eqb a b = nl_eqb b a.
Proof.
  destruct (nl_eqb a b) eqn:E.
  - apply nl_eqb_eq in E; subst. symmetry; apply nl_eqb_refl.
  - symmetry. apply nl_eqb_neq. apply nl_eqb_neq in E. congruence.
Qed.

Lemma nl_mem_In n l : nl_mem n l = true <-> In n l.
Proof.
  unfold nl_mem. rewrite existsb_exists. split.
  - intros (x & Hx & E). apply nl_eqb_eq in E; subst; assumption.
  - intros H. exists n. split; [assumption|apply nl_eqb_refl].
Qed.
Lemma nl_mem_false n l : nl_mem n l = false <-> ~ In n l.
Proof.
  split.
  - intros H HI. apply nl_mem_In in HI. congruence.
  - intros H. destruct (nl_mem n l) eqn:E; [apply nl_mem_In in E; tauto|reflexivity].
Qed.

Lemma nl_add_In x n l : In x (nl_add n l) <-> x = n \/ In x l.
Proof.
  unfold nl_add. destruct (nl_mem n l) eqn:E.
  - apply nl_mem_In in E. split; [tauto|]. intros [->|H]; assumption.
  - rewrite in_app_iff. cbn. split; [intros [H|[H|[]]]; auto|intros [->|H]; auto].
Qed.

Lemma nl_union_In x a b : In x (nl_union a b) <-> In x a \/ In x b.
Proof.
  unfold nl_union. revert a. induction b as [|y b IH]; intros a; cbn [fold_left].
  - cbn. tauto.
  - rewrite IH, nl_add_In. cbn. split; [intros [[->|H]|H]; auto|intros [H|[->|H]]; auto].
Qed.

(* ---------- memo tables ---------- *)
Lemma memo_get_app m1 m2 n :
  memo_get (m1 ++ m2) n = match memo_get m1 n with Some v => Some v | None => memo_get m2 n end.
Proof.
  induction m1 as [|[k v] m1 IH]; cbn [app memo_get]; [reflexivity|].
  destruct (nl_eqb k n); [reflexivity|apply IH].
Qed.

Lemma memo_get_filter_other m k n :
  k <> n -> memo_get (filter (fun kv => negb (nl_eqb (fst kv) k)) m) n = memo_get m n.
Proof.
  intros Hkn. induction m as [|[k' v] m IH]; cbn [filter memo_get fst]; [reflexivity|].
  destruct (nl_eqb k' k) eqn:E1; cbn [negb].
  - apply nl_eqb_eq in E1; subst k'. apply nl_eqb_neq in Hkn. rewrite Hkn. exact IH.
  - cbn [memo_get]. destruct (nl_eqb k' n); [reflexivity|exact IH].
Qed.

Lemma memo_get_filter_same m k :
  memo_get (filter (fun kv => negb (nl_eqb (fst kv) k)) m) k = None.
Proof.
  induction m as [|[k' v] m IH]; cbn [filter memo_get fst]; [reflexivity|].
  destruct (nl_eqb k' k) eqn:E1; cbn [negb]; [exact IH|].
  cbn [memo_get]. rewrite E1. exact IH.
Qed.

Lemma memo_get_set_same m k v : memo_get (memo_set m k v) k = Some v.
Proof.
  unfold memo_set. rewrite memo_get_app, memo_get_filter_same. cbn [memo_get]. rewrite nl_eqb_refl. reflexivity.
Qed.
Lemma memo_get_set_other m k v n : k <> n -> memo_get (memo_set m k v) n = memo_get m n.
Proof.
  intros H. unfold memo_set. rewrite memo_get_app, memo_get_filter_other by assumption.
  destruct (memo_get m n); [reflexivity|]. cbn [memo_get]. apply nl_eqb_neq in H. rewrite H. reflexivity.
Qed.

(* ---------- context tables ---------- *)
Lemma st_get_Some st n c : st_get st n = Some c -> In c st /\ c_name c = n.
Proof.
  unfold st_get. intros H. apply find_some in H. destruct H as [H1 H2]. apply nl_eqb_eq in H2. auto.
Qed.
Lemma st_get_None st n : st_get st n = None <-> ~ In n (st_names st).
Proof.
  unfold st_get, st_names. split.
  - intros H HI. apply in_map_iff in HI. destruct HI as (c & E & HI).
    pose proof (find_none _ _ H c HI) as H2. cbn in H2. rewrite E, nl_eqb_refl in H2. discriminate.
  - intros H. destruct (find _ st) eqn:E; [|reflexivity]. apply find_some in E. destruct E as [E1 E2].
    apply nl_eqb_eq in E2. exfalso. apply H. apply in_map_iff. eauto.
Qed.

Lemma st_del_In st n c : In c (st_del st n) <-> In c st /\ c_name c <> n.
Proof.
  unfold st_del. rewrite filter_In. split; intros [H1 H2]; split; try assumption.
  - apply negb_true_iff, nl_eqb_neq in H2. assumption.
  - apply negb_true_iff, nl_eqb_neq. assumption.
Qed.
Lemma st_set_In st c x : In x (st_set st c) <-> x = c \/ (In x st /\ c_name x <> c_name c).
Proof.
  unfold st_set. rewrite in_app_iff, st_del_In. cbn. split; [intros [H|[H|[]]]; auto|intros [->|H]; auto].
Qed.

(* ---------- sort_by is a permutation ---------- *)
From Coq Require Import Permutation.

Lemma insert_by_perm {A} (key : A -> list N) x l : Permutation (insert_by key x l) (x :: l).
Proof.
  induction l as [|y l IH]; cbn; [apply Permutation_refl|].
  destruct (nl_ltb (key x) (key y)); [apply Permutation_refl|].
  eapply Permutation_trans; [apply perm_skip; exact IH|apply perm_swap].
Qed.

Lemma sort_by_perm {A} (key : A -> list N) l : Permutation (sort_by key l) l.
Proof.
  unfold sort_by. induction l as [|x l IH]; cbn; [apply Permutation_refl|].
  eapply Permutation_trans; [apply insert_by_perm|apply perm_skip; exact IH].
Qed.

Lemma sort_by_In {A} (key : A -> list N) l x : In x (sort_by key l) <-> In x l.
Proof. split; apply Permutation_in; [apply sort_by_perm|apply Permutation_sym, sort_by_perm]. Qed.

Lemma NoDup_map_filter {A B} (f : A -> B) (p : A -> bool) l : NoDup (map f l) -> NoDup (map f (filter p l)).
Proof.
  induction l as [|x l IH]; cbn; [auto|]. intros H. inversion H as [|? ? Hnot H']; subst.
  destruct (p x); cbn; [|apply IH; exact H'].
  constructor; [|apply IH; exact H']. intros HI. apply Hnot. apply in_map_iff in HI. destruct HI as (y & E & HI).
  apply filter_In in HI. destruct HI as [HI _]. rewrite <- E. apply in_map. exact HI.
Qed.

Lemma ctx_all_In st c : In c (ctx_all st) <-> In c st /\ in_ctx_roots (c_name c) = true.
Proof. unfold ctx_all. rewrite filter_In, sort_by_In. reflexivity. Qed.

Lemma ctx_all_uniq st : NoDup (map c_name st) -> NoDup (map c_name (ctx_all st)).
Proof.
  intros H. unfold ctx_all. apply NoDup_map_filter.
  eapply Permutation_NoDup; [|exact H]. apply Permutation_map. apply Permutation_sym. apply sort_by_perm.
Qed.
