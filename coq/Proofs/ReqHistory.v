(* Proofs/ReqHistory.v — whole runs (files -> table -> installer plan -> record), repeated runs, the rank
   instance of the version order used by the correspondence, non-vacuity examples and the refutations of the
   property for the code as it is (D24, D25). *)
From PV Require Import Common.Util Gen.ReqConsts Req.Merge Req.Install Req.Spec Req.ReqCheck Proofs.ReqMerge Proofs.ReqInstall.
From Coq Require Import Lia Permutation.

(* ---------- the version order shipped by the harness is a total preorder on the strings it ranks ---------- *)
Lemma rk_total rs a b : rk_valid rs a = true -> rk_valid rs b = true -> rk_le rs a b = true \/ rk_le rs b a = true.
Proof.
  unfold rk_valid, rk_le. destruct (rank_of rs a) as [x|], (rank_of rs b) as [y|]; try discriminate. intros _ _.
  destruct (N.leb_spec x y); [left; reflexivity|right; apply N.leb_le; lia].
Qed.
Lemma rk_trans rs a b c : rk_valid rs a = true -> rk_valid rs b = true -> rk_valid rs c = true ->
  rk_le rs a b = true -> rk_le rs b c = true -> rk_le rs a c = true.
Proof.
  unfold rk_valid, rk_le. destruct (rank_of rs a) as [x|], (rank_of rs b) as [y|], (rank_of rs c) as [z|]; try discriminate.
  intros _ _ _ H1 H2. apply N.leb_le in H1, H2. apply N.leb_le. lia.
Qed.
Lemma rk_nil rs : rank_of rs [] = None -> rk_valid rs [] = false.
Proof. unfold rk_valid. intros ->. reflexivity. Qed.

Section Runs.
  Variable vvalid : str -> bool.
  Variable vle : str -> str -> bool.

  Local Notation process_all := (process_all vvalid vle).
  Local Notation install := (install vvalid vle).
  Local Notation run_step := (run_step vvalid vle).

  Lemma process_all_wf inst cfg files : table_wf inst (process_all inst cfg files).
  Proof.
    unfold Merge.process_all. split; [apply merge_lines_NoDup|]. intros k e. apply merge_lines_inst.
  Qed.
  Lemma process_all_pins inst cfg files : pins_not_marker (process_all inst cfg files).
  Proof. unfold Merge.process_all. intros k e w. apply merge_lines_pins. Qed.

  (* ---------- one whole run ---------- *)
  Theorem run_gate inst cfg files ia rec0 todo r u :
    install false ia rec0 (process_all inst cfg files) = ODone todo r u -> todo = [].
  Proof. apply install_gate. Qed.

  Theorem run_foreign inst cfg files allow ia rec0 todo r u p iv :
    install allow ia rec0 (process_all inst cfg files) = ODone todo r u ->
    truthy (inst p) = Some iv ->
    (alookup p rec0 = None \/ exists rv, alookup p rec0 = Some rv /\ veq vle rv iv = false) ->
    ~ In p (map fst todo).
  Proof. apply (install_foreign vvalid vle inst). apply process_all_wf. Qed.

  (* with D25 repaired the keys are package names, so the statement is about packages: no requirement handed to the
     installer names (after stripping) a package that something else installed *)
  Theorem run_foreign_pkg inst cfg files allow ia rec0 todo r u p iv : d25_no_strip cfg = false ->
    install allow ia rec0 (process_all inst cfg files) = ODone todo r u ->
    truthy (inst p) = Some iv ->
    (alookup p rec0 = None \/ exists rv, alookup p rec0 = Some rv /\ veq vle rv iv = false) ->
    ~ In p (map (fun a => strip (fst a)) todo).
  Proof.
    intros Hd H Hi Hf Hin. apply in_map_iff in Hin. destruct Hin as ([k w] & E & Hin). cbn [fst] in E.
    assert (Hk : strip k = k).
    { pose proof (install_args_iff vvalid vle inst allow ia rec0 _ todo r u (process_all_wf inst cfg files) H k w) as A.
      apply A in Hin. destruct Hin as (e & Hl & _). unfold Merge.process_all in Hl.
      apply (merge_lines_keys_stripped vvalid vle inst cfg (flat_lines (discover files)) k Hd). exact (In_keys _ _ _ (tlookup_In _ _ _ Hl)). }
    rewrite Hk in E. subst k.
    apply (run_foreign inst cfg files allow ia rec0 todo r u p iv H Hi Hf). exact (In_keys _ _ _ Hin).
  Qed.

  Theorem run_own inst cfg files allow ia rec0 todo r u p iv rv e :
    install allow ia rec0 (process_all inst cfg files) = ODone todo r u ->
    truthy (inst p) = Some iv -> alookup p rec0 = Some rv ->
    vvalid rv = true -> vvalid iv = true -> veq vle rv iv = true ->
    tlookup p (process_all inst cfg files) = Some e ->
    match e_ver e with
    | Some w => vvalid w = true -> (In p (map fst todo) <-> veq vle w iv = false)
    | None => ~ In p (map fst todo)
    end.
  Proof. apply (install_own vvalid vle inst). apply process_all_wf. Qed.

  Theorem run_record inst cfg files allow ia rec0 todo r u :
    NoDup (map fst rec0) -> no_marker rec0 ->
    install allow ia rec0 (process_all inst cfg files) = ODone todo r u ->
    (forall p w, In (p, Some w) todo -> alookup p r = Some w) /\
    (forall p, In (p, None) todo -> alookup p r = truthy (ia p)) /\
    (forall p v, alookup p r = Some v -> ~ In p (map fst todo) -> alookup p rec0 = Some v).
  Proof. apply (install_record vvalid vle inst); [apply process_all_wf|apply process_all_pins]. Qed.

  Theorem run_tracks inst cfg files allow ia rec0 todo r u :
    NoDup (map fst rec0) -> no_marker rec0 ->
    (forall p, ~ In p (map fst todo) -> ia p = inst p) ->
    (forall p w, In (p, Some w) todo -> truthy (ia p) = Some w) ->
    install allow ia rec0 (process_all inst cfg files) = ODone todo r u ->
    forall p e v, tlookup p (process_all inst cfg files) = Some e -> alookup p r = Some v ->
    exists iv, truthy (ia p) = Some iv /\ (v = iv \/ (vvalid v = true /\ vvalid iv = true /\ veq vle v iv = true)).
  Proof. apply (install_tracks vvalid vle inst); [apply process_all_wf|apply process_all_pins]. Qed.

  (* ---------- repeated runs ---------- *)
  (* ghost state: per package key, the version that pyscript's latest installer call for it installed *)
  Definition ghost_one (env1 : alist) (g : alist) (a : str * option str) : alist :=
    match snd a with
    | Some w => aset (fst a) w g
    | None => match truthy (alookup (fst a) env1) with Some v => aset (fst a) v g | None => aremove (fst a) g end
    end.
  Definition ghost_step (env1 : alist) (g : alist) (todo : plan_t) : alist := fold_left (ghost_one env1) todo g.
  Lemma ghost_step_cons env1 g a r : ghost_step env1 g (a :: r) = ghost_step env1 (ghost_one env1 g a) r.
  Proof. reflexivity. Qed.
  Definition ghost_ver (env1 : alist) (a : str * option str) : option str :=
    match snd a with Some w => Some w | None => truthy (alookup (fst a) env1) end.

  Lemma ghost_other env1 todo : forall g p, ~ In p (map fst todo) -> alookup p (ghost_step env1 g todo) = alookup p g.
  Proof.
    induction todo as [|[n w] r IH]; intros g p Hn; [reflexivity|].
    rewrite ghost_step_cons. rewrite IH by (intros Hin; apply Hn; right; exact Hin).
    assert (Hne : str_eqb p n = false) by (apply str_eqb_neq; intros E; apply Hn; left; symmetry; exact E).
    unfold ghost_one. cbn [fst snd].
    destruct w as [w|]; [rewrite alookup_aset, Hne; reflexivity|].
    destruct (truthy (alookup n env1)); [rewrite alookup_aset, Hne|rewrite alookup_aremove, Hne]; reflexivity.
  Qed.

  Lemma ghost_in env1 todo : forall g p w, (forall w', In (p, w') todo -> w' = w) -> In (p, w) todo ->
    alookup p (ghost_step env1 g todo) = ghost_ver env1 (p, w).
  Proof.
    induction todo as [|[n w0] r IH]; intros g p w Hu Hin; [destruct Hin|].
    rewrite ghost_step_cons.
    destruct (in_dec str_dec p (map fst r)) as [Hr|Hr].
    - apply in_map_iff in Hr. destruct Hr as ([p' w'] & E & Hr). cbn [fst] in E. subst p'.
      assert (w' = w) by (apply Hu; right; exact Hr). subst w'.
      apply IH; [|exact Hr]. intros w' Hw'. apply Hu. right. exact Hw'.
    - rewrite ghost_other by exact Hr. destruct Hin as [Hin|Hin]; [|exfalso; apply Hr; exact (In_keys _ _ _ Hin)].
      inversion Hin; subst. unfold ghost_ver, ghost_one. cbn [fst snd]. destruct w as [w|].
      + rewrite alookup_aset, str_eqb_refl. reflexivity.
      + destruct (truthy (alookup p env1)); [rewrite alookup_aset|rewrite alookup_aremove]; rewrite str_eqb_refl; reflexivity.
  Qed.

  Definition rec_matches (rec g : alist) : Prop := forall k v, alookup k rec = Some v -> alookup k g = Some v.
  Definition rec_ok (rec g : alist) : Prop := NoDup (map fst rec) /\ no_marker rec /\ rec_matches rec g.
  Definition clean_env (e : alist) : Prop := forall k v, alookup k e = Some v -> str_eqb v unpinned_version = false.

  Definition ghost_after (g : alist) (o : step_out) : alist :=
    match so_out o with ODone todo _ _ => ghost_step (so_env_after o) g todo | _ => g end.

  Lemma truthy_some o v : truthy o = Some v -> o = Some v.
  Proof. destruct o as [[|c r]|]; cbn; intros H; inversion H; reflexivity. Qed.

  Lemma finish_NoDup ia rec0 rec1 todo r u : NoDup (map fst rec0) -> NoDup (map fst rec1) ->
    install_finish ia rec0 rec1 todo = (r, u) -> NoDup (map fst r).
  Proof.
    intros N0 N1. unfold install_finish. fold (set_all todo rec1).
    pose proof (set_all_NoDup todo rec1 N1) as N2.
    destruct (dict_eqb _ rec0); intros H; inversion H; subst; [exact N0|].
    destruct (existsb _ (set_all todo rec1)); [|exact N2].
    unfold update_unpinned. clear - N2. induction (set_all todo rec1) as [|[k v] a IH]; [constructor|].
    cbn [map fst] in N2. inversion N2 as [|? ? Hk N2']; subst. cbn [flat_map fst snd].
    assert (Hsub : forall x, In x (map fst (flat_map (fun kv => if str_eqb (snd kv) unpinned_version
                     then match truthy (ia (fst kv)) with Some v0 => [(fst kv, v0)] | None => [] end else [kv]) a)) -> In x (map fst a)).
    { clear. induction a as [|[k v] a IH]; intros x Hx; [exact Hx|]. cbn [flat_map fst snd] in Hx. rewrite map_app in Hx.
      apply in_app_or in Hx. destruct Hx as [Hx|Hx]; [|right; exact (IH x Hx)].
      destruct (str_eqb v unpinned_version); [destruct (truthy (ia k))|]; cbn in Hx |- *; tauto. }
    destruct (str_eqb v unpinned_version); [destruct (truthy (ia k))|]; cbn [app map fst]; try (exact (IH N2'));
      constructor; try (exact (IH N2')); intros Hin; apply Hk; exact (Hsub _ Hin).
  Qed.

  Lemma plan_NoDup : forall t rec acc rec1 todo, NoDup (map fst rec) -> plan vvalid vle rec t acc = Some (rec1, todo) -> NoDup (map fst rec1).
  Proof.
    induction t as [|[n e] t' IH]; intros rec acc rec1 todo ND Hp; cbn [Install.plan] in Hp.
    - inversion Hp; subst. exact ND.
    - destruct (decide_pkg vvalid vle (alookup n rec) (e_inst e) (e_ver e)); try discriminate;
        try (eapply IH; [|exact Hp]; try exact ND; apply aremove_NoDup; exact ND).
  Qed.

  (* one run keeps "every record entry is the version pyscript's latest installer call installed for that package" *)
  Theorem step_record_matches cfg w g s w' o :
    rec_ok (w_rec w) g -> run_step cfg w s = (w', o) -> clean_env (so_env_after o) ->
    rec_ok (w_rec w') (ghost_after g o)
    /\ (forall todo r u, so_out o = ODone todo r u ->
          forall a, In a todo -> alookup (fst a) (w_rec w') = ghost_ver (so_env_after o) a).
  Proof.
    intros (ND & NM & RM) H CE. unfold Install.run_step in H.
    set (env0 := fold_left apply_ext (si_ext s) (w_env w)) in *.
    set (t := process_all (fun k => alookup k env0) cfg (si_files s)) in *.
    destruct (install_plan vvalid vle (si_allow s) (w_rec w) t) as [| |rec1 todo] eqn:Ep.
    - inversion H; subst. unfold ghost_after. cbn. split; [repeat split; assumption|]. intros; discriminate.
    - inversion H; subst. unfold ghost_after. cbn. split; [repeat split; assumption|]. intros; discriminate.
    - destruct (existsb (fails s) todo).
      { inversion H; subst. unfold ghost_after. cbn. split; [repeat split; assumption|]. intros; discriminate. }
      set (env1 := env_install (si_index s) env0 todo) in *.
      destruct (install_finish (fun k => alookup k env1) (w_rec w) rec1 todo) as [r u] eqn:Ef.
      inversion H; subst w' o. clear H. unfold ghost_after. cbn [so_out so_env_after w_rec] in *.
      assert (Hi : install (si_allow s) (fun k => alookup k env1) (w_rec w) t = ODone todo r u).
      { unfold Install.install. rewrite Ep, Ef. reflexivity. }
      destruct (run_record (fun k => alookup k env0) cfg (si_files s) (si_allow s) (fun k => alookup k env1) (w_rec w) todo r u ND NM Hi)
        as (R1 & R2 & R3).
      pose proof (install_args_iff vvalid vle _ _ _ _ _ _ _ _ (process_all_wf (fun k => alookup k env0) cfg (si_files s)) Hi) as A.
      assert (Huniq : forall p x x', In (p, x) todo -> In (p, x') todo -> x' = x).
      { intros p x x' H1 H2. apply A in H1. apply A in H2. destruct H1 as (e1 & L1 & W1 & _), H2 as (e2 & L2 & W2 & _). congruence. }
      assert (Hfresh : forall a, In a todo -> alookup (fst a) r = ghost_ver env1 a).
      { intros [p [x|]] Hin; unfold ghost_ver; cbn [fst snd]; [exact (R1 p x Hin)|exact (R2 p Hin)]. }
      split; [|intros todo' r' u' E; inversion E; subst; exact Hfresh].
      destruct (install_done vvalid vle _ _ _ _ _ _ _ Hi) as (rec1' & Hp' & Hf').
      split; [|split].
      + apply (finish_NoDup _ _ _ _ _ _ ND (plan_NoDup _ _ _ _ _ ND Hp') Hf').
      + intros k v Hl. destruct (in_dec str_dec k (map fst todo)) as [Hin|Hin].
        * apply in_map_iff in Hin. destruct Hin as ([k' x] & E & Hin). cbn [fst] in E. subst k'.
          pose proof (Hfresh (k, x) Hin) as Hx. cbn [fst] in Hx. rewrite Hl in Hx. unfold ghost_ver in Hx. cbn [fst snd] in Hx.
          destruct x as [x|].
          -- inversion Hx; subst. apply A in Hin. destruct Hin as (e & Hl' & Hw & _).
             exact (process_all_pins _ cfg (si_files s) k e x Hl' (eq_sym Hw)).
          -- symmetry in Hx. apply truthy_some in Hx. exact (CE k v Hx).
        * apply (NM k v). exact (R3 k v Hl Hin).
      + intros k v Hl. destruct (in_dec str_dec k (map fst todo)) as [Hin|Hin].
        * apply in_map_iff in Hin. destruct Hin as ([k' x] & E & Hin). cbn [fst] in E. subst k'.
          rewrite (ghost_in env1 todo g k x); [|intros x' Hx'; exact (Huniq k x x' Hin Hx')|exact Hin].
          rewrite <- (Hfresh (k, x) Hin). exact Hl.
        * rewrite ghost_other by exact Hin. apply RM. exact (R3 k v Hl Hin).
  Qed.

  (* any number of runs, with arbitrary external installs / upgrades / removals in between *)
  Fixpoint run_hist (cfg : deviations) (w : world) (g : alist) (ss : list step_in) : world * alist :=
    match ss with
    | [] => (w, g)
    | s :: r => let '(w', o) := run_step cfg w s in run_hist cfg w' (ghost_after g o) r
    end.
  Fixpoint envs_clean (cfg : deviations) (w : world) (ss : list step_in) : Prop :=
    match ss with
    | [] => True
    | s :: r => let '(w', o) := run_step cfg w s in clean_env (so_env_after o) /\ envs_clean cfg w' r
    end.

  Theorem history_record_matches cfg : forall ss w g,
    rec_ok (w_rec w) g -> envs_clean cfg w ss ->
    let '(w', g') := run_hist cfg w g ss in rec_ok (w_rec w') g'.
  Proof.
    induction ss as [|s r IH]; intros w g OK CE; [exact OK|].
    cbn [run_hist envs_clean] in *. destruct (run_step cfg w s) as [w' o] eqn:E. destruct CE as [C1 C2].
    apply IH; [|exact C2]. exact (proj1 (step_record_matches cfg w g s w' o OK E C1)).
  Qed.
End Runs.

(* ---------- non-vacuity: concrete instances of the hypotheses ---------- *)
Definition ex_ranks : ranks :=
  [([49; 46; 48]%N, 0%N);                 (* "1.0"   *)
   ([49; 46; 48; 46; 48]%N, 0%N);         (* "1.0.0" *)
   ([50; 46; 48]%N, 1%N)].                (* "2.0"   *)
Definition s_foo : str := [102; 111; 111]%N.
Definition l_foo_10 : str := s_foo ++ [61; 61; 49; 46; 48]%N.               (* foo==1.0 *)
Definition l_foo_100 : str := s_foo ++ [61; 61; 49; 46; 48; 46; 48]%N.      (* foo==1.0.0 *)
Definition l_foo_20 : str := s_foo ++ [61; 61; 50; 46; 48]%N.               (* foo==2.0 *)
Definition l_foo_abc : str := s_foo ++ [61; 61; 97; 98; 99]%N.              (* foo==abc *)
Definition l_foo_sp_10 : str := s_foo ++ [32; 61; 61; 32; 49; 46; 48]%N.    (* foo == 1.0 *)
Definition l_comment : str := [35; 32; 120]%N.                              (* # x *)
Definition l_ge : str := s_foo ++ [62; 61; 51]%N.                           (* foo>=3 *)

Example order_instance :
  (forall a b, rk_valid ex_ranks a = true -> rk_valid ex_ranks b = true -> rk_le ex_ranks a b = true \/ rk_le ex_ranks b a = true)
  /\ (forall a b c, rk_valid ex_ranks a = true -> rk_valid ex_ranks b = true -> rk_valid ex_ranks c = true ->
        rk_le ex_ranks a b = true -> rk_le ex_ranks b c = true -> rk_le ex_ranks a c = true)
  /\ rk_valid ex_ranks [] = false /\ rk_valid ex_ranks unpinned_version = false.
Proof. split; [apply rk_total|split; [apply rk_trans|split; reflexivity]]. Qed.

(* the as-is code satisfies [cfg_ok] on lines whose pins all parse; the highest pin wins in every order *)
Example merge_instance :
  let ls := [(0%N, l_foo_10); (0%N, l_comment); (1%N, l_foo_20); (1%N, l_ge); (2%N, s_foo); (2%N, l_foo_100)] in
  cfg_ok (rk_valid ex_ranks) as_is ls
  /\ option_map e_ver (tlookup s_foo (merge_lines (rk_valid ex_ranks) (rk_le ex_ranks) (fun _ => None) as_is ls)) = Some (Some [50; 46; 48]%N)
  /\ option_map e_ver (tlookup s_foo (merge_lines (rk_valid ex_ranks) (rk_le ex_ranks) (fun _ => None) as_is (rev ls))) = Some (Some [50; 46; 48]%N).
Proof.
  cbv zeta. split; [|split; vm_compute; reflexivity].
  intros _ r v Hin Hv. vm_compute in Hin.
  repeat (destruct Hin as [Hin|Hin]; [subst r; cbn in Hv; inversion Hv; subst; vm_compute; reflexivity|]). destruct Hin.
Qed.

(* an own package (recorded 1.0, installed 1.0.0: the same version) is updated to the differing pin 2.0 *)
Example own_instance :
  let env := [(s_foo, [49; 46; 48; 46; 48]%N)] in
  let rec0 := [(s_foo, [49; 46; 48]%N)] in
  exists r, install (rk_valid ex_ranks) (rk_le ex_ranks) true (fun k => alookup k [(s_foo, [50; 46; 48]%N)]) rec0
      (process_all (rk_valid ex_ranks) (rk_le ex_ranks) (fun k => alookup k env) as_is
         [{| f_id := 0; f_dir := []; f_lines := [l_foo_20] |}])
    = ODone [(s_foo, Some [50; 46; 48]%N)] r true /\ alookup s_foo r = Some [50; 46; 48]%N.
Proof. cbv zeta. eexists. vm_compute. split; reflexivity. Qed.

(* ---------- the code as it is does not have the property ---------- *)
(* D24: with an unparsable version the selected version depends on the order of the lines *)
Theorem refuted_D24 :
  exists ls ls', Permutation ls ls' /\
    ~ table_equiv (rk_valid ex_ranks) (rk_le ex_ranks)
        (merge_lines (rk_valid ex_ranks) (rk_le ex_ranks) (fun _ => None) as_is ls)
        (merge_lines (rk_valid ex_ranks) (rk_le ex_ranks) (fun _ => None) as_is ls').
Proof.
  exists [(0%N, l_foo_abc); (0%N, l_foo_10)], [(0%N, l_foo_10); (0%N, l_foo_abc)].
  split; [apply perm_swap|]. intros H. specialize (H s_foo). vm_compute in H. destruct H as (_ & H & _). discriminate.
Qed.

(* ... which the repaired model (validate first) does not do, on the same lines *)
Example D24_repaired :
  table_equiv (rk_valid ex_ranks) (rk_le ex_ranks)
    (merge_lines (rk_valid ex_ranks) (rk_le ex_ranks) (fun _ => None) all_off [(0%N, l_foo_abc); (0%N, l_foo_10)])
    (merge_lines (rk_valid ex_ranks) (rk_le ex_ranks) (fun _ => None) all_off [(0%N, l_foo_10); (0%N, l_foo_abc)]).
Proof. apply merge_perm; [apply rk_total|apply rk_trans|reflexivity|reflexivity|discriminate|apply perm_swap]. Qed.

(* D25: `foo == 1.0` is keyed "foo ": two entries for one package, and a foo installed by something else (0.5, not in
   pyscript's record) is handed to the installer *)
Theorem refuted_D25 :
  let env := [(s_foo, [48; 46; 53]%N)] in
  let t := process_all (rk_valid ex_ranks) (rk_le ex_ranks) (fun k => alookup k env) as_is
             [{| f_id := 0; f_dir := []; f_lines := [l_foo_sp_10; l_foo_20] |}] in
  (exists k1 k2, k1 <> k2 /\ strip k1 = strip k2 /\ In k1 (map fst t) /\ In k2 (map fst t))
  /\ exists todo r u, install (rk_valid ex_ranks) (rk_le ex_ranks) true (fun _ => None) [] t = ODone todo r u
       /\ truthy (alookup s_foo env) = Some [48; 46; 53]%N
       /\ In s_foo (map (fun a => strip (fst a)) todo).
Proof.
  cbv zeta. split.
  - exists (s_foo ++ [32]%N), s_foo. split; [discriminate|]. vm_compute. auto.
  - eexists. eexists. eexists. vm_compute. split; [reflexivity|]. split; [reflexivity|]. left. reflexivity.
Qed.

(* ---------- non-vacuity of the hypotheses of the history theorem ---------- *)
Lemma clean_env_check e : forallb (fun kv => negb (str_eqb (snd kv) unpinned_version)) e = true -> clean_env e.
Proof.
  intros H k v Hl. rewrite forallb_forall in H. specialize (H (k, v) (alookup_In _ _ _ Hl)). cbn [snd] in H.
  destruct (str_eqb v unpinned_version); [discriminate|reflexivity].
Qed.

Section RunsCheck.
  Variable vvalid : str -> bool.
  Variable vle : str -> str -> bool.
  Fixpoint envs_clean_b (cfg : deviations) (w : world) (ss : list step_in) : bool :=
    match ss with
    | [] => true
    | s :: r => let '(w', o) := run_step vvalid vle cfg w s in
                forallb (fun kv => negb (str_eqb (snd kv) unpinned_version)) (so_env_after o) && envs_clean_b cfg w' r
    end.
  Lemma envs_clean_b_ok cfg : forall ss w, envs_clean_b cfg w ss = true -> envs_clean vvalid vle cfg w ss.
  Proof.
    induction ss as [|s r IH]; intros w H; [exact I|]. cbn [envs_clean_b envs_clean] in *.
    destruct (run_step vvalid vle cfg w s) as [w' o]. apply andb_true_iff in H. destruct H as [H1 H2].
    split; [apply clean_env_check; exact H1|apply IH; exact H2].
  Qed.
End RunsCheck.

Definition s_bar : str := [98; 97; 114]%N.
(* run 1 installs bar==2.0 (foo is installed by the host and only required unpinned: untouched) and records it;
   then something else downgrades bar; run 2 notices, leaves bar alone and stops tracking it *)
Example history_instance :
  let w0 := {| w_env := [(s_foo, [49; 46; 48]%N)]; w_rec := [] |} in
  let files := [{| f_id := 0; f_dir := []; f_lines := [s_bar ++ [61; 61; 50; 46; 48]%N; s_foo] |}] in
  let steps := [{| si_ext := []; si_allow := true; si_files := files; si_index := []; si_fail := [] |};
                {| si_ext := [(s_bar, Some [49; 46; 48]%N)]; si_allow := true; si_files := files; si_index := []; si_fail := [] |}] in
  rec_ok (w_rec w0) [] /\ envs_clean (rk_valid ex_ranks) (rk_le ex_ranks) as_is w0 steps
  /\ map (fun o => (so_out o, so_rec o)) (run_steps (rk_valid ex_ranks) (rk_le ex_ranks) as_is w0 steps)
     = [(ODone [(s_bar, Some [50; 46; 48]%N)] [(s_bar, [50; 46; 48]%N)] true, [(s_bar, [50; 46; 48]%N)]);
        (ODone [] [] true, [])].
Proof.
  cbv zeta. split; [|split].
  - split; [constructor|]. split; intros k v H; discriminate.
  - apply envs_clean_b_ok. vm_compute. reflexivity.
  - vm_compute. reflexivity.
Qed.
