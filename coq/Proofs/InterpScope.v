(* Proofs/InterpScope.v — C03 core 2: with the listed deviations repaired, pyscript's static analysis of a function body
   (get_names_set / get_target_names as used by resolve_nonlocals) classifies every name exactly as CPython's symbol
   table does, for every body built from the binder forms both implement, at any nesting depth. *)
From Coq Require Import String.
From PV Require Import Common.Util Interp.Scope.
From Coq Require Import Lia.

(* ---------- induction over the rose tree ---------- *)
Fixpoint node_ind' (P : node -> Prop)
    (H : forall t strs kids, Forall (fun k => P (snd k)) kids -> P (Node t strs kids)) (n : node) : P n :=
  match n with
  | Node t strs kids =>
      H t strs kids
        ((fix go (l : list (fld * node)) : Forall (fun k => P (snd k)) l :=
            match l with
            | [] => Forall_nil _
            | k :: r => Forall_cons k (node_ind' P H (snd k)) (go r)
            end) kids)
  end.

Definition set_eq (a b : list ident) : Prop := forall x, In x a <-> In x b.

Lemma smem_In x l : smem x l = true <-> In x l.
Proof.
  unfold smem. rewrite existsb_exists. split.
  - intros (y & Hy & E). apply String.eqb_eq in E. subst. assumption.
  - intros H. exists x. split; [assumption|apply String.eqb_refl].
Qed.

Lemma smem_set_eq a b x : set_eq a b -> smem x a = smem x b.
Proof.
  intros H. destruct (smem x a) eqn:Ea; destruct (smem x b) eqn:Eb; try reflexivity.
  - apply smem_In, H, smem_In in Ea. congruence.
  - apply smem_In, H, smem_In in Eb. congruence.
Qed.

Lemma flat_map_nil {A B} (l : list A) : flat_map (fun _ => @nil B) l = [].
Proof. induction l; cbn; auto. Qed.

Lemma flat_map_ext_in {A B} (f g : A -> list B) l : (forall x, In x l -> f x = g x) -> flat_map f l = flat_map g l.
Proof.
  induction l as [|x r IH]; cbn; intros H; [reflexivity|].
  rewrite (H x) by (left; reflexivity). rewrite IH by (intros y Hy; apply H; right; assumption). reflexivity.
Qed.

(* ---------- projections of the combined scan ---------- *)
Lemma st_local_concat l : st_local (sets_concat l) = flat_map st_local l.
Proof. unfold sets_concat. induction l as [|s r IH]; cbn [fold_right flat_map]; [reflexivity|]. rewrite <- IH. reflexivity. Qed.
Lemma st_global_concat l : st_global (sets_concat l) = flat_map st_global l.
Proof. unfold sets_concat. induction l as [|s r IH]; cbn [fold_right flat_map]; [reflexivity|]. rewrite <- IH. reflexivity. Qed.
Lemma st_nonlocal_concat l : st_nonlocal (sets_concat l) = flat_map st_nonlocal l.
Proof. unfold sets_concat. induction l as [|s r IH]; cbn [fold_right flat_map]; [reflexivity|]. rewrite <- IH. reflexivity. Qed.

Lemma flat_map_map {A B C} (f : A -> B) (g : B -> list C) l : flat_map g (map f l) = flat_map (fun x => g (f x)) l.
Proof. induction l as [|x r IH]; cbn; [reflexivity|]. rewrite IH. reflexivity. Qed.

(* which children the repaired scan visits *)
Definition ps_rec (t : tag) (f : fld) : bool :=
  match t with
  | TgName | TgGlobal | TgNonlocal => false
  | TgDef => fld_eqb f FDeco || fld_eqb f FOuter
  | TgLambda => negb (fld_eqb f FBody)
  | _ => true
  end.

(* what the repaired scan adds to local_names at a node *)
Definition ps_extra (t : tag) (strs : list ident) (kids : list (fld * node)) : list ident :=
  match t with
  | TgAssign => flat_map ps_target_names (kids_in FTargets kids)
  | TgAugAssign | TgFor | TgNamedExpr | TgAnnAssign => flat_map ps_target_names (kids_in FTarget kids)
  | TgWith => flat_map (fun k => match snd k with
                                 | Node TgWithItem _ ikids => flat_map ps_target_names (kids_in FOptVars ikids)
                                 | _ => []
                                 end) kids
  | TgTry => flat_map (fun k => match snd k with Node TgHandler hs _ => hs | _ => [] end) kids
  | TgDef => strs
  | TgDelete => flat_map (fun k => if fld_eqb (fst k) FTargets then
                                     match snd k with Node TgName ns _ => ns | _ => [] end else []) kids
  | TgImport => flat_map (fun k => match snd k with Node TgAlias ns _ => ns | _ => [] end) kids
  | _ => []
  end.

Section Shape.
Variable cfg : sdeviations.
Hypothesis Hoff : s_all_off cfg.

Lemma rec_in_local (p : fld -> bool) kids :
  st_local (sets_concat (map (fun k => if p (fst k) then ps_scan cfg (snd k) else sets_empty) kids))
  = flat_map (fun k => if p (fst k) then st_local (ps_scan cfg (snd k)) else []) kids.
Proof.
  rewrite st_local_concat, flat_map_map. apply flat_map_ext_in. intros k _. destruct (p (fst k)); reflexivity.
Qed.
Lemma rec_in_global (p : fld -> bool) kids :
  st_global (sets_concat (map (fun k => if p (fst k) then ps_scan cfg (snd k) else sets_empty) kids))
  = flat_map (fun k => if p (fst k) then st_global (ps_scan cfg (snd k)) else []) kids.
Proof.
  rewrite st_global_concat, flat_map_map. apply flat_map_ext_in. intros k _. destruct (p (fst k)); reflexivity.
Qed.
Lemma rec_in_nonlocal (p : fld -> bool) kids :
  st_nonlocal (sets_concat (map (fun k => if p (fst k) then ps_scan cfg (snd k) else sets_empty) kids))
  = flat_map (fun k => if p (fst k) then st_nonlocal (ps_scan cfg (snd k)) else []) kids.
Proof.
  rewrite st_nonlocal_concat, flat_map_map. apply flat_map_ext_in. intros k _. destruct (p (fst k)); reflexivity.
Qed.

Lemma rec_all_local (kids : list (fld * node)) :
  st_local (sets_concat (map (fun k => ps_scan cfg (snd k)) kids)) = flat_map (fun k => st_local (ps_scan cfg (snd k))) kids.
Proof. rewrite st_local_concat, flat_map_map. reflexivity. Qed.
Lemma rec_all_global (kids : list (fld * node)) :
  st_global (sets_concat (map (fun k => ps_scan cfg (snd k)) kids)) = flat_map (fun k => st_global (ps_scan cfg (snd k))) kids.
Proof. rewrite st_global_concat, flat_map_map. reflexivity. Qed.
Lemma rec_all_nonlocal (kids : list (fld * node)) :
  st_nonlocal (sets_concat (map (fun k => ps_scan cfg (snd k)) kids)) = flat_map (fun k => st_nonlocal (ps_scan cfg (snd k))) kids.
Proof. rewrite st_nonlocal_concat, flat_map_map. reflexivity. Qed.

Lemma ps_scan_local t strs kids :
  st_local (ps_scan cfg (Node t strs kids)) =
  ps_extra t strs kids ++ flat_map (fun k => if ps_rec t (fst k) then st_local (ps_scan cfg (snd k)) else []) kids.
Proof.
  destruct Hoff as (H12 & H31 & H32 & H33 & H34).
  destruct t; cbn [ps_scan ps_extra ps_rec]; rewrite ?H12, ?H31, ?H32, ?H33, ?H34;
    cbn [sets_app sets_locals st_local sets_empty negb andb app]; rewrite ?rec_in_local, ?rec_all_local, ?flat_map_nil, ?app_nil_r;
    try reflexivity.
  - apply f_equal. exact (rec_in_local (fun f => fld_eqb f FDeco || fld_eqb f FOuter) kids).
  - exact (rec_in_local (fun f => negb (fld_eqb f FBody)) kids).
Qed.

Lemma ps_scan_global t strs kids :
  st_global (ps_scan cfg (Node t strs kids)) =
  (if tag_eqb t TgGlobal then strs else [])
  ++ flat_map (fun k => if ps_rec t (fst k) then st_global (ps_scan cfg (snd k)) else []) kids.
Proof.
  destruct Hoff as (H12 & H31 & H32 & H33 & H34).
  destruct t; cbn [ps_scan ps_rec tag_eqb]; rewrite ?H12, ?H31, ?H32, ?H33, ?H34;
    cbn [sets_app sets_locals st_global sets_empty negb andb app]; rewrite ?rec_in_global, ?rec_all_global, ?flat_map_nil, ?app_nil_r;
    try reflexivity.
  - exact (rec_in_global (fun f => fld_eqb f FDeco || fld_eqb f FOuter) kids).
  - exact (rec_in_global (fun f => negb (fld_eqb f FBody)) kids).
Qed.

Lemma ps_scan_nonlocal t strs kids :
  st_nonlocal (ps_scan cfg (Node t strs kids)) =
  (if tag_eqb t TgNonlocal then strs else [])
  ++ flat_map (fun k => if ps_rec t (fst k) then st_nonlocal (ps_scan cfg (snd k)) else []) kids.
Proof.
  destruct Hoff as (H12 & H31 & H32 & H33 & H34).
  destruct t; cbn [ps_scan ps_rec tag_eqb]; rewrite ?H12, ?H31, ?H32, ?H33, ?H34;
    cbn [sets_app sets_locals st_nonlocal sets_empty negb andb app]; rewrite ?rec_in_nonlocal, ?rec_all_nonlocal, ?flat_map_nil, ?app_nil_r;
    try reflexivity.
  - exact (rec_in_nonlocal (fun f => fld_eqb f FDeco || fld_eqb f FOuter) kids).
  - exact (rec_in_nonlocal (fun f => negb (fld_eqb f FBody)) kids).
Qed.
End Shape.

(* ---------- targets ---------- *)
Lemma target_names_equiv : forall n, target_ok n = true -> ps_target_names n = py_target_names n.
Proof.
  induction n as [t strs kids IH] using node_ind'. intros Hok.
  destruct t; try reflexivity; try discriminate.
  (* TgTuple *)
  cbn [ps_target_names py_target_names]. cbn [target_ok] in Hok. rewrite forallb_forall in Hok. rewrite Forall_forall in IH.
  apply flat_map_ext_in. intros k Hk. specialize (Hok k Hk). specialize (IH k Hk).
  destruct (snd k) as [kt kstrs skids] eqn:Ek.
  destruct kt; try (apply IH; exact Hok).
  (* a starred element *)
  cbn [py_target_names]. rewrite forallb_forall in Hok.
  apply flat_map_ext_in. intros sk Hsk. specialize (Hok sk Hsk).
  destruct (snd sk) as [st sstrs sskids]. destruct st; try discriminate. reflexivity.
Qed.

Lemma delete_target_equiv n :
  target_ok n = true -> tag_eqb (node_tag n) TgTuple = false ->
  match n with Node TgName ns _ => ns | _ => [] end = py_target_names n.
Proof. destruct n as [t strs kids]. destruct t; cbn; intros; try reflexivity; discriminate. Qed.

(* ---------- names bound by a helper node on behalf of its parent statement ---------- *)
Definition own (n : node) : list ident :=
  match n with
  | Node TgHandler s _ | Node TgAlias s _ => s
  | Node TgWithItem _ kids => flat_map ps_target_names (kids_in FOptVars kids)
  | _ => []
  end.

Lemma own_nil t kid :
  parent_ok t (node_tag kid) = true ->
  tag_eqb t TgTry = false -> tag_eqb t TgImport = false -> tag_eqb t TgWith = false -> own kid = [].
Proof. destruct kid as [kt ks kk]. destruct kt; cbn; intros; try reflexivity; congruence. Qed.

Lemma wf_kid t strs kids k : wf_node (Node t strs kids) = true -> In k kids ->
  parent_ok t (node_tag (snd k)) = true /\ wf_node (snd k) = true.
Proof.
  cbn [wf_node]. rewrite andb_true_iff, forallb_forall. intros [H _] Hk. specialize (H k Hk).
  apply andb_true_iff in H. exact H.
Qed.

Lemma sup_kid t strs kids k : supported (Node t strs kids) = true -> In k kids ->
  supported (snd k) = true /\
  (py_target_field t (fst k) = true ->
   target_ok (snd k) = true /\ (tag_eqb t TgDelete = true -> tag_eqb (node_tag (snd k)) TgTuple = false)).
Proof.
  cbn [supported]. rewrite andb_true_iff, forallb_forall. intros [_ H] Hk. specialize (H k Hk).
  apply andb_true_iff in H as [H1 H2]. split; [assumption|]. intros Htf. rewrite Htf in H1.
  apply andb_true_iff in H1 as [H3 H4]. split; [assumption|]. intros Hd. rewrite Hd in H4.
  apply negb_true_iff in H4. exact H4.
Qed.

Lemma ps_rec_block t strs kids k : wf_node (Node t strs kids) = true -> In k kids ->
  ps_rec t (fst k) = negb (py_new_block t (fst k)).
Proof.
  cbn [wf_node]. rewrite andb_true_iff. intros [_ H] Hk.
  destruct t; try (destruct kids; [destruct Hk|discriminate]);
    try (destruct (fst k); reflexivity).
  (* TgDef *)
  rewrite forallb_forall in H. specialize (H k Hk). destruct (fst k); cbn in *; try reflexivity; discriminate.
Qed.

Lemma kids_in_In f (kids : list (fld * node)) n :
  In n (kids_in f kids) <-> exists k, In k kids /\ fst k = f /\ snd k = n.
Proof.
  unfold kids_in. rewrite in_map_iff. split.
  - intros (k & E & Hk). apply filter_In in Hk as [Hk Hf]. exists k. repeat split; try assumption.
    destruct (fst k), f; cbn in Hf; try discriminate; reflexivity.
  - intros (k & Hk & Ef & En). exists k. split; [assumption|]. apply filter_In. split; [assumption|].
    rewrite Ef. destruct f; reflexivity.
Qed.

(* ---------- what a node adds by itself: pyscript's elif chain against the symbol-table tables ---------- *)
Definition py_adds (t : tag) (strs : list ident) (kids : list (fld * node)) (x : ident) : Prop :=
  (py_binds_strs t = true /\ In x strs) \/
  exists k, In k kids /\
    ((py_target_field t (fst k) = true /\ In x (py_target_names (snd k))) \/
     (py_new_block t (fst k) = false /\ In x (own (snd k)))).

Definition plain_parent (t : tag) : Prop :=
  tag_eqb t TgTry = false /\ tag_eqb t TgImport = false /\ tag_eqb t TgWith = false.

Lemma own_kids_nil t strs kids : wf_node (Node t strs kids) = true -> plain_parent t ->
  forall k, In k kids -> own (snd k) = [].
Proof.
  intros Hwf (H1 & H2 & H3) k Hk. destruct (wf_kid _ _ _ _ Hwf Hk) as [Hp _]. apply (own_nil t); assumption.
Qed.

Lemma fld_eqb_eq a b : fld_eqb a b = true <-> a = b.
Proof. destruct a, b; cbn; split; intros; try reflexivity; try discriminate; try congruence. Qed.

(* nodes that add nothing *)
Lemma adds_generic t strs kids x :
  wf_node (Node t strs kids) = true -> plain_parent t ->
  py_binds_strs t = false -> (forall f, py_target_field t f = false) ->
  ps_extra t strs kids = [] -> own (Node t strs kids) = [] ->
  (In x (ps_extra t strs kids) \/ In x (own (Node t strs kids))) <-> py_adds t strs kids x.
Proof.
  intros Hwf Hp Hb Htf He Ho. rewrite He, Ho. unfold py_adds. rewrite Hb. split.
  - intros [[]|[]].
  - intros [[H _]|(k & Hk & [[H _]|[_ H]])]; try discriminate.
    + rewrite Htf in H. discriminate.
    + rewrite (own_kids_nil _ _ _ Hwf Hp k Hk) in H. destruct H.
Qed.

(* statements whose field F holds the targets *)
Lemma adds_field (F : fld) t strs kids x :
  wf_node (Node t strs kids) = true -> supported (Node t strs kids) = true -> plain_parent t ->
  py_binds_strs t = false -> (forall f, py_target_field t f = fld_eqb f F) ->
  ps_extra t strs kids = flat_map ps_target_names (kids_in F kids) -> own (Node t strs kids) = [] ->
  (In x (ps_extra t strs kids) \/ In x (own (Node t strs kids))) <-> py_adds t strs kids x.
Proof.
  intros Hwf Hsup Hp Hb Htf He Ho. rewrite He, Ho. unfold py_adds. rewrite Hb. split.
  - intros [H|[]]. apply in_flat_map in H as (n & Hn & Hx). apply kids_in_In in Hn as (k & Hk & Ef & En). subst n.
    right. exists k. split; [assumption|]. left.
    assert (T : py_target_field t (fst k) = true) by (rewrite Htf, Ef; apply fld_eqb_eq; reflexivity).
    split; [assumption|]. destruct (sup_kid _ _ _ _ Hsup Hk) as [_ S]. destruct (S T) as [Tok _].
    rewrite <- target_names_equiv by assumption. assumption.
  - intros [[H _]|(k & Hk & [[T H]|[_ H]])]; try discriminate.
    + left. apply in_flat_map. exists (snd k). split.
      * apply kids_in_In. exists k. repeat split; try assumption. rewrite Htf in T. apply fld_eqb_eq in T. assumption.
      * destruct (sup_kid _ _ _ _ Hsup Hk) as [_ S]. destruct (S T) as [Tok _].
        rewrite target_names_equiv by assumption. assumption.
    + rewrite (own_kids_nil _ _ _ Hwf Hp k Hk) in H. destruct H.
Qed.

(* statements that collect names from their helper children (withitem, handler, alias) *)
Lemma adds_helpers t strs kids x (per : node -> list ident) :
  wf_node (Node t strs kids) = true ->
  py_binds_strs t = false -> (forall f, py_target_field t f = false) -> (forall f, py_new_block t f = false) ->
  ps_extra t strs kids = flat_map (fun k => per (snd k)) kids -> own (Node t strs kids) = [] ->
  (forall kid, parent_ok t (node_tag kid) = true -> per kid = own kid) ->
  (In x (ps_extra t strs kids) \/ In x (own (Node t strs kids))) <-> py_adds t strs kids x.
Proof.
  intros Hwf Hb Htf Hnb He Ho Hper. rewrite He, Ho. unfold py_adds. rewrite Hb. split.
  - intros [H|[]]. apply in_flat_map in H as (k & Hk & Hx). right. exists k. split; [assumption|]. right.
    split; [apply Hnb|]. destruct (wf_kid _ _ _ _ Hwf Hk) as [Hp _]. rewrite <- Hper by assumption. assumption.
  - intros [[H _]|(k & Hk & [[T _]|[_ H]])]; try discriminate.
    + rewrite Htf in T. discriminate.
    + left. apply in_flat_map. exists k. split; [assumption|].
      destruct (wf_kid _ _ _ _ Hwf Hk) as [Hp _]. rewrite Hper by assumption. assumption.
Qed.

Lemma extras_equiv t strs kids x :
  wf_node (Node t strs kids) = true -> supported (Node t strs kids) = true ->
  (In x (ps_extra t strs kids) \/ In x (own (Node t strs kids))) <-> py_adds t strs kids x.
Proof.
  intros Hwf Hsup.
  assert (PP : forall t', tag_eqb t' TgTry = false -> tag_eqb t' TgImport = false -> tag_eqb t' TgWith = false -> plain_parent t')
    by (intros; repeat split; assumption).
  destruct t.
  - (* TgName *) apply adds_generic; try assumption; try reflexivity; try (apply PP; reflexivity); try (intros f; reflexivity).
  - (* TgTuple *) apply adds_generic; try assumption; try reflexivity; try (apply PP; reflexivity); try (intros f; reflexivity).
  - (* TgList *) apply adds_generic; try assumption; try reflexivity; try (apply PP; reflexivity); try (intros f; reflexivity).
  - (* TgStarred *) apply adds_generic; try assumption; try reflexivity; try (apply PP; reflexivity); try (intros f; reflexivity).
  - (* TgAssign *) apply (adds_field FTargets); try assumption; try reflexivity; try (apply PP; reflexivity); try (intros f; destruct f; reflexivity).
  - (* TgAugAssign *) apply (adds_field FTarget); try assumption; try reflexivity; try (apply PP; reflexivity); try (intros f; destruct f; reflexivity).
  - (* TgAnnAssign *) apply (adds_field FTarget); try assumption; try reflexivity; try (apply PP; reflexivity); try (intros f; destruct f; reflexivity).
  - (* TgFor *) apply (adds_field FTarget); try assumption; try reflexivity; try (apply PP; reflexivity); try (intros f; destruct f; reflexivity).
  - (* TgNamedExpr *) apply (adds_field FTarget); try assumption; try reflexivity; try (apply PP; reflexivity); try (intros f; destruct f; reflexivity).
  - (* TgWith *)
    apply (adds_helpers _ _ _ _ (fun kid => match kid with
                                          | Node TgWithItem _ ikids => flat_map ps_target_names (kids_in FOptVars ikids)
                                          | _ => [] end)); try assumption; try reflexivity;
      try (intros f; destruct f; reflexivity).
    intros [kt ks kk] Hp. destruct kt; try reflexivity; discriminate.
  - (* TgWithItem *)
    unfold py_adds. cbn [ps_extra own py_binds_strs]. split.
    + intros [[]|H]. apply in_flat_map in H as (n & Hn & Hx). apply kids_in_In in Hn as (k & Hk & Ef & En). subst n.
      right. exists k. split; [assumption|]. left. assert (T : py_target_field TgWithItem (fst k) = true) by (rewrite Ef; reflexivity).
      split; [assumption|]. destruct (sup_kid _ _ _ _ Hsup Hk) as [_ S]. destruct (S T) as [Tok _].
      rewrite <- target_names_equiv by assumption. assumption.
    + intros [[H _]|(k & Hk & [[T H]|[_ H]])]; try discriminate.
      * right. apply in_flat_map. exists (snd k). split.
        -- apply kids_in_In. exists k. repeat split; try assumption. destruct (fst k); try discriminate; reflexivity.
        -- destruct (sup_kid _ _ _ _ Hsup Hk) as [_ S]. destruct (S T) as [Tok _].
           rewrite target_names_equiv by assumption. assumption.
      * rewrite (own_kids_nil _ _ _ Hwf (PP TgWithItem eq_refl eq_refl eq_refl) k Hk) in H. destruct H.
  - (* TgTry *)
    apply (adds_helpers _ _ _ _ (fun kid => match kid with Node TgHandler hs _ => hs | _ => [] end));
      try assumption; try reflexivity; try (intros f; destruct f; reflexivity).
    intros [kt ks kk] Hp. destruct kt; try reflexivity; discriminate.
  - (* TgHandler *)
    unfold py_adds. cbn [ps_extra own py_binds_strs]. split.
    + intros [[]|H]. left. split; [reflexivity|assumption].
    + intros [[_ H]|(k & Hk & [[T _]|[_ H]])]; [right; assumption|discriminate|].
      rewrite (own_kids_nil _ _ _ Hwf (PP TgHandler eq_refl eq_refl eq_refl) k Hk) in H. destruct H.
  - (* TgDelete *)
    unfold py_adds. cbn [ps_extra own py_binds_strs]. split.
    + intros [H|[]]. apply in_flat_map in H as (k & Hk & Hx). destruct (fld_eqb (fst k) FTargets) eqn:Ef; [|destruct Hx].
      right. exists k. split; [assumption|]. left.
      assert (T : py_target_field TgDelete (fst k) = true) by (apply fld_eqb_eq in Ef; rewrite Ef; reflexivity).
      split; [assumption|]. destruct (sup_kid _ _ _ _ Hsup Hk) as [_ S]. destruct (S T) as [Tok Ttup].
      rewrite <- delete_target_equiv by (try assumption; apply Ttup; reflexivity). assumption.
    + intros [[H _]|(k & Hk & [[T H]|[_ H]])]; try discriminate.
      * left. apply in_flat_map. exists k. split; [assumption|].
        assert (Ef : fld_eqb (fst k) FTargets = true) by (destruct (fst k); try discriminate; reflexivity).
        rewrite Ef. destruct (sup_kid _ _ _ _ Hsup Hk) as [_ S]. destruct (S T) as [Tok Ttup].
        rewrite delete_target_equiv by (try assumption; apply Ttup; reflexivity). assumption.
      * rewrite (own_kids_nil _ _ _ Hwf (PP TgDelete eq_refl eq_refl eq_refl) k Hk) in H. destruct H.
  - (* TgImport *)
    apply (adds_helpers _ _ _ _ (fun kid => match kid with Node TgAlias ns _ => ns | _ => [] end));
      try assumption; try reflexivity; try (intros f; destruct f; reflexivity).
    intros [kt ks kk] Hp. destruct kt; try reflexivity; discriminate.
  - (* TgAlias *)
    unfold py_adds. cbn [ps_extra own py_binds_strs]. split.
    + intros [[]|H]. left. split; [reflexivity|assumption].
    + intros [[_ H]|(k & Hk & [[T _]|[_ H]])]; [right; assumption|discriminate|].
      rewrite (own_kids_nil _ _ _ Hwf (PP TgAlias eq_refl eq_refl eq_refl) k Hk) in H. destruct H.
  - (* TgDef *)
    unfold py_adds. cbn [ps_extra own py_binds_strs]. split.
    + intros [H|[]]. left. split; [reflexivity|assumption].
    + intros [[_ H]|(k & Hk & [[T _]|[_ H]])]; [left; assumption|destruct (fst k); discriminate|].
      rewrite (own_kids_nil _ _ _ Hwf (PP TgDef eq_refl eq_refl eq_refl) k Hk) in H. destruct H.
  - (* TgLambda *) apply adds_generic; try assumption; try reflexivity; try (apply PP; reflexivity); try (intros f; reflexivity).
  - (* TgComp *) apply adds_generic; try assumption; try reflexivity; try (apply PP; reflexivity); try (intros f; reflexivity).
  - (* TgGenExp *) apply adds_generic; try assumption; try reflexivity; try (apply PP; reflexivity); try (intros f; reflexivity).
  - (* TgComprehension *) apply adds_generic; try assumption; try reflexivity; try (apply PP; reflexivity); try (intros f; reflexivity).
  - (* TgCall *) apply adds_generic; try assumption; try reflexivity; try (apply PP; reflexivity); try (intros f; reflexivity).
  - (* TgGlobal *) apply adds_generic; try assumption; try reflexivity; try (apply PP; reflexivity); try (intros f; reflexivity).
  - (* TgNonlocal *) apply adds_generic; try assumption; try reflexivity; try (apply PP; reflexivity); try (intros f; reflexivity).
  - (* TgUnsupported *) apply adds_generic; try assumption; try reflexivity; try (apply PP; reflexivity); try (intros f; reflexivity).
  - (* TgOther *) apply adds_generic; try assumption; try reflexivity; try (apply PP; reflexivity); try (intros f; reflexivity).
Qed.

(* ---------- the three sets ---------- *)
Lemma local_equiv cfg : s_all_off cfg -> forall n, wf_node n = true -> supported n = true ->
  set_eq (st_local (ps_scan cfg n) ++ own n) (py_bound n).
Proof.
  intros Hoff. induction n as [t strs kids IH] using node_ind'. intros Hwf Hsup x.
  rewrite (ps_scan_local cfg Hoff). cbn [py_bound]. rewrite Forall_forall in IH.
  pose proof (extras_equiv t strs kids x Hwf Hsup) as E. unfold py_adds in E.
  assert (KID : forall k, In k kids -> wf_node (snd k) = true /\ supported (snd k) = true).
  { intros k Hk. split; [apply (wf_kid _ _ _ _ Hwf Hk)|apply (sup_kid _ _ _ _ Hsup Hk)]. }
  assert (FromAdds :
    ((py_binds_strs t = true /\ In x strs) \/
     exists k, In k kids /\ ((py_target_field t (fst k) = true /\ In x (py_target_names (snd k))) \/
                             (py_new_block t (fst k) = false /\ In x (own (snd k))))) ->
    In x ((if py_binds_strs t then strs else []) ++
          flat_map (fun k => (if py_target_field t (fst k) then py_target_names (snd k) else []) ++
                             (if py_new_block t (fst k) then [] else py_bound (snd k))) kids)).
  { intros [[B Hx]|(k & Hk & [[T Hx]|[Nb Hx]])].
    - apply in_or_app. left. rewrite B. assumption.
    - apply in_or_app. right. apply in_flat_map. exists k. split; [assumption|]. apply in_or_app. left. rewrite T. assumption.
    - apply in_or_app. right. apply in_flat_map. exists k. split; [assumption|]. apply in_or_app. right. rewrite Nb.
      destruct (KID k Hk) as [W S]. apply (IH k Hk W S). apply in_or_app. right. assumption. }
  split.
  - intros H. apply in_app_or in H as [H|H]; [apply in_app_or in H as [H|H]|].
    + apply FromAdds. apply E. left. assumption.
    + apply in_flat_map in H as (k & Hk & Hx). destruct (ps_rec t (fst k)) eqn:R; [|destruct Hx].
      rewrite (ps_rec_block _ _ _ _ Hwf Hk) in R. apply negb_true_iff in R.
      apply in_or_app. right. apply in_flat_map. exists k. split; [assumption|]. apply in_or_app. right. rewrite R.
      destruct (KID k Hk) as [W S]. apply (IH k Hk W S). apply in_or_app. left. assumption.
    + apply FromAdds. apply E. right. assumption.
  - intros H. apply in_app_or in H as [H|H].
    + destruct (py_binds_strs t) eqn:B; [|destruct H].
      destruct (proj2 E (or_introl (conj eq_refl H))) as [X|X].
      * apply in_or_app. left. apply in_or_app. left. assumption.
      * apply in_or_app. right. assumption.
    + apply in_flat_map in H as (k & Hk & Hx). apply in_app_or in Hx as [Hx|Hx].
      * destruct (py_target_field t (fst k)) eqn:T; [|destruct Hx].
        destruct (proj2 E (or_intror (ex_intro _ k (conj Hk (or_introl (conj T Hx)))))) as [X|X].
        -- apply in_or_app. left. apply in_or_app. left. assumption.
        -- apply in_or_app. right. assumption.
      * destruct (py_new_block t (fst k)) eqn:Nb; [destruct Hx|].
        destruct (KID k Hk) as [W S]. apply (IH k Hk W S) in Hx. apply in_app_or in Hx as [Hx|Hx].
        -- apply in_or_app. left. apply in_or_app. right. apply in_flat_map. exists k. split; [assumption|].
           rewrite (ps_rec_block _ _ _ _ Hwf Hk), Nb. assumption.
        -- destruct (proj2 E (or_intror (ex_intro _ k (conj Hk (or_intror (conj Nb Hx)))))) as [X|X].
           ++ apply in_or_app. left. apply in_or_app. left. assumption.
           ++ apply in_or_app. right. assumption.
Qed.

Lemma global_equiv cfg : s_all_off cfg -> forall n, wf_node n = true -> st_global (ps_scan cfg n) = py_decl TgGlobal n.
Proof.
  intros Hoff. induction n as [t strs kids IH] using node_ind'. intros Hwf.
  rewrite (ps_scan_global cfg Hoff). cbn [py_decl]. f_equal. rewrite Forall_forall in IH.
  apply flat_map_ext_in. intros k Hk. rewrite (ps_rec_block _ _ _ _ Hwf Hk).
  destruct (py_new_block t (fst k)); [reflexivity|]. apply (IH k Hk). apply (wf_kid _ _ _ _ Hwf Hk).
Qed.

Lemma nonlocal_equiv cfg : s_all_off cfg -> forall n, wf_node n = true -> st_nonlocal (ps_scan cfg n) = py_decl TgNonlocal n.
Proof.
  intros Hoff. induction n as [t strs kids IH] using node_ind'. intros Hwf.
  rewrite (ps_scan_nonlocal cfg Hoff). cbn [py_decl]. f_equal. rewrite Forall_forall in IH.
  apply flat_map_ext_in. intros k Hk. rewrite (ps_rec_block _ _ _ _ Hwf Hk).
  destruct (py_new_block t (fst k)); [reflexivity|]. apply (IH k Hk). apply (wf_kid _ _ _ _ Hwf Hk).
Qed.

Lemma own_top n : wf_top n = true -> own n = [].
Proof.
  unfold wf_top. rewrite andb_true_iff. intros [H _]. destruct n as [t s k]. destruct t; try reflexivity; discriminate.
Qed.

(* ---------- the theorem: every name of every supported body is classified as Python classifies it ---------- *)
Theorem locals_equiv cfg params body x :
  s_all_off cfg -> forallb wf_top body = true -> forallb supported body = true ->
  ps_is_local cfg params body x = py_is_local params body x.
Proof.
  intros Hoff Hwf Hsup. unfold ps_is_local, py_is_local, ps_scan_body.
  rewrite forallb_forall in Hwf, Hsup.
  assert (L : set_eq (st_local (sets_concat (map (ps_scan cfg) body))) (flat_map py_bound body)).
  { rewrite st_local_concat, flat_map_map. intros y. rewrite !in_flat_map. split; intros (n & Hn & Hy); exists n; (split; [assumption|]).
    - pose proof (Hwf n Hn) as W. apply (local_equiv cfg Hoff n); [unfold wf_top in W; apply andb_true_iff in W; apply W|apply Hsup; assumption|].
      apply in_or_app. left. assumption.
    - pose proof (Hwf n Hn) as W. apply (local_equiv cfg Hoff n) in Hy; [|unfold wf_top in W; apply andb_true_iff in W; apply W|apply Hsup; assumption].
      rewrite (own_top n W), app_nil_r in Hy. assumption. }
  assert (G : st_global (sets_concat (map (ps_scan cfg) body)) = flat_map (py_decl TgGlobal) body).
  { rewrite st_global_concat, flat_map_map. apply flat_map_ext_in. intros n Hn. apply global_equiv; [assumption|].
    pose proof (Hwf n Hn) as W. unfold wf_top in W. apply andb_true_iff in W. apply W. }
  assert (N : st_nonlocal (sets_concat (map (ps_scan cfg) body)) = flat_map (py_decl TgNonlocal) body).
  { rewrite st_nonlocal_concat, flat_map_map. apply flat_map_ext_in. intros n Hn. apply nonlocal_equiv; [assumption|].
    pose proof (Hwf n Hn) as W. unfold wf_top in W. apply andb_true_iff in W. apply W. }
  rewrite G, N, (smem_set_eq _ _ x L). reflexivity.
Qed.

(* ---------- the statement is false of today's code: one witness per switch (each replayed on the real code) ---------- *)
Local Open Scope string_scope.
Definition nm (x : ident) : node := Node TgName [x] [].
Definition cst : node := Node TgOther [] [].
Definition sw (a b c d e : bool) : sdeviations :=
  {| d_annassign := a; d_comp_target := b; d_import := c; d_lambda_body := d; d_def_outer := e |}.

Definition refutes (cfg : sdeviations) : Prop :=
  exists params body x,
    forallb wf_top body = true /\ forallb supported body = true /\
    ps_is_local cfg params body x <> py_is_local params body x.

(* x: int = 1 *)
Lemma locals_refuted_D12 : refutes (sw true false false false false).
Proof.
  exists [], [Node TgAnnAssign [] [(FTarget, nm "x"); (FChild, nm "int"); (FChild, cst)]], "x".
  repeat split. vm_compute. discriminate.
Qed.
(* q = [x for x in it] *)
Lemma locals_refuted_D31 : refutes (sw false true false false false).
Proof.
  exists [], [Node TgAssign [] [(FTargets, nm "q");
               (FChild, Node TgComp [] [(FChild, nm "x");
                                        (FChild, Node TgComprehension [] [(FTarget, nm "x"); (FChild, nm "it")])])]], "x".
  repeat split. vm_compute. discriminate.
Qed.
(* import x *)
Lemma locals_refuted_D32 : refutes (sw false false true false false).
Proof.
  exists [], [Node TgImport [] [(FChild, Node TgAlias ["x"] [])]], "x".
  repeat split. vm_compute. discriminate.
Qed.
(* q = lambda: (x := 1) *)
Lemma locals_refuted_D33 : refutes (sw false false false true false).
Proof.
  exists [], [Node TgAssign [] [(FTargets, nm "q");
               (FChild, Node TgLambda [] [(FBody, Node TgNamedExpr [] [(FTarget, nm "x"); (FChild, cst)])])]], "x".
  repeat split. vm_compute. discriminate.
Qed.
(* def q(a=(x := 1)): ... *)
Lemma locals_refuted_D34 : refutes (sw false false false false true).
Proof.
  exists [], [Node TgDef ["q"] [(FOuter, Node TgNamedExpr [] [(FTarget, nm "x"); (FChild, cst)])]], "x".
  repeat split. vm_compute. discriminate.
Qed.

(* the hypotheses are inhabited by a non-trivial body:
     global g
     for a, (b, *c) in it:
         with cm() as w:  import m;  try: (v := 1)  except E as e: del d
     def f(p=(u := 2)): ...                                                                  *)
Definition example_body : list node :=
  [Node TgGlobal ["g"] [];
   Node TgFor [] [(FTarget, Node TgTuple [] [(FElts, nm "a");
                     (FElts, Node TgTuple [] [(FElts, nm "b"); (FElts, Node TgStarred [] [(FStarVal, nm "c")])])]);
                  (FChild, nm "it");
                  (FChild, Node TgWith [] [(FChild, Node TgWithItem [] [(FChild, Node TgCall [] [(FChild, nm "cm")]); (FOptVars, nm "w")]);
                     (FChild, Node TgImport [] [(FChild, Node TgAlias ["m"] [])]);
                     (FChild, Node TgTry [] [(FChild, Node TgOther [] [(FChild, Node TgNamedExpr [] [(FTarget, nm "v"); (FChild, cst)])]);
                        (FChild, Node TgHandler ["e"] [(FChild, nm "E"); (FChild, Node TgDelete [] [(FTargets, nm "d")])])])])];
   Node TgDef ["f"] [(FOuter, Node TgNamedExpr [] [(FTarget, nm "u"); (FChild, cst)])];
   Node TgAssign [] [(FTargets, nm "g"); (FChild, cst)]].

Example locals_equiv_instance :
  forallb wf_top example_body = true /\ forallb supported example_body = true /\ s_all_off sdev_off /\
  map (ps_is_local sdev_off ["p"] example_body) ["a"; "b"; "c"; "w"; "m"; "v"; "e"; "d"; "f"; "u"; "p"; "g"; "it"; "cm"]
  = [true; true; true; true; true; true; true; true; true; true; true; false; false; false].
Proof. repeat split. Qed.

(* ---------- tie: whatever analysis result the conformant Model reproduces satisfies the Spec ---------- *)
From PV Require Import Interp.ScopeCheck.
Lemma subset_In a b : subset a b = true -> forall x, In x a -> In x b.
Proof. unfold subset. rewrite forallb_forall. intros H x Hx. apply smem_In. apply H. assumption. Qed.
Lemma set_eqb_set_eq a b : set_eqb a b = true -> set_eq a b.
Proof. unfold set_eqb. rewrite andb_true_iff. intros [H1 H2] x. split; [apply subset_In|apply subset_In]; assumption. Qed.

Lemma scase_model_implies_spec c : scase_model_ok sdev_off c = true -> sc_same c = true -> scase_spec_ok c = true.
Proof.
  unfold scase_model_ok, scase_spec_ok. rewrite !andb_true_iff.
  intros [[[[[[[[Hwf Hsup] _] Hl] Hg] Hn] _] _] _] Hsame. split; [|assumption].
  apply forallb_forall. intros x _. apply eqb_true_iff.
  rewrite <- (locals_equiv sdev_off (sc_params c) (sc_body c) x) by (try assumption; repeat split).
  unfold obs_is_local, ps_is_local.
  rewrite (smem_set_eq _ _ x (set_eqb_set_eq _ _ Hl)), (smem_set_eq _ _ x (set_eqb_set_eq _ _ Hg)),
          (smem_set_eq _ _ x (set_eqb_set_eq _ _ Hn)). reflexivity.
Qed.
